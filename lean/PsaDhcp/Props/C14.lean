import PsaDhcp.Model.Client
import PsaDhcp.Proofs.ClientP
/-
C14 — The client advances only on replies that are genuinely for its transaction.
(Also the client half of C10: the receive path never panics and ignores everything else.)
-/
namespace PsaDhcp.Props.C14
open PsaDhcp

def Waiting.xid : Waiting → Nat
  | .offer x | .selectingAck _ _ x | .renewingAck _ _ x | .rebindingAck _ _ x => x

def Waiting.expectedType : Waiting → UInt8
  | .offer _ => 2
  | _ => 5

/-- A decoded reply passes exactly when it carries the transaction id in flight, the expected
message type, an assigned address and a server identifier that are neither absent, zero nor
broadcast, at least one router and a lease of at least one minute; for ACKs it must confirm the
offered address, and while selecting or renewing come from the chosen server (while rebinding any
server may answer).  Both directions: dropping any conjunct breaks this theorem. -/
theorem verify_passed_iff (w : Waiting) (m : Msg) (o : DecodedOptions) :
    w.verify m o = .passed ↔
      (m.xid = Waiting.xid w ∧ o.messageType = Waiting.expectedType w ∧
       m.yiaddr ≠ none ∧ m.yiaddr ≠ some Ip4.zero ∧ m.yiaddr ≠ some Ip4.bcast ∧
       o.serverIdentifier ≠ none ∧ o.serverIdentifier ≠ some Ip4.zero ∧ o.serverIdentifier ≠ some Ip4.bcast ∧
       o.routers ≠ [] ∧ 60 ≤ o.leaseSecs ∧
       (match w with
        | .offer _ => True
        | .selectingAck off ch _ | .renewingAck off ch _ => m.yiaddr = off ∧ o.serverIdentifier = ch
        | .rebindingAck off _ _ => m.yiaddr = off)) :=
  Proofs.ClientP.verify_passed_iff w m o

/-- A NAK aborts exactly in the three states that wait for an ACK (whatever else it carries);
while waiting for an OFFER it is just "not the expected type". -/
theorem verify_nack_iff (w : Waiting) (m : Msg) (o : DecodedOptions) :
    w.verify m o = .isNack ↔ (o.messageType = 6 ∧ ∀ x, w ≠ .offer x) := Proofs.ClientP.verify_nack_iff w m o

/-- A received frame is taken as the awaited reply only if it is an IPv4 packet with protocol 17
carrying a UDP datagram to port 68 carrying a DHCP message with the client's own hardware
address that passes the verifier. -/
theorem accept_iff (mac : Bytes) (w : Waiting) (b : Bytes) (m : Msg) (o : DecodedOptions) :
    catchOne mac w b = .ok (.passed m o) ↔
      ∃ ip udp, decodeIPv4 b = .ok ip ∧ ip.proto = 0x11 ∧ decodeUDP ip.data = .ok udp ∧ udp.dstPort = 68 ∧
        decode udp.data = .ok m ∧ m.chaddr = mac ∧ o = decodeOptions m.options ∧ w.verify m o = .passed :=
  Proofs.ClientP.accept_iff mac w b m o

/-- … and aborts the exchange only on a NAK carrying its hardware address. -/
theorem nack_iff (mac : Bytes) (w : Waiting) (b : Bytes) (m : Msg) (o : DecodedOptions) :
    catchOne mac w b = .ok (.nack m o) ↔
      ∃ ip udp, decodeIPv4 b = .ok ip ∧ ip.proto = 0x11 ∧ decodeUDP ip.data = .ok udp ∧ udp.dstPort = 68 ∧
        decode udp.data = .ok m ∧ m.chaddr = mac ∧ o = decodeOptions m.options ∧ w.verify m o = .isNack :=
  Proofs.ClientP.nack_iff mac w b m o

/-- The receive path never indexes out of range, for any byte string. -/
theorem catch_never_panics (mac : Bytes) (w : Waiting) (b : Bytes) (site : String) :
    catchOne mac w b ≠ .error (.panic site) := Proofs.ClientP.catch_never_panics mac w b site

/-- Every other packet is ignored without effect: any run of ignored frames in front of the rest
changes nothing about what the loop returns. -/
theorem ignored_have_no_effect (mac : Bytes) (w : Waiting) (junk rest : List Bytes)
    (h : ∀ b ∈ junk, catchOne mac w b = .ok .ignored) : catchReply mac w (junk ++ rest) = catchReply mac w rest :=
  Proofs.ClientP.ignored_have_no_effect mac w junk rest h

end PsaDhcp.Props.C14
