import PsaDhcp.Proofs.CodeTmpl
/-
C16 on the CODE: `PsaDhcp.Gen.msgtmpl.tmpl_request` is regenerated from /repo's lib/client/msgtmpl/request.go on
every check; the value the code draws from math/rand (the IPv4 identification) is the parameter `rnd`.  The
translated function is `clientRequest` of Model/Client.lean, over which `template_wire` of `Props/C16.lean` is stated.
-/
namespace PsaDhcp.Props.C16Code
open PsaDhcp PsaDhcp.Go PsaDhcp.Code

theorem code_request (xid : UInt32) (mac : Bytes) (msgtype : UInt8) (src dst req sid : Bytes) (rnd : UInt32) (s d : Ip4)
    (hs : ipOf src = some s) (hd : ipOf dst = some d)
    (hreq : req = [] ∨ ∃ r, ipOf req = some r) (hsid : sid = [] ∨ ∃ r, ipOf sid = some r) :
    Gen.msgtmpl.tmpl_request { xid := xid, hwaddr := mac } msgtype src dst req sid rnd =
      .ok (clientRequest mac xid.toNat rnd.toUInt16.toNat msgtype s d (ipOf req) (ipOf sid)) :=
  Proofs.CodeTmpl.request_eq xid mac msgtype src dst req sid rnd s d hs hd hreq hsid

end PsaDhcp.Props.C16Code
