import PsaDhcp.Model.System
import PsaDhcp.Spec.ServerSpec
import PsaDhcp.Proofs.Safety
/-
C03 — Static reservations are exclusive and always honoured.
-/
namespace PsaDhcp.Props.C03
open PsaDhcp PsaDhcp.Spec

/-- No other client is ever offered or acknowledged a statically reserved address. -/
theorem static_exclusive (c : SrvCfg) (b : Boot) (evs : List Ev) (sys : Sys Table) (h : ReachableT c b evs sys) :
    ∀ s ∈ sys.sent, s.kind ≠ .nak → ∀ o ∈ c.overrides, ∀ ip, o.ip = some ip → s.addr = ip.toNat →
      s.rx.msg.chaddr = o.mac :=
  Proofs.Safety.static_exclusive c b evs sys h

/-- A client with a static address is never offered or acknowledged any other address — whatever
it asks for, whatever client identifier it sends, whatever happened before. -/
theorem static_only_address (c : SrvCfg) (b : Boot) (evs : List Ev) (sys : Sys Table) (h : ReachableT c b evs sys) :
    ∀ s ∈ sys.sent, s.kind ≠ .nak → ∀ o ∈ c.overrides, ∀ ip, o.ip = some ip → s.rx.msg.chaddr = o.mac →
      s.addr = ip.toNat :=
  Proofs.Safety.static_only_address c b evs sys h

/-- Every well-formed broadcast DISCOVER of a client with a static address is answered with an
OFFER of exactly that address — in every reachable database state, at every later clock, whatever
permutation, probe outcomes, client identifier or requested address. -/
theorem static_always_offered (c : SrvCfg) (b : Boot) (evs : List Ev) (sys : Sys Table) (h : ReachableT c b evs sys)
    (rx : Rx) (orc : HOracle) (o : Override) (ip : Ip4) (ho : o ∈ c.overrides) (hip : o.ip = some ip)
    (hmac : rx.msg.chaddr = o.mac) (hwf : WellFormedDiscover c rx) (hck : HOracle.ClockOk orc (lastClock b evs)) :
    (handle tableStore c sys.db rx orc).2 = some (leaseFrame c .offer rx.msg ip) :=
  Proofs.Safety.static_always_offered c b evs sys h rx orc o ip ho hip hmac hwf hck

/-- The hardware-address identity is injective in the hardware address (any length). -/
theorem sduid_injective (a b : Bytes) (h : sduid a = sduid b) : a = b := Proofs.Safety.sduid_injective a b h

end PsaDhcp.Props.C03
