import PsaDhcp.Model.Config
import PsaDhcp.Spec.ConfigSpec
import PsaDhcp.Proofs.ConfigP
/-
C18 — Invalid or ambiguous configuration is rejected; valid one is applied exactly.
-/
namespace PsaDhcp.Props.C18
open PsaDhcp PsaDhcp.Spec

/-- The server starts exactly on valid configurations: every way of being invalid — an
unparsable network, lease, address (global or per client), hardware address or dynamic range, a
lease under a minute, a dynamic range or static address outside the network, two entries with the
same address or the same hardware address, a setting that does not fit a DHCP option, the server's
own address outside the network — makes it refuse, in the global section and in every per-client
entry, alone and in combination. -/
theorem starts_iff_valid (r : RawCfg) (clients : List RawClient) (t : Int)
    (hnet : ∀ base p, r.network = some (base, p) → base < 4294967296 ∧ p ≤ 32) :
    (∃ s, newServer tableStore ([] : Table) r clients t = .ok s) ↔ Valid r clients :=
  Proofs.ConfigP.starts_iff_valid r clients t hnet

/-- Whether the server starts does not depend on the order in which the client entries are
visited (Go map iteration order), and when it starts every client is given the same options. -/
theorem order_independent (r : RawCfg) (c₁ c₂ : List RawClient) (t : Int) (hp : List.Perm c₁ c₂)
    (hnet : ∀ base p, r.network = some (base, p) → base < 4294967296 ∧ p ≤ 32) :
    (∀ s₁, newServer tableStore ([] : Table) r c₁ t = .ok s₁ →
      ∃ s₂, newServer tableStore ([] : Table) r c₂ t = .ok s₂ ∧
        (∀ mac, s₁.cfg.dhcpOptions mac = s₂.cfg.dhcpOptions mac) ∧ List.Perm s₁.db.s s₂.db.s ∧
        (s₁.db.netFrom, s₁.db.netTo, s₁.db.dynFrom, s₁.db.dynTo) = (s₂.db.netFrom, s₂.db.netTo, s₂.db.dynFrom, s₂.db.dynTo)) :=
  Proofs.ConfigP.order_independent r c₁ c₂ t hp hnet

/-- When it starts, every global value is in effect. -/
theorem effective_global (r : RawCfg) (clients : List RawClient) (t : Int) (s : Started Table)
    (h : newServer tableStore ([] : Table) r clients t = .ok s) :
    r.selfIp = some s.cfg.selfIp ∧ r.lease = some s.cfg.leaseNs ∧ s.cfg.router = entIp r.router ∧
    ipv4List r.dns = some s.cfg.dns ∧ ipv4List r.ntp = some s.cfg.ntp ∧ s.cfg.domain = r.domain ∧
    (∃ base p, r.network = some (base, p) ∧ (s.db.netFrom, s.db.netTo) = fromTo base p ∧ s.cfg.mask = maskOf p) ∧
    (s.db.dynFrom, s.db.dynTo) = (if r.staticOnly then (0, 0) else match r.dyn with
        | .range a b => (a.toNat, b.toNat)
        | _ => (s.db.netFrom, s.db.netTo)) :=
  Proofs.ConfigP.effective_global r clients t s h

/-- … and every per-client value: nothing is silently dropped.  The entry's address is a
permanent binding of that hardware address, and router / DNS / NTP / hostname are what
`dhcpOptions` sends to it (the entry's value where it sets one, the global value otherwise). -/
theorem effective_client (r : RawCfg) (clients : List RawClient) (t : Int) (s : Started Table)
    (h : newServer tableStore ([] : Table) r clients t = .ok s) (c : RawClient) (hc : c ∈ clients) :
    ∃ mac o, c.mac = some mac ∧ s.cfg.override? mac = some o ∧ o.ip = entIp c.ip ∧
      o.router = (match entIp c.router with | some x => some x | none => s.cfg.router) ∧
      (∃ d, ipv4List c.dns = some d ∧ o.dns = (if d.isEmpty then s.cfg.dns else d)) ∧
      (∃ n, ipv4List c.ntp = some n ∧ o.ntp = (if n.isEmpty then s.cfg.ntp else n)) ∧
      o.hostname = c.hostname ∧
      (∀ ip, c.ip = .ok ip → ∃ b ∈ s.db.s, b.ip = ip.toNat ∧ b.duid = sduid mac ∧ b.perm = true) :=
  Proofs.ConfigP.effective_client r clients t s h c hc

/-- The concrete store and the reference table agree on whether the server starts. -/
theorem start_refines (r : RawCfg) (clients : List RawClient) (t : Int) :
    (∃ s, newServer clientsStore Clients.empty r clients t = .ok s) ↔ (∃ s, newServer tableStore ([] : Table) r clients t = .ok s) :=
  Proofs.ConfigP.start_refines r clients t

/-! Non-vacuity: a valid configuration with one static client. -/
def exRaw : RawCfg :=
  { selfIp := some ⟨10, 0, 0, 1⟩, selfMac := [2, 0, 0, 0, 0, 1], network := some (167772160, 24), lease := some 3600000000000,
    router := .ok ⟨10, 0, 0, 1⟩, dns := [.ok ⟨8, 8, 8, 8⟩], ntp := [], domain := [], dyn := .range ⟨10, 0, 0, 100⟩ ⟨10, 0, 0, 110⟩, staticOnly := false }
def exClient : RawClient := { mac := some [2, 0, 0, 0, 0, 9], ip := .ok ⟨10, 0, 0, 50⟩, router := .empty, dns := [], ntp := [], hostname := [] }
example : (match newServer tableStore ([] : Table) exRaw [exClient] 0 with | .ok _ => true | .error _ => false) = true := by decide

end PsaDhcp.Props.C18
