import PsaDhcp.Model.Resources
import PsaDhcp.Proofs.OsEdge
/-
C19 — No sockets or goroutines leak, and shutdown is prompt (the logic of the three socket
disciplines; which function follows which discipline is pinned in `Expect.lean`, and the real
functions are fault-enumerated against this model by the `resfaults` stream).
-/
namespace PsaDhcp.Props.C19
open PsaDhcp

/-- Under each discipline, for every schedule of outcomes: once the function has returned and the
closer goroutine (if any) has run, every socket opened has been closed and no helper goroutine
remains. -/
theorem no_leak (d : Discipline) (hd : d ≠ .unknown) (os : List Outcome) :
    let s := settle d (rrun d {} os)
    s.running = false → (s.opened = s.closed ∧ s.sockOpen = false ∧ s.closerAlive = false) :=
  Proofs.OsEdge.no_leak d hd os

/-- At most one socket is ever opened per invocation and never closed more often than opened. -/
theorem balance_invariant (d : Discipline) (os : List Outcome) :
    let s := rrun d {} os
    s.closed ≤ s.opened ∧ s.opened ≤ 1 ∧ (s.sockOpen = true ↔ s.opened = s.closed + 1) :=
  Proofs.OsEdge.balance_invariant d os

/-- Prompt shutdown of a read loop guarded by a closer: once the parent context is cancelled the
closer closes the socket, the very next I/O fails and the function returns. -/
theorem closer_shutdown_prompt (os : List Outcome) (o : Outcome) (ho : o = .ioOk ∨ o = .ioFails ∨ o = .bodyReturns)
    (hs : (rrun .closerOnCancel {} os).started = true) :
    (rrun .closerOnCancel {} (os ++ [.parentCancelled, o])).running = false :=
  Proofs.OsEdge.closer_shutdown_prompt os o ho hs

/-- A function that has returned stays returned; its counters no longer change except for the
closer's single Close. -/
theorem returned_is_final (d : Discipline) (s : RState) (o : Outcome) (h : s.running = false) :
    (rstep d s o).running = false ∧ (rstep d s o).opened = s.opened := Proofs.OsEdge.returned_is_final d s o h

end PsaDhcp.Props.C19
