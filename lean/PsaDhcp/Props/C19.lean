import PsaDhcp.Model.Resources
import PsaDhcp.Proofs.OsEdge
import PsaDhcp.Generated.Facts
/-
C19 — No sockets or goroutines leak, and shutdown is prompt (the logic of the three socket
disciplines; which function follows which discipline is pinned in `Expect.lean`, and the real
functions are fault-enumerated against this model by the `resfaults` stream).
-/
namespace PsaDhcp.Props.C19
open PsaDhcp

/-- Under each discipline, for every schedule of outcomes: once the function has returned and the
closer goroutine (if any) has run, every socket opened has been closed and no helper goroutine
remains. -/
theorem no_leak (d : Discipline) (hd : d ≠ .unknown) (os : List Outcome) :
    let s := settle d (rrun d {} os)
    s.running = false → (s.opened = s.closed ∧ s.sockOpen = false ∧ s.closerAlive = false) :=
  Proofs.OsEdge.no_leak d hd os

/-- At most one socket is ever opened per invocation and never closed more often than opened. -/
theorem balance_invariant (d : Discipline) (os : List Outcome) :
    let s := rrun d {} os
    s.closed ≤ s.opened ∧ s.opened ≤ 1 ∧ (s.sockOpen = true ↔ s.opened = s.closed + 1) :=
  Proofs.OsEdge.balance_invariant d os

/-- Prompt shutdown of a read loop guarded by a closer: once the parent context is cancelled the
closer closes the socket, the very next I/O fails and the function returns. -/
theorem closer_shutdown_prompt (os : List Outcome) (o : Outcome) (ho : o = .ioOk ∨ o = .ioFails ∨ o = .bodyReturns)
    (hs : (rrun .closerOnCancel {} os).started = true) :
    (rrun .closerOnCancel {} (os ++ [.parentCancelled, o])).running = false :=
  Proofs.OsEdge.closer_shutdown_prompt os o ho hs

/-- A function that has returned stays returned; its counters no longer change except for the
closer's single Close. -/
theorem returned_is_final (d : Discipline) (s : RState) (o : Outcome) (h : s.running = false) :
    (rstep d s o).running = false ∧ (rstep d s o).opened = s.opened := Proofs.OsEdge.returned_is_final d s o h

/-- A socket constructor whose every error return closes the descriptor first: for every placement of failures (socket(2)
itself, any set-up step), an error return leaves no descriptor behind and a success hands exactly one open descriptor to
the caller. -/
theorem ctor_no_leak (closes : List Bool) (h : closes.all id = true) (sockFails : Bool) (fails : List Bool) :
    let r := ctorRun closes sockFails fails
    (r.handedOut = false → r.opened = r.closed) ∧ (r.handedOut = true → r.opened = r.closed + 1) := by
  unfold ctorRun
  split
  · simp
  · induction closes generalizing fails with
    | nil => simp [ctorSteps]
    | cons c cs ih =>
      simp only [List.all_cons, Bool.and_eq_true, id] at h
      unfold ctorSteps
      split
      · simp [h.1]
      · exact ih h.2 fails.tail

/-- …and only such a constructor: one error return that does not close leaks for some failure placement. -/
theorem ctor_leak_of_unclosed (closes : List Bool) (h : closes.all id = false) :
    ∃ fails, (ctorRun closes false fails).handedOut = false ∧ (ctorRun closes false fails).opened ≠ (ctorRun closes false fails).closed := by
  induction closes with
  | nil => simp at h
  | cons c cs ih =>
    cases c with
    | false => exact ⟨[true], by simp [ctorRun, ctorSteps]⟩
    | true =>
      simp only [List.all_cons, id, Bool.true_and] at h
      obtain ⟨fs, h1, h2⟩ := ih h
      refine ⟨false :: fs, ?_⟩
      simpa [ctorRun, ctorSteps] using ⟨h1, h2⟩

/-- The two constructors of lib/rsocks as they are in the source now (which error returns close the descriptor is
extracted on every run): no failure placement leaks a descriptor. -/
theorem rsocks_ctors_no_leak (sockFails : Bool) (fails : List Bool) :
    (let r := ctorRun Facts.ctorSendCloses sockFails fails
     (r.handedOut = false → r.opened = r.closed) ∧ (r.handedOut = true → r.opened = r.closed + 1)) ∧
    (let r := ctorRun Facts.ctorRecvCloses sockFails fails
     (r.handedOut = false → r.opened = r.closed) ∧ (r.handedOut = true → r.opened = r.closed + 1)) :=
  ⟨ctor_no_leak _ (by decide) sockFails fails, ctor_no_leak _ (by decide) sockFails fails⟩

/-- Non-vacuity: a bind failure in `getRecvSock` (two set-up steps) opens one descriptor and closes it. -/
example : ctorRun [true, true] false [true] = ⟨1, 1, false⟩ ∧ ctorRun [true, true] false [false, true] = ⟨1, 1, false⟩ ∧
    ctorRun [true, true] false [] = ⟨1, 0, true⟩ ∧ ctorRun [true, false] false [false, true] = ⟨1, 0, false⟩ := by decide

end PsaDhcp.Props.C19
