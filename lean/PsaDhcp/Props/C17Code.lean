import PsaDhcp.Proofs.CodeSanitize
/-
C17 on the CODE: the hook environment (`envEntry`, `dumpScriptConf` of lib/client/callback/callback.go) and the
resolv.conf generator (`Run` of lib/resolvconf/resolvconf.go) as translated from the Go source on every check,
including the three regular expressions, which the translator turns into character-class tables (`Go.Regex`) from the
pattern text.  The translated functions equal `envEntry` / `dumpScriptConf` / `resolvRun` of Model/Sanitize.lean, over
which `env_entries_safe`, `resolv_grammar`, `untouched_iff_no_nameserver`, `ack_to_file` (Props/C17.lean) are proved.
-/
namespace PsaDhcp.Props.C17Code
open PsaDhcp PsaDhcp.Go PsaDhcp.Code

/-- `reBadChars.ReplaceAllString(val, "_")` is the model's `sanitize`: every rune outside `[a-zA-Z0-9,.-]` — every
invalid byte, every non-ASCII rune — becomes one underscore. -/
theorem code_sanitize (val : Bytes) :
    Go.reReplaceAll Gen.callback.var_reBadChars val [95] = sanitize val.length val :=
  Proofs.CodeSanitize.reBadChars_eq val

/-- `^[a-zA-Z0-9\.-]+$` and `^[0-9\.]+$` accept exactly the non-empty strings over their class. -/
theorem code_reGoodChars (s : Bytes) : Go.reMatch Gen.resolvconf.var_reGoodChars s = allIn hostChar s :=
  Proofs.CodeSanitize.reGoodChars_eq s

theorem code_reGoodNums (s : Bytes) : Go.reMatch Gen.resolvconf.var_reGoodNums s = allIn numChar s :=
  Proofs.CodeSanitize.reGoodNums_eq s

/-- `envEntry(key, val)` -/
theorem code_envEntry (key : String) (val : Bytes) : Gen.callback.envEntry (str key) val = envEntry key val :=
  Proofs.CodeSanitize.envEntry_eq key val

/-- `dumpScriptConf(c)`: the seven `PSA_DHCPC_*` entries of the model, for every configuration the client builds. -/
theorem code_dumpScriptConf (c : Gen.libif.Ifconfig) (h : IfcWf c) :
    Gen.callback.dumpScriptConf c = .ok (dumpScriptConf (ifcOf c)) :=
  Proofs.CodeSanitize.dumpScriptConf_eq c h

/-- `resolvconf.Run`: for ANY process environment, the file update is requested exactly once with the model's rendering
when there is a valid name server, and not at all otherwise; the result is the update's error. -/
theorem code_resolvconf_run (env : List Bytes) (updErr : GoErr) :
    (Gen.resolvconf.Run (resEnv env updErr)).run [] =
      .ok (match resolvRun env with | some _ => updErr | none => none, (resolvRun env).toList) :=
  Proofs.CodeSanitize.Run_eq env updErr

/-! ### non-vacuity: the translated functions on concrete inputs -/

/-- Shell metacharacters, a newline, `=` and a two-byte rune: one underscore each (`é` is ONE underscore, not two). -/
example : Gen.callback.envEntry (str "DOMAIN_NAME") "a b;c\n=$(x)é".toUTF8.toList =
    "PSA_DHCPC_DOMAIN_NAME=a_b_c____x__".toUTF8.toList := by decide +kernel

/-- Invalid UTF-8 (a stray 0xFF, a truncated two-byte sequence): one underscore per byte. -/
example : Gen.callback.envEntry (str "X") [0x61, 0xFF, 0xC3] = "PSA_DHCPC_X=a__".toUTF8.toList := by decide +kernel

def exIfc : Gen.libif.Ifconfig :=
  { Gen.libif.Ifconfig.zero with
    Router := Go.netIPv4 10 0 0 254, IP := [10, 0, 0, 7], Netmask := [255, 255, 255, 0], MTU := 1500,
    DNS := [Go.netIPv4 10 0 0 1, [8, 8, 8, 8]], DomainName := "lan; rm -rf /".toUTF8.toList,
    LeaseDuration := 3600 * 1000000000 }

example : IfcWf exIfc :=
  ⟨.inr ⟨_, rfl⟩, .inr ⟨_, rfl⟩,
   by intro d hd; simp [exIfc] at hd; rcases hd with rfl | rfl <;> exact ⟨_, rfl⟩,
   .inr rfl, by decide, by decide, by decide⟩

example : Gen.callback.dumpScriptConf exIfc = .ok
    ["PSA_DHCPC_IPV4_ROUTER=10.0.0.254".toUTF8.toList, "PSA_DHCPC_IPV4_ADDRESS=10.0.0.7".toUTF8.toList,
     "PSA_DHCPC_NETMASK=ffffff00".toUTF8.toList, "PSA_DHCPC_DOMAIN_NAME=lan__rm_-rf__".toUTF8.toList,
     "PSA_DHCPC_DNS_LIST=10.0.0.1,8.8.8.8".toUTF8.toList, "PSA_DHCPC_MTU=1500".toUTF8.toList,
     "PSA_DHCPC_LEASE_SEC=3600".toUTF8.toList] := by decide +kernel

/-- An environment with noise (an entry without `=`, an empty entry, unrelated variables), a domain, a later domain
that the pattern rejects (it does not override), a DNS list with a hostile element, and a second list ending in a
comma (the empty last element is dropped). -/
def exEnv : List Bytes :=
  [str "PATH=/bin", str "NOEQUALS", str "PSA_DHCPC_DOMAIN_NAME=example.org",
   str "PSA_DHCPC_DNS_LIST=10.0.0.1,evil;rm,8.8.8.8", str "PSA_DHCPC_MTU=1500", str "",
   str "PSA_DHCPC_DOMAIN_NAME=bad domain", str "PSA_DHCPC_DNS_LIST=1.1.1.1,"]

/-- Exactly one update, with exactly this text; `Run` returns the update's error. -/
example : (Gen.resolvconf.Run (resEnv exEnv (some "disk full"))).run [] = .ok (some "disk full",
    ["# written by psa-dhcpc\nsearch example.org\nnameserver 10.0.0.1\nnameserver 8.8.8.8\nnameserver 1.1.1.1\n".toUTF8.toList]) := by
  decide +kernel

/-- No valid name server: no update at all, and no error. -/
example : (Gen.resolvconf.Run (resEnv [str "PSA_DHCPC_DOMAIN_NAME=example.org", str "PSA_DHCPC_DNS_LIST=evil;rm,,"]
    (some "disk full"))).run [] = .ok (none, []) := by decide +kernel

end PsaDhcp.Props.C17Code
