import PsaDhcp.Proofs.CodeFull
import PsaDhcp.Props.C01
import PsaDhcp.Props.C04Code
/-
C01–C11 on the CODE, the whole server stack.  `genStore` (Code/Bridge14.lean) is the clients store whose operations run
the translated lib/server/ipdb/clients/clients.go.  With it underneath,

* the SYSTEM model (`Sys.run`: handlers of any number of packets interleaved step by step, the model over which the
  safety theorems C01–C09 are proved) sends, from boot, exactly the replies it sends over the abstract lease table
  (`code_system_refines_table`) — the statement `C01.system_refines_table` makes about `Model/Clients.lean`, now made about
  the code of clients.go itself;
* one packet pushed through the three translated layers — `Gen.server.server_handleMsg` over `Gen.ipdb.IPDB_*` over
  `Gen.clients.Clients_*`, nothing between the socket and the Go map left to a hand-written model — ends in the frame the
  model's `handle` produces over `Model/Clients.lean` and in a table that represents the model's (`code_full_handleMsg`).

Only property theorems and non-vacuity examples; the proofs are in `Proofs/CodeFull.lean`.
-/
namespace PsaDhcp.Props.C01CodeFull
open PsaDhcp PsaDhcp.Go PsaDhcp.Code PsaDhcp.Spec

/-- `NewClients()` is the table the system boots with. -/
theorem code_gEmpty : Gen.clients.NewClients = .ok (some gEmpty.1) ∧ GRel gEmpty Clients.empty 0 :=
  Proofs.CodeFull.gEmpty_ok

/-- The translated clients.go, as a store, is well-formed in the sense the lease-database theorems need — on EVERY
table and heap, represented or not. -/
theorem genStore_wf : StoreWf genStore := Proofs.CodeFull.genStore_wf

/-- Every address it hands back is a `uint32`. -/
theorem genStore_bounded (db : IPDB GTbl) (rx : Rx) (o : HOracle) : LookupsBounded genStore db rx o :=
  Proofs.CodeFull.genStore_bounded db rx o

/-- Below a lease database the restriction `Store.norm` (32-bit addresses, permanent ⇒ expiry 0) is invisible: every
call the `IPDB` operations make has that form. -/
theorem norm_handle {σ : Type} (S : Store σ) (c : SrvCfg) (db : IPDB σ) (rx : Rx) (o : HOracle) :
    handle S.norm c db rx o = handle S c db rx o := Proofs.CodeFull.norm_handle S c db rx o

theorem norm_run {σ : Type} (S : Store σ) (c : SrvCfg) (s : Sys σ) (evs : List Ev) :
    Sys.run S.norm c s evs = Sys.run S c s evs := Proofs.CodeFull.norm_run S c s evs

theorem norm_serverInit {σ : Type} (S : Store σ) (e : σ) (c : SrvCfg) (base p : Nat) (dyn : Option (Ip4 × Ip4))
    (staticOnly : Bool) (t : Int) :
    serverInit S.norm e c base p dyn staticOnly t = serverInit S e c base p dyn staticOnly t :=
  Proofs.CodeFull.norm_serverInit S e c base p dyn staticOnly t

/-- The translated clients.go simulates `Model/Clients.lean` operation by operation, for every table it represents
(`CRep`), every clock and every argument. -/
theorem genStore_sim : Proofs.Ipdb.StoreSim genStore.norm clientsStore.norm GRel := Proofs.CodeFull.genStore_sim

/-- The system over the translated clients table, from boot, for every configuration and every interleaving with
non-decreasing clocks: it starts iff the system over the abstract table starts, and sends the same replies (time, kind,
address, client, frame). -/
theorem code_system_refines_table (c : SrvCfg) (b : Boot) (evs : List Ev) (hm : EvMonotone evs)
    (h0 : ∀ e ∈ evs.head?, b.t0 ≤ e.t) :
    (serverInit genStore gEmpty c b.base b.p b.dyn b.staticOnly b.t0).isSome =
      (serverInit tableStore ([] : Table) c b.base b.p b.dyn b.staticOnly b.t0).isSome ∧
    ∀ dbg dbt, serverInit genStore gEmpty c b.base b.p b.dyn b.staticOnly b.t0 = some dbg →
      serverInit tableStore ([] : Table) c b.base b.p b.dyn b.staticOnly b.t0 = some dbt →
      ((Sys.run genStore c { db := dbg } evs).sent.map fun s => (s.t, s.kind, s.addr, s.duid, s.frame)) =
      ((Sys.run tableStore c { db := dbt } evs).sent.map fun s => (s.t, s.kind, s.addr, s.duid, s.frame)) :=
  Proofs.CodeFull.system_refines_table c b evs hm h0

/-- One packet through the three translated layers.  `dbg` is a lease database over the translated table, `dbc` one
over `Model/Clients.lean` with the same ranges whose table `dbg`'s represents.  The run never panics, sends the frame of
the model's `handle` (or none), and ends in a table that represents the model's. -/
theorem code_full_handleMsg (c : SrvCfg) (sx : Gen.server.server) (dbg : IPDB GTbl) (dbc : IPDB Clients)
    (rx : Rx) (o : HOracle) (rnd : Int) (hsx : SrvOf sx c) (hm : MsgRanges rx.msg) (hdb : DbBounded dbg)
    (hrel : Proofs.Ipdb.DbRel GRel dbg dbc 0) :
    ∃ st, (Gen.server.server_handleMsg (srvEnvGen genStore c o) sx (ipToGen rx.src) (ipToGen rx.dst) (msgToGen rx.msg) rnd).run
              { db := dbg, lookups := 0, sent := [] } = .ok ((), st)
      ∧ st.sent = (handle clientsStore c dbc rx o).2.toList
      ∧ Proofs.Ipdb.DbRel GRel st.db (handle clientsStore c dbc rx o).1 0 :=
  Proofs.CodeFull.full_handleMsg c sx dbg dbc rx o rnd hsx hm hdb hrel

/-- Whole sequential histories through the three translated layers: any list of received packets, handled one after the
other, never panics, sends exactly the frames of the model handling the same packets over `Model/Clients.lean`
(`handleSeq`), and ends in a table that represents the model's.  Each step of `handleSeq` is a run of the system model
(`Proofs.Liveness.handle_is_a_run_gen`), over which the safety theorems of C01–C09 hold for every run. -/
theorem code_full_sequence (c : SrvCfg) (sx : Gen.server.server) (dbg : IPDB GTbl) (dbc : IPDB Clients)
    (hist : List (Rx × HOracle × Int)) (hsx : SrvOf sx c) (hm : ∀ x ∈ hist, MsgRanges x.1.msg) (hdb : DbBounded dbg)
    (hrel : Proofs.Ipdb.DbRel GRel dbg dbc 0) :
    ∃ dbg', stackSeq genStore c sx dbg hist =
        .ok (dbg', (handleSeq clientsStore c dbc (hist.map fun x => (x.1, x.2.1))).2)
      ∧ Proofs.Ipdb.DbRel GRel dbg' (handleSeq clientsStore c dbc (hist.map fun x => (x.1, x.2.1))).1 0 :=
  Proofs.CodeFull.full_sequence c sx dbg dbc hist hsx hm hdb hrel

/-! Non-vacuity: the run of `Props/C04Code.lean` (a DISCOVER with the broadcast flag into 192.168.1.1–254) with the empty
translated table underneath. -/

def exDbg : IPDB GTbl := { C04Code.exDb with s := gEmpty }

theorem ex_rel : Proofs.Ipdb.DbRel GRel exDbg { C04Code.exDb with s := Clients.empty } 0 :=
  ⟨rfl, rfl, rfl, rfl, code_gEmpty.2⟩

theorem ex_bounded : DbBounded exDbg := by unfold DbBounded; decide

example (rnd : Int) :
    ∃ st, (Gen.server.server_handleMsg (srvEnvGen genStore C04Code.exCfg C04Code.exOracle) C04Code.exSrv
              (ipToGen C04Code.exRx.src) (ipToGen C04Code.exRx.dst) (msgToGen C04Code.exRx.msg) rnd).run
              { db := exDbg, lookups := 0, sent := [] } = .ok ((), st)
      ∧ st.sent = (handle clientsStore C04Code.exCfg { C04Code.exDb with s := Clients.empty } C04Code.exRx C04Code.exOracle).2.toList
      ∧ Proofs.Ipdb.DbRel GRel st.db
          (handle clientsStore C04Code.exCfg { C04Code.exDb with s := Clients.empty } C04Code.exRx C04Code.exOracle).1 0 :=
  code_full_handleMsg C04Code.exCfg C04Code.exSrv exDbg _ C04Code.exRx C04Code.exOracle rnd C04Code.ex_srvOf
    C04Code.ex_msgRanges ex_bounded ex_rel

/-- …and the same DISCOVER twice, as a history. -/
example (r1 r2 : Int) :
    ∃ dbg', stackSeq genStore C04Code.exCfg C04Code.exSrv exDbg
        [(C04Code.exRx, C04Code.exOracle, r1), (C04Code.exRx, C04Code.exOracle, r2)] =
        .ok (dbg', (handleSeq clientsStore C04Code.exCfg { C04Code.exDb with s := Clients.empty }
                      [(C04Code.exRx, C04Code.exOracle), (C04Code.exRx, C04Code.exOracle)]).2) :=
  let ⟨d, h, _⟩ := code_full_sequence C04Code.exCfg C04Code.exSrv exDbg _
    [(C04Code.exRx, C04Code.exOracle, r1), (C04Code.exRx, C04Code.exOracle, r2)] C04Code.ex_srvOf
    (by intro x hx; simp only [List.mem_cons, List.mem_nil_iff, or_false] at hx; rcases hx with rfl | rfl <;> exact C04Code.ex_msgRanges)
    ex_bounded ex_rel
  ⟨d, h⟩

end PsaDhcp.Props.C01CodeFull
