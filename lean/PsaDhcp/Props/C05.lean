import PsaDhcp.Model.Verdict
import PsaDhcp.Model.System
import PsaDhcp.Spec.ServerSpec
import PsaDhcp.Proofs.Liveness
/-
C05 — Offers are held, leases last as long as advertised, addresses are stable.
-/
namespace PsaDhcp.Props.C05
open PsaDhcp PsaDhcp.Spec

/-- A grant (OFFER = 15 s hold, ACK = lease duration) stays in force for its whole advertised
time, in every reachable state, whatever any client — the holder included — sent in between: as
long as the grant has not run out the address is bound to that holder. -/
theorem lease_not_shortened (c : SrvCfg) (b : Boot) (evs : List Ev) (sys : Sys Table) (h : ReachableT c b evs sys)
    (hl : 0 ≤ c.leaseNs) :
    ∀ s ∈ sys.sent, s.kind ≠ .nak → ∀ t, lastClock b evs ≤ t → t ≤ s.t + s.ttl c →
      ∃ bd, sys.db.s.liveIp t s.addr = some bd ∧ bd.duid = s.duid ∧ s.t + s.ttl c ≤ bd.exp :=
  Proofs.Liveness.lease_not_shortened c b evs sys h hl

/-- Once an address is offered (or acknowledged) to a client, its REQUEST designating that
address whose confirming database call happens within the hold (lease) time is acknowledged,
absent an address conflict — in every state reachable after the grant, i.e. whatever other
clients' packets were handled in between. -/
theorem offer_then_ack (c : SrvCfg) (b : Boot) (evs : List Ev) (sys : Sys Table) (h : ReachableT c b evs sys)
    (hl : 0 ≤ c.leaseNs) (s : Sent) (hs : s ∈ sys.sent) (hk : s.kind ≠ .nak)
    (rx : Rx) (o : HOracle) (hck : HOracle.ClockOk o (lastClock b evs))
    (hreq : (decodeOptions rx.msg.options).messageType = 3)
    (hmac : rx.msg.chaddr ≠ c.selfMac) (hself : (decodeOptions rx.msg.options).requestedIP ≠ some c.selfIp)
    (hd : (getDuid tableStore sys.db o.t0 rx.msg.chaddr (decodeOptions rx.msg.options).clientIdentifier).2 = s.duid)
    (hw : desired (classify c.selfIp rx.dst (decodeOptions rx.msg.options).serverIdentifier (decodeOptions rx.msg.options).requestedIP)
            rx.src (decodeOptions rx.msg.options).requestedIP = some (Ip4.ofNat s.addr))
    (ht : o.t2 ≤ s.t + s.ttl c) (hp : o.probeFree = true) :
    (handleV tableStore c sys.db rx o).2 = .ack s.addr :=
  Proofs.Liveness.offer_then_ack c b evs sys h hl s hs hk rx o hck hreq hmac hself hd hw ht hp

/-- Every renewal or new DISCOVER by a client while its grant runs yields the same address: two
grants to one holder whose times overlap carry the same address. -/
theorem same_address (c : SrvCfg) (b : Boot) (evs : List Ev) (sys : Sys Table) (h : ReachableT c b evs sys)
    (hl : 0 ≤ c.leaseNs) :
    ∀ s₁ ∈ sys.sent, ∀ s₂ ∈ sys.sent, s₁.kind ≠ .nak → s₂.kind ≠ .nak → s₁.duid = s₂.duid →
      s₁.t ≤ s₂.t → s₂.t ≤ s₁.t + s₁.ttl c → s₂.addr = s₁.addr :=
  Proofs.Liveness.same_address c b evs sys h hl

/-- A DISCOVER by a client that holds a running grant is offered the address it holds. -/
theorem discover_while_bound (c : SrvCfg) (b : Boot) (evs : List Ev) (sys : Sys Table) (h : ReachableT c b evs sys)
    (hl : 0 ≤ c.leaseNs) (s : Sent) (hs : s ∈ sys.sent) (hk : s.kind ≠ .nak)
    (rx : Rx) (o : HOracle) (hck : HOracle.ClockOk o (lastClock b evs)) (hwf : WellFormedDiscover c rx)
    (hd : (getDuid tableStore sys.db o.t0 rx.msg.chaddr (decodeOptions rx.msg.options).clientIdentifier).2 = s.duid)
    (ht : o.t2 ≤ s.t + s.ttl c) :
    (handleV tableStore c sys.db rx o).2 = .offer s.addr :=
  Proofs.Liveness.discover_while_bound c b evs sys h hl s hs hk rx o hck hwf hd ht

/-- A client asking for a specific free address of the pool is offered that address. -/
theorem suggestion_honoured (c : SrvCfg) (db : IPDB Table) (rx : Rx) (o : HOracle) (n : Nat)
    (hx : db.s.Exclusive o.t0) (hck : o.t0 ≤ o.t1 ∧ o.t1 ≤ (o.iters 0).now ∧ (o.iters 0).now ≤ o.t2)
    (hwf : WellFormedDiscover c rx)
    (hnb : let g := getDuid tableStore db o.t0 rx.msg.chaddr (decodeOptions rx.msg.options).clientIdentifier
           ∀ t, o.t0 ≤ t → g.1.s.liveDuid t g.2 = none)
    (hen : ¬ (db.dynTo = 0 ∧ db.dynFrom = 0))
    (hs : db.toUip (decodeOptions rx.msg.options).requestedIP = .ok n)
    (hr : db.dynFrom ≤ n ∧ n ≤ db.dynTo ∧ db.dynTo < 4294967296)
    (hu : ∀ t, o.t0 ≤ t → db.s.liveIp t n = none) (hv : IPDB.validUip n = true)
    (hf : (o.iters 0).free = true ∧ (o.iters 0).cancelled = false) :
    (handleV tableStore c db rx o).2 = .offer n :=
  Proofs.Liveness.suggestion_honoured c db rx o n hx hck hwf hnb hen hs hr hu hv hf

/-- The server stays silent on a well-formed DISCOVER for lack of addresses only when no eligible
address is left: every address of the dynamic range was examined and found bound, ending in .0 or
.255, or in conflict (or searching is disabled). The dynamic range lies inside the managed range of the
network (`hnet`; `server.New` guarantees it — without it the prover produced a counterexample, kept
as `Proofs.Liveness.silent_only_if_exhausted_false`: a search result outside the network is refused
by the confirming update). -/
theorem silent_only_if_exhausted (c : SrvCfg) (db : IPDB Table) (rx : Rx) (o : HOracle)
    (hx : db.s.Exclusive o.t0) (hwf : WellFormedDiscover c rx)
    (hnb : let g := getDuid tableStore db o.t0 rx.msg.chaddr (decodeOptions rx.msg.options).clientIdentifier
           g.1.s.liveDuid o.t1 g.2 = none)
    (hperm : List.Perm o.perm (List.range (1 + db.dynTo - db.dynFrom)))
    (hr : db.dynFrom ≤ db.dynTo ∧ db.dynTo < 4294967296) (hen : ¬ (db.dynTo = 0 ∧ db.dynFrom = 0))
    (hnet : db.netFrom ≤ db.dynFrom ∧ db.dynTo ≤ db.netTo)
    (hnc : ∀ i, (o.iters i).cancelled = false)
    (hck : o.t0 ≤ o.t1 ∧ o.t1 ≤ (o.iters 0).now ∧ (∀ i, (o.iters i).now ≤ (o.iters (i + 1)).now) ∧ ∀ i, (o.iters i).now ≤ o.t2)
    (hsil : (handleV tableStore c db rx o).2 = .silent) :
    ∀ a, db.dynFrom ≤ a → a ≤ db.dynTo →
      ∃ i, (db.s.liveIp (o.iters i).now a).isSome = true ∨ IPDB.validUip a = false ∨ (o.iters i).free = false :=
  Proofs.Liveness.silent_only_if_exhausted_repaired c db rx o hx hwf hnb hperm hr hen hnet hnc hck hsil

end PsaDhcp.Props.C05
