import PsaDhcp.Proofs.CodeRun
/-
C10 / C09 on the CODE: the server's receive loop `(*server).Run` (lib/server/run.go) as translated from the Go source on
every check.  For every list of frames the socket delivers (any bytes, any lengths — a read stores at most the 4096
bytes of the buffer) the loop never panics — no index or slice expression of the decode chain leaves the packet — it
starts one handler for exactly the frames that the model's `rxChain` accepts, with exactly the decoded source,
destination and message, drops everything else without any other effect, and returns the read error once the socket
is closed.  Every packet is copied out of the receive buffer before it is decoded (`pkt`), so what a handler gets does
not depend on later frames.
-/
namespace PsaDhcp.Props.C10Code
open PsaDhcp PsaDhcp.Go PsaDhcp.Code

/-- The receive loop over the frames `fs` (then the socket is closed): handlers started, in order, are those of the
frames the decode chain accepts; nothing else happens; the loop returns the read error. -/
theorem code_run (sx : Gen.server.server) (fs : List Bytes) (pings : List (Option Bytes)) (fuel : Nat)
    (hf : fs.length < fuel) :
    (Gen.server.server_Run (runEnv none) sx fuel).run { rest := fs, pings := pings, handled := [] } =
      .ok (readClosed, { rest := [], pings := pings, handled := fs.filterMap fun f => handlerArgs (f.take 4096) }) :=
  Proofs.CodeRun.Run_eq sx fs pings fuel hf

/-- If the receive socket cannot be opened, `Run` returns that error and does nothing. -/
theorem code_run_open_fails (sx : Gen.server.server) (st : RunState) (fuel : Nat) (e : String) :
    (Gen.server.server_Run (runEnv (some e)) sx fuel).run st = .ok (some e, st) :=
  Proofs.CodeRun.Run_open_fails sx st fuel e

/-- `handlerArgs` is the model's receive chain: a handler is started exactly when `rxChain` yields a message, and with
that message and those addresses. -/
theorem handlerArgs_is_rxChain (b : Bytes) :
    (handlerArgs b = none ↔ rxChain b = .ok none) ∧
    ∀ src dst m, handlerArgs b = some (src, dst, m) →
      ∃ rx, rxChain b = .ok (some rx) ∧ src = ipToGen rx.src ∧ dst = ipToGen rx.dst ∧ m = msgToGen rx.msg :=
  Proofs.CodeRun.handlerArgs_is_rxChain b

/-! ### Non-vacuity: the translated `Run`, executed on concrete frames

The kernel evaluates the translated loop itself (buffer of 4096 zero bytes, `readInto`, `copyAt`, the three decoders);
`decide +kernel` adds no axiom. -/

deriving instance DecidableEq for RunState

/-- Three bytes of junk. -/
def junkFrame : Bytes := [1, 2, 3]

/-- An IPv4 header and nothing else (total length 20): accepted by `DecodeIPv4`, dropped by `DecodeUDP`. -/
def hdrOnlyFrame : Bytes := [0x45, 0, 0, 20, 0, 0, 0, 0, 64, 17, 0, 0, 10, 0, 0, 1, 10, 0, 0, 2]

/-- `0.0.0.0:68 → 255.255.255.255:67`, a BOOTREQUEST with xid `0xdeadbeef`, hardware address `02:00:00:00:00:01`,
the magic cookie and an end option, followed by `pad` bytes of padding. -/
def requestFrame (tlen ulen : List UInt8) (pad : Nat) : Bytes :=
  [0x45, 0] ++ tlen ++ [0, 0, 0, 0, 64, 17, 0, 0, 0, 0, 0, 0, 255, 255, 255, 255] ++
  [0, 68, 0, 67] ++ ulen ++ [0, 0] ++
  [1, 1, 6, 0, 0xde, 0xad, 0xbe, 0xef] ++ List.replicate 20 0 ++ [2, 0, 0, 0, 0, 1] ++ List.replicate 202 0 ++
  [99, 130, 83, 99, 0xff] ++ List.replicate pad 0

/-- 269 bytes: total length `0x010d`, UDP length `0x00f9`. -/
def validFrame : Bytes := requestFrame [0x01, 0x0d] [0x00, 0xf9] 0

def validMsg : Gen.dhcpmsg.Message :=
  { Op := 1, Htype := 1, Hops := 0, Xid := 0xdeadbeef, Secs := 0, Flags := 0,
    ClientIP := netIPv4 0 0 0 0, YourIP := netIPv4 0 0 0 0, NextIP := netIPv4 0 0 0 0, RelayIP := netIPv4 0 0 0 0,
    ClientMAC := [2, 0, 0, 0, 0, 1], ServerHostName := List.replicate 64 0, BootFilename := List.replicate 128 0,
    Cookie := 0x63825363, Options := [] }

/-- Junk and a bare header start nothing; the valid frame starts one handler with the decoded addresses and message;
the pings are untouched; the loop ends with the read error. -/
example :
    (Gen.server.server_Run (runEnv none) Gen.server.server.zero 4).run
        { rest := [junkFrame, hdrOnlyFrame, validFrame], pings := [some [7]], handled := [] } =
      .ok (readClosed,
        { rest := [], pings := [some [7]], handled := [(netIPv4 0 0 0 0, netIPv4 255 255 255 255, validMsg)] }) := by
  decide +kernel

/-- Only junk: nothing is handled. -/
example :
    (Gen.server.server_Run (runEnv none) Gen.server.server.zero 4).run
        { rest := [junkFrame, [], hdrOnlyFrame], pings := [], handled := [] } =
      .ok (readClosed, { rest := [], pings := [], handled := [] }) := by
  decide +kernel

/-- A frame longer than the buffer is seen through its first 4096 bytes only: a 4100-byte frame whose header announces
4096 bytes is handled (as Go's `Read` into a 4096-byte slice would have it); the same frame announcing its true length
is dropped as truncated. -/
example :
    (Gen.server.server_Run (runEnv none) Gen.server.server.zero 3).run
        { rest := [requestFrame [0x10, 0x00] [0x0f, 0xec] 3831, requestFrame [0x10, 0x04] [0x0f, 0xf0] 3831],
          pings := [], handled := [] } =
      .ok (readClosed,
        { rest := [], pings := [], handled := [(netIPv4 0 0 0 0, netIPv4 255 255 255 255, validMsg)] }) := by
  decide +kernel

/-- With exactly `fs.length` fuel the loop runs out of fuel (the bound `fs.length < fuel` of `code_run` is sharp). -/
example :
    (Gen.server.server_Run (runEnv none) Gen.server.server.zero 1).run
        { rest := [junkFrame], pings := [], handled := [] } =
      .error (.panic "fuel:server.server_Run.loop1") := by
  decide +kernel

/-- The statement of `code_run` on these frames is the same list. -/
example :
    [junkFrame, hdrOnlyFrame, validFrame].filterMap (fun f => handlerArgs (f.take 4096)) =
      [(netIPv4 0 0 0 0, netIPv4 255 255 255 255, validMsg)] := by
  decide +kernel

end PsaDhcp.Props.C10Code
