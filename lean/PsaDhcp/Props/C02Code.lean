import PsaDhcp.Proofs.CodeIpdb
/-
C02/C03 on the CODE: the address arithmetic of lib/server/ipdb (`fromTo`, `toUip`, `InManagedRange`) and the
internal identity of lib/server (`duidFromHwAddr`) as translated from the Go source coincide with the models.
-/
namespace PsaDhcp.Props.C02Code
open PsaDhcp PsaDhcp.Go PsaDhcp.Code

/-- `fromTo(network, netmask)` (uint32 `&`, `^`, wrap-around `+`) is the model's managed range: network and
broadcast address excluded for every prefix shorter than /32. -/
theorem code_fromTo (network netmask : Bytes) (base p : Nat) (hb : base < 4294967296) (hp : p ≤ 32)
    (hn : ipOf network = some (Ip4.ofNat base)) (hm : netmask = (Ip4.ofNat (4294967296 - 2 ^ (32 - p))).bytes) :
    Gen.ipdb.fromTo network netmask = .ok (UInt32.ofNat (fromTo base p).1, UInt32.ofNat (fromTo base p).2, none) :=
  Proofs.CodeIpdb.fromTo_eq network netmask base p hb hp hn hm

theorem code_toUip {σ : Type} (ix : Gen.ipdb.IPDB) (db : IPDB σ) (ip : Bytes)
    (h1 : db.netFrom = ix.netFrom.toNat) (h2 : db.netTo = ix.netTo.toNat) :
    Gen.ipdb.IPDB_toUip ix ip = .ok (toUipToGen (db.toUip (ipOf ip))) := Proofs.CodeIpdb.toUip_eq ix db ip h1 h2

theorem code_inManagedRange {σ : Type} (ix : Gen.ipdb.IPDB) (db : IPDB σ) (ip : Bytes)
    (h1 : db.netFrom = ix.netFrom.toNat) (h2 : db.netTo = ix.netTo.toNat) :
    Gen.ipdb.IPDB_InManagedRange ix ip = .ok (db.inManagedRange (ipOf ip)) := Proofs.CodeIpdb.InManagedRange_eq ix db ip h1 h2

/-- The server's internal identity of a hardware address: `00 03 00 00 ‖ hwaddr`. -/
theorem code_duidFromHwAddr (hw : Bytes) : Gen.server.duidFromHwAddr hw = sduid hw := Proofs.CodeIpdb.duidFromHwAddr_eq hw

example : Gen.ipdb.fromTo [10, 0, 0, 77] [255, 255, 255, 0] = .ok (0x0a000001, 0x0a0000fe, none) := by decide

end PsaDhcp.Props.C02Code
