import PsaDhcp.Model.Verdict
import PsaDhcp.Spec.ServerSpec
import PsaDhcp.Proofs.Decision
/-
C04 — REQUEST verdicts follow the sender's binding and the message's addressing.
Decision logic stated outright over the handler's verdict (`handleV`), tied to the frames by
`handle_eq_handleV`.
-/
namespace PsaDhcp.Props.C04
open PsaDhcp PsaDhcp.Spec

/-- `handle` is `handleV` followed by frame assembly. -/
theorem handle_eq_handleV {σ : Type} (S : Store σ) (c : SrvCfg) (db : IPDB σ) (rx : Rx) (o : HOracle) :
    handle S c db rx o = ((handleV S c db rx o).1, (handleV S c db rx o).2.frame c rx.msg) :=
  Proofs.Decision.handle_eq_handleV S c db rx o

/-- A REQUEST is acknowledged exactly when: it is not from the server's own hardware address and
does not ask for the server's own address; its addressing classifies it (RFC 2131 table 4) and
designates an in-network address `want` (requested-address option when selecting / rebooting,
source address when renewing / rebinding); the sender currently holds the binding for exactly
`want`; the probe found no other owner; and the confirming update succeeded.  The ACK carries
`want`. -/
theorem ack_iff {σ : Type} (S : Store σ) (c : SrvCfg) (db : IPDB σ) (rx : Rx) (o : HOracle) (a : Nat)
    (hreq : (decodeOptions rx.msg.options).messageType = 3) :
    (handleV S c db rx o).2 = .ack a ↔
      (let opts := decodeOptions rx.msg.options
       let g := getDuid S db o.t0 rx.msg.chaddr opts.clientIdentifier
       rx.msg.chaddr ≠ c.selfMac ∧ opts.requestedIP ≠ some c.selfIp ∧
       ∃ want, desired (classify c.selfIp rx.dst opts.serverIdentifier opts.requestedIP) rx.src opts.requestedIP = some want ∧
         g.1.inManagedRange (some want) = true ∧ want.toNat = a ∧
         (g.1.lookupByDuid S o.t1 g.2).2 = .ok a ∧ o.probeFree = true ∧
         ((g.1.lookupByDuid S o.t1 g.2).1.updateClient S o.t2 (some (Ip4.ofNat a)) g.2 c.leaseNs).2 = .ok ()) :=
  Proofs.Decision.ack_iff S c db rx o a hreq

/-- A REQUEST is never answered with an OFFER. -/
theorem request_never_offered {σ : Type} (S : Store σ) (c : SrvCfg) (db : IPDB σ) (rx : Rx) (o : HOracle) (a : Nat)
    (hreq : (decodeOptions rx.msg.options).messageType = 3) : (handleV S c db rx o).2 ≠ .offer a :=
  Proofs.Decision.request_never_offered S c db rx o a hreq

/-- A REQUEST that names a different server (a four-byte server identifier other than the server's
address), designates an address outside the managed network, is unicast to some other destination,
or carries the server's own hardware address is never answered, and over the reference table it
changes nothing at all. -/
theorem silent_and_unchanged (c : SrvCfg) (db : IPDB Table) (rx : Rx) (o : HOracle)
    (hreq : (decodeOptions rx.msg.options).messageType = 3)
    (h : (let opts := decodeOptions rx.msg.options
          (∃ s, opts.serverIdentifier = some s ∧ s ≠ c.selfIp) ∨
          (∃ want, desired (classify c.selfIp rx.dst opts.serverIdentifier opts.requestedIP) rx.src opts.requestedIP = some want ∧
             db.inManagedRange (some want) = false) ∨
          (rx.dst ≠ Ip4.bcast ∧ rx.dst ≠ c.selfIp) ∨
          rx.msg.chaddr = c.selfMac)) :
    handleV tableStore c db rx o = (db, .silent) := Proofs.Decision.silent_and_unchanged c db rx o hreq h

/-- A well-formed REQUEST that selects this server, or renews by unicast to it (in fact any
classified REQUEST), for an in-network address the sender is not bound to is answered with NAK. -/
theorem nak_when_not_bound {σ : Type} (S : Store σ) (c : SrvCfg) (db : IPDB σ) (rx : Rx) (o : HOracle) (want : Ip4)
    (hreq : (decodeOptions rx.msg.options).messageType = 3)
    (hmac : rx.msg.chaddr ≠ c.selfMac) (hself : (decodeOptions rx.msg.options).requestedIP ≠ some c.selfIp)
    (hw : desired (classify c.selfIp rx.dst (decodeOptions rx.msg.options).serverIdentifier (decodeOptions rx.msg.options).requestedIP)
            rx.src (decodeOptions rx.msg.options).requestedIP = some want)
    (hin : (getDuid S db o.t0 rx.msg.chaddr (decodeOptions rx.msg.options).clientIdentifier).1.inManagedRange (some want) = true)
    (hnb : let g := getDuid S db o.t0 rx.msg.chaddr (decodeOptions rx.msg.options).clientIdentifier
           (g.1.lookupByDuid S o.t1 g.2).2 ≠ .ok want.toNat) :
    (handleV S c db rx o).2 = .nak := Proofs.Decision.nak_when_not_bound S c db rx o want hreq hmac hself hw hin hnb

/-- The classification is the RFC 2131 table: selecting ⇔ broadcast, server identifier = this
server, requested address present; renewing ⇔ unicast to this server with neither option; …
(for a server address other than the limited broadcast address: with `self = 255.255.255.255` a
broadcast REQUEST with neither option classifies as renewing, not rebinding). -/
theorem classify_table (self dst : Ip4) (sid req : Option Ip4) (hs : self ≠ Ip4.bcast) :
    (classify self dst sid req = .selecting ↔ dst = Ip4.bcast ∧ sid = some self ∧ req ≠ none) ∧
    (classify self dst sid req = .initReboot ↔ dst = Ip4.bcast ∧ sid = none ∧ req ≠ none) ∧
    (classify self dst sid req = .renewing ↔ dst = self ∧ dst ≠ Ip4.bcast ∧ sid = none ∧ req = none) ∧
    (classify self dst sid req = .rebinding ↔ dst = Ip4.bcast ∧ sid = none ∧ req = none) :=
  Proofs.Decision.classify_table self dst sid req hs

/-- The `panic("desiredIP is nil")` of `handleRequest` is unreachable: every non-bogus class
designates an address. -/
theorem desired_ne_none (self dst src : Ip4) (sid req : Option Ip4) (h : classify self dst sid req ≠ .bogus) :
    desired (classify self dst sid req) src req ≠ none := Proofs.Decision.desired_ne_none self dst src sid req h

end PsaDhcp.Props.C04
