import PsaDhcp.Proofs.CodeServer
/-
C01–C09 on the CODE: the server's packet handlers (`handleMsg`, `handleDiscover`, `handleRequest`, `sendMsg`,
`sendNACK`, `getDuid` of lib/server/netio.go and utils.go) as translated from the Go source on every check,
run in the environment built from the model's database steps and handler oracle (`Code/Bridge3.lean`), end in
exactly the database and the frame of the model's `handle` — the function whose steps the system model
interleaves (`Proofs/Liveness.handle_is_a_run`) and over which the verdict theorems of C01–C09 are stated.
-/
namespace PsaDhcp.Props.C04Code
open PsaDhcp PsaDhcp.Go PsaDhcp.Code

/-- The translated `handleMsg`, run from database `db` with nothing sent yet, terminates without a Go panic and
leaves exactly the database of the model's `handle` and has handed exactly the model's frame (or none) to the socket. -/
theorem code_handleMsg {σ : Type} (S : Store σ) (c : SrvCfg) (sx : Gen.server.server) (db : IPDB σ) (rx : Rx)
    (o : HOracle) (rnd : Int) (hsx : SrvOf sx c) (hm : MsgRanges rx.msg) (hb : LookupsBounded S db rx o) :
    ∃ st, (Gen.server.server_handleMsg (srvEnv S c o) sx (ipToGen rx.src) (ipToGen rx.dst) (msgToGen rx.msg) rnd).run
              { db := db, lookups := 0, sent := [] } = .ok ((), st)
      ∧ st.db = (handle S c db rx o).1 ∧ st.sent = (handle S c db rx o).2.toList :=
  Proofs.CodeServer.handleMsg_eq S c sx db rx o rnd hsx hm hb

/-- `getDuid` alone: the holder identity of C01–C05. -/
theorem code_getDuid {σ : Type} (S : Store σ) (c : SrvCfg) (sx : Gen.server.server) (db : IPDB σ) (o : HOracle)
    (hw cid : Bytes) (sent : List Frame) :
    (Gen.server.server_getDuid (srvEnv S c o) sx hw cid).run { db := db, lookups := 0, sent := sent } =
      .ok ((getDuid S db o.t0 hw cid).2, { db := (getDuid S db o.t0 hw cid).1, lookups := 1, sent := sent }) :=
  Proofs.CodeServer.getDuid_eq S c sx db o hw cid sent

/-! ### Non-vacuity: the hypotheses of `code_handleMsg` hold of a concrete run

Network 192.168.1.0/24 on the `clientsStore` (map + pointers), server 192.168.1.1 whose Go value keeps
`selfIP` in the 16-byte form, one live lease 192.168.1.101 held by the client below, and that client's
broadcast DISCOVER. -/

def exMac : Bytes := [2, 0, 0, 0, 0, 1]

def exCfg : SrvCfg :=
  { selfIp := ⟨192, 168, 1, 1⟩, selfMac := [2, 0, 0, 0, 0, 254], leaseNs := 3600 * 1000000000,
    mask := [255, 255, 255, 0], router := some ⟨192, 168, 1, 1⟩ }

def exSrv : Gen.server.server :=
  { iface := { Index := 2, MTU := 1500, Name := [101, 116, 104, 48], HardwareAddr := [2, 0, 0, 0, 0, 254] },
    selfIP := Go.netIPv4 192 168 1 1,
    lopts := { Gen.leaseopts.LeaseOptions.zero with LeaseDuration := 3600 * 1000000000 }, overrides := [] }

def exClients : Clients :=
  { ents := [{ ip := 3232235877, duid := sduid exMac, exp := 1000, perm := false }],
    m := fun k => if k = .ip 3232235877 ∨ k = .duid (sduid exMac) then some 0 else none }

def exDb : IPDB Clients :=
  { netFrom := 3232235777, netTo := 3232236030, dynFrom := 3232235777, dynTo := 3232236030, s := exClients }

def exRx : Rx :=
  { src := Ip4.zero, dst := Ip4.bcast,
    msg := { op := 1, htype := 1, hops := 0, xid := 0x12345678, secs := 0, flags := 0x8000, ciaddr := none,
             yiaddr := none, siaddr := none, giaddr := none, chaddr := exMac, sname := [], file := [],
             cookie := 0x63825363, options := [optType 1] } }

def exOracle : HOracle := { t0 := 10, t1 := 11, t2 := 12 }

theorem ex_srvOf : SrvOf exSrv exCfg := by unfold SrvOf; decide

theorem ex_msgRanges : MsgRanges exRx.msg := by unfold MsgRanges; decide

theorem ex_lookupsBounded : LookupsBounded clientsStore exDb exRx exOracle := by
  intro a h
  have hv : ((getDuid clientsStore exDb exOracle.t0 exRx.msg.chaddr
      (decodeOptions exRx.msg.options).clientIdentifier).1.lookupByDuid clientsStore exOracle.t1
      (getDuid clientsStore exDb exOracle.t0 exRx.msg.chaddr
        (decodeOptions exRx.msg.options).clientIdentifier).2).2 = .ok 3232235877 := by decide
  rw [hv] at h
  cases h
  decide

/-- So the conclusion of `code_handleMsg` holds of this run (for every value of the jitter `rnd`). -/
example (rnd : Int) :
    ∃ st, (Gen.server.server_handleMsg (srvEnv clientsStore exCfg exOracle) exSrv (ipToGen exRx.src) (ipToGen exRx.dst)
              (msgToGen exRx.msg) rnd).run { db := exDb, lookups := 0, sent := [] } = .ok ((), st)
      ∧ st.db = (handle clientsStore exCfg exDb exRx exOracle).1
      ∧ st.sent = (handle clientsStore exCfg exDb exRx exOracle).2.toList :=
  code_handleMsg clientsStore exCfg exSrv exDb exRx exOracle rnd ex_srvOf ex_msgRanges ex_lookupsBounded

/-- …and in this run the model (hence, by the theorem, the code) does hand an OFFER to the socket, addressed to
the link-layer broadcast address because the client set the broadcast flag. -/
example : (handle clientsStore exCfg exDb exRx exOracle).2.map (·.l2dst) = some bcastMac := by decide

end PsaDhcp.Props.C04Code
