import PsaDhcp.Proofs.CodeStack
import PsaDhcp.Props.C04Code
import PsaDhcp.Props.C11Code
/-
C01–C09 on the CODE, composed: the translated packet handlers of lib/server (netio.go, utils.go) running on top of the
translated lease database of lib/server/ipdb (ipdb.go) — both regenerated from the Go source on every check, the
handlers' database calls answered by actually running `Gen.ipdb.IPDB_LookupClientByDuid/FindIP/UpdateClient/
InManagedRange` (`srvEnvGen`, Code/Bridge13.lean) — end in exactly the database and frame of the model's `handle`, the
function whose steps the system model interleaves and over which the verdict and safety theorems of C01–C09 are stated.
What remains a parameter: the clients store `S` (tied to clients.go by `C11CodeClients`), the clocks, `rand.Perm`, the
probe answers, the socket.
-/
namespace PsaDhcp.Props.C01CodeStack
open PsaDhcp PsaDhcp.Go PsaDhcp.Code

theorem code_stack_handleMsg {σ : Type} (S : Store σ) (hS : StoreWf S) (c : SrvCfg) (sx : Gen.server.server) (db : IPDB σ)
    (rx : Rx) (o : HOracle) (rnd : Int) (hsx : SrvOf sx c) (hm : MsgRanges rx.msg) (hb : LookupsBounded S db rx o)
    (hdb : DbBounded db) :
    ∃ st, (Gen.server.server_handleMsg (srvEnvGen S c o) sx (ipToGen rx.src) (ipToGen rx.dst) (msgToGen rx.msg) rnd).run
              { db := db, lookups := 0, sent := [] } = .ok ((), st)
      ∧ st.db = (handle S c db rx o).1 ∧ st.sent = (handle S c db rx o).2.toList :=
  Proofs.CodeStack.stack_handleMsg S hS c sx db rx o rnd hsx hm hb hdb

/-- Whole sequential histories: the translated stack, fed any list of received packets one after the other, never
panics and ends in the database and the frames of the model handling the same packets (`handleSeq`) — each step of which
is a run of the system model (`Proofs.Liveness.handle_is_a_run_gen`), so the safety and verdict theorems of C01–C09, which
hold for every run of that system, hold for every sequential history processed by the regenerated code. -/
theorem code_stack_sequence {σ : Type} (S : Store σ) (hS : StoreWf S) (c : SrvCfg) (sx : Gen.server.server) (db : IPDB σ)
    (hist : List (Rx × HOracle × Int)) (hsx : SrvOf sx c) (hdb : DbBounded db) (hok : SeqOk S c db hist) :
    stackSeq S c sx db hist = .ok (handleSeq S c db (hist.map fun x => (x.1, x.2.1))) :=
  Proofs.CodeStack.stack_sequence S hS c sx db hist hsx hdb hok


/-! Non-vacuity: the hypotheses hold of the concrete run of `Props/C04Code.lean` (a DISCOVER with the broadcast flag,
`clientsStore`, a database whose range fields are 192.168.1.1–192.168.1.254). -/

theorem ex_dbBounded : DbBounded C04Code.exDb := by unfold DbBounded; decide

/-- So the conclusion of `code_stack_handleMsg` holds of this run (for every value of the jitter `rnd`): the translated
handlers, their database calls answered by running the translated ipdb.go methods, end in the model's database and
frame — an OFFER handed to the socket (last `example` of `Props/C04Code.lean`). -/
example (rnd : Int) :
    ∃ st, (Gen.server.server_handleMsg (srvEnvGen clientsStore C04Code.exCfg C04Code.exOracle) C04Code.exSrv
              (ipToGen C04Code.exRx.src) (ipToGen C04Code.exRx.dst) (msgToGen C04Code.exRx.msg) rnd).run
              { db := C04Code.exDb, lookups := 0, sent := [] } = .ok ((), st)
      ∧ st.db = (handle clientsStore C04Code.exCfg C04Code.exDb C04Code.exRx C04Code.exOracle).1
      ∧ st.sent = (handle clientsStore C04Code.exCfg C04Code.exDb C04Code.exRx C04Code.exOracle).2.toList :=
  code_stack_handleMsg clientsStore C11Code.clientsStore_wf C04Code.exCfg C04Code.exSrv C04Code.exDb C04Code.exRx
    C04Code.exOracle rnd C04Code.ex_srvOf C04Code.ex_msgRanges C04Code.ex_lookupsBounded ex_dbBounded

/-! Non-vacuity of `code_stack_sequence`: the same client sends its DISCOVER twice (a retransmission); the second one
is handled on the database the first one left (the offered address on hold for the client). -/

def exHist (r1 r2 : Int) : List (Rx × HOracle × Int) :=
  [(C04Code.exRx, C04Code.exOracle, r1), (C04Code.exRx, C04Code.exOracle, r2)]

/-- The database after the first DISCOVER. -/
def exDb1 : IPDB Clients := (handle clientsStore C04Code.exCfg C04Code.exDb C04Code.exRx C04Code.exOracle).1

theorem ex_lookupsBounded1 : LookupsBounded clientsStore exDb1 C04Code.exRx C04Code.exOracle := by
  intro a h
  have hv : ((getDuid clientsStore exDb1 C04Code.exOracle.t0 C04Code.exRx.msg.chaddr
      (decodeOptions C04Code.exRx.msg.options).clientIdentifier).1.lookupByDuid clientsStore C04Code.exOracle.t1
      (getDuid clientsStore exDb1 C04Code.exOracle.t0 C04Code.exRx.msg.chaddr
        (decodeOptions C04Code.exRx.msg.options).clientIdentifier).2).2 = .ok 3232235877 := by decide
  rw [hv] at h
  cases h
  decide

theorem ex_seqOk (r1 r2 : Int) : SeqOk clientsStore C04Code.exCfg C04Code.exDb (exHist r1 r2) :=
  ⟨C04Code.ex_msgRanges, C04Code.ex_lookupsBounded, C04Code.ex_msgRanges, ex_lookupsBounded1, trivial⟩

/-- So the translated stack handles both packets without a panic and ends in the model's database and frames (for every
value of the two jitters)… -/
example (r1 r2 : Int) :
    stackSeq clientsStore C04Code.exCfg C04Code.exSrv C04Code.exDb (exHist r1 r2) =
      .ok (handleSeq clientsStore C04Code.exCfg C04Code.exDb
            [(C04Code.exRx, C04Code.exOracle), (C04Code.exRx, C04Code.exOracle)]) :=
  code_stack_sequence clientsStore C11Code.clientsStore_wf C04Code.exCfg C04Code.exSrv C04Code.exDb (exHist r1 r2)
    C04Code.ex_srvOf ex_dbBounded (ex_seqOk r1 r2)

/-- …and the model (hence the code) answers both with an OFFER to the link-layer broadcast address. -/
example : (handleSeq clientsStore C04Code.exCfg C04Code.exDb
            [(C04Code.exRx, C04Code.exOracle), (C04Code.exRx, C04Code.exOracle)]).2.map (·.l2dst) =
          [bcastMac, bcastMac] := by decide

end PsaDhcp.Props.C01CodeStack
