import PsaDhcp.Proofs.CodeStack
import PsaDhcp.Props.C04Code
import PsaDhcp.Props.C11Code
/-
C01–C09 on the CODE, composed: the translated packet handlers of lib/server (netio.go, utils.go) running on top of the
translated lease database of lib/server/ipdb (ipdb.go) — both regenerated from the Go source on every check, the
handlers' database calls answered by actually running `Gen.ipdb.IPDB_LookupClientByDuid/FindIP/UpdateClient/
InManagedRange` (`srvEnvGen`, Code/Bridge13.lean) — end in exactly the database and frame of the model's `handle`, the
function whose steps the system model interleaves and over which the verdict and safety theorems of C01–C09 are stated.
What remains a parameter: the clients store `S` (tied to clients.go by `C11CodeClients`), the clocks, `rand.Perm`, the
probe answers, the socket.
-/
namespace PsaDhcp.Props.C01CodeStack
open PsaDhcp PsaDhcp.Go PsaDhcp.Code

theorem code_stack_handleMsg {σ : Type} (S : Store σ) (hS : StoreWf S) (c : SrvCfg) (sx : Gen.server.server) (db : IPDB σ)
    (rx : Rx) (o : HOracle) (rnd : Int) (hsx : SrvOf sx c) (hm : MsgRanges rx.msg) (hb : LookupsBounded S db rx o)
    (hdb : DbBounded db) :
    ∃ st, (Gen.server.server_handleMsg (srvEnvGen S c o) sx (ipToGen rx.src) (ipToGen rx.dst) (msgToGen rx.msg) rnd).run
              { db := db, lookups := 0, sent := [] } = .ok ((), st)
      ∧ st.db = (handle S c db rx o).1 ∧ st.sent = (handle S c db rx o).2.toList :=
  Proofs.CodeStack.stack_handleMsg S hS c sx db rx o rnd hsx hm hb hdb

/-! Non-vacuity: the hypotheses hold of the concrete run of `Props/C04Code.lean` (a DISCOVER with the broadcast flag,
`clientsStore`, a database whose range fields are 192.168.1.1–192.168.1.254). -/

theorem ex_dbBounded : DbBounded C04Code.exDb := by unfold DbBounded; decide

/-- So the conclusion of `code_stack_handleMsg` holds of this run (for every value of the jitter `rnd`): the translated
handlers, their database calls answered by running the translated ipdb.go methods, end in the model's database and
frame — an OFFER handed to the socket (last `example` of `Props/C04Code.lean`). -/
example (rnd : Int) :
    ∃ st, (Gen.server.server_handleMsg (srvEnvGen clientsStore C04Code.exCfg C04Code.exOracle) C04Code.exSrv
              (ipToGen C04Code.exRx.src) (ipToGen C04Code.exRx.dst) (msgToGen C04Code.exRx.msg) rnd).run
              { db := C04Code.exDb, lookups := 0, sent := [] } = .ok ((), st)
      ∧ st.db = (handle clientsStore C04Code.exCfg C04Code.exDb C04Code.exRx C04Code.exOracle).1
      ∧ st.sent = (handle clientsStore C04Code.exCfg C04Code.exDb C04Code.exRx C04Code.exOracle).2.toList :=
  code_stack_handleMsg clientsStore C11Code.clientsStore_wf C04Code.exCfg C04Code.exSrv C04Code.exDb C04Code.exRx
    C04Code.exOracle rnd C04Code.ex_srvOf C04Code.ex_msgRanges C04Code.ex_lookupsBounded ex_dbBounded

end PsaDhcp.Props.C01CodeStack
