import PsaDhcp.Model.Clients
import PsaDhcp.Model.Ipdb
import PsaDhcp.Spec.Table
import PsaDhcp.Proofs.Ipdb
import PsaDhcp.Model.Observed
import PsaDhcp.Proofs.Observed
/-
C11 — The lease database is a table of exclusive, expiring bindings.
Only property theorems and non-vacuity examples live here; helper lemmas are in `Proofs/Ipdb.lean`.
-/
namespace PsaDhcp.Props.C11
open PsaDhcp PsaDhcp.Spec

/-- For every sequence of `Clients` operations and non-decreasing clock readings, the results of
the map-with-two-keys-per-record-and-lazy-deletion equal those of the reference table. -/
theorem clients_refine (ops : List (Int × COp)) (hm : Monotone ops) :
    Clients.run Clients.empty ops = Table.run [] ops := Proofs.Ipdb.clients_refine ops hm

/-- The same for every sequence of public `IPDB` operations (any network, any permutations, any
probe answers, any clocks read while the lock is held). -/
theorem ipdb_refine (base p : Nat) (ops : List (Int × DbOp)) (hm : DbMonotone ops) :
    IPDB.run clientsStore (IPDB.new Clients.empty base p) ops = IPDB.run tableStore (IPDB.new [] base p) ops :=
  Proofs.Ipdb.ipdb_refine base p ops hm

/-- The reference table has at most one live binding per address and per client after every
operation of every run. -/
theorem table_exclusive (ops : List (Int × COp)) (hm : Monotone ops) :
    ∀ tT ∈ Table.states [] ops, Table.Exclusive tT.2 tT.1 := Proofs.Ipdb.table_exclusive ops hm

/-- An injection succeeds exactly where neither the address nor the client is bound (expired
non-permanent bindings are invisible and replaceable). -/
theorem inject_ok_iff (T : Table) (t : Int) (a : Nat) (d : Duid) (exp : Int) (perm : Bool) :
    (T.inject t a d exp perm).2 = .ok ↔ (T.liveIp t a = none ∧ T.liveDuid t d = none) :=
  Proofs.Ipdb.inject_ok_iff T t a d exp perm

/-- A lease change succeeds exactly on the caller's own live binding. -/
theorem setLease_ok_iff (T : Table) (t : Int) (a : Nat) (d : Duid) (exp : Int) (hx : T.Exclusive t) :
    (T.setLease t a d exp).2 = .ok ↔ ∃ b ∈ T, b.live t = true ∧ b.ip = a ∧ b.duid = d :=
  Proofs.Ipdb.setLease_ok_iff T t a d exp hx

/-- `UpdateClient` succeeds exactly when it extends the caller's own binding or creates one where
neither the address nor the client is bound (and, mirroring the code, the fresh binding is live,
i.e. the lifetime is not negative). -/
theorem update_ok_iff (db : IPDB Table) (now : Int) (ip : Option Ip4) (d : Duid) (ttl : Int) (hx : db.s.Exclusive now) :
    (db.updateClient tableStore now ip d ttl).2 = .ok () ↔
      ∃ n, db.toUip ip = .ok n ∧
        ((∃ b ∈ db.s, b.live now = true ∧ b.ip = n ∧ b.duid = d) ∨
         (db.s.liveIp now n = none ∧ db.s.liveDuid now d = none ∧ 0 ≤ ttl)) :=
  Proofs.Ipdb.update_ok_iff db now ip d ttl hx

/-- After a successful update the caller holds the address at least until `now + ttl`, and no
earlier than it held it before. -/
theorem update_effect (db : IPDB Table) (now : Int) (ip : Option Ip4) (d : Duid) (ttl : Int) (hx : db.s.Exclusive now)
    (h : (db.updateClient tableStore now ip d ttl).2 = .ok ()) :
    ∃ n b, db.toUip ip = .ok n ∧ (db.updateClient tableStore now ip d ttl).1.s.liveIp now n = some b ∧ b.duid = d ∧
      now + ttl ≤ b.exp ∧ ∀ b₀ ∈ db.s, b₀.live now = true → b₀.ip = n → b₀.exp ≤ b.exp :=
  Proofs.Ipdb.update_effect db now ip d ttl hx h

/-- Operations never touch a live binding of another address and another client. -/
theorem others_untouched (T : Table) (t : Int) (op : COp) (b : Binding) (hb : b ∈ T) (hl : b.live t = true)
    (hop : match op with
      | .lookup _ _ => True
      | .inject a d _ | .injectPermanent a d | .setLease a d _ | .expire a d => b.ip ≠ a ∨ b.duid ≠ d) :
    b ∈ (T.step t op).1 := Proofs.Ipdb.others_untouched T t op b hb hl hop

/-- Permanent bindings never disappear and never change owner. -/
theorem permanent_persists (T : Table) (t : Int) (op : COp) (b : Binding) (hb : b ∈ T) (hp : b.perm = true) :
    ∃ b' ∈ (T.step t op).1, b'.ip = b.ip ∧ b'.duid = b.duid ∧ b'.perm = true :=
  Proofs.Ipdb.permanent_persists T t op b hb hp

/-- An address search returns the caller's existing address if it has one. -/
theorem find_existing (db : IPDB Table) (now : Int) (sugg : Option Ip4) (d : Duid) (perm : List Nat)
    (orc : Nat → IPDB.Iter) (b : Binding) (h : db.s.liveDuid now d = some b) :
    (db.findIP tableStore now sugg d perm orc).2 = .ok b.ip := Proofs.Ipdb.find_existing db now sugg d perm orc b h

/-- … fails when searching is disabled … -/
theorem find_disabled (db : IPDB Table) (now : Int) (sugg : Option Ip4) (d : Duid) (perm : List Nat)
    (orc : Nat → IPDB.Iter) (h : db.s.liveDuid now d = none) (hd : db.dynTo = 0 ∧ db.dynFrom = 0) :
    (db.findIP tableStore now sugg d perm orc).2 = .error .disabled := Proofs.Ipdb.find_disabled db now sugg d perm orc h hd

/-- … otherwise returns only an unbound, valid, conflict-free address of the search range … -/
theorem find_result_eligible (db : IPDB Table) (now : Int) (sugg : Option Ip4) (d : Duid) (perm : List Nat)
    (orc : Nat → IPDB.Iter) (a : Nat) (h : db.s.liveDuid now d = none)
    (hp : ∀ v ∈ perm, v ≤ db.dynTo - db.dynFrom) (hr : db.dynFrom ≤ db.dynTo ∧ db.dynTo < 4294967296)
    (hres : (db.findIP tableStore now sugg d perm orc).2 = .ok a) :
    db.dynFrom ≤ a ∧ a ≤ db.dynTo ∧ IPDB.validUip a = true ∧
      ∃ i, (orc i).free = true ∧ (orc i).cancelled = false ∧ db.s.liveIp (orc i).now a = none :=
  Proofs.Ipdb.find_result_eligible db now sugg d perm orc a h hp hr hres

/-- … the suggested one first if it is eligible … -/
theorem find_suggestion_first (db : IPDB Table) (now : Int) (sugg : Option Ip4) (d : Duid) (perm : List Nat)
    (orc : Nat → IPDB.Iter) (n : Nat) (h : db.s.liveDuid now d = none) (hen : ¬ (db.dynTo = 0 ∧ db.dynFrom = 0))
    (hs : db.toUip sugg = .ok n) (hr : db.dynFrom ≤ n ∧ n ≤ db.dynTo ∧ db.dynTo < 4294967296)
    (hu : db.s.liveIp now n = none ∧ db.s.liveIp (orc 0).now n = none) (hv : IPDB.validUip n = true)
    (hf : (orc 0).free = true ∧ (orc 0).cancelled = false) :
    (db.findIP tableStore now sugg d perm orc).2 = .ok n :=
  Proofs.Ipdb.find_suggestion_first db now sugg d perm orc n h hen hs hr hu hv hf

/-- … and fails only when no eligible address exists (every address of the range was examined and
found bound, invalid or in conflict) or the search was cancelled. -/
theorem find_fails_only_if_exhausted (db : IPDB Table) (now : Int) (sugg : Option Ip4) (d : Duid) (perm : List Nat)
    (orc : Nat → IPDB.Iter) (h : db.s.liveDuid now d = none)
    (hperm : List.Perm perm (List.range (1 + db.dynTo - db.dynFrom)))
    (hr : db.dynFrom ≤ db.dynTo ∧ db.dynTo < 4294967296)
    (hnc : ∀ i, (orc i).cancelled = false)
    (hres : (db.findIP tableStore now sugg d perm orc).2 = .error .noFreeIp) :
    ∀ a, db.dynFrom ≤ a → a ≤ db.dynTo →
      ∃ i, (db.s.liveIp (orc i).now a).isSome = true ∨ IPDB.validUip a = false ∨ (orc i).free = false :=
  Proofs.Ipdb.find_fails_only_if_exhausted db now sugg d perm orc h hperm hr hnc hres

/-- The bridge between what the correspondence check replays and what the theorems quantify over:
an observation the driver accepts (every observed probe explained, search not cancelled) is a run
of the real candidate loop — there is a per-iteration oracle, never cancelled, under which
`findLoop` over the concrete store yields exactly the same store and result. -/
theorem observed_search_is_a_run (dynFrom : Nat) (chaddr : Bytes) (t0 : Int) (cands : List Nat) (obs : List ObsProbe)
    (tl : Int) (s s' : Clients) (res : Option Nat) (tl' : Int)
    (h : findLoopObs dynFrom chaddr false t0 cands obs tl s = .ok (s', res, [], tl')) :
    ∃ orc : Nat → IPDB.Iter, (∀ i, (orc i).cancelled = false) ∧
      IPDB.findLoop clientsStore dynFrom cands orc 0 s = (s', res) :=
  Proofs.Observed.observed_search_is_a_run dynFrom chaddr t0 cands obs tl s s' res tl' h

/-- … and the whole observed `FindIP` is `IPDB.findIP` for some candidate order and oracle. -/
theorem observed_find_is_findIP (db db' : IPDB Clients) (now : Int) (sugg : Option Ip4) (d : Duid) (chaddr : Bytes)
    (obs : List ObsProbe) (r : Except DbErr Nat) (tl : Int)
    (h : findObs db now sugg d chaddr obs false = .ok (db', r, tl)) :
    ∃ (perm : List Nat) (orc : Nat → IPDB.Iter), db.findIP clientsStore now sugg d perm orc = (db', r) :=
  Proofs.Observed.observed_find_is_findIP db db' now sugg d chaddr obs r tl h

/-! Non-vacuity: a concrete run with an expiry, a replacement and a permanent entry. -/
def exOps : List (Int × COp) :=
  [(10, .inject 5 [1] 20), (11, .injectPermanent 6 [2]), (15, .setLease 5 [1] 30), (31, .inject 5 [3] 50),
   (32, .lookup 5 [1]), (33, .lookup 6 [2])]

example : Monotone exOps := by simp [exOps, Monotone]
example : Table.run [] exOps =
    [.res .ok, .res .ok, .res .ok, .res .ok, .found (some 5) none false, .found (some 6) (some 6) true] := by decide

end PsaDhcp.Props.C11
