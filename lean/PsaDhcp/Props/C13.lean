import PsaDhcp.Model.Wire
import PsaDhcp.Spec.Inet
import PsaDhcp.Proofs.Wire
/-
C13 — Emitted IPv4/UDP/ARP packets are valid; decoders are strict about lengths.
Only property theorems and non-vacuity examples live here; helper lemmas are in `Proofs/Wire.lean`.
-/
namespace PsaDhcp.Props.C13
open PsaDhcp PsaDhcp.Spec

/-- Version 4, IHL 5, and the length of the assembled packet. -/
theorem ip_version_ihl_length (h : IPv4) :
    h.assemble.length = 20 + h.data.length ∧ h.assemble[0]? = some 0x45 := Proofs.Wire.ip_version_ihl_length h

/-- The total-length field equals the number of bytes, up to the datagram maximum. -/
theorem ip_total_length (h : IPv4) (hl : 20 + h.data.length ≤ 65535) :
    be16 (h.assemble.drop 2) = h.assemble.length := Proofs.Wire.ip_total_length h hl

/-- The UDP length field equals the number of bytes of the datagram. -/
theorem udp_length (u : UDP) (hl : 8 + u.data.length ≤ 65535) :
    be16 (u.assemble.drop 4) = u.assemble.length := Proofs.Wire.udp_length u hl

/-- The `uint32` accumulator of `ipv4csum` never wraps for any segment up to the datagram maximum
and any starting value a pseudo header can produce. -/
theorem no_overflow (b : Bytes) (acc : Nat) (hb : b.length ≤ 65535) (ha : acc ≤ 262144) :
    accWords b acc = acc + sum16 b := Proofs.Wire.no_overflow b acc hb ha

/-- RFC 791: the IPv4 header checksum of every assembled packet verifies — all field values. -/
theorem ip_checksum_verifies (h : IPv4) : IpHeaderVerifies h.assemble := Proofs.Wire.ip_checksum_verifies h

/-- RFC 768: the UDP checksum of every UDP datagram the stack assembles inside an IPv4 packet
verifies against the pseudo header — odd and even payloads, up to the datagram maximum. -/
theorem udp_checksum_verifies (h : IPv4) (u : UDP) (hd : h.data = u.assemble) (hp : h.proto = 0x11)
    (hl : 20 + 8 + u.data.length ≤ 65535) :
    UdpVerifies (optIp h.src) (optIp h.dst) h.proto (h.assemble.drop 20) :=
  Proofs.Wire.udp_checksum_verifies h u hd hp hl

/-- Decoding an assembled IPv4 packet returns the original addresses, protocol, TTL,
identification, flags, and the payload (with the UDP checksum filled in). -/
theorem decode_assemble_ip (h : IPv4) (hi : h.ident < 65536) (hf : h.flags < 65536)
    (hl : 20 + h.data.length ≤ 65535) :
    ∃ c, decodeIPv4 h.assemble = .ok { h with csum := c, src := some (optIp h.src), dst := some (optIp h.dst),
                                               data := h.dataWithCsum } :=
  Proofs.Wire.decode_assemble_ip h hi hf hl

/-- Decoding an assembled UDP datagram returns the original ports and payload. -/
theorem decode_assemble_udp (u : UDP) (hs : u.srcPort < 65536) (hd : u.dstPort < 65536)
    (hl : 8 + u.data.length ≤ 65535) : decodeUDP u.assemble = .ok u := Proofs.Wire.decode_assemble_udp u hs hd hl

/-- … also after the IPv4 layer filled in the checksum: ports and payload are untouched. -/
theorem decode_udp_inside_ip (h : IPv4) (u : UDP) (hd : h.data = u.assemble) (hs : u.srcPort < 65536)
    (hdp : u.dstPort < 65536) (hl : 20 + 8 + u.data.length ≤ 65535) :
    decodeUDP h.dataWithCsum = .ok u := Proofs.Wire.decode_udp_inside_ip h u hd hs hdp hl

/-- `DecodeIPv4` accepts only when the total-length field equals the bytes supplied and the header
length is within them; the payload it exposes is a suffix of the input (no byte outside it). -/
theorem decoder_strict_ip (b : Bytes) (p : IPv4) (h : decodeIPv4 b = .ok p) :
    be16 (b.drop 2) = b.length ∧ 20 ≤ b.length ∧
    ∃ b0 ihl, b[0]? = some b0 ∧ b0.toNat / 16 = 4 ∧ ihl = b0.toNat % 16 * 4 ∧ 20 ≤ ihl ∧ ihl ≤ b.length ∧
      p.data = b.drop ihl :=
  Proofs.Wire.decoder_strict_ip b p h

/-- `DecodeUDP` accepts only when the length field equals the bytes supplied. -/
theorem decoder_strict_udp (b : Bytes) (u : UDP) (h : decodeUDP b = .ok u) :
    be16 (b.drop 4) = b.length ∧ 8 ≤ b.length ∧ u.data = b.drop 8 := Proofs.Wire.decoder_strict_udp b u h

/-- No index or slice expression of the three decoders is ever out of range. -/
theorem decoders_never_panic (b : Bytes) (site : String) :
    decodeIPv4 b ≠ .error (.panic site) ∧ decodeUDP b ≠ .error (.panic site) ∧ decodeARP b ≠ .error (.panic site) :=
  Proofs.Wire.decoders_never_panic b site

/-- ARP: opcode and both IPv4 addresses round-trip for all inputs, hardware addresses when they
are six bytes long. -/
theorem arp_round_trip (a : ARP) (si ti : Ip4) (hs : a.senderIP = some si) (ht : a.targetIP = some ti)
    (hsm : a.senderMAC.length = 6) (htm : a.targetMAC.length = 6) : decodeARP a.assemble = .ok a :=
  Proofs.Wire.arp_round_trip a si ti hs ht hsm htm

/-- ARP with hardware addresses of any length: opcode and IPv4 addresses still round-trip (the
fixed 28-byte layout writes them last). -/
theorem arp_round_trip_ips (a : ARP) (si ti : Ip4) (hs : a.senderIP = some si) (ht : a.targetIP = some ti) :
    ∃ p, decodeARP a.assemble = .ok p ∧ p.opcode = a.opcode ∧ p.senderIP = some si ∧ p.targetIP = some ti :=
  Proofs.Wire.arp_round_trip_ips a si ti hs ht

/-- The sender-address field that the ARP prober matches on is at the fixed offset 14. -/
theorem arp_sender_ip_offset (b : Bytes) (p : ARP) (h : decodeARP b = .ok p) :
    b.length = 28 ∧ p.senderIP = Ip4.ofBytes? ((b.drop 14).take 4) ∧ p.senderMAC = (b.drop 8).take 6 :=
  Proofs.Wire.arp_sender_ip_offset b p h

/-! Non-vacuity: concrete packets meeting the hypotheses. -/
example : decodeUDP (UDP.assemble ⟨68, 67, [1, 2, 3]⟩) = .ok ⟨68, 67, [1, 2, 3]⟩ := by decide
example : (20 + 8 + (UDP.mk 68 67 [1, 2, 3]).data.length ≤ 65535) := by decide

end PsaDhcp.Props.C13
