import PsaDhcp.Proofs.CodeConfig
import PsaDhcp.Props.C18
/-
C18 (and the configuration side of C02/C03/C07) on the CODE: `server.New` (lib/server/server.go) and
`leaseopts.ParseConfig` / `SetClientOverrides` / `representable` / `ipv4` (lib/server/leaseopts) as translated from the
Go source on every check.  The standard library's parsers are uninterpreted; `rawOf` (Code/Bridge9.lean) applies them to
the configuration strings.  The translated constructor starts exactly when the model's `newServer` does — on the `Valid`
configurations of `starts_iff_valid` (Props/C18.lean) — never panics, and on success has built exactly the model's lease
database and a server value carrying exactly the model's handler configuration (`CfgOf`: the setting of
`code_dhcpOptions`, Props/C07Code.lean).  The client entries are visited in the order the map yields them; the theorem
holds for every order (`order_independent` is the model-level statement that the order does not matter).
-/
namespace PsaDhcp.Props.C18Code
open PsaDhcp PsaDhcp.Go PsaDhcp.Code

/-- `representable`: every option payload fits 255 bytes, the lease a uint32 of seconds. -/
theorem code_representable (g : Gen.leaseopts.LeaseOptions) (o : LOpts)
    (h : g.Domain = o.domain ∧ g.Hostname = o.hostname ∧ g.DNS.length = o.dns.length ∧ g.NTP.length = o.ntp.length ∧
         g.LeaseDuration = o.leaseNs) (hl : 0 ≤ o.leaseNs) :
    (Gen.leaseopts.representable g).isNone = o.representable :=
  Proofs.CodeConfig.representable_eq g o h hl

/-- `ipv4(list...)`: all entries IPv4 (4-byte form), or an error; `[""]` is the empty list. -/
theorem code_ipv4 (l : List Bytes) (hp : ParsersOk) :
    ∃ r, Gen.leaseopts.ipv4 l = .ok r ∧
      match ipv4List (l.map entOfStr) with
      | some ips => r = (ips.map Ip4.bytes, none)
      | none => r.2.isSome :=
  Proofs.CodeConfig.ipv4_eq l hp

/-- `server.New`: starts iff the model does; then the database and the handler configuration are the model's. -/
theorem code_new {σ : Type} (S : Store σ) (empty : σ) (iface : Go.NetInterface) (conf : Gen.serverconfig.ServerConfig)
    (selfAddr : Bytes × GoErr) (t : Int) (db0 : IPDB σ) (hp : ParsersOk) :
    match newServer S empty (rawOf conf iface selfAddr) (conf.Client.map rawClientOf) t with
    | .ok s => ∃ sx, (Gen.server.New (newEnv S empty selfAddr t) iface conf).run db0 = .ok ((some sx, none), s.db) ∧
        CfgOf sx s.cfg ∧ sx.iface = iface ∧ ipOf sx.selfIP = some s.cfg.selfIp ∧ sx.iface.HardwareAddr = s.cfg.selfMac
    | .error _ => ∃ e db', (Gen.server.New (newEnv S empty selfAddr t) iface conf).run db0 = .ok ((none, some e), db') :=
  Proofs.CodeConfig.new_eq S empty iface conf selfAddr t db0 hp

/-- The database constructor of the environment (`newEnv.IpdbNew`) against the translated `ipdb.New`: on everything
`net.ParseCIDR` can return (CIDR masks, `CidrMaskOk`) they succeed together and build the same database value. -/
theorem code_ipdbNew {σ : Type} (S : Store σ) (empty : σ) (selfAddr : Bytes × GoErr) (t : Int) (hm : CidrMaskOk)
    (s x : Bytes) (n : Go.IPNet) (hc : Go.parseCIDR s = (x, some n, none)) (db : IPDB σ) :
    ∃ r r' db', (newEnv S empty selfAddr t).IpdbNew n.IP n.Mask db = .ok (r, db') ∧
      Gen.ipdb.New n.IP n.Mask = .ok r' ∧ r'.1 = r.1 ∧ r'.2.isSome = r.2.isSome :=
  Proofs.CodeConfig.IpdbNew_faithful S empty selfAddr t hm s x n hc db

/-! ## Non-vacuity

The parsers are uninterpreted, so nothing about a concrete configuration evaluates by `decide` alone.  Instead: IF the
parsers return, on the eight strings of the small configuration `exConf`, the values Go's `net.ParseCIDR`, `net.ParseIP`,
`net.ParseMAC` and `time.ParseDuration` return (`ExParsers`), THEN `rawOf` / `rawClientOf` yield exactly the valid
model configuration `C18.exRaw` / `C18.exClient` (on which the model starts, by evaluation), so the `.ok` branch of
`code_new` is inhabited: the translated `New` returns a server value.  `ex_parsers_consistent` shows that `ParsersOk` and
`ExParsers` can hold together (there are functions with these values), and `ex_rejects` exercises the `.error` branch. -/

/-- ASCII text as the bytes of a Go string. -/
def ascii (s : String) : Bytes := s.toList.map fun c => UInt8.ofNat c.toNat

def exConf : Gen.serverconfig.ServerConfig :=
  { Gen.serverconfig.ServerConfig.zero with
    Network := ascii "10.0.0.0/24", DynamicRange := ascii "10.0.0.100-10.0.0.110", LeaseDuration := ascii "1h",
    Router := ascii "10.0.0.1", Dns := [ascii "8.8.8.8"],
    Client := [(ascii "02:00:00:00:00:09", { Gen.serverconfig.ClientConfig.zero with Ip := ascii "10.0.0.50" })] }

def exIface : Go.NetInterface := { Go.NetInterface.zero with HardwareAddr := [2, 0, 0, 0, 0, 1] }

/-- What Go's parsers return on the strings of `exConf` (`net.ParseIP` yields the 16-byte form). -/
structure ExParsers : Prop where
  cidr : Go.parseCIDR (ascii "10.0.0.0/24") = (Go.netIPv4 10 0 0 0, some ⟨[10, 0, 0, 0], [255, 255, 255, 0]⟩, none)
  dur : Go.parseDuration (ascii "1h") = (3600000000000, none)
  router : Go.parseIP (ascii "10.0.0.1") = Go.netIPv4 10 0 0 1
  dns : Go.parseIP (ascii "8.8.8.8") = Go.netIPv4 8 8 8 8
  dynA : Go.parseIP (ascii "10.0.0.100") = Go.netIPv4 10 0 0 100
  dynB : Go.parseIP (ascii "10.0.0.110") = Go.netIPv4 10 0 0 110
  clientIp : Go.parseIP (ascii "10.0.0.50") = Go.netIPv4 10 0 0 50
  mac : Go.parseMAC (ascii "02:00:00:00:00:09") = ([2, 0, 0, 0, 0, 9], none)

theorem ex_entOfStr (s : Bytes) (a b c d : UInt8) (hs : s ≠ []) (h : Go.parseIP s = Go.netIPv4 a b c d) :
    entOfStr s = .ok ⟨a, b, c, d⟩ := by
  simp only [entOfStr, hs, if_false, h]
  rfl

theorem ex_netOfStr (h : ExParsers) : netOfStr exConf.Network = some (167772160, 24) := by
  show netOfStr (ascii "10.0.0.0/24") = _
  simp only [netOfStr, h.cidr]
  decide

theorem ex_dynOfStr (h : ExParsers) : dynOfStr exConf.DynamicRange = .range ⟨10, 0, 0, 100⟩ ⟨10, 0, 0, 110⟩ := by
  have hsp : Go.stringsSplit (ascii "10.0.0.100-10.0.0.110") [45] = [ascii "10.0.0.100", ascii "10.0.0.110"] := by
    decide
  have hne : ascii "10.0.0.100-10.0.0.110" ≠ [] := by decide
  show dynOfStr (ascii "10.0.0.100-10.0.0.110") = _
  simp only [dynOfStr, hne, if_false, hsp, h.dynA, h.dynB]
  rfl

/-- The premises of `code_new` on `exConf`: the configuration the model sees is `C18.exRaw` with the client `C18.exClient`. -/
theorem ex_rawOf (h : ExParsers) :
    rawOf exConf exIface ([10, 0, 0, 1], none) = C18.exRaw ∧ exConf.Client.map rawClientOf = [C18.exClient] := by
  have e1 : entOfStr (ascii "10.0.0.1") = .ok ⟨10, 0, 0, 1⟩ := ex_entOfStr _ _ _ _ _ (by decide) h.router
  have e2 : entOfStr (ascii "8.8.8.8") = .ok ⟨8, 8, 8, 8⟩ := ex_entOfStr _ _ _ _ _ (by decide) h.dns
  have e3 : entOfStr (ascii "10.0.0.50") = .ok ⟨10, 0, 0, 50⟩ := ex_entOfStr _ _ _ _ _ (by decide) h.clientIp
  have e4 : entOfStr [] = .empty := rfl
  have e5 : leaseOfStr (ascii "1h") = some 3600000000000 := by simp only [leaseOfStr, h.dur]
  constructor
  · simp only [rawOf, ex_netOfStr h, ex_dynOfStr h]
    simp only [exConf, exIface, Gen.serverconfig.ServerConfig.zero, Go.NetInterface.zero, List.map_cons, List.map_nil,
      e1, e2, e5]
    rfl
  · simp only [exConf, List.map_cons, List.map_nil, rawClientOf, Gen.serverconfig.ClientConfig.zero, h.mac, e3, e4]
    rfl

/-- The `.ok` branch of `code_new` is inhabited: on `exConf` the translated constructor returns a server value. -/
theorem ex_starts (hp : ParsersOk) (h : ExParsers) (db0 : IPDB Spec.Table) :
    ∃ sx db, (Gen.server.New (newEnv Spec.tableStore ([] : Spec.Table) ([10, 0, 0, 1], none) 0) exIface exConf).run db0 =
      .ok ((some sx, none), db) ∧ sx.iface = exIface := by
  have hc := code_new Spec.tableStore ([] : Spec.Table) exIface exConf ([10, 0, 0, 1], none) 0 db0 hp
  rw [(ex_rawOf h).1, (ex_rawOf h).2] at hc
  have hm : ∃ s, newServer Spec.tableStore ([] : Spec.Table) C18.exRaw [C18.exClient] 0 = .ok s := by
    have : (match newServer Spec.tableStore ([] : Spec.Table) C18.exRaw [C18.exClient] 0 with
        | .ok _ => true | .error _ => false) = true := by decide
    cases hn : newServer Spec.tableStore ([] : Spec.Table) C18.exRaw [C18.exClient] 0 with
    | ok s => exact ⟨s, rfl⟩
    | error e => rw [hn] at this; cases this
  obtain ⟨s, hs⟩ := hm
  rw [hs] at hc
  obtain ⟨sx, h1, -, h3, -⟩ := hc
  exact ⟨sx, s.db, h1, h3⟩

/-- The `.error` branch: with an unparsable network string the translated constructor refuses (and does not panic). -/
theorem ex_rejects (hp : ParsersOk) (conf : Gen.serverconfig.ServerConfig) (e : String) (x : Bytes) (on : Option Go.IPNet)
    (h : Go.parseCIDR conf.Network = (x, on, some e)) (db0 : IPDB Spec.Table) :
    ∃ e' db, (Gen.server.New (newEnv Spec.tableStore ([] : Spec.Table) ([10, 0, 0, 1], none) 0) exIface conf).run db0 =
      .ok ((none, some e'), db) := by
  have hc := code_new Spec.tableStore ([] : Spec.Table) exIface conf ([10, 0, 0, 1], none) 0 db0 hp
  have hn : (rawOf conf exIface ([10, 0, 0, 1], none)).network = none := by
    show netOfStr conf.Network = none
    simp only [netOfStr, h]
  cases hm : newServer Spec.tableStore ([] : Spec.Table) (rawOf conf exIface ([10, 0, 0, 1], none))
      (conf.Client.map rawClientOf) 0 with
  | error _ => rw [hm] at hc; exact hc
  | ok s =>
    exfalso
    rw [Proofs.ConfigP.newServer_eq] at hm
    obtain ⟨_, lo, base, p, _, _, _, _, _, _, hpc, _⟩ := (Proofs.ConfigP.newServerP_ok_iff _ _ _ _ _ _ s).1 hm
    have := ((Proofs.ConfigP.parseConfig_ok_iff _ lo base p).1 hpc).1
    rw [hn] at this; cases this

/-- `ParsersOk` and `ExParsers` are jointly satisfiable: functions with these values exist (stated for arbitrary
functions in place of the uninterpreted constants). -/
theorem ex_parsers_consistent :
    ∃ (pIP : Bytes → Bytes) (pCIDR : Bytes → Bytes × Option Go.IPNet × GoErr),
      (pIP [] = [] ∧ ∀ s, (pCIDR s).2.2 = none → (pCIDR s).2.1.isSome) ∧
      pCIDR (ascii "10.0.0.0/24") = (Go.netIPv4 10 0 0 0, some ⟨[10, 0, 0, 0], [255, 255, 255, 0]⟩, none) ∧
      pIP (ascii "10.0.0.1") = Go.netIPv4 10 0 0 1 ∧ pIP (ascii "8.8.8.8") = Go.netIPv4 8 8 8 8 ∧
      pIP (ascii "10.0.0.100") = Go.netIPv4 10 0 0 100 ∧ pIP (ascii "10.0.0.110") = Go.netIPv4 10 0 0 110 ∧
      pIP (ascii "10.0.0.50") = Go.netIPv4 10 0 0 50 := by
  refine ⟨fun s => if s = ascii "10.0.0.1" then Go.netIPv4 10 0 0 1 else if s = ascii "8.8.8.8" then Go.netIPv4 8 8 8 8
      else if s = ascii "10.0.0.100" then Go.netIPv4 10 0 0 100 else if s = ascii "10.0.0.110" then Go.netIPv4 10 0 0 110
      else if s = ascii "10.0.0.50" then Go.netIPv4 10 0 0 50 else [],
    fun s => if s = ascii "10.0.0.0/24" then (Go.netIPv4 10 0 0 0, some ⟨[10, 0, 0, 0], [255, 255, 255, 0]⟩, none)
      else ([], none, some "invalid CIDR address"), ⟨by decide, ?_⟩, by decide, by decide, by decide, by decide, by decide,
    by decide⟩
  intro s
  by_cases hs : s = ascii "10.0.0.0/24"
  · simp [hs]
  · simp [hs]

end PsaDhcp.Props.C18Code
