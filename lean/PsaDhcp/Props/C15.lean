import PsaDhcp.Model.Automaton
import PsaDhcp.Proofs.AutomatonP
/-
C15 — The client configures only acknowledged parameters, drops them on NAK or expiry.
-/
namespace PsaDhcp.Props.C15
open PsaDhcp

/-- The interface is configured only in the step that ends an ARP probe of the acknowledged
address in which no other owner answered, and only with the (filtered) network configuration built
from the accepted reply the client currently holds; the hook's pre-callback saw the same values. -/
theorem setIface_step (mac : Bytes) (route : Bool) (s : CState) (e : CEv) (c : Ifconfig)
    (h : .setIface c ∈ (cstep mac route s e).2) :
    s.st = .arpCheck ∧ (e matches .arp none ∨ e matches .arp (some _)) ∧
    (∀ who, (match e with | .arp (some w) => w = who | _ => False) → who = mac) ∧
    ∃ m o nc, s.last = some (m, o) ∧ buildNetconfig m o = some nc ∧ c = filterNetconfig route nc ∧
      .pre c ∈ (cstep mac route s e).2 ∧ (cstep mac route s e).1.pending = some c :=
  Proofs.AutomatonP.setIface_step mac route s e c h

/-- What is built from a reply is exactly its address, netmask (class default if none or a
non-contiguous one is supplied), first router, MTU, DNS servers, domain and lease time. -/
theorem netconfig_fields (m : Msg) (o : DecodedOptions) (nc : Ifconfig) (h : buildNetconfig m o = some nc) :
    nc.ip = m.yiaddr ∧ nc.router = o.routers.head? ∧ nc.mtu = o.interfaceMTU ∧ nc.dns = o.dns ∧ nc.domain = o.domainName ∧
    nc.leaseSecs = o.leaseSecs ∧
    nc.netmask = (match o.subnetMask with
      | some sm => if canonicalMask sm then some sm else m.yiaddr.map defaultMask
      | none => m.yiaddr.map defaultMask) :=
  Proofs.AutomatonP.netconfig_fields m o nc h

/-- The router is withheld when default-route configuration is disabled; nothing else changes. -/
theorem router_withheld (c : Ifconfig) :
    (filterNetconfig false c).router = none ∧ filterNetconfig true c = c ∧
    { filterNetconfig false c with router := c.router } = c := Proofs.AutomatonP.router_withheld c

/-- The reply the client holds is always one it accepted: over every event history, `last` comes
from an `accepted` event of that history. -/
theorem last_was_accepted (mac : Bytes) (route : Bool) (evs : List CEv) (m : Msg) (o : DecodedOptions)
    (h : (crun mac route cinit.1 evs).1.last = some (m, o)) : ∃ e ∈ evs, e matches .accepted _ _ ∧
      (match e with | .accepted m' o' => m' = m ∧ o' = o | _ => False) :=
  Proofs.AutomatonP.last_was_accepted mac route evs m o h

/-- Every accepted reply has at least one router (C14), so `Routers[0]` never goes out of range. -/
theorem routers_never_empty (mac : Bytes) (route : Bool) (evs : List CEv)
    (hv : ∀ e ∈ evs, match e with | .accepted _ o => o.routers ≠ [] | _ => True) :
    Eff.fatalRoutersEmpty ∉ (crun mac route cinit.1 evs).2 := Proofs.AutomatonP.routers_never_empty mac route evs hv

/-- On an address conflict, or when configuring the interface fails, the client removes its
configuration, waits, purges the interface and starts over with a DISCOVER. -/
theorem conflict_starts_over (mac : Bytes) (route : Bool) (s : CState) :
    (s.st = .arpCheck → ∀ who, who ≠ mac →
      cstep mac route s (.arp (some who)) = ({ s with st := .discovering, pending := none }, [.panicUnconfigure, .wait30] ++ purgeEffs)) ∧
    (s.st = .ifconfig →
      cstep mac route s (.ifaceResult false) = ({ s with st := .discovering, pending := none }, [.panicUnconfigure, .wait30] ++ purgeEffs)) :=
  Proofs.AutomatonP.conflict_starts_over mac route s

/-- T1 ≤ T2 ≤ expiry for every lease / T1 / T2 value a server can send; the server's values are
used exactly when they are consistent (one minute < T1 < T2 < lease), otherwise 50 % and 87.5 %. -/
theorem deadlines_ordered (o : DecodedOptions) (hl : o.leaseSecs < 4294967296) :
    (boundDeadlines o).t1 ≤ (boundDeadlines o).t2 ∧ (boundDeadlines o).t2 ≤ (boundDeadlines o).tx ∧
    (boundDeadlines o).tx = o.leaseSecs * 1000000000 ∧
    (if 60 < o.renewalSecs ∧ o.renewalSecs < o.rebindSecs ∧ o.rebindSecs < o.leaseSecs
     then (boundDeadlines o).t1 = o.renewalSecs * 1000000000 ∧ (boundDeadlines o).t2 = o.rebindSecs * 1000000000
     else (boundDeadlines o).t1 = o.leaseSecs * 1000000000 / 2 ∧
          7 * (o.leaseSecs * 1000000000) / 8 - (o.leaseSecs * 1000000000) / 4503599627370496 ≤ (boundDeadlines o).t2 ∧
          (boundDeadlines o).t2 ≤ 7 * (o.leaseSecs * 1000000000) / 8 + (o.leaseSecs * 1000000000) / 4503599627370496) :=
  Proofs.AutomatonP.deadlines_ordered o hl

/-- Once bound: unicast renewal starts at T1; without an ACK broadcast rebinding follows; a NAK,
or no ACK before expiry while rebinding, removes the address and restarts discovery. -/
theorem renew_rebind_expire (mac : Bytes) (route : Bool) (s : CState) :
    (s.st = .bound → cstep mac route s .t1 = ({ s with st := .renewing }, [.send .renewing (lastYiaddr s) (lastSid s)])) ∧
    (s.st = .renewing → cstep mac route s .deadline = ({ s with st := .rebinding }, [.send .rebinding (lastYiaddr s) none])) ∧
    (s.st = .renewing → cstep mac route s .nack = ({ s with st := .discovering, pending := none }, purgeEffs)) ∧
    (s.st = .rebinding → cstep mac route s .nack = ({ s with st := .discovering, pending := none }, purgeEffs)) ∧
    (s.st = .rebinding → cstep mac route s .deadline = ({ s with st := .discovering, pending := none }, purgeEffs)) ∧
    Eff.unconfigure ∈ purgeEffs ∧ purgeEffs.getLast? = some (.send .discover none none) :=
  Proofs.AutomatonP.renew_rebind_expire mac route s

/-- A link-up event forces early re-validation of a held lease: while bound or renewing the client
goes straight to rebinding with 5 s deadlines; in every other state — including an exchange
already rebinding, whose interruption counts as its failure — it removes the configuration and
starts over with a DISCOVER. -/
theorem linkup_revalidates (mac : Bytes) (route : Bool) (s : CState) :
    ((s.st = .bound ∨ s.st = .renewing) →
      cstep mac route s .linkUp = ({ s with st := .rebinding }, [.resume5s, .send .rebinding (lastYiaddr s) none])) ∧
    ((s.st = .discovering ∨ s.st = .selecting ∨ s.st = .arpCheck ∨ s.st = .ifconfig ∨ s.st = .rebinding) →
      cstep mac route s .linkUp = ({ s with st := .discovering, pending := none }, purgeEffs)) :=
  Proofs.AutomatonP.linkup_revalidates mac route s

/-- Over every event history: each `setIface c` is preceded (since the last accepted reply) by an
ARP probe, and `c` is built from an accepted reply of that history. -/
theorem setIface_only_acknowledged (mac : Bytes) (route : Bool) (evs : List CEv) (c : Ifconfig)
    (h : .setIface c ∈ (crun mac route cinit.1 evs).2) :
    ∃ m o nc, (∃ e ∈ evs, match e with | .accepted m' o' => m' = m ∧ o' = o | _ => False) ∧
      buildNetconfig m o = some nc ∧ c = filterNetconfig route nc ∧
      Eff.arpProbe m.yiaddr ∈ (crun mac route cinit.1 evs).2 :=
  Proofs.AutomatonP.setIface_only_acknowledged mac route evs c h

end PsaDhcp.Props.C15
