import PsaDhcp.Model.Sanitize
import PsaDhcp.Proofs.ClientP
/-
C17 — Server-supplied data cannot inject into the hook environment or resolv.conf.
-/
namespace PsaDhcp.Props.C17
open PsaDhcp

/-- Whatever bytes a value consists of (newlines, `=`, NUL, shell metacharacters, invalid UTF-8),
after sanitising it consists only of letters, digits, comma, dot, hyphen and underscore. -/
theorem env_value_safe (val : Bytes) : ∀ b ∈ sanitize val.length val, envSafe b = true :=
  Proofs.ClientP.env_value_safe val

/-- Sanitising consumes the whole value (the fuel is enough) and never lengthens it. -/
theorem sanitize_length (val : Bytes) : (sanitize val.length val).length ≤ val.length ∧
    (val.all (fun b => b.toNat < 0x80) → (sanitize val.length val).length = val.length) :=
  Proofs.ClientP.sanitize_length val

/-- Every `PSA_DHCPC_*` variable handed to the hook — for every interface configuration: arbitrary
domain bytes, any number of DNS servers, nil router or netmask, any MTU and lease — is
`PSA_DHCPC_<KEY>=` followed by safe characters only. -/
theorem env_entries_safe (c : Ifconfig) :
    ∀ e ∈ dumpScriptConf c, ∃ key v, e = str "PSA_DHCPC_" ++ str key ++ [0x3D] ++ v ∧ (∀ b ∈ v, envSafe b = true) ∧
      key ∈ ["IPV4_ROUTER", "IPV4_ADDRESS", "NETMASK", "DOMAIN_NAME", "DNS_LIST", "MTU", "LEASE_SEC"] :=
  Proofs.ClientP.env_entries_safe c

/-- The resolv.conf generated from ANY environment consists solely of the header line, at most one
`search` line with a single non-empty token of hostname characters, and `nameserver` lines with one
non-empty dotted-numeric token each — at least one of them. -/
theorem resolv_grammar (env : List Bytes) (out : Bytes) (h : resolvRun env = some out) :
    ∃ search nss, nss ≠ [] ∧ (search = [] ∨ allIn hostChar search = true) ∧ (∀ ns ∈ nss, allIn numChar ns = true) ∧
      out = str "# written by psa-dhcpc\n"
        ++ (if search = [] then [] else str "search " ++ search ++ [0x0A])
        ++ (nss.map fun ns => str "nameserver " ++ ns ++ [0x0A]).flatten :=
  Proofs.ClientP.resolv_grammar env out h

/-- resolv.conf is not touched exactly when no valid name server was supplied. -/
theorem untouched_iff_no_nameserver (env : List Bytes) :
    resolvRun env = none ↔ (scanEnv env).nameservers = [] := Proofs.ClientP.untouched_iff_no_nameserver env

/-- A token of hostname / numeric characters contains no newline, space, `=` or NUL. -/
theorem tokens_have_no_separators (s : Bytes) (h : allIn hostChar s = true ∨ allIn numChar s = true) :
    ∀ b ∈ s, b ≠ 0x0A ∧ b ≠ 0x20 ∧ b ≠ 0x3D ∧ b ≠ 0x00 ∧ b ≠ 0x09 ∧ b ≠ 0x0D := Proofs.ClientP.tokens_have_no_separators s h

/-- Safe characters contain no newline, space, `=`, NUL, quote, dollar, backquote, semicolon, … -/
theorem safe_excludes_metacharacters (b : UInt8) (h : envSafe b = true) :
    b ≠ 0x0A ∧ b ≠ 0x20 ∧ b ≠ 0x3D ∧ b ≠ 0x00 ∧ b ≠ 0x22 ∧ b ≠ 0x27 ∧ b ≠ 0x24 ∧ b ≠ 0x60 ∧ b ≠ 0x3B ∧ b ≠ 0x26 ∧
    b ≠ 0x7C ∧ b ≠ 0x3C ∧ b ≠ 0x3E ∧ b ≠ 0x5C ∧ b ≠ 0x28 ∧ b ≠ 0x29 ∧ b.toNat < 0x80 :=
  Proofs.ClientP.safe_excludes_metacharacters b h

/-- End to end: whatever an accepted ACK carried, the file generated from the hook environment
obeys the grammar. -/
theorem ack_to_file (m : Msg) (o : DecodedOptions) (c : Ifconfig) (route : Bool) (other : List Bytes)
    (hc : buildNetconfig m o = some c) (out : Bytes)
    (h : resolvRun (other ++ dumpScriptConf (filterNetconfig route c)) = some out) :
    ∃ search nss, nss ≠ [] ∧ (search = [] ∨ allIn hostChar search = true) ∧ (∀ ns ∈ nss, allIn numChar ns = true) ∧
      out = str "# written by psa-dhcpc\n"
        ++ (if search = [] then [] else str "search " ++ search ++ [0x0A])
        ++ (nss.map fun ns => str "nameserver " ++ ns ++ [0x0A]).flatten :=
  Proofs.ClientP.ack_to_file m o c route other hc out h

end PsaDhcp.Props.C17
