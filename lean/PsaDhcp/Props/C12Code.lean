import PsaDhcp.Proofs.CodeDhcpOpts
import PsaDhcp.Proofs.CodeMisc
import PsaDhcp.Proofs.CodeCor
/-
C12 on the CODE: `PsaDhcp.Gen.dhcpmsg.*` is regenerated from /repo's lib/dhcpmsg/*.go on every check
by the translator /verif/xlate; the translated functions coincide with the models of `Props/C12.lean`.
-/
namespace PsaDhcp.Props.C12Code
open PsaDhcp PsaDhcp.Go PsaDhcp.Code

/-- `Decode` as written in Go (fixed header, hardware address copy, option walk with `continue`/`break`) is the
model's `decode`: a reject becomes the error value, success the message; the walk never runs out of fuel. -/
theorem code_decode (b : Bytes) : Gen.dhcpmsg.Decode b = liftDec msgToGen (decode b) := Proofs.CodeDhcp.Decode_eq b

/-- `(Message).Assemble()`; the hypotheses are the Go array types `[64]byte` / `[128]byte`. -/
theorem code_assemble (m : Gen.dhcpmsg.Message) (h1 : m.ServerHostName.length = 64) (h2 : m.BootFilename.length = 128) :
    Gen.dhcpmsg.Message_Assemble m = .ok (Msg.assemble (msgOf m)) := Proofs.CodeDhcp.Message_Assemble_eq m h1 h2

/-- No index or slice expression of the translated `Decode` is out of range, for any input. -/
theorem code_decode_never_panics (b : Bytes) (site : String) : Gen.dhcpmsg.Decode b ≠ .error (.panic site) :=
  Proofs.CodeCor.code_dhcp_decode_never_panics b site

/-- The translated `Decode` accepts exactly the RFC 2131 layout + RFC 2132 option grammar, and returns its reading. -/
theorem code_decode_iff_grammar (b : Bytes) (g : Gen.dhcpmsg.Message) :
    Gen.dhcpmsg.Decode b = .ok (some g, none) ↔
      ∃ m, msgToGen m = g ∧ 240 ≤ b.length ∧ Spec.FixedAt b m ∧ Spec.Area (b.drop 240) m.options :=
  Proofs.CodeCor.code_dhcp_decode_iff_grammar b g

/-- `DecodeOptions` with every typed accessor (`toUint8`, `toUint16`, `toDuration`, `toNetmask`, `toV4`,
`toV4A`): the translated code is the model — hence `typed_exact` holds of the code. -/
theorem code_decode_options (opts : List Gen.dhcpmsg.DHCPOpt) :
    Gen.dhcpmsg.DecodeOptions opts = .ok (doptsToGen (decodeOptions (opts.map optOf))) :=
  Proofs.CodeDhcpOpts.DecodeOptions_eq opts

/-- `optIP` (router, DNS, NTP, server identifier, requested address): four bytes per address. -/
theorem code_optIP (code : UInt8) (ips : List Bytes) :
    Gen.dhcpmsg.optIP code ips = .ok (optToGen (optIPs code (ips.map ipOf))) := Proofs.CodeMisc.optIP_eq code ips

/-- The client identifier option `ff ‖ crc32 ‖ 00 03 00 01 ‖ hwaddr[:6]`. -/
theorem code_client_identifier (hw : Bytes) :
    Gen.dhcpmsg.OptionClientIdentifier hw = .ok (optToGen (optClientIdentifier hw)) :=
  Proofs.CodeMisc.OptionClientIdentifier_eq hw

theorem code_option_constructors (t : UInt8) (n m p : Bytes) (ip : Bytes) (ips : List Ip4) (sz : UInt16) :
    Gen.dhcpmsg.OptionType t = optToGen (optType t) ∧
    Gen.dhcpmsg.OptionHostname n = optToGen (optHostname n) ∧
    Gen.dhcpmsg.OptionDomainName n = optToGen (optDomainName n) ∧
    Gen.dhcpmsg.OptionSubnetMask m = optToGen (optSubnetMask m) ∧
    Gen.dhcpmsg.OptionServerIdentifier ip = .ok (optToGen (optServerIdentifier (ipOf ip))) ∧
    Gen.dhcpmsg.OptionRequestedIP ip = .ok (optToGen (optRequestedIP (ipOf ip))) ∧
    Gen.dhcpmsg.OptionRouter ip = .ok (optToGen (optRouter (ipOf ip))) ∧
    Gen.dhcpmsg.OptionDNS (ips.map ipToGen) = .ok (optToGen (optDNS ips)) ∧
    Gen.dhcpmsg.OptionNTP (ips.map ipToGen) = .ok (optToGen (optNTP ips)) ∧
    Gen.dhcpmsg.OptionMaxMessageSize sz = .ok (optToGen (optMaxMessageSize sz.toNat)) ∧
    Gen.dhcpmsg.OptionInterfaceMTU sz = .ok (optToGen (optInterfaceMTU sz.toNat)) ∧
    Gen.dhcpmsg.OptionParametersList p = .ok (optToGen (optParametersList p)) :=
  ⟨Proofs.CodeMisc.OptionType_eq t, Proofs.CodeMisc.OptionHostname_eq n, Proofs.CodeMisc.OptionDomainName_eq n,
   Proofs.CodeMisc.OptionSubnetMask_eq m, Proofs.CodeMisc.OptionServerIdentifier_eq ip,
   Proofs.CodeMisc.OptionRequestedIP_eq ip, Proofs.CodeMisc.OptionRouter_eq ip, Proofs.CodeMisc.OptionDNS_eq ips,
   Proofs.CodeMisc.OptionNTP_eq ips, Proofs.CodeMisc.OptionMaxMessageSize_eq sz, Proofs.CodeMisc.OptionInterfaceMTU_eq sz,
   Proofs.CodeMisc.OptionParametersList_eq p⟩

example : Gen.dhcpmsg.DecodeOptions [⟨53, [2]⟩, ⟨54, [10, 0, 0, 1]⟩] =
    .ok { Gen.dhcpmsg.DecodedOptions.zero with MessageType := 2, ServerIdentifier := Go.netIPv4 10 0 0 1 } := by decide

end PsaDhcp.Props.C12Code
