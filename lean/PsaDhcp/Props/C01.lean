import PsaDhcp.Model.System
import PsaDhcp.Spec.ServerSpec
import PsaDhcp.Proofs.Safety
/-
C01 — An address is never leased to two clients at the same time.
Only property theorems and non-vacuity examples; helper lemmas are in `Proofs/Safety.lean`.
-/
namespace PsaDhcp.Props.C01
open PsaDhcp PsaDhcp.Spec

/-- For every interleaving of packet arrivals and handler steps (any number of clients, any
messages, retransmissions, spurious or out-of-order messages, pool exhaustion, expiry), any
configuration, any permutations and probe outcomes: two grants (OFFER = 15 s hold, ACK = lease
duration) of one address to different holder identities never overlap — the earlier one has run
out, counted from the clock of the database call that justified it (which is not before the
client sent its message), strictly before the later one is made.  In particular whenever an
address is acknowledged, no other client holds an unexpired acknowledgement or pending offer. -/
theorem no_double_lease (c : SrvCfg) (b : Boot) (evs : List Ev) (sys : Sys Table) (h : ReachableT c b evs sys)
    (hl : 0 ≤ c.leaseNs) :
    ∀ s₁ ∈ sys.sent, ∀ s₂ ∈ sys.sent, s₁.kind ≠ .nak → s₂.kind ≠ .nak → s₁.addr = s₂.addr → s₁.duid ≠ s₂.duid →
      s₁.t ≤ s₂.t → s₁.t + s₁.ttl c < s₂.t :=
  Proofs.Safety.no_double_lease c b evs sys h hl

/-- Every OFFER / ACK is justified by a successful `UpdateClient(addr, holder, ttl)` of the same
handler at the same clock, which is among the database calls performed. -/
theorem grant_is_update (c : SrvCfg) (b : Boot) (evs : List Ev) (sys : Sys Table) (h : ReachableT c b evs sys) :
    ∀ s ∈ sys.sent, s.kind ≠ .nak →
      (s.t, DbOp.updateClient (some (Ip4.ofNat s.addr)) s.duid (s.ttl c)) ∈ sys.calls :=
  Proofs.Safety.grant_is_update c b evs sys h

/-- The holder identity of a message: the hardware-address identity, or the client identifier when
it is at least four bytes long and outside the server's internal namespace. -/
theorem holder_identity {σ : Type} (S : Store σ) (db : IPDB σ) (t : Int) (hw cid : Bytes) :
    (getDuid S db t hw cid).2 = sduid hw ∨
      ((getDuid S db t hw cid).2 = cid ∧ 4 ≤ cid.length ∧ internalPrefix.isPrefixOf cid = false) :=
  Proofs.Safety.holder_identity S db t hw cid

/-- The property's gloss of "client" (client identifier, or hardware address when none is sent):
messages from different hardware addresses whose client identifiers differ (or of which one sends
none) have different holder identities, whatever the database state. -/
theorem holder_distinct {σ : Type} (S : Store σ) (db₁ db₂ : IPDB σ) (t₁ t₂ : Int) (hw₁ cid₁ hw₂ cid₂ : Bytes)
    (hhw : hw₁ ≠ hw₂) (hcid : cid₁ ≠ cid₂ ∨ cid₁ = []) :
    (getDuid S db₁ t₁ hw₁ cid₁).2 ≠ (getDuid S db₂ t₂ hw₂ cid₂).2 :=
  Proofs.Safety.holder_distinct S db₁ db₂ t₁ t₂ hw₁ cid₁ hw₂ cid₂ hhw hcid

/-- The concrete server (Go map with two keys per record, lazy expiry) and the server over the
reference table send exactly the same frames at the same clocks, for every boot configuration and
every interleaving: the theorems above are statements about the concrete model too. -/
theorem system_refines_table (c : SrvCfg) (b : Boot) (evs : List Ev) (hm : EvMonotone evs)
    (h0 : ∀ e ∈ evs.head?, b.t0 ≤ e.t) :
    (serverInit clientsStore Clients.empty c b.base b.p b.dyn b.staticOnly b.t0).isSome =
      (serverInit tableStore ([] : Table) c b.base b.p b.dyn b.staticOnly b.t0).isSome ∧
    ∀ dbc dbt, serverInit clientsStore Clients.empty c b.base b.p b.dyn b.staticOnly b.t0 = some dbc →
      serverInit tableStore ([] : Table) c b.base b.p b.dyn b.staticOnly b.t0 = some dbt →
      ((Sys.run clientsStore c { db := dbc } evs).sent.map fun s => (s.t, s.kind, s.addr, s.duid, s.frame)) =
      ((Sys.run tableStore c { db := dbt } evs).sent.map fun s => (s.t, s.kind, s.addr, s.duid, s.frame)) :=
  Proofs.Safety.system_refines_table c b evs hm h0

end PsaDhcp.Props.C01
