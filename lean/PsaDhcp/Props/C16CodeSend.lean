import PsaDhcp.Proofs.CodeSend
/-
C16 on the CODE, retransmission and addressing of the client's sender goroutine: `sendMessage` / `sendSocket`
(lib/client/dclient/netio.go) as translated from the Go source on every check.  For every stream of random numbers the
waits between consecutive transmissions are the model's `delays retransBase …` — at least 700 ms and never decreasing
(`retransmit_delays`, Props/C16.lean) — every transmission writes what the template closure returns, and the socket is
a unicast one to the hardware address the server's ARP answer gave (renewing: at most five look-ups) or the broadcast
one.
-/
namespace PsaDhcp.Props.C16CodeSend
open PsaDhcp PsaDhcp.Go PsaDhcp.Code

/-- Broadcast exchanges (discover, selecting, rebinding: the template gives no (source, destination) hint): one broadcast
socket, `n + 1` transmissions of the frame, waits = the model's delay sequence. -/
theorem code_sendMessage_broadcast (iface : Go.NetInterface) (pkt src dst : Bytes) (rnd : Nat → Nat) (n fuel : Nat)
    (hb : src = [] ∨ dst = []) (hf : n + 1 < fuel) :
    ∃ st, (Gen.dclient.sendMessage (sendEnv rnd false) iface (constSender pkt src dst) fuel).run
            { writes := [], waits := [], rounds := n, pings := [], opened := [] } = .ok (none, st) ∧
      st.writes = List.replicate (n + 1) pkt ∧ st.opened = [none] ∧
      st.waits = (delays retransBase ((List.range (n + 1)).map rnd)).map Int.ofNat :=
  Proofs.CodeSend.sendMessage_broadcast iface pkt src dst rnd n fuel hb hf

/-- Renewing (the template names source and destination): up to five ARP look-ups of the server while the context is
alive; the first answer decides the unicast socket, otherwise the broadcast socket is used. -/
theorem code_sendSocket (iface : Go.NetInterface) (pkt src dst : Bytes) (rnd : Nat → Nat) (pings : List (Option Bytes))
    (hs : src ≠ [] ∧ dst ≠ []) :
    ∃ st, (Gen.dclient.sendSocket (sendEnv rnd false) iface (constSender pkt src dst)).run
            { writes := [], waits := [], rounds := 0, pings := pings, opened := [] } = .ok (((), none), st) ∧
      st.opened = [match (pings.take 5).find? Option.isSome with | some (some mac) => some mac | _ => none] :=
  Proofs.CodeSend.sendSocket_eq iface pkt src dst rnd pings hs

/-- With the context already cancelled no look-up is made. -/
theorem code_sendSocket_cancelled (iface : Go.NetInterface) (pkt src dst : Bytes) (rnd : Nat → Nat) (pings : List (Option Bytes)) :
    ∃ st, (Gen.dclient.sendSocket (sendEnv rnd true) iface (constSender pkt src dst)).run
            { writes := [], waits := [], rounds := 0, pings := pings, opened := [] } = .ok (((), none), st) ∧
      st.opened = [none] ∧ st.pings = pings :=
  Proofs.CodeSend.sendSocket_cancelled iface pkt src dst rnd pings

/-- Non-vacuity: `rnd k = 10⁹·(k+1)`, three timer rounds, fuel 10, a 3-byte frame: four transmissions on one broadcast
socket; the first wait is `700000000 + 1000000000 % 700000001 = 999999999` ns, and the later random numbers are
multiples of `1 + 999999999`, so the delay stays there. -/
example :
    ((Gen.dclient.sendMessage (sendEnv (fun k => 1000000000 * (k + 1)) false) Go.NetInterface.zero
        (constSender [1, 2, 3] [] []) 10).run
        { writes := [], waits := [], rounds := 3, pings := [], opened := [] }).toOption.map
      (fun r => (r.1, r.2.writes, r.2.waits, r.2.rounds, r.2.pings, r.2.opened)) =
    some (none, [[1, 2, 3], [1, 2, 3], [1, 2, 3], [1, 2, 3]], [999999999, 999999999, 999999999, 999999999],
      0, [], [none]) := by rfl

end PsaDhcp.Props.C16CodeSend
