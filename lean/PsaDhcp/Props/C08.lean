import PsaDhcp.Model.Verdict
import PsaDhcp.Spec.ServerSpec
import PsaDhcp.Proofs.Decision
/-
C08 — Addresses in use by another host are not handed out.
-/
namespace PsaDhcp.Props.C08
open PsaDhcp PsaDhcp.Spec

/-- `arpVerify`: free iff all (up to three) pings timed out or the first answer received comes
from the requesting client's own hardware address. -/
theorem arpVerify_free_iff (chaddr : Bytes) (outcomes : List (Option Bytes)) :
    arpVerify chaddr outcomes = true ↔
      ((∀ x ∈ outcomes, x = none) ∨ ∃ pre mac post, outcomes = pre ++ some mac :: post ∧ (∀ x ∈ pre, x = none) ∧ mac = chaddr) :=
  Proofs.Decision.arpVerify_free_iff chaddr outcomes

/-- Only ARP packets whose *sender* address equals the probed address count as an answer; the
answer is the sender hardware address of the first such packet (28-byte fixed layout). -/
theorem only_sender_ip_counts (target : Ip4) (frames : List Bytes) (mac : Bytes) :
    catchARPReply target frames = some mac ↔
      ∃ pre f post, frames = pre ++ f :: post ∧ 28 ≤ f.length ∧ ((f.drop 14).take 4) = target.bytes ∧
        mac = (f.drop 8).take 6 ∧ ∀ g ∈ pre, g.length < 28 ∨ ((g.drop 14).take 4) ≠ target.bytes :=
  Proofs.Decision.only_sender_ip_counts target frames mac

/-- Each probe examines finitely many frames and ends when they are exhausted (the context
deadline): no answer among the frames read ⇒ timeout. -/
theorem probe_times_out (target : Ip4) (frames : List Bytes)
    (h : ∀ f ∈ frames, f.length < 28 ∨ ((f.drop 14).take 4) ≠ target.bytes) : catchARPReply target frames = none :=
  Proofs.Decision.probe_times_out target frames h

/-- The server never acknowledges a REQUEST whose probe was answered by a foreign hardware address:
it answers NAK (or is silent for the other reasons) — never ACK. -/
theorem conflict_never_acked {σ : Type} (S : Store σ) (c : SrvCfg) (db : IPDB σ) (rx : Rx) (o : HOracle) (a : Nat)
    (h : o.probeFree = false) : (handleV S c db rx o).2 ≠ .ack a := Proofs.Decision.conflict_never_acked S c db rx o a h

/-- … and when the sender does hold the designated address, the answer is NAK. -/
theorem conflict_naked {σ : Type} (S : Store σ) (c : SrvCfg) (db : IPDB σ) (rx : Rx) (o : HOracle) (want : Ip4)
    (h : o.probeFree = false)
    (ht : todo c (getDuid S db o.t0 rx.msg.chaddr (decodeOptions rx.msg.options).clientIdentifier).1 rx = .request want) :
    (handleV S c db rx o).2 = .nak := Proofs.Decision.conflict_naked S c db rx o want h ht

/-- An address offered to a client without binding was probed and found free in the very search
that picked it: the probe oracle said `free` for it (the oracle is `arpVerify` of the client). -/
theorem offered_was_probed_free (c : SrvCfg) (db : IPDB Table) (rx : Rx) (o : HOracle) (a : Nat)
    (hoff : (handleV tableStore c db rx o).2 = .offer a)
    (hnb : let g := getDuid tableStore db o.t0 rx.msg.chaddr (decodeOptions rx.msg.options).clientIdentifier
           g.1.s.liveDuid o.t1 g.2 = none)
    (hp : ∀ v ∈ o.perm, v ≤ db.dynTo - db.dynFrom) (hr : db.dynFrom ≤ db.dynTo ∧ db.dynTo < 4294967296) :
    ∃ i, (o.iters i).free = true ∧ (o.iters i).cancelled = false :=
  Proofs.Decision.offered_was_probed_free c db rx o a hoff hnb hp hr

end PsaDhcp.Props.C08
