import PsaDhcp.Proofs.CodeReplies
/-
C06 on the CODE: `PsaDhcp.Gen.replies.*` is regenerated from /repo's lib/server/replies/*.go on every check.
The translated reply assembly coincides with `assembleLease` / `assembleNak` of Model/Server.lean, over which
`lease_reply_wire` / `nak_reply_wire` of `Props/C06.lean` are stated.
-/
namespace PsaDhcp.Props.C06Code
open PsaDhcp PsaDhcp.Go PsaDhcp.Code

/-- `dstFromFlag`: broadcast exactly when bit 15 of the flags is set (whatever the other bits are). -/
theorem code_dstFromFlag (flags : UInt16) (dst : Bytes) :
    Gen.replies.dstFromFlag flags dst = if flags.toNat / 32768 % 2 = 1 then Go.netIPv4 255 255 255 255 else dst :=
  Proofs.CodeReplies.dstFromFlag_eq flags dst

theorem code_assemble_offer (xid : UInt32) (flags : UInt16) (srcIP dstIP dstMAC : Bytes) (opts : List Gen.dhcpmsg.DHCPOpt)
    (s y : Ip4) (hs : ipOf srcIP = some s) (hy : ipOf dstIP = some y) :
    Gen.replies.AssembleOffer xid flags srcIP dstIP dstMAC opts =
      .ok (assembleLease .offer xid.toNat flags.toNat s y dstMAC (opts.map optOf)) :=
  Proofs.CodeReplies.AssembleOffer_eq xid flags srcIP dstIP dstMAC opts s y hs hy

theorem code_assemble_ack (xid : UInt32) (flags : UInt16) (srcIP dstIP dstMAC : Bytes) (opts : List Gen.dhcpmsg.DHCPOpt)
    (s y : Ip4) (hs : ipOf srcIP = some s) (hy : ipOf dstIP = some y) :
    Gen.replies.AssembleACK xid flags srcIP dstIP dstMAC opts =
      .ok (assembleLease .ack xid.toNat flags.toNat s y dstMAC (opts.map optOf)) :=
  Proofs.CodeReplies.AssembleACK_eq xid flags srcIP dstIP dstMAC opts s y hs hy

theorem code_assemble_nack (xid : UInt32) (srcIP dstMAC : Bytes) (s : Ip4) (hs : ipOf srcIP = some s) :
    Gen.replies.AssembleNACK xid srcIP dstMAC = .ok (assembleNak xid.toNat s dstMAC) :=
  Proofs.CodeReplies.AssembleNACK_eq xid srcIP dstMAC s hs

example : Gen.replies.dstFromFlag 0x8001 [10, 0, 0, 9] = Go.netIPv4 255 255 255 255 ∧
    Gen.replies.dstFromFlag 0x7fff [10, 0, 0, 9] = [10, 0, 0, 9] := by decide

end PsaDhcp.Props.C06Code
