import PsaDhcp.Proofs.CodeMisc
import PsaDhcp.Proofs.CodeIpdbOps
/-
lib/server/ipdb on the CODE.  `PsaDhcp.Gen.ipdb.*` and `PsaDhcp.Gen.uip.*` are regenerated from /repo's
lib/server/ipdb/ipdb.go and uip/uip.go on every check.  Every exported method of `*IPDB` — run in the environment
`dbEnv S nowAt cancelAt` built from a store of the model (the clients table), the successive clock readings and the
successive context checks (`Code/Bridge4.lean`) — returns the model's result and leaves the model's store, for every
store state, argument, clock and oracle.  The model functions are the ones `ipdb_refine` (C11) relates to the
reference table and whose steps the server system interleaves (C01–C05, C09).
-/
namespace PsaDhcp.Props.C11Code
open PsaDhcp PsaDhcp.Go PsaDhcp.Code

/-- `Uip.Valid()`: addresses ending in .0 or .255 are never candidates. -/
theorem code_uip_valid (ux : UInt32) : Gen.uip.Uip_Valid ux = IPDB.validUip ux.toNat := Proofs.CodeMisc.Uip_Valid_eq ux

theorem code_uip_toV4 (ux : UInt32) : Gen.uip.Uip_ToV4 ux = ipToGen (Ip4.ofNat ux.toNat) := Proofs.CodeMisc.Uip_ToV4_eq ux

example : Gen.uip.Uip_Valid 0x0a0000ff = false ∧ Gen.uip.Uip_Valid 0x0a000001 = true := by decide

/-- `LookupClientByDuid`: one clock reading, one `Lookup(now, 0, duid)`. -/
theorem code_lookupClientByDuid {σ : Type} (S : Store σ) (nowAt : Nat → Int) (cancelAt : Nat → Bool)
    (ix : Gen.ipdb.IPDB) (db : IPDB σ) (duid : Bytes) (k c : Nat) (hix : IxOf ix db) :
    (Gen.ipdb.IPDB_LookupClientByDuid (dbEnv S nowAt cancelAt) ix duid).run { s := db.s, nows := k, ctxs := c } =
      .ok (addrResToGen (db.lookupByDuid S (nowAt k) duid).2,
           { s := (db.lookupByDuid S (nowAt k) duid).1.s, nows := k + 1, ctxs := c }) :=
  Proofs.CodeIpdbOps.LookupClientByDuid_eq S nowAt cancelAt ix db duid k c hix

/-- `AddPermanentClient` -/
theorem code_addPermanentClient {σ : Type} (S : Store σ) (nowAt : Nat → Int) (cancelAt : Nat → Bool)
    (ix : Gen.ipdb.IPDB) (db : IPDB σ) (ip duid : Bytes) (k c : Nat) (hix : IxOf ix db) :
    ∃ k', (Gen.ipdb.IPDB_AddPermanentClient (dbEnv S nowAt cancelAt) ix ip duid).run { s := db.s, nows := k, ctxs := c } =
      .ok (unitResToGen' (db.addPermanent S (nowAt k) (ipOf ip) duid).2,
           { s := (db.addPermanent S (nowAt k) (ipOf ip) duid).1.s, nows := k', ctxs := c }) :=
  Proofs.CodeIpdbOps.AddPermanentClient_eq S nowAt cancelAt ix db ip duid k c hix

/-- `UpdateClient`: the clock is read once; the never-shorten rule, the optimistic `SetLease`, `Inject`, `SetLease`. -/
theorem code_updateClient {σ : Type} (S : Store σ) (hS : StoreWf S) (nowAt : Nat → Int) (cancelAt : Nat → Bool)
    (ix : Gen.ipdb.IPDB) (db : IPDB σ) (ip duid : Bytes) (ttl : Int) (k c : Nat) (hix : IxOf ix db) :
    ∃ k', (Gen.ipdb.IPDB_UpdateClient (dbEnv S nowAt cancelAt) ix ip duid ttl).run { s := db.s, nows := k, ctxs := c } =
      .ok (unitResToGen' (db.updateClient S (nowAt k) (ipOf ip) duid ttl).2,
           { s := (db.updateClient S (nowAt k) (ipOf ip) duid ttl).1.s, nows := k', ctxs := c }) :=
  Proofs.CodeIpdbOps.UpdateClient_eq S hS nowAt cancelAt ix db ip duid ttl k c hix

/-- `FindIP`: the caller's own address, else the suggestion (only inside the dynamic range and unbound) followed by
the permutation `rand.Perm` returned, each candidate examined under the lock with its own context check, clock reading
and probe; `uint32` wrap-around of `dynFrom + Uip(v)` included.  `nowAt 0` is the clock of the first `Lookup`,
candidate `i` sees `orc i`. -/
theorem code_findIP {σ : Type} (S : Store σ) (hS : StoreWf S) (ix : Gen.ipdb.IPDB) (db : IPDB σ) (ip duid : Bytes)
    (perm : List Nat) (orc : Nat → IPDB.Iter) (now : Int) (hix : IxOf ix db) :
    ∃ st, (Gen.ipdb.IPDB_FindIP (dbEnv S (fun j => if j = 0 then now else (orc (j - 1)).now) (fun i => (orc i).cancelled))
              ix (isFreeOf orc) ip duid (perm.map Int.ofNat)).run { s := db.s, nows := 0, ctxs := 0 } =
        .ok (addrResToGen (db.findIP S now (ipOf ip) duid perm orc).2, st)
      ∧ st.s = (db.findIP S now (ipOf ip) duid perm orc).1.s :=
  Proofs.CodeIpdbOps.FindIP_eq S hS ix db ip duid perm orc now hix

/-- `SetDynamicRange` -/
theorem code_setDynamicRange {σ : Type} (ix : Gen.ipdb.IPDB) (db : IPDB σ) (b e : Bytes) (hix : IxOf ix db) :
    ∃ ix', Gen.ipdb.IPDB_SetDynamicRange ix b e = .ok (unitResToGen' (db.setDynamicRange (ipOf b) (ipOf e)).2, ix')
      ∧ IxOf ix' (db.setDynamicRange (ipOf b) (ipOf e)).1 :=
  Proofs.CodeIpdbOps.SetDynamicRange_eq ix db b e hix

/-- `DisableDynamic` -/
theorem code_disableDynamic {σ : Type} (ix : Gen.ipdb.IPDB) (db : IPDB σ) (hix : IxOf ix db) :
    IxOf (Gen.ipdb.IPDB_DisableDynamic ix) db.disableDynamic := Proofs.CodeIpdbOps.DisableDynamic_eq ix db hix

/-- The two stores of the project meet `StoreWf` (non-vacuity of the hypothesis above). -/
theorem clientsStore_wf : StoreWf clientsStore := Proofs.CodeIpdbOps.clientsStore_wf
theorem tableStore_wf : StoreWf Spec.tableStore := Proofs.CodeIpdbOps.tableStore_wf

/-! Non-vacuity: the translated code evaluated on a concrete instance over `clientsStore`. -/

/-- 10.0.0.0/24, dynamic range 10.0.0.100 .. 10.0.0.103, empty table. -/
def exDb : IPDB Clients :=
  { netFrom := 0x0a000001, netTo := 0x0a0000fe, dynFrom := 0x0a000064, dynTo := 0x0a000067, s := Clients.empty }

def exOrc : Nat → IPDB.Iter := fun _ => { cancelled := false, now := 2000, free := true }

def exEnv : Gen.DbEnv (DState Clients) := dbEnv clientsStore (fun _ => 1000) (fun i => (exOrc i).cancelled)

/-- `UpdateClient(10.0.0.100, 01 02 03, 1h)` on the empty table, then `FindIP` for client `duid` without a
suggestion, `rand.Perm` = 0, 1, 2, 3. -/
def exRun (duid : Bytes) : R (Bytes × GoErr) :=
  Except.map (fun r : (Bytes × GoErr) × DState Clients => r.1)
    ((do
      let _ ← Gen.ipdb.IPDB_UpdateClient exEnv (ixToGen exDb) [10, 0, 0, 100] [1, 2, 3] 3600000000000
      Gen.ipdb.IPDB_FindIP exEnv (ixToGen exDb) (isFreeOf exOrc) [] duid [0, 1, 2, 3] :
        StateT (DState Clients) R (Bytes × GoErr)).run { s := exDb.s, nows := 0, ctxs := 0 })

example : IxOf (ixToGen exDb) exDb := ⟨by decide, by decide, by decide, by decide⟩

/-- Another client is offered 10.0.0.101: candidate 10.0.0.100 is bound by the `UpdateClient` before. -/
example : exRun [9] = .ok (ipToGen ⟨10, 0, 0, 101⟩, none) := by decide

/-- The client bound by `UpdateClient` is offered its own address. -/
example : exRun [1, 2, 3] = .ok (ipToGen ⟨10, 0, 0, 100⟩, none) := by decide

/-- The same runs in the model (`code_updateClient`, `code_findIP` relate the two). -/
example : ((exDb.updateClient clientsStore 1000 (some ⟨10, 0, 0, 100⟩) [1, 2, 3] 3600000000000).1.findIP clientsStore 1000
    none [9] [0, 1, 2, 3] exOrc).2 = .ok 0x0a000065 := by decide

end PsaDhcp.Props.C11Code
