import PsaDhcp.Proofs.CodeMisc
/-
lib/server/ipdb/uip on the CODE: the translated `Valid()` / `ToV4()` are the model's.
-/
namespace PsaDhcp.Props.C11Code
open PsaDhcp PsaDhcp.Go PsaDhcp.Code

/-- `Uip.Valid()`: addresses ending in .0 or .255 are never candidates. -/
theorem code_uip_valid (ux : UInt32) : Gen.uip.Uip_Valid ux = IPDB.validUip ux.toNat := Proofs.CodeMisc.Uip_Valid_eq ux

theorem code_uip_toV4 (ux : UInt32) : Gen.uip.Uip_ToV4 ux = ipToGen (Ip4.ofNat ux.toNat) := Proofs.CodeMisc.Uip_ToV4_eq ux

example : Gen.uip.Uip_Valid 0x0a0000ff = false ∧ Gen.uip.Uip_Valid 0x0a000001 = true := by decide

end PsaDhcp.Props.C11Code
