import PsaDhcp.Model.System
import PsaDhcp.Spec.ServerSpec
import PsaDhcp.Proofs.Safety
/-
C02 — Only addresses the configuration allows are ever handed out.
-/
namespace PsaDhcp.Props.C02
open PsaDhcp PsaDhcp.Spec

/-- Every address in an OFFER or ACK lies in the managed range of the network, is not the server's
own address and — unless it is the static address configured for that hardware address — lies in
the dynamic range (which must be enabled). -/
theorem handed_out_allowed (c : SrvCfg) (b : Boot) (evs : List Ev) (sys : Sys Table) (h : ReachableT c b evs sys) :
    ∀ s ∈ sys.sent, s.kind ≠ .nak →
      sys.db.netFrom ≤ s.addr ∧ s.addr ≤ sys.db.netTo ∧ s.addr ≠ c.selfIp.toNat ∧
      ((¬ (sys.db.dynTo = 0 ∧ sys.db.dynFrom = 0) ∧ sys.db.dynFrom ≤ s.addr ∧ s.addr ≤ sys.db.dynTo) ∨
       ∃ o ∈ c.overrides, o.mac = s.rx.msg.chaddr ∧ o.ip = some (Ip4.ofNat s.addr)) :=
  Proofs.Safety.handed_out_allowed c b evs sys h

/-- With `static_only`, a client without static entry is never offered or acknowledged anything. -/
theorem static_only_blocks_dynamic (c : SrvCfg) (b : Boot) (evs : List Ev) (sys : Sys Table) (h : ReachableT c b evs sys)
    (hso : b.staticOnly = true) :
    ∀ s ∈ sys.sent, s.kind ≠ .nak → ∃ o ∈ c.overrides, o.mac = s.rx.msg.chaddr ∧ o.ip = some (Ip4.ofNat s.addr) :=
  Proofs.Safety.static_only_blocks_dynamic c b evs sys h hso

/-- The range fields never change after start-up, and are what the configuration says. -/
theorem ranges_fixed (c : SrvCfg) (b : Boot) (evs : List Ev) (sys : Sys Table) (h : ReachableT c b evs sys) :
    (sys.db.netFrom, sys.db.netTo) = fromTo b.base b.p ∧
    (sys.db.dynFrom, sys.db.dynTo) = b.dynRange :=
  Proofs.Safety.ranges_fixed c b evs sys h

/-- For a prefix of at most /30 the managed range excludes the network and the broadcast address;
a /31 has an empty managed range (the server cannot start); a /32 contains one address. -/
theorem fromTo_excludes (base p : Nat) (hp : p ≤ 30) :
    let size := 2 ^ (32 - p)
    let start := base / size * size
    (fromTo base p).1 = start + 1 ∧ (fromTo base p).2 = start + size - 2 ∧
    ∀ a, (fromTo base p).1 ≤ a → a ≤ (fromTo base p).2 → a ≠ start ∧ a ≠ start + size - 1 :=
  Proofs.Safety.fromTo_excludes base p hp

theorem fromTo_31_empty (base : Nat) : (fromTo base 31).2 < (fromTo base 31).1 := Proofs.Safety.fromTo_31_empty base

/-! Non-vacuity: a /29 with a two-address pool boots. -/
def exCfg : SrvCfg := { selfIp := ⟨10, 0, 0, 1⟩, selfMac := [2, 0, 0, 0, 0, 1], leaseNs := 3600000000000, mask := [255, 255, 255, 248] }
example : (serverInit tableStore ([] : Table) exCfg 167772160 29 (some (⟨10, 0, 0, 4⟩, ⟨10, 0, 0, 5⟩)) false 0).isSome = true := by decide

end PsaDhcp.Props.C02
