import PsaDhcp.Model.Verdict
import PsaDhcp.Spec.ServerSpec
import PsaDhcp.Proofs.Decision
import PsaDhcp.Props.C06
/-
C07 — Offered parameters reflect the configuration, including per-client overrides.
-/
namespace PsaDhcp.Props.C07
open PsaDhcp PsaDhcp.Spec

/-- The effective value of a setting for a hardware address: the per-client entry's value if the
entry sets it, else the global one. -/
def effRouter (c : SrvCfg) (mac : Bytes) : Option Ip4 :=
  match c.override? mac with | some o => (match o.router with | some r => some r | none => c.router) | none => c.router
def effDns (c : SrvCfg) (mac : Bytes) : List Ip4 :=
  match c.override? mac with | some o => (if o.dns = [] then c.dns else o.dns) | none => c.dns
def effNtp (c : SrvCfg) (mac : Bytes) : List Ip4 :=
  match c.override? mac with | some o => (if o.ntp = [] then c.ntp else o.ntp) | none => c.ntp

/-- The options after message type and server identifier are exactly: lease duration, netmask,
then router / DNS / NTP / domain / hostname — each present iff set, a per-client entry replacing
exactly the settings it specifies. -/
theorem options_spec (c : SrvCfg) (mac : Bytes) :
    c.dhcpOptions mac =
      [optLease (leaseSecs c.leaseNs), optSubnetMask c.mask]
      ++ (match effRouter c mac with | some r => [optRouter (some r)] | none => [])
      ++ (if effDns c mac = [] then [] else [optDNS (effDns c mac)])
      ++ (if effNtp c mac = [] then [] else [optNTP (effNtp c mac)])
      ++ (if c.domain = [] then [] else [optDomainName c.domain])
      ++ (match c.override? mac with | some o => (if o.hostname = [] then [] else [optHostname o.hostname]) | none => []) :=
  Proofs.Decision.options_spec c mac

/-- What a client decodes from those options is what the configuration says. -/
theorem options_decoded (c : SrvCfg) (mac : Bytes) (hm : c.mask.length = 4) (hl : 0 ≤ c.leaseNs)
    (hls : c.leaseNs / 1000000000 < 4294967296) :
    let d := decodeOptions (c.dhcpOptions mac)
    d.leaseSecs = (c.leaseNs / 1000000000).toNat ∧ d.subnetMask = Ip4.ofBytes? c.mask ∧
    d.routers = (match effRouter c mac with | some r => [r] | none => []) ∧ d.dns = effDns c mac ∧
    d.domainName = c.domain :=
  Proofs.Decision.options_decoded c mac hm hl hls

-- `decodedReply` (the DHCP message inside a reply frame, read back with the stack's own decoders)
-- lives in `Spec/ReplySpec.lean`.

/-- OFFER and ACK to the same client carry the same parameters: read back from the wire, both
carry exactly `dhcpOptions` after message type and server identifier, and the same address. -/
theorem offer_ack_agree (c : SrvCfg) (hc : CfgWf c) (m : Msg) (y : Ip4)
    (hx : m.xid < 4294967296) (hf : m.flags < 65536) (hch : m.chaddr.length ≤ 16) :
    ∃ r₁ r₂, decodedReply (leaseFrame c .offer m y) = some r₁ ∧ decodedReply (leaseFrame c .ack m y) = some r₂ ∧
      r₁.options.drop 2 = c.dhcpOptions m.chaddr ∧ r₂.options.drop 2 = c.dhcpOptions m.chaddr ∧
      r₁.options.drop 1 = r₂.options.drop 1 ∧ r₁.yiaddr = r₂.yiaddr :=
  Proofs.Decision.offer_ack_agree c hc m y hx hf hch

/-- The lease time advertised is the time the server actually reserves the address for: after an
ACK at clock `t2` the binding runs at least until `t2 + LeaseDuration`, and the advertised whole
seconds are within one second of it. -/
theorem advertised_is_reserved (c : SrvCfg) (db : IPDB Table) (rx : Rx) (o : HOracle) (a : Nat)
    (hx : db.s.Exclusive o.t0) (hck : o.t0 ≤ o.t1 ∧ o.t1 ≤ o.t2) (hl : 0 ≤ c.leaseNs)
    (h : (handleV tableStore c db rx o).2 = .ack a) :
    (∃ b, (handleV tableStore c db rx o).1.s.liveIp o.t2 a = some b ∧ o.t2 + c.leaseNs ≤ b.exp) ∧
    (leaseSecs c.leaseNs : Int) * 1000000000 ≤ c.leaseNs ∧
    (c.leaseNs / 1000000000 < 4294967296 → c.leaseNs < ((leaseSecs c.leaseNs : Int) + 1) * 1000000000) :=
  Proofs.Decision.advertised_is_reserved c db rx o a hx hck hl h

end PsaDhcp.Props.C07
