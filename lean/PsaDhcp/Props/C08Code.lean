import PsaDhcp.Proofs.CodeArp
/-
C08 on the CODE: the ARP prober `arpping.catchARPReply` / `arpping.Ping` (lib/arpping/arpping.go) and the server's
`arpVerify` (lib/server/utils.go) as translated from the Go source on every check.  For every list of frames the ARP
socket delivers before the deadline closes it, the prober's answer is the model's `catchARPReply` — the sender
hardware address of the first frame whose first 28 bytes decode as ARP with sender address = the probed address
(`only_sender_ip_counts`, Props/C08.lean) — and it reads each frame at most once, so it ends when the frames do.
`arpVerify` makes at most three pings and is the model's `arpVerify` over their outcomes (`arpVerify_free_iff`).
-/
namespace PsaDhcp.Props.C08Code
open PsaDhcp PsaDhcp.Go PsaDhcp.Code

/-- `catchARPReply(ctx, iface, target)` over the frames `fs`. -/
theorem code_catchARPReply (iface : Go.NetInterface) (tb : Bytes) (t : Ip4) (fs : List Bytes) (fuel : Nat)
    (ht : tb = ipToGen t ∨ tb = t.bytes) (hf : fs.length < fuel) :
    ∃ st, (Gen.arpping.catchARPReply (arpEnv none) iface tb fuel).run { rest := fs, senders := 0 } =
        .ok (arpResToGen (catchARPReply t fs), st) ∧ st.senders = 0 :=
  Proofs.CodeArp.catchARPReply_eq iface tb t fs fuel ht hf

/-- `Ping`: one sender goroutine, then `catchARPReply`. -/
theorem code_ping (iface : Go.NetInterface) (src tb : Bytes) (t : Ip4) (fs : List Bytes) (fuel : Nat)
    (ht : tb = ipToGen t ∨ tb = t.bytes) (hf : fs.length < fuel) :
    ∃ st, (Gen.arpping.Ping (arpEnv none) iface src tb fuel).run { rest := fs, senders := 0 } =
        .ok (arpResToGen (catchARPReply t fs), st) ∧ st.senders = 1 :=
  Proofs.CodeArp.Ping_eq iface src tb t fs fuel ht hf

/-- If the receive socket cannot be opened the probe fails with that error (which `arpVerify` counts as "no answer"). -/
theorem code_catchARPReply_open_fails (iface : Go.NetInterface) (tb : Bytes) (st : ArpState) (fuel : Nat) (e : String) :
    (Gen.arpping.catchARPReply (arpEnv (some e)) iface tb fuel).run st = .ok (([], some e), st) :=
  Proofs.CodeArp.catchARPReply_open_fails iface tb st fuel e

/-- `arpVerify(hw)(ctx, ip)`: up to three pings; free iff all timed out or the first answer is the client's own. -/
theorem code_arpVerify (sx : Gen.server.server) (hw ip : Bytes) (outcomes : List (Option Bytes)) (fs : List Bytes)
    (hd : List (Bytes × Bytes × Gen.dhcpmsg.Message)) :
    ∃ st, (Gen.server.server_arpVerify (runEnv none) sx hw ip).run { rest := fs, pings := outcomes, handled := hd } =
        .ok (arpVerify hw (outcomes.take 3), st) ∧ st.rest = fs ∧ st.handled = hd :=
  Proofs.CodeArp.arpVerify_eq sx hw ip outcomes fs hd

/-! ### Non-vacuity: concrete runs -/

/-- ARP reply (opcode 2) from `mac` / `ip` to 02:00:00:00:00:01 / 10.0.0.1. -/
private def reply (mac ip : Bytes) : Bytes :=
  [0, 1, 8, 0, 6, 4, 0, 2] ++ mac ++ ip ++ [2, 0, 0, 0, 0, 1, 10, 0, 0, 1]

private def macA : Bytes := [0xaa, 0, 0, 0, 0, 7]
private def macB : Bytes := [0xbb, 0, 0, 0, 0, 9]
private def macC : Bytes := [0xcc, 0, 0, 0, 0, 9]

/-- Unrelated ARP noise from 10.0.0.7 (whose *target* address is the probed one), an answer from 10.0.0.9 padded to
46 bytes (of which only the first 28 are read), a later answer from 10.0.0.9 with another hardware address. -/
private def frames : List Bytes :=
  [[0, 1, 8, 0, 6, 4, 0, 1] ++ macA ++ [10, 0, 0, 7] ++ [0, 0, 0, 0, 0, 0, 10, 0, 0, 9],
   reply macB [10, 0, 0, 9] ++ List.replicate 18 0,
   reply macC [10, 0, 0, 9]]

example : (frames.map List.length) = [28, 46, 28] := by decide

example : catchARPReply ⟨10, 0, 0, 9⟩ frames = some macB := by decide

/-- The translated prober on these frames, probing with the 4-byte form of 10.0.0.9 (as `arpVerify` passes it) … -/
example (iface : Go.NetInterface) :
    ∃ st, (Gen.arpping.catchARPReply (arpEnv none) iface [10, 0, 0, 9] 4).run { rest := frames, senders := 0 } =
        .ok ((macB, none), st) ∧ st.senders = 0 := by
  have h := code_catchARPReply iface [10, 0, 0, 9] ⟨10, 0, 0, 9⟩ frames 4 (Or.inr rfl) (by decide)
  rwa [show catchARPReply ⟨10, 0, 0, 9⟩ frames = some macB from by decide] at h

/-- … and with the 16-byte form. -/
example (iface : Go.NetInterface) (src : Bytes) :
    ∃ st, (Gen.arpping.Ping (arpEnv none) iface src (Go.netIPv4 10 0 0 9) 4).run { rest := frames, senders := 0 } =
        .ok ((macB, none), st) ∧ st.senders = 1 := by
  have h := code_ping iface src (Go.netIPv4 10 0 0 9) ⟨10, 0, 0, 9⟩ frames 4 (Or.inl rfl) (by decide)
  rwa [show catchARPReply ⟨10, 0, 0, 9⟩ frames = some macB from by decide] at h

/-- Nobody answers: the read error of the closed socket. -/
example (iface : Go.NetInterface) :
    ∃ st, (Gen.arpping.catchARPReply (arpEnv none) iface [10, 0, 0, 8] 4).run { rest := frames, senders := 0 } =
        .ok (([], readClosed), st) ∧ st.senders = 0 := by
  have h := code_catchARPReply iface [10, 0, 0, 8] ⟨10, 0, 0, 8⟩ frames 4 (Or.inr rfl) (by decide)
  rwa [show catchARPReply ⟨10, 0, 0, 8⟩ frames = none from by decide] at h

example : arpVerify macB [none, some macB] = true ∧ arpVerify macC [none, some macB] = false ∧
    arpVerify macC [none, none, none, some macB] = false ∧ arpVerify macC ([none, none, none, some macB].take 3) = true := by
  decide

/-- The translated `arpVerify`: a timeout, then an answer — free iff the answer is the client's own address. -/
example (sx : Gen.server.server) (ip : Bytes) :
    (∃ st, (Gen.server.server_arpVerify (runEnv none) sx macB ip).run
        { rest := [], pings := [none, some macB], handled := [] } = .ok (true, st)) ∧
    (∃ st, (Gen.server.server_arpVerify (runEnv none) sx macC ip).run
        { rest := [], pings := [none, some macB], handled := [] } = .ok (false, st)) := by
  constructor
  · obtain ⟨st, h, _⟩ := code_arpVerify sx macB ip [none, some macB] [] []
    exact ⟨st, by rw [h]; rfl⟩
  · obtain ⟨st, h, _⟩ := code_arpVerify sx macC ip [none, some macB] [] []
    exact ⟨st, by rw [h]; rfl⟩

end PsaDhcp.Props.C08Code
