import PsaDhcp.Model.Client
import PsaDhcp.Spec.Inet
import PsaDhcp.Proofs.ClientP
/-
C16 — Client messages are well-formed for the state they are sent in.
-/
namespace PsaDhcp.Props.C16
open PsaDhcp PsaDhcp.Spec

/-- Each of the four templates, read back with the stack's decoders: a BOOTREQUEST from port 68
to 67 with valid checksums, the interface's hardware address, the client identifier derived from
it, message type, maximum message size, parameter request list; and exactly the
source / destination / ciaddr / requested-address / server-identifier pattern of its state. -/
theorem template_wire (st : ReqState) (mac : Bytes) (xid ident : Nat) (offered server : Ip4)
    (hm : mac.length ≤ 16) (hx : xid < 4294967296) (hi : ident < 65536) :
    let pkt := (template st mac xid ident offered server).1
    ∃ ip udp r, decodeIPv4 pkt = .ok ip ∧ decodeUDP ip.data = .ok udp ∧ decode udp.data = .ok r ∧
      IpHeaderVerifies pkt ∧ UdpVerifies (optIp ip.src) (optIp ip.dst) 0x11 (pkt.drop 20) ∧
      ip.proto = 0x11 ∧ ip.ttl = 64 ∧ udp.srcPort = 68 ∧ udp.dstPort = 67 ∧ r.op = 1 ∧ r.htype = 1 ∧ r.xid = xid ∧ r.chaddr = mac ∧
      (decodeOptions r.options).clientIdentifier = (optClientIdentifier mac).data ∧
      (decodeOptions r.options).maxMessageSize = 1500 ∧ (decodeOptions r.options).parametersList = paramList ∧
      (match st with
       | .discover => (decodeOptions r.options).messageType = 1 ∧ ip.src = some Ip4.zero ∧ ip.dst = some Ip4.bcast ∧
           r.ciaddr = some Ip4.zero ∧ (decodeOptions r.options).requestedIP = none ∧ (decodeOptions r.options).serverIdentifier = none
       | .selecting => (decodeOptions r.options).messageType = 3 ∧ ip.src = some Ip4.zero ∧ ip.dst = some Ip4.bcast ∧
           r.ciaddr = some Ip4.zero ∧ (decodeOptions r.options).requestedIP = some offered ∧
           (decodeOptions r.options).serverIdentifier = some server
       | .renewing => (decodeOptions r.options).messageType = 3 ∧ ip.src = some offered ∧ ip.dst = some server ∧
           r.ciaddr = some offered ∧ (decodeOptions r.options).requestedIP = none ∧ (decodeOptions r.options).serverIdentifier = none
       | .rebinding => (decodeOptions r.options).messageType = 3 ∧ ip.src = some offered ∧ ip.dst = some Ip4.bcast ∧
           r.ciaddr = some offered ∧ (decodeOptions r.options).requestedIP = none ∧ (decodeOptions r.options).serverIdentifier = none) :=
  Proofs.ClientP.template_wire st mac xid ident offered server hm hx hi

/-- Only the renewing template asks for a unicast socket (after an ARP lookup of the server). -/
theorem unicast_only_renewing (st : ReqState) (mac : Bytes) (xid ident : Nat) (offered server : Ip4) :
    (template st mac xid ident offered server).2 = (if st = .renewing then some (offered, server) else none) :=
  Proofs.ClientP.unicast_only_renewing st mac xid ident offered server

/-- The client identifier is `ff ‖ crc32(hw) ‖ 00 03 00 01 ‖ first six bytes of hw`: 15 bytes. -/
theorem client_identifier_shape (mac : Bytes) :
    (optClientIdentifier mac).code = 61 ∧ (optClientIdentifier mac).data.length = 15 ∧
    (optClientIdentifier mac).data.head? = some 0xff ∧ (optClientIdentifier mac).data.drop 9 = copyInto 6 mac :=
  Proofs.ClientP.client_identifier_shape mac

/-- Retransmissions within one exchange: for every stream of random numbers the spacing between
consecutive transmissions is at least 700 ms and never decreases. -/
theorem retransmit_delays (rs : List Nat) :
    (∀ d ∈ delays retransBase rs, 700000000 ≤ d) ∧ List.Pairwise (· ≤ ·) (delays retransBase rs) :=
  Proofs.ClientP.retransmit_delays rs

/-- The transaction id is a parameter of the template closure: every retransmission of one
exchange carries the same one (and differs from the first only in the IP identification). -/
theorem retransmission_same_xid (st : ReqState) (mac : Bytes) (xid i₁ i₂ : Nat) (offered server : Ip4)
    (h₁ : i₁ < 65536) (h₂ : i₂ < 65536) :
    ((template st mac xid i₁ offered server).1.drop 20) = ((template st mac xid i₂ offered server).1.drop 20) :=
  Proofs.ClientP.retransmission_same_xid st mac xid i₁ i₂ offered server h₁ h₂

end PsaDhcp.Props.C16
