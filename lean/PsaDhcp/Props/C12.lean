import PsaDhcp.Model.Dhcp
import PsaDhcp.Spec.Rfc2131
import PsaDhcp.Proofs.Dhcp
/-
C12 — DHCP message encoding and decoding are mutually inverse and bounds-safe.
Only property theorems and non-vacuity examples live here; helper lemmas are in `Proofs/Dhcp.lean`.
-/
namespace PsaDhcp.Props.C12
open PsaDhcp PsaDhcp.Spec

/-- Decoding the encoding of any representable message (hardware address up to 16 bytes, at least
one option, codes 1–254, payloads up to 255 bytes) returns the same message (Go's `nil` addresses
come back as 0.0.0.0). -/
theorem decode_assemble (m : Msg) (wf : Msg.Wf m) : decode m.assemble = .ok (Msg.norm m) :=
  Proofs.Dhcp.decode_assemble m wf

/-- Decoding arbitrary bytes succeeds exactly when an independent RFC 2131/2132 reading succeeds,
and then returns exactly the fixed fields at the RFC offsets and the options of the grammar:
acceptance ⇔ at least 240 bytes and an option area terminated by an End option on an option
boundary. -/
theorem decode_iff_grammar (b : Bytes) (m : Msg) :
    decode b = .ok m ↔ (240 ≤ b.length ∧ FixedAt b m ∧ Area (b.drop 240) m.options) :=
  Proofs.Dhcp.decode_iff_grammar b m

/-- The grammar is functional: an option area has at most one reading, so "the options an
independent parser extracts" is well defined. -/
theorem area_unique (a : Bytes) (os os' : List Opt) (h : Area a os) (h' : Area a os') : os = os' :=
  Proofs.Dhcp.area_unique a os os' h h'

/-- Every byte string is either rejected or decoded; no index or slice is ever out of range. -/
theorem decode_never_panics (b : Bytes) (site : String) : decode b ≠ .error (.panic site) :=
  Proofs.Dhcp.decode_never_panics b site

/-- Rejection happens for exactly two reasons. -/
theorem decode_reject_reasons (b : Bytes) (why : String) (h : decode b = .error (.reject why)) :
    (why = "short dhcpmsg" ∧ b.length < 240) ∨ (why = "truncated options" ∧ 240 ≤ b.length ∧ ¬ ∃ os, Area (b.drop 240) os) :=
  Proofs.Dhcp.decode_reject_reasons b why h

/-- Typed option values are produced only from payloads of exactly the length the type requires. -/
theorem typed_exact (x : Bytes) :
    (toUint8 x ≠ 0 → x.length = 1) ∧ (toUint16 x ≠ 0 → x.length = 2) ∧ (toSecs x ≠ 0 → x.length = 4) ∧
    (toNetmask x ≠ none → x.length = 4) ∧ (toV4 x ≠ none → x.length = 4) ∧
    (toV4A x ≠ [] → 4 ≤ x.length ∧ x.length % 4 = 0 ∧ (toV4A x).length * 4 = x.length) :=
  Proofs.Dhcp.typed_exact x

/-- … and from such payloads they are the big-endian readings. -/
theorem typed_values (a b c d : UInt8) :
    toUint8 [a] = a ∧ toUint16 [a, b] = a.toNat * 256 + b.toNat ∧
    toSecs [a, b, c, d] = a.toNat * 16777216 + b.toNat * 65536 + c.toNat * 256 + d.toNat ∧
    toV4 [a, b, c, d] = some ⟨a, b, c, d⟩ ∧ toNetmask [a, b, c, d] = some ⟨a, b, c, d⟩ :=
  Proofs.Dhcp.typed_values a b c d

/-- For hardware-address lengths above 16 (undefined by RFC 2131) the decoder returns that many
bytes starting at offset 28, zero-extended, never past the packet. -/
theorem long_hlen (b : Bytes) (m : Msg) (h : decode b = .ok m) :
    ∃ hl, b[2]? = some hl ∧ m.chaddr.length = hl.toNat ∧
      m.chaddr = (b.drop 28).take hl.toNat ++ List.replicate (hl.toNat - (b.length - 28)) 0 :=
  Proofs.Dhcp.long_hlen b m h

/-! Non-vacuity -/
def exMsg : Msg :=
  { op := 1, htype := 1, hops := 0, xid := 0xdeadbeef, secs := 0, flags := 0x8000, ciaddr := none, yiaddr := none,
    siaddr := none, giaddr := none, chaddr := [2, 0, 0, 0, 0, 9], sname := List.replicate 64 0, file := List.replicate 128 0,
    cookie := 0x63825363, options := [⟨53, [1]⟩, ⟨61, [1, 2, 3, 4]⟩] }

example : Msg.Wf exMsg := by
  refine ⟨by decide, by decide, by decide, by decide, by decide, by decide, by decide, by decide, ?_⟩
  intro o ho
  simp [exMsg] at ho
  rcases ho with rfl | rfl <;> decide

end PsaDhcp.Props.C12
