import PsaDhcp.Proofs.CodeOptions
/-
C07 on the CODE: `server.dhcpOptions` (lib/server/server.go), `OptionIPAddressLeaseDuration` (lib/dhcpmsg) and the map
keys `Duid.String()` / `Uip.String()` (lib/server/ipdb/duid, uip) as translated from the Go source on every check.
The translated `dhcpOptions` yields exactly the option list of the model's `SrvCfg.dhcpOptions`, over which
`options_spec`, `options_decoded`, `offer_ack_agree` (Props/C07.lean) are stated; the keys under which the lease database
and the override table file their entries are injective and disjoint — the abstraction `Key` of Model/Clients.lean.
-/
namespace PsaDhcp.Props.C07Code
open PsaDhcp PsaDhcp.Go PsaDhcp.Code

/-- Option 51 carries the whole seconds of the configured lease duration (32-bit). -/
theorem code_lease_option (ns : Int) (h : 0 ≤ ns) :
    Gen.dhcpmsg.OptionIPAddressLeaseDuration ns = .ok (optToGen (optLease (leaseSecs ns))) :=
  Proofs.CodeOptions.OptionIPAddressLeaseDuration_eq ns h

/-- `dhcpOptions(clientMAC)`: lease time, netmask, then router / DNS / NTP / domain / hostname with the per-client entry
replacing exactly the settings it specifies; unset settings omitted. -/
theorem code_dhcpOptions (sx : Gen.server.server) (c : SrvCfg) (mac : Bytes) (h : CfgOf sx c) (hl : 0 ≤ c.leaseNs) :
    Gen.server.server_dhcpOptions sx mac = .ok ((c.dhcpOptions mac).map optToGen) :=
  Proofs.CodeOptions.dhcpOptions_eq sx c mac h hl

/-- `Duid.String()` never fails and is injective: two identities share a table key only if they are equal. -/
theorem code_duid_string_total (d : Bytes) : ∃ k, Gen.duid.Duid_String d = .ok k := Proofs.CodeOptions.Duid_String_total d

theorem code_duid_string_injective (d₁ d₂ : Bytes) (h : Gen.duid.Duid_String d₁ = Gen.duid.Duid_String d₂) : d₁ = d₂ :=
  Proofs.CodeOptions.Duid_String_injective d₁ d₂ h

/-- `Uip.String()` is injective on addresses. -/
theorem code_uip_string_injective (a b : UInt32) (h : Gen.uip.Uip_String a = Gen.uip.Uip_String b) : a = b :=
  Proofs.CodeOptions.Uip_String_injective a b h

/-- An address key is never an identity key (`uip(` vs `<duid:`). -/
theorem code_keys_disjoint (a : UInt32) (d : Bytes) : Gen.duid.Duid_String d ≠ .ok (Gen.uip.Uip_String a) :=
  Proofs.CodeOptions.keys_disjoint a d

example : Gen.duid.Duid_String [0, 3, 0, 0, 0xaa, 0x0b] = .ok "<duid:00-03-00-00-aa-0b>".toUTF8.toList ∧
    Gen.duid.Duid_String [] = .ok "<duid:nil>".toUTF8.toList ∧ Gen.uip.Uip_String 0x0a000005 = "uip(a000005)".toUTF8.toList := by
  decide +kernel

/-! Non-vacuity of `code_dhcpOptions`: a Go `server` value with one per-client entry (router, DNS and host name set;
the router stored in the 16-byte `net.IP` form) carries a model configuration in the sense of `CfgOf`, and the
translated function, evaluated on it, gives the entry's settings to that client and the global ones to any other. -/
section NonVacuity

def exMac : Bytes := [0x02, 0, 0, 0, 0xaa, 0x0b]

def exOv : Override :=
  { mac := exMac, router := some ⟨10, 0, 0, 254⟩, dns := [⟨10, 0, 0, 53⟩], hostname := [104, 49] }

def exCfg : SrvCfg :=
  { selfIp := ⟨10, 0, 0, 1⟩, selfMac := [2, 0, 0, 0, 0, 1], leaseNs := 3600 * 1000000000, mask := [255, 255, 255, 0],
    router := some ⟨10, 0, 0, 1⟩, dns := [⟨10, 0, 0, 1⟩], ntp := [], domain := [108, 97, 110], overrides := [exOv] }

def exLopts : Gen.leaseopts.LeaseOptions :=
  { Gen.leaseopts.LeaseOptions.zero with
    Netmask := [255, 255, 255, 0], Router := [10, 0, 0, 1], DNS := [[10, 0, 0, 1]],
    LeaseDuration := 3600 * 1000000000, Domain := [108, 97, 110] }

def exKey : Bytes := Proofs.CodeOptions.duidKey (sduid exMac)

def exSx : Gen.server.server :=
  { Gen.server.server.zero with
    lopts := exLopts,
    overrides := [(exKey, { exLopts with Router := Go.netIPv4 10 0 0 254, DNS := [[10, 0, 0, 53]], Hostname := [104, 49] })] }

example : exKey = "<duid:00-03-00-00-02-00-00-00-aa-0b>".toUTF8.toList := by decide +kernel

theorem exCfgOf : CfgOf exSx exCfg := by
  refine ⟨rfl, rfl, by unfold IpRep; decide, by decide, by decide, rfl, ?_⟩
  intro mac k hk
  rw [Proofs.CodeOptions.Duid_String_eq] at hk
  have hk := (Except.ok.inj hk).symm
  subst hk
  by_cases hm : mac = exMac
  · subst hm
    have hov : exCfg.override? exMac = some exOv := by decide
    rw [hov]
    refine ⟨_, rfl, ?_⟩
    refine ⟨by unfold IpRep; decide, by decide, by decide, rfl, rfl⟩
  · have hov : exCfg.override? mac = none := by
      have hne : ¬ exMac = mac := fun e => hm e.symm
      simp [SrvCfg.override?, exCfg, exOv, hne]
    rw [hov]
    have hne : ¬ (exKey = Proofs.CodeOptions.duidKey (sduid mac)) := by
      intro e
      have := Proofs.CodeOptions.duidKey_inj _ _ e
      exact hm (List.append_cancel_left this).symm
    simp [Go.mapGet?, exSx, hne]

example : Gen.server.server_dhcpOptions exSx exMac = .ok ((exCfg.dhcpOptions exMac).map optToGen) :=
  code_dhcpOptions exSx exCfg exMac exCfgOf (by decide)

/-- The client with the entry gets the entry's router, DNS server and host name; lease time, netmask and domain are the
global ones. -/
example : Gen.server.server_dhcpOptions exSx exMac = .ok
    [⟨51, [0, 0, 14, 16]⟩, ⟨1, [255, 255, 255, 0]⟩, ⟨3, [10, 0, 0, 254]⟩, ⟨6, [10, 0, 0, 53]⟩, ⟨15, [108, 97, 110]⟩,
     ⟨12, [104, 49]⟩] ∧
    (exCfg.dhcpOptions exMac).map optToGen =
    [⟨51, [0, 0, 14, 16]⟩, ⟨1, [255, 255, 255, 0]⟩, ⟨3, [10, 0, 0, 254]⟩, ⟨6, [10, 0, 0, 53]⟩, ⟨15, [108, 97, 110]⟩,
     ⟨12, [104, 49]⟩] := by
  decide +kernel

/-- Any other client gets the global settings. -/
example : Gen.server.server_dhcpOptions exSx [2, 0, 0, 0, 0, 7] = .ok
    [⟨51, [0, 0, 14, 16]⟩, ⟨1, [255, 255, 255, 0]⟩, ⟨3, [10, 0, 0, 1]⟩, ⟨6, [10, 0, 0, 1]⟩, ⟨15, [108, 97, 110]⟩] := by
  decide +kernel

end NonVacuity

end PsaDhcp.Props.C07Code
