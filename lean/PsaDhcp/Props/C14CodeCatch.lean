import PsaDhcp.Proofs.CodeCatch
/-
C14 / C10 (client side) on the CODE: `catchReply` (lib/client/dclient/netio.go) as translated from the Go source on
every check.  For every list of frames the socket delivers before it is closed — any bytes — the loop never panics and
returns what the model's `catchReply` returns: the first frame that is an IPv4/UDP datagram to port 68 whose DHCP
payload carries the interface's hardware address and passes the verifier of the state (`accept_iff`, Props/C14.lean),
or the first such NAK (error `errWasNack`), ignoring everything else; the read error if none.
-/
namespace PsaDhcp.Props.C14CodeCatch
open PsaDhcp PsaDhcp.Go PsaDhcp.Code

theorem code_catchReply (iface : Go.NetInterface) (w : Waiting) (fs : List Bytes) (fuel : Nat)
    (hx : w.xid < 4294967296) (hf : fs.length < fuel) :
    ∃ rest, (Gen.dclient.catchReply (cliSockEnv none) iface (vrfyOf w) fuel).run fs =
      .ok (caughtToGen (match catchReply iface.HardwareAddr w (fs.map (·.take 4096)) with | .ok c => c | .error _ => none), rest) :=
  Proofs.CodeCatch.catchReply_eq iface w fs fuel hx hf

/-- The model's loop never fails (so the `match` above always takes its first arm). -/
theorem model_catchReply_total (mac : Bytes) (w : Waiting) (fs : List Bytes) : ∃ c, catchReply mac w fs = .ok c :=
  Proofs.CodeCatch.model_catchReply_total mac w fs

/-- If the receive socket cannot be opened `catchReply` returns that error. -/
theorem code_catchReply_open_fails (iface : Go.NetInterface) (w : Waiting) (fs : List Bytes) (fuel : Nat) (e : String) :
    (Gen.dclient.catchReply (cliSockEnv (some e)) iface (vrfyOf w) fuel).run fs =
      .ok ((Gen.dhcpmsg.Message.zero, Gen.dhcpmsg.DecodedOptions.zero, some e), fs) :=
  Proofs.CodeCatch.catchReply_open_fails iface w fs fuel e

/-! ### Non-vacuity: the statements evaluated on concrete frames (kernel evaluation of both sides, independent of the
theorems above). -/

def exMac : Bytes := [2, 0, 0, 0, 0, 1]
def exIface : Go.NetInterface := { Go.NetInterface.zero with HardwareAddr := exMac }
def exSrv : Ip4 := ⟨192, 168, 1, 1⟩
def exJunk : List Bytes := [[1, 2, 3], List.replicate 20 0x45]

/-- A server reply of DHCP message type `t` for transaction 7, built with the model's assemblers. -/
def exReply (t : UInt8) : Bytes :=
  let m : Msg :=
    { op := 2, htype := 1, hops := 0, xid := 7, secs := 0, flags := 0, ciaddr := none, yiaddr := some ⟨192, 168, 1, 50⟩,
      siaddr := none, giaddr := none, chaddr := exMac, sname := [], file := [], cookie := 0x63825363,
      options := [optType t, optServerIdentifier (some exSrv), optRouter (some exSrv), optLease 3600] }
  ({ ident := 1, flags := 0, ttl := 64, proto := 0x11, src := some exSrv, dst := some Ip4.bcast,
     data := ({ srcPort := 67, dstPort := 68, data := m.assemble } : UDP).assemble } : IPv4).assemble

/-- Junk only: the code returns the read error with zero values, the model `none`. -/
example :
    (Gen.dclient.catchReply (cliSockEnv none) exIface (vrfyOf (.offer 7)) 3).run exJunk =
      .ok ((Gen.dhcpmsg.Message.zero, Gen.dhcpmsg.DecodedOptions.zero, some "file already closed"), []) ∧
    (match catchReply exMac (.offer 7) (exJunk.map (·.take 4096)) with | .ok none => true | _ => false) = true := by
  set_option maxRecDepth 100000 in decide

/-- Junk, then a well-formed OFFER for the transaction in flight, then one more frame: the offer is returned (no
error), the last frame is left unread; the model returns the same message as `passed`. -/
example :
    (match (Gen.dclient.catchReply (cliSockEnv none) exIface (vrfyOf (.offer 7)) 5).run (exJunk ++ [exReply 2, [9]]) with
     | .ok (r, rest) => decide (r.1.Xid = 7 ∧ r.1.YourIP = ipToGen ⟨192, 168, 1, 50⟩ ∧ r.1.ClientMAC = exMac ∧
         r.2.1.MessageType = 2 ∧ r.2.1.Routers = [ipToGen exSrv] ∧ r.2.2 = none ∧ rest = [[9]])
     | .error _ => false) = true ∧
    (match catchReply exMac (.offer 7) ((exJunk ++ [exReply 2, [9]]).map (·.take 4096)) with
     | .ok (some (.passed m o)) =>
         decide (m.xid = 7 ∧ m.yiaddr = some ⟨192, 168, 1, 50⟩ ∧ o.messageType = 2 ∧ o.routers = [exSrv])
     | _ => false) = true := by
  set_option maxRecDepth 100000 in decide

/-- The same frames while waiting for another transaction id: everything is ignored. -/
example :
    (Gen.dclient.catchReply (cliSockEnv none) exIface (vrfyOf (.offer 8)) 5).run (exJunk ++ [exReply 2, [9]]) =
      .ok ((Gen.dhcpmsg.Message.zero, Gen.dhcpmsg.DecodedOptions.zero, some "file already closed"), []) ∧
    (match catchReply exMac (.offer 8) ((exJunk ++ [exReply 2, [9]]).map (·.take 4096)) with
     | .ok none => true | _ => false) = true := by
  set_option maxRecDepth 100000 in decide

/-- A NAK while requesting: returned with `errWasNack`; the model says `nack`. -/
example :
    (match (Gen.dclient.catchReply (cliSockEnv none) exIface
        (vrfyOf (.selectingAck (some ⟨192, 168, 1, 50⟩) (some exSrv) 7)) 5).run (exJunk ++ [exReply 6, [9]]) with
     | .ok (r, rest) => decide (r.1.Xid = 7 ∧ r.2.1.MessageType = 6 ∧ r.2.2 = some "DHCP NACK received" ∧ rest = [[9]])
     | .error _ => false) = true ∧
    (match catchReply exMac (.selectingAck (some ⟨192, 168, 1, 50⟩) (some exSrv) 7)
        ((exJunk ++ [exReply 6, [9]]).map (·.take 4096)) with
     | .ok (some (.nack m o)) => decide (m.xid = 7 ∧ o.messageType = 6)
     | _ => false) = true := by
  set_option maxRecDepth 100000 in decide

/-- The socket cannot be opened. -/
example :
    (Gen.dclient.catchReply (cliSockEnv (some "permission denied")) exIface (vrfyOf (.offer 7)) 5).run exJunk =
      .ok ((Gen.dhcpmsg.Message.zero, Gen.dhcpmsg.DecodedOptions.zero, some "permission denied"), exJunk) := by
  set_option maxRecDepth 100000 in decide

end PsaDhcp.Props.C14CodeCatch
