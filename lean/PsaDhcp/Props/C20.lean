import PsaDhcp.Model.Fs
import PsaDhcp.Proofs.OsEdge
/-
C20 — resolv.conf is replaced atomically.
-/
namespace PsaDhcp.Props.C20
open PsaDhcp

/-- At every instant of every interleaving of any number of writers — any scheduler, a failure at
any step, short writes, kills anywhere — a reader of the target sees either the complete previous
file or one writer's complete new content with mode 0644; never a partial or mixed file. -/
theorem reader_sees_whole_file (old : Option File) (bufs : List Bytes) (as : List Act) :
    (runFs (fsInit old bufs) as).target = old ∨
      ∃ w ∈ (runFs (fsInit old bufs) as).ws, w.pc = .doneOk ∧ (runFs (fsInit old bufs) as).target = some ⟨w.buf, 0o644⟩ :=
  Proofs.OsEdge.reader_sees_whole_file old bufs as

/-- An update that fails (returns an error) has removed its temporary file … -/
theorem failed_update_removes_temp (old : Option File) (bufs : List Bytes) (as : List Act) (i : Nat) (w : Writer)
    (hw : (runFs (fsInit old bufs) as).ws[i]? = some w) (he : w.pc = .doneErr) :
    w.tmp = none ∨ ∃ t, w.tmp = some t ∧ (runFs (fsInit old bufs) as).tmps[t]? = some none :=
  Proofs.OsEdge.failed_update_removes_temp old bufs as i w hw he

/-- … and leaves the previous file in place (a lone writer that fails or is killed never changes
the target). -/
theorem failed_update_keeps_previous (old : Option File) (buf : Bytes) (as : List Act) (w : Writer)
    (hw : (runFs (fsInit old [buf]) as).ws[0]? = some w) (he : w.pc ≠ .doneOk) :
    (runFs (fsInit old [buf]) as).target = old := Proofs.OsEdge.failed_update_keeps_previous old buf as w hw he

/-- A lone writer that succeeds installs exactly its buffer, world-readable. -/
theorem successful_update_installs (old : Option File) (buf : Bytes) (as : List Act) (w : Writer)
    (hw : (runFs (fsInit old [buf]) as).ws[0]? = some w) (he : w.pc = .doneOk) :
    (runFs (fsInit old [buf]) as).target = some ⟨buf, 0o644⟩ := Proofs.OsEdge.successful_update_installs old buf as w hw he

/-- Temporary names are never shared between writers (O_EXCL). -/
theorem temp_names_distinct (old : Option File) (bufs : List Bytes) (as : List Act) (i j : Nat) (wi wj : Writer) (t : Nat)
    (hi : (runFs (fsInit old bufs) as).ws[i]? = some wi) (hj : (runFs (fsInit old bufs) as).ws[j]? = some wj)
    (hne : i ≠ j) (ht : wi.tmp = some t) : wj.tmp ≠ some t := Proofs.OsEdge.temp_names_distinct old bufs as i j wi wj t hi hj hne ht

/-- A writer with no failure and no kill finishes successfully in six steps. -/
theorem undisturbed_writer_succeeds (old : Option File) (buf : Bytes) :
    ((runFs (fsInit old [buf]) (List.replicate 6 (.step 0 {}))).ws[0]?).map (·.pc) = some .doneOk ∧
    (runFs (fsInit old [buf]) (List.replicate 6 (.step 0 {}))).target = some ⟨buf, 0o644⟩ :=
  Proofs.OsEdge.undisturbed_writer_succeeds old buf

/-! Non-vacuity: two writers, one killed after its write, the other succeeding. -/
example : (runFs (fsInit (some ⟨[1], 0o600⟩) [[7, 7], [8]])
    [.step 0 {}, .step 0 {}, .kill 0, .step 1 {}, .step 1 {}, .step 1 {}, .step 1 {}, .step 1 {}, .step 1 {}]).target = some ⟨[8], 0o644⟩ := by decide

end PsaDhcp.Props.C20
