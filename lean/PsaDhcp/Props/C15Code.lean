import PsaDhcp.Proofs.CodeClientAuto
/-
C15 (and C14's "advances only on …") on the CODE: the client automaton of lib/client/dclient — `Run`, the eight state
functions of dhcpstates.go / sysstates.go, `panicReset`, `ResumeClient`, `buildNetconfig` — as translated from the Go
source on every check, run in the world `cliEnv` (Code/Bridge8.lean) that feeds it a script of the model's events
(accepted reply / NAK / deadline / ARP answer / SetIface result / T1 / link-up) and logs the model's effects, produces
the effect trace of the model automaton `crun` of Model/Automaton.lean — the automaton over which the theorems of
Props/C15.lean are proved (configured only after a clean probe of the acknowledged address, with the acknowledged and
filtered parameters; conflict or SetIface failure ⇒ unconfigure, 30 s, purge; NAK/expiry ⇒ purge and rediscover;
link-up ⇒ early re-validation).
-/
namespace PsaDhcp.Props.C15Code
open PsaDhcp PsaDhcp.Go PsaDhcp.Code

/-- Trace refinement: for every script that fits the model run, the translated client (driven by `mclient.Run`'s loop)
terminates without a Go panic and its effect log starts with the model's trace (the log may go on after the script is
over: the world then cancels the context and the state function in progress finishes).  (`mrun` stops when a wait has
found the script exhausted — `CliWorld.over`, `mclient.Run`'s own context — not when no event is left: after a final
link-up the client is resumed, as the model says.) -/
theorem code_client_trace (mac : Bytes) (route : Bool) (evs : List CEv) (t : Int) (n : Nat)
    (hf : ScriptFits mac route cinit.1 evs) (hn : 2 * evs.length + 4 ≤ n) :
    ∃ dx w, (mrun route n n (dx0 mac)).run { evs := evs, log := [], cancelled := false, now := t } = .ok (dx, w) ∧
      normTrace (cinit.2 ++ (crun mac route cinit.1 evs).2) <+: w.log :=
  Proofs.CodeClientAuto.client_trace mac route evs t n hf hn

/-- `runStateBound`: T1/T2/expiry are `now` + the model's `boundDeadlines` of the last accepted options (server values
only if 60 s < T1 < T2 < lease, else 50 % and 87.5 %), whatever the world does afterwards.  The lease time is a decoded
32-bit option value (`hl`; `Props.C15.deadlines_ordered` has the same hypothesis): beyond 2⁵³ ns the translated
`float64(d) * 0.5` rounds to 53 bits while the model's `halfOf` is exact — e.g. `leaseSecs = 2^53 + 1` gives
4503599627370496536870912 against 4503599627370496500000000. -/
theorem code_bound_deadlines (route : Bool) (dx : Gen.dclient.dclient) (o : DecodedOptions) (w : CliWorld) (next : Int)
    (ho : dx.lastOpts = doptsToGen o) (hl : o.leaseSecs < 4294967296) :
    ∃ dx' w', (Gen.dclient.dclient_runStateBound (cliEnv route) dx next).run w = .ok (dx', w') ∧
      dx'.boundDeadlines = { t1 := w.now + (boundDeadlines o).t1, t2 := w.now + (boundDeadlines o).t2,
                             tx := w.now + (boundDeadlines o).tx } ∧ dx'.state = next :=
  Proofs.CodeClientAuto.bound_deadlines route dx o w next ho hl

/-- `ResumeClient`: a held lease (bound, renewing, rebinding) is re-validated early — all three deadlines five seconds
from now, state rebinding; anything else starts over. -/
theorem code_resumeClient (route : Bool) (dx : Gen.dclient.dclient) (w : CliWorld) :
    (Gen.dclient.dclient_ResumeClient (cliEnv route) dx).run w =
      .ok (if dx.state = 6 ∨ dx.state = 7 ∨ dx.state = 8 then
             { dx with state := 8, boundDeadlines := { t1 := w.now + 5000000000, t2 := w.now + 5000000000, tx := w.now + 5000000000 } }
           else { dx with state := 1 }, w) :=
  Proofs.CodeClientAuto.resumeClient_eq route dx w

/-- `buildNetconfig`: the configuration is that of the last accepted ACK (class-default netmask if none usable is
supplied); with an empty router list it is an index-out-of-range panic (excluded by the verifiers: C14). -/
theorem code_buildNetconfig (dx : Gen.dclient.dclient) (m : Msg) (o : DecodedOptions)
    (hm : dx.lastMsg = msgToGen m) (ho : dx.lastOpts = doptsToGen o) (hmtu : o.interfaceMTU < 65536) :
    match buildNetconfig m o with
    | some nc => ∃ c, Gen.dclient.dclient_buildNetconfig dx = .ok c ∧ ifcOf c = nc ∧ c.Interface = dx.iface
    | none => ∃ site, Gen.dclient.dclient_buildNetconfig dx = .error (.panic site) :=
  Proofs.CodeClientAuto.buildNetconfig_eq dx m o hm ho hmtu

/-! ### Non-vacuity: a concrete script that fits, and the log the translated client produces for it -/

def exMac : Bytes := [2, 0, 0, 0, 0, 1]

def exOffer : Msg :=
  { op := 2, htype := 1, hops := 0, xid := 7, secs := 0, flags := 0, ciaddr := none, yiaddr := some ⟨10, 0, 0, 5⟩,
    siaddr := none, giaddr := none, chaddr := exMac, sname := [], file := [], cookie := 0x63825363, options := [] }

def exOOffer : DecodedOptions :=
  { messageType := 2, serverIdentifier := some ⟨10, 0, 0, 1⟩, routers := [⟨10, 0, 0, 1⟩], dns := [⟨10, 0, 0, 53⟩],
    leaseSecs := 3600, subnetMask := some ⟨255, 255, 255, 0⟩, interfaceMTU := 1400 }

def exOAck : DecodedOptions := { exOOffer with messageType := 5 }

/-- OFFER, ACK, no ARP answer, SetIface succeeds, T1, then a NAK while renewing, then a link-up while rediscovering. -/
def exScript : List CEv :=
  [.accepted exOffer exOOffer, .accepted exOffer exOAck, .arp none, .ifaceResult true, .t1, .nack, .linkUp]

def exIfc : Ifconfig :=
  { mtu := 1400, router := some ⟨10, 0, 0, 1⟩, ip := some ⟨10, 0, 0, 5⟩, netmask := some ⟨255, 255, 255, 0⟩,
    dns := [⟨10, 0, 0, 53⟩], domain := [], leaseSecs := 3600 }

theorem exScript_fits : ScriptFits exMac true cinit.1 exScript := by
  simp [ScriptFits, EvFits, exScript, cstep, cinit, enterArpCheck, enterIfconfig, enterBound, toPurge, exOOffer, exOAck,
    exOffer, buildNetconfig]

/-- The log of the translated client on the script (`none` would be a Go panic or exhausted fuel). -/
def exLog : Option (List Eff) :=
  match (mrun true 18 18 (dx0 exMac)).run { evs := exScript, log := [], cancelled := false, now := 0 } with
  | .ok (_, w) => some w.log
  | .error _ => none

/-- The run of the translated client on the script, evaluated: the model's trace (the final link-up included). -/
example : exLog = some [.preNil, .unconfigure, .up, .postNil, .send .discover none none,
      .send .selecting (some ⟨10, 0, 0, 5⟩) (some ⟨10, 0, 0, 1⟩), .arpProbe (some ⟨10, 0, 0, 5⟩),
      .pre exIfc, .setIface exIfc, .post exIfc, .send .renewing (some ⟨10, 0, 0, 5⟩) (some ⟨10, 0, 0, 1⟩),
      .preNil, .unconfigure, .up, .postNil, .send .discover none none,
      .preNil, .unconfigure, .up, .postNil, .send .discover none none] := by decide +kernel

example : exLog = some (normTrace (cinit.2 ++ (crun exMac true cinit.1 exScript).2)) := by decide +kernel

/-- The theorem applied to it. -/
example : ∃ dx w, (mrun true 18 18 (dx0 exMac)).run { evs := exScript, log := [], cancelled := false, now := 0 } = .ok (dx, w) ∧
    normTrace (cinit.2 ++ (crun exMac true cinit.1 exScript).2) <+: w.log :=
  code_client_trace exMac true exScript 0 18 exScript_fits (by decide)

end PsaDhcp.Props.C15Code
