import PsaDhcp.Proofs.CodeVerify
/-
C14 on the CODE: `PsaDhcp.Gen.verify.*` is regenerated from /repo's lib/client/verify/verifyer.go on every
check by the translator /verif/xlate (closure-returning Go functions in uncurried form).  The translated
acceptance predicates coincide with the models of `Props/C14.lean` on every decoded message and option set,
so `verify_passed_iff` / `accept_iff` / `nack_iff` are theorems about the code as translated.
`verify.State` is `Failed = 0`, `Passed = 1`, `IsNack = 2`.
-/
namespace PsaDhcp.Props.C14Code
open PsaDhcp PsaDhcp.Go PsaDhcp.Code

theorem code_verify_common (xid : UInt32) (m : Msg) (o : DecodedOptions) (hx : m.xid < 4294967296) :
    Gen.verify.verifyCommon xid (msgToGen m) (doptsToGen o) = vstateToGen (verifyCommon xid.toNat m o) :=
  Proofs.CodeVerify.verifyCommon_eq xid m o hx

theorem code_verify_offer (xid : UInt32) (m : Msg) (o : DecodedOptions) (hx : m.xid < 4294967296) :
    Gen.verify.VerifyOffer xid (msgToGen m) (doptsToGen o) = vstateToGen ((Waiting.offer xid.toNat).verify m o) :=
  Proofs.CodeVerify.VerifyOffer_eq xid m o hx

theorem code_verify_selecting_ack (lm : Msg) (lo : DecodedOptions) (xid : UInt32) (m : Msg) (o : DecodedOptions)
    (hx : m.xid < 4294967296) :
    Gen.verify.VerifySelectingAck (msgToGen lm) (doptsToGen lo) xid (msgToGen m) (doptsToGen o) =
      vstateToGen ((Waiting.selectingAck lm.yiaddr lo.serverIdentifier xid.toNat).verify m o) :=
  Proofs.CodeVerify.VerifySelectingAck_eq lm lo xid m o hx

theorem code_verify_renewing_ack (lm : Msg) (lo : DecodedOptions) (xid : UInt32) (m : Msg) (o : DecodedOptions)
    (hx : m.xid < 4294967296) :
    Gen.verify.VerifyRenewingAck (msgToGen lm) (doptsToGen lo) xid (msgToGen m) (doptsToGen o) =
      vstateToGen ((Waiting.renewingAck lm.yiaddr lo.serverIdentifier xid.toNat).verify m o) :=
  Proofs.CodeVerify.VerifyRenewingAck_eq lm lo xid m o hx

theorem code_verify_rebinding_ack (lm : Msg) (lo : DecodedOptions) (xid : UInt32) (m : Msg) (o : DecodedOptions)
    (hx : m.xid < 4294967296) :
    Gen.verify.VerifyRebindingAck (msgToGen lm) (doptsToGen lo) xid (msgToGen m) (doptsToGen o) =
      vstateToGen ((Waiting.rebindingAck lm.yiaddr lo.serverIdentifier xid.toNat).verify m o) :=
  Proofs.CodeVerify.VerifyRebindingAck_eq lm lo xid m o hx

/-! Non-vacuity: an ACK with a 59-second lease is refused by the translated predicate, a 60-second one passes. -/
example :
    let m : Msg := { op := 2, htype := 1, hops := 0, xid := 7, secs := 0, flags := 0, ciaddr := none, yiaddr := some ⟨10, 0, 0, 9⟩,
                     siaddr := none, giaddr := none, chaddr := [], sname := [], file := [], cookie := 0, options := [] }
    let o : DecodedOptions := { messageType := 5, serverIdentifier := some ⟨10, 0, 0, 1⟩, routers := [⟨10, 0, 0, 1⟩], leaseSecs := 60 }
    Gen.verify.verifyCommon 7 (msgToGen m) (doptsToGen o) = 1 ∧
    Gen.verify.verifyCommon 7 (msgToGen m) (doptsToGen { o with leaseSecs := 59 }) = 0 := by decide

end PsaDhcp.Props.C14Code
