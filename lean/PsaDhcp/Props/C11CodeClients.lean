import PsaDhcp.Proofs.CodeClients
/-
C11 on the CODE, bottom layer: lib/server/ipdb/clients/clients.go as translated from the Go source on every check —
the Go map `m map[string]*client` is an association list keyed by the strings `Uip.String()` / `Duid.String()`
compute, a `*client` is nil or an index into the heap of records, `&client{…}` appends, `p.leasedUntil = t` updates
in place.  Every method, run on a table that represents a model table (`CRep`), returns the model's result (the very
same pointers) and leaves a table that represents the model's new table — for every table, clock and argument.
`Model/Clients.lean` is the concrete store of `ipdb_refine`/`clients_refine` (C11) and, through `clientsStore`, the
store below `code_updateClient`/`code_findIP` (Props/C11Code.lean).
-/
namespace PsaDhcp.Props.C11CodeClients
open PsaDhcp PsaDhcp.Go PsaDhcp.Code

/-- `NewClients()` is the empty table. -/
theorem code_newClients : ∃ cx, Gen.clients.NewClients = .ok (some cx) ∧ CRep cx [] Clients.empty :=
  Proofs.CodeClients.NewClients_eq

/-- `Lookup(now, ip, duid)`: the same two pointers; an expired record is unlinked from the one key it was reached by. -/
theorem code_lookup (cx : Gen.clients.Clients) (h : Gen.Heap) (c : Clients) (now : Int) (ip : UInt32) (duid : Bytes)
    (hr : CRep cx h c) :
    ∃ cx' h', (Gen.clients.Clients_Lookup cx now ip duid).run h =
        .ok (((c.lookup now ip.toNat duid).2.1, (c.lookup now ip.toNat duid).2.2, cx'), h')
      ∧ CRep cx' h' (c.lookup now ip.toNat duid).1 :=
  Proofs.CodeClients.Lookup_eq cx h c now ip duid hr

/-- `Inject` -/
theorem code_inject (cx : Gen.clients.Clients) (h : Gen.Heap) (c : Clients) (now : Int) (ip : UInt32) (duid : Bytes)
    (exp : Int) (hr : CRep cx h c) :
    ∃ cx' h', (Gen.clients.Clients_Inject cx now ip duid exp).run h =
        .ok ((resToGen (c.inject now ip.toNat duid exp false).2, cx'), h')
      ∧ CRep cx' h' (c.inject now ip.toNat duid exp false).1 :=
  Proofs.CodeClients.Inject_eq cx h c now ip duid exp hr

/-- `InjectPermanent`: expiry `time.Unix(0, 0)`, never removed. -/
theorem code_injectPermanent (cx : Gen.clients.Clients) (h : Gen.Heap) (c : Clients) (now : Int) (ip : UInt32)
    (duid : Bytes) (hr : CRep cx h c) :
    ∃ cx' h', (Gen.clients.Clients_InjectPermanent cx now ip duid).run h =
        .ok ((resToGen (c.inject now ip.toNat duid 0 true).2, cx'), h')
      ∧ CRep cx' h' (c.inject now ip.toNat duid 0 true).1 :=
  Proofs.CodeClients.InjectPermanent_eq cx h c now ip duid hr

/-- `SetLease` -/
theorem code_setLease (cx : Gen.clients.Clients) (h : Gen.Heap) (c : Clients) (now : Int) (ip : UInt32) (duid : Bytes)
    (exp : Int) (hr : CRep cx h c) :
    ∃ cx' h', (Gen.clients.Clients_SetLease cx now ip duid exp).run h =
        .ok ((resToGen (c.setLease now ip.toNat duid exp).2, cx'), h')
      ∧ CRep cx' h' (c.setLease now ip.toNat duid exp).1 :=
  Proofs.CodeClients.SetLease_eq cx h c now ip duid exp hr

/-- `Expire` = `SetLease(…, time.Unix(0, 0))` -/
theorem code_expire (cx : Gen.clients.Clients) (h : Gen.Heap) (c : Clients) (now : Int) (ip : UInt32) (duid : Bytes)
    (hr : CRep cx h c) :
    ∃ cx' h', (Gen.clients.Clients_Expire cx now ip duid).run h =
        .ok ((resToGen (c.setLease now ip.toNat duid 0).2, cx'), h')
      ∧ CRep cx' h' (c.setLease now ip.toNat duid 0).1 :=
  Proofs.CodeClients.Expire_eq cx h c now ip duid hr

/-- The accessors `Uip()` / `LeasedUntil()` of a record read the entry the pointer designates. -/
theorem code_client_accessors (cx : Gen.clients.Clients) (h : Gen.Heap) (c : Clients) (i : Nat) (e : Entry)
    (hr : CRep cx h c) (he : c.ents[i]? = some e) (hb : e.ip < 4294967296) :
    (Gen.clients.client_Uip (some i)).run h = .ok (UInt32.ofNat e.ip, h) ∧
    (Gen.clients.client_LeasedUntil (some i)).run h = .ok (e.exp, h) :=
  Proofs.CodeClients.accessors_eq cx h c i e hr he hb

/-- Non-vacuity: the translated code run on concrete values (kernel evaluation, `rfl`).  From `NewClients()`,
`Inject(10.0.0.5, [1,2,3], expiry 100)` at clock 0 allocates record 0; `Lookup` at clock 50 returns that record for both
keys; at clock 101 it returns nil twice and unlinks both keys; a second `Inject` of the address is refused; `Expire`
sets the expiry to 0 in place, after which `Lookup` at clock 50 finds nothing. -/
example :
    Gen.clients.NewClients = .ok (some { m := [] }) ∧
    ∃ cx1 h1, (Gen.clients.Clients_Inject { m := [] } 0 0x0A000005 [1, 2, 3] 100).run [] = .ok ((none, cx1), h1) ∧
      h1 = [{ ip := 0x0A000005, duid := [1, 2, 3], leasedUntil := 100, permanent := false }] ∧
      (∃ cx2, (Gen.clients.Clients_Lookup cx1 50 0x0A000005 [1, 2, 3]).run h1 = .ok ((some 0, some 0, cx2), h1)) ∧
      (∃ cx3, (Gen.clients.Clients_Lookup cx1 101 0x0A000005 [1, 2, 3]).run h1 = .ok ((none, none, cx3), h1) ∧
        cx3.m = []) ∧
      (∃ cx4, (Gen.clients.Clients_Inject cx1 50 0x0A000005 [9] 200).run h1 =
        .ok ((some "entry for ip already exists", cx4), h1)) ∧
      (∃ cx5 h5, (Gen.clients.Clients_Expire cx1 50 0x0A000005 [1, 2, 3]).run h1 = .ok ((none, cx5), h5) ∧
        (Gen.clients.client_LeasedUntil (some 0)).run h5 = .ok (0, h5) ∧
        ∃ cx6, (Gen.clients.Clients_Lookup cx5 50 0x0A000005 [1, 2, 3]).run h5 = .ok ((none, none, cx6), h5)) ∧
      (Gen.clients.client_Uip (some 0)).run h1 = .ok (0x0A000005, h1) :=
  ⟨rfl, _, _, rfl, rfl, ⟨_, rfl⟩, ⟨_, rfl, rfl⟩, ⟨_, rfl⟩, ⟨_, _, rfl, rfl, _, rfl⟩, rfl⟩

end PsaDhcp.Props.C11CodeClients
