import PsaDhcp.Model.Verdict
import PsaDhcp.Model.System
import PsaDhcp.Spec.ServerSpec
import PsaDhcp.Spec.Inet
import PsaDhcp.Spec.ReplySpec
import PsaDhcp.Proofs.Decision
/-
C06 — Replies are correlated with and addressed to the requesting client.
-/
namespace PsaDhcp.Props.C06
open PsaDhcp PsaDhcp.Spec

-- `CfgWf` (configurations whose options are representable) lives in `Spec/ReplySpec.lean`.

/-- Every OFFER / ACK frame, decoded by the stack's own decoders, is a BOOTREPLY echoing the
transaction id, the flags and the client hardware address, naming the server as server identifier,
from port 67 to 68 with the server's address as IP source; it goes to the IP and link-layer
broadcast address when the broadcast flag is set and otherwise to the assigned address at the
client's hardware address; header and UDP checksums verify. -/
theorem lease_reply_wire (c : SrvCfg) (hc : CfgWf c) (kind : ReplyKind) (hk : kind ≠ .nak) (m : Msg) (y : Ip4)
    (hx : m.xid < 4294967296) (hf : m.flags < 65536) (hch : m.chaddr.length ≤ 16) :
    let f := leaseFrame c kind m y
    let bc := m.flags / 32768 % 2 = 1
    ∃ ip udp r, decodeIPv4 f.pkt = .ok ip ∧ decodeUDP ip.data = .ok udp ∧ decode udp.data = .ok r ∧
      r.op = 2 ∧ r.xid = m.xid ∧ r.flags = m.flags ∧ r.chaddr = m.chaddr ∧ r.yiaddr = some y ∧
      (decodeOptions r.options).messageType = kind.code ∧ (decodeOptions r.options).serverIdentifier = some c.selfIp ∧
      udp.srcPort = 67 ∧ udp.dstPort = 68 ∧ ip.src = some c.selfIp ∧ ip.proto = 0x11 ∧
      ip.dst = some (if bc then Ip4.bcast else y) ∧ f.l2dst = (if bc then bcastMac else m.chaddr) ∧
      IpHeaderVerifies f.pkt ∧ UdpVerifies c.selfIp (if bc then Ip4.bcast else y) 0x11 (f.pkt.drop 20) :=
  Proofs.Decision.lease_reply_wire c hc kind hk m y hx hf hch

/-- Every NAK frame: BOOTREPLY echoing xid and hardware address, server identifier, ports, IP
source; IP destination broadcast (link-layer destination: the client's hardware address). -/
theorem nak_reply_wire (c : SrvCfg) (m : Msg) (hx : m.xid < 4294967296) (hch : m.chaddr.length ≤ 16) :
    let f := nakFrame c m
    ∃ ip udp r, decodeIPv4 f.pkt = .ok ip ∧ decodeUDP ip.data = .ok udp ∧ decode udp.data = .ok r ∧
      r.op = 2 ∧ r.xid = m.xid ∧ r.chaddr = m.chaddr ∧
      (decodeOptions r.options).messageType = 6 ∧ (decodeOptions r.options).serverIdentifier = some c.selfIp ∧
      udp.srcPort = 67 ∧ udp.dstPort = 68 ∧ ip.src = some c.selfIp ∧ ip.dst = some Ip4.bcast ∧ f.l2dst = m.chaddr ∧
      IpHeaderVerifies f.pkt ∧ UdpVerifies c.selfIp Ip4.bcast 0x11 (f.pkt.drop 20) :=
  Proofs.Decision.nak_reply_wire c m hx hch

/-- One event puts at most one reply on the wire, and only the event of a handler's last step
does: one client message causes at most one reply. -/
theorem at_most_one_reply {σ : Type} (S : Store σ) (c : SrvCfg) (s : Sys σ) (e : Ev) :
    (s.step S c e).sent = s.sent ∨
      ∃ (x : Sent) (i : Nat), (s.step S c e).sent = x :: s.sent ∧ (s.step S c e).pend[i]? = some Pending.done ∧ s.pend[i]? ≠ some Pending.done ∧
        (∀ j, j ≠ i → (s.step S c e).pend[j]? = s.pend[j]?) :=
  Proofs.Decision.at_most_one_reply S c s e

/-- A finished handler never sends again. -/
theorem done_is_final {σ : Type} (S : Store σ) (c : SrvCfg) (s : Sys σ) (e : Ev) (i : Nat) (h : s.pend[i]? = some Pending.done) :
    (s.step S c e).pend[i]? = some Pending.done := Proofs.Decision.done_is_final S c s e i h

end PsaDhcp.Props.C06
