import PsaDhcp.Model.Verdict
import PsaDhcp.Model.System
import PsaDhcp.Spec.ServerSpec
import PsaDhcp.Proofs.Liveness
/-
C09 — Concurrently arriving packets are handled in isolation.

The system model of `Model/System.lean` *is* the concurrency model: any list of events is an
interleaving of handler goroutines with each other and with the receive loop, at the granularity
at which the code locks (one database call per event — `Expect.c01_c09_c11_ipdb_lock_discipline`),
with each handler owning a private copy of its packet (`Expect.c09_handler_isolation`).
C01–C03 and C05 are already proved for every such interleaving; the theorems here add what is
specific to isolation.
-/
namespace PsaDhcp.Props.C09
open PsaDhcp PsaDhcp.Spec

/-- Equivalent to handling database calls one at a time in some order: after any interleaving the
database is exactly the result of performing the recorded calls sequentially, in the order in
which they took the lock. -/
theorem calls_serialize (c : SrvCfg) (db0 : IPDB Table) (evs : List Ev) :
    (Sys.run tableStore c { db := db0 } evs).db =
      ((Sys.run tableStore c { db := db0 } evs).calls.reverse.foldl (fun db tc => (db.step tableStore tc.1 tc.2).1) db0) :=
  Proofs.Liveness.calls_serialize c db0 evs

/-- What a handler does in a step depends only on its own packet and local state, the database as
it stands, and its own oracle — never on another handler in flight: two systems that agree on
the database and on handler `i` make the same step for handler `i` (same database afterwards,
same reply, same successor state of `i`), and no step of handler `i` touches another handler. -/
theorem step_is_local (c : SrvCfg) (s₁ s₂ : Sys Table) (e : Ev) (i : Nat)
    (he : match e with | .find j _ _ _ _ | .hold j _ | .look j _ _ | .lease j _ => j = i | .recv _ _ => False)
    (hdb : s₁.db = s₂.db) (hp : s₁.pend[i]? = s₂.pend[i]?) :
    (s₁.step tableStore c e).db = (s₂.step tableStore c e).db ∧
    (s₁.step tableStore c e).pend[i]? = (s₂.step tableStore c e).pend[i]? ∧
    ((s₁.step tableStore c e).sent.length - s₁.sent.length = (s₂.step tableStore c e).sent.length - s₂.sent.length) ∧
    (∀ j, j ≠ i → (s₁.step tableStore c e).pend[j]? = s₁.pend[j]?) :=
  Proofs.Liveness.step_is_local c s₁ s₂ e i he hdb hp

/-- The only effect two overlapping DISCOVERs can have on each other: the loser of the race gets no
OFFER for that one packet — never a wrong one. A handler's confirming update either succeeds and
the OFFER / ACK carries exactly the address and holder of that update, or it fails and nothing is
sent. -/
theorem race_only_silence (c : SrvCfg) (s : Sys Table) (e : Ev) :
    (s.step tableStore c e).sent = s.sent ∨
    ∃ x, (s.step tableStore c e).sent = x :: s.sent ∧
      (x.kind = .nak ∨
       ((s.step tableStore c e).calls.head? = some (x.t, DbOp.updateClient (some (Ip4.ofNat x.addr)) x.duid (x.ttl c)) ∧
        (s.db.updateClient tableStore x.t (some (Ip4.ofNat x.addr)) x.duid (x.ttl c)).2 = .ok ())) :=
  Proofs.Liveness.race_only_silence c s e

/-- A client's DISCOVER/REQUEST exchange is never derailed merely because other clients' packets
arrive in between: after its OFFER, whatever events of other handlers are interleaved, its REQUEST
for the offered address within the hold time is acknowledged (this is C05.offer_then_ack, which
quantifies over every reachable state after the grant). -/
theorem not_derailed (c : SrvCfg) (b : Boot) (evs : List Ev) (sys : Sys Table) (h : ReachableT c b evs sys)
    (hl : 0 ≤ c.leaseNs) (s : Sent) (hs : s ∈ sys.sent) (hk : s.kind = .offer)
    (rx : Rx) (o : HOracle) (hck : HOracle.ClockOk o (lastClock b evs))
    (hreq : (decodeOptions rx.msg.options).messageType = 3)
    (hmac : rx.msg.chaddr ≠ c.selfMac) (hself : (decodeOptions rx.msg.options).requestedIP ≠ some c.selfIp)
    (hd : (getDuid tableStore sys.db o.t0 rx.msg.chaddr (decodeOptions rx.msg.options).clientIdentifier).2 = s.duid)
    (hw : desired (classify c.selfIp rx.dst (decodeOptions rx.msg.options).serverIdentifier (decodeOptions rx.msg.options).requestedIP)
            rx.src (decodeOptions rx.msg.options).requestedIP = some (Ip4.ofNat s.addr))
    (ht : o.t2 ≤ s.t + offerHoldNs) (hp : o.probeFree = true) :
    (handleV tableStore c sys.db rx o).2 = .ack s.addr :=
  Proofs.Liveness.not_derailed c b evs sys h hl s hs hk rx o hck hreq hmac hself hd hw ht hp

/-- The sequential handler is the special case of the system in which a handler's events follow
each other immediately: running `recv` and then the handler's own steps yields exactly what
`handle` returns (database and reply). -/
theorem handle_is_a_run (c : SrvCfg) (db : IPDB Table) (b : Bytes) (rx : Rx) (o : HOracle) (tEnd : Int)
    (hrx : rxChain b = .ok (some rx)) :
    ∃ evs : List Ev, evs.length ≤ 3 ∧
      (Sys.run tableStore c { db := db } evs).db = (handle tableStore c db rx o).1 ∧
      ((Sys.run tableStore c { db := db } evs).sent.map (·.frame)) = (handle tableStore c db rx o).2.toList :=
  Proofs.Liveness.handle_is_a_run c db b rx o tEnd hrx

end PsaDhcp.Props.C09
