import PsaDhcp.Proofs.CodeCor
/-
C13 on the CODE: `PsaDhcp.Gen.layer.*` is regenerated from /repo's lib/layer/*.go on every check by
the translator /verif/xlate.  These theorems say that the translated Go functions coincide with the
models of `Props/C13.lean` on every input (so every theorem there is a theorem about the code as
translated), and restate the central clauses directly for the translated functions.
Only statements live here; proofs are in `Proofs/Code*.lean`.
-/
namespace PsaDhcp.Props.C13Code
open PsaDhcp PsaDhcp.Go PsaDhcp.Code

/-- `ipv4csum` as written in Go (two loops, `uint32` accumulator) is the model's checksum; it
terminates within its fuel and indexes nothing out of range. -/
theorem code_ipv4csum (b : Bytes) (acc : UInt32) :
    Gen.layer.ipv4csum b acc = .ok (UInt16.ofNat (ipv4csum b acc.toNat)) := Proofs.CodeCsum.ipv4csum_eq b acc

theorem code_udp_assemble (u : Gen.layer.UDP) :
    Gen.layer.UDP_Assemble u = .ok (UDP.assemble (udpOf u)) := Proofs.CodeLayer.UDP_Assemble_eq u

theorem code_decode_udp (b : Bytes) :
    Gen.layer.DecodeUDP b = liftDec udpToGen (decodeUDP b) := Proofs.CodeLayer.DecodeUDP_eq b

theorem code_arp_assemble (a : Gen.layer.ARP) :
    Gen.layer.ARP_Assemble a = .ok (ARP.assemble (arpOf a)) := Proofs.CodeLayer.ARP_Assemble_eq a

theorem code_decode_arp (b : Bytes) :
    Gen.layer.DecodeARP b = liftDec arpToGen (decodeARP b) := Proofs.CodeLayer.DecodeARP_eq b

/-- `(IPv4).Assemble()` with `setV4Checksum`, `udp4csum`, `pseudohdrcsum` as written in Go. -/
theorem code_ip_assemble (h : Gen.layer.IPv4) :
    Gen.layer.IPv4_Assemble h = .ok (IPv4.assemble (ipv4Of h)) := Proofs.CodeLayerIp.IPv4_Assemble_eq h

theorem code_decode_ip (b : Bytes) :
    Gen.layer.DecodeIPv4 b = liftDec ipv4ToGen (decodeIPv4 b) := Proofs.CodeLayerIp.DecodeIPv4_eq b

/-- RFC 791 on the code: every packet the translated `Assemble` returns has a verifying header checksum
(and `Assemble` never panics, for any field values). -/
theorem code_ip_checksum_verifies (h : Gen.layer.IPv4) :
    ∃ p, Gen.layer.IPv4_Assemble h = .ok p ∧ Spec.IpHeaderVerifies p ∧ p.length = 20 + h.Data.length :=
  Proofs.CodeCor.code_ip_checksum_verifies h

/-- RFC 768 on the code: a UDP datagram assembled by the translated code inside an IPv4 packet carries a
checksum that verifies against the pseudo header. -/
theorem code_udp_checksum_verifies (h : Gen.layer.IPv4) (u : Gen.layer.UDP) (d : Bytes)
    (hu : Gen.layer.UDP_Assemble u = .ok d) (hd : h.Data = d) (hp : h.Protocol = 0x11)
    (hl : 20 + 8 + u.Data.length ≤ 65535) :
    ∃ p, Gen.layer.IPv4_Assemble h = .ok p ∧
      Spec.UdpVerifies (optIp (ipOf h.Source)) (optIp (ipOf h.Destination)) h.Protocol (p.drop 20) :=
  Proofs.CodeCor.code_udp_checksum_verifies h u d hu hd hp hl

/-- The translated `DecodeIPv4` accepts only when the total-length field equals the bytes supplied and the
header length lies within them; the payload is a suffix of the input. -/
theorem code_decoder_strict_ip (b : Bytes) (p : Gen.layer.IPv4) (h : Gen.layer.DecodeIPv4 b = .ok (some p, none)) :
    be16 (b.drop 2) = b.length ∧ 20 ≤ b.length ∧
    ∃ b0 ihl, b[0]? = some b0 ∧ b0.toNat / 16 = 4 ∧ ihl = b0.toNat % 16 * 4 ∧ 20 ≤ ihl ∧ ihl ≤ b.length ∧
      p.Data = b.drop ihl := Proofs.CodeCor.code_decoder_strict_ip b p h

/-- No index or slice expression of the translated decoders is out of range, for any input. -/
theorem code_decoders_never_panic (b : Bytes) (site : String) :
    Gen.layer.DecodeIPv4 b ≠ .error (.panic site) ∧ Gen.layer.DecodeUDP b ≠ .error (.panic site) ∧
    Gen.layer.DecodeARP b ≠ .error (.panic site) :=
  ⟨Proofs.CodeCor.code_decode_ip_never_panics b site, Proofs.CodeCor.code_decode_udp_never_panics b site,
   Proofs.CodeCor.code_decode_arp_never_panics b site⟩

/-- The translated `DecodeUDP` accepts only when the length field equals the bytes supplied. -/
theorem code_decoder_strict_udp (b : Bytes) (u : Gen.layer.UDP) (h : Gen.layer.DecodeUDP b = .ok (some u, none)) :
    be16 (b.drop 4) = b.length ∧ 8 ≤ b.length ∧ u.Data = b.drop 8 := Proofs.CodeCor.code_decoder_strict_udp b u h

/-- The sender-address field the ARP prober matches on is at the fixed offset 14 — for the translated decoder. -/
theorem code_arp_sender_ip_offset (b : Bytes) (p : Gen.layer.ARP) (h : Gen.layer.DecodeARP b = .ok (some p, none)) :
    b.length = 28 ∧ ipOf p.SenderIP = Ip4.ofBytes? ((b.drop 14).take 4) ∧ p.SenderMAC = (b.drop 8).take 6 :=
  Proofs.CodeCor.code_arp_sender_ip_offset b p h

/-! Non-vacuity: the translated functions run on concrete inputs. -/
example : Gen.layer.DecodeUDP [0, 68, 0, 67, 0, 9, 0, 0, 7] = .ok (some ⟨68, 67, [7]⟩, none) := by decide
example : Gen.layer.ipv4csum [0x45, 0, 0, 29] 0 = .ok 0xbae2 := by decide

end PsaDhcp.Props.C13Code
