import PsaDhcp.Model.Verdict
import PsaDhcp.Model.System
import PsaDhcp.Spec.ServerSpec
import PsaDhcp.Proofs.Decision
/-
C10 — Malformed or irrelevant traffic never crashes or perturbs the daemons (server side; the
client's receive path is in `Props/C14.lean`).
-/
namespace PsaDhcp.Props.C10
open PsaDhcp PsaDhcp.Spec

/-- The receive chain of `Run` never indexes or slices out of range, for any byte string. -/
theorem rx_never_panics (b : Bytes) (site : String) : rxChain b ≠ .error (.panic site) :=
  Proofs.Decision.rx_never_panics b site

/-- … so it always either drops the frame or dispatches a decoded BOOTREQUEST. -/
theorem rx_total (b : Bytes) : rxChain b = .ok none ∨ ∃ rx, rxChain b = .ok (some rx) ∧ rx.msg.op = 1 :=
  Proofs.Decision.rx_total b

/-- A frame the chain drops leaves the whole system state untouched and causes no reply. -/
theorem junk_is_noop {σ : Type} (S : Store σ) (c : SrvCfg) (s : Sys σ) (t : Int) (b : Bytes) (h : rxChain b = .ok none) :
    s.step S c (.recv t b) = s := Proofs.Decision.junk_is_noop S c s t b h

/-- A BOOTREQUEST of an unhandled message type (or one the guards drop) causes no reply, starts no
handler, and over the reference table leaves the database exactly as it was. -/
theorem unhandled_is_noop (c : SrvCfg) (s : Sys Table) (t : Int) (b : Bytes) (rx : Rx) (h : rxChain b = .ok (some rx))
    (ht : (decodeOptions rx.msg.options).messageType ≠ 1 ∧ (decodeOptions rx.msg.options).messageType ≠ 3) :
    (s.step tableStore c (.recv t b)).db = s.db ∧ (s.step tableStore c (.recv t b)).sent = s.sent ∧
    (s.step tableStore c (.recv t b)).pend = s.pend := Proofs.Decision.unhandled_is_noop c s t b rx h ht

/-- Junk interleaved at any positions into any history leaves all later behaviour unchanged: the
run equals the run with the junk removed. -/
theorem junk_interleaving {σ : Type} (S : Store σ) (c : SrvCfg) (s : Sys σ) (evs : List Ev) :
    Sys.run S c s evs =
      Sys.run S c s (evs.filter fun e => match e with
        | .recv _ b => (match rxChain b with | .ok none => false | _ => true)
        | _ => true) :=
  Proofs.Decision.junk_interleaving S c s evs

/-- Every hardware-address length is handled: the handler's decision is a total function (no
partial operation on `chaddr`). -/
theorem any_hlen_decided {σ : Type} (S : Store σ) (c : SrvCfg) (db : IPDB σ) (rx : Rx) (o : HOracle) :
    ∃ v, (handleV S c db rx o).2 = v := ⟨_, rfl⟩

end PsaDhcp.Props.C10
