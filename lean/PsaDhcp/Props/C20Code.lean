import PsaDhcp.Proofs.CodeFs
/-
C20 on the CODE: `resolvconf.update` (lib/resolvconf/resolvconf.go) as translated from the Go source on every check —
named result, deferred clean-up closure and all.  Interpreted on the abstract file system of Model/Fs.lean (`fsEnv`), for
every previous file, buffer and placement of failures / short writes: the translated function makes exactly the calls of
the model writer, in its order and with its arguments (temp file in /etc, write, close, chmod 0644, rename onto
/etc/resolv.conf; `os.Remove` of the temp file on every error path after it exists, and only then), so its run IS a run
`runFs (fsInit old [buf]) acts` of the model, it ends in `doneOk` exactly when it returns nil and in `doneErr` otherwise.
Every theorem of Props/C20.lean (`failed_update_removes_temp`, `failed_update_keeps_previous`,
`successful_update_installs`, and — for any number of such writers interleaved — `reader_sees_whole_file`) is about
exactly these runs.
-/
namespace PsaDhcp.Props.C20Code
open PsaDhcp PsaDhcp.Go PsaDhcp.Code

theorem code_update (old : Option File) (buf : Bytes) (cs : List Choice) :
    ∃ e w, (Gen.resolvconf.update fsEnv buf).run (fsWorld0 old buf cs) = .ok (e, w) ∧
      w.violation = false ∧ w.fs = runFs (fsInit old [buf]) w.acts ∧ (∀ a ∈ w.acts, ∃ c, a = .step 0 c) ∧
      (e.isNone → w.pc = .doneOk) ∧ (e.isSome → w.pc = .doneErr) :=
  Proofs.CodeFs.update_eq old buf cs

/-- Consequences, read off the model theorems through `code_update`: a failing update has removed its temporary file and
left the previous file in place; a successful one installed exactly its buffer with mode 0644. -/
theorem code_update_outcome (old : Option File) (buf : Bytes) (cs : List Choice) :
    ∃ e w, (Gen.resolvconf.update fsEnv buf).run (fsWorld0 old buf cs) = .ok (e, w) ∧
      (e.isSome → w.fs.target = old ∧ ∀ (t : Nat) f, w.fs.tmps[t]? = some f → f = none) ∧
      (e.isNone → w.fs.target = some ⟨buf, 0o644⟩) :=
  Proofs.CodeFs.update_outcome old buf cs

/-! Non-vacuity: returned error, target, temp files, violation flag and final program counter of three concrete runs
over a previous file `⟨[9], 0o600⟩`. -/

/-- What is observed of a run. -/
def observe (old : Option File) (buf : Bytes) (cs : List Choice) :
    Option (GoErr × Option File × List (Option File) × Bool × Pc) :=
  ((Gen.resolvconf.update fsEnv buf).run (fsWorld0 old buf cs)).toOption.map
    fun r => (r.1, r.2.fs.target, r.2.fs.tmps, r.2.violation, r.2.pc)

/-- The undisturbed run returns nil and installs the buffer with mode 0644. -/
example : observe (some ⟨[9], 0o600⟩) [1, 2, 3] [] =
    some (none, some ⟨[1, 2, 3], 0o644⟩, [none], false, .doneOk) := by decide +kernel

/-- A failing chmod: an error is returned, the target is unchanged, the temp file is removed. -/
example : observe (some ⟨[9], 0o600⟩) [1, 2, 3] [{}, {}, {}, {fail := true}] =
    some (some "chmod: operation not permitted", some ⟨[9], 0o600⟩, [none], false, .doneErr) := by decide +kernel

/-- A short write (1 of 3 bytes, no error from write or close) is reported as such and cleaned up. -/
example : observe (some ⟨[9], 0o600⟩) [1, 2, 3] [{}, {short := 1}] =
    some (some "short write", some ⟨[9], 0o600⟩, [none], false, .doneErr) := by decide +kernel

/-- `TempFile` failing: nothing was created, nothing is removed (no `Remove` call: it would be a violation). -/
example : observe none [1, 2, 3] [{fail := true}] =
    some (some "open: permission denied", none, [], false, .doneErr) := by decide +kernel

end PsaDhcp.Props.C20Code
