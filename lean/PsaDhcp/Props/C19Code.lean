import PsaDhcp.Proofs.CodeRes
/-
C19 on the CODE: the six functions of the repository that open a raw socket — `arpping.catchARPReply`,
`arpping.sendARPPing`, `server.Run`, `server.sendUnicast`, `dclient.sendMessage` (with `sendSocket`), `dclient.catchReply` —
as translated from the Go source on every check, run in a world that counts socket constructions and closes
(`Code/Bridge15.lean`) and lets the outside do anything: the constructor fails or not, each read delivers a frame or an
error, each write fails or not, each timer-or-cancel wait ends either way, ARP look-ups answer or time out, for any number
of rounds.  Whenever such a call returns — with a result or with an error, through whichever `return` — every socket it
opened has been closed, and it opened at most one.  (`Props/C19.lean` proves the same of the three hand-written
discipline skeletons; which function follows which skeleton is a syntactic fact. Here the statement is about the
function bodies themselves, loops, early returns and all.)

Only property theorems and non-vacuity examples; the proofs are in `Proofs/CodeRes.lean`.
-/
namespace PsaDhcp.Props.C19Code
open PsaDhcp PsaDhcp.Go PsaDhcp.Code

/-- `arpping.catchARPReply`: closer goroutine bound to a context the function cancels on return. -/
theorem code_catchARPReply_balanced (o : ResOracle) (iface : Go.NetInterface) (target : Bytes) (fuel : Nat)
    (st st' : ResState) (r : Bytes × GoErr)
    (h : (Gen.arpping.catchARPReply (resArpEnv o) iface target fuel).run st = .ok (r, st')) :
    st'.opened - st.opened = st'.closed - st.closed ∧ st'.opened ≤ st.opened + 1 ∧ st.opened ≤ st'.opened ∧ st.closed ≤ st'.closed :=
  Proofs.CodeRes.catchARPReply_balanced o iface target fuel st st' r h

/-- `arpping.Ping` = start the sender goroutine, then `catchARPReply`. -/
theorem code_ping_balanced (o : ResOracle) (iface : Go.NetInterface) (src dst : Bytes) (fuel : Nat)
    (st st' : ResState) (r : Bytes × GoErr) (h0 : Balanced st)
    (h : (Gen.arpping.Ping (resArpEnv o) iface src dst fuel).run st = .ok (r, st')) :
    Balanced st' ∧ st'.spawned = st.spawned + 1 :=
  Proofs.CodeRes.ping_balanced o iface src dst fuel st st' r h0 h

/-- `arpping.sendARPPing`: `defer ss.Close()`. -/
theorem code_sendARPPing_balanced (o : ResOracle) (iface : Go.NetInterface) (src dst : Bytes) (fuel : Nat)
    (st st' : ResState) (h0 : Balanced st)
    (h : (Gen.arpping.sendARPPing (resSockEnv o) iface src dst fuel).run st = .ok ((), st')) :
    Balanced st' ∧ st'.opened ≤ st.opened + 1 :=
  Proofs.CodeRes.sendARPPing_balanced o iface src dst fuel st st' h0 h

/-- `server.sendUnicast`: open, write, close. -/
theorem code_sendUnicast_balanced (o : ResOracle) (sx : Gen.server.server) (hw payload : Bytes)
    (st st' : ResState) (r : GoErr) (h0 : Balanced st)
    (h : (Gen.server.server_sendUnicast (resSockEnv o) sx hw payload).run st = .ok (r, st')) :
    Balanced st' ∧ st'.opened ≤ st.opened + 1 :=
  Proofs.CodeRes.sendUnicast_balanced o sx hw payload st st' r h0 h

/-- …and it never panics: it always returns. -/
theorem code_sendUnicast_total (o : ResOracle) (sx : Gen.server.server) (hw payload : Bytes) (st : ResState) :
    ∃ r st', (Gen.server.server_sendUnicast (resSockEnv o) sx hw payload).run st = .ok (r, st') :=
  Proofs.CodeRes.sendUnicast_total o sx hw payload st

/-- `server.Run`: closer goroutine; one handler goroutine per accepted frame. -/
theorem code_run_balanced (o : ResOracle) (sx : Gen.server.server) (fuel : Nat) (st st' : ResState) (r : GoErr)
    (h0 : Balanced st) (h : (Gen.server.server_Run (resRunEnv o) sx fuel).run st = .ok (r, st')) :
    Balanced st' ∧ st'.opened ≤ st.opened + 1 :=
  Proofs.CodeRes.run_balanced o sx fuel st st' r h0 h

/-- `dclient.sendSocket` hands out exactly one open socket when it reports no error, and none when it does —
whatever the look-ups answered, however many there were. -/
theorem code_sendSocket_one (o : ResOracle) (iface : Go.NetInterface) (sender : R (Bytes × Bytes × Bytes))
    (st st' : ResState) (r : Go.Sock × GoErr)
    (h : (Gen.dclient.sendSocket (resSendEnv o) iface sender).run st = .ok (r, st')) :
    st'.closed = st.closed ∧ (r.2 = none → st'.opened = st.opened + 1) ∧ (r.2 ≠ none → st'.opened = st.opened) :=
  Proofs.CodeRes.sendSocket_one o iface sender st st' r h

/-- `dclient.sendMessage`: `defer s.Close()` — for any template closure, any number of retransmissions, a write failing at
any point, the exchange ending at any point. -/
theorem code_sendMessage_balanced (o : ResOracle) (iface : Go.NetInterface) (sender : R (Bytes × Bytes × Bytes))
    (fuel : Nat) (st st' : ResState) (r : GoErr) (h0 : Balanced st)
    (h : (Gen.dclient.sendMessage (resSendEnv o) iface sender fuel).run st = .ok (r, st')) :
    Balanced st' ∧ st'.opened ≤ st.opened + 1 :=
  Proofs.CodeRes.sendMessage_balanced o iface sender fuel st st' r h0 h

/-- `dclient.catchReply`: closer goroutine — for any verifier, any frames, any number of ignored replies. -/
theorem code_catchReply_balanced (o : ResOracle) (iface : Go.NetInterface)
    (vrfy : Gen.dhcpmsg.Message → Gen.dhcpmsg.DecodedOptions → R Int) (fuel : Nat) (st st' : ResState)
    (r : Gen.dhcpmsg.Message × Gen.dhcpmsg.DecodedOptions × GoErr) (h0 : Balanced st)
    (h : (Gen.dclient.catchReply (resCliEnv o) iface vrfy fuel).run st = .ok (r, st')) :
    Balanced st' ∧ st'.opened ≤ st.opened + 1 :=
  Proofs.CodeRes.catchReply_balanced o iface vrfy fuel st st' r h0 h

/-- A constructor that fails: the error is returned and nothing is closed (there is nothing to close). -/
theorem code_open_fails (o : ResOracle) (iface : Go.NetInterface) (target : Bytes) (fuel : Nat) (st : ResState)
    (hf : o.openFails st.opens = true) :
    (Gen.arpping.catchARPReply (resArpEnv o) iface target fuel).run st =
      .ok (([], openErr), { st with opens := st.opens + 1 }) :=
  Proofs.CodeRes.open_fails o iface target fuel st hf

/-! Non-vacuity: concrete runs that do return, with a socket opened and closed. -/

/-- Reads: one junk frame, then an error (the socket was closed). -/
def exOracle : ResOracle :=
  { openFails := fun _ => false, readAt := fun k => if k = 0 then some [1, 2, 3] else none, writeFails := fun k => decide (k = 2),
    timerAt := fun k => decide (k < 1), cancelledAt := fun _ => false, pingAt := fun _ => none, rnd := fun _ => 5 }

example : ∃ r st', (Gen.arpping.catchARPReply (resArpEnv exOracle) Go.NetInterface.zero [10, 0, 0, 1] 5).run {} = .ok (r, st') ∧
    st'.opened = 1 ∧ st'.closed = 1 ∧ st'.reads = 2 := ⟨_, _, rfl, rfl, rfl, rfl⟩

example : ∃ r st', (Gen.server.server_sendUnicast (resSockEnv exOracle) Gen.server.server.zero [2, 0, 0, 0, 0, 1] [9]).run {} = .ok (r, st') ∧
    st'.opened = 1 ∧ st'.closed = 1 ∧ st'.writes = 1 := ⟨_, _, rfl, rfl, rfl, rfl⟩

/-- `sendMessage`: broadcast socket, first write, the timer fires once, second write, then the exchange ends. -/
example : ∃ r st', (Gen.dclient.sendMessage (resSendEnv exOracle) Go.NetInterface.zero noSender 5).run {} = .ok (r, st') ∧
    st'.opened = 1 ∧ st'.closed = 1 ∧ st'.writes = 2 ∧ st'.waits = 2 := ⟨_, _, rfl, rfl, rfl, rfl, rfl⟩

end PsaDhcp.Props.C19Code
