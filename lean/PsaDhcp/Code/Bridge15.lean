import PsaDhcp.Code.Bridge8
/-
Bridge, part 15: resource accounting (C19) for the six functions of the repository that open a raw socket, as translated
from the source on every check.  The translator keeps the closing of a socket: an explicit `s.Close()` is the environment
operation `SockClose`; `defer s.Close()` and the closer idiom
`ctx, cancel := context.WithCancel(octx); defer cancel(); go func() { <-ctx.Done(); s.Close() }()` turn the rest of the
function into an inner block after which `SockClose` runs, whichever `return` left the block (xlate/stmt.go: funcBody).

The worlds below count: every successful socket constructor is `opened + 1`, every `SockClose` is `closed + 1`.  What the
outside does is an oracle indexed by how many operations of that kind happened before: whether the constructor fails,
what the k-th read delivers (a frame or an error), whether the k-th write fails, whether the k-th timer-or-cancel wait ends
by the timer, what the k-th ARP look-up answers, whether the context is already cancelled, the random numbers.
-/
namespace PsaDhcp.Code
open PsaDhcp PsaDhcp.Go

structure ResOracle where
  openFails : Nat → Bool                    -- does the k-th socket constructor call fail?
  readAt : Nat → Option Bytes               -- k-th read: a frame, or `none` = error (closed socket, I/O error)
  writeFails : Nat → Bool
  timerAt : Nat → Bool                      -- k-th `select { <-time.After(d) | <-ctx.Done() }`: true = the timer fired
  cancelledAt : Nat → Bool                  -- k-th `ctx.Err() != nil`
  pingAt : Nat → Option Bytes               -- k-th ARP look-up: the answering hardware address, or none
  rnd : Nat → Nat

structure ResState where
  opened : Nat := 0
  closed : Nat := 0
  opens : Nat := 0          -- constructor calls so far (failed ones included)
  reads : Nat := 0
  writes : Nat := 0
  waits : Nat := 0
  ctxs : Nat := 0
  pingsN : Nat := 0
  rnds : Nat := 0
  spawned : Nat := 0        -- goroutines started (`go sx.handleMsg`, `go sendARPPing`)
deriving DecidableEq, Repr

def openErr : GoErr := some "socket: operation not permitted"
def ioErr : GoErr := some "file already closed"

namespace Res

def open_ (o : ResOracle) : StateT ResState R (Go.Sock × GoErr) := fun st =>
  if o.openFails st.opens then .ok (((), openErr), { st with opens := st.opens + 1 })
  else .ok (((), none), { st with opens := st.opens + 1, opened := st.opened + 1 })

def close : StateT ResState R GoErr := fun st => .ok (none, { st with closed := st.closed + 1 })

def read (o : ResOracle) : Int → StateT ResState R (Bytes × GoErr) := fun _ st =>
  match o.readAt st.reads with
  | some f => .ok ((f, none), { st with reads := st.reads + 1 })
  | none => .ok (([], ioErr), { st with reads := st.reads + 1 })

def write (o : ResOracle) : Bytes → StateT ResState R GoErr := fun _ st =>
  .ok (if o.writeFails st.writes then ioErr else none, { st with writes := st.writes + 1 })

def wait (o : ResOracle) : Int → StateT ResState R Bool := fun _ st =>
  .ok (o.timerAt st.waits, { st with waits := st.waits + 1 })

def ctxErr (o : ResOracle) : StateT ResState R GoErr := fun st =>
  .ok (if o.cancelledAt st.ctxs then some "context canceled" else none, { st with ctxs := st.ctxs + 1 })

def ping (o : ResOracle) : Go.NetInterface → Bytes → Bytes → StateT ResState R (Bytes × GoErr) := fun _ _ _ st =>
  match o.pingAt st.pingsN with
  | some mac => .ok ((mac, none), { st with pingsN := st.pingsN + 1 })
  | none => .ok (([], some "timeout"), { st with pingsN := st.pingsN + 1 })

def spawn : StateT ResState R Unit := fun st => .ok ((), { st with spawned := st.spawned + 1 })

end Res

/-- `arpping.catchARPReply`, `arpping.Ping` -/
def resArpEnv (o : ResOracle) : Gen.ArpEnv ResState where
  OpenARPRecvSock := fun _ => Res.open_ o
  SockRead := Res.read o
  SockClose := Res.close
  Go_sendARPPing := fun _ _ _ => Res.spawn

/-- `server.Run`, `server.arpVerify` -/
def resRunEnv (o : ResOracle) : Gen.RunEnv ResState where
  OpenIPRecvSock := fun _ => Res.open_ o
  SockRead := Res.read o
  SockClose := Res.close
  Go_handleMsg := fun _ _ _ _ => Res.spawn
  Ping := Res.ping o

/-- `server.sendUnicast`, `arpping.sendARPPing` -/
def resSockEnv (o : ResOracle) : Gen.SockEnv ResState where
  OpenARPSendSock := fun _ => Res.open_ o
  OpenUnicastSendSock := fun _ _ => Res.open_ o
  SockWrite := Res.write o
  SockClose := Res.close
  SelectAfter := Res.wait o

/-- `dclient.sendMessage`, `dclient.sendSocket` -/
def resSendEnv (o : ResOracle) : Gen.SendEnv ResState where
  CtxErr := Res.ctxErr o
  OpenIPSendSock := fun _ => Res.open_ o
  OpenUnicastSendSock := fun _ _ => Res.open_ o
  Ping := Res.ping o
  RandInt63 := fun st => .ok (Int.ofNat (o.rnd st.rnds), { st with rnds := st.rnds + 1 })
  SelectAfter := Res.wait o
  SockWrite := Res.write o
  SockClose := Res.close

/-- `dclient.catchReply` (the other operations of the client's environment are not used by it). -/
def resCliEnv (o : ResOracle) : Gen.CliEnv ResState where
  OpenIPRecvSock := fun _ => Res.open_ o
  SockRead := Res.read o
  SockClose := Res.close
  Now := fun st => .ok (0, st)
  CtxErr := Res.ctxErr o
  LimiterAllow := fun st => .ok (true, st)
  Sleep := fun _ st => .ok ((), st)
  SleepUntil := fun _ st => .ok ((), st)
  AwaitDone := fun st => .ok ((), st)
  TmplDiscover := fun _ st => .ok ((noSender, 0), st)
  TmplRequestSelecting := fun _ _ _ st => .ok ((noSender, 0), st)
  TmplRequestRenewing := fun _ _ _ st => .ok ((noSender, 0), st)
  TmplRequestRebinding := fun _ _ st => .ok ((noSender, 0), st)
  AdvanceState := fun _ _ _ st => .ok ((Gen.dhcpmsg.Message.zero, Gen.dhcpmsg.DecodedOptions.zero, none), st)
  Ping := Res.ping o
  PreCallback := fun c st => .ok (c, st)
  PostCallback := fun c st => .ok (c, st)
  SetIface := fun _ st => .ok (none, st)
  Unconfigure := fun _ st => .ok (none, st)
  Up := fun _ st => .ok (none, st)

/-- What C19 asks of a finished call: every socket it opened has been closed. -/
def Balanced (st : ResState) : Prop := st.opened = st.closed

end PsaDhcp.Code
