import PsaDhcp.Code.Bridge3
import PsaDhcp.Model.Verdict
/-
Bridge, part 7: the socket layer — the environments of the translated receive loop `server.Run`, of the prober
wrapper `server.arpVerify`, and of `arpping.catchARPReply` / `arpping.Ping`, instantiated with the list of frames the
socket delivers before its read fails (context cancelled / deadline) and the list of ping outcomes.
-/
namespace PsaDhcp.Code
open PsaDhcp PsaDhcp.Go

/-- The error a read returns once the frames are exhausted (the socket was closed by the closer goroutine). -/
def readClosed : GoErr := some "file already closed"

/-! ### `lib/arpping` -/

structure ArpState where
  rest : List Bytes        -- frames not yet read
  senders : Nat            -- `go sendARPPing(...)` started so far

/-- `openErr`: the result of `GetARPRecvSock`. -/
def arpEnv (openErr : GoErr) : Gen.ArpEnv ArpState where
  OpenARPRecvSock := fun _ st => .ok (((), openErr), st)
  SockRead := fun _ st =>
    match st.rest with
    | [] => .ok (([], readClosed), st)
    | f :: r => .ok ((f, none), { st with rest := r })
  Go_sendARPPing := fun _ _ _ st => .ok ((), { st with senders := st.senders + 1 })
  SockClose := fun st => .ok (none, st)      -- resource accounting is `Code/Bridge15.lean` (C19Code); here the close is a no-op

/-- Result of `catchARPReply` / `Ping` for the model's verdict. -/
def arpResToGen : Option Bytes → Bytes × GoErr
  | some mac => (mac, none)
  | none => ([], readClosed)

/-! ### `lib/server`: `Run` and `arpVerify` -/

structure RunState where
  rest : List Bytes                                            -- frames not yet read
  pings : List (Option Bytes)                                  -- outcomes of the pings not yet made (none = timed out)
  handled : List (Bytes × Bytes × Gen.dhcpmsg.Message)         -- `go sx.handleMsg(src, dst, msg)` started so far, in order

def runEnv (openErr : GoErr) : Gen.RunEnv RunState where
  OpenIPRecvSock := fun _ st => .ok (((), openErr), st)
  SockRead := fun _ st =>
    match st.rest with
    | [] => .ok (([], readClosed), st)
    | f :: r => .ok ((f, none), { st with rest := r })
  Go_handleMsg := fun _ src dst msg st => .ok ((), { st with handled := st.handled ++ [(src, dst, msg)] })
  SockClose := fun st => .ok (none, st)
  Ping := fun _ _ _ st =>
    match st.pings with
    | [] => .ok (([], some "timeout"), st)
    | none :: r => .ok (([], some "timeout"), { st with pings := r })
    | some mac :: r => .ok ((mac, none), { st with pings := r })

/-- What the receive loop hands to a handler goroutine for a frame, by the model's decoders: source and destination
of the IPv4 header and the decoded BOOTREQUEST; nothing for anything else. -/
def handlerArgs (b : Bytes) : Option (Bytes × Bytes × Gen.dhcpmsg.Message) :=
  match decodeIPv4 b with
  | .ok v4 =>
    match decodeUDP v4.data with
    | .ok udp =>
      match decode udp.data with
      | .ok m => if m.op = 1 then some (optIpToGen v4.src, optIpToGen v4.dst, msgToGen m) else none
      | .error _ => none
    | .error _ => none
  | .error _ => none

end PsaDhcp.Code
