import PsaDhcp.Code.Bridge8
import PsaDhcp.Model.Sanitize
/-
Bridge, part 10: the hook environment (lib/client/callback: `envEntry`, `dumpScriptConf`) and `resolvconf.Run`
(lib/resolvconf) against `Model/Sanitize.lean`.
-/
namespace PsaDhcp.Code
open PsaDhcp PsaDhcp.Go

/-- The interface configuration is one the client builds: addresses nil or IPv4, a 4-byte (or absent) netmask,
non-negative MTU and lease, the lease a whole number of seconds (`dhcpmsg.toDuration` yields `seconds * time.Second`).
The last conjunct is not used by the Lean proof; it is the domain on which `Go.durSecondsInt` (integer division) IS
Go's `int(d.Seconds())` (a float64 computation, which rounds e.g. 16777216.999999999 s up to 16777217). -/
def IfcWf (c : Gen.libif.Ifconfig) : Prop :=
  (c.Router = [] ∨ ∃ i, ipOf c.Router = some i) ∧ (c.IP = [] ∨ ∃ i, ipOf c.IP = some i) ∧
  (∀ d ∈ c.DNS, ∃ i, ipOf d = some i) ∧ (c.Netmask = [] ∨ c.Netmask.length = 4) ∧ 0 ≤ c.MTU ∧ 0 ≤ c.LeaseDuration ∧
  c.LeaseDuration % 1000000000 = 0

/-- The world of `resolvconf.Run`: the process environment `env`, and the file updates requested so far (the state);
`updErr` is what the atomic update returns (C20's subject). -/
def resEnv (env : List Bytes) (updErr : GoErr) : Gen.ResEnv (List Bytes) where
  Environ := fun st => .ok (env, st)
  Update := fun buf st => .ok (updErr, st ++ [buf])

end PsaDhcp.Code
