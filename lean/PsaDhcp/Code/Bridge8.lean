import PsaDhcp.Code.Bridge
import PsaDhcp.Model.Automaton
/-
Bridge, part 8: the world of the translated client automaton (`Gen.CliEnv`: the exchange primitive `advanceState`,
the message templates, libif, the ARP prober, the pre/post callbacks, the clock, the context, the rate limiter)
instantiated with a script of events of `Model/Automaton.lean` and an effect log — the setting of the theorem that
the translated `dclient.Run` / `ResumeClient` produce the effect trace of the model automaton `crun`.
-/
namespace PsaDhcp.Code
open PsaDhcp PsaDhcp.Go

/-- `libif.Ifconfig` as the model's configuration record. -/
def ifcOf (c : Gen.libif.Ifconfig) : Ifconfig :=
  { mtu := c.MTU.toNat, router := ipOf c.Router, ip := ipOf c.IP, netmask := Ip4.ofBytes? c.Netmask,
    dns := c.DNS.filterMap ipOf, domain := c.DomainName, leaseSecs := (c.LeaseDuration / 1000000000).toNat }

/-- `mclient.filterNetconfig` (lib/client/filter.go), the pre-callback `mclient.Run` installs: withhold the router
unless default-route configuration is enabled.  (Modelled here, 3 lines of Go; the callbacks are parameters of dclient.) -/
def filterGen (route : Bool) (c : Gen.libif.Ifconfig) : Gen.libif.Ifconfig := if route then c else { c with Router := [] }

structure CliWorld where
  evs : List CEv            -- events not yet consumed
  log : List Eff            -- effects so far, in order
  cancelled : Bool          -- the context handed to `Run` was cancelled (link-up event, or the script is over)
  now : Int                 -- the clock (constant during a run: the waits are events)
  over : Bool := false      -- a wait found the script exhausted: `mclient.Run`'s own context has ended

def CliWorld.emit (w : CliWorld) (e : Eff) : CliWorld := { w with log := w.log ++ [e] }

/-- Result of `advanceState` for the event that ends the exchange. -/
def advRes : Option CEv → (Gen.dhcpmsg.Message × Gen.dhcpmsg.DecodedOptions × GoErr) × Bool
  | some (.accepted m o) => ((msgToGen m, doptsToGen o, none), false)
  | some .nack => ((Gen.dhcpmsg.Message.zero, Gen.dhcpmsg.DecodedOptions.zero, Gen.dclient.var_errWasNack), false)
  | some .linkUp => ((Gen.dhcpmsg.Message.zero, Gen.dhcpmsg.DecodedOptions.zero, some "context canceled"), true)
  | none => ((Gen.dhcpmsg.Message.zero, Gen.dhcpmsg.DecodedOptions.zero, some "context canceled"), true)
  | some _ => ((Gen.dhcpmsg.Message.zero, Gen.dhcpmsg.DecodedOptions.zero, some "context deadline exceeded"), false)

def pop (w : CliWorld) : Option CEv × CliWorld :=
  match w.evs with
  | [] => (none, w)
  | e :: r => (some e, { w with evs := r })

def noSender : R (Bytes × Bytes × Bytes) := .ok ([], [], [])

/-- The client's world: every operation that waits consumes the next event of the script; every operation the
properties talk about is logged as the model's effect. `route` is the `-default_route` flag. -/
def cliEnv (route : Bool) : Gen.CliEnv CliWorld where
  Now := fun w => .ok (w.now, w)
  CtxErr := fun w => .ok (if w.cancelled then some "context canceled" else none, w)
  SockClose := fun w => .ok (none, w)
  LimiterAllow := fun w => .ok (true, w)
  Sleep := fun _ w => .ok ((), w)
  TmplDiscover := fun _ w => .ok ((noSender, 0), w.emit (.send .discover none none))
  TmplRequestSelecting := fun _ ip sid w => .ok ((noSender, 0), w.emit (.send .selecting (ipOf ip) (ipOf sid)))
  TmplRequestRenewing := fun _ ip sid w => .ok ((noSender, 0), w.emit (.send .renewing (ipOf ip) (ipOf sid)))
  TmplRequestRebinding := fun _ ip w => .ok ((noSender, 0), w.emit (.send .rebinding (ipOf ip) none))
  AdvanceState := fun _ _ _ w =>
    let p := pop w
    let r := advRes p.1
    .ok (r.1, { p.2 with cancelled := p.2.cancelled || r.2, over := p.2.over || p.1.isNone })
  Ping := fun _ _ dst w =>
    let w := w.emit (.arpProbe (ipOf dst))
    let p := pop w
    match p.1 with
    | some (.arp (some mac)) => .ok ((mac, none), p.2)
    | some (.arp none) => .ok (([], some "timeout"), p.2)
    | some .linkUp => .ok (([], some "context canceled"), { p.2 with cancelled := true })
    | none => .ok (([], some "context canceled"), { p.2 with cancelled := true, over := true })
    | some _ => .ok (([], some "timeout"), p.2)
  PreCallback := fun c w =>
    match c with
    | none => .ok (none, w.emit .preNil)
    | some cfg => .ok (some (filterGen route cfg), w.emit (.pre (ifcOf (filterGen route cfg))))
  PostCallback := fun c w =>
    match c with
    | none => .ok (none, w.emit .postNil)
    | some cfg => .ok (some cfg, w.emit (.post (ifcOf cfg)))
  SetIface := fun cfg w =>
    let w := w.emit (.setIface (ifcOf cfg))
    let p := pop w
    match p.1 with
    | some (.ifaceResult true) => .ok (none, p.2)
    | some (.ifaceResult false) => .ok (some "netlink: operation failed", p.2)
    | none => .ok (none, { p.2 with cancelled := true, over := true })
    | some _ => .ok (none, p.2)
  Unconfigure := fun _ w => .ok (none, w.emit .unconfigure)
  Up := fun _ w => .ok (none, w.emit .up)
  AwaitDone := fun w => .ok ((), w.emit .wait30)
  SleepUntil := fun _ w =>
    let p := pop w
    match p.1 with
    | some .linkUp => .ok ((), { p.2 with cancelled := true })
    | none => .ok ((), { p.2 with cancelled := true, over := true })
    | some _ => .ok ((), p.2)
  OpenIPRecvSock := fun _ w => .ok (((), some "not used"), w)
  SockRead := fun _ w => .ok (([], some "not used"), w)

/-- `mclient.Run`'s loop (lib/client/mclient.go; modelled here, 8 lines of Go): run the automaton until its context
ends; stop if `mclient.Run`'s own context has ended (`over`: a wait found the script exhausted — NOT merely "no event
left": a link-up that is the last event of the script cancels only the inner context, and the client is resumed);
otherwise hand it a fresh context through `ResumeClient` and run it again. -/
def mrun (route : Bool) : Nat → Nat → Gen.dclient.dclient → StateT CliWorld R Gen.dclient.dclient
  | 0, _, dx => pure dx
  | outer + 1, inner, dx => do
    let r ← Gen.dclient.dclient_Run (cliEnv route) dx inner
    let w ← get
    if w.over then pure r.2
    else
      let dx' ← Gen.dclient.dclient_ResumeClient (cliEnv route) r.2
      modify fun w => { w with cancelled := false }
      mrun route outer inner dx'

/-- What the code-level log cannot distinguish or see: both `Unconfigure` calls are the same libif call; the deadlines
computed by `runStateBound` / `ResumeClient` live in the client value, not in a call (separate theorems). -/
def normEff : Eff → Option Eff
  | .panicUnconfigure => some .unconfigure
  | .deadlines _ => none
  | .resume5s => none
  | e => some e

def normTrace (es : List Eff) : List Eff := es.filterMap normEff

/-- Which events can end which wait (the others are not produced by the world for that state), and what an accepted
reply is known to satisfy (the verifiers guarantee a router; decoded fields are 16/32-bit). -/
def EvFits (st : CS) : CEv → Prop
  | .accepted m o => (st = .discovering ∨ st = .selecting ∨ st = .renewing ∨ st = .rebinding) ∧ o.routers ≠ [] ∧
      o.interfaceMTU < 65536 ∧ m.xid < 4294967296 ∧ m.flags < 65536 ∧ m.secs < 65536 ∧ m.cookie < 4294967296
  | .nack | .deadline => st = .discovering ∨ st = .selecting ∨ st = .renewing ∨ st = .rebinding
  | .arp _ => st = .arpCheck
  | .ifaceResult _ => st = .ifconfig
  | .t1 => st = .bound
  | .linkUp => st ≠ .ifconfig

/-- The script fits the model run from `s`. -/
def ScriptFits (mac : Bytes) (route : Bool) : CState → List CEv → Prop
  | _, [] => True
  | s, e :: rest => EvFits s.st e ∧ ScriptFits mac route (cstep mac route s e).1 rest

/-- The client value `dclient.New` returns: state "purge interface". -/
def dx0 (mac : Bytes) : Gen.dclient.dclient :=
  { iface := { Go.NetInterface.zero with HardwareAddr := mac }, state := 1, lastMsg := Gen.dhcpmsg.Message.zero,
    lastOpts := Gen.dhcpmsg.DecodedOptions.zero, boundDeadlines := Gen.dclient.boundDeadlines.zero }

/-! ### `catchReply`: the client's receive path -/

/-- The socket world of `catchReply`: the frames the socket delivers before it is closed (the state is the list of
frames not yet read); everything else is unused by that function. -/
def cliSockEnv (openErr : GoErr) : Gen.CliEnv (List Bytes) where
  OpenIPRecvSock := fun _ fs => .ok (((), openErr), fs)
  SockRead := fun _ fs =>
    match fs with
    | [] => .ok (([], some "file already closed"), fs)
    | f :: r => .ok ((f, none), r)
  Now := fun fs => .ok (0, fs)
  CtxErr := fun fs => .ok (none, fs)
  SockClose := fun fs => .ok (none, fs)
  LimiterAllow := fun fs => .ok (true, fs)
  Sleep := fun _ fs => .ok ((), fs)
  TmplDiscover := fun _ fs => .ok ((noSender, 0), fs)
  TmplRequestSelecting := fun _ _ _ fs => .ok ((noSender, 0), fs)
  TmplRequestRenewing := fun _ _ _ fs => .ok ((noSender, 0), fs)
  TmplRequestRebinding := fun _ _ fs => .ok ((noSender, 0), fs)
  AdvanceState := fun _ _ _ fs => .ok ((Gen.dhcpmsg.Message.zero, Gen.dhcpmsg.DecodedOptions.zero, none), fs)
  Ping := fun _ _ _ fs => .ok (([], none), fs)
  PreCallback := fun c fs => .ok (c, fs)
  PostCallback := fun c fs => .ok (c, fs)
  SetIface := fun _ fs => .ok (none, fs)
  Unconfigure := fun _ fs => .ok (none, fs)
  Up := fun _ fs => .ok (none, fs)
  AwaitDone := fun fs => .ok ((), fs)
  SleepUntil := fun _ fs => .ok ((), fs)

/-- The verifier closure the state functions hand to `advanceState`, for what the model says the client waits for. -/
def vrfyOf : Waiting → Gen.dhcpmsg.Message → Gen.dhcpmsg.DecodedOptions → R Int
  | .offer xid => fun m o => pure (Gen.verify.VerifyOffer (UInt32.ofNat xid) m o)
  | .selectingAck off ch xid => fun m o =>
      pure (Gen.verify.VerifySelectingAck { Gen.dhcpmsg.Message.zero with YourIP := optIpToGen off }
        { Gen.dhcpmsg.DecodedOptions.zero with ServerIdentifier := optIpToGen ch } (UInt32.ofNat xid) m o)
  | .renewingAck off ch xid => fun m o =>
      pure (Gen.verify.VerifyRenewingAck { Gen.dhcpmsg.Message.zero with YourIP := optIpToGen off }
        { Gen.dhcpmsg.DecodedOptions.zero with ServerIdentifier := optIpToGen ch } (UInt32.ofNat xid) m o)
  | .rebindingAck off ch xid => fun m o =>
      pure (Gen.verify.VerifyRebindingAck { Gen.dhcpmsg.Message.zero with YourIP := optIpToGen off }
        { Gen.dhcpmsg.DecodedOptions.zero with ServerIdentifier := optIpToGen ch } (UInt32.ofNat xid) m o)

def _root_.PsaDhcp.Waiting.xid : Waiting → Nat
  | .offer x => x | .selectingAck _ _ x => x | .renewingAck _ _ x => x | .rebindingAck _ _ x => x

/-- Result of the translated `catchReply` for the model's. -/
def caughtToGen : Option Caught → Gen.dhcpmsg.Message × Gen.dhcpmsg.DecodedOptions × GoErr
  | some (.passed m o) => (msgToGen m, doptsToGen o, none)
  | some (.nack m o) => (msgToGen m, doptsToGen o, Gen.dclient.var_errWasNack)
  | _ => (Gen.dhcpmsg.Message.zero, Gen.dhcpmsg.DecodedOptions.zero, some "file already closed")

end PsaDhcp.Code
