import PsaDhcp.Code.Bridge6
import PsaDhcp.Code.Bridge13
/-
Bridge, part 14: the bottom of the stack.  Up to Bridge13 the clients table underneath the lease database is a
parameter `S : Store σ` of the model.  `genStore` is the store whose three operations RUN THE TRANSLATED
lib/server/ipdb/clients/clients.go (`Gen.clients.Clients_Lookup/Inject/InjectPermanent/SetLease`, the accessors
`client_Uip/LeasedUntil`) on the translated representation: the Go map as an association list, the records on a heap,
`*client` as nil-or-index.  With `S := genStore` every layer of the server between the socket and the Go map is code
regenerated from the source: handlers (`Gen.server.*`) → lease database (`Gen.ipdb.*`) → clients table (`Gen.clients.*`).
-/
namespace PsaDhcp.Code
open PsaDhcp PsaDhcp.Go

/-- The translated clients table: the `Clients` struct (its map) and the heap of `client` records. -/
abbrev GTbl := Gen.clients.Clients × Gen.Heap

/-- `NewClients()` with an empty heap. -/
def gEmpty : GTbl := ({ m := [] }, [])

/-- What ipdb.go reads from a `*client` it got from `Lookup`: `Uip()` and `LeasedUntil()`, by running the translated
accessors on the heap; `none` for nil (ipdb.go tests for nil before every use). -/
def gRef (h : Gen.Heap) (p : Go.Ptr) : Option (Nat × Int) :=
  match p with
  | none => none
  | some _ =>
    match (Gen.clients.client_Uip p).run h, (Gen.clients.client_LeasedUntil p).run h with
    | .ok (a, _), .ok (e, _) => some (a.toNat, e)
    | _, _ => none

/-- The two pointers `Lookup` returned, as a `LookupRes`: `same` is Go's pointer comparison `a == b` of two non-nil
pointers. -/
def gLookupRes (h : Gen.Heap) (p1 p2 : Go.Ptr) : LookupRes :=
  { byIp := (gRef h p1).map (·.1), byDuid := (gRef h p2).map (·.1),
    same := (gRef h p1).isSome && p1 == p2, ipExp := (gRef h p1).map (·.2) }

def errIpExists : String := "entry for ip already exists"
def errDuidExists : String := "entry for this hardwareaddr already exists"
def errNoIp : String := "ip does not exist"
def errNoDuid : String := "duid does not exist"

/-- Result class of an error value of clients.go (left inverse of `resToGen`). -/
def resOfGen : GoErr → Clients.Res
  | none => .ok
  | some s =>
    if s = errIpExists then .ipExists
    else if s = errDuidExists then .duidExists
    else if s = errNoIp then .noIp
    else if s = errNoDuid then .noDuid
    else .mismatch

/-- Run a translated clients.go method returning `(error, table)`; a Go panic (there is none on tables that represent a
model table — `Proofs/CodeClients.lean`) leaves the table alone and reports a mismatch. -/
def gRunRes (g : GTbl) (m : StateT Gen.Heap R (GoErr × Gen.clients.Clients)) : GTbl × Clients.Res :=
  match m.run g.2 with
  | .ok ((e, cx'), h') => ((cx', h'), resOfGen e)
  | .error _ => (g, .mismatch)

/-- The clients store that is the translated clients.go.  Addresses are `uip.Uip` values (`uint32`). -/
def genStore : Store GTbl where
  lookup := fun g now a d =>
    match (Gen.clients.Clients_Lookup g.1 now (UInt32.ofNat a) d).run g.2 with
    | .ok ((p1, p2, cx'), h') => ((cx', h'), gLookupRes h' p1 p2)
    | .error _ => (g, { byIp := none, byDuid := none, same := false, ipExp := none })
  inject := fun g now a d exp perm =>
    if perm then gRunRes g (Gen.clients.Clients_InjectPermanent g.1 now (UInt32.ofNat a) d)
    else gRunRes g (Gen.clients.Clients_Inject g.1 now (UInt32.ofNat a) d exp)
  setLease := fun g now a d exp => gRunRes g (Gen.clients.Clients_SetLease g.1 now (UInt32.ofNat a) d exp)

/-- A store restricted to what ipdb.go can ask of it: addresses are 32-bit values and a permanent record carries the
expiry `time.Unix(0, 0)`.  Every call the model's `IPDB` operations make is of this form already
(`Proofs/CodeFull.lean: *_norm`), so `S.norm` and `S` are interchangeable below an `IPDB`. -/
def _root_.PsaDhcp.Store.norm {σ : Type} (S : Store σ) : Store σ where
  lookup := fun s t a d => S.lookup s t (a % 4294967296) d
  inject := fun s t a d exp perm => S.inject s t (a % 4294967296) d (if perm then 0 else exp) perm
  setLease := fun s t a d exp => S.setLease s t (a % 4294967296) d exp

/-- The translated table represents the model table (clock-independent). -/
def GRel (g : GTbl) (c : Clients) (_t : Int) : Prop := CRep g.1 g.2 c

end PsaDhcp.Code
