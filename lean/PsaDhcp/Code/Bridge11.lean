import PsaDhcp.Code.Bridge
import PsaDhcp.Model.Client
/-
Bridge, part 11: the world of the client's sender goroutine (`sendMessage` / `sendSocket`, lib/client/dclient/netio.go):
sockets, the ARP prober, the random source, and the wait "timer or context, whichever comes first".
-/
namespace PsaDhcp.Code
open PsaDhcp PsaDhcp.Go

structure SendState where
  writes : List Bytes            -- frames written so far
  waits : List Int               -- the delays handed to `time.After`, in order
  rounds : Nat                   -- how many more times the timer fires before the context ends
  pings : List (Option Bytes)    -- outcomes of the ARP look-ups of the server not yet made (none = no answer)
  opened : List (Option Bytes)   -- sockets opened: `some mac` = unicast to mac, `none` = broadcast

/-- `rnd k` is the value `rand.Int63()` returns after `k+1` frames have been written (a non-negative 63-bit number);
`cancelled` is `ctx.Err() != nil` during the look-up of the server's hardware address. -/
def sendEnv (rnd : Nat → Nat) (cancelled : Bool) : Gen.SendEnv SendState where
  CtxErr := fun st => .ok (if cancelled then some "context canceled" else none, st)
  OpenIPSendSock := fun _ st => .ok (((), none), { st with opened := st.opened ++ [none] })
  OpenUnicastSendSock := fun _ mac st => .ok (((), none), { st with opened := st.opened ++ [some mac] })
  Ping := fun _ _ _ st =>
    match st.pings with
    | [] => .ok (([], some "timeout"), st)
    | none :: r => .ok (([], some "timeout"), { st with pings := r })
    | some mac :: r => .ok ((mac, none), { st with pings := r })
  RandInt63 := fun st => .ok (Int.ofNat (rnd (st.writes.length - 1)), st)
  SelectAfter := fun d st =>
    match st.rounds with
    | 0 => .ok (false, { st with waits := st.waits ++ [d] })
    | k + 1 => .ok (true, { st with waits := st.waits ++ [d], rounds := k })
  SockWrite := fun b st => .ok (none, { st with writes := st.writes ++ [b] })
  SockClose := fun st => .ok (none, st)

/-- The template closure handed to the sender: always the same frame and (source, destination) hint. -/
def constSender (pkt src dst : Bytes) : R (Bytes × Bytes × Bytes) := .ok (pkt, src, dst)

end PsaDhcp.Code
