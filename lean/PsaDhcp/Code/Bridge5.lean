import PsaDhcp.Code.Bridge3
/-
Bridge, part 5: the configuration fields of the Go `server` value (`lopts`, `overrides`) against the model's
`SrvCfg` — the setting of the theorem `Gen.server.server_dhcpOptions = SrvCfg.dhcpOptions` (C07 on the code), and the
map keys of the lease database (`Uip.String()`, `Duid.String()`).
-/
namespace PsaDhcp.Code
open PsaDhcp PsaDhcp.Go

/-- A `net.IP` field holding an optional IPv4 address: nil for "unset", otherwise a form `To4()` accepts. -/
def IpRep (b : Bytes) (o : Option Ip4) : Prop := ipOf b = o ∧ (b = [] ↔ o = none)

/-- The `LeaseOptions` value `server.New` stores for a client entry `o`: a copy of the global options in which
`SetClientOverrides` replaced exactly the settings the entry specifies. -/
def OvRep (c : SrvCfg) (o : Override) (g : Gen.leaseopts.LeaseOptions) : Prop :=
  IpRep g.Router (match o.router with | some r => some r | none => c.router) ∧
  g.DNS.map ipOf = (if o.dns.isEmpty then c.dns else o.dns).map some ∧
  g.NTP.map ipOf = (if o.ntp.isEmpty then c.ntp else o.ntp).map some ∧
  g.Domain = c.domain ∧ g.Hostname = o.hostname

/-- The Go `server` value carries the configuration `c`: global lease options, and one `overrides` entry per client
entry, stored under `duidFromHwAddr(mac).String()`. -/
def CfgOf (sx : Gen.server.server) (c : SrvCfg) : Prop :=
  sx.lopts.LeaseDuration = c.leaseNs ∧ sx.lopts.Netmask = c.mask ∧ IpRep sx.lopts.Router c.router ∧
  sx.lopts.DNS.map ipOf = c.dns.map some ∧ sx.lopts.NTP.map ipOf = c.ntp.map some ∧ sx.lopts.Domain = c.domain ∧
  ∀ mac k, Gen.duid.Duid_String (sduid mac) = .ok k →
    match c.override? mac with
    | none => Go.mapGet? sx.overrides k = none
    | some o => ∃ g, Go.mapGet? sx.overrides k = some g ∧ OvRep c o g

end PsaDhcp.Code
