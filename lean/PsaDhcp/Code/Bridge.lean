import PsaDhcp.Generated.Code
import PsaDhcp.Model.Wire
import PsaDhcp.Model.Dhcp
/-
Bridge between the code translated from the Go source (`PsaDhcp.Gen`, regenerated on every check)
and the hand-written models the property theorems are stated over.  Only definitions live here:
the conversions between the two representations and the shape of an agreement statement.  The
theorems `Gen.f = model f` are in `Proofs/CodeLayer.lean`, `Proofs/CodeDhcp.lean`,
`Proofs/CodeMisc.lean`; the property files restate the ones they rest on.

Representation (trusted, see DESIGN.md): `net.IP` values are byte lists (`nil` = `[]`, the 16-byte
form `::ffff:a.b.c.d` for `net.IPv4(..)`); fixed-size Go arrays are lists whose length is a
hypothesis of the theorems that consume them; a Go result `(*T, error)` is `Option T × GoErr`.
-/
namespace PsaDhcp.Code
open PsaDhcp PsaDhcp.Go

/-- What the encoders make of a `net.IP`: its `To4()` form if it has one. -/
def ipOf (x : Bytes) : Option Ip4 := Ip4.ofBytes? (Go.to4 x)

/-- The `net.IP` the decoders produce for an address (`net.IPv4(a, b, c, d)`). -/
def ipToGen (i : Ip4) : Bytes := Go.netIPv4 i.a i.b i.c i.d

def optIpToGen : Option Ip4 → Bytes
  | some i => ipToGen i
  | none => []

/-- `net.IPMask` as produced by `net.IPv4Mask`. -/
def maskToGen : Option Ip4 → Bytes
  | some i => i.bytes
  | none => []

/-- A Go decoder result `(*T, error)` for the model result `r`: a reject becomes the error value,
success the pointer.  (A model panic has no counterpart; the models are proved panic-free.) -/
def liftDec {G M : Type} (toGen : M → G) : R M → R (Option G × GoErr)
  | .ok m => .ok (some (toGen m), none)
  | .error (.reject w) => .ok (none, some w)
  | .error (.panic s) => .error (.panic s)

/-! ### lib/layer -/

def udpOf (u : Gen.layer.UDP) : UDP := ⟨u.SrcPort.toNat, u.DstPort.toNat, u.Data⟩

def udpToGen (u : UDP) : Gen.layer.UDP :=
  { SrcPort := UInt16.ofNat u.srcPort, DstPort := UInt16.ofNat u.dstPort, Data := u.data }

def ipv4Of (h : Gen.layer.IPv4) : IPv4 :=
  { ident := h.Identification.toNat, flags := h.Flags.toNat, ttl := h.TTL, proto := h.Protocol,
    csum := h.Checksum.toNat, src := ipOf h.Source, dst := ipOf h.Destination, data := h.Data }

def ipv4ToGen (h : IPv4) : Gen.layer.IPv4 :=
  { Identification := UInt16.ofNat h.ident, Flags := UInt16.ofNat h.flags, TTL := h.ttl, Protocol := h.proto,
    Checksum := UInt16.ofNat h.csum, Source := optIpToGen h.src, Destination := optIpToGen h.dst, Data := h.data }

def arpOf (a : Gen.layer.ARP) : ARP :=
  ⟨a.SenderMAC, ipOf a.SenderIP, a.TargetMAC, ipOf a.TargetIP, a.Opcode⟩

def arpToGen (a : ARP) : Gen.layer.ARP :=
  { SenderMAC := a.senderMAC, SenderIP := optIpToGen a.senderIP, TargetMAC := a.targetMAC,
    TargetIP := optIpToGen a.targetIP, Opcode := a.opcode }

/-! ### lib/dhcpmsg -/

def optOf (o : Gen.dhcpmsg.DHCPOpt) : Opt := ⟨o.Option, o.Data⟩

def optToGen (o : Opt) : Gen.dhcpmsg.DHCPOpt := { Option := o.code, Data := o.data }

def msgOf (m : Gen.dhcpmsg.Message) : Msg :=
  { op := m.Op, htype := m.Htype, hops := m.Hops, xid := m.Xid.toNat, secs := m.Secs.toNat, flags := m.Flags.toNat,
    ciaddr := ipOf m.ClientIP, yiaddr := ipOf m.YourIP, siaddr := ipOf m.NextIP, giaddr := ipOf m.RelayIP,
    chaddr := m.ClientMAC, sname := m.ServerHostName, file := m.BootFilename, cookie := m.Cookie.toNat,
    options := m.Options.map optOf }

def msgToGen (m : Msg) : Gen.dhcpmsg.Message :=
  { Op := m.op, Htype := m.htype, Hops := m.hops, Xid := UInt32.ofNat m.xid, Secs := UInt16.ofNat m.secs,
    Flags := UInt16.ofNat m.flags, ClientIP := optIpToGen m.ciaddr, YourIP := optIpToGen m.yiaddr,
    NextIP := optIpToGen m.siaddr, RelayIP := optIpToGen m.giaddr, ClientMAC := m.chaddr,
    ServerHostName := m.sname, BootFilename := m.file, Cookie := UInt32.ofNat m.cookie,
    Options := m.options.map optToGen }

/-- `time.Second * time.Duration(n)` -/
def secsToGen (n : Nat) : Int := 1000000000 * (n : Int)

def doptsToGen (d : DecodedOptions) : Gen.dhcpmsg.DecodedOptions :=
  { MessageType := d.messageType, MaxMessageSize := UInt16.ofNat d.maxMessageSize,
    InterfaceMTU := UInt16.ofNat d.interfaceMTU, RequestedIP := optIpToGen d.requestedIP,
    ServerIdentifier := optIpToGen d.serverIdentifier, BroadcastAddress := optIpToGen d.broadcastAddress,
    SubnetMask := maskToGen d.subnetMask, Routers := d.routers.map ipToGen, DNS := d.dns.map ipToGen,
    IPAddressLeaseDuration := secsToGen d.leaseSecs, RenewalDuration := secsToGen d.renewalSecs,
    RebindDuration := secsToGen d.rebindSecs, DomainName := d.domainName,
    ClientIdentifier := d.clientIdentifier, Message := d.message, ParametersList := d.parametersList }

end PsaDhcp.Code
