import PsaDhcp.Code.Bridge4
import PsaDhcp.Code.Bridge5
import PsaDhcp.Model.Config
/-
Bridge, part 9: configuration.  The translated `leaseopts.ParseConfig` / `SetClientOverrides` / `representable` /
`ipv4` and `server.New` work on the strings of the protobuf configuration and call the standard library's parsers,
which are uninterpreted (`Go.parseIP`, `Go.parseCIDR`, `Go.parseDuration`, `Go.parseMAC`).  `Model/Config.lean` works
on "empty / unparsable / parsed value" per field.  `rawOf` applies the uninterpreted parsers to the strings, so the
theorem `Gen.server.New = newServer ∘ rawOf` holds whatever the parsers compute.
-/
namespace PsaDhcp.Code
open PsaDhcp PsaDhcp.Go

/-- One address-valued configuration string, as `leaseopts.ipv4` reads it. -/
def entOfStr (s : Bytes) : Ent :=
  if s = [] then .empty
  else match Ip4.ofBytes? (Go.to4 (Go.parseIP s)) with
    | some i => .ok i
    | none => .bad

/-- Prefix length of a canonical 4-byte mask. -/
def prefixOf (m : Bytes) : Option Nat := (List.range 33).find? fun p => m = maskOf p

/-- `net.ParseCIDR(network)`: base address and prefix length of an IPv4 network (none for anything else). -/
def netOfStr (s : Bytes) : Option (Nat × Nat) :=
  match Go.parseCIDR s with
  | (_, some n, none) =>
    (match ipOf n.IP, prefixOf n.Mask with
     | some i, some p => some (i.toNat, p)
     | _, _ => none)
  | _ => none

def leaseOfStr (s : Bytes) : Option Int :=
  match Go.parseDuration s with
  | (d, none) => some d
  | _ => none

def dynOfStr (s : Bytes) : RawDyn :=
  if s = [] then .absent
  else match Go.stringsSplit s [45] with
    | [a, b] =>
      (match Ip4.ofBytes? (Go.to4 (Go.parseIP a)), Ip4.ofBytes? (Go.to4 (Go.parseIP b)) with
       | some x, some y => .range x y
       | _, _ => .badIp)
    | _ => .badFormat

def rawClientOf (e : Bytes × Gen.serverconfig.ClientConfig) : RawClient :=
  { mac := (match Go.parseMAC e.1 with | (m, none) => some m | _ => none),
    ip := entOfStr e.2.Ip, router := entOfStr e.2.Router, dns := e.2.Dns.map entOfStr, ntp := e.2.Ntp.map entOfStr,
    hostname := e.2.Hostname }

/-- The configuration as the model sees it; `selfAddr` is what `libif.InterfaceAddr(iface)` returned. -/
def rawOf (conf : Gen.serverconfig.ServerConfig) (iface : Go.NetInterface) (selfAddr : Bytes × GoErr) : RawCfg :=
  { selfIp := (match selfAddr with | (ip, none) => ipOf ip | _ => none),
    selfMac := iface.HardwareAddr,
    network := netOfStr conf.Network, lease := leaseOfStr conf.LeaseDuration,
    router := entOfStr conf.Router, dns := conf.Dns.map entOfStr, ntp := conf.Ntp.map entOfStr,
    domain := conf.Domain, dyn := dynOfStr conf.DynamicRange, staticOnly := conf.StaticOnly }

/-- The world of `server.New`: the interface's address and the lease database under construction (the model's
`IPDB` over the store `S`; `ipdb.New`, `SetDynamicRange`, `DisableDynamic`, `AddPermanentClient` are the model's). -/
def newEnv {σ : Type} (S : Store σ) (empty : σ) (selfAddr : Bytes × GoErr) (t : Int) : Gen.NewEnv (IPDB σ) where
  InterfaceAddr := fun _ db => .ok (selfAddr, db)
  IpdbNew := fun ip mask db =>
    match ipOf ip, prefixOf mask with
    | some i, some p => .ok ((some (ixToGen (IPDB.new empty i.toNat p)), none), IPDB.new empty i.toNat p)
    | _, _ => .ok ((none, some "invalid network"), db)
  SetDynamicRange := fun b e db =>
    let r := db.setDynamicRange (ipOf b) (ipOf e)
    .ok (unitResToGen' r.2, r.1)
  DisableDynamic := fun db => .ok ((), db.disableDynamic)
  AddPermanentClient := fun ip duid db =>
    let r := db.addPermanent S t (ipOf ip) duid
    .ok (unitResToGen' r.2, r.1)

/-- What the theorems assume about the uninterpreted parsers (true of Go's): the empty string is not an address, and
`ParseCIDR` returns a network whenever it returns no error. -/
def ParsersOk : Prop :=
  Go.parseIP [] = [] ∧ ∀ s, (Go.parseCIDR s).2.2 = none → (Go.parseCIDR s).2.1.isSome

/-- `net.ParseCIDR` yields CIDR masks: a four-byte mask is `p` ones followed by zeros (true of Go's).  Not needed for
`Gen.server.New = newServer` (Proofs/CodeConfig.lean `new_eq`); it is what makes `newEnv.IpdbNew` agree with the translated
`ipdb.New` on everything `ParseCIDR` can hand to it (`IpdbNew_faithful`): `ipdb.New` itself accepts ANY four-byte mask
(e.g. 255.0.255.0), which has no prefix length, and there `newEnv.IpdbNew` refuses (`IpdbNew_noncanonical_mask`). -/
def CidrMaskOk : Prop :=
  ∀ s x n, Go.parseCIDR s = (x, some n, none) → n.Mask.length = 4 → (prefixOf n.Mask).isSome

end PsaDhcp.Code
