import PsaDhcp.Code.Bridge4
/-
Bridge, part 6: the clients table of lib/server/ipdb/clients/clients.go as translated (a Go map from key strings to
record pointers, and the heap of records) against `Model/Clients.lean` (a total function from abstract keys to indices
into an append-only entry list).  Pointers are the same numbers on both sides: the i-th record allocated is entry i.
-/
namespace PsaDhcp.Code
open PsaDhcp PsaDhcp.Go

/-- The record the code stores for a model entry. -/
def entOf (r : Gen.clients.client) : Entry := ⟨r.ip.toNat, r.duid, r.leasedUntil, r.permanent⟩

/-- The map key the code computes for an abstract key: `Uip.String()` / `Duid.String()`. -/
def keyOf : Key → R Bytes
  | .ip a => .ok (Gen.uip.Uip_String (UInt32.ofNat a))
  | .duid d => Gen.duid.Duid_String d

/-- Addresses are 32-bit values (`uip.Uip`). -/
def KeyOk : Key → Prop
  | .ip a => a < 4294967296
  | .duid _ => True

/-- The translated table `(cx, heap)` represents the model table `c`. -/
def CRep (cx : Gen.clients.Clients) (h : Gen.Heap) (c : Clients) : Prop :=
  h.map entOf = c.ents ∧
  (∀ k s, KeyOk k → keyOf k = .ok s → (Go.mapGet? cx.m s).getD none = c.m k) ∧
  (∀ k i, c.m k = some i → i < c.ents.length)

end PsaDhcp.Code
