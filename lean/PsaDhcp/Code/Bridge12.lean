import PsaDhcp.Generated.Code
import PsaDhcp.Model.Fs
/-
Bridge, part 12: the file system as `resolvconf.update` sees it (`Gen.FsEnv`) interpreted on the abstract file-system
machine of `Model/Fs.lean`, for one writer (index 0).  Every call performs the model step of the program counter it
belongs to — and only if the writer *is* at that program counter and the arguments are the expected ones (the temp
file's name, mode 0644, the target path); anything else is recorded as a protocol violation.  So the theorem "no
violation, and the final state is a run of the model writer" says the translated code issues exactly the model's call
sequence, for every placement of failures and short writes.
-/
namespace PsaDhcp.Code
open PsaDhcp PsaDhcp.Go

structure FsWorld where
  fs : FS
  choices : List Choice        -- what the file system decides for the calls still to come
  acts : List Act              -- the model steps performed so far
  violation : Bool             -- a call that the model writer would not make at this point (or with other arguments)

def tmpName : Bytes := "/etc/resolvconf-0.tmp".toUTF8.toList
def targetName : Bytes := "/etc/resolv.conf".toUTF8.toList

def FsWorld.pc (w : FsWorld) : Pc := match w.fs.ws[0]? with | some x => x.pc | none => .killed

def FsWorld.next (w : FsWorld) : Choice × List Choice :=
  match w.choices with | [] => ({}, []) | c :: r => (c, r)

/-- Perform the model step of writer 0 with the next choice if the writer is at `pc` and `ok` holds. -/
def FsWorld.call (w : FsWorld) (pc : Pc) (ok : Bool) : Choice × FsWorld :=
  let n := w.next
  if w.pc = pc ∧ ok then
    (n.1, { w with fs := act w.fs (.step 0 n.1), choices := n.2, acts := w.acts ++ [.step 0 n.1] })
  else (n.1, { w with violation := true, choices := n.2 })

/-- The purely internal step of the model writer (`check`: decide between chmod and cleanup). -/
def FsWorld.internal (w : FsWorld) : FsWorld :=
  if w.pc = .check then { w with fs := act w.fs (.step 0 {}), acts := w.acts ++ [.step 0 {}] } else w

def errOf (c : Choice) (what : String) : GoErr := if c.fail then some what else none

def fsEnv : Gen.FsEnv FsWorld where
  TempFile := fun dir pat w =>
    let r := w.call .create (dir == "/etc".toUTF8.toList && pat == "resolvconf-*.tmp".toUTF8.toList)
    .ok (((), errOf r.1 "open: permission denied"), r.2)
  FileName := fun w => .ok (tmpName, w)
  FileWrite := fun b w =>
    let r := w.call .write (match w.fs.ws[0]? with | some x => x.buf == b | none => false)
    let nr := match r.2.fs.ws[0]? with | some x => x.nr | none => 0
    .ok ((Int.ofNat nr, errOf r.1 "write: no space left on device"), r.2)
  FileClose := fun w =>
    let r := w.call .close true
    .ok (errOf r.1 "close: input/output error", r.2.internal)
  Chmod := fun name mode w =>
    let r := w.call .chmod (name == tmpName && mode == 0o644)
    .ok (errOf r.1 "chmod: operation not permitted", r.2)
  Rename := fun a b w =>
    let r := w.call .rename (a == tmpName && b == targetName)
    .ok (errOf r.1 "rename: device or resource busy", r.2)
  Remove := fun name w =>
    let r := w.call .cleanup (name == tmpName)
    .ok (none, r.2)

/-- One writer about to run `update(buf)` over the previous file `old`, with the file system's decisions `cs`. -/
def fsWorld0 (old : Option File) (buf : Bytes) (cs : List Choice) : FsWorld :=
  { fs := fsInit old [buf], choices := cs, acts := [], violation := false }

end PsaDhcp.Code
