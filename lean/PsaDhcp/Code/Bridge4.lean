import PsaDhcp.Code.Bridge3
/-
Bridge, part 4: the environment of the translated lease database (`Gen.DbEnv`: the clients table, the clock,
the caller's context) instantiated with a store of `Model/Ipdb.lean` and explicit oracles — the setting of the
theorems `Gen.ipdb.IPDB_* = IPDB.*` (`Proofs/CodeIpdbOps.lean`, restated in `Props/C11Code.lean`).
-/
namespace PsaDhcp.Code
open PsaDhcp PsaDhcp.Go

/-- State of a lease-database call: the store, and how many clock readings / context checks were taken. -/
structure DState (σ : Type) where
  s : σ
  nows : Nat
  ctxs : Nat

/-- Error values of `clients.go` by result class. -/
def resToGen : Clients.Res → GoErr
  | .ok => none
  | .ipExists => some "entry for ip already exists"
  | .duidExists => some "entry for this hardwareaddr already exists"
  | .noIp => some "ip does not exist"
  | .noDuid => some "duid does not exist"
  | .mismatch => some "ip != duid"

/-- Error values of `ipdb.go` by error class. -/
def dbErrToGen : DbErr → GoErr
  | .notV4 => some "not an ipv4"
  | .notInRange => some "ip is not in managed range"
  | .badRange => some "begin in dynamic range can not be larget than end"
  | .notFound => some "no such client found"
  | .disabled => some "dynamic searches are disabled"
  | .noFreeIp => some "no free ip found"
  | .store r => resToGen r

def addrResToGen : Except DbErr Nat → Bytes × GoErr
  | .ok a => (ipToGen (Ip4.ofNat a), none)
  | .error e => ([], dbErrToGen e)

def unitResToGen' : Except DbErr Unit → GoErr
  | .ok _ => none
  | .error e => dbErrToGen e

/-- The two `*client` values `Lookup` returns, as the callers in ipdb.go can observe them: nil-ness, pointer
identity (`same`), `Uip()` and, for the record found by address, `LeasedUntil()`. -/
def refsOf (r : LookupRes) : Option Go.ClientRef × Option Go.ClientRef :=
  (r.byIp.map fun a => { id := 0, ip := UInt32.ofNat a, leasedUntil := r.ipExp.getD 0 },
   r.byDuid.map fun a => { id := if r.same then 0 else 1, ip := UInt32.ofNat a, leasedUntil := 0 })

/-- What the model relies on about a store's `lookup` result (true of `clientsStore` and `tableStore`): "the same
record" presupposes two records, and a record found by address has an expiry. -/
def LookupWf (r : LookupRes) : Prop :=
  (r.same = true → r.byIp.isSome ∧ r.byDuid.isSome) ∧ (r.byIp.isSome → r.ipExp.isSome)

def StoreWf {σ : Type} (S : Store σ) : Prop := ∀ s t n d, LookupWf (S.lookup s t n d).2

/-- The world of one lease-database call: store `S`, the successive readings of `time.Now()` (`nowAt`), and the
successive answers of `ctx.Err() != nil` (`cancelAt`). -/
def dbEnv {σ : Type} (S : Store σ) (nowAt : Nat → Int) (cancelAt : Nat → Bool) : Gen.DbEnv (DState σ) where
  Now := fun st => .ok (nowAt st.nows, { st with nows := st.nows + 1 })
  CtxErr := fun st => .ok (if cancelAt st.ctxs then some "context canceled" else none, { st with ctxs := st.ctxs + 1 })
  ClientsLookup := fun now ip duid st =>
    let r := S.lookup st.s now ip.toNat duid
    .ok (refsOf r.2, { st with s := r.1 })
  ClientsSetLease := fun now ip duid exp st =>
    let r := S.setLease st.s now ip.toNat duid exp
    .ok (resToGen r.2, { st with s := r.1 })
  ClientsInject := fun now ip duid exp st =>
    let r := S.inject st.s now ip.toNat duid exp false
    .ok (resToGen r.2, { st with s := r.1 })
  ClientsInjectPermanent := fun now ip duid st =>
    let r := S.inject st.s now ip.toNat duid 0 true
    .ok (resToGen r.2, { st with s := r.1 })

/-- The probe callback `isFree(ctx, ip)` of `FindIP`, answering from the per-candidate oracle: the candidate in
hand is the one whose `ctx.Err()` check was the latest. -/
def isFreeOf {σ : Type} (orc : Nat → IPDB.Iter) : Bytes → StateT (DState σ) R Bool :=
  fun _ st => .ok ((orc (st.ctxs - 1)).free, st)

/-- The range fields of the Go `IPDB` value are those of the model database. -/
def IxOf {σ : Type} (ix : Gen.ipdb.IPDB) (db : IPDB σ) : Prop :=
  db.netFrom = ix.netFrom.toNat ∧ db.netTo = ix.netTo.toNat ∧ db.dynFrom = ix.dynFrom.toNat ∧ db.dynTo = ix.dynTo.toNat

def ixToGen {σ : Type} (db : IPDB σ) : Gen.ipdb.IPDB :=
  { netFrom := UInt32.ofNat db.netFrom, netTo := UInt32.ofNat db.netTo, dynFrom := UInt32.ofNat db.dynFrom, dynTo := UInt32.ofNat db.dynTo }

end PsaDhcp.Code
