import PsaDhcp.Code.Bridge
import PsaDhcp.Model.Client
import PsaDhcp.Model.Server
/-
Bridge, part 2: server replies, client verifiers and templates, ipdb address arithmetic.
-/
namespace PsaDhcp.Code
open PsaDhcp PsaDhcp.Go

/-- `verify.State`: `Failed = 0`, `Passed = 1`, `IsNack = 2` (`iota`). -/
def vstateToGen : VState → Int
  | .failed => 0
  | .passed => 1
  | .isNack => 2

/-- Result of `(*IPDB).toUip` for the model's result. -/
def toUipToGen : Except DbErr Nat → UInt32 × GoErr
  | .ok n => (UInt32.ofNat n, none)
  | .error .notV4 => (0, some "not an ipv4")
  | .error _ => (0, some "ip is not in managed range")

end PsaDhcp.Code
