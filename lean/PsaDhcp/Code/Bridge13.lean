import PsaDhcp.Code.Bridge3
import PsaDhcp.Code.Bridge4
/-
Bridge, part 13: vertical composition.  `srvEnv` (Bridge3) answers the handlers' database calls with the MODEL's
`IPDB` operations.  `srvEnvGen` answers them by running the TRANSLATED lib/server/ipdb methods (`Gen.ipdb.IPDB_*`) in
their own environment `dbEnv S …` (Bridge4): the translated handlers on top of the translated lease database, both
regenerated from the source, with only the clients store `S`, the clocks, `rand.Perm`, the probe answers and the socket
left as parameters.
-/
namespace PsaDhcp.Code
open PsaDhcp PsaDhcp.Go

/-- Run a translated lease-database method on the database `db` (range fields as the Go struct, store as the state of
`dbEnv`) and hand back its result and the new store; a Go panic inside it propagates. -/
def onDb {σ α : Type} (db : IPDB σ) (m : StateT (DState σ) R α) : R (α × IPDB σ) :=
  match m.run { s := db.s, nows := 0, ctxs := 0 } with
  | .ok (a, ds) => .ok (a, { db with s := ds.s })
  | .error e => .error e

/-- The handlers' world with the translated lease database underneath. Clock readings as in `srvEnv`: the first
`LookupClientByDuid` (that of `getDuid`) reads `o.t0`, later ones and `FindIP`'s first lookup `o.t1`, `UpdateClient`
`o.t2`; candidate `i` of `FindIP` sees `o.iters i`. -/
def srvEnvGen {σ : Type} (S : Store σ) (c : SrvCfg) (o : HOracle) : Gen.Env (HState σ) where
  LookupClientByDuid := fun duid st =>
    let t := if st.lookups = 0 then o.t0 else o.t1
    match onDb st.db (Gen.ipdb.IPDB_LookupClientByDuid (dbEnv S (fun _ => t) (fun _ => false)) (ixToGen st.db) duid) with
    | .ok (r, db') => .ok (r, { st with db := db', lookups := st.lookups + 1 })
    | .error e => .error e
  FindIP := fun _mac sugg duid st =>
    match onDb st.db (Gen.ipdb.IPDB_FindIP (dbEnv S (fun j => if j = 0 then o.t1 else (o.iters (j - 1)).now) (fun i => (o.iters i).cancelled))
            (ixToGen st.db) (isFreeOf o.iters) sugg duid (o.perm.map Int.ofNat)) with
    | .ok (r, db') => .ok (r, { st with db := db' })
    | .error e => .error e
  UpdateClient := fun ip duid ttl st =>
    match onDb st.db (Gen.ipdb.IPDB_UpdateClient (dbEnv S (fun _ => o.t2) (fun _ => false)) (ixToGen st.db) ip duid ttl) with
    | .ok (r, db') => .ok (r, { st with db := db' })
    | .error e => .error e
  InManagedRange := fun ip st =>
    match Gen.ipdb.IPDB_InManagedRange (ixToGen st.db) ip with
    | .ok b => .ok (b, st)
    | .error e => .error e
  ArpVerifyRun := fun _mac _ip st => .ok (o.probeFree, st)
  SendUnicast := fun mac pkt st => .ok (none, { st with sent := st.sent ++ [{ l2dst := mac, pkt := pkt }] })
  DhcpOptions := fun mac st => .ok ((c.dhcpOptions mac).map optToGen, st)
  Sleep := fun _ st => .ok ((), st)

/-- The range fields of a database `server.New` built are 32-bit values (`uip.Uip`). -/
def DbBounded {σ : Type} (db : IPDB σ) : Prop :=
  db.netFrom < 4294967296 ∧ db.netTo < 4294967296 ∧ db.dynFrom < 4294967296 ∧ db.dynTo < 4294967296

/-! ### Sequential histories -/

/-- The model: packets handled one after the other (one handler in flight), frames in order. -/
def handleSeq {σ : Type} (S : Store σ) (c : SrvCfg) : IPDB σ → List (Rx × HOracle) → IPDB σ × List Frame
  | db, [] => (db, [])
  | db, (rx, o) :: rest =>
    let r := handle S c db rx o
    let r' := handleSeq S c r.1 rest
    (r'.1, r.2.toList ++ r'.2)

/-- The translated stack (handlers over the translated lease database) on the same history; `rnd` is the value
`rand.Int63n(2)` returned for the DISCOVER delay of each packet. -/
def stackSeq {σ : Type} (S : Store σ) (c : SrvCfg) (sx : Gen.server.server) :
    IPDB σ → List (Rx × HOracle × Int) → R (IPDB σ × List Frame)
  | db, [] => .ok (db, [])
  | db, (rx, o, rnd) :: rest =>
    match (Gen.server.server_handleMsg (srvEnvGen S c o) sx (ipToGen rx.src) (ipToGen rx.dst) (msgToGen rx.msg) rnd).run
            { db := db, lookups := 0, sent := [] } with
    | .error e => .error e
    | .ok (_, st) =>
      match stackSeq S c sx st.db rest with
      | .error e => .error e
      | .ok (db', fs) => .ok (db', st.sent ++ fs)

/-- Every message of the history has decoded field widths, and every address the handlers look up along the model run
is a 32-bit value. -/
def SeqOk {σ : Type} (S : Store σ) (c : SrvCfg) : IPDB σ → List (Rx × HOracle × Int) → Prop
  | _, [] => True
  | db, (rx, o, _) :: rest => MsgRanges rx.msg ∧ LookupsBounded S db rx o ∧ SeqOk S c (handle S c db rx o).1 rest

end PsaDhcp.Code
