import PsaDhcp.Code.Bridge2
import PsaDhcp.Model.Server
/-
Bridge, part 3: the environment of the translated server handlers (`Gen.Env`) instantiated with the
model's database steps, prober oracle and a frame log — the setting of the handler equivalence theorem.
-/
namespace PsaDhcp.Code
open PsaDhcp PsaDhcp.Go

/-- What a handler run can change: the database, how many `LookupClientByDuid` calls it has made (the first
is `getDuid`'s and reads the clock at `t0`, later ones at `t1`), and the frames handed to the socket. -/
structure HState (σ : Type) where
  db : IPDB σ
  lookups : Nat
  sent : List Frame

/-- Go results of the database calls for the model's results. -/
def ipResToGen : Except DbErr Nat → Bytes × GoErr
  | .ok a => (ipToGen (Ip4.ofNat a), none)
  | .error _ => ([], some "error")

def unitResToGen : Except DbErr Unit → GoErr
  | .ok _ => none
  | .error _ => some "error"

/-- The world of one handler run, built from the model: store `S`, configuration `c`, oracle `o`
(clocks of the database calls, the `rand.Perm` and per-candidate probe results of `FindIP`, the verdict
of the REQUEST-path ARP probe). -/
def srvEnv {σ : Type} (S : Store σ) (c : SrvCfg) (o : HOracle) : Gen.Env (HState σ) where
  LookupClientByDuid := fun duid st =>
    let r := st.db.lookupByDuid S (if st.lookups = 0 then o.t0 else o.t1) duid
    .ok (ipResToGen r.2, { st with db := r.1, lookups := st.lookups + 1 })
  FindIP := fun _mac sugg duid st =>
    let f := st.db.findIP S o.t1 (ipOf sugg) duid o.perm o.iters
    .ok (ipResToGen f.2, { st with db := f.1 })
  UpdateClient := fun ip duid ttl st =>
    let u := st.db.updateClient S o.t2 (ipOf ip) duid ttl
    .ok (unitResToGen u.2, { st with db := u.1 })
  InManagedRange := fun ip st => .ok (st.db.inManagedRange (ipOf ip), st)
  ArpVerifyRun := fun _mac _ip st => .ok (o.probeFree, st)
  SendUnicast := fun mac pkt st => .ok (none, { st with sent := st.sent ++ [{ l2dst := mac, pkt := pkt }] })
  DhcpOptions := fun mac st => .ok ((c.dhcpOptions mac).map optToGen, st)
  Sleep := fun _ st => .ok ((), st)

/-- The fields of the Go `server` value that the handlers read, for the model configuration `c`. -/
def SrvOf (sx : Gen.server.server) (c : SrvCfg) : Prop :=
  sx.iface.HardwareAddr = c.selfMac ∧ ipOf sx.selfIP = some c.selfIp ∧ sx.lopts.LeaseDuration = c.leaseNs

/-- Field ranges of a message that came out of `Decode` (32-bit xid, 16-bit flags). -/
def MsgRanges (m : Msg) : Prop := m.xid < 4294967296 ∧ m.flags < 65536 ∧ m.secs < 65536 ∧ m.cookie < 4294967296

/-- Every address the handler's own lookups return is a 32-bit value (Go's `uip.Uip` is a `uint32`; the model's
addresses are unbounded naturals — the two agree on every store reachable through `toUip`). -/
def LookupsBounded {σ : Type} (S : Store σ) (db : IPDB σ) (rx : Rx) (o : HOracle) : Prop :=
  let g := getDuid S db o.t0 rx.msg.chaddr (decodeOptions rx.msg.options).clientIdentifier
  ∀ a, (g.1.lookupByDuid S o.t1 g.2).2 = .ok a → a < 4294967296

end PsaDhcp.Code
