import PsaDhcp.Model.Server
/-
Specification vocabulary shared by the reply properties (C06, C07) and their proofs.
-/
namespace PsaDhcp.Spec
open PsaDhcp

/-- Configurations whose options are representable (what `leaseopts` validates). -/
structure CfgWf (c : SrvCfg) : Prop where
  mask : c.mask.length = 4
  dns : c.dns.length ≤ 63
  ntp : c.ntp.length ≤ 63
  domain : c.domain.length ≤ 255
  ov : ∀ o ∈ c.overrides, o.dns.length ≤ 63 ∧ o.ntp.length ≤ 63 ∧ o.hostname.length ≤ 255

/-- The DHCP message inside a reply frame, read back with the stack's own decoders. -/
def decodedReply (f : Frame) : Option Msg :=
  match decodeIPv4 f.pkt with
  | .ok ip => match decodeUDP ip.data with
    | .ok u => match decode u.data with
      | .ok r => some r
      | .error _ => none
    | .error _ => none
  | .error _ => none

end PsaDhcp.Spec
