import PsaDhcp.Model.Config
import PsaDhcp.Spec.Table
/-
Specification side of C18: which configurations are valid, stated independently of the order in
which `server.New` performs its checks.
-/
namespace PsaDhcp.Spec
open PsaDhcp

def entValid (e : Ent) : Prop := e ≠ .bad

/-- A list of address strings is valid when it is empty, the single empty string, or all parse. -/
def listValid (l : List Ent) : Prop := l = [.empty] ∨ ∀ e ∈ l, ∃ ip, e = .ok ip

def listLen (l : List Ent) : Nat := if l = [.empty] then 0 else l.length

def entIp (e : Ent) : Option Ip4 := match e with | .ok ip => some ip | _ => none

/-- The configuration is valid: every field parses, the lease is at least a minute, everything is
representable in a DHCP option, the dynamic range and the static addresses lie inside the managed
range of the network, no two entries share an address or a hardware address, and the server's own
address lies inside the network and is not reserved for someone else. -/
structure Valid (r : RawCfg) (clients : List RawClient) : Prop where
  selfIp : r.selfIp ≠ none
  network : r.network ≠ none
  lease : ∃ l, r.lease = some l ∧ 60000000000 ≤ l ∧ l / 1000000000 ≤ 4294967295
  router : entValid r.router
  dns : listValid r.dns ∧ listLen r.dns ≤ 63
  ntp : listValid r.ntp ∧ listLen r.ntp ≤ 63
  domain : r.domain.length ≤ 255
  dyn : r.dyn = .absent ∨ ∃ a b base p, r.dyn = .range a b ∧ r.network = some (base, p) ∧
          (fromTo base p).1 ≤ a.toNat ∧ a.toNat ≤ b.toNat ∧ b.toNat ≤ (fromTo base p).2
  clientFields : ∀ c ∈ clients, c.mac ≠ none ∧ entValid c.ip ∧ entValid c.router ∧
          listValid c.dns ∧ listLen c.dns ≤ 63 ∧ listValid c.ntp ∧ listLen c.ntp ≤ 63 ∧ c.hostname.length ≤ 255
  staticInside : ∀ c ∈ clients, ∀ ip, c.ip = .ok ip → ∃ base p, r.network = some (base, p) ∧
          (fromTo base p).1 ≤ ip.toNat ∧ ip.toNat ≤ (fromTo base p).2
  distinctMac : clients.Pairwise fun c₁ c₂ => c₁.mac ≠ c₂.mac
  distinctIp : clients.Pairwise fun c₁ c₂ => ∀ ip, c₁.ip = .ok ip → c₂.ip ≠ .ok ip
  selfInside : ∀ s, r.selfIp = some s → ∃ base p, r.network = some (base, p) ∧
          (fromTo base p).1 ≤ s.toNat ∧ s.toNat ≤ (fromTo base p).2
  selfFree : ∀ c ∈ clients, ∀ ip, c.ip = .ok ip → r.selfIp ≠ some ip ∧ c.mac ≠ some r.selfMac

end PsaDhcp.Spec
