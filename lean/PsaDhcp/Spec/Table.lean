import PsaDhcp.Model.Clients
import PsaDhcp.Model.Ipdb
/-
Specification side of C11: a reference table with at most one binding per address and per
client.  Expired non-permanent bindings are invisible and replaceable; permanent ones never go.
No keys, no pointers, no lazy deletion.
-/
namespace PsaDhcp.Spec
open PsaDhcp

structure Binding where
  ip : Nat
  duid : Duid
  exp : Int
  perm : Bool
deriving DecidableEq, Repr

abbrev Table := List Binding

def Binding.live (b : Binding) (t : Int) : Bool := b.perm || decide (t ≤ b.exp)

namespace Table

/-- The live binding of an address / of a client at time `t`, if any. -/
def liveIp (T : Table) (t : Int) (a : Nat) : Option Binding := T.find? fun b => b.ip = a && b.live t
def liveDuid (T : Table) (t : Int) (d : Duid) : Option Binding := T.find? fun b => b.duid = d && b.live t

/-- At most one binding per address and per client among those live at `t`. -/
def Exclusive (T : Table) (t : Int) : Prop :=
  ∀ b₁ ∈ T, ∀ b₂ ∈ T, b₁.live t = true → b₂.live t = true → (b₁.ip = b₂.ip ∨ b₁.duid = b₂.duid) → b₁ = b₂

/-- Create a binding where neither the address nor the client is bound. Dead bindings of either
are replaced. -/
def inject (T : Table) (t : Int) (a : Nat) (d : Duid) (exp : Int) (perm : Bool) : Table × Clients.Res :=
  if (T.liveIp t a).isSome then (T, .ipExists)
  else if (T.liveDuid t d).isSome then (T, .duidExists)
  else (⟨a, d, exp, perm⟩ :: T.filter (fun b => b.live t), .ok)

/-- Change the expiry of the caller's own live binding. -/
def setLease (T : Table) (t : Int) (a : Nat) (d : Duid) (exp : Int) : Table × Clients.Res :=
  match T.liveIp t a, T.liveDuid t d with
  | none, _ => (T, .noIp)
  | some _, none => (T, .noDuid)
  | some x, some y =>
    if x = y then (T.map (fun b => if b = x then { b with exp := exp } else b), .ok) else (T, .mismatch)

def step (T : Table) (t : Int) : COp → Table × CRes
  | .lookup a d =>
    let x := T.liveIp t a
    let y := T.liveDuid t d
    (T, .found (x.map (·.ip)) (y.map (·.ip)) (x.isSome && x == y))
  | .inject a d exp => let r := T.inject t a d exp false; (r.1, .res r.2)
  | .injectPermanent a d => let r := T.inject t a d 0 true; (r.1, .res r.2)
  | .setLease a d exp => let r := T.setLease t a d exp; (r.1, .res r.2)
  | .expire a d => let r := T.setLease t a d 0; (r.1, .res r.2)

/-- The reference table as a store for the `ipdb.go` program text. -/
def lookupRes (T : Table) (t : Int) (a : Nat) (d : Duid) : Table × LookupRes :=
  let x := T.liveIp t a
  let y := T.liveDuid t d
  (T, { byIp := x.map (·.ip), byDuid := y.map (·.ip), same := x.isSome && x == y, ipExp := x.map (·.exp) })

def run : Table → List (Int × COp) → List CRes
  | _, [] => []
  | T, (t, op) :: rest => let r := T.step t op; r.2 :: run r.1 rest

end Table

def tableStore : Store Table :=
  { lookup := Table.lookupRes
    inject := fun T t a d exp perm => T.inject t a d exp perm
    setLease := fun T t a d exp => T.setLease t a d exp }

/-- Clock readings never decrease along an operation sequence (Go's monotonic clock). -/
def Monotone : List (Int × COp) → Prop
  | [] => True
  | [_] => True
  | (t₁, _) :: (t₂, o₂) :: rest => t₁ ≤ t₂ ∧ Monotone ((t₂, o₂) :: rest)

end PsaDhcp.Spec

namespace PsaDhcp.Spec

/-- The table after each operation of a run, paired with that operation's clock. -/
def Table.states : Table → List (Int × COp) → List (Int × Table)
  | _, [] => []
  | T, (t, op) :: rest => let r := T.step t op; (t, r.1) :: Table.states r.1 rest

end PsaDhcp.Spec
