import PsaDhcp.Model.Bytes
import PsaDhcp.Model.Wire
/-
Specification side of C13: RFC 1071 / RFC 768 / RFC 791 verification, on unbounded naturals,
written independently of the `uint32` accumulation of the implementation.
-/
namespace PsaDhcp.Spec
open PsaDhcp

/-- Sum of big-endian 16-bit words; an odd trailing byte is padded on the right with zero. -/
def sum16 : Bytes → Nat
  | a :: b :: r => a.toNat * 256 + b.toNat + sum16 r
  | [a] => a.toNat * 256
  | [] => 0

/-- A ones-complement sum verifies when its end-around-carry fold is `0xFFFF`. -/
def Verifies (s : Nat) : Prop := fold s = 0xFFFF

/-- RFC 791: the header checksum verifies over the first 20 bytes (IHL = 5). -/
def IpHeaderVerifies (pkt : Bytes) : Prop := Verifies (sum16 (pkt.take 20))

/-- RFC 768 pseudo header sum: source, destination, zero/protocol, UDP length. -/
def pseudoSum (src dst : Ip4) (proto : UInt8) (udpLen : Nat) : Nat :=
  sum16 src.bytes + sum16 dst.bytes + proto.toNat + udpLen

/-- RFC 768: pseudo header + UDP header + data verifies. -/
def UdpVerifies (src dst : Ip4) (proto : UInt8) (seg : Bytes) : Prop :=
  Verifies (pseudoSum src dst proto seg.length + sum16 seg)

end PsaDhcp.Spec
