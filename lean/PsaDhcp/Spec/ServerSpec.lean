import PsaDhcp.Model.System
import PsaDhcp.Spec.Table
/-
Specification vocabulary for the server properties (C01–C10): reachable system states over the
reference table, what a well-formed DISCOVER is, the property's gloss of "client".
-/
namespace PsaDhcp.Spec
open PsaDhcp

/-- A configuration as `server.New` accepts it, started at clock `t0`. -/
structure Boot where
  base : Nat
  p : Nat
  dyn : Option (Ip4 × Ip4)
  staticOnly : Bool
  t0 : Int

/-- The dynamic range a boot configuration yields. -/
def Boot.dynRange (b : Boot) : Nat × Nat :=
  if b.staticOnly then (0, 0) else match b.dyn with
    | some (x, y) => (x.toNat, y.toNat)
    | none => fromTo b.base b.p

/-- `rand.Perm(n)` yields values below `n = 1 + dynTo - dynFrom` (trusted standard library). -/
def Ev.PermOk (lo hi : Nat) : Ev → Prop
  | .find _ _ perm _ _ => ∀ v ∈ perm, v ≤ hi - lo
  | _ => True

/-- `sys` is reached from a freshly started server by some interleaving of packet arrivals and
handler steps with non-decreasing clocks. -/
def Reachable {σ : Type} (S : Store σ) (empty : σ) (c : SrvCfg) (b : Boot) (evs : List Ev) (sys : Sys σ) : Prop :=
  b.base < 4294967296 ∧ b.p ≤ 32 ∧
  ∃ db0, serverInit S empty c b.base b.p b.dyn b.staticOnly b.t0 = some db0 ∧ EvMonotone evs ∧
    (∀ e ∈ evs.head?, b.t0 ≤ e.t) ∧ (∀ e ∈ evs, Ev.PermOk b.dynRange.1 b.dynRange.2 e) ∧
    sys = Sys.run S c { db := db0 } evs

/-- Reachable over the reference table. -/
abbrev ReachableT (c : SrvCfg) (b : Boot) (evs : List Ev) (sys : Sys Table) : Prop :=
  Reachable tableStore ([] : Table) c b evs sys

/-- The static address configured for a hardware address, if any. -/
def staticOf (c : SrvCfg) (mac : Bytes) : Option Ip4 := (c.overrides.find? (·.mac = mac)).bind (·.ip)

/-- A well-formed broadcast DISCOVER (C03): IP destination broadcast, no server identifier, not
the server's own hardware address, not asking for the server's own address. -/
def WellFormedDiscover (c : SrvCfg) (rx : Rx) : Prop :=
  let o := decodeOptions rx.msg.options
  o.messageType = 1 ∧ rx.dst = Ip4.bcast ∧ o.serverIdentifier = none ∧ rx.msg.chaddr ≠ c.selfMac ∧
    o.requestedIP ≠ some c.selfIp

/-- The clocks of a sequential handler run are non-decreasing and not before `t`. -/
def HOracle.ClockOk (o : HOracle) (t : Int) : Prop :=
  t ≤ o.t0 ∧ o.t0 ≤ o.t1 ∧ o.t1 ≤ (o.iters 0).now ∧ (∀ i, (o.iters i).now ≤ (o.iters (i + 1)).now) ∧
    (∀ i, (o.iters i).now ≤ o.t2) ∧ o.t1 ≤ o.t2

/-- Last clock of a system state's database calls (or the boot clock). -/
def lastClock (b : Boot) (evs : List Ev) : Int :=
  match evs.getLast? with
  | some e => e.tEnd
  | none => b.t0

end PsaDhcp.Spec
