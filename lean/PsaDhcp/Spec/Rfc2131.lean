import PsaDhcp.Model.Bytes
import PsaDhcp.Model.Dhcp
/-
Specification side of C12: the RFC 2131 fixed layout and the RFC 2132 option-area grammar,
written independently of the cursor walk in `Decode`.
-/
namespace PsaDhcp.Spec
open PsaDhcp

/-- Option area grammar: pads, code/length/value triples, then an End option on an option
boundary followed by anything. -/
inductive Area : Bytes → List Opt → Prop
  | fin (rest : Bytes) : Area (0xff :: rest) []
  | pad {r os} : Area r os → Area (0 :: r) os
  | tlv {o l : UInt8} {data r os} : o ≠ 0 → o ≠ 0xff → data.length = l.toNat → Area r os →
      Area (o :: l :: (data ++ r)) (⟨o, data⟩ :: os)

/-- The fixed fields of `m` sit at the RFC 2131 offsets of `b` (|b| ≥ 240). -/
structure FixedAt (b : Bytes) (m : Msg) : Prop where
  op : b[0]? = some m.op
  htype : b[1]? = some m.htype
  hlen : ∃ h, b[2]? = some h ∧ m.chaddr = copyInto h.toNat (b.drop 28)
  hops : b[3]? = some m.hops
  xid : m.xid = be32 (b.drop 4)
  secs : m.secs = be16 (b.drop 8)
  flags : m.flags = be16 (b.drop 10)
  ciaddr : m.ciaddr = Ip4.ofBytes? ((b.drop 12).take 4)
  yiaddr : m.yiaddr = Ip4.ofBytes? ((b.drop 16).take 4)
  siaddr : m.siaddr = Ip4.ofBytes? ((b.drop 20).take 4)
  giaddr : m.giaddr = Ip4.ofBytes? ((b.drop 24).take 4)
  sname : m.sname = (b.drop 44).take 64
  file : m.file = (b.drop 108).take 128
  cookie : m.cookie = be32 (b.drop 236)

/-- Messages representable on the wire (the hypothesis of the round trip). -/
structure Msg.Wf (m : Msg) : Prop where
  xid : m.xid < 4294967296
  secs : m.secs < 65536
  flags : m.flags < 65536
  cookie : m.cookie < 4294967296
  chaddr : m.chaddr.length ≤ 16
  sname : m.sname.length = 64
  file : m.file.length = 128
  nonempty : m.options ≠ []
  opts : ∀ o ∈ m.options, o.code ≠ 0 ∧ o.code ≠ 0xff ∧ o.data.length ≤ 255

/-- What decoding returns for the addresses: Go's `nil` address is written as 0.0.0.0. -/
def normIp (x : Option Ip4) : Option Ip4 := some (x.getD Ip4.zero)

def Msg.norm (m : Msg) : Msg :=
  { m with ciaddr := normIp m.ciaddr, yiaddr := normIp m.yiaddr, siaddr := normIp m.siaddr, giaddr := normIp m.giaddr }

end PsaDhcp.Spec
