import PsaDhcp.Model.Wire
import PsaDhcp.Model.Dhcp
/-
M7 — the client: `lib/client/verify`, `lib/client/msgtmpl`, `lib/client/dclient/{netio,dhcpstates,
sysstates,dclient}.go`, `lib/client/filter.go`.
-/
namespace PsaDhcp

/-! ### verify/verifyer.go -/

inductive VState where | failed | passed | isNack
deriving DecidableEq, Repr

/-- `verifyCommon` (lease compared in whole seconds: the option carries whole seconds). -/
def verifyCommon (xid : Nat) (m : Msg) (o : DecodedOptions) : VState :=
  if m.xid ≠ xid then .failed
  else if o.routers.isEmpty ∨ m.yiaddr = none ∨ m.yiaddr = some Ip4.zero ∨ m.yiaddr = some Ip4.bcast then .failed
  else if o.serverIdentifier = none ∨ o.serverIdentifier = some Ip4.zero ∨ o.serverIdentifier = some Ip4.bcast then .failed
  else if o.leaseSecs < 60 then .failed
  else .passed

def verifyOffer (xid : Nat) (m : Msg) (o : DecodedOptions) : VState :=
  if o.messageType ≠ 2 then .failed else verifyCommon xid m o

/-- `verifyGenAck(lm, lopt, xid, vrfysi)`: `offered` = `lm.YourIP`, `chosen` = `lopt.ServerIdentifier`. -/
def verifyGenAck (offered chosen : Option Ip4) (xid : Nat) (vrfysi : Bool) (m : Msg) (o : DecodedOptions) : VState :=
  if o.messageType = 6 then .isNack
  else if o.messageType ≠ 5 then .failed
  else if m.yiaddr ≠ offered then .failed
  else if vrfysi ∧ o.serverIdentifier ≠ chosen then .failed
  else verifyCommon xid m o

/-- What the client is waiting for. -/
inductive Waiting where
  | offer (xid : Nat)
  | selectingAck (offered chosen : Option Ip4) (xid : Nat)
  | renewingAck (offered chosen : Option Ip4) (xid : Nat)
  | rebindingAck (offered chosen : Option Ip4) (xid : Nat)
deriving DecidableEq, Repr

def Waiting.verify : Waiting → Msg → DecodedOptions → VState
  | .offer xid => verifyOffer xid
  | .selectingAck off ch xid => verifyGenAck off ch xid true
  | .renewingAck off ch xid => verifyGenAck off ch xid true
  | .rebindingAck off ch xid => verifyGenAck off ch xid false

/-! ### dclient/netio.go: catchReply, one packet -/

inductive Caught where
  | ignored
  | passed (m : Msg) (o : DecodedOptions)
  | nack (m : Msg) (o : DecodedOptions)
deriving Repr

/-- The body of the `catchReply` loop for one received frame (already truncated to the 4096-byte
buffer by `Read`). -/
def catchOne (mac : Bytes) (w : Waiting) (b : Bytes) : R Caught := do
  match decodeIPv4 b with
  | .error (.reject _) => pure .ignored
  | .error e => throw e
  | .ok v4 =>
    if v4.proto ≠ 0x11 then pure .ignored
    else match decodeUDP v4.data with
      | .error (.reject _) => pure .ignored
      | .error e => throw e
      | .ok udp =>
        if udp.dstPort ≠ 68 then pure .ignored
        else match decode udp.data with
          | .error (.reject _) => pure .ignored
          | .error e => throw e
          | .ok m =>
            if m.chaddr ≠ mac then pure .ignored
            else
              let o := decodeOptions m.options
              match w.verify m o with
              | .passed => pure (.passed m o)
              | .isNack => pure (.nack m o)
              | .failed => pure .ignored

/-- The loop: frames are consumed until one passes or is a NAK; `none` = the context ended first. -/
def catchReply (mac : Bytes) (w : Waiting) : List Bytes → R (Option Caught)
  | [] => pure none
  | b :: rest => do
    match ← catchOne mac w b with
    | .ignored => catchReply mac w rest
    | c => pure (some c)

/-! ### msgtmpl -/

def paramList : Bytes := [1, 3, 51, 54, 6, 15, 26, 58, 59]

/-- `tmpl.request(msgtype, sourceIP, destinationIP, requestedIP, serverIdentifier)` with the IP
identification drawn by the caller. -/
def clientRequest (mac : Bytes) (xid : Nat) (ident : Nat) (msgtype : UInt8) (src dst : Ip4)
    (reqIP sid : Option Ip4) : Bytes :=
  let opts := [optType msgtype, optClientIdentifier mac, optMaxMessageSize 1500, optParametersList paramList]
    ++ (match reqIP with | some r => [optRequestedIP (some r)] | none => [])
    ++ (match sid with | some s => [optServerIdentifier (some s)] | none => [])
  let m : Msg := { op := 1, htype := 1, hops := 0, xid := xid, secs := 0, flags := 0, ciaddr := some src,
                   yiaddr := none, siaddr := none, giaddr := none, chaddr := mac, sname := [], file := [],
                   cookie := 0x63825363, options := opts }
  let u : UDP := { srcPort := 68, dstPort := 67, data := m.assemble }
  let p : IPv4 := { ident := ident, flags := 0, ttl := 64, proto := 0x11, src := some src, dst := some dst, data := u.assemble }
  p.assemble

inductive ReqState where | discover | selecting | renewing | rebinding
deriving DecidableEq, Repr

/-- The four templates.  Returns the packet and, for renewing, the (source, destination) pair
that makes `sendSocket` look up the server's hardware address for a unicast socket. -/
def template (st : ReqState) (mac : Bytes) (xid ident : Nat) (offered server : Ip4) : Bytes × Option (Ip4 × Ip4) :=
  match st with
  | .discover => (clientRequest mac xid ident 1 Ip4.zero Ip4.bcast none none, none)
  | .selecting => (clientRequest mac xid ident 3 Ip4.zero Ip4.bcast (some offered) (some server), none)
  | .renewing => (clientRequest mac xid ident 3 offered server none none, some (offered, server))
  | .rebinding => (clientRequest mac xid ident 3 offered Ip4.bcast none none, none)

/-! ### sendMessage: retransmission spacing -/

def retransBase : Nat := 700000000
def retransBarrier : Nat := 100000000000

/-- `if delay < barrier { delay += rand.Int63() % (1 + delay) }` -/
def nextDelay (delay rnd : Nat) : Nat := if delay < retransBarrier then delay + rnd % (1 + delay) else delay

/-- Waiting times between consecutive transmissions for a stream of random numbers. -/
def delays : Nat → List Nat → List Nat
  | _, [] => []
  | d, r :: rest => nextDelay d r :: delays (nextDelay d r) rest

/-! ### buildNetconfig, filterNetconfig -/

structure Ifconfig where
  mtu : Nat
  router : Option Ip4
  ip : Option Ip4
  netmask : Option Ip4
  dns : List Ip4
  domain : Bytes
  leaseSecs : Nat
deriving DecidableEq, Repr

/-- `net.IP.DefaultMask()` of an IPv4 address. -/
def defaultMask (ip : Ip4) : Ip4 :=
  if ip.a.toNat < 128 then ⟨255, 0, 0, 0⟩ else if ip.a.toNat < 192 then ⟨255, 255, 0, 0⟩ else ⟨255, 255, 255, 0⟩

/-- `IPMask.Size()` ≠ (0,0): the mask is canonical (ones followed by zeros). -/
def canonicalMask (m : Ip4) : Bool :=
  let n := m.toNat
  (List.range 33).any fun k => n = 4294967296 - 2 ^ (32 - k)

/-- `buildNetconfig`; `none` models the out-of-range `Routers[0]` (a panic). -/
def buildNetconfig (m : Msg) (o : DecodedOptions) : Option Ifconfig :=
  match o.routers with
  | [] => none
  | r :: _ =>
    let ip := m.yiaddr
    let mask := match o.subnetMask with
      | some sm => if canonicalMask sm then some sm else ip.map defaultMask
      | none => ip.map defaultMask
    some { mtu := o.interfaceMTU, router := some r, ip := ip, netmask := mask, dns := o.dns, domain := o.domainName,
           leaseSecs := o.leaseSecs }

/-- `filterNetconfig` -/
def filterNetconfig (configureRoute : Bool) (c : Ifconfig) : Ifconfig :=
  if configureRoute then c else { c with router := none }

/-! ### runStateBound: T1 / T2 / expiry (nanoseconds after `now`) -/

/-- `time.Duration(float64(d) * 0.5)` for `d` = whole seconds in ns: exact. -/
def halfOf (leaseNs : Nat) : Nat := leaseNs / 2

/-- Round a natural number to 53 significant bits, ties to even (IEEE-754 binary64). -/
def round53 (q : Nat) : Nat :=
  let bits := Nat.log2 q + 1
  if bits ≤ 53 then q
  else
    let e := bits - 53
    let unit := 2 ^ e
    let lo := q / unit
    let rem := q % unit
    let half := unit / 2
    let up := if rem > half then true else if rem < half then false else lo % 2 = 1
    (if up then lo + 1 else lo) * unit

/-- `time.Duration(float64(d) * 0.875)` for `d` = whole seconds in nanoseconds: `float64(d)` is exact
(d = secs·5⁹·2⁹ with secs·5⁹ < 2⁵³), the product `d·7/8` is an integer and is rounded to 53
significant bits. -/
def sevenEighths (leaseNs : Nat) : Nat := round53 (leaseNs * 7 / 8)

structure Deadlines where
  t1 : Nat
  t2 : Nat
  tx : Nat
deriving DecidableEq, Repr

def boundDeadlines (o : DecodedOptions) : Deadlines :=
  let l := o.leaseSecs * 1000000000
  let r := o.renewalSecs * 1000000000
  let b := o.rebindSecs * 1000000000
  if r > 60000000000 ∧ b > r ∧ b < l then { t1 := r, t2 := b, tx := l }
  else { t1 := halfOf l, t2 := sevenEighths l, tx := l }

end PsaDhcp
