import PsaDhcp.Model.Bytes
/-
M2 — IPv4 / UDP / ARP codecs and the checksum routines of `lib/layer`.
The `uint32` accumulator of `ipv4csum` is explicit (`% 2^32`).
-/
namespace PsaDhcp

/-! ### checksum.go -/

/-- The accumulation loop of `ipv4csum` with Go's `uint32` wrap-around. -/
def accWords : Bytes → Nat → Nat
  | a :: b :: r, acc => accWords r (((acc + a.toNat * 256) % 4294967296 + b.toNat) % 4294967296)
  | [a], acc => (acc + a.toNat * 256) % 4294967296
  | [], acc => acc

/-- `for acc > 0xFFFF { acc = (acc >> 16) + uint32(uint16(acc)) }` -/
def fold (acc : Nat) : Nat :=
  if _h : acc > 0xFFFF then fold (acc / 65536 + acc % 65536) else acc
termination_by acc
decreasing_by omega

/-- `ipv4csum(b, acc)`: returns `^uint16(acc)`. -/
def ipv4csum (b : Bytes) (acc : Nat) : Nat := 0xFFFF - fold (accWords b acc)

/-- `pseudohdrcsum(b)` on the source / destination / protocol of the header. -/
def pseudohdrcsum (proto : UInt8) (src dst : Ip4) : Nat :=
  proto.toNat + (src.a.toNat + src.c.toNat) * 256 + (src.b.toNat + src.d.toNat)
    + (dst.a.toNat + dst.c.toNat) * 256 + (dst.b.toNat + dst.d.toNat)

/-- `udp4csum(hlen, b)` where `seg = b[hlen:]`. -/
def udp4csum (proto : UInt8) (src dst : Ip4) (seg : Bytes) : Nat :=
  let length := seg.length % 4294967296
  let csum := (pseudohdrcsum proto src dst + length % 65536) % 4294967296
  let csum := (csum + length / 65536) % 4294967296
  ipv4csum seg csum

/-! ### udp.go -/

structure UDP where
  srcPort : Nat
  dstPort : Nat
  data : Bytes
deriving DecidableEq, Repr

def UDP.assemble (u : UDP) : Bytes :=
  put16 u.srcPort ++ put16 u.dstPort ++ put16 (8 + u.data.length) ++ [0, 0] ++ u.data

def decodeUDP (b : Bytes) : R UDP := do
  if b.length < 8 then throw (.reject "short udp")
  let tlen ← be16At b 4 "udp.go:34"
  if tlen ≠ b.length then throw (.reject "truncated udp")
  let sp ← be16At b 0 "udp.go:40"
  let dp ← be16At b 2 "udp.go:41"
  let d ← slice b 8 b.length "udp.go:42"
  pure { srcPort := sp, dstPort := dp, data := d }

/-! ### ip.go -/

structure IPv4 where
  ident : Nat
  flags : Nat
  ttl : UInt8
  proto : UInt8
  csum : Nat := 0
  src : Option Ip4
  dst : Option Ip4
  data : Bytes
deriving DecidableEq, Repr

def optIp (x : Option Ip4) : Ip4 := x.getD Ip4.zero

/-- First ten header bytes (up to the checksum field). -/
def IPv4.pre (h : IPv4) : Bytes :=
  [0x45, 0x00] ++ put16 (20 + h.data.length) ++ put16 h.ident ++ put16 h.flags ++ [h.ttl, h.proto]

def IPv4.post (h : IPv4) : Bytes := optIpBytes h.src ++ optIpBytes h.dst

/-- `setV4Checksum` on the UDP part: when protocol is UDP and at least eight data bytes exist the
two bytes at offset 6 of the data are overwritten by the UDP checksum (computed over the data as
given). -/
def IPv4.dataWithCsum (h : IPv4) : Bytes :=
  if h.proto = 0x11 ∧ 8 ≤ h.data.length then
    h.data.take 6 ++ put16 (udp4csum h.proto (optIp h.src) (optIp h.dst) h.data) ++ h.data.drop 8
  else h.data

def IPv4.assemble (h : IPv4) : Bytes :=
  h.pre ++ put16 (ipv4csum (h.pre ++ [0, 0] ++ h.post) 0) ++ h.post ++ h.dataWithCsum

def decodeIPv4 (b : Bytes) : R IPv4 := do
  if b.length < 20 then throw (.reject "short ipv4")
  let b0 ← idx b 0 "ip.go:59"
  let version := b0.toNat / 16
  let ihl := (b0.toNat % 16 * 4) % 256
  if version ≠ 4 ∨ b.length < ihl ∨ ihl < 20 then throw (.reject "invalid packet")
  let tlen ← be16At b 2 "ip.go:65"
  if tlen ≠ b.length then throw (.reject "truncated packet")
  let ident ← be16At b 4 "ip.go:71"
  let flags ← be16At b 6 "ip.go:72"
  let ttl ← idx b 8 "ip.go:73"
  let proto ← idx b 9 "ip.go:74"
  let csum ← be16At b 10 "ip.go:75"
  let s0 ← idx b 12 "ip.go:76"
  let s1 ← idx b 13 "ip.go:76"
  let s2 ← idx b 14 "ip.go:76"
  let s3 ← idx b 15 "ip.go:76"
  let d0 ← idx b 16 "ip.go:77"
  let d1 ← idx b 17 "ip.go:77"
  let d2 ← idx b 18 "ip.go:77"
  let d3 ← idx b 19 "ip.go:77"
  let data ← slice b ihl tlen "ip.go:78"
  pure { ident := ident, flags := flags, ttl := ttl, proto := proto, csum := csum,
         src := some ⟨s0, s1, s2, s3⟩, dst := some ⟨d0, d1, d2, d3⟩, data := data }

/-! ### arp.go -/

structure ARP where
  senderMAC : Bytes
  senderIP : Option Ip4
  targetMAC : Bytes
  targetIP : Option Ip4
  opcode : UInt8
deriving DecidableEq, Repr

/-- `copy(b[off:], src)` inside a buffer: writes `min(len src, room)` bytes. -/
def overlay (buf : Bytes) (off : Nat) (src : Bytes) : Bytes :=
  buf.take off ++ src.take (buf.length - off) ++ buf.drop (off + (src.take (buf.length - off)).length)

def ARP.assemble (u : ARP) : Bytes :=
  let b : Bytes := [0x00, 0x01, 0x08, 0x00, 0x06, 0x04, 0x00, u.opcode] ++ List.replicate 20 0
  let b := overlay b 8 u.senderMAC
  let b := match u.senderIP with | some i => overlay b 14 i.bytes | none => b
  let b := overlay b 18 u.targetMAC
  match u.targetIP with | some i => overlay b 24 i.bytes | none => b

def decodeARP (b : Bytes) : R ARP := do
  if b.length ≠ 28 then throw (.reject "short arp")
  let op ← idx b 7 "arp.go:44"
  let sm ← slice b 8 14 "arp.go:45"
  let s0 ← idx b 14 "arp.go:46"
  let s1 ← idx b 15 "arp.go:46"
  let s2 ← idx b 16 "arp.go:46"
  let s3 ← idx b 17 "arp.go:46"
  let tm ← slice b 18 24 "arp.go:47"
  let t0 ← idx b 24 "arp.go:48"
  let t1 ← idx b 25 "arp.go:48"
  let t2 ← idx b 26 "arp.go:48"
  let t3 ← idx b 27 "arp.go:48"
  pure { senderMAC := sm, senderIP := some ⟨s0, s1, s2, s3⟩, targetMAC := tm,
         targetIP := some ⟨t0, t1, t2, t3⟩, opcode := op }

end PsaDhcp
