import PsaDhcp.Model.System
/-
M6 — configuration: `leaseopts.ParseConfig`, `leaseopts.SetClientOverrides`, `server.New`.
String parsing (`net.ParseCIDR`, `net.ParseIP`, `net.ParseMAC`, `time.ParseDuration`, the text
proto) is trusted standard library: the model receives, per field, "empty", "unparsable" or the
parsed value, exactly as the harness obtains them with the same functions.
-/
namespace PsaDhcp

/-- One address-valued string of the configuration. -/
inductive Ent where
  | empty                -- ""
  | bad                  -- not an IPv4 address (unparsable, or IPv6)
  | ok (ip : Ip4)
deriving DecidableEq, Repr

/-- `leaseopts.ipv4(list...)` -/
def ipv4List (l : List Ent) : Option (List Ip4) :=
  if l = [.empty] then some []
  else l.mapM fun e => match e with | .ok ip => some ip | _ => none

structure RawClient where
  mac : Option Bytes          -- `net.ParseMAC(key)`
  ip : Ent
  router : Ent
  dns : List Ent
  ntp : List Ent
  hostname : Bytes
deriving DecidableEq, Repr

inductive RawDyn where
  | absent                    -- ""
  | badFormat                 -- not exactly one '-'
  | badIp                     -- a side does not parse
  | range (a b : Ip4)
deriving DecidableEq, Repr

structure RawCfg where
  selfIp : Option Ip4         -- `libif.InterfaceAddr`
  selfMac : Bytes
  network : Option (Nat × Nat)  -- `net.ParseCIDR` → (base, prefix length) of an IPv4 network
  lease : Option Int          -- `time.ParseDuration`, nanoseconds
  router : Ent
  dns : List Ent
  ntp : List Ent
  domain : Bytes
  dyn : RawDyn
  staticOnly : Bool
deriving DecidableEq, Repr

inductive CfgErr where
  | noSelfAddr | badNetwork | badLease | shortLease | badAddress | unrepresentable | badDynFormat | badDynIp
  | dynOutside | badMac | badClientAddress | clientUnrepresentable | staticRejected | duplicateClient | selfOutside
deriving DecidableEq, Repr

/-- The merged lease options of `leaseopts.LeaseOptions` that matter. -/
structure LOpts where
  ip : Option Ip4 := none
  domain : Bytes := []
  hostname : Bytes := []
  router : Option Ip4 := none
  dns : List Ip4 := []
  ntp : List Ip4 := []
  leaseNs : Int := 0
deriving DecidableEq, Repr

/-- `representable`: every option fits in 255 bytes, the lease in a uint32 of seconds. -/
def LOpts.representable (o : LOpts) : Bool :=
  o.domain.length ≤ 255 && o.hostname.length ≤ 255 && o.dns.length * 4 ≤ 255 && o.ntp.length * 4 ≤ 255 &&
    decide (o.leaseNs / 1000000000 ≤ 4294967295)

def entOpt (e : Ent) : Option (Option Ip4) :=
  match ipv4List [e] with
  | some [x] => some (some x)
  | some _ => some none
  | none => none

/-- `ParseConfig` (global section). -/
def parseConfig (r : RawCfg) : Except CfgErr (LOpts × Nat × Nat) := do
  let (base, p) ← match r.network with | some x => pure x | none => throw .badNetwork
  let lease ← match r.lease with | some l => pure l | none => throw .badLease
  if lease < 60000000000 then throw .shortLease
  let router ← match entOpt r.router with | some x => pure x | none => throw .badAddress
  let dns ← match ipv4List r.dns with | some x => pure x | none => throw .badAddress
  let ntp ← match ipv4List r.ntp with | some x => pure x | none => throw .badAddress
  let o : LOpts := { domain := r.domain, router := router, dns := dns, ntp := ntp, leaseNs := lease }
  if ¬ o.representable then throw .unrepresentable
  pure (o, base, p)

/-- `SetClientOverrides` -/
def setClientOverrides (orig : LOpts) (c : RawClient) : Except CfgErr LOpts := do
  let ip ← match entOpt c.ip with | some x => pure x | none => throw .badClientAddress
  let router ← match entOpt c.router with | some x => pure x | none => throw .badClientAddress
  let dns ← match ipv4List c.dns with | some x => pure x | none => throw .badClientAddress
  let ntp ← match ipv4List c.ntp with | some x => pure x | none => throw .badClientAddress
  let o : LOpts := { orig with
    ip := (match ip with | some i => some i | none => orig.ip),
    router := (match router with | some i => some i | none => orig.router),
    dns := (if dns.isEmpty then orig.dns else dns),
    ntp := (if ntp.isEmpty then orig.ntp else ntp),
    hostname := (if c.hostname.isEmpty then orig.hostname else c.hostname) }
  if ¬ o.representable then throw .clientUnrepresentable
  pure o

/-- A started server: the handler configuration and the database. -/
structure Started (σ : Type) where
  cfg : SrvCfg
  db : IPDB σ
  merged : List (Bytes × LOpts)     -- the `overrides` map: hardware address ↦ merged options

def maskOf (p : Nat) : Bytes := (Ip4.ofNat (4294967296 - 2 ^ (32 - p))).bytes

/-- `server.New`, with the client entries visited in the given order (Go map iteration order). -/
def newServer {σ : Type} (S : Store σ) (empty : σ) (r : RawCfg) (clients : List RawClient) (t : Int) : Except CfgErr (Started σ) := do
  let selfIp ← match r.selfIp with | some x => pure x | none => throw .noSelfAddr
  let (lo, base, p) ← parseConfig r
  let db : IPDB σ := IPDB.new empty base p
  let db ← match r.dyn with
    | .absent => pure db
    | .badFormat => throw .badDynFormat
    | .badIp => throw .badDynIp
    | .range a b => match db.setDynamicRange (some a) (some b) with
      | (db', .ok _) => pure db'
      | (_, .error _) => throw .dynOutside
  let db := if r.staticOnly then db.disableDynamic else db
  let step := fun (acc : Except CfgErr (IPDB σ × List (Bytes × LOpts))) (c : RawClient) => do
    let (db, ovs) ← acc
    let mac ← match c.mac with | some m => pure m | none => throw .badMac
    let oo ← setClientOverrides lo c
    let db ← match oo.ip with
      | none => pure db
      | some ip => match db.addPermanent S t (some ip) (sduid mac) with
        | (db', .ok _) => pure db'
        | (_, .error _) => throw .staticRejected
    if ovs.any (·.1 = mac) then throw .duplicateClient
    pure (db, ovs ++ [(mac, oo)])
  let (db, ovs) ← clients.foldl step (pure (db, []))
  let db ← match db.addPermanent S t (some selfIp) (sduid r.selfMac) with
    | (db', .ok _) => pure db'
    | (_, .error _) => throw .selfOutside
  let cfg : SrvCfg := { selfIp := selfIp, selfMac := r.selfMac, leaseNs := lo.leaseNs, mask := maskOf p, router := lo.router,
                        dns := lo.dns, ntp := lo.ntp, domain := lo.domain,
                        overrides := ovs.map fun (m, o) =>
                          { mac := m, ip := o.ip, router := o.router, dns := o.dns, ntp := o.ntp, hostname := o.hostname } }
  pure { cfg := cfg, db := db, merged := ovs }

end PsaDhcp
