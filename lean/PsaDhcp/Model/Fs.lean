import PsaDhcp.Model.Bytes
/-
M9 — `resolvconf.update`: temp file in /etc, write, close, chmod 0644, rename over
/etc/resolv.conf, deferred removal of the temp file on error.  The file system is an abstract
machine: a directory of whole files; `rename(2)` is atomic; `O_EXCL` gives every writer its own
fresh temp name (kernel assumptions, stated in the trusted base).  Any number of writers, any
scheduler, a failure at any step, short writes, kills anywhere.
-/
namespace PsaDhcp

structure File where
  content : Bytes
  mode : Nat
deriving DecidableEq, Repr

/-- Program counter of one writer (one invocation of `update(buf)`). -/
inductive Pc where
  | create | write | close | check | chmod | rename
  | cleanup          -- error path: the deferred `os.Remove(name)`
  | doneOk | doneErr | killed
deriving DecidableEq, Repr

structure Writer where
  buf : Bytes
  pc : Pc := .create
  tmp : Option Nat := none       -- index of its temp file
  nr : Nat := 0                  -- bytes written
  werr : Bool := false
  cerr : Bool := false
deriving DecidableEq, Repr

structure FS where
  target : Option File           -- /etc/resolv.conf
  tmps : List (Option File)      -- temp files ever created (none = removed); index = name
  ws : List Writer
deriving DecidableEq, Repr

/-- What the environment decides for one step of one writer. -/
structure Choice where
  fail : Bool := false           -- the system call of this step fails
  short : Nat := 0               -- a failing / short write still transfers this many bytes
deriving DecidableEq, Repr

inductive Act where
  | step (w : Nat) (c : Choice)
  | kill (w : Nat)
deriving DecidableEq, Repr

def setTmp (fs : FS) (i : Nat) (f : Option File) : FS := { fs with tmps := fs.tmps.set i f }
def setW (fs : FS) (i : Nat) (w : Writer) : FS := { fs with ws := fs.ws.set i w }

/-- One step of writer `i`. -/
def stepWriter (fs : FS) (i : Nat) (w : Writer) (c : Choice) : FS :=
  match w.pc with
  | .create =>
    if c.fail then setW fs i { w with pc := .doneErr }          -- TempFile failed: nothing to clean up
    else
      let name := fs.tmps.length                                 -- O_EXCL: a fresh name
      setW { fs with tmps := fs.tmps ++ [some ⟨[], 0o600⟩] } i { w with pc := .write, tmp := some name }
  | .write =>
    match w.tmp with
    | none => fs
    | some t =>
      let n := if c.fail then min c.short w.buf.length else w.buf.length
      let n := if ¬ c.fail ∧ c.short > 0 then min c.short w.buf.length else n    -- short write without error
      let mode := match fs.tmps[t]? with | some (some f) => f.mode | _ => 0o600
      setW (setTmp fs t (some ⟨w.buf.take n, mode⟩)) i { w with pc := .close, nr := n, werr := c.fail }
  | .close => setW fs i { w with pc := .check, cerr := c.fail }
  | .check =>
    if w.werr ∨ w.cerr ∨ w.nr ≠ w.buf.length then setW fs i { w with pc := .cleanup }
    else setW fs i { w with pc := .chmod }
  | .chmod =>
    match w.tmp with
    | none => fs
    | some t =>
      if c.fail then setW fs i { w with pc := .cleanup }
      else
        let f := match fs.tmps[t]? with | some (some f) => some { f with mode := 0o644 } | _ => none
        setW (setTmp fs t f) i { w with pc := .rename }
  | .rename =>
    match w.tmp with
    | none => fs
    | some t =>
      if c.fail then setW fs i { w with pc := .cleanup }
      else
        match fs.tmps[t]? with
        | some (some f) => setW { (setTmp fs t none) with target := some f } i { w with pc := .doneOk }   -- atomic
        | _ => setW fs i { w with pc := .cleanup }
  | .cleanup =>
    match w.tmp with
    | none => setW fs i { w with pc := .doneErr }
    | some t => setW (setTmp fs t none) i { w with pc := .doneErr }
  | .doneOk | .doneErr | .killed => fs

def act (fs : FS) : Act → FS
  | .step i c => match fs.ws[i]? with | some w => stepWriter fs i w c | none => fs
  | .kill i => match fs.ws[i]? with
    | some w => if w.pc = .doneOk ∨ w.pc = .doneErr then fs else setW fs i { w with pc := .killed }
    | none => fs

def runFs (fs : FS) (as : List Act) : FS := as.foldl act fs

/-- Start: the previous file and the writers about to run. -/
def fsInit (old : Option File) (bufs : List Bytes) : FS :=
  { target := old, tmps := [], ws := bufs.map fun b => { buf := b } }

end PsaDhcp
