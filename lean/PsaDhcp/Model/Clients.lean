import PsaDhcp.Model.Bytes
/-
M4a — `lib/server/ipdb/clients/clients.go`.

Go state: `map[string]*client` with two keys per record (`uip(..)` and `<duid:..>`).
Model: an append-only list of records (the heap; a pointer is an index) and a total function
from keys to indices.  `Lookup` deletes the *single* expired key it touched, exactly as the code.
Time is `Int` nanoseconds since the Unix epoch (`time.Unix(0,0)` = 0).
-/
namespace PsaDhcp

/-- Client identity as the database sees it (`duid.Duid`, a byte string; nil and empty coincide,
both print as `<duid:nil>`). -/
abbrev Duid := Bytes

structure Entry where
  ip : Nat
  duid : Duid
  exp : Int
  perm : Bool
deriving DecidableEq, Repr

/-- Map keys: `Uip.String()` is injective on addresses, `Duid.String()` on byte strings, and the
two families are disjoint (`uip(` vs `<duid:`). -/
inductive Key where
  | ip (a : Nat)
  | duid (d : Duid)
deriving DecidableEq, Repr

structure Clients where
  ents : List Entry
  m : Key → Option Nat

namespace Clients

def empty : Clients := ⟨[], fun _ => none⟩

def del (m : Key → Option Nat) (k : Key) : Key → Option Nat := fun k' => if k' = k then none else m k'
def put (m : Key → Option Nat) (k : Key) (v : Nat) : Key → Option Nat := fun k' => if k' = k then some v else m k'

/-- `!p.permanent && now.After(p.leasedUntil)` negated. -/
def Entry.live (e : Entry) (now : Int) : Bool := e.perm || decide (now ≤ e.exp)

/-- One iteration of the loop in `Lookup`: look at key `k`; an expired record is unlinked from
that key only. -/
def look1 (c : Clients) (now : Int) (k : Key) : Clients × Option Nat :=
  match c.m k with
  | none => (c, none)
  | some p =>
    match c.ents[p]? with
    | none => (c, none)
    | some e => if Entry.live e now then (c, some p) else ({ c with m := del c.m k }, none)

/-- `Lookup(now, ip, duid)`: first the address key, then the identity key. -/
def lookup (c : Clients) (now : Int) (ip : Nat) (d : Duid) : Clients × Option Nat × Option Nat :=
  let r1 := look1 c now (.ip ip)
  let r2 := look1 r1.1 now (.duid d)
  (r2.1, r1.2, r2.2)

inductive Res where
  | ok | ipExists | duidExists | noIp | noDuid | mismatch
deriving DecidableEq, Repr

/-- `injectInternal` -/
def inject (c : Clients) (now : Int) (ip : Nat) (d : Duid) (exp : Int) (perm : Bool) : Clients × Res :=
  match lookup c now ip d with
  | (c', some _, _) => (c', .ipExists)
  | (c', none, some _) => (c', .duidExists)
  | (c', none, none) =>
    let p := c'.ents.length
    ({ ents := c'.ents ++ [⟨ip, d, exp, perm⟩], m := put (put c'.m (.ip ip) p) (.duid d) p }, .ok)

/-- `SetLease` -/
def setLease (c : Clients) (now : Int) (ip : Nat) (d : Duid) (exp : Int) : Clients × Res :=
  match lookup c now ip d with
  | (c', none, _) => (c', .noIp)
  | (c', some _, none) => (c', .noDuid)
  | (c', some a, some b) =>
    if a = b then ({ c' with ents := c'.ents.modify a (fun e => { e with exp := exp }) }, .ok)
    else (c', .mismatch)

/-- The address carried by the record a pointer designates (`(*client).Uip()`). -/
def ipOf (c : Clients) (p : Option Nat) : Option Nat := p.bind fun i => (c.ents[i]?).map (·.ip)

end Clients

/-- Operations of the public `Clients` API. -/
inductive COp where
  | lookup (ip : Nat) (d : Duid)
  | inject (ip : Nat) (d : Duid) (exp : Int)
  | injectPermanent (ip : Nat) (d : Duid)
  | setLease (ip : Nat) (d : Duid) (exp : Int)
  | expire (ip : Nat) (d : Duid)
deriving DecidableEq, Repr

/-- Observable results: for `Lookup` the addresses of the two records returned (via `Uip()`) and
whether they are the same record; for the others the error class. -/
inductive CRes where
  | found (byIp : Option Nat) (byDuid : Option Nat) (same : Bool)
  | res (r : Clients.Res)
deriving DecidableEq, Repr

def Clients.step (c : Clients) (now : Int) : COp → Clients × CRes
  | .lookup ip d =>
    let r := c.lookup now ip d
    (r.1, .found (r.1.ipOf r.2.1) (r.1.ipOf r.2.2) (r.2.1.isSome && r.2.1 == r.2.2))
  | .inject ip d exp => let r := c.inject now ip d exp false; (r.1, .res r.2)
  | .injectPermanent ip d => let r := c.inject now ip d 0 true; (r.1, .res r.2)
  | .setLease ip d exp => let r := c.setLease now ip d exp; (r.1, .res r.2)
  | .expire ip d => let r := c.setLease now ip d 0; (r.1, .res r.2)

/-- Run a sequence of (clock, operation) pairs, collecting the results. -/
def Clients.run : Clients → List (Int × COp) → List CRes
  | _, [] => []
  | c, (t, op) :: rest => let r := c.step t op; r.2 :: Clients.run r.1 rest

end PsaDhcp
