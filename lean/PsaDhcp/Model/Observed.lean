import PsaDhcp.Model.Server
/-
The FindIP candidate loop driven by *observed* probes.  The harness cannot see `rand.Perm`; it
sees which addresses were ARP-probed, in which order, with which outcome and at which clocks.
`findLoopObs` replays the loop against that observation: a candidate the model finds unbound and
valid must be the next observed probe; skipped candidates consume nothing.  `Proofs/Observed.lean`
shows that an accepted observation is a run of the real `findLoop` for some oracle.
-/
namespace PsaDhcp

/-- An observed probe: address, free?, start and end clock. -/
structure ObsProbe where
  ip : Nat
  ans : Option Bytes      -- first answer's sender MAC, none = three timeouts
  ts : Int
  te : Int
deriving Repr

/-- The candidate loop of `FindIP` against observed probes: a candidate that is unbound and valid
must be the next observed probe; skipped candidates consume nothing. -/
def findLoopObs (dynFrom : Nat) (chaddr : Bytes) (cancelled : Bool) (t0 : Int) : List Nat → List ObsProbe → Int → Clients → Except String (Clients × Option Nat × List ObsProbe × Int)
  | [], obs, tl, s => .ok (s, none, obs, tl)
  | v :: rest, obs, tl, s =>
    let picked := (dynFrom + v) % 4294967296
    let now := match obs with | o :: _ => o.ts | [] => tl
    let r := Clients.lookupRes s now picked []
    if r.2.byIp.isNone && IPDB.validUip picked then
      match obs with
      | [] =>
        if cancelled then .ok (r.1, none, [], tl)
        else if (Clients.lookupRes s t0 picked []).2.byIp.isSome then
          .error s!"AMBIGUOUS binding of {picked} expires inside the search window"
        else .error s!"model probes {picked} but no further probe was observed"
      | o :: obs' =>
        if o.ip ≠ picked then
          if (Clients.lookupRes s t0 picked []).2.byIp.isSome then .error s!"AMBIGUOUS binding of {picked} expires inside the search window"
          else .error s!"model probes {picked}, observed probe of {o.ip}"
        else
          let free : Bool := match o.ans with | none => true | some mac => decide (mac = chaddr)
          if free then .ok (r.1, some picked, obs', o.te) else findLoopObs dynFrom chaddr cancelled t0 rest obs' o.te r.1
    else findLoopObs dynFrom chaddr cancelled t0 rest obs tl r.1

/-- Build a candidate order consistent with the observation: observed addresses first (in order),
then every other address of the range. -/
def synthPerm (dynFrom dynTo : Nat) (obs : List ObsProbe) (skipFirst : Bool) : List Nat :=
  let seen := (if skipFirst then obs.drop 1 else obs).map (·.ip)
  let seenOff := seen.filterMap fun a => if dynFrom ≤ a ∧ a ≤ dynTo then some (a - dynFrom) else none
  let restOff := (List.range (1 + dynTo - dynFrom)).filter fun v => ¬ seen.contains (dynFrom + v)
  seenOff.eraseDups ++ restOff

/-- `FindIP` against observed probes. -/
def findObs (db : IPDB Clients) (now : Int) (sugg : Option Ip4) (d : Duid) (chaddr : Bytes) (obs : List ObsProbe) (cancelled : Bool := false) :
    Except String (IPDB Clients × Except DbErr Nat × Int) :=
  let n := match db.toUip sugg with | .ok n => n | .error _ => 0
  let r := Clients.lookupRes db.s now n d
  match r.2.byDuid with
  | some a => if obs.isEmpty then .ok ({ db with s := r.1 }, .ok a, now) else .error "client already bound but probes were observed"
  | none =>
    if db.dynTo = 0 ∧ db.dynFrom = 0 then
      if obs.isEmpty then .ok ({ db with s := r.1 }, .error .disabled, now) else .error "search disabled but probes were observed"
    else
      let prep : Bool := r.2.byIp.isNone && decide (db.dynFrom ≤ n) && decide (n ≤ db.dynTo)
      let firstIsSugg : Bool := prep && (match obs with | o :: _ => decide (o.ip = n) | [] => false) && IPDB.validUip n
      let perm := synthPerm db.dynFrom db.dynTo obs firstIsSugg
      let p := if prep then (n - db.dynFrom) :: perm else perm
      match findLoopObs db.dynFrom chaddr cancelled now p obs now r.1 with
      | .error e => .error e
      | .ok (s, res, left, tl) =>
        if ¬ left.isEmpty then .error s!"{left.length} observed probes the model does not explain"
        else .ok ({ db with s := s }, (match res with | some a => .ok a | none => .error .noFreeIp), tl)


end PsaDhcp
