/-
M1 — bytes and Go slice partiality.

Go index and slice expressions panic when out of range.  The decoders are modelled in
`Except Err` with *checked* accessors: an out-of-range access yields `Err.panic site`, a
deliberate rejection yields `Err.reject why`.  "Never panics, never reads outside the packet"
is then the theorem that `panic` is unreachable for every input.
-/
namespace PsaDhcp

abbrev Bytes := List UInt8

inductive Err where
  | reject (why : String)
  | panic (site : String)
deriving DecidableEq, Repr

abbrev R := Except Err

-- `Except` has no `DecidableEq` in core; closed examples need one.
deriving instance DecidableEq for Except

/-- `b[i]` -/
def idx (b : Bytes) (i : Nat) (site : String) : R UInt8 :=
  match b[i]? with
  | some x => pure x
  | none => throw (.panic site)

/-- `b[lo:hi]` -/
def slice (b : Bytes) (lo hi : Nat) (site : String) : R Bytes :=
  if lo ≤ hi ∧ hi ≤ b.length then pure ((b.take hi).drop lo) else throw (.panic site)

/-- `binary.BigEndian.Uint16(b[i:])` -/
def be16At (b : Bytes) (i : Nat) (site : String) : R Nat := do
  let h ← idx b i site
  let l ← idx b (i + 1) site
  pure (h.toNat * 256 + l.toNat)

/-- `binary.BigEndian.Uint32(b[i:])` -/
def be32At (b : Bytes) (i : Nat) (site : String) : R Nat := do
  let b0 ← idx b i site
  let b1 ← idx b (i + 1) site
  let b2 ← idx b (i + 2) site
  let b3 ← idx b (i + 3) site
  pure (b0.toNat * 16777216 + b1.toNat * 65536 + b2.toNat * 256 + b3.toNat)

/-- `PutUint16` of a `uint16(n)` conversion: truncates like Go. -/
def put16 (n : Nat) : Bytes := [UInt8.ofNat (n / 256 % 256), UInt8.ofNat (n % 256)]

/-- `PutUint32` of a `uint32(n)` conversion. -/
def put32 (n : Nat) : Bytes :=
  [UInt8.ofNat (n / 16777216 % 256), UInt8.ofNat (n / 65536 % 256),
   UInt8.ofNat (n / 256 % 256), UInt8.ofNat (n % 256)]

def be16 (b : Bytes) : Nat :=
  match b with
  | h :: l :: _ => h.toNat * 256 + l.toNat
  | _ => 0

def be32 (b : Bytes) : Nat :=
  match b with
  | b0 :: b1 :: b2 :: b3 :: _ => b0.toNat * 16777216 + b1.toNat * 65536 + b2.toNat * 256 + b3.toNat
  | _ => 0

/-- Go's `copy(dst, src)` into a zeroed destination of length `n`. -/
def copyInto (n : Nat) (src : Bytes) : Bytes :=
  src.take n ++ List.replicate (n - src.length) 0

/-- An IPv4 address: exactly four bytes. -/
structure Ip4 where
  a : UInt8
  b : UInt8
  c : UInt8
  d : UInt8
deriving DecidableEq, Repr, Inhabited

namespace Ip4
def bytes (x : Ip4) : Bytes := [x.a, x.b, x.c, x.d]
def toNat (x : Ip4) : Nat := x.a.toNat * 16777216 + x.b.toNat * 65536 + x.c.toNat * 256 + x.d.toNat
def ofNat (n : Nat) : Ip4 :=
  ⟨UInt8.ofNat (n / 16777216 % 256), UInt8.ofNat (n / 65536 % 256),
   UInt8.ofNat (n / 256 % 256), UInt8.ofNat (n % 256)⟩
def zero : Ip4 := ⟨0, 0, 0, 0⟩
def bcast : Ip4 := ⟨255, 255, 255, 255⟩
def ofBytes? (b : Bytes) : Option Ip4 :=
  match b with
  | [a, b, c, d] => some ⟨a, b, c, d⟩
  | _ => none
end Ip4

/-- `net.IP` as the encoders see it: `nil` / not-IPv4 leaves the zeroed destination untouched. -/
def optIpBytes (x : Option Ip4) : Bytes :=
  match x with
  | some i => i.bytes
  | none => [0, 0, 0, 0]

end PsaDhcp
