import PsaDhcp.Model.Server
/-
The handler's decision, separated from frame assembly: `handleV` is `handle` with verdicts
instead of frames (`Proofs/Decision.lean: handle_eq_handleV` ties them).
-/
namespace PsaDhcp

inductive Verdict where
  | silent
  | offer (a : Nat)
  | ack (a : Nat)
  | nak
deriving DecidableEq, Repr

def Verdict.frame (c : SrvCfg) (m : Msg) : Verdict → Option Frame
  | .silent => none
  | .offer a => some (leaseFrame c .offer m (Ip4.ofNat a))
  | .ack a => some (leaseFrame c .ack m (Ip4.ofNat a))
  | .nak => some (nakFrame c m)

def handleV {σ : Type} (S : Store σ) (c : SrvCfg) (db : IPDB σ) (rx : Rx) (o : HOracle) : IPDB σ × Verdict :=
  let opts := decodeOptions rx.msg.options
  let g := getDuid S db o.t0 rx.msg.chaddr opts.clientIdentifier
  let db := g.1
  let duid := g.2
  match todo c db rx with
  | .drop => (db, .silent)
  | .discover =>
    let f := db.findIP S o.t1 opts.requestedIP duid o.perm o.iters
    match f.2 with
    | .error _ => (f.1, .silent)
    | .ok a =>
      let u := f.1.updateClient S o.t2 (some (Ip4.ofNat a)) duid offerHoldNs
      match u.2 with
      | .error _ => (u.1, .silent)
      | .ok _ => (u.1, .offer a)
  | .request want =>
    let l := db.lookupByDuid S o.t1 duid
    match l.2 with
    | .error _ => (l.1, .nak)
    | .ok lease =>
      if want.toNat ≠ lease then (l.1, .nak)
      else if ¬ o.probeFree then (l.1, .nak)
      else
        let u := l.1.updateClient S o.t2 (some (Ip4.ofNat lease)) duid c.leaseNs
        match u.2 with
        | .error _ => (u.1, .silent)
        | .ok _ => (u.1, .ack lease)

/-! ### `lib/arpping`: which frame counts as an answer -/

/-- `catchARPReply`: the frames read before the context deadline, each truncated to the 28-byte
read buffer; the first one that decodes and whose *sender* address is the probed address wins. -/
def catchARPReply (target : Ip4) : List Bytes → Option Bytes
  | [] => none
  | f :: rest =>
    match decodeARP (f.take 28) with
    | .ok a => if a.senderIP = some target then some a.senderMAC else catchARPReply target rest
    | .error _ => catchARPReply target rest

/-- The ARP request `sendARPPing` broadcasts. -/
def arpRequest (selfMac : Bytes) (src dst : Ip4) : Bytes :=
  ARP.assemble { opcode := 1, senderMAC := selfMac, senderIP := some src, targetMAC := bcastMac, targetIP := some dst }

end PsaDhcp
