import PsaDhcp.Model.Client
/-
M8 — `lib/client/callback/callback.go` (hook environment) and `lib/resolvconf/resolvconf.go`
(parsing the environment, rendering resolv.conf).  Strings are byte strings; Go's regexp engine
walks them rune by rune with `utf8.DecodeRune` semantics (an invalid byte is U+FFFD of width 1).
-/
namespace PsaDhcp

/-! ### UTF-8 segmentation as in `unicode/utf8` -/

def isCont (b : UInt8) : Bool := 0x80 ≤ b.toNat && b.toNat ≤ 0xBF

/-- Width of the rune starting the byte string, and whether it is a valid encoding. -/
def runeWidth : Bytes → Nat × Bool
  | [] => (0, false)
  | b0 :: rest =>
    let n := b0.toNat
    if n < 0x80 then (1, true)
    else if 0xC2 ≤ n ∧ n ≤ 0xDF then
      match rest with
      | b1 :: _ => if isCont b1 then (2, true) else (1, false)
      | _ => (1, false)
    else if 0xE0 ≤ n ∧ n ≤ 0xEF then
      match rest with
      | b1 :: b2 :: _ =>
        let lo := if n = 0xE0 then 0xA0 else 0x80
        let hi := if n = 0xED then 0x9F else 0xBF
        if lo ≤ b1.toNat ∧ b1.toNat ≤ hi ∧ isCont b2 then (3, true) else (1, false)
      | _ => (1, false)
    else if 0xF0 ≤ n ∧ n ≤ 0xF4 then
      match rest with
      | b1 :: b2 :: b3 :: _ =>
        let lo := if n = 0xF0 then 0x90 else 0x80
        let hi := if n = 0xF4 then 0x8F else 0xBF
        if lo ≤ b1.toNat ∧ b1.toNat ≤ hi ∧ isCont b2 ∧ isCont b3 then (4, true) else (1, false)
      | _ => (1, false)
    else (1, false)

/-! ### character classes of the three regular expressions -/

def isAlnum (b : UInt8) : Bool :=
  (0x61 ≤ b.toNat && b.toNat ≤ 0x7A) || (0x41 ≤ b.toNat && b.toNat ≤ 0x5A) || (0x30 ≤ b.toNat && b.toNat ≤ 0x39)

/-- `[a-zA-Z0-9,\.-]` — what `reBadChars` does NOT match. -/
def envGood (b : UInt8) : Bool := isAlnum b || b = 0x2C || b = 0x2E || b = 0x2D

/-- `[a-zA-Z0-9\.-]` (reGoodChars) -/
def hostChar (b : UInt8) : Bool := isAlnum b || b = 0x2E || b = 0x2D

/-- `[0-9\.]` (reGoodNums) -/
def numChar (b : UInt8) : Bool := (0x30 ≤ b.toNat && b.toNat ≤ 0x39) || b = 0x2E

/-- What every environment value consists of after sanitising. -/
def envSafe (b : UInt8) : Bool := envGood b || b = 0x5F

/-! ### callback.go -/

/-- `reBadChars.ReplaceAllString(val, "_")`: every rune outside the class — including every
invalid byte and every non-ASCII rune — becomes one `_`. -/
def sanitize : (fuel : Nat) → Bytes → Bytes
  | 0, _ => []
  | _, [] => []
  | f + 1, b :: rest =>
    let w := runeWidth (b :: rest)
    if w.1 = 1 ∧ w.2 ∧ envGood b then b :: sanitize f rest
    else 0x5F :: sanitize f ((b :: rest).drop w.1)

def str (s : String) : Bytes := s.toUTF8.toList

/-- `envEntry(key, val)` -/
def envEntry (key : String) (val : Bytes) : Bytes := str "PSA_DHCPC_" ++ str key ++ [0x3D] ++ sanitize val.length val

def natStr (n : Nat) : Bytes := str (toString n)

/-- `net.IP.String()` for nil / IPv4. -/
def ipString (x : Option Ip4) : Bytes :=
  match x with
  | none => str "<nil>"
  | some i => natStr i.a.toNat ++ [0x2E] ++ natStr i.b.toNat ++ [0x2E] ++ natStr i.c.toNat ++ [0x2E] ++ natStr i.d.toNat

def hexNib (n : Nat) : UInt8 := if n < 10 then UInt8.ofNat (48 + n) else UInt8.ofNat (87 + n)

/-- `net.IPMask.String()`: lower-case hex, `<nil>` for the empty mask. -/
def maskString (x : Option Ip4) : Bytes :=
  match x with
  | none => str "<nil>"
  | some m => (m.bytes.map fun b => [hexNib (b.toNat / 16), hexNib (b.toNat % 16)]).flatten

def joinComma : List Bytes → Bytes
  | [] => []
  | [x] => x
  | x :: rest => x ++ [0x2C] ++ joinComma rest

/-- `dumpScriptConf` -/
def dumpScriptConf (c : Ifconfig) : List Bytes :=
  [envEntry "IPV4_ROUTER" (ipString c.router), envEntry "IPV4_ADDRESS" (ipString c.ip),
   envEntry "NETMASK" (maskString c.netmask), envEntry "DOMAIN_NAME" c.domain,
   envEntry "DNS_LIST" (joinComma (c.dns.map fun d => ipString (some d))),
   envEntry "MTU" (natStr c.mtu), envEntry "LEASE_SEC" (natStr c.leaseSecs)]

/-! ### resolvconf.go -/

/-- `strings.SplitN(e, "=", 2)` -/
def splitEq : Bytes → Option (Bytes × Bytes)
  | [] => none
  | b :: rest => if b = 0x3D then some ([], rest) else (splitEq rest).map fun p => (b :: p.1, p.2)

/-- `strings.Split(s, ",")` -/
def splitComma : Bytes → List Bytes
  | [] => [[]]
  | b :: rest =>
    match splitComma rest with
    | [] => [[b]]
    | h :: t => if b = 0x2C then [] :: h :: t else (b :: h) :: t

/-- `^[class]+$` — Go's `$` without the `m` flag matches only at the end of the text. -/
def allIn (cls : UInt8 → Bool) (s : Bytes) : Bool := !s.isEmpty && s.all cls

structure ResolvIn where
  search : Bytes := []
  nameservers : List Bytes := []
deriving DecidableEq, Repr

/-- The environment scan of `resolvconf.Run`. -/
def scanEnv (env : List Bytes) : ResolvIn :=
  env.foldl (fun acc e =>
    match splitEq e with
    | none => acc
    | some (k, v) =>
      let acc := if k = str "PSA_DHCPC_DOMAIN_NAME" ∧ allIn hostChar v then { acc with search := v } else acc
      if k = str "PSA_DHCPC_DNS_LIST" ∧ ¬ v.isEmpty then
        { acc with nameservers := acc.nameservers ++ (splitComma v).filter (allIn numChar) }
      else acc) {}

/-- The file `Run` writes, or `none` when it leaves resolv.conf untouched. -/
def renderResolv (r : ResolvIn) : Option Bytes :=
  if r.nameservers.isEmpty then none
  else some (str "# written by psa-dhcpc\n"
    ++ (if r.search.isEmpty then [] else str "search " ++ r.search ++ [0x0A])
    ++ (r.nameservers.map fun ns => str "nameserver " ++ ns ++ [0x0A]).flatten)

def resolvRun (env : List Bytes) : Option Bytes := renderResolv (scanEnv env)

end PsaDhcp
