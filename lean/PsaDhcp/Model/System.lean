import PsaDhcp.Model.Server
/-
M5b — the server as a concurrent system.

`server.Run` starts one goroutine per received packet; each goroutine performs two or three
*atomic* database calls (the IPDB lock is held for the whole body of each call) separated by
sleeps and ARP probes.  The system state is the database plus the handlers in flight; an event is
either the arrival of a packet (receive chain + the handler's first database call, `getDuid`) or
the next database call of one handler in flight.  Any interleaving is a list of events; clocks
never decrease.  The sequential `handle` of `Model/Server.lean` is the special case in which a
handler's events follow each other immediately (`Proofs/System.lean: handle_eq_run`).
-/
namespace PsaDhcp

/-- A handler in flight, waiting to perform its next database call. -/
inductive Pending where
  | a1 (rx : Rx) (duid : Duid)                  -- DISCOVER: next call FindIP
  | a2 (rx : Rx) (duid : Duid) (addr : Nat)     -- next call UpdateClient(addr, duid, 15 s), then OFFER
  | b1 (rx : Rx) (duid : Duid) (want : Ip4)     -- REQUEST: next call LookupClientByDuid, then the probe
  | b2 (rx : Rx) (duid : Duid) (lease : Nat)    -- next call UpdateClient(lease, duid, LeaseDuration), then ACK
  | done

/-- A reply put on the wire, with the ghost data the properties talk about. -/
structure Sent where
  t : Int                 -- clock of the database call that justified it (≥ when the client sent its message)
  kind : ReplyKind
  addr : Nat              -- yiaddr (0 for NAK)
  duid : Duid             -- holder identity the handler used
  rx : Rx                 -- the message it answers
  frame : Frame

structure Sys (σ : Type) where
  db : IPDB σ
  pend : List Pending := []
  sent : List Sent := []            -- newest first
  calls : List (Int × DbOp) := []   -- ghost: every database call performed so far, newest first

/-- Events.  `i` addresses a handler in flight by its position in `pend`. -/
inductive Ev where
  | recv (t : Int) (b : Bytes)
  | find (i : Nat) (t : Int) (perm : List Nat) (orc : Nat → IPDB.Iter) (tEnd : Int)
  | hold (i : Nat) (t : Int)
  | look (i : Nat) (t : Int) (probeFree : Bool)
  | lease (i : Nat) (t : Int)

def Ev.t : Ev → Int
  | .recv t _ | .find _ t _ _ _ | .hold _ t | .look _ t _ | .lease _ t => t

/-- Clock at which the event's database call returns. -/
def Ev.tEnd : Ev → Int
  | .find _ _ _ _ tEnd => tEnd
  | e => e.t

def Ev.ClockOk : Ev → Prop
  | .find _ t _ orc tEnd => t ≤ (orc 0).now ∧ (∀ i, (orc i).now ≤ (orc (i + 1)).now) ∧ ∀ i, (orc i).now ≤ tEnd
  | _ => True

def EvMonotone : List Ev → Prop
  | [] => True
  | [e] => e.ClockOk
  | e₁ :: e₂ :: rest => e₁.ClockOk ∧ e₁.tEnd ≤ e₂.t ∧ EvMonotone (e₂ :: rest)

namespace Sys
variable {σ : Type}

def setPend (s : Sys σ) (i : Nat) (p : Pending) : Sys σ := { s with pend := s.pend.set i p }

/-- One event. -/
def step (S : Store σ) (c : SrvCfg) (s : Sys σ) : Ev → Sys σ
  | .recv t b =>
    match rxChain b with
    | .ok (some rx) =>
      let opts := decodeOptions rx.msg.options
      let g := getDuid S s.db t rx.msg.chaddr opts.clientIdentifier
      let s := { s with db := g.1, calls := (t, DbOp.lookupByDuid (sduid rx.msg.chaddr)) :: s.calls }
      match todo c g.1 rx with
      | .drop => s
      | .discover => { s with pend := s.pend ++ [.a1 rx g.2] }
      | .request want => { s with pend := s.pend ++ [.b1 rx g.2 want] }
    | _ => s
  | .find i t perm orc tEnd =>
    match s.pend[i]? with
    | some (.a1 rx duid) =>
      let opts := decodeOptions rx.msg.options
      let f := s.db.findIP S t opts.requestedIP duid perm orc
      let s := { s with db := f.1, calls := (t, DbOp.findIP opts.requestedIP duid perm orc tEnd) :: s.calls }
      match f.2 with
      | .error _ => s.setPend i .done
      | .ok a => s.setPend i (.a2 rx duid a)
    | _ => s
  | .hold i t =>
    match s.pend[i]? with
    | some (.a2 rx duid a) =>
      let u := s.db.updateClient S t (some (Ip4.ofNat a)) duid offerHoldNs
      let s := { s with db := u.1, calls := (t, DbOp.updateClient (some (Ip4.ofNat a)) duid offerHoldNs) :: s.calls }
      match u.2 with
      | .error _ => s.setPend i .done
      | .ok _ => { (s.setPend i .done) with
                   sent := ⟨t, .offer, a, duid, rx, leaseFrame c .offer rx.msg (Ip4.ofNat a)⟩ :: s.sent }
    | _ => s
  | .look i t probeFree =>
    match s.pend[i]? with
    | some (.b1 rx duid want) =>
      let l := s.db.lookupByDuid S t duid
      let s := { s with db := l.1, calls := (t, DbOp.lookupByDuid duid) :: s.calls }
      let nak : Sys σ := { (s.setPend i .done) with sent := ⟨t, .nak, 0, duid, rx, nakFrame c rx.msg⟩ :: s.sent }
      match l.2 with
      | .error _ => nak
      | .ok lease =>
        if want.toNat ≠ lease then nak
        else if ¬ probeFree then nak
        else s.setPend i (.b2 rx duid lease)
    | _ => s
  | .lease i t =>
    match s.pend[i]? with
    | some (.b2 rx duid lease) =>
      let u := s.db.updateClient S t (some (Ip4.ofNat lease)) duid c.leaseNs
      let s := { s with db := u.1, calls := (t, DbOp.updateClient (some (Ip4.ofNat lease)) duid c.leaseNs) :: s.calls }
      match u.2 with
      | .error _ => s.setPend i .done
      | .ok _ => { (s.setPend i .done) with
                   sent := ⟨t, .ack, lease, duid, rx, leaseFrame c .ack rx.msg (Ip4.ofNat lease)⟩ :: s.sent }
    | _ => s

def run (S : Store σ) (c : SrvCfg) : Sys σ → List Ev → Sys σ
  | s, [] => s
  | s, e :: rest => run S c (step S c s e) rest

end Sys

/-- `server.New` for a validated configuration: network, optional dynamic range, static_only,
one permanent binding per client entry with an address, the server's own permanent binding.
`none` when a step fails (the server refuses to start). -/
def serverInit {σ : Type} (S : Store σ) (empty : σ) (c : SrvCfg) (base p : Nat) (dyn : Option (Ip4 × Ip4)) (staticOnly : Bool)
    (t : Int) : Option (IPDB σ) :=
  let db : IPDB σ := IPDB.new empty base p
  let db? : Option (IPDB σ) := match dyn with
    | none => some db
    | some (a, b) => match db.setDynamicRange (some a) (some b) with
      | (db', .ok _) => some db'
      | (_, .error _) => none
  match db? with
  | none => none
  | some db =>
    let db := if staticOnly then db.disableDynamic else db
    let addAll := c.overrides.foldl (fun (acc : Option (IPDB σ)) (o : Override) =>
      match acc, o.ip with
      | none, _ => none
      | some d, none => some d
      | some d, some ip => match d.addPermanent S t (some ip) (sduid o.mac) with
        | (d', .ok _) => some d'
        | (_, .error _) => none) (some db)
    match addAll with
    | none => none
    | some db => match db.addPermanent S t (some c.selfIp) (sduid c.selfMac) with
      | (db', .ok _) => some db'
      | (_, .error _) => none

/-- The lifetime a reply grants. -/
def Sent.ttl (c : SrvCfg) (s : Sent) : Int :=
  match s.kind with
  | .offer => offerHoldNs
  | .ack => c.leaseNs
  | .nak => 0

end PsaDhcp
