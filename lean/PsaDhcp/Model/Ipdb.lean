import PsaDhcp.Model.Clients
/-
M4b — `lib/server/ipdb/ipdb.go`, written once over an abstract store interface so that the same
program text runs on the concrete `Clients` (map + pointers + lazy deletion) and on the reference
table of `Spec/Table.lean`.  Every exported method of `*IPDB` takes the write lock for its whole
body (checked by `Generated/Facts.lean` + `Expect.lean`), so each function below is one atomic
step; `findIP` is atomic too, with the clock readings and probe answers it obtains while holding
the lock passed in as an oracle.
-/
namespace PsaDhcp

/-- What `ipdb.go` needs from `clients`: `Lookup` (addresses of the two records and whether
they are the same record, plus the expiry of the record found by address), `Inject`, `SetLease`. -/
structure LookupRes where
  byIp : Option Nat
  byDuid : Option Nat
  same : Bool
  ipExp : Option Int       -- `LeasedUntil()` of the record found by address
deriving DecidableEq, Repr

structure Store (σ : Type) where
  lookup : σ → Int → Nat → Duid → σ × LookupRes
  inject : σ → Int → Nat → Duid → Int → Bool → σ × Clients.Res
  setLease : σ → Int → Nat → Duid → Int → σ × Clients.Res

def Clients.lookupRes (c : Clients) (now : Int) (ip : Nat) (d : Duid) : Clients × LookupRes :=
  let r := c.lookup now ip d
  (r.1, { byIp := r.1.ipOf r.2.1, byDuid := r.1.ipOf r.2.2, same := r.2.1.isSome && r.2.1 == r.2.2,
          ipExp := r.2.1.bind fun i => (r.1.ents[i]?).map (·.exp) })

def clientsStore : Store Clients :=
  { lookup := Clients.lookupRes
    inject := fun c now ip d exp perm => c.inject now ip d exp perm
    setLease := fun c now ip d exp => c.setLease now ip d exp }

structure IPDB (σ : Type) where
  netFrom : Nat
  netTo : Nat
  dynFrom : Nat
  dynTo : Nat
  s : σ

inductive DbErr where
  | notV4 | notInRange | badRange | notFound | disabled | noFreeIp | store (r : Clients.Res)
deriving DecidableEq, Repr

/-- `fromTo(network, netmask)` for a CIDR prefix of length `p ≤ 32`; `base` is any address of the
network.  For `start ≠ end` the network and broadcast addresses are excluded. -/
def fromTo (base : Nat) (p : Nat) : Nat × Nat :=
  let size := 2 ^ (32 - p)
  let start := base / size * size
  let stop := start + size - 1
  if start ≠ stop then (start + 1, stop - 1) else (start, stop)

namespace IPDB
variable {σ : Type}

def new (empty : σ) (base : Nat) (p : Nat) : IPDB σ :=
  let ft := fromTo base p
  { netFrom := ft.1, netTo := ft.2, dynFrom := ft.1, dynTo := ft.2, s := empty }

/-- `toUip` -/
def toUip (db : IPDB σ) (ip : Option Ip4) : Except DbErr Nat :=
  match ip with
  | none => .error .notV4
  | some i => if i.toNat < db.netFrom ∨ i.toNat > db.netTo then .error .notInRange else .ok i.toNat

def inManagedRange (db : IPDB σ) (ip : Option Ip4) : Bool :=
  match db.toUip ip with | .ok _ => true | .error _ => false

def setDynamicRange (db : IPDB σ) (b e : Option Ip4) : IPDB σ × Except DbErr Unit :=
  match db.toUip b with
  | .error x => (db, .error x)
  | .ok bb =>
    match db.toUip e with
    | .error x => (db, .error x)
    | .ok ee => if bb > ee then (db, .error .badRange) else ({ db with dynFrom := bb, dynTo := ee }, .ok ())

def disableDynamic (db : IPDB σ) : IPDB σ := { db with dynFrom := 0, dynTo := 0 }

/-- `LookupClientByDuid` at clock `now`. -/
def lookupByDuid (S : Store σ) (db : IPDB σ) (now : Int) (d : Duid) : IPDB σ × Except DbErr Nat :=
  let r := S.lookup db.s now 0 d
  ({ db with s := r.1 }, match r.2.byDuid with | some a => .ok a | none => .error .notFound)

/-- `AddPermanentClient` -/
def addPermanent (S : Store σ) (db : IPDB σ) (now : Int) (ip : Option Ip4) (d : Duid) : IPDB σ × Except DbErr Unit :=
  match db.toUip ip with
  | .error x => (db, .error x)
  | .ok n =>
    let r := S.inject db.s now n d 0 true
    ({ db with s := r.1 }, if r.2 = .ok then .ok () else .error (.store r.2))

/-- `UpdateClient(ip, duid, ttl)` at clock `now` (all durations in nanoseconds). -/
def updateClient (S : Store σ) (db : IPDB σ) (now : Int) (ip : Option Ip4) (d : Duid) (ttl : Int) : IPDB σ × Except DbErr Unit :=
  match db.toUip ip with
  | .error x => (db, .error x)
  | .ok n =>
    let ltime := now + ttl
    -- never shorten a binding this client already holds
    let l := S.lookup db.s now n d
    let ltime := match l.2.byIp, l.2.same, l.2.ipExp with
      | some _, true, some e => if e > ltime then e else ltime
      | _, _, _ => ltime
    let r1 := S.setLease l.1 now n d ltime
    if r1.2 = .ok then ({ db with s := r1.1 }, .ok ())
    else
      let r2 := S.inject r1.1 now n d ltime false
      if r2.2 ≠ .ok then ({ db with s := r2.1 }, .error (.store r2.2))
      else
        let r3 := S.setLease r2.1 now n d ltime
        ({ db with s := r3.1 }, if r3.2 = .ok then .ok () else .error (.store r3.2))

/-- `Uip.Valid()` -/
def validUip (a : Nat) : Bool := a % 256 ≠ 0 && a % 256 ≠ 255

/-- What one iteration of the candidate loop obtains from outside while the lock is held:
`ctx.Err() != nil`, the clock reading of its `Lookup`, and the answer of the probe callback
(consulted only for an unbound, valid candidate). -/
structure Iter where
  cancelled : Bool
  now : Int
  free : Bool
deriving DecidableEq, Repr

/-- The candidate loop of `FindIP`: `vs` are the offsets `v`, `picked = dynFrom + Uip(v)` in
`uint32` arithmetic. -/
def findLoop (S : Store σ) (dynFrom : Nat) : List Nat → (Nat → Iter) → Nat → σ → σ × Option Nat
  | [], _, _, s => (s, none)
  | v :: rest, orc, i, s =>
    let it := orc i
    if it.cancelled then (s, none)
    else
      let picked := (dynFrom + v) % 4294967296
      let r := S.lookup s it.now picked []
      if r.2.byIp.isNone && validUip picked && it.free then (r.1, some picked)
      else findLoop S dynFrom rest orc (i + 1) r.1

/-- `FindIP(ctx, isFree, ip, duid)`: `now` is the clock of the first `Lookup`, `perm` the result
of `rand.Perm(1 + dynTo - dynFrom)`, `orc` the per-iteration oracle. -/
def findIP (S : Store σ) (db : IPDB σ) (now : Int) (sugg : Option Ip4) (d : Duid) (perm : List Nat)
    (orc : Nat → Iter) : IPDB σ × Except DbErr Nat :=
  let n := match db.toUip sugg with | .ok n => n | .error _ => 0
  let r := S.lookup db.s now n d
  match r.2.byDuid with
  | some a => ({ db with s := r.1 }, .ok a)
  | none =>
    if db.dynTo = 0 ∧ db.dynFrom = 0 then ({ db with s := r.1 }, .error .disabled)
    else
      let p := if r.2.byIp.isNone ∧ db.dynFrom ≤ n ∧ n ≤ db.dynTo then (n - db.dynFrom) :: perm else perm
      let f := findLoop S db.dynFrom p orc 0 r.1
      ({ db with s := f.1 }, match f.2 with | some a => .ok a | none => .error .noFreeIp)

end IPDB
end PsaDhcp

namespace PsaDhcp

/-- The atomic operations of the public `*IPDB` API.  `findIP` carries what it obtains from
outside while holding the lock: the permutation, the per-iteration oracle and the clock `tEnd` at
which it returns. -/
inductive DbOp where
  | lookupByDuid (d : Duid)
  | addPermanent (ip : Option Ip4) (d : Duid)
  | updateClient (ip : Option Ip4) (d : Duid) (ttl : Int)
  | findIP (sugg : Option Ip4) (d : Duid) (perm : List Nat) (orc : Nat → IPDB.Iter) (tEnd : Int)
  | inManagedRange (ip : Option Ip4)
  | setDynamicRange (b e : Option Ip4)
  | disableDynamic

inductive DbRes where
  | unit (r : Except DbErr Unit)
  | addr (r : Except DbErr Nat)
  | bool (b : Bool)
deriving Repr

def IPDB.step {σ : Type} (S : Store σ) (db : IPDB σ) (now : Int) : DbOp → IPDB σ × DbRes
  | .lookupByDuid d => let r := db.lookupByDuid S now d; (r.1, .addr r.2)
  | .addPermanent ip d => let r := db.addPermanent S now ip d; (r.1, .unit r.2)
  | .updateClient ip d ttl => let r := db.updateClient S now ip d ttl; (r.1, .unit r.2)
  | .findIP sugg d perm orc _ => let r := db.findIP S now sugg d perm orc; (r.1, .addr r.2)
  | .inManagedRange ip => (db, .bool (db.inManagedRange ip))
  | .setDynamicRange b e => let r := db.setDynamicRange b e; (r.1, .unit r.2)
  | .disableDynamic => (db.disableDynamic, .unit (.ok ()))

def IPDB.run {σ : Type} (S : Store σ) : IPDB σ → List (Int × DbOp) → List DbRes
  | _, [] => []
  | db, (t, op) :: rest => let r := db.step S t op; r.2 :: IPDB.run S r.1 rest

/-- The clock at which an operation returns. -/
def DbOp.tEnd (now : Int) : DbOp → Int
  | .findIP _ _ _ _ tEnd => tEnd
  | _ => now

/-- The clock readings an operation takes are non-decreasing, start at `now` and end by `tEnd`. -/
def DbOp.ClockOk (now : Int) : DbOp → Prop
  | .findIP _ _ _ orc tEnd => now ≤ (orc 0).now ∧ (∀ i, (orc i).now ≤ (orc (i + 1)).now) ∧ ∀ i, (orc i).now ≤ tEnd
  | _ => True

/-- Clocks never decrease along an operation sequence (Go's monotonic clock). -/
def DbMonotone : List (Int × DbOp) → Prop
  | [] => True
  | [(t, o)] => o.ClockOk t
  | (t₁, o₁) :: (t₂, o₂) :: rest => o₁.ClockOk t₁ ∧ o₁.tEnd t₁ ≤ t₂ ∧ DbMonotone ((t₂, o₂) :: rest)

end PsaDhcp
