import PsaDhcp.Model.Wire
import PsaDhcp.Model.Dhcp
import PsaDhcp.Model.Ipdb
/-
M5 — `lib/server/{server,run,netio,utils}.go` and `replies/*`.

The handler is modelled as a *small-step* program: each step performs exactly one atomic database
call (the `*IPDB` methods hold the lock for their whole body) and everything it obtains from
outside — clock readings, the permutation, ARP probe outcomes — is an explicit oracle argument.
`handle` runs the steps of one packet back to back (one handler in flight); the system model in
`Proofs/Server.lean` interleaves steps of many handlers.
-/
namespace PsaDhcp

/-- Per-client override as merged by `SetClientOverrides` (only the fields a client entry can set). -/
structure Override where
  mac : Bytes
  ip : Option Ip4 := none
  router : Option Ip4 := none
  dns : List Ip4 := []
  ntp : List Ip4 := []
  hostname : Bytes := []
deriving DecidableEq, Repr

structure SrvCfg where
  selfIp : Ip4
  selfMac : Bytes
  leaseNs : Int                 -- LeaseDuration
  mask : Bytes                  -- ipnet.Mask (4 bytes)
  router : Option Ip4 := none
  dns : List Ip4 := []
  ntp : List Ip4 := []
  domain : Bytes := []
  overrides : List Override := []
deriving Repr

/-- 15 s: how long an OFFER is held (pinned to the source by `Expect.c01_c05_c09_offer_hold`). -/
def offerHoldNs : Int := 15 * 1000000000

def internalPrefix : Bytes := [0, 3, 0, 0]

/-- `duidFromHwAddr` -/
def sduid (hw : Bytes) : Duid := internalPrefix ++ hw

/-- `uint32(d.Seconds())` for a non-negative duration in nanoseconds. -/
def leaseSecs (ns : Int) : Nat := (ns / 1000000000).toNat % 4294967296

def SrvCfg.override? (c : SrvCfg) (mac : Bytes) : Option Override := c.overrides.find? (·.mac = mac)

/-- `dhcpOptions(clientMAC)` -/
def SrvCfg.dhcpOptions (c : SrvCfg) (mac : Bytes) : List Opt :=
  let ov := c.override? mac
  let router := match ov.bind (·.router) with | some r => some r | none => c.router
  let dns := match ov with | some o => if o.dns.isEmpty then c.dns else o.dns | none => c.dns
  let ntp := match ov with | some o => if o.ntp.isEmpty then c.ntp else o.ntp | none => c.ntp
  let host := match ov with | some o => o.hostname | none => []
  [optLease (leaseSecs c.leaseNs), optSubnetMask c.mask]
    ++ (match router with | some r => [optRouter (some r)] | none => [])
    ++ (if dns.isEmpty then [] else [optDNS dns])
    ++ (if ntp.isEmpty then [] else [optNTP ntp])
    ++ (if c.domain.isEmpty then [] else [optDomainName c.domain])
    ++ (if host.isEmpty then [] else [optHostname host])

/-! ### replies -/

inductive ReplyKind where | offer | ack | nak
deriving DecidableEq, Repr

def ReplyKind.code : ReplyKind → UInt8
  | .offer => 2 | .ack => 5 | .nak => 6

/-- A frame handed to `sendUnicast`: link-layer destination and IPv4 packet. -/
structure Frame where
  l2dst : Bytes
  pkt : Bytes
deriving DecidableEq, Repr

def bcastMac : Bytes := [0xff, 0xff, 0xff, 0xff, 0xff, 0xff]

def assembleUdp (src : Ip4) (dst : Ip4) (payload : Bytes) : Bytes :=
  IPv4.assemble { ident := 0, flags := 0, ttl := 64, proto := 0x11, src := some src, dst := some dst,
                  data := UDP.assemble { srcPort := 67, dstPort := 68, data := payload } }

/-- `AssembleOffer` / `AssembleACK` -/
def assembleLease (kind : ReplyKind) (xid flags : Nat) (selfIp yiaddr : Ip4) (chaddr : Bytes) (opts : List Opt) : Bytes :=
  let dst := if flags / 32768 % 2 = 1 then Ip4.bcast else yiaddr
  assembleUdp selfIp dst (Msg.assemble
    { op := 2, htype := 1, hops := 0, xid := xid, secs := 0, flags := flags, ciaddr := none, yiaddr := some yiaddr,
      siaddr := none, giaddr := none, chaddr := chaddr, sname := [], file := [], cookie := 0x63825363,
      options := [optType kind.code, optServerIdentifier (some selfIp)] ++ opts })

/-- `AssembleNACK` -/
def assembleNak (xid : Nat) (selfIp : Ip4) (chaddr : Bytes) : Bytes :=
  assembleUdp selfIp Ip4.bcast (Msg.assemble
    { op := 2, htype := 1, hops := 0, xid := xid, secs := 0, flags := 0, ciaddr := none, yiaddr := none,
      siaddr := none, giaddr := none, chaddr := chaddr, sname := [], file := [], cookie := 0x63825363,
      options := [optType 6, optServerIdentifier (some selfIp)] })

/-- `sendMsg`: link-layer destination follows the broadcast flag. -/
def leaseFrame (c : SrvCfg) (kind : ReplyKind) (m : Msg) (yiaddr : Ip4) : Frame :=
  { l2dst := if m.flags / 32768 % 2 = 1 then bcastMac else m.chaddr,
    pkt := assembleLease kind m.xid m.flags c.selfIp yiaddr m.chaddr (c.dhcpOptions m.chaddr) }

/-- `sendNACK`: unicast at link level to the client's hardware address, IP broadcast. -/
def nakFrame (c : SrvCfg) (m : Msg) : Frame := { l2dst := m.chaddr, pkt := assembleNak m.xid c.selfIp m.chaddr }

/-! ### the receive chain of `Run` -/

structure Rx where
  src : Ip4
  dst : Ip4
  msg : Msg
deriving Repr

/-- `DecodeIPv4 → DecodeUDP → Decode → Op == OpRequest`; anything else is dropped. -/
def rxChain (b : Bytes) : R (Option Rx) := do
  match decodeIPv4 b with
  | .error (.reject _) => pure none
  | .error e => throw e
  | .ok v4 =>
    match decodeUDP v4.data with
    | .error (.reject _) => pure none
    | .error e => throw e
    | .ok udp =>
      match decode udp.data with
      | .error (.reject _) => pure none
      | .error e => throw e
      | .ok m => if m.op ≠ 1 then pure none else pure (some { src := optIp v4.src, dst := optIp v4.dst, msg := m })

/-! ### the handler as a small-step program -/

/-- REQUEST classification of `handleRequest` (RFC 2131 table 4). -/
inductive ReqClass where | initReboot | selecting | renewing | rebinding | bogus
deriving DecidableEq, Repr

def classify (selfIp : Ip4) (dst : Ip4) (sid req : Option Ip4) : ReqClass :=
  if dst = Ip4.bcast ∧ sid = none ∧ req ≠ none then .initReboot
  else if dst = Ip4.bcast ∧ sid = some selfIp ∧ req ≠ none then .selecting
  else if dst = selfIp ∧ sid = none ∧ req = none then .renewing
  else if dst = Ip4.bcast ∧ sid = none ∧ req = none then .rebinding
  else .bogus

/-- The address a REQUEST designates. -/
def desired (cls : ReqClass) (src : Ip4) (req : Option Ip4) : Option Ip4 :=
  match cls with
  | .initReboot | .selecting => req
  | .renewing | .rebinding => some src
  | .bogus => none

/-- What a handler does once its packet is decoded and the early guards are passed. -/
inductive Todo where
  | drop                                   -- own hwaddr, own IP requested, unhandled type, misaddressed
  | discover                               -- → A1 findIP, A2 update(hold), OFFER
  | request (want : Ip4)                   -- → B1 lookup, probe, B2 update(lease), ACK / NAK
deriving DecidableEq, Repr

/-- The guards of `handleMsg`, `handleDiscover`, `handleRequest` that need no database access
beyond `InManagedRange` (which reads immutable fields only). -/
def todo {σ : Type} (c : SrvCfg) (db : IPDB σ) (rx : Rx) : Todo :=
  let o := decodeOptions rx.msg.options
  if c.selfMac = rx.msg.chaddr then .drop
  else if o.requestedIP = some c.selfIp then .drop
  else if o.messageType = 1 then
    if rx.dst ≠ Ip4.bcast then .drop
    else if o.serverIdentifier ≠ none then .drop
    else .discover
  else if o.messageType = 3 then
    let cls := classify c.selfIp rx.dst o.serverIdentifier o.requestedIP
    match desired cls rx.src o.requestedIP with
    | none => .drop
    | some want => if db.inManagedRange (some want) then .request want else .drop
  else .drop

/-- Step A0 — `getDuid`: one `LookupClientByDuid(sduid)` at clock `t`. -/
def getDuid {σ : Type} (S : Store σ) (db : IPDB σ) (t : Int) (hw cid : Bytes) : IPDB σ × Duid :=
  let r := db.lookupByDuid S t (sduid hw)
  match r.2 with
  | .ok _ => (r.1, sduid hw)
  | .error _ =>
    if cid.length < 4 ∨ internalPrefix.isPrefixOf cid then (r.1, sduid hw) else (r.1, cid)

/-- `arpVerify` over the outcomes of its up to three pings: `none` = timed out, `some mac` = the
first answer received.  Free iff all three timed out or the first answer is the client's own. -/
def arpVerify (chaddr : Bytes) : List (Option Bytes) → Bool
  | [] => true
  | none :: rest => arpVerify chaddr rest
  | some mac :: _ => mac = chaddr

/-- Oracle of one handler run: the clocks of its database calls and the probe outcomes. -/
structure HOracle where
  t0 : Int                                  -- A0 (getDuid)
  t1 : Int                                  -- A1 (FindIP entry) / B1 (LookupClientByDuid)
  perm : List Nat := []                     -- rand.Perm of FindIP
  iters : Nat → IPDB.Iter := fun _ => ⟨false, 0, true⟩   -- per-candidate oracle of FindIP
  probeFree : Bool := true                  -- result of the REQUEST-path arpVerify
  t2 : Int                                  -- A2 / B2 (UpdateClient)

/-- Sequential composition of one handler's steps. Returns the new database and the frame sent. -/
def handle {σ : Type} (S : Store σ) (c : SrvCfg) (db : IPDB σ) (rx : Rx) (o : HOracle) : IPDB σ × Option Frame :=
  let opts := decodeOptions rx.msg.options
  let g := getDuid S db o.t0 rx.msg.chaddr opts.clientIdentifier
  let db := g.1
  let duid := g.2
  match todo c db rx with
  | .drop => (db, none)
  | .discover =>
    let f := db.findIP S o.t1 opts.requestedIP duid o.perm o.iters
    match f.2 with
    | .error _ => (f.1, none)
    | .ok a =>
      let u := f.1.updateClient S o.t2 (some (Ip4.ofNat a)) duid offerHoldNs
      match u.2 with
      | .error _ => (u.1, none)
      | .ok _ => (u.1, some (leaseFrame c .offer rx.msg (Ip4.ofNat a)))
  | .request want =>
    let l := db.lookupByDuid S o.t1 duid
    match l.2 with
    | .error _ => (l.1, some (nakFrame c rx.msg))
    | .ok lease =>
      if want.toNat ≠ lease then (l.1, some (nakFrame c rx.msg))
      else if ¬ o.probeFree then (l.1, some (nakFrame c rx.msg))
      else
        let u := l.1.updateClient S o.t2 (some (Ip4.ofNat lease)) duid c.leaseNs
        match u.2 with
        | .error _ => (u.1, none)
        | .ok _ => (u.1, some (leaseFrame c .ack rx.msg (Ip4.ofNat lease)))

end PsaDhcp
