import PsaDhcp.Model.Client
/-
M7b — the client automaton: `dclient.Run`, the state functions of `dhcpstates.go` / `sysstates.go`,
`ResumeClient`, with `filterNetconfig` as pre-callback.  A transition consumes one event (what the
outside world did) and yields the effects the client performs before it next waits.
-/
namespace PsaDhcp

inductive CS where
  | discovering | selecting | arpCheck | ifconfig | bound | renewing | rebinding
deriving DecidableEq, Repr

/-- Effects, in the order performed. -/
inductive Eff where
  | preNil | unconfigure | up | postNil                 -- runStatePurgeInterface
  | send (st : ReqState) (offered server : Option Ip4)  -- an exchange starts: which template, with which parameters
  | arpProbe (ip : Option Ip4)                          -- runStateArpCheck
  | pre (c : Ifconfig) | setIface (c : Ifconfig) | post (c : Ifconfig)   -- runStateIfconfig
  | panicUnconfigure | wait30                           -- panicReset
  | deadlines (d : Deadlines)                           -- runStateBound: T1 / T2 / expiry after now
  | resume5s                                            -- ResumeClient: all three deadlines = now + 5 s
  | fatalRoutersEmpty                                   -- buildNetconfig would index an empty router list
deriving DecidableEq, Repr

inductive CEv where
  | accepted (m : Msg) (o : DecodedOptions)   -- catchReply returned a reply that passed the state's verifier
  | nack                                       -- catchReply returned errWasNack
  | deadline                                   -- the exchange's deadline passed (or any other error)
  | arp (answer : Option Bytes)                -- result of the ARP probe: sender MAC of the answer, if any
  | ifaceResult (ok : Bool)                    -- SetIface result
  | t1                                         -- T1 reached while bound
  | linkUp                                     -- the monitor cancelled the context; Run returned; ResumeClient
deriving Repr

structure CState where
  st : CS
  last : Option (Msg × DecodedOptions) := none     -- lastMsg / lastOpts
  pending : Option Ifconfig := none                -- the (filtered) configuration handed to SetIface
deriving Repr

def lastYiaddr (s : CState) : Option Ip4 := s.last.bind fun p => p.1.yiaddr
def lastSid (s : CState) : Option Ip4 := s.last.bind fun p => p.2.serverIdentifier

/-- `runStatePurgeInterface` followed by the start of discovery. -/
def purgeEffs : List Eff := [.preNil, .unconfigure, .up, .postNil, .send .discover none none]

def toPurge (s : CState) (pre : List Eff) : CState × List Eff := ({ s with st := .discovering, pending := none }, pre ++ purgeEffs)

/-- Entering ARP check / ifconfig / bound produces the effects of those state functions up to
their next wait. -/
def enterArpCheck (s : CState) : CState × List Eff := ({ s with st := .arpCheck }, [.arpProbe (lastYiaddr s)])

def enterIfconfig (route : Bool) (s : CState) : CState × List Eff :=
  match s.last with
  | none => ({ s with st := .ifconfig }, [.fatalRoutersEmpty])
  | some (m, o) =>
    match buildNetconfig m o with
    | none => ({ s with st := .ifconfig }, [.fatalRoutersEmpty])
    | some nc =>
      let f := filterNetconfig route nc
      ({ s with st := .ifconfig, pending := some f }, [.pre f, .setIface f])

def enterBound (s : CState) : CState × List Eff :=
  match s.last with
  | some (_, o) => ({ s with st := .bound }, [.deadlines (boundDeadlines o)])
  | none => ({ s with st := .bound }, [])

/-- One transition. `mac` is the interface's hardware address, `route` the `-default_route` flag. -/
def cstep (mac : Bytes) (route : Bool) (s : CState) (e : CEv) : CState × List Eff :=
  match e with
  | .linkUp =>
    -- the state function in progress returns with an error first, then ResumeClient decides
    -- (while rebinding, the interrupted exchange's failure state is "purge", so ResumeClient starts over)
    match s.st with
    | .bound | .renewing =>
      ({ s with st := .rebinding }, [.resume5s, .send .rebinding (lastYiaddr s) none])
    | _ => toPurge s []
  | _ =>
  match s.st, e with
  | .discovering, .accepted m o =>
    let s := { s with st := .selecting, last := some (m, o) }
    (s, [.send .selecting (lastYiaddr s) (lastSid s)])
  | .discovering, _ => (s, [.send .discover none none])          -- cannot advance: a new DISCOVER exchange
  | .selecting, .accepted m o => enterArpCheck { s with last := some (m, o) }
  | .selecting, _ => ({ s with st := .discovering }, [.send .discover none none])
  | .arpCheck, .arp (some who) =>
    if who ≠ mac then toPurge s [.panicUnconfigure, .wait30] else enterIfconfig route s
  | .arpCheck, .arp none => enterIfconfig route s
  | .arpCheck, _ => (s, [])
  | .ifconfig, .ifaceResult true =>
    match s.pending with
    | some f => let r := enterBound s; (r.1, [.post f] ++ r.2)
    | none => (s, [])
  | .ifconfig, .ifaceResult false => toPurge s [.panicUnconfigure, .wait30]
  | .ifconfig, _ => (s, [])
  | .bound, .t1 => ({ s with st := .renewing }, [.send .renewing (lastYiaddr s) (lastSid s)])
  | .bound, _ => (s, [])
  | .renewing, .accepted m o => enterArpCheck { s with last := some (m, o) }
  | .renewing, .nack => toPurge s []
  | .renewing, _ => ({ s with st := .rebinding }, [.send .rebinding (lastYiaddr s) none])
  | .rebinding, .accepted m o => enterArpCheck { s with last := some (m, o) }
  | .rebinding, _ => toPurge s []

/-- The client starts in `statePurgeInterface`. -/
def cinit : CState × List Eff := ({ st := .discovering }, purgeEffs)

/-- Run a list of events, collecting all effects. -/
def crun (mac : Bytes) (route : Bool) : CState → List CEv → CState × List Eff
  | s, [] => (s, [])
  | s, e :: rest =>
    let r := cstep mac route s e
    let r' := crun mac route r.1 rest
    (r'.1, r.2 ++ r'.2)

end PsaDhcp
