import PsaDhcp.Model.Bytes
/-
M3 — `lib/dhcpmsg`: Decode, Assemble, DecodeOptions and the option constructors.
-/
namespace PsaDhcp

structure Opt where
  code : UInt8
  data : Bytes
deriving DecidableEq, Repr

structure Msg where
  op : UInt8
  htype : UInt8
  hops : UInt8
  xid : Nat
  secs : Nat
  flags : Nat
  ciaddr : Option Ip4
  yiaddr : Option Ip4
  siaddr : Option Ip4
  giaddr : Option Ip4
  chaddr : Bytes
  sname : Bytes
  file : Bytes
  cookie : Nat
  options : List Opt
deriving DecidableEq, Repr

/-! ### parse.go -/

/-- The option loop of `Decode`, index-faithful: `c` is the cursor into the whole packet `b`,
`opt` the last option code read.  Returns the final `opt` and the options collected. -/
def walkIdx (b : Bytes) : (fuel : Nat) → (c : Nat) → (opt : UInt8) → (acc : List Opt) → R (UInt8 × List Opt)
  | 0, _, opt, acc => pure (opt, acc)
  | f + 1, c, opt, acc =>
    if c < b.length then do
      let o ← idx b c "parse.go:42"
      let c := c + 1
      if o = 0 then walkIdx b f c o acc
      else if ¬ (c < b.length) ∨ o = 0xff then pure (o, acc)
      else do
        let l ← idx b c "parse.go:49"
        let c := c + 1
        if ¬ (c + l.toNat ≤ b.length) then pure (o, acc)
        else do
          let d ← slice b c (c + l.toNat) "parse.go:53"
          walkIdx b f (c + l.toNat) o (acc ++ [⟨o, d⟩])
    else pure (opt, acc)

def ip4At (b : Bytes) (i : Nat) (site : String) : R Ip4 := do
  let x0 ← idx b i site
  let x1 ← idx b (i + 1) site
  let x2 ← idx b (i + 2) site
  let x3 ← idx b (i + 3) site
  pure ⟨x0, x1, x2, x3⟩

def decode (b : Bytes) : R Msg := do
  if b.length < 240 then throw (.reject "short dhcpmsg")
  let hlen ← idx b 2 "parse.go:19"
  let op ← idx b 0 "parse.go:21"
  let htype ← idx b 1 "parse.go:22"
  let hops ← idx b 3 "parse.go:23"
  let xid ← be32At b 4 "parse.go:24"
  let secs ← be16At b 8 "parse.go:25"
  let flags ← be16At b 10 "parse.go:26"
  let cookie ← be32At b 236 "parse.go:27"
  let ci ← ip4At b 12 "parse.go:28"
  let yi ← ip4At b 16 "parse.go:29"
  let si ← ip4At b 20 "parse.go:30"
  let gi ← ip4At b 24 "parse.go:31"
  let s28 ← slice b 28 b.length "parse.go:35"
  let s44 ← slice b 44 b.length "parse.go:36"
  let s108 ← slice b 108 b.length "parse.go:37"
  let (opt, opts) ← walkIdx b b.length 240 0 []
  if opt ≠ 0xff then throw (.reject "truncated options")
  pure { op := op, htype := htype, hops := hops, xid := xid, secs := secs, flags := flags,
         ciaddr := some ci, yiaddr := some yi, siaddr := some si, giaddr := some gi,
         chaddr := copyInto hlen.toNat s28, sname := copyInto 64 s44, file := copyInto 128 s108,
         cookie := cookie, options := opts }

/-! ### assemble.go -/

/-- One option on the wire; the length byte is `uint8(len(data))` (truncating, as in Go). -/
def Opt.wire (o : Opt) : Bytes := [o.code, UInt8.ofNat (o.data.length % 256)] ++ o.data

def optsWire : List Opt → Bytes
  | [] => []
  | o :: r => o.wire ++ optsWire r

def Msg.header (m : Msg) : Bytes :=
  [m.op, m.htype, UInt8.ofNat (m.chaddr.length % 256), m.hops] ++ put32 m.xid ++ put16 m.secs ++ put16 m.flags
    ++ optIpBytes m.ciaddr ++ optIpBytes m.yiaddr ++ optIpBytes m.siaddr ++ optIpBytes m.giaddr
    ++ copyInto 16 m.chaddr ++ copyInto 64 m.sname ++ copyInto 128 m.file ++ put32 m.cookie

def Msg.assemble (m : Msg) : Bytes :=
  m.header ++ optsWire m.options ++ (if m.options.isEmpty then [] else [0xff])

/-! ### optshelper.go -/

structure DecodedOptions where
  messageType : UInt8 := 0
  maxMessageSize : Nat := 0
  interfaceMTU : Nat := 0
  requestedIP : Option Ip4 := none
  serverIdentifier : Option Ip4 := none
  broadcastAddress : Option Ip4 := none
  subnetMask : Option Ip4 := none
  routers : List Ip4 := []
  dns : List Ip4 := []
  leaseSecs : Nat := 0          -- IPAddressLeaseDuration / time.Second
  renewalSecs : Nat := 0
  rebindSecs : Nat := 0
  domainName : Bytes := []
  clientIdentifier : Bytes := []
  message : Bytes := []
  parametersList : Bytes := []
deriving DecidableEq, Repr

def toUint8 (x : Bytes) : UInt8 := match x with | [a] => a | _ => 0
def toUint16 (x : Bytes) : Nat := match x with | [a, b] => a.toNat * 256 + b.toNat | _ => 0
def toSecs (x : Bytes) : Nat := match x with | [_, _, _, _] => be32 x | _ => 0
def toNetmask (x : Bytes) : Option Ip4 := Ip4.ofBytes? x

def chunks4 : (fuel : Nat) → Bytes → List Ip4
  | 0, _ => []
  | f + 1, a :: b :: c :: d :: r => ⟨a, b, c, d⟩ :: chunks4 f r
  | _ + 1, _ => []

def toV4A (x : Bytes) : List Ip4 :=
  if 4 ≤ x.length ∧ x.length % 4 = 0 then chunks4 x.length x else []

def toV4 (x : Bytes) : Option Ip4 := match toV4A x with | [i] => some i | _ => none

def applyOpt (d : DecodedOptions) (o : Opt) : DecodedOptions :=
  if o.code = 1 then { d with subnetMask := toNetmask o.data }
  else if o.code = 3 then { d with routers := toV4A o.data }
  else if o.code = 6 then { d with dns := toV4A o.data }
  else if o.code = 15 then { d with domainName := o.data }
  else if o.code = 28 then { d with broadcastAddress := toV4 o.data }
  else if o.code = 50 then { d with requestedIP := toV4 o.data }
  else if o.code = 51 then { d with leaseSecs := toSecs o.data }
  else if o.code = 53 then { d with messageType := toUint8 o.data }
  else if o.code = 57 then { d with maxMessageSize := toUint16 o.data }
  else if o.code = 26 then { d with interfaceMTU := toUint16 o.data }
  else if o.code = 54 then { d with serverIdentifier := toV4 o.data }
  else if o.code = 56 then { d with message := o.data }
  else if o.code = 58 then { d with renewalSecs := toSecs o.data }
  else if o.code = 59 then { d with rebindSecs := toSecs o.data }
  else if o.code = 61 then { d with clientIdentifier := o.data }
  else if o.code = 55 then { d with parametersList := o.data }
  else d

def decodeOptions (opts : List Opt) : DecodedOptions := opts.foldl applyOpt {}

/-! ### option constructors -/

def optType (t : UInt8) : Opt := ⟨53, [t]⟩
def optIPs (code : UInt8) (ips : List (Option Ip4)) : Opt := ⟨code, (ips.map optIpBytes).flatten⟩
def optServerIdentifier (ip : Option Ip4) : Opt := optIPs 54 [ip]
def optRequestedIP (ip : Option Ip4) : Opt := optIPs 50 [ip]
def optRouter (ip : Option Ip4) : Opt := optIPs 3 [ip]
def optDNS (ips : List Ip4) : Opt := optIPs 6 (ips.map some)
def optNTP (ips : List Ip4) : Opt := optIPs 42 (ips.map some)
def optDomainName (n : Bytes) : Opt := ⟨15, n⟩
def optHostname (n : Bytes) : Opt := ⟨12, n⟩
def optMaxMessageSize (n : Nat) : Opt := ⟨57, put16 n⟩
def optInterfaceMTU (n : Nat) : Opt := ⟨26, put16 n⟩
def optParametersList (p : Bytes) : Opt := ⟨55, p⟩
/-- `uint32(d.Seconds())` for a duration of `secs` whole seconds plus a fraction. -/
def optLease (secs : Nat) : Opt := ⟨51, put32 secs⟩
def optSubnetMask (mask : Bytes) : Opt := ⟨1, mask⟩

/-! ### CRC-32 (IEEE), bitwise, for `OptionClientIdentifier` -/

def crcBit (c : Nat) : Nat := if c % 2 = 1 then (c / 2) ^^^ 0xEDB88320 else c / 2

def crcByte (c : Nat) (x : UInt8) : Nat :=
  let c := c ^^^ x.toNat
  crcBit (crcBit (crcBit (crcBit (crcBit (crcBit (crcBit (crcBit c)))))))

def crc32 (b : Bytes) : Nat := (b.foldl crcByte 0xFFFFFFFF) ^^^ 0xFFFFFFFF

/-- `OptionClientIdentifier(hwaddr)`: `ff ‖ crc32(hw) ‖ 00 03 00 01 ‖ hw[:6]` (zero padded). -/
def optClientIdentifier (hw : Bytes) : Opt :=
  ⟨61, [0xff] ++ put32 (crc32 hw) ++ [0, 3, 0, 1] ++ copyInto 6 hw⟩

end PsaDhcp
