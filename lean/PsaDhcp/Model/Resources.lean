import PsaDhcp.Model.Bytes
/-
M10 — socket and goroutine discipline of the functions that open raw sockets
(`arpping.{catchARPReply,sendARPPing}`, `server.{Run,sendUnicast}`, `dclient.{sendMessage,catchReply}`).
Each function follows one of three disciplines (extracted per call site by factgen and pinned in
`Expect.lean`); the model executes a discipline under an arbitrary schedule of outcomes — socket
creation failing, reads / writes failing or succeeding any number of times, the function
returning from its loop, the parent context being cancelled at any point.
-/
namespace PsaDhcp

inductive Discipline where
  | deferClose        -- s, err := Get…Sock(); if err … return; defer s.Close(); <body>
  | closeAfterUse     -- s, err := Get…Sock(); if err … return; s.Write(p); s.Close()
  | closerOnCancel    -- s, err := Get…Sock(); if err … return; ctx, cancel := WithCancel(parent); defer cancel();
                      -- go func() { <-ctx.Done(); s.Close() }(); for { s.Read … return on error / match }
  | unknown
deriving DecidableEq, Repr

/-- What happens next, chosen by the environment. -/
inductive Outcome where
  | openFails
  | ioOk              -- a read / write succeeds and the loop goes on
  | ioFails           -- a read / write fails (for a closed socket: always)
  | bodyReturns       -- the body decides to return (answer found, context done, …)
  | parentCancelled   -- the parent context is cancelled
deriving DecidableEq, Repr

structure RState where
  opened : Nat := 0
  closed : Nat := 0          -- effective closes (a second Close of the same socket is a no-op)
  sockOpen : Bool := false
  started : Bool := false    -- socket creation attempted
  running : Bool := true     -- the function has not returned yet
  closerAlive : Bool := false
  ctxDone : Bool := false
deriving DecidableEq, Repr

def closeSock (s : RState) : RState :=
  if s.sockOpen then { s with sockOpen := false, closed := s.closed + 1 } else s

/-- The function returns: deferred actions run. -/
def ret (d : Discipline) (s : RState) : RState :=
  match d with
  | .deferClose | .closeAfterUse => { (closeSock s) with running := false }
  | .closerOnCancel => { s with running := false, ctxDone := true }      -- deferred cancel(); the closer does the Close
  | .unknown => { s with running := false }

/-- One scheduling step. The closer goroutine runs whenever its context is done. -/
def rstep (d : Discipline) (s : RState) (o : Outcome) : RState :=
  -- the closer goroutine, if runnable, runs first (it is never blocked once ctx is done)
  let s := if s.closerAlive ∧ s.ctxDone then { (closeSock s) with closerAlive := false } else s
  if ¬ s.running then s
  else if ¬ s.started then
    match o with
    | .openFails => { s with started := true, running := false }
    | .parentCancelled => { s with ctxDone := true }
    | _ =>
      let s := { s with started := true, opened := s.opened + 1, sockOpen := true }
      if d = .closerOnCancel then { s with closerAlive := true } else s
  else
    match o with
    | .parentCancelled => { s with ctxDone := true }
    | .bodyReturns => ret d s
    | .ioFails => ret d s
    | .ioOk =>
      if d = .closeAfterUse then ret d s          -- one write, then Close, then return
      else if ¬ s.sockOpen then ret d s           -- I/O on a closed socket fails
      else s
    | .openFails => s

def rrun (d : Discipline) (s : RState) (os : List Outcome) : RState := os.foldl (rstep d) s

/-- Quiescence: the function has returned and the closer (if any) has run. -/
def settle (d : Discipline) (s : RState) : RState :=
  if s.closerAlive ∧ s.ctxDone then { (closeSock s) with closerAlive := false } else s

/-! ### The socket constructors of lib/rsocks

`getSendSock` / `getRecvSock`: `syscall.Socket`, then set-up calls (bind, set non-blocking) each of which may fail; on a
failure the function returns the error. `closes[i]` is whether the code closes the descriptor before the i-th such return
(extracted from the source by factgen: `Facts.ctorSendCloses`, `Facts.ctorRecvCloses`). -/

structure CtorRun where
  opened : Nat
  closed : Nat
  handedOut : Bool      -- success: the descriptor now belongs to the caller (whose discipline is one of the three above)
deriving DecidableEq, Repr

/-- Run the set-up steps: `fails[i]` says whether step i fails (a missing entry: it succeeds). -/
def ctorSteps : List Bool → List Bool → CtorRun
  | [], _ => ⟨1, 0, true⟩
  | c :: cs, fails =>
    if fails.headD false then ⟨1, if c then 1 else 0, false⟩ else ctorSteps cs fails.tail

def ctorRun (closes : List Bool) (sockFails : Bool) (fails : List Bool) : CtorRun :=
  if sockFails then ⟨0, 0, false⟩ else ctorSteps closes fails

end PsaDhcp
