import PsaDhcp.Code.Bridge
import PsaDhcp.Proofs.Wire
/-
lib/layer/checksum.go: the translated `ipv4csum` equals the model's, for every input; in
particular the two loops never run out of fuel (the carry-folding loop runs at most twice).
-/
namespace PsaDhcp.Proofs.CodeCsum
open PsaDhcp PsaDhcp.Go PsaDhcp.Code PsaDhcp.Proofs.Wire

/-! ### Prelude primitive: indexing -/

theorem idx_append_cons (pre : Bytes) (a : UInt8) (r : Bytes) (site : String) :
    Go.idx (pre ++ a :: r) (Int.ofNat pre.length) site = .ok a := by
  unfold Go.idx
  have h : ¬ (Int.ofNat pre.length < 0) := by simp only [Int.ofNat_eq_natCast]; omega
  rw [if_neg h]
  simp [pure, Except.pure]

theorem idx_append_cons' (pre : Bytes) (a : UInt8) (r : Bytes) (i : Int) (site : String)
    (hi : i = Int.ofNat pre.length) :
    Go.idx (pre ++ a :: r) i site = .ok a := by
  subst hi; exact idx_append_cons pre a r site

/-- Whether an index expression succeeds, and its value, do not depend on the site label. -/
theorem idx_site_indep {b : Bytes} {i : Int} {s : String} {x : UInt8}
    (h : Go.idx b i s = .ok x) (s' : String) : Go.idx b i s' = .ok x := by
  unfold Go.idx at h ⊢
  split
  · rename_i hi; rw [if_pos hi] at h; cases h
  · rename_i hi; rw [if_neg hi] at h
    cases hg : b[i.toNat]? with
    | none => rw [hg] at h; cases h
    | some y => rw [hg] at h; exact h

/-! ### `uint32` arithmetic of the accumulation step -/

theorem step_hi (acc : UInt32) (a : UInt8) :
    (acc + (a.toUInt32 <<< (8 : UInt32))).toNat = (acc.toNat + a.toNat * 256) % 4294967296 := by
  have ha : a.toNat < 256 := a.toNat_lt
  rw [UInt32.toNat_add, UInt32.toNat_shiftLeft, UInt8.toNat_toUInt32]
  have e : (8 : UInt32).toNat % 32 = 8 := by decide
  rw [e, Nat.shiftLeft_eq]
  have : a.toNat * 2 ^ 8 % 2 ^ 32 = a.toNat * 256 := by omega
  rw [this]

theorem step_lo (acc : UInt32) (a : UInt8) :
    (acc + a.toUInt32).toNat = (acc.toNat + a.toNat) % 4294967296 := by
  rw [UInt32.toNat_add, UInt8.toNat_toUInt32]

/-! ### The accumulation loop followed by the odd trailing byte -/

/-- `if len(b)%2 == 1 { acc += uint32(b[length]) << 8 }` -/
def oddStep (b : Bytes) (site : String) (acc : UInt32) : R UInt32 :=
  if (Int.tmod (Int.ofNat b.length) (2 : Int)) == (1 : Int) then
    (Go.idx b ((Int.ofNat b.length) - (1 : Int)) site).bind
      (fun x => .ok (acc + (x.toUInt32 <<< (8 : UInt32))))
  else .ok acc

theorem tmod_two (n : Nat) : Int.tmod (Int.ofNat n) (2 : Int) = ((n % 2 : Nat) : Int) := rfl

theorem oddStep_even (b : Bytes) (site : String) (acc : UInt32) (h : b.length % 2 = 0) :
    oddStep b site acc = .ok acc := by
  unfold oddStep
  rw [tmod_two, h]; rfl

theorem oddStep_odd (b : Bytes) (site : String) (acc : UInt32) (h : b.length % 2 = 1) :
    oddStep b site acc = (Go.idx b ((Int.ofNat b.length) - (1 : Int)) site).bind
      (fun x => .ok (acc + (x.toUInt32 <<< (8 : UInt32)))) := by
  unfold oddStep
  rw [tmod_two, h]; rfl

theorem loop1_stop (b : Bytes) (length : Int) (fuel : Nat) (acc : UInt32) (i : Int)
    (h : ¬ i < length) :
    Gen.layer.ipv4csum.loop1 b length (fuel + 1) (acc, i) = .ok (acc, i) := by
  simp [Gen.layer.ipv4csum.loop1, h]; rfl

theorem loop1_step (b : Bytes) (length : Int) (fuel : Nat) (acc : UInt32) (i : Int) (x y : UInt8)
    (h : i < length) (hx : ∀ site, Go.idx b i site = .ok x)
    (hy : ∀ site, Go.idx b (i + 1) site = .ok y) :
    Gen.layer.ipv4csum.loop1 b length (fuel + 1) (acc, i)
      = Gen.layer.ipv4csum.loop1 b length fuel
          (acc + (x.toUInt32 <<< (8 : UInt32)) + y.toUInt32, i + 2) := by
  simp only [Gen.layer.ipv4csum.loop1, h, hx, hy, bind, Except.bind, pure, Except.pure,
    decide_true, Bool.not_true, Bool.false_eq_true, if_false]

theorem loop1_spec : ∀ (rest pre : Bytes) (acc : UInt32) (fuel : Nat) (site : String),
    pre.length % 2 = 0 → rest.length + 1 ≤ fuel →
    ∃ st, Gen.layer.ipv4csum.loop1 (pre ++ rest) ((Int.ofNat (pre ++ rest).length) - (1 : Int)) fuel
            (acc, Int.ofNat pre.length) = .ok st ∧
      ∃ r, oddStep (pre ++ rest) site st.1 = .ok r ∧ r.toNat = accWords rest acc.toNat
  | [], pre, acc, fuel, site, hp, hf => by
    obtain ⟨fuel, rfl⟩ : ∃ f, fuel = f + 1 := ⟨fuel - 1, by simp at hf; omega⟩
    refine ⟨(acc, Int.ofNat pre.length), ?_, acc, ?_, ?_⟩
    · apply loop1_stop
      simp only [Int.ofNat_eq_natCast, List.append_nil]; omega
    · exact oddStep_even _ _ _ (by simpa using hp)
    · simp [accWords]
  | [a], pre, acc, fuel, site, hp, hf => by
    obtain ⟨fuel, rfl⟩ : ∃ f, fuel = f + 1 := ⟨fuel - 1, by simp at hf; omega⟩
    refine ⟨(acc, Int.ofNat pre.length), ?_, acc + (a.toUInt32 <<< (8 : UInt32)), ?_, ?_⟩
    · apply loop1_stop
      simp only [Int.ofNat_eq_natCast, List.length_append, List.length_singleton]; omega
    · rw [oddStep_odd _ _ _ (by simp only [List.length_append, List.length_singleton]; omega)]
      rw [idx_append_cons' pre a [] _ site (by
        simp only [Int.ofNat_eq_natCast, List.length_append, List.length_singleton]; omega)]
      rfl
    · rw [step_hi]; simp [accWords]
  | a :: c :: r, pre, acc, fuel, site, hp, hf => by
    obtain ⟨fuel, rfl⟩ : ∃ f, fuel = f + 1 := ⟨fuel - 1, by simp at hf; omega⟩
    have e : pre ++ a :: c :: r = (pre ++ [a, c]) ++ r := by simp
    have ih := loop1_spec r (pre ++ [a, c]) (acc + (a.toUInt32 <<< (8 : UInt32)) + c.toUInt32) fuel site
      (by simp; omega) (by simp at hf; omega)
    rw [← e] at ih
    rw [loop1_step (pre ++ a :: c :: r) _ fuel acc _ a c
      (by simp only [Int.ofNat_eq_natCast, List.length_append, List.length_cons]; omega)
      (fun s => idx_append_cons pre a (c :: r) s)
      (fun s => by
        have e1 : pre ++ a :: c :: r = (pre ++ [a]) ++ c :: r := by simp
        rw [e1]; apply idx_append_cons'
        simp only [Int.ofNat_eq_natCast, List.length_append, List.length_singleton]; omega)]
    have e2 : Int.ofNat pre.length + 2 = Int.ofNat (pre ++ [a, c]).length := by
      simp only [Int.ofNat_eq_natCast, List.length_append, List.length_cons, List.length_nil]; omega
    rw [e2]
    obtain ⟨st, h1, r', h2, h3⟩ := ih
    refine ⟨st, h1, r', h2, ?_⟩
    rw [h3, step_lo, step_hi, accWords]

/-! ### The carry-folding loop: at most two iterations for any `uint32` -/

theorem loop2_stop (fuel : Nat) (acc : UInt32) (h : acc.toNat ≤ 65535) :
    Gen.layer.ipv4csum.loop2 (fuel + 1) acc = .ok acc := by
  have h' : ¬ (acc > (65535 : UInt32)) := by
    rw [gt_iff_lt, UInt32.lt_iff_toNat_lt]; show ¬ (65535 < acc.toNat); omega
  simp [Gen.layer.ipv4csum.loop2, h']; rfl

theorem carry_toNat (acc : UInt32) :
    ((acc >>> (16 : UInt32)) + ((acc.toUInt16).toUInt32)).toNat
      = acc.toNat / 65536 + acc.toNat % 65536 := by
  have hlt : acc.toNat < 4294967296 := acc.toNat_lt
  rw [UInt32.toNat_add, UInt32.toNat_shiftRight, UInt16.toNat_toUInt32, UInt32.toNat_toUInt16]
  have e : (16 : UInt32).toNat % 32 = 16 := by decide
  rw [e, Nat.shiftRight_eq_div_pow]
  omega

theorem loop2_step (fuel : Nat) (acc : UInt32) (h : 65535 < acc.toNat) :
    Gen.layer.ipv4csum.loop2 (fuel + 1) acc
      = Gen.layer.ipv4csum.loop2 fuel ((acc >>> (16 : UInt32)) + ((acc.toUInt16).toUInt32)) := by
  have h' : acc > (65535 : UInt32) := by
    rw [gt_iff_lt, UInt32.lt_iff_toNat_lt]; exact h
  simp only [Gen.layer.ipv4csum.loop2, h', pure, Except.pure,
    decide_true, Bool.not_true, Bool.false_eq_true, if_false]

theorem fold_step (a : Nat) (h : 65535 < a) : fold a = fold (a / 65536 + a % 65536) := by
  rw [fold]; simp [h]

theorem loop2_spec (acc : UInt32) :
    ∃ r, Gen.layer.ipv4csum.loop2 3 acc = .ok r ∧ r.toNat = fold acc.toNat := by
  have hlt : acc.toNat < 4294967296 := acc.toNat_lt
  by_cases h0 : acc.toNat ≤ 65535
  · exact ⟨acc, loop2_stop 2 acc h0, (fold_small _ h0).symm⟩
  · have hc := carry_toNat acc
    rw [loop2_step 2 acc (by omega), fold_step _ (by omega), ← hc]
    generalize (acc >>> (16 : UInt32)) + ((acc.toUInt16).toUInt32) = acc1 at hc
    by_cases h1 : acc1.toNat ≤ 65535
    · exact ⟨acc1, loop2_stop 1 acc1 h1, (fold_small _ h1).symm⟩
    · have hc1 := carry_toNat acc1
      rw [loop2_step 1 acc1 (by omega), fold_step _ (by omega), ← hc1]
      generalize (acc1 >>> (16 : UInt32)) + ((acc1.toUInt16).toUInt32) = acc2 at hc1
      have h2 : acc2.toNat ≤ 65535 := by omega
      exact ⟨acc2, loop2_stop 0 acc2 h2, (fold_small _ h2).symm⟩

theorem not_toUInt16 (r : UInt32) (n : Nat) (h : r.toNat = n) (hn : n ≤ 0xFFFF) :
    ~~~(r.toUInt16) = UInt16.ofNat (0xFFFF - n) := by
  apply UInt16.toNat_inj.mp
  rw [UInt16.toNat_not, UInt32.toNat_toUInt16, UInt16.toNat_ofNat', h]
  have : UInt16.size = 65536 := rfl
  omega

/-- `ipv4csum(b, acc)` -/
theorem ipv4csum_eq (b : Bytes) (acc : UInt32) :
    Gen.layer.ipv4csum b acc = .ok (UInt16.ofNat (ipv4csum b acc.toNat)) := by
  obtain ⟨st, h1, r, h2, h3⟩ := loop1_spec b [] acc (b.length + 1) "" rfl (Nat.le_refl _)
  obtain ⟨r2, h4, h5⟩ := loop2_spec r
  simp only [List.nil_append, List.length_nil] at h1 h2
  have h1' : Gen.layer.ipv4csum.loop1 b (Int.ofNat b.length - 1) (b.length + 1) (acc, (0 : Int))
      = .ok st := h1
  have hle := fold_le (accWords b acc.toNat)
  unfold Gen.layer.ipv4csum ipv4csum
  simp only [bind, Except.bind, pure, Except.pure, h1']
  by_cases hpar : b.length % 2 = 1
  · have hc : ((Int.tmod (Int.ofNat b.length) (2 : Int)) == (1 : Int)) = true := by
      rw [tmod_two, hpar]; rfl
    rw [oddStep_odd _ _ _ hpar] at h2
    cases hx : Go.idx b (Int.ofNat b.length - 1) "" with
    | error e => rw [hx] at h2; cases h2
    | ok x =>
      rw [hx] at h2
      have h2' : st.fst + (x.toUInt32 <<< (8 : UInt32)) = r := by
        simpa [Except.bind] using h2
      have hx' := idx_site_indep hx
      simp only [hc, if_true, hx', h2', h4]
      rw [not_toUInt16 r2 _ (by rw [h5, h3]) hle]
  · have hc : ¬ ((Int.tmod (Int.ofNat b.length) (2 : Int)) == (1 : Int)) = true := by
      rw [tmod_two]
      have : b.length % 2 = 0 := by omega
      rw [this]; decide
    rw [oddStep_even _ _ _ (by omega)] at h2
    have h2' : st.fst = r := by simpa using h2
    simp only [hc, Bool.false_eq_true, if_false, h2', h4]
    rw [not_toUInt16 r2 _ (by rw [h5, h3]) hle]

end PsaDhcp.Proofs.CodeCsum
