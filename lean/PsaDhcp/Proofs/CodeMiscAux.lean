import PsaDhcp.Code.Bridge
import PsaDhcp.Model.Ipdb
/-
Helper lemmas for `Proofs/CodeMisc.lean`.
-/
namespace PsaDhcp.Proofs.CodeMiscAux
open PsaDhcp PsaDhcp.Go PsaDhcp.Code

/-! ### Prelude primitives -/

theorem makeList_ofNat {α : Type} (z : α) (n : Nat) (site : String) :
    Go.makeList z (Int.ofNat n) site = .ok (List.replicate n z) := by
  simp [Go.makeList, pure, Except.pure]

theorem makeList_nonneg {α : Type} (z : α) (n : Int) (h : 0 ≤ n) (site : String) :
    Go.makeList z n site = .ok (List.replicate n.toNat z) := by
  have : ¬ n < 0 := by omega
  simp [Go.makeList, pure, Except.pure, this]

theorem slice_ok {α : Type} (b : List α) (lo hi : Int) (site : String)
    (h : 0 ≤ lo ∧ lo ≤ hi ∧ hi ≤ (b.length : Int)) :
    Go.slice b lo hi site = .ok ((b.take hi.toNat).drop lo.toNat) := by
  simp [Go.slice, h, pure, Except.pure]

theorem sliceFrom_zero {α : Type} (b : List α) (site : String) :
    Go.sliceFrom b 0 site = .ok b := by
  simp [Go.sliceFrom, Go.slice, pure, Except.pure]

theorem copyAt_ok {α : Type} (b : List α) (lo hi : Int) (src : List α) (site : String)
    (h : 0 ≤ lo ∧ lo ≤ hi ∧ hi ≤ (b.length : Int)) :
    Go.copyAt b lo hi src site = .ok (Go.overwrite b lo.toNat (src.take (hi - lo).toNat)) := by
  simp [Go.copyAt, h, pure, Except.pure]

theorem setIdx_ok {α : Type} (b : List α) (i : Int) (v : α) (site : String)
    (h : 0 ≤ i ∧ i < (b.length : Int)) :
    Go.setIdx b i v site = .ok (b.set i.toNat v) := by
  simp [Go.setIdx, h, pure, Except.pure]

theorem overwrite_append {α : Type} (p z s : List α) (n : Nat) (hn : n = p.length) :
    Go.overwrite (p ++ z) n s = p ++ s ++ z.drop s.length := by
  subst hn
  simp [Go.overwrite]

/-! ### integer bytes -/

theorem u16Bytes_eq (v : UInt16) : Go.u16Bytes v = put16 v.toNat := by
  simp only [Go.u16Bytes, put16]
  congr 1
  · apply UInt8.toNat_inj.mp
    simp [Nat.shiftRight_eq_div_pow]
  · congr 1
    apply UInt8.toNat_inj.mp
    simp

theorem u32Bytes_eq (v : UInt32) : Go.u32Bytes v = put32 v.toNat := by
  simp only [Go.u32Bytes, put32]
  congr 1
  · apply UInt8.toNat_inj.mp
    simp [Nat.shiftRight_eq_div_pow]
  · congr 1
    · apply UInt8.toNat_inj.mp
      simp [Nat.shiftRight_eq_div_pow]
    · congr 1
      · apply UInt8.toNat_inj.mp
        simp [Nat.shiftRight_eq_div_pow]
      · congr 1
        apply UInt8.toNat_inj.mp
        simp


theorem put32_ofNat (n : Nat) : put32 (UInt32.ofNat n).toNat = put32 n := by
  simp only [put32, UInt32.toNat_ofNat']
  have h1 : n % 2 ^ 32 / 16777216 % 256 = n / 16777216 % 256 := by omega
  have h2 : n % 2 ^ 32 / 65536 % 256 = n / 65536 % 256 := by omega
  have h3 : n % 2 ^ 32 / 256 % 256 = n / 256 % 256 := by omega
  have h4 : n % 2 ^ 32 % 256 = n % 256 := by omega
  rw [h1, h2, h3, h4]

/-! ### 16-bit options -/

/-- The common body of `OptionMaxMessageSize` / `OptionInterfaceMTU`. -/
theorem u16_data_eq (n : UInt16) (s1 s2 : String) (f : Bytes → Gen.dhcpmsg.DHCPOpt) :
    (do
      let data ← Go.makeList (0 : UInt8) (2 : Int) s1
      let __r1 ← Gen.dhcpmsg.setU16Int (← Go.slice data (0 : Int) (Int.ofNat data.length) s2) n
      let data := Go.writeBack data (0 : Int) __r1
      pure (f data) : R Gen.dhcpmsg.DHCPOpt) = .ok (f (put16 n.toNat)) := by
  simp [Go.makeList, Go.slice, Gen.dhcpmsg.setU16Int, Go.putU16, Go.writeBack, Go.overwrite,
    bind, Except.bind, pure, Except.pure, List.replicate, u16Bytes_eq, put16]


/-! ### `optIP` -/

theorem to4_cases (x : Bytes) :
    (Go.to4 x = [] ∧ ipOf x = none) ∨
    (∃ a b c d, Go.to4 x = [a, b, c, d] ∧ ipOf x = some ⟨a, b, c, d⟩) := by
  have hlen : (Go.to4 x).length = 4 ∨ Go.to4 x = [] := by
    unfold Go.to4
    split
    · left; assumption
    · split
      · rename_i h; left; simp [h.1]
      · right; rfl
  unfold ipOf
  rcases hlen with h | h
  · right
    match hv : Go.to4 x, h with
    | [a, b, c, d], _ => exact ⟨a, b, c, d, rfl, rfl⟩
  · left
    rw [h]; exact ⟨rfl, rfl⟩

theorem ipOf_ipToGen (i : Ip4) : ipOf (ipToGen i) = some i := by
  simp [ipOf, ipToGen, Go.netIPv4, Go.to4, Go.v4InV6Prefix, Ip4.ofBytes?]

theorem ipOf_comp_ipToGen : ipOf ∘ ipToGen = some := by
  funext i; exact ipOf_ipToGen i

theorem optIP_loop (xs : List Bytes) : ∀ (i : Nat) (pre : Bytes), pre.length = 4 * i →
    Gen.dhcpmsg.optIP.loop1 xs (i : Int) (pre ++ List.replicate (4 * xs.length) 0) =
      .ok (pre ++ ((xs.map ipOf).map optIpBytes).flatten) := by
  induction xs with
  | nil => intro i pre _; simp [Gen.dhcpmsg.optIP.loop1, pure, Except.pure]
  | cons x rest ih =>
    intro i pre hpre
    have hrep : List.replicate (4 * (x :: rest).length) (0 : UInt8)
        = [0, 0, 0, 0] ++ List.replicate (4 * rest.length) 0 := by
      have : 4 * (x :: rest).length = 4 + 4 * rest.length := by simp; omega
      rw [this, ← List.replicate_append_replicate]; rfl
    rcases to4_cases x with ⟨h4, hip⟩ | ⟨a, b, c, d, h4, hip⟩
    · have := ih (i + 1) (pre ++ [0, 0, 0, 0]) (by simp [hpre]; omega)
      simp only [Gen.dhcpmsg.optIP.loop1, h4, hrep, bind, Except.bind]
      simpa [hip, optIpBytes] using this
    · have := ih (i + 1) (pre ++ [a, b, c, d]) (by simp [hpre]; omega)
      have hs : ∀ site, Go.slice [a, b, c, d] 0 4 site = .ok [a, b, c, d] := by
        intro site; simp [Go.slice, pure, Except.pure]
      have hc : ∀ site, Go.copyAt (pre ++ ([0, 0, 0, 0] ++ List.replicate (4 * rest.length) (0 : UInt8)))
          ((i : Int) * 4) (Int.ofNat (pre ++ ([0, 0, 0, 0] ++ List.replicate (4 * rest.length) (0 : UInt8))).length)
          [a, b, c, d] site = .ok (pre ++ ([a, b, c, d] ++ List.replicate (4 * rest.length) 0)) := by
        intro site
        rw [copyAt_ok _ _ _ _ _ (by simp [hpre]; omega)]
        rw [overwrite_append _ _ _ _ (by simp [hpre]; omega)]
        have : ((Int.ofNat (pre ++ ([0, 0, 0, 0] ++ List.replicate (4 * rest.length) (0 : UInt8))).length)
            - (i : Int) * 4).toNat = 4 + 4 * rest.length := by
          simp [hpre]; omega
        rw [this, List.take_of_length_le (by simp)]
        simp
      simp only [Gen.dhcpmsg.optIP.loop1, h4, hrep, bind, Except.bind, hs, hc]
      simpa [hip, optIpBytes, Ip4.bytes] using this

theorem optIP_aux (code : UInt8) (ips : List Bytes) :
    Gen.dhcpmsg.optIP code ips = .ok (optToGen (optIPs code (ips.map ipOf))) := by
  have h := optIP_loop ips 0 [] rfl
  simp only [List.nil_append] at h
  have hm : ((4 : Int) * Int.ofNat ips.length) = Int.ofNat (4 * ips.length) := by
    simp
  simp only [Gen.dhcpmsg.optIP, hm, makeList_ofNat, bind, Except.bind, pure, Except.pure]
  have h0 : (0 : Int) = ((0 : Nat) : Int) := rfl
  rw [h0, h]
  rfl


/-! ### `OptionParametersList` -/

theorem params_loop (ps : Bytes) : ∀ (pre : Bytes),
    Gen.dhcpmsg.OptionParametersList.loop1 ps (pre.length : Int) (pre ++ List.replicate ps.length 0) =
      .ok (pre ++ ps) := by
  induction ps with
  | nil => intro pre; simp [Gen.dhcpmsg.OptionParametersList.loop1, pure, Except.pure]
  | cons p rest ih =>
    intro pre
    have := ih (pre ++ [p])
    have hset : ∀ site, Go.setIdx (pre ++ List.replicate (p :: rest).length (0 : UInt8)) (pre.length : Int) p site
        = .ok (pre ++ p :: List.replicate rest.length 0) := by
      intro site
      rw [setIdx_ok _ _ _ _ (by simp; omega)]
      simp [List.replicate_succ]
    simp only [Gen.dhcpmsg.OptionParametersList.loop1, bind, Except.bind, hset]
    simpa using this

theorem paramsList_aux (p : Bytes) :
    Gen.dhcpmsg.OptionParametersList p = .ok (optToGen (optParametersList p)) := by
  have h := params_loop p []
  simp only [List.nil_append, List.length_nil] at h
  simp only [Gen.dhcpmsg.OptionParametersList, makeList_ofNat, bind, Except.bind, pure, Except.pure]
  have h0 : (0 : Int) = ((0 : Nat) : Int) := rfl
  rw [h0, h]
  rfl

/-! ### `OptionClientIdentifier` -/

theorem clientId_aux (hw : Bytes) :
    Gen.dhcpmsg.OptionClientIdentifier hw = .ok (optToGen (optClientIdentifier hw)) := by
  have hmk : ∀ site, Go.makeList (0 : UInt8) (15 : Int) site
      = .ok ([0, 0, 0, 0, 0, 0, 0, 0, 0] ++ List.replicate 6 0) := by
    intro site; rfl
  have hsl : ∀ site, Go.slice ([0, 0, 0, 0, 0, 0, 0, 0, 0] ++ List.replicate 6 (0 : UInt8)) 1 5 site
      = .ok [0, 0, 0, 0] := by
    intro site; rfl
  have hset : ∀ v, Gen.dhcpmsg.setU32Int [0, 0, 0, 0] v = .ok (put32 v.toNat) := by
    intro v
    simp [Gen.dhcpmsg.setU32Int, Go.putU32, Go.overwrite, bind, Except.bind, pure, Except.pure,
      u32Bytes_eq, put32]
  have hwb : ∀ n, Go.writeBack ([0, 0, 0, 0, 0, 0, 0, 0, 0] ++ List.replicate 6 (0 : UInt8)) 1 (put32 n)
      = (0 :: put32 n ++ [0, 0, 0, 0]) ++ List.replicate 6 0 := by
    intro n; simp [Go.writeBack, Go.overwrite, put32]
  have hcp : ∀ n site, Go.copyAt ((0 :: put32 n ++ [0, 0, 0, 0]) ++ List.replicate 6 (0 : UInt8)) 9 15 hw site
      = .ok ((0 :: put32 n ++ [0, 0, 0, 0]) ++ copyInto 6 hw) := by
    intro n site
    rw [copyAt_ok _ _ _ _ _ (by simp [put32])]
    rw [overwrite_append _ _ _ _ (by simp [put32])]
    have : ((15 : Int) - 9).toNat = 6 := rfl
    rw [this]
    simp only [copyInto, List.append_assoc, List.drop_replicate, List.length_take]
    have h6 : 6 - min 6 hw.length = 6 - hw.length := by omega
    rw [h6]
  simp only [Gen.dhcpmsg.OptionClientIdentifier, hmk, hsl, sliceFrom_zero, hset, hwb, hcp,
    bind, Except.bind, pure, Except.pure]
  simp only [Go.crc32IEEE, put32_ofNat]
  simp only [put32, List.cons_append, List.nil_append]
  rw [setIdx_ok _ _ _ _ (by simp; omega)]
  simp only [List.set_cons_zero, show (0 : Int).toNat = 0 from rfl]
  rw [setIdx_ok _ _ _ _ (by simp; omega)]
  simp only [List.set_cons_zero, List.set_cons_succ, show (6 : Int).toNat = 6 from rfl]
  rw [setIdx_ok _ _ _ _ (by simp; omega)]
  simp only [List.set_cons_zero, List.set_cons_succ, show (8 : Int).toNat = 8 from rfl]
  rfl

/-! ### `uip` -/

theorem u32_and_255 (ux : UInt32) : (ux &&& (255 : UInt32)).toNat = ux.toNat % 256 := by
  rw [UInt32.toNat_and]
  exact Nat.and_two_pow_sub_one_eq_mod ux.toNat 8

theorem u8_and_255 (x : UInt8) : x &&& (255 : UInt8) = x := by
  apply UInt8.toNat_inj.mp
  rw [UInt8.toNat_and]
  have := Nat.and_two_pow_sub_one_eq_mod x.toNat 8
  have hx := x.toNat_lt
  simp at this hx ⊢
  omega

theorem u32_bne (a b : UInt32) : (a != b) = decide (a.toNat ≠ b.toNat) := by
  by_cases h : a = b
  · subst h; simp
  · have : a.toNat ≠ b.toNat := fun e => h (UInt32.toNat_inj.mp e)
    simp [h, this]

theorem uipValid_aux (ux : UInt32) : Gen.uip.Uip_Valid ux = IPDB.validUip ux.toNat := by
  simp only [Gen.uip.Uip_Valid, IPDB.validUip, Id.run, pure, u32_bne, u32_and_255]
  rfl

theorem uipToV4_aux (ux : UInt32) : Gen.uip.Uip_ToV4 ux = ipToGen (Ip4.ofNat ux.toNat) := by
  have h := u32Bytes_eq ux
  simp only [Go.u32Bytes, put32, List.cons.injEq, and_true] at h
  obtain ⟨ha, hb, hc, hd⟩ := h
  simp only [Gen.uip.Uip_ToV4, Id.run, pure, u8_and_255, ipToGen, Ip4.ofNat]
  rw [← ha, ← hb, ← hc, ← hd]

end PsaDhcp.Proofs.CodeMiscAux
