import PsaDhcp.Model.Verdict
import PsaDhcp.Model.System
import PsaDhcp.Spec.ServerSpec
import PsaDhcp.Proofs.Ipdb
import PsaDhcp.Proofs.Safety
/-
Proofs for C05 (`Props/C05.lean`) and C09 (`Props/C09.lean`), on top of `Proofs/Ipdb.lean` (table-level facts) and
`Proofs/Safety.lean` (the invariant `Inv` of reachable systems).

* `step_elim` and the `step_*_some/none` equations describe one event of `Sys.step` with its database call abstracted
  (the kernel must never evaluate a call on a symbolic address, see `Proofs/Safety.lean`).
* `Extra` extends `Safety.Inv`: every unexpired grant is backed by a binding whose expiry covers it (also for permanent
  bindings), and unexpired grants to one holder carry one address.  `reach_extra` is its `reach_inv`.
* `handleV_*` / `handle_*` are the paths of the sequential handler, used for the C05 handler theorems and for
  `handle_is_a_run`.
* `C05.silent_only_if_exhausted` is FALSE as stated (`silent_only_if_exhausted_false`, a kernel-checked counterexample:
  a database whose dynamic range lies outside its network); `silent_only_if_exhausted_repaired` adds the missing
  hypothesis `db.netFrom ≤ db.dynFrom ∧ db.dynTo ≤ db.netTo`.
-/
namespace PsaDhcp.Proofs.Liveness
open PsaDhcp PsaDhcp.Spec PsaDhcp.Proofs.Ipdb PsaDhcp.Proofs.Safety

/-! ## One event, with the database call abstracted -/

section Step
variable {σ : Type}

/-- The reply a confirming `UpdateClient` justifies. -/
def grantOf (c : SrvCfg) (t : Int) (kind : ReplyKind) (rx : Rx) (duid : Duid) (a : Nat) : Except DbErr Unit → List Sent
  | .error _ => []
  | .ok _ => [⟨t, kind, a, duid, rx, leaseFrame c kind rx.msg (Ip4.ofNat a)⟩]

/-- The system after the confirming `UpdateClient` of handler `i` returned `u`. -/
def updResult (c : SrvCfg) (s : Sys σ) (i : Nat) (t : Int) (kind : ReplyKind) (rx : Rx) (duid : Duid) (a : Nat) (ttl : Int)
    (u : IPDB σ × Except DbErr Unit) : Sys σ :=
  { db := u.1, pend := s.pend.set i .done, sent := grantOf c t kind rx duid a u.2 ++ s.sent,
    calls := (t, DbOp.updateClient (some (Ip4.ofNat a)) duid ttl) :: s.calls }

theorem step_hold_some (S : Store σ) (c : SrvCfg) (s : Sys σ) (i : Nat) (t : Int) {rx : Rx} {duid : Duid} {a : Nat}
    (hp : s.pend[i]? = some (.a2 rx duid a)) :
    Sys.step S c s (.hold i t) =
      updResult c s i t .offer rx duid a offerHoldNs (s.db.updateClient S t (some (Ip4.ofNat a)) duid offerHoldNs) := by
  rw [Sys.step, hold_match hp]
  generalize s.db.updateClient S t (some (Ip4.ofNat a)) duid offerHoldNs = u
  obtain ⟨db', r⟩ := u
  cases r <;> rfl

theorem step_hold_none (S : Store σ) (c : SrvCfg) (s : Sys σ) (i : Nat) (t : Int)
    (hp : ∀ rx duid a, s.pend[i]? ≠ some (.a2 rx duid a)) : Sys.step S c s (.hold i t) = s := by
  rw [Sys.step, hold_match_other hp]

theorem step_lease_some (S : Store σ) (c : SrvCfg) (s : Sys σ) (i : Nat) (t : Int) {rx : Rx} {duid : Duid} {a : Nat}
    (hp : s.pend[i]? = some (.b2 rx duid a)) :
    Sys.step S c s (.lease i t) =
      updResult c s i t .ack rx duid a c.leaseNs (s.db.updateClient S t (some (Ip4.ofNat a)) duid c.leaseNs) := by
  rw [Sys.step, lease_match hp]
  generalize s.db.updateClient S t (some (Ip4.ofNat a)) duid c.leaseNs = u
  obtain ⟨db', r⟩ := u
  cases r <;> rfl

theorem step_lease_none (S : Store σ) (c : SrvCfg) (s : Sys σ) (i : Nat) (t : Int)
    (hp : ∀ rx duid a, s.pend[i]? ≠ some (.b2 rx duid a)) : Sys.step S c s (.lease i t) = s := by
  rw [Sys.step, lease_match_other hp]

/-- The system after `recv` of a decodable packet, given what `getDuid` returned. -/
def recvResult (c : SrvCfg) (s : Sys σ) (t : Int) (rx : Rx) (g : IPDB σ × Duid) : Sys σ :=
  { db := g.1,
    pend := s.pend ++ (match todo c g.1 rx with
      | .drop => [] | .discover => [.a1 rx g.2] | .request want => [.b1 rx g.2 want]),
    sent := s.sent, calls := (t, DbOp.lookupByDuid (sduid rx.msg.chaddr)) :: s.calls }

theorem step_recv_some (S : Store σ) (c : SrvCfg) (s : Sys σ) (t : Int) (b : Bytes) {rx : Rx}
    (hrx : rxChain b = .ok (some rx)) :
    Sys.step S c s (.recv t b) =
      recvResult c s t rx (getDuid S s.db t rx.msg.chaddr (decodeOptions rx.msg.options).clientIdentifier) := by
  rw [Sys.step, recv_match hrx]
  dsimp only
  generalize getDuid S s.db t rx.msg.chaddr (decodeOptions rx.msg.options).clientIdentifier = g
  unfold recvResult
  generalize todo c g.1 rx = td
  cases td <;> simp

theorem step_recv_none (S : Store σ) (c : SrvCfg) (s : Sys σ) (t : Int) (b : Bytes)
    (hrx : ∀ rx, rxChain b ≠ .ok (some rx)) : Sys.step S c s (.recv t b) = s := by
  rw [Sys.step, recv_match_other hrx]

/-- The system after `FindIP` of handler `i` returned `f`. -/
def findResult (s : Sys σ) (i : Nat) (t : Int) (perm : List Nat) (orc : Nat → IPDB.Iter) (tEnd : Int) (rx : Rx) (duid : Duid)
    (f : IPDB σ × Except DbErr Nat) : Sys σ :=
  { db := f.1, pend := s.pend.set i (match f.2 with | .error _ => .done | .ok a => .a2 rx duid a), sent := s.sent,
    calls := (t, DbOp.findIP (decodeOptions rx.msg.options).requestedIP duid perm orc tEnd) :: s.calls }

theorem step_find_some (S : Store σ) (c : SrvCfg) (s : Sys σ) (i : Nat) (t : Int) (perm : List Nat) (orc : Nat → IPDB.Iter)
    (tEnd : Int) {rx : Rx} {duid : Duid} (hp : s.pend[i]? = some (.a1 rx duid)) :
    Sys.step S c s (.find i t perm orc tEnd) =
      findResult s i t perm orc tEnd rx duid (s.db.findIP S t (decodeOptions rx.msg.options).requestedIP duid perm orc) := by
  rw [Sys.step, find_match hp]
  dsimp only
  generalize s.db.findIP S t (decodeOptions rx.msg.options).requestedIP duid perm orc = f
  obtain ⟨db', r⟩ := f
  cases r <;> rfl

theorem step_find_none (S : Store σ) (c : SrvCfg) (s : Sys σ) (i : Nat) (t : Int) (perm : List Nat) (orc : Nat → IPDB.Iter)
    (tEnd : Int) (hp : ∀ rx duid, s.pend[i]? ≠ some (.a1 rx duid)) : Sys.step S c s (.find i t perm orc tEnd) = s := by
  rw [Sys.step, find_match_other hp]

/-- The system after the `LookupClientByDuid` of handler `i` returned `l`. -/
def lookResult (c : SrvCfg) (s : Sys σ) (i : Nat) (t : Int) (probeFree : Bool) (rx : Rx) (duid : Duid) (want : Nat)
    (l : IPDB σ × Except DbErr Nat) : Sys σ :=
  match l.2 with
  | .ok lease =>
    if want = lease ∧ probeFree = true then
      { db := l.1, pend := s.pend.set i (.b2 rx duid lease), sent := s.sent, calls := (t, DbOp.lookupByDuid duid) :: s.calls }
    else
      { db := l.1, pend := s.pend.set i .done, sent := ⟨t, .nak, 0, duid, rx, nakFrame c rx.msg⟩ :: s.sent,
        calls := (t, DbOp.lookupByDuid duid) :: s.calls }
  | .error _ =>
      { db := l.1, pend := s.pend.set i .done, sent := ⟨t, .nak, 0, duid, rx, nakFrame c rx.msg⟩ :: s.sent,
        calls := (t, DbOp.lookupByDuid duid) :: s.calls }

theorem step_look_some (S : Store σ) (c : SrvCfg) (s : Sys σ) (i : Nat) (t : Int) (probeFree : Bool) {rx : Rx} {duid : Duid}
    {want : Ip4} (hp : s.pend[i]? = some (.b1 rx duid want)) :
    Sys.step S c s (.look i t probeFree) =
      lookResult c s i t probeFree rx duid want.toNat (s.db.lookupByDuid S t duid) := by
  rw [Sys.step, look_match hp]
  generalize s.db.lookupByDuid S t duid = l
  generalize want.toNat = w
  obtain ⟨db', r⟩ := l
  cases r with
  | error e => rfl
  | ok lease =>
    unfold lookResult
    simp only
    by_cases hw : w = lease
    · by_cases hpf : probeFree = true
      · rw [if_neg (by simp [hw]), if_neg (by simp [hpf]), if_pos ⟨hw, hpf⟩]; rfl
      · rw [if_neg (by simp [hw]), if_pos (by simp [hpf]), if_neg (fun h => hpf h.2)]; rfl
    · rw [if_pos hw, if_neg (fun h => hw h.1)]; rfl

theorem step_look_none (S : Store σ) (c : SrvCfg) (s : Sys σ) (i : Nat) (t : Int) (probeFree : Bool)
    (hp : ∀ rx duid want, s.pend[i]? ≠ some (.b1 rx duid want)) : Sys.step S c s (.look i t probeFree) = s := by
  rw [Sys.step, look_match_other hp]

theorem getDuid_fst (S : Store σ) (db : IPDB σ) (t : Int) (hw cid : Bytes) :
    (getDuid S db t hw cid).1 = (db.lookupByDuid S t (sduid hw)).1 := by
  unfold getDuid
  dsimp only
  split
  · rfl
  · split <;> rfl

/-- Database operations that never write the reference table. -/
inductive ReadOnly : DbOp → Prop
  | look (d : Duid) : ReadOnly (.lookupByDuid d)
  | find (sugg : Option Ip4) (d : Duid) (perm : List Nat) (orc : Nat → IPDB.Iter) (tEnd : Int) :
      ReadOnly (.findIP sugg d perm orc tEnd)

/-- Every event is a no-op, one read-only database call (possibly answered by a NAK), or the confirming
`UpdateClient` of a handler waiting in `a2` / `b2`. -/
theorem step_elim (S : Store σ) (c : SrvCfg) (s : Sys σ) (e : Ev) :
    Sys.step S c s e = s ∨
    (∃ op pend' new, ReadOnly op ∧ (∀ x ∈ new, x.kind = .nak) ∧ new.length ≤ 1 ∧
      Sys.step S c s e =
        { db := (s.db.step S e.t op).1, pend := pend', sent := new ++ s.sent, calls := (e.t, op) :: s.calls }) ∨
    (∃ i kind rx duid a ttl,
      ((s.pend[i]? = some (.a2 rx duid a) ∧ kind = .offer ∧ ttl = offerHoldNs) ∨
       (s.pend[i]? = some (.b2 rx duid a) ∧ kind = .ack ∧ ttl = c.leaseNs)) ∧
      Sys.step S c s e =
        updResult c s i e.t kind rx duid a ttl (s.db.updateClient S e.t (some (Ip4.ofNat a)) duid ttl)) := by
  cases e with
  | recv t b =>
    simp only [Ev.t]
    by_cases hex : ∃ rx, rxChain b = .ok (some rx)
    · obtain ⟨rx, hrx⟩ := hex
      rw [step_recv_some S c s t b hrx]
      unfold recvResult
      rw [getDuid_fst]
      exact Or.inr (Or.inl ⟨.lookupByDuid (sduid rx.msg.chaddr), _, [], .look _, by simp, by simp, rfl⟩)
    · exact Or.inl (step_recv_none S c s t b (fun rx h => hex ⟨rx, h⟩))
  | find i t perm orc tEnd =>
    simp only [Ev.t]
    by_cases hex : ∃ rx duid, s.pend[i]? = some (.a1 rx duid)
    · obtain ⟨rx, duid, hp⟩ := hex
      rw [step_find_some S c s i t perm orc tEnd hp]
      exact Or.inr (Or.inl ⟨.findIP (decodeOptions rx.msg.options).requestedIP duid perm orc tEnd, _, [],
        .find _ _ _ _ _, by simp, by simp, rfl⟩)
    · exact Or.inl (step_find_none S c s i t perm orc tEnd (fun rx duid h => hex ⟨rx, duid, h⟩))
  | hold i t =>
    by_cases hex : ∃ rx duid a, s.pend[i]? = some (.a2 rx duid a)
    · obtain ⟨rx, duid, a, hp⟩ := hex
      exact Or.inr (Or.inr ⟨i, .offer, rx, duid, a, offerHoldNs, Or.inl ⟨hp, rfl, rfl⟩, step_hold_some S c s i t hp⟩)
    · exact Or.inl (step_hold_none S c s i t (fun rx duid a h => hex ⟨rx, duid, a, h⟩))
  | look i t probeFree =>
    simp only [Ev.t]
    by_cases hex : ∃ rx duid want, s.pend[i]? = some (.b1 rx duid want)
    · obtain ⟨rx, duid, want, hp⟩ := hex
      rw [step_look_some S c s i t probeFree hp]
      have hdb : (s.db.step S t (.lookupByDuid duid)).1 = (s.db.lookupByDuid S t duid).1 := rfl
      unfold lookResult
      generalize s.db.lookupByDuid S t duid = l at hdb ⊢
      obtain ⟨db', r⟩ := l
      have hdb' : (s.db.step S t (.lookupByDuid duid)).1 = db' := hdb
      cases r with
      | error e =>
        rw [← hdb']
        exact Or.inr (Or.inl ⟨.lookupByDuid duid, _, [⟨t, .nak, 0, duid, rx, nakFrame c rx.msg⟩], .look _,
          by simp, by simp, rfl⟩)
      | ok lease =>
        simp only
        rw [← hdb']
        split
        · exact Or.inr (Or.inl ⟨.lookupByDuid duid, _, [], .look _, by simp, by simp, rfl⟩)
        · exact Or.inr (Or.inl ⟨.lookupByDuid duid, _, [⟨t, .nak, 0, duid, rx, nakFrame c rx.msg⟩], .look _,
            by simp, by simp, rfl⟩)
    · exact Or.inl (step_look_none S c s i t probeFree (fun rx duid want h => hex ⟨rx, duid, want, h⟩))
  | lease i t =>
    by_cases hex : ∃ rx duid a, s.pend[i]? = some (.b2 rx duid a)
    · obtain ⟨rx, duid, a, hp⟩ := hex
      exact Or.inr (Or.inr ⟨i, .ack, rx, duid, a, c.leaseNs, Or.inr ⟨hp, rfl, rfl⟩, step_lease_some S c s i t hp⟩)
    · exact Or.inl (step_lease_none S c s i t (fun rx duid a h => hex ⟨rx, duid, a, h⟩))

/-! ## C09: serialisation, races -/

theorem updResult_db (c : SrvCfg) (s : Sys σ) (i : Nat) (t : Int) (kind : ReplyKind) (rx : Rx) (duid : Duid) (a : Nat)
    (ttl : Int) (u : IPDB σ × Except DbErr Unit) : (updResult c s i t kind rx duid a ttl u).db = u.1 := rfl

theorem updResult_calls (c : SrvCfg) (s : Sys σ) (i : Nat) (t : Int) (kind : ReplyKind) (rx : Rx) (duid : Duid) (a : Nat)
    (ttl : Int) (u : IPDB σ × Except DbErr Unit) :
    (updResult c s i t kind rx duid a ttl u).calls = (t, DbOp.updateClient (some (Ip4.ofNat a)) duid ttl) :: s.calls := rfl

theorem updResult_pend (c : SrvCfg) (s : Sys σ) (i : Nat) (t : Int) (kind : ReplyKind) (rx : Rx) (duid : Duid) (a : Nat)
    (ttl : Int) (u : IPDB σ × Except DbErr Unit) : (updResult c s i t kind rx duid a ttl u).pend = s.pend.set i .done := rfl

theorem updResult_sent_ok (c : SrvCfg) (s : Sys σ) (i : Nat) (t : Int) (kind : ReplyKind) (rx : Rx) (duid : Duid) (a : Nat)
    (ttl : Int) (u : IPDB σ × Except DbErr Unit) (v : Unit) (h : u.2 = .ok v) :
    (updResult c s i t kind rx duid a ttl u).sent =
      ⟨t, kind, a, duid, rx, leaseFrame c kind rx.msg (Ip4.ofNat a)⟩ :: s.sent := by
  obtain ⟨d, r⟩ := u
  cases h; rfl

theorem updResult_sent_err (c : SrvCfg) (s : Sys σ) (i : Nat) (t : Int) (kind : ReplyKind) (rx : Rx) (duid : Duid) (a : Nat)
    (ttl : Int) (u : IPDB σ × Except DbErr Unit) (x : DbErr) (h : u.2 = .error x) :
    (updResult c s i t kind rx duid a ttl u).sent = s.sent := by
  obtain ⟨d, r⟩ := u
  cases h; rfl

/-- Replay of a call log (newest first) from `db0`. -/
def replay (S : Store σ) (db0 : IPDB σ) (calls : List (Int × DbOp)) : IPDB σ :=
  calls.reverse.foldl (fun db tc => (db.step S tc.1 tc.2).1) db0

theorem replay_cons (S : Store σ) (db0 : IPDB σ) (t : Int) (op : DbOp) (calls : List (Int × DbOp)) :
    replay S db0 ((t, op) :: calls) = ((replay S db0 calls).step S t op).1 := by
  unfold replay
  rw [List.reverse_cons, List.foldl_append]
  rfl

theorem step_updateClient_fst (S : Store σ) (db : IPDB σ) (t : Int) (ip : Option Ip4) (d : Duid) (ttl : Int) :
    (db.step S t (.updateClient ip d ttl)).1 = (db.updateClient S t ip d ttl).1 := rfl

theorem step_serial (S : Store σ) (c : SrvCfg) (db0 : IPDB σ) (s : Sys σ) (e : Ev) (h : s.db = replay S db0 s.calls) :
    (Sys.step S c s e).db = replay S db0 (Sys.step S c s e).calls := by
  rcases step_elim S c s e with he | ⟨op, pend', new, -, -, -, he⟩ | ⟨i, kind, rx, duid, a, ttl, -, he⟩
  · rw [he]; exact h
  · rw [he]
    simp only []
    rw [replay_cons, ← h]
  · rw [he, updResult_db, updResult_calls, replay_cons, ← h, step_updateClient_fst]

theorem run_serial (S : Store σ) (c : SrvCfg) (db0 : IPDB σ) (evs : List Ev) :
    ∀ s : Sys σ, s.db = replay S db0 s.calls → (Sys.run S c s evs).db = replay S db0 (Sys.run S c s evs).calls := by
  induction evs with
  | nil => intro s h; exact h
  | cons e rest ih => intro s h; exact ih _ (step_serial S c db0 s e h)

end Step

theorem calls_serialize (c : SrvCfg) (db0 : IPDB Table) (evs : List Ev) :
    (Sys.run tableStore c { db := db0 } evs).db =
      ((Sys.run tableStore c { db := db0 } evs).calls.reverse.foldl (fun db tc => (db.step tableStore tc.1 tc.2).1) db0) :=
  run_serial tableStore c db0 evs { db := db0 } rfl

theorem race_only_silence (c : SrvCfg) (s : Sys Table) (e : Ev) :
    (s.step tableStore c e).sent = s.sent ∨
    ∃ x, (s.step tableStore c e).sent = x :: s.sent ∧
      (x.kind = .nak ∨
       ((s.step tableStore c e).calls.head? = some (x.t, DbOp.updateClient (some (Ip4.ofNat x.addr)) x.duid (x.ttl c)) ∧
        (s.db.updateClient tableStore x.t (some (Ip4.ofNat x.addr)) x.duid (x.ttl c)).2 = .ok ())) := by
  rcases step_elim tableStore c s e with he | ⟨op, pend', new, -, hnak, hlen, he⟩ | ⟨i, kind, rx, duid, a, ttl, hk, he⟩
  · rw [he]; exact Or.inl rfl
  · rw [he]
    match new, hnak, hlen with
    | [], _, _ => exact Or.inl rfl
    | [x], hnak, _ => exact Or.inr ⟨x, rfl, Or.inl (hnak x (by simp))⟩
    | _ :: _ :: _, _, hlen => simp at hlen
  · rw [he]
    have httl : ∀ fr, (⟨e.t, kind, a, duid, rx, fr⟩ : Sent).ttl c = ttl := by
      intro fr
      rcases hk with ⟨-, rfl, rfl⟩ | ⟨-, rfl, rfl⟩ <;> rfl
    cases hr : (s.db.updateClient tableStore e.t (some (Ip4.ofNat a)) duid ttl).2 with
    | error x => exact Or.inl (updResult_sent_err _ _ _ _ _ _ _ _ _ _ x hr)
    | ok v =>
      refine Or.inr ⟨_, updResult_sent_ok _ _ _ _ _ _ _ _ _ _ v hr, Or.inr ?_⟩
      rw [updResult_calls]
      simp only [httl, List.head?_cons]
      exact ⟨trivial, hr⟩

/-! ## C09: a step is local to its handler -/

section Local
variable {σ : Type}

theorem local_same (s₁ s₂ : Sys σ) (i : Nat) (hdb : s₁.db = s₂.db) (hp : s₁.pend[i]? = s₂.pend[i]?) :
    s₁.db = s₂.db ∧ s₁.pend[i]? = s₂.pend[i]? ∧ (s₁.sent.length - s₁.sent.length = s₂.sent.length - s₂.sent.length) ∧
    (∀ j, j ≠ i → s₁.pend[j]? = s₁.pend[j]?) :=
  ⟨hdb, hp, by omega, fun _ _ => rfl⟩

theorem local_set (s₁ s₂ : Sys σ) (i : Nat) (d : IPDB σ) (p q : Pending) (new : List Sent) (k₁ k₂ : List (Int × DbOp))
    (hp : s₁.pend[i]? = s₂.pend[i]?) (hq : s₁.pend[i]? = some q) :
    let r₁ : Sys σ := { db := d, pend := s₁.pend.set i p, sent := new ++ s₁.sent, calls := k₁ }
    let r₂ : Sys σ := { db := d, pend := s₂.pend.set i p, sent := new ++ s₂.sent, calls := k₂ }
    r₁.db = r₂.db ∧ r₁.pend[i]? = r₂.pend[i]? ∧ (r₁.sent.length - s₁.sent.length = r₂.sent.length - s₂.sent.length) ∧
    (∀ j, j ≠ i → r₁.pend[j]? = s₁.pend[j]?) := by
  intro r₁ r₂
  have h1 : i < s₁.pend.length := (List.getElem?_eq_some_iff.1 hq).1
  have h2 : i < s₂.pend.length := (List.getElem?_eq_some_iff.1 (hp ▸ hq)).1
  refine ⟨rfl, ?_, ?_, ?_⟩
  · show (s₁.pend.set i p)[i]? = (s₂.pend.set i p)[i]?
    rw [List.getElem?_set_self h1, List.getElem?_set_self h2]
  · show (new ++ s₁.sent).length - _ = (new ++ s₂.sent).length - _
    rw [List.length_append, List.length_append]; omega
  · intro j hj
    show (s₁.pend.set i p)[j]? = _
    rw [List.getElem?_set_ne (Ne.symm hj)]

theorem updResult_shape (c : SrvCfg) (i : Nat) (t : Int) (kind : ReplyKind) (rx : Rx) (duid : Duid) (a : Nat) (ttl : Int)
    (u : IPDB σ × Except DbErr Unit) :
    ∃ p new, ∀ s : Sys σ, updResult c s i t kind rx duid a ttl u =
      { db := u.1, pend := s.pend.set i p, sent := new ++ s.sent,
        calls := (t, DbOp.updateClient (some (Ip4.ofNat a)) duid ttl) :: s.calls } :=
  ⟨_, _, fun _ => rfl⟩

theorem findResult_shape (i : Nat) (t : Int) (perm : List Nat) (orc : Nat → IPDB.Iter) (tEnd : Int) (rx : Rx) (duid : Duid)
    (f : IPDB σ × Except DbErr Nat) :
    ∃ p new, ∀ s : Sys σ, findResult s i t perm orc tEnd rx duid f =
      { db := f.1, pend := s.pend.set i p, sent := new ++ s.sent,
        calls := (t, DbOp.findIP (decodeOptions rx.msg.options).requestedIP duid perm orc tEnd) :: s.calls } :=
  ⟨_, [], fun _ => rfl⟩

theorem lookResult_shape (c : SrvCfg) (i : Nat) (t : Int) (probeFree : Bool) (rx : Rx) (duid : Duid) (want : Nat)
    (l : IPDB σ × Except DbErr Nat) :
    ∃ p new, ∀ s : Sys σ, lookResult c s i t probeFree rx duid want l =
      { db := l.1, pend := s.pend.set i p, sent := new ++ s.sent, calls := (t, DbOp.lookupByDuid duid) :: s.calls } := by
  obtain ⟨d, r⟩ := l
  unfold lookResult
  cases r with
  | error e => exact ⟨.done, [_], fun _ => rfl⟩
  | ok lease =>
    simp only
    split
    · exact ⟨_, [], fun _ => rfl⟩
    · exact ⟨.done, [_], fun _ => rfl⟩

end Local

theorem step_is_local (c : SrvCfg) (s₁ s₂ : Sys Table) (e : Ev) (i : Nat)
    (he : match e with | .find j _ _ _ _ | .hold j _ | .look j _ _ | .lease j _ => j = i | .recv _ _ => False)
    (hdb : s₁.db = s₂.db) (hp : s₁.pend[i]? = s₂.pend[i]?) :
    (s₁.step tableStore c e).db = (s₂.step tableStore c e).db ∧
    (s₁.step tableStore c e).pend[i]? = (s₂.step tableStore c e).pend[i]? ∧
    ((s₁.step tableStore c e).sent.length - s₁.sent.length = (s₂.step tableStore c e).sent.length - s₂.sent.length) ∧
    (∀ j, j ≠ i → (s₁.step tableStore c e).pend[j]? = s₁.pend[j]?) := by
  cases e with
  | recv t b => exact absurd he id
  | find j t perm orc tEnd =>
    have he : j = i := he
    subst he
    by_cases hex : ∃ rx duid, s₁.pend[j]? = some (.a1 rx duid)
    · obtain ⟨rx, duid, h1⟩ := hex
      rw [step_find_some _ c s₁ j t perm orc tEnd h1, step_find_some _ c s₂ j t perm orc tEnd (hp ▸ h1), ← hdb]
      obtain ⟨p, new, hs⟩ := findResult_shape j t perm orc tEnd rx duid
        (s₁.db.findIP tableStore t (decodeOptions rx.msg.options).requestedIP duid perm orc)
      rw [hs, hs]
      exact local_set s₁ s₂ j _ p _ new _ _ hp h1
    · have hex2 : ∀ rx duid, s₂.pend[j]? ≠ some (.a1 rx duid) := fun rx duid h => hex ⟨rx, duid, hp ▸ h⟩
      rw [step_find_none _ c s₁ j t perm orc tEnd (fun rx duid h => hex ⟨rx, duid, h⟩),
        step_find_none _ c s₂ j t perm orc tEnd hex2]
      exact local_same s₁ s₂ j hdb hp
  | hold j t =>
    have he : j = i := he
    subst he
    by_cases hex : ∃ rx duid a, s₁.pend[j]? = some (.a2 rx duid a)
    · obtain ⟨rx, duid, a, h1⟩ := hex
      rw [step_hold_some _ c s₁ j t h1, step_hold_some _ c s₂ j t (hp ▸ h1), ← hdb]
      obtain ⟨p, new, hs⟩ := updResult_shape c j t .offer rx duid a offerHoldNs
        (s₁.db.updateClient tableStore t (some (Ip4.ofNat a)) duid offerHoldNs)
      rw [hs, hs]
      exact local_set s₁ s₂ j _ p _ new _ _ hp h1
    · have hex2 : ∀ rx duid a, s₂.pend[j]? ≠ some (.a2 rx duid a) := fun rx duid a h => hex ⟨rx, duid, a, hp ▸ h⟩
      rw [step_hold_none _ c s₁ j t (fun rx duid a h => hex ⟨rx, duid, a, h⟩), step_hold_none _ c s₂ j t hex2]
      exact local_same s₁ s₂ j hdb hp
  | look j t probeFree =>
    have he : j = i := he
    subst he
    by_cases hex : ∃ rx duid want, s₁.pend[j]? = some (.b1 rx duid want)
    · obtain ⟨rx, duid, want, h1⟩ := hex
      rw [step_look_some _ c s₁ j t probeFree h1, step_look_some _ c s₂ j t probeFree (hp ▸ h1), ← hdb]
      obtain ⟨p, new, hs⟩ := lookResult_shape c j t probeFree rx duid want.toNat (s₁.db.lookupByDuid tableStore t duid)
      rw [hs, hs]
      exact local_set s₁ s₂ j _ p _ new _ _ hp h1
    · have hex2 : ∀ rx duid want, s₂.pend[j]? ≠ some (.b1 rx duid want) :=
        fun rx duid want h => hex ⟨rx, duid, want, hp ▸ h⟩
      rw [step_look_none _ c s₁ j t probeFree (fun rx duid want h => hex ⟨rx, duid, want, h⟩),
        step_look_none _ c s₂ j t probeFree hex2]
      exact local_same s₁ s₂ j hdb hp
  | lease j t =>
    have he : j = i := he
    subst he
    by_cases hex : ∃ rx duid a, s₁.pend[j]? = some (.b2 rx duid a)
    · obtain ⟨rx, duid, a, h1⟩ := hex
      rw [step_lease_some _ c s₁ j t h1, step_lease_some _ c s₂ j t (hp ▸ h1), ← hdb]
      obtain ⟨p, new, hs⟩ := updResult_shape c j t .ack rx duid a c.leaseNs
        (s₁.db.updateClient tableStore t (some (Ip4.ofNat a)) duid c.leaseNs)
      rw [hs, hs]
      exact local_set s₁ s₂ j _ p _ new _ _ hp h1
    · have hex2 : ∀ rx duid a, s₂.pend[j]? ≠ some (.b2 rx duid a) := fun rx duid a h => hex ⟨rx, duid, a, hp ▸ h⟩
      rw [step_lease_none _ c s₁ j t (fun rx duid a h => hex ⟨rx, duid, a, h⟩), step_lease_none _ c s₂ j t hex2]
      exact local_same s₁ s₂ j hdb hp

/-! ## C05: the invariant of `Proofs/Safety.lean`, extended

`Safety.Granted` lets a permanent binding back a grant whatever its expiry; here the expiry is tracked for every
binding, and grants to one holder are compared pairwise. -/

/-- A grant has run out, or the table holds the holder's binding of that address, not expiring before the grant. -/
def Backed (c : SrvCfg) (T : Table) (now : Int) (s : Sent) : Prop :=
  s.t + s.ttl c < now ∨ ∃ x ∈ T, x.ip = s.addr ∧ x.duid = s.duid ∧ s.t + s.ttl c ≤ x.exp

def SameAddr (c : SrvCfg) (sent : List Sent) : Prop :=
  ∀ s₁ ∈ sent, ∀ s₂ ∈ sent, s₁.kind ≠ .nak → s₂.kind ≠ .nak → s₁.duid = s₂.duid →
    s₁.t ≤ s₂.t → s₂.t ≤ s₁.t + s₁.ttl c → s₂.addr = s₁.addr

structure Extra (c : SrvCfg) (T : Table) (now : Int) (sent : List Sent) : Prop where
  bk : ∀ s ∈ sent, s.kind ≠ .nak → Backed c T now s
  sa : 0 ≤ c.leaseNs → SameAddr c sent

theorem Backed.mono {c : SrvCfg} {T : Table} {t t' : Int} {s : Sent} (h : Backed c T t s) (htt : t ≤ t') :
    Backed c T t' s := by
  rcases h with h | h
  · exact Or.inl (by omega)
  · exact Or.inr h

theorem Extra.mono {c : SrvCfg} {T : Table} {t t' : Int} {sent : List Sent} (h : Extra c T t sent) (htt : t ≤ t') :
    Extra c T t' sent :=
  ⟨fun s hs hk => (h.bk s hs hk).mono htt, h.sa⟩

theorem live_of_le {x : Binding} {t : Int} (h : t ≤ x.exp) : x.live t = true := by
  simp only [Binding.live, Bool.or_eq_true, decide_eq_true_eq]
  exact Or.inr h

/-- A grant that has not run out is backed by a live binding. -/
theorem Backed.live {c : SrvCfg} {T : Table} {t : Int} {s : Sent} (h : Backed c T t s) (ht : t ≤ s.t + s.ttl c) :
    ∃ x ∈ T, x.ip = s.addr ∧ x.duid = s.duid ∧ s.t + s.ttl c ≤ x.exp ∧ x.live t = true := by
  rcases h with h | ⟨x, hx, e1, e2, e3⟩
  · omega
  · exact ⟨x, hx, e1, e2, e3, live_of_le (by omega)⟩

theorem Backed.update {c : SrvCfg} {db : IPDB Table} {t : Int} {s : Sent} (h : Backed c db.s t s)
    {ip : Option Ip4} {d : Duid} {ttl : Int} {u : IPDB Table × Except DbErr Unit} (f : UpdFacts db t ip d ttl u) :
    Backed c u.1.s t s := by
  by_cases hexp : s.t + s.ttl c < t
  · exact Or.inl hexp
  · obtain ⟨y, hy, e1, e2, e3, hl⟩ := h.live (by omega)
    obtain ⟨y', hy', f1, f2, -, f4⟩ := f.ext y hy hl
    exact Or.inr ⟨y', hy', f1.trans e1, f2.trans e2, by omega⟩

theorem Extra.update {c : SrvCfg} {db : IPDB Table} {t : Int} {sent : List Sent} (h : Extra c db.s t sent)
    {ip : Option Ip4} {d : Duid} {ttl : Int} {u : IPDB Table × Except DbErr Unit} (f : UpdFacts db t ip d ttl u) :
    Extra c u.1.s t sent :=
  ⟨fun s hs hk => (h.bk s hs hk).update f, h.sa⟩

theorem Extra.naks {c : SrvCfg} {T : Table} {t : Int} {sent : List Sent} (h : Extra c T t sent) (new : List Sent)
    (hn : ∀ x ∈ new, x.kind = .nak) : Extra c T t (new ++ sent) := by
  have hmem : ∀ s ∈ new ++ sent, s.kind ≠ .nak → s ∈ sent := by
    intro s hs hk
    rcases List.mem_append.1 hs with hs | hs
    · exact absurd (hn s hs) hk
    · exact hs
  refine ⟨fun s hs hk => h.bk s (hmem s hs hk) hk, fun hl s₁ h1 s₂ h2 k1 k2 => ?_⟩
  exact h.sa hl s₁ (hmem s₁ h1 k1) s₂ (hmem s₂ h2 k2) k1 k2

/-- A successful `UpdateClient` of a handler: its grant joins the others. -/
theorem Extra.grant {c : SrvCfg} {b : Boot} {db : IPDB Table} {t : Int} {sent : List Sent} (hdb : DbInv c b db t)
    (hle : ∀ s ∈ sent, s.kind ≠ .nak → s.t ≤ t) (hx : Extra c db.s t sent) {a : Nat} {d : Duid} {ttl : Int}
    (ha : a < 4294967296) (x : Sent) (hxt : x.t = t) (hxa : x.addr = a) (hxd : x.duid = d) (hxl : x.ttl c = ttl)
    {u : IPDB Table × Except DbErr Unit} (f : UpdFacts db t (some (Ip4.ofNat a)) d ttl u) (hok : u.2 = .ok ()) :
    Extra c u.1.s t (x :: sent) := by
  obtain ⟨n, hn, x', hx', e1, e2, e3, hcase⟩ := f.succ hok
  obtain ⟨hn1, -, -⟩ := toUip_some hn
  rw [Ip4.toNat_ofNat ha] at hn1
  subst hn1
  -- an unexpired earlier grant to this holder carries this address
  have hsame : ∀ s ∈ sent, s.kind ≠ .nak → s.duid = d → t ≤ s.t + s.ttl c → s.addr = n := by
    intro s h1 h2 h3 h4
    obtain ⟨y, hy, f1, f2, -, hl⟩ := (hx.bk s h1 h2).live h4
    rcases hcase with ⟨z, hz, hzl, z1, z2⟩ | ⟨-, c2⟩
    · have : y = z := hdb.excl y hy z hz hl hzl (Or.inr (by rw [f2, z2, h3]))
      subst this
      exact f1.symm.trans z1
    · exact absurd (f2.trans h3) (liveDuid_none c2 y hy hl)
  refine ⟨?_, ?_⟩
  · intro s h1 h2
    rcases List.mem_cons.1 h1 with rfl | h1
    · exact Or.inr ⟨x', hx', e1.trans hxa.symm, e2.trans hxd.symm, by rw [hxt, hxl]; exact e3⟩
    · exact (hx.bk s h1 h2).update f
  · intro hl s₁ h1 s₂ h2 k1 k2 hd h12 h21
    rcases List.mem_cons.1 h1 with e1' | h1' <;> rcases List.mem_cons.1 h2 with e2' | h2'
    · rw [e1', e2']
    · subst e1'
      have g1 := hle s₂ h2' k2
      have := ttl_nonneg hl s₂
      rw [hxa]
      exact hsame s₂ h2' k2 (hd.symm.trans hxd) (by omega)
    · subst e2'
      rw [hxa]
      exact (hsame s₁ h1' k1 (hd.trans hxd) (by omega)).symm
    · exact hx.sa hl s₁ h1' s₂ h2' k1 k2 hd h12 h21

theorem readOnly_table {op : DbOp} (h : ReadOnly op) (db : IPDB Table) (t : Int) : (db.step tableStore t op).1 = db := by
  cases h with
  | look d => show (db.lookupByDuid tableStore t d).1 = db; rw [lookupByDuid_table]
  | find sugg d perm orc tEnd => exact findIP_table_fst db t sugg d perm orc

theorem ev_t_le_tEnd {e : Ev} (hc : e.ClockOk) : e.t ≤ e.tEnd := by
  cases e with
  | find i t perm orc tEnd => exact Int.le_trans hc.1 (hc.2.2 0)
  | _ => exact Int.le_refl _

theorem step_extra {c : SrvCfg} {b : Boot} {sys : Sys Table} {now : Int} (hi : Inv c b sys now)
    (hx : Extra c sys.db.s now sys.sent) (e : Ev) (ht : now ≤ e.t) (hc : e.ClockOk) :
    Extra c (Sys.step tableStore c sys e).db.s e.tEnd (Sys.step tableStore c sys e).sent := by
  have hi := hi.mono ht
  have hx := hx.mono ht
  refine Extra.mono ?_ (ev_t_le_tEnd hc)
  rcases step_elim tableStore c sys e with he | ⟨op, pend', new, hro, hnak, -, he⟩ | ⟨i, kind, rx, duid, a, ttl, hk, he⟩
  · rw [he]; exact hx
  · rw [he]
    simp only []
    rw [readOnly_table hro]
    exact hx.naks new hnak
  · rw [he, updResult_db]
    have hao : AddrOk c b a duid := by
      rcases hk with ⟨hp, -, -⟩ | ⟨hp, -, -⟩
      · exact (hi.pend _ (List.mem_of_getElem? hp)).2
      · exact (hi.pend _ (List.mem_of_getElem? hp)).2
    have httl : ∀ fr, (⟨e.t, kind, a, duid, rx, fr⟩ : Sent).ttl c = ttl := by
      intro fr
      rcases hk with ⟨-, rfl, rfl⟩ | ⟨-, rfl, rfl⟩ <;> rfl
    have f := updFacts sys.db e.t (some (Ip4.ofNat a)) duid ttl
    cases hr : (sys.db.updateClient tableStore e.t (some (Ip4.ofNat a)) duid ttl).2 with
    | error x =>
      rw [updResult_sent_err _ _ _ _ _ _ _ _ _ _ x hr]
      exact hx.update f
    | ok v =>
      rw [updResult_sent_ok _ _ _ _ _ _ _ _ _ _ v hr]
      exact Extra.grant hi.db (fun s hs hk => (hi.sent.gr s hs hk).1) hx hao.1 _ rfl rfl rfl (httl _) f hr

theorem run_extra {c : SrvCfg} {b : Boot} (evs : List Ev) :
    ∀ (sys : Sys Table) (now : Int), Inv c b sys now → Extra c sys.db.s now sys.sent → EvMonotone evs →
      (∀ e ∈ evs.head?, now ≤ e.t) → (∀ e ∈ evs, Ev.PermOk b.dynRange.1 b.dynRange.2 e) →
      Extra c (Sys.run tableStore c sys evs).db.s (endClock now evs) (Sys.run tableStore c sys evs).sent := by
  induction evs with
  | nil => intro sys now _ hx _ _ _; exact hx
  | cons e rest ih =>
    intro sys now hi hx hm h0 hp
    obtain ⟨hc, hh, hm'⟩ := evmono_tail hm
    have hstep := step_inv hi e (h0 e (by simp)) hc (hp e List.mem_cons_self)
    have hstepx := step_extra hi hx e (h0 e (by simp)) hc
    rw [endClock_cons]
    exact ih _ _ hstep hstepx hm' hh (fun x hx => hp x (List.mem_cons_of_mem _ hx))

theorem reach_extra {c : SrvCfg} {b : Boot} {evs : List Ev} {sys : Sys Table} (h : ReachableT c b evs sys) :
    Extra c sys.db.s (lastClock b evs) sys.sent := by
  obtain ⟨hb, hp, db0, hinit, hm, h0, hperm, rfl⟩ := h
  refine run_extra evs _ _ (init_inv c b db0 hb hp hinit) ⟨?_, ?_⟩ hm h0 hperm
  · intro s hs; cases hs
  · intro _ s hs; cases hs

/-- A grant that is still running in a reachable state: the binding that backs it, at any clock up to its end. -/
theorem grant_binding {c : SrvCfg} {b : Boot} {evs : List Ev} {sys : Sys Table} (h : ReachableT c b evs sys)
    {s : Sent} (hs : s ∈ sys.sent) (hk : s.kind ≠ .nak) {t : Int} (h1 : lastClock b evs ≤ t) (h2 : t ≤ s.t + s.ttl c) :
    ∃ x ∈ sys.db.s, x.ip = s.addr ∧ x.duid = s.duid ∧ s.t + s.ttl c ≤ x.exp ∧ x.live t = true ∧
      sys.db.s.liveIp t s.addr = some x ∧ sys.db.s.liveDuid t s.duid = some x := by
  have hi := (reach_inv h).mono h1
  obtain ⟨x, hx, e1, e2, e3, hl⟩ := (((reach_extra h).mono h1).bk s hs hk).live h2
  refine ⟨x, hx, e1, e2, e3, hl, ?_, ?_⟩
  · rw [← e1]; exact liveIp_of_mem hi.db.excl hx hl
  · rw [← e2]; exact liveDuid_of_mem hi.db.excl hx hl

theorem lease_not_shortened (c : SrvCfg) (b : Boot) (evs : List Ev) (sys : Sys Table) (h : ReachableT c b evs sys)
    (_hl : 0 ≤ c.leaseNs) :
    ∀ s ∈ sys.sent, s.kind ≠ .nak → ∀ t, lastClock b evs ≤ t → t ≤ s.t + s.ttl c →
      ∃ bd, sys.db.s.liveIp t s.addr = some bd ∧ bd.duid = s.duid ∧ s.t + s.ttl c ≤ bd.exp := by
  intro s hs hk t h1 h2
  obtain ⟨x, -, -, e2, e3, -, h3, -⟩ := grant_binding h hs hk h1 h2
  exact ⟨x, h3, e2, e3⟩

theorem same_address (c : SrvCfg) (b : Boot) (evs : List Ev) (sys : Sys Table) (h : ReachableT c b evs sys)
    (hl : 0 ≤ c.leaseNs) :
    ∀ s₁ ∈ sys.sent, ∀ s₂ ∈ sys.sent, s₁.kind ≠ .nak → s₂.kind ≠ .nak → s₁.duid = s₂.duid →
      s₁.t ≤ s₂.t → s₂.t ≤ s₁.t + s₁.ttl c → s₂.addr = s₁.addr :=
  (reach_extra h).sa hl

/-! ## The sequential handler, path by path

`handleV` / `handle` are opened with `delta` and their matchers reduced by equations over abstract alternatives, so
that the kernel never evaluates a database call on a symbolic address. -/

section Paths
variable {σ : Type}

theorem todoV_drop {α : Type} {x : Todo} (hx : x = .drop) (A : Unit → α) (B : Unit → α) (C : Ip4 → α) :
    handleV.match_5 (fun _ => α) x A B C = A () := by subst hx; rfl
theorem todoV_discover {α : Type} {x : Todo} (hx : x = .discover) (A : Unit → α) (B : Unit → α) (C : Ip4 → α) :
    handleV.match_5 (fun _ => α) x A B C = B () := by subst hx; rfl
theorem todoV_request {α : Type} {x : Todo} {want : Ip4} (hx : x = .request want) (A : Unit → α) (B : Unit → α)
    (C : Ip4 → α) : handleV.match_5 (fun _ => α) x A B C = C want := by subst hx; rfl
theorem natV_ok {α : Type} {x : Except DbErr Nat} {a : Nat} (hx : x = .ok a) (E : DbErr → α) (K : Nat → α) :
    handleV.match_3 (fun _ => α) x E K = K a := by subst hx; rfl
theorem natV_err {α : Type} {x : Except DbErr Nat} {e : DbErr} (hx : x = .error e) (E : DbErr → α) (K : Nat → α) :
    handleV.match_3 (fun _ => α) x E K = E e := by subst hx; rfl
theorem unitV_ok {α : Type} {x : Except DbErr Unit} {v : Unit} (hx : x = .ok v) (E : DbErr → α) (K : Unit → α) :
    handleV.match_1 (fun _ => α) x E K = K v := by subst hx; rfl
theorem unitV_err {α : Type} {x : Except DbErr Unit} {e : DbErr} (hx : x = .error e) (E : DbErr → α) (K : Unit → α) :
    handleV.match_1 (fun _ => α) x E K = E e := by subst hx; rfl

theorem handleV_request_ack (S : Store σ) (c : SrvCfg) (db : IPDB σ) (rx : Rx) (o : HOracle)
    {db1 db2 db3 : IPDB σ} {duid : Duid} {want : Ip4} {lease : Nat} {v : Unit}
    (hg : getDuid S db o.t0 rx.msg.chaddr (decodeOptions rx.msg.options).clientIdentifier = (db1, duid))
    (htodo : todo c db1 rx = .request want)
    (hl : db1.lookupByDuid S o.t1 duid = (db2, .ok lease)) (hw : want.toNat = lease) (hp : o.probeFree = true)
    (hu : db2.updateClient S o.t2 (some (Ip4.ofNat lease)) duid c.leaseNs = (db3, .ok v)) :
    handleV S c db rx o = (db3, .ack lease) := by
  delta handleV
  refine Eq.trans (todoV_request (want := want) ?h1 _ _ _) ?_
  case h1 => rw [hg]; exact htodo
  refine Eq.trans (natV_ok (a := lease) ?h2 _ _) ?_
  case h2 => rw [hg, hl]
  refine Eq.trans (if_neg ?h3) ?_
  case h3 => exact fun hne => hne hw
  refine Eq.trans (if_neg ?h4) ?_
  case h4 => exact fun hne => hne hp
  refine Eq.trans (unitV_ok (v := v) ?h5 _ _) ?_
  case h5 => rw [hg, hl, hu]
  rw [hg, hl, hu]

theorem handleV_discover_offer (S : Store σ) (c : SrvCfg) (db : IPDB σ) (rx : Rx) (o : HOracle)
    {db1 db2 db3 : IPDB σ} {duid : Duid} {a : Nat} {v : Unit}
    (hg : getDuid S db o.t0 rx.msg.chaddr (decodeOptions rx.msg.options).clientIdentifier = (db1, duid))
    (htodo : todo c db1 rx = .discover)
    (hf : db1.findIP S o.t1 (decodeOptions rx.msg.options).requestedIP duid o.perm o.iters = (db2, .ok a))
    (hu : db2.updateClient S o.t2 (some (Ip4.ofNat a)) duid offerHoldNs = (db3, .ok v)) :
    handleV S c db rx o = (db3, .offer a) := by
  delta handleV
  refine Eq.trans (todoV_discover ?h1 _ _ _) ?_
  case h1 => rw [hg]; exact htodo
  refine Eq.trans (natV_ok (a := a) ?h2 _ _) ?_
  case h2 => rw [hg, hf]
  refine Eq.trans (unitV_ok (v := v) ?h3 _ _) ?_
  case h3 => rw [hg, hf, hu]
  rw [hg, hf, hu]

theorem handleV_discover_none (S : Store σ) (c : SrvCfg) (db : IPDB σ) (rx : Rx) (o : HOracle)
    {db1 db2 : IPDB σ} {duid : Duid} {e : DbErr}
    (hg : getDuid S db o.t0 rx.msg.chaddr (decodeOptions rx.msg.options).clientIdentifier = (db1, duid))
    (htodo : todo c db1 rx = .discover)
    (hf : db1.findIP S o.t1 (decodeOptions rx.msg.options).requestedIP duid o.perm o.iters = (db2, .error e)) :
    handleV S c db rx o = (db2, .silent) := by
  delta handleV
  refine Eq.trans (todoV_discover ?h1 _ _ _) ?_
  case h1 => rw [hg]; exact htodo
  refine Eq.trans (natV_err (e := e) ?h2 _ _) ?_
  case h2 => rw [hg, hf]
  rw [hg, hf]

theorem inManagedRange_of_toUip {db : IPDB σ} {ip : Option Ip4} {n : Nat} (h : db.toUip ip = .ok n) :
    db.inManagedRange ip = true := by
  unfold IPDB.inManagedRange
  rw [h]

theorem inManagedRange_of {db : IPDB σ} {i : Ip4} (h1 : db.netFrom ≤ i.toNat) (h2 : i.toNat ≤ db.netTo) :
    db.inManagedRange (some i) = true :=
  inManagedRange_of_toUip (toUip_ok h1 h2)

theorem toUip_ofNat {db : IPDB σ} {a : Nat} (hlt : a < 4294967296) (h1 : db.netFrom ≤ a) (h2 : a ≤ db.netTo) :
    db.toUip (some (Ip4.ofNat a)) = .ok a := by
  have e := Ip4.toNat_ofNat hlt
  generalize Ip4.ofNat a = i at e
  subst e
  exact toUip_ok h1 h2

theorem todo_request {c : SrvCfg} {rx : Rx} {db : IPDB σ} {want : Ip4}
    (hreq : (decodeOptions rx.msg.options).messageType = 3)
    (hmac : rx.msg.chaddr ≠ c.selfMac) (hself : (decodeOptions rx.msg.options).requestedIP ≠ some c.selfIp)
    (hw : desired (classify c.selfIp rx.dst (decodeOptions rx.msg.options).serverIdentifier
            (decodeOptions rx.msg.options).requestedIP) rx.src (decodeOptions rx.msg.options).requestedIP = some want)
    (hin : db.inManagedRange (some want) = true) : todo c db rx = .request want := by
  unfold todo
  simp only
  rw [if_neg (Ne.symm hmac), if_neg hself, if_neg (by rw [hreq]; decide), if_pos hreq, hw]
  simp only
  rw [if_pos hin]

end Paths

theorem offer_then_ack (c : SrvCfg) (b : Boot) (evs : List Ev) (sys : Sys Table) (h : ReachableT c b evs sys)
    (_hl : 0 ≤ c.leaseNs) (s : Sent) (hs : s ∈ sys.sent) (hk : s.kind ≠ .nak)
    (rx : Rx) (o : HOracle) (hck : HOracle.ClockOk o (lastClock b evs))
    (hreq : (decodeOptions rx.msg.options).messageType = 3)
    (hmac : rx.msg.chaddr ≠ c.selfMac) (hself : (decodeOptions rx.msg.options).requestedIP ≠ some c.selfIp)
    (hd : (getDuid tableStore sys.db o.t0 rx.msg.chaddr (decodeOptions rx.msg.options).clientIdentifier).2 = s.duid)
    (hw : desired (classify c.selfIp rx.dst (decodeOptions rx.msg.options).serverIdentifier (decodeOptions rx.msg.options).requestedIP)
            rx.src (decodeOptions rx.msg.options).requestedIP = some (Ip4.ofNat s.addr))
    (ht : o.t2 ≤ s.t + s.ttl c) (hp : o.probeFree = true) :
    (handleV tableStore c sys.db rx o).2 = .ack s.addr := by
  obtain ⟨k0, k1, -, -, -, k2⟩ := hck
  have hi := reach_inv h
  have so := hi.sent.ok s hs hk
  obtain ⟨x1, -, i1, -, -, -, -, ld1⟩ := grant_binding h hs hk (t := o.t1) (by omega) (by omega)
  obtain ⟨x2, m2, i2, d2, -, l2, -, -⟩ := grant_binding h hs hk (t := o.t2) (by omega) ht
  have hlt : s.addr < 4294967296 := so.net.2.2
  have hn1 : sys.db.netFrom ≤ s.addr := by rw [hi.db.nf]; exact so.net.1
  have hn2 : s.addr ≤ sys.db.netTo := by rw [hi.db.nt]; exact so.net.2.1
  have hto := Ip4.toNat_ofNat hlt
  have hg : getDuid tableStore sys.db o.t0 rx.msg.chaddr (decodeOptions rx.msg.options).clientIdentifier =
      (sys.db, s.duid) := Prod.ext (getDuid_table_fst _ _ _ _) hd
  have htodo : todo c sys.db rx = .request (Ip4.ofNat s.addr) :=
    todo_request hreq hmac hself hw (inManagedRange_of (by rw [hto]; exact hn1) (by rw [hto]; exact hn2))
  have hlk : sys.db.lookupByDuid tableStore o.t1 s.duid = (sys.db, .ok s.addr) := by
    rw [lookupByDuid_table, ld1]
    simp only [i1]
  have hok : (sys.db.updateClient tableStore o.t2 (some (Ip4.ofNat s.addr)) s.duid c.leaseNs).2 = .ok () := by
    rw [update_ok_iff _ _ _ _ _ (exclusive_mono hi.db.excl (by omega))]
    exact ⟨s.addr, toUip_ofNat hlt hn1 hn2, Or.inl ⟨x2, m2, l2, i2, d2⟩⟩
  rw [handleV_request_ack tableStore c sys.db rx o hg htodo hlk hto hp (pair_of_snd _ _ hok)]

theorem not_derailed (c : SrvCfg) (b : Boot) (evs : List Ev) (sys : Sys Table) (h : ReachableT c b evs sys)
    (hl : 0 ≤ c.leaseNs) (s : Sent) (hs : s ∈ sys.sent) (hk : s.kind = .offer)
    (rx : Rx) (o : HOracle) (hck : HOracle.ClockOk o (lastClock b evs))
    (hreq : (decodeOptions rx.msg.options).messageType = 3)
    (hmac : rx.msg.chaddr ≠ c.selfMac) (hself : (decodeOptions rx.msg.options).requestedIP ≠ some c.selfIp)
    (hd : (getDuid tableStore sys.db o.t0 rx.msg.chaddr (decodeOptions rx.msg.options).clientIdentifier).2 = s.duid)
    (hw : desired (classify c.selfIp rx.dst (decodeOptions rx.msg.options).serverIdentifier (decodeOptions rx.msg.options).requestedIP)
            rx.src (decodeOptions rx.msg.options).requestedIP = some (Ip4.ofNat s.addr))
    (ht : o.t2 ≤ s.t + offerHoldNs) (hp : o.probeFree = true) :
    (handleV tableStore c sys.db rx o).2 = .ack s.addr := by
  have httl : s.ttl c = offerHoldNs := by unfold Sent.ttl; rw [hk]
  exact offer_then_ack c b evs sys h hl s hs (by rw [hk]; decide) rx o hck hreq hmac hself hd hw (by rw [httl]; exact ht) hp

theorem discover_while_bound (c : SrvCfg) (b : Boot) (evs : List Ev) (sys : Sys Table) (h : ReachableT c b evs sys)
    (_hl : 0 ≤ c.leaseNs) (s : Sent) (hs : s ∈ sys.sent) (hk : s.kind ≠ .nak)
    (rx : Rx) (o : HOracle) (hck : HOracle.ClockOk o (lastClock b evs)) (hwf : WellFormedDiscover c rx)
    (hd : (getDuid tableStore sys.db o.t0 rx.msg.chaddr (decodeOptions rx.msg.options).clientIdentifier).2 = s.duid)
    (ht : o.t2 ≤ s.t + s.ttl c) :
    (handleV tableStore c sys.db rx o).2 = .offer s.addr := by
  obtain ⟨k0, k1, -, -, -, k2⟩ := hck
  have hi := reach_inv h
  have so := hi.sent.ok s hs hk
  obtain ⟨x1, -, i1, -, -, -, -, ld1⟩ := grant_binding h hs hk (t := o.t1) (by omega) (by omega)
  obtain ⟨x2, m2, i2, d2, -, l2, -, -⟩ := grant_binding h hs hk (t := o.t2) (by omega) ht
  have hlt : s.addr < 4294967296 := so.net.2.2
  have hn1 : sys.db.netFrom ≤ s.addr := by rw [hi.db.nf]; exact so.net.1
  have hn2 : s.addr ≤ sys.db.netTo := by rw [hi.db.nt]; exact so.net.2.1
  have hg : getDuid tableStore sys.db o.t0 rx.msg.chaddr (decodeOptions rx.msg.options).clientIdentifier =
      (sys.db, s.duid) := Prod.ext (getDuid_table_fst _ _ _ _) hd
  have hf : sys.db.findIP tableStore o.t1 (decodeOptions rx.msg.options).requestedIP s.duid o.perm o.iters =
      (sys.db, .ok s.addr) := by
    refine Prod.ext (findIP_table_fst _ _ _ _ _ _) ?_
    rw [find_existing _ _ _ _ _ _ x1 ld1, i1]
  have hok : (sys.db.updateClient tableStore o.t2 (some (Ip4.ofNat s.addr)) s.duid offerHoldNs).2 = .ok () := by
    rw [update_ok_iff _ _ _ _ _ (exclusive_mono hi.db.excl (by omega))]
    exact ⟨s.addr, toUip_ofNat hlt hn1 hn2, Or.inl ⟨x2, m2, l2, i2, d2⟩⟩
  rw [handleV_discover_offer tableStore c sys.db rx o hg (todo_discover hwf _) hf (pair_of_snd _ _ hok)]

theorem toUip_ok_inv {σ : Type} {db : IPDB σ} {ip : Option Ip4} {n : Nat} (h : db.toUip ip = .ok n) :
    n < 4294967296 ∧ db.netFrom ≤ n ∧ n ≤ db.netTo := by
  cases ip with
  | none => cases h
  | some i =>
    obtain ⟨e, h1, h2⟩ := toUip_some h
    exact ⟨by rw [e]; exact Ip4.toNat_lt i, h1, h2⟩

theorem liveIp_none_mono {T : Table} {t t' : Int} {a : Nat} (h : T.liveIp t a = none) (htt : t ≤ t') :
    T.liveIp t' a = none :=
  liveIp_none_of fun b hb hl => liveIp_none h b hb (live_anti hl htt)

theorem liveDuid_none_mono {T : Table} {t t' : Int} {d : Duid} (h : T.liveDuid t d = none) (htt : t ≤ t') :
    T.liveDuid t' d = none :=
  liveDuid_none_of fun b hb hl => liveDuid_none h b hb (live_anti hl htt)

theorem offerHold_nonneg : 0 ≤ offerHoldNs := by unfold offerHoldNs; omega

theorem suggestion_honoured (c : SrvCfg) (db : IPDB Table) (rx : Rx) (o : HOracle) (n : Nat)
    (hx : db.s.Exclusive o.t0) (hck : o.t0 ≤ o.t1 ∧ o.t1 ≤ (o.iters 0).now ∧ (o.iters 0).now ≤ o.t2)
    (hwf : WellFormedDiscover c rx)
    (hnb : let g := getDuid tableStore db o.t0 rx.msg.chaddr (decodeOptions rx.msg.options).clientIdentifier
           ∀ t, o.t0 ≤ t → g.1.s.liveDuid t g.2 = none)
    (hen : ¬ (db.dynTo = 0 ∧ db.dynFrom = 0))
    (hs : db.toUip (decodeOptions rx.msg.options).requestedIP = .ok n)
    (hr : db.dynFrom ≤ n ∧ n ≤ db.dynTo ∧ db.dynTo < 4294967296)
    (hu : ∀ t, o.t0 ≤ t → db.s.liveIp t n = none) (hv : IPDB.validUip n = true)
    (hf : (o.iters 0).free = true ∧ (o.iters 0).cancelled = false) :
    (handleV tableStore c db rx o).2 = .offer n := by
  obtain ⟨k1, k2, k3⟩ := hck
  have hnb' : ∀ t, o.t0 ≤ t → db.s.liveDuid t
      (getDuid tableStore db o.t0 rx.msg.chaddr (decodeOptions rx.msg.options).clientIdentifier).2 = none := by
    intro t ht
    have := hnb t ht
    rwa [getDuid_table_fst] at this
  generalize hgd : (getDuid tableStore db o.t0 rx.msg.chaddr (decodeOptions rx.msg.options).clientIdentifier).2 = d at hnb'
  have hg : getDuid tableStore db o.t0 rx.msg.chaddr (decodeOptions rx.msg.options).clientIdentifier = (db, d) :=
    Prod.ext (getDuid_table_fst _ _ _ _) hgd
  obtain ⟨hlt, hn1, hn2⟩ := toUip_ok_inv hs
  have hfind : db.findIP tableStore o.t1 (decodeOptions rx.msg.options).requestedIP d o.perm o.iters = (db, .ok n) := by
    refine Prod.ext (findIP_table_fst _ _ _ _ _ _) ?_
    exact find_suggestion_first db o.t1 _ d o.perm o.iters n (hnb' _ k1) hen hs hr
      ⟨hu _ k1, hu _ (by omega)⟩ hv hf
  have hok : (db.updateClient tableStore o.t2 (some (Ip4.ofNat n)) d offerHoldNs).2 = .ok () := by
    rw [update_ok_iff _ _ _ _ _ (exclusive_mono hx (by omega))]
    exact ⟨n, toUip_ofNat hlt hn1 hn2, Or.inr ⟨hu _ (by omega), hnb' _ (by omega), offerHold_nonneg⟩⟩
  rw [handleV_discover_offer tableStore c db rx o hg (todo_discover hwf _) hfind (pair_of_snd _ _ hok)]

/-- `C05.silent_only_if_exhausted` as stated is false for a database whose dynamic range is not inside its network
(`FindIP` picks a free address, `UpdateClient` rejects it as `notInRange`, the handler stays silent although no
address was examined and found unusable); with the range inside the network — which `server.New` guarantees
(`setDynamicRange` checks both ends with `toUip`; the default range is the network) — it holds. -/
theorem silent_only_if_exhausted_repaired (c : SrvCfg) (db : IPDB Table) (rx : Rx) (o : HOracle)
    (hx : db.s.Exclusive o.t0) (hwf : WellFormedDiscover c rx)
    (hnb : let g := getDuid tableStore db o.t0 rx.msg.chaddr (decodeOptions rx.msg.options).clientIdentifier
           g.1.s.liveDuid o.t1 g.2 = none)
    (hperm : List.Perm o.perm (List.range (1 + db.dynTo - db.dynFrom)))
    (hr : db.dynFrom ≤ db.dynTo ∧ db.dynTo < 4294967296) (hen : ¬ (db.dynTo = 0 ∧ db.dynFrom = 0))
    (hnet : db.netFrom ≤ db.dynFrom ∧ db.dynTo ≤ db.netTo)
    (hnc : ∀ i, (o.iters i).cancelled = false)
    (hck : o.t0 ≤ o.t1 ∧ o.t1 ≤ (o.iters 0).now ∧ (∀ i, (o.iters i).now ≤ (o.iters (i + 1)).now) ∧ ∀ i, (o.iters i).now ≤ o.t2)
    (hsil : (handleV tableStore c db rx o).2 = .silent) :
    ∀ a, db.dynFrom ≤ a → a ≤ db.dynTo →
      ∃ i, (db.s.liveIp (o.iters i).now a).isSome = true ∨ IPDB.validUip a = false ∨ (o.iters i).free = false := by
  obtain ⟨k1, k2, -, k4⟩ := hck
  have hnb' : db.s.liveDuid o.t1
      (getDuid tableStore db o.t0 rx.msg.chaddr (decodeOptions rx.msg.options).clientIdentifier).2 = none := by
    have := hnb
    simp only [getDuid_table_fst] at this
    exact this
  generalize hgd : (getDuid tableStore db o.t0 rx.msg.chaddr (decodeOptions rx.msg.options).clientIdentifier).2 = d at hnb'
  have hg : getDuid tableStore db o.t0 rx.msg.chaddr (decodeOptions rx.msg.options).clientIdentifier = (db, d) :=
    Prod.ext (getDuid_table_fst _ _ _ _) hgd
  cases hres : (db.findIP tableStore o.t1 (decodeOptions rx.msg.options).requestedIP d o.perm o.iters).2 with
  | error e =>
    have he : e = .noFreeIp := by
      rw [findIP_table_none _ _ _ _ _ _ hnb', if_neg hen] at hres
      split at hres
      · cases hres
      · cases hres; rfl
    subst he
    exact find_fails_only_if_exhausted db o.t1 _ d o.perm o.iters hnb' hperm hr hnc hres
  | ok a =>
    exfalso
    have hp : ∀ v ∈ o.perm, v ≤ db.dynTo - db.dynFrom := by
      intro v hv
      have := List.mem_range.1 (hperm.mem_iff.1 hv)
      omega
    obtain ⟨a1, a2, -, i, -, -, hfree⟩ := find_result_eligible db o.t1 _ d o.perm o.iters a hnb' hp hr hres
    have hfind : db.findIP tableStore o.t1 (decodeOptions rx.msg.options).requestedIP d o.perm o.iters = (db, .ok a) :=
      Prod.ext (findIP_table_fst _ _ _ _ _ _) hres
    have h02 : o.t0 ≤ o.t2 := by have := k4 0; omega
    have hok : (db.updateClient tableStore o.t2 (some (Ip4.ofNat a)) d offerHoldNs).2 = .ok () := by
      rw [update_ok_iff _ _ _ _ _ (exclusive_mono hx h02)]
      exact ⟨a, toUip_ofNat (by omega) (by omega) (by omega),
        Or.inr ⟨liveIp_none_mono hfree (k4 i), liveDuid_none_mono hnb' (by have := k4 0; omega), offerHold_nonneg⟩⟩
    rw [handleV_discover_offer tableStore c db rx o hg (todo_discover hwf _) hfind (pair_of_snd _ _ hok)] at hsil
    cases hsil

/-! ### The counterexample to `C05.silent_only_if_exhausted` as stated -/

def ceCfg : SrvCfg := { selfIp := ⟨0, 0, 0, 15⟩, selfMac := [1, 1, 1, 1, 1, 1], leaseNs := 3600000000000, mask := [255, 255, 255, 0] }
/-- Network 10..20, dynamic range 1..2 (outside the network), empty table. -/
def ceDb : IPDB Table := { netFrom := 10, netTo := 20, dynFrom := 1, dynTo := 2, s := [] }
def ceRx : Rx :=
  { src := Ip4.zero, dst := Ip4.bcast,
    msg := { op := 1, htype := 1, hops := 0, xid := 7, secs := 0, flags := 0
             ciaddr := none, yiaddr := none, siaddr := none, giaddr := none
             chaddr := [2, 2, 2, 2, 2, 2], sname := [], file := [], cookie := 0x63825363
             options := [optType 1] } }
def ceO : HOracle := { t0 := 0, t1 := 0, perm := [0, 1], t2 := 0 }

theorem ce_silent : (handleV tableStore ceCfg ceDb ceRx ceO).2 = .silent := by decide

theorem silent_only_if_exhausted_false :
    ¬ ∀ (c : SrvCfg) (db : IPDB Table) (rx : Rx) (o : HOracle)
      (_hx : db.s.Exclusive o.t0) (_hwf : WellFormedDiscover c rx)
      (_hnb : let g := getDuid tableStore db o.t0 rx.msg.chaddr (decodeOptions rx.msg.options).clientIdentifier
             g.1.s.liveDuid o.t1 g.2 = none)
      (_hperm : List.Perm o.perm (List.range (1 + db.dynTo - db.dynFrom)))
      (_hr : db.dynFrom ≤ db.dynTo ∧ db.dynTo < 4294967296) (_hen : ¬ (db.dynTo = 0 ∧ db.dynFrom = 0))
      (_hnc : ∀ i, (o.iters i).cancelled = false)
      (_hck : o.t0 ≤ o.t1 ∧ o.t1 ≤ (o.iters 0).now ∧ (∀ i, (o.iters i).now ≤ (o.iters (i + 1)).now) ∧ ∀ i, (o.iters i).now ≤ o.t2)
      (_hsil : (handleV tableStore c db rx o).2 = .silent),
      ∀ a, db.dynFrom ≤ a → a ≤ db.dynTo →
        ∃ i, (db.s.liveIp (o.iters i).now a).isSome = true ∨ IPDB.validUip a = false ∨ (o.iters i).free = false := by
  intro H
  have hx : ceDb.s.Exclusive ceO.t0 := by intro b hb; cases hb
  have hwf : WellFormedDiscover ceCfg ceRx := by unfold WellFormedDiscover; decide
  have hnb : (let g := getDuid tableStore ceDb ceO.t0 ceRx.msg.chaddr (decodeOptions ceRx.msg.options).clientIdentifier
      g.1.s.liveDuid ceO.t1 g.2 = none) := by
    simp only [getDuid_table_fst]
    rfl
  obtain ⟨i, h⟩ := H ceCfg ceDb ceRx ceO hx hwf hnb (List.Perm.refl _) (by decide) (by decide) (fun _ => rfl)
    ⟨Int.le_refl _, Int.le_refl _, fun _ => Int.le_refl _, fun _ => Int.le_refl _⟩ ce_silent 1 (by decide) (by decide)
  rcases h with h | h | h
  · cases h
  · cases h
  · cases h

/-! ## C09: the sequential handler is a run of the system -/

section Seq
variable {σ : Type}

theorem todoH_drop {α : Type} {x : Todo} (hx : x = .drop) (A : Unit → α) (B : Unit → α) (C : Ip4 → α) :
    instReprTodo.repr.match_1 (fun _ => α) x A B C = A () := by subst hx; rfl
theorem todoH_request {α : Type} {x : Todo} {want : Ip4} (hx : x = .request want) (A : Unit → α) (B : Unit → α)
    (C : Ip4 → α) : instReprTodo.repr.match_1 (fun _ => α) x A B C = C want := by subst hx; rfl
theorem natH_err {α : Type} {x : Except DbErr Nat} {e : DbErr} (hx : x = .error e) (E : DbErr → α) (K : Nat → α) :
    handle.match_3 (fun _ => α) x E K = E e := by subst hx; rfl
theorem unitH_err {α : Type} {x : Except DbErr Unit} {e : DbErr} (hx : x = .error e) (E : DbErr → α) (K : Unit → α) :
    handle.match_1 (fun _ => α) x E K = E e := by subst hx; rfl

theorem handle_drop (S : Store σ) (c : SrvCfg) (db : IPDB σ) (rx : Rx) (o : HOracle) {db1 : IPDB σ} {duid : Duid}
    (hg : getDuid S db o.t0 rx.msg.chaddr (decodeOptions rx.msg.options).clientIdentifier = (db1, duid))
    (htodo : todo c db1 rx = .drop) : handle S c db rx o = (db1, none) := by
  delta handle
  refine Eq.trans (todoH_drop ?h1 _ _ _) ?_
  case h1 => rw [hg]; exact htodo
  rw [hg]

theorem handle_discover_none (S : Store σ) (c : SrvCfg) (db : IPDB σ) (rx : Rx) (o : HOracle)
    {db1 db2 : IPDB σ} {duid : Duid} {e : DbErr}
    (hg : getDuid S db o.t0 rx.msg.chaddr (decodeOptions rx.msg.options).clientIdentifier = (db1, duid))
    (htodo : todo c db1 rx = .discover)
    (hf : db1.findIP S o.t1 (decodeOptions rx.msg.options).requestedIP duid o.perm o.iters = (db2, .error e)) :
    handle S c db rx o = (db2, none) := by
  delta handle
  refine Eq.trans (todo_match_discover ?h1 _ _ _) ?_
  case h1 => rw [hg]; exact htodo
  refine Eq.trans (natH_err (e := e) ?h2 _ _) ?_
  case h2 => rw [hg, hf]
  rw [hg, hf]

theorem handle_discover_uerr (S : Store σ) (c : SrvCfg) (db : IPDB σ) (rx : Rx) (o : HOracle)
    {db1 db2 db3 : IPDB σ} {duid : Duid} {a : Nat} {e : DbErr}
    (hg : getDuid S db o.t0 rx.msg.chaddr (decodeOptions rx.msg.options).clientIdentifier = (db1, duid))
    (htodo : todo c db1 rx = .discover)
    (hf : db1.findIP S o.t1 (decodeOptions rx.msg.options).requestedIP duid o.perm o.iters = (db2, .ok a))
    (hu : db2.updateClient S o.t2 (some (Ip4.ofNat a)) duid offerHoldNs = (db3, .error e)) :
    handle S c db rx o = (db3, none) := by
  delta handle
  refine Eq.trans (todo_match_discover ?h1 _ _ _) ?_
  case h1 => rw [hg]; exact htodo
  refine Eq.trans (nat_match_ok (a := a) ?h2 _ _) ?_
  case h2 => rw [hg, hf]
  refine Eq.trans (unitH_err (e := e) ?h3 _ _) ?_
  case h3 => rw [hg, hf, hu]
  rw [hg, hf, hu]

theorem handle_request_lerr (S : Store σ) (c : SrvCfg) (db : IPDB σ) (rx : Rx) (o : HOracle)
    {db1 db2 : IPDB σ} {duid : Duid} {want : Ip4} {e : DbErr}
    (hg : getDuid S db o.t0 rx.msg.chaddr (decodeOptions rx.msg.options).clientIdentifier = (db1, duid))
    (htodo : todo c db1 rx = .request want)
    (hl : db1.lookupByDuid S o.t1 duid = (db2, .error e)) :
    handle S c db rx o = (db2, some (nakFrame c rx.msg)) := by
  delta handle
  refine Eq.trans (todoH_request (want := want) ?h1 _ _ _) ?_
  case h1 => rw [hg]; exact htodo
  refine Eq.trans (natH_err (e := e) ?h2 _ _) ?_
  case h2 => rw [hg, hl]
  rw [hg, hl]

theorem handle_request_nak (S : Store σ) (c : SrvCfg) (db : IPDB σ) (rx : Rx) (o : HOracle)
    {db1 db2 : IPDB σ} {duid : Duid} {want : Ip4} {lease : Nat}
    (hg : getDuid S db o.t0 rx.msg.chaddr (decodeOptions rx.msg.options).clientIdentifier = (db1, duid))
    (htodo : todo c db1 rx = .request want)
    (hl : db1.lookupByDuid S o.t1 duid = (db2, .ok lease)) (hw : ¬ (want.toNat = lease ∧ o.probeFree = true)) :
    handle S c db rx o = (db2, some (nakFrame c rx.msg)) := by
  delta handle
  refine Eq.trans (todoH_request (want := want) ?h1 _ _ _) ?_
  case h1 => rw [hg]; exact htodo
  refine Eq.trans (nat_match_ok (a := lease) ?h2 _ _) ?_
  case h2 => rw [hg, hl]
  by_cases h1 : want.toNat = lease
  · refine Eq.trans (if_neg (fun hne => hne h1)) ?_
    refine Eq.trans (if_pos (fun hpf => hw ⟨h1, hpf⟩)) ?_
    rw [hg, hl]
  · refine Eq.trans (if_pos h1) ?_
    rw [hg, hl]

theorem handle_request_uerr (S : Store σ) (c : SrvCfg) (db : IPDB σ) (rx : Rx) (o : HOracle)
    {db1 db2 db3 : IPDB σ} {duid : Duid} {want : Ip4} {lease : Nat} {e : DbErr}
    (hg : getDuid S db o.t0 rx.msg.chaddr (decodeOptions rx.msg.options).clientIdentifier = (db1, duid))
    (htodo : todo c db1 rx = .request want)
    (hl : db1.lookupByDuid S o.t1 duid = (db2, .ok lease)) (hw : want.toNat = lease) (hp : o.probeFree = true)
    (hu : db2.updateClient S o.t2 (some (Ip4.ofNat lease)) duid c.leaseNs = (db3, .error e)) :
    handle S c db rx o = (db3, none) := by
  delta handle
  refine Eq.trans (todoH_request (want := want) ?h1 _ _ _) ?_
  case h1 => rw [hg]; exact htodo
  refine Eq.trans (nat_match_ok (a := lease) ?h2 _ _) ?_
  case h2 => rw [hg, hl]
  refine Eq.trans (if_neg (fun hne => hne hw)) ?_
  refine Eq.trans (if_neg (fun hne => hne hp)) ?_
  refine Eq.trans (unitH_err (e := e) ?h5 _ _) ?_
  case h5 => rw [hg, hl, hu]
  rw [hg, hl, hu]

theorem handle_request_ack (S : Store σ) (c : SrvCfg) (db : IPDB σ) (rx : Rx) (o : HOracle)
    {db1 db2 db3 : IPDB σ} {duid : Duid} {want : Ip4} {lease : Nat} {v : Unit}
    (hg : getDuid S db o.t0 rx.msg.chaddr (decodeOptions rx.msg.options).clientIdentifier = (db1, duid))
    (htodo : todo c db1 rx = .request want)
    (hl : db1.lookupByDuid S o.t1 duid = (db2, .ok lease)) (hw : want.toNat = lease) (hp : o.probeFree = true)
    (hu : db2.updateClient S o.t2 (some (Ip4.ofNat lease)) duid c.leaseNs = (db3, .ok v)) :
    handle S c db rx o = (db3, some (leaseFrame c .ack rx.msg (Ip4.ofNat lease))) := by
  delta handle
  refine Eq.trans (todoH_request (want := want) ?h1 _ _ _) ?_
  case h1 => rw [hg]; exact htodo
  refine Eq.trans (nat_match_ok (a := lease) ?h2 _ _) ?_
  case h2 => rw [hg, hl]
  refine Eq.trans (if_neg (fun hne => hne hw)) ?_
  refine Eq.trans (if_neg (fun hne => hne hp)) ?_
  refine Eq.trans (unit_match_ok (v := v) ?h5 _ _) ?_
  case h5 => rw [hg, hl, hu]
  rw [hg, hl, hu]

theorem run1 (S : Store σ) (c : SrvCfg) (s : Sys σ) (e : Ev) : Sys.run S c s [e] = Sys.step S c s e := rfl

theorem run3 (S : Store σ) (c : SrvCfg) (s : Sys σ) (e₁ e₂ e₃ : Ev) :
    Sys.run S c s [e₁, e₂, e₃] = Sys.step S c (Sys.step S c (Sys.step S c s e₁) e₂) e₃ := rfl

theorem handle_is_a_run_gen (S : Store σ) (c : SrvCfg) (db : IPDB σ) (b : Bytes) (rx : Rx) (o : HOracle) (tEnd : Int)
    (hrx : rxChain b = .ok (some rx)) :
    ∃ evs : List Ev, evs.length ≤ 3 ∧
      (Sys.run S c { db := db } evs).db = (handle S c db rx o).1 ∧
      ((Sys.run S c { db := db } evs).sent.map (·.frame)) = (handle S c db rx o).2.toList := by
  have h1 := step_recv_some S c { db := db } o.t0 b hrx
  simp only [] at h1
  generalize hg : getDuid S db o.t0 rx.msg.chaddr (decodeOptions rx.msg.options).clientIdentifier = g at h1
  obtain ⟨db1, duid⟩ := g
  unfold recvResult at h1
  simp only [] at h1
  generalize hk0 : (o.t0, DbOp.lookupByDuid (sduid rx.msg.chaddr)) = k0 at h1
  cases htd : todo c db1 rx with
  | drop =>
    rw [htd] at h1
    refine ⟨[.recv o.t0 b], by simp, ?_⟩
    rw [run1, h1, handle_drop S c db rx o hg htd]
    exact ⟨rfl, rfl⟩
  | discover =>
    rw [htd] at h1
    have h2 := step_find_some S c
      ({ db := db1, pend := [.a1 rx duid], sent := [], calls := [k0] } : Sys σ) 0 o.t1 o.perm o.iters tEnd
      (rx := rx) (duid := duid) rfl
    simp only [] at h2
    generalize hf : db1.findIP S o.t1 (decodeOptions rx.msg.options).requestedIP duid o.perm o.iters = f at h2
    obtain ⟨db2, r⟩ := f
    generalize hk1 : (o.t1, DbOp.findIP (decodeOptions rx.msg.options).requestedIP duid o.perm o.iters tEnd) = k1 at h2
    refine ⟨[.recv o.t0 b, .find 0 o.t1 o.perm o.iters tEnd, .hold 0 o.t2], by simp, ?_⟩
    rw [run3, h1]
    cases r with
    | error e =>
      have h2' : Sys.step S c { db := db1, pend := [] ++ [.a1 rx duid], sent := [], calls := [k0] }
          (.find 0 o.t1 o.perm o.iters tEnd) = { db := db2, pend := [.done], sent := [], calls := [k1, k0] } := by
        rw [← hk1]; exact h2
      rw [h2', step_hold_none S c _ 0 o.t2 (by intro rx duid a h; simp at h),
        handle_discover_none S c db rx o hg htd hf]
      exact ⟨rfl, rfl⟩
    | ok a =>
      have h2' : Sys.step S c { db := db1, pend := [] ++ [.a1 rx duid], sent := [], calls := [k0] }
          (.find 0 o.t1 o.perm o.iters tEnd) = { db := db2, pend := [.a2 rx duid a], sent := [], calls := [k1, k0] } := by
        rw [← hk1]; exact h2
      have h3 := step_hold_some S c
        ({ db := db2, pend := [.a2 rx duid a], sent := [], calls := [k1, k0] } : Sys σ) 0 o.t2
        (rx := rx) (duid := duid) (a := a) rfl
      simp only [] at h3
      generalize hu : db2.updateClient S o.t2 (some (Ip4.ofNat a)) duid offerHoldNs = u at h3
      obtain ⟨db3, ru⟩ := u
      rw [h2', h3]
      cases ru with
      | error e =>
        rw [handle_discover_uerr S c db rx o hg htd hf hu]
        exact ⟨rfl, rfl⟩
      | ok v =>
        rw [handle_discover S c db rx o hg htd hf hu]
        exact ⟨rfl, rfl⟩
  | request want =>
    rw [htd] at h1
    simp only [List.nil_append] at h1
    have h2 := step_look_some S c
      ({ db := db1, pend := [.b1 rx duid want], sent := [], calls := [k0] } : Sys σ) 0 o.t1 o.probeFree
      (rx := rx) (duid := duid) (want := want) rfl
    simp only [] at h2
    generalize hl : db1.lookupByDuid S o.t1 duid = l at h2
    obtain ⟨db2, r⟩ := l
    refine ⟨[.recv o.t0 b, .look 0 o.t1 o.probeFree, .lease 0 o.t2], by simp, ?_⟩
    rw [run3, h1, h2]
    unfold lookResult
    have hnakstate : ∀ s : Sys σ,
        s = { db := db2, pend := [.done], sent := [⟨o.t1, .nak, 0, duid, rx, nakFrame c rx.msg⟩],
              calls := [(o.t1, DbOp.lookupByDuid duid), k0] } →
        (Sys.step S c s (.lease 0 o.t2)).db = db2 ∧
          (Sys.step S c s (.lease 0 o.t2)).sent.map (·.frame) = (some (nakFrame c rx.msg)).toList := by
      intro s hs
      subst hs
      rw [step_lease_none S c _ 0 o.t2 (by intro rx duid a h; simp at h)]
      exact ⟨rfl, rfl⟩
    cases r with
    | error e =>
      rw [handle_request_lerr S c db rx o hg htd hl]
      exact hnakstate _ rfl
    | ok lease =>
      simp only []
      by_cases hw : want.toNat = lease ∧ o.probeFree = true
      · rw [if_pos hw]
        have h3 := step_lease_some S c
          ({ db := db2, pend := [.b2 rx duid lease], sent := [], calls := [(o.t1, DbOp.lookupByDuid duid), k0] } : Sys σ)
          0 o.t2 (rx := rx) (duid := duid) (a := lease) rfl
        simp only [] at h3
        generalize hu : db2.updateClient S o.t2 (some (Ip4.ofNat lease)) duid c.leaseNs = u at h3
        obtain ⟨db3, ru⟩ := u
        have e : ([Pending.b1 rx duid want].set 0 (Pending.b2 rx duid lease)) = [Pending.b2 rx duid lease] := rfl
        rw [e]
        rw [h3]
        cases ru with
        | error e =>
          rw [handle_request_uerr S c db rx o hg htd hl hw.1 hw.2 hu]
          exact ⟨rfl, rfl⟩
        | ok v =>
          rw [handle_request_ack S c db rx o hg htd hl hw.1 hw.2 hu]
          exact ⟨rfl, rfl⟩
      · rw [if_neg hw, handle_request_nak S c db rx o hg htd hl hw]
        exact hnakstate _ rfl

end Seq

theorem handle_is_a_run (c : SrvCfg) (db : IPDB Table) (b : Bytes) (rx : Rx) (o : HOracle) (tEnd : Int)
    (hrx : rxChain b = .ok (some rx)) :
    ∃ evs : List Ev, evs.length ≤ 3 ∧
      (Sys.run tableStore c { db := db } evs).db = (handle tableStore c db rx o).1 ∧
      ((Sys.run tableStore c { db := db } evs).sent.map (·.frame)) = (handle tableStore c db rx o).2.toList :=
  handle_is_a_run_gen tableStore c db b rx o tEnd hrx

end PsaDhcp.Proofs.Liveness
