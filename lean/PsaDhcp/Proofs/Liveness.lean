import PsaDhcp.Model.Verdict
import PsaDhcp.Model.System
import PsaDhcp.Spec.ServerSpec
import PsaDhcp.Proofs.Ipdb
import PsaDhcp.Proofs.Safety
namespace PsaDhcp.Proofs.Liveness
end PsaDhcp.Proofs.Liveness
