import PsaDhcp.Code.Bridge
import PsaDhcp.Proofs.Dhcp
/-
Helper lemmas for Proofs/CodeDhcpOpts.lean: the typed accessors of optshelper.go.
-/
namespace PsaDhcp.Proofs.CodeDhcpOptsAux
open PsaDhcp PsaDhcp.Go PsaDhcp.Code

/-! ### Prelude primitives -/

theorem idx_nat {α : Type} (b : List α) (n : Nat) (site : String) (h : n < b.length) :
    Go.idx b (n : Int) site = .ok b[n] := by
  unfold Go.idx
  have : ¬ ((n : Int) < 0) := by omega
  rw [if_neg this]
  simp [List.getElem?_eq_getElem h]
  rfl

theorem idx_nat_add {α : Type} (b : List α) (n k : Nat) (site : String) (h : n + k < b.length) :
    Go.idx b ((n : Int) + (k : Int)) site = .ok b[n + k] := by
  have : (n : Int) + (k : Int) = ((n + k : Nat) : Int) := by simp
  rw [this, idx_nat b (n + k) site h]

theorem idx_add_lit {α : Type} (b : List α) (n k : Nat) (site : String) (h : n + k < b.length) :
    Go.idx b ((n : Int) + (OfNat.ofNat k : Int)) site = .ok b[n + k] :=
  idx_nat_add b n k site h

/-! ### toUint8 / toUint16 / toDuration / toNetmask / toString -/

theorem toUint8_eq (x : Bytes) : Gen.dhcpmsg.toUint8 x = .ok (toUint8 x) := by
  unfold Gen.dhcpmsg.toUint8 toUint8
  match x with
  | [] => rfl
  | [a] => rfl
  | a :: b :: r =>
    have : ¬ ((r.length : Int) + 1 + 1 = 1) := by omega
    simp [this]
    rfl

theorem u16_be (a b : UInt8) :
    ((a.toUInt16 <<< (8 : UInt16)) ||| b.toUInt16) = UInt16.ofNat (a.toNat * 256 + b.toNat) := by
  apply UInt16.toNat_inj.1
  have ha := a.toNat_lt
  have hb := b.toNat_lt
  simp only [UInt16.toNat_or, UInt16.toNat_shiftLeft, UInt8.toNat_toUInt16, UInt16.toNat_ofNat']
  have h8 : UInt16.toNat 8 % 16 = 8 := by decide
  rw [h8, Nat.shiftLeft_eq]
  have h1 : a.toNat * 2 ^ 8 % 2 ^ 16 = a.toNat <<< 8 := by rw [Nat.shiftLeft_eq]; omega
  rw [h1, ← Nat.shiftLeft_add_eq_or_of_lt hb, Nat.shiftLeft_eq]
  omega

theorem toUint16_eq (x : Bytes) : Gen.dhcpmsg.toUint16 x = .ok (UInt16.ofNat (toUint16 x)) := by
  unfold Gen.dhcpmsg.toUint16 toUint16
  match x with
  | [] => rfl
  | [a] => rfl
  | [a, b] =>
    show Except.ok ((a.toUInt16 <<< (8 : UInt16)) ||| b.toUInt16) = _
    rw [u16_be]
  | a :: b :: c :: r =>
    have : ¬ ((r.length : Int) + 1 + 1 + 1 = 2) := by omega
    simp [this]
    rfl

theorem u32_be_toNat (a b c d : UInt8) :
    ((a.toUInt32 <<< 24) ||| (b.toUInt32 <<< 16) ||| (c.toUInt32 <<< 8) ||| d.toUInt32).toNat
      = a.toNat * 16777216 + b.toNat * 65536 + c.toNat * 256 + d.toNat := by
  have ha := a.toNat_lt
  have hb := b.toNat_lt
  have hc := c.toNat_lt
  have hd := d.toNat_lt
  simp only [UInt32.toNat_or, UInt32.toNat_shiftLeft, UInt8.toNat_toUInt32]
  have h24 : UInt32.toNat 24 % 32 = 24 := by decide
  have h16 : UInt32.toNat 16 % 32 = 16 := by decide
  have h8 : UInt32.toNat 8 % 32 = 8 := by decide
  rw [h24, h16, h8]
  have e1 : a.toNat <<< 24 % 2 ^ 32 = a.toNat <<< 24 := by rw [Nat.shiftLeft_eq]; omega
  have e2 : b.toNat <<< 16 % 2 ^ 32 = b.toNat <<< 16 := by rw [Nat.shiftLeft_eq]; omega
  have e3 : c.toNat <<< 8 % 2 ^ 32 = c.toNat <<< 8 := by rw [Nat.shiftLeft_eq]; omega
  rw [e1, e2, e3, Nat.or_assoc, Nat.or_assoc]
  rw [← Nat.shiftLeft_add_eq_or_of_lt hd]
  have l1 : c.toNat <<< 8 + d.toNat < 2 ^ 16 := by rw [Nat.shiftLeft_eq]; omega
  rw [← Nat.shiftLeft_add_eq_or_of_lt l1]
  have l2 : b.toNat <<< 16 + (c.toNat <<< 8 + d.toNat) < 2 ^ 24 := by
    rw [Nat.shiftLeft_eq, Nat.shiftLeft_eq]; omega
  rw [← Nat.shiftLeft_add_eq_or_of_lt l2]
  simp only [Nat.shiftLeft_eq]
  omega

theorem toDuration_eq (x : Bytes) : Gen.dhcpmsg.toDuration x = .ok (secsToGen (toSecs x)) := by
  unfold Gen.dhcpmsg.toDuration toSecs
  match x with
  | [] => rfl
  | [a] => rfl
  | [a, b] => rfl
  | [a, b, c] => rfl
  | [a, b, c, d] =>
    show Except.ok ((1000000000 : Int) * Int.ofNat ((a.toUInt32 <<< 24) ||| (b.toUInt32 <<< 16) ||| (c.toUInt32 <<< 8) ||| d.toUInt32).toNat) = _
    rw [u32_be_toNat]; rfl
  | a :: b :: c :: d :: e :: r =>
    have : ¬ ((r.length : Int) + 1 + 1 + 1 + 1 + 1 = 4) := by omega
    simp [this]
    rfl

theorem toNetmask_eq (x : Bytes) : Gen.dhcpmsg.toNetmask x = .ok (maskToGen (toNetmask x)) := by
  unfold Gen.dhcpmsg.toNetmask toNetmask Ip4.ofBytes?
  match x with
  | [] => rfl
  | [a] => rfl
  | [a, b] => rfl
  | [a, b, c] => rfl
  | [a, b, c, d] => rfl
  | a :: b :: c :: d :: e :: r =>
    have : ¬ ((r.length : Int) + 1 + 1 + 1 + 1 + 1 = 4) := by omega
    simp [this]
    rfl

theorem toString_eq (x : Bytes) : Gen.dhcpmsg.toString x = x := rfl

/-! ### toV4A / toV4 -/

/-- Fuel-free form of `chunks4`. -/
def chunks : Bytes → List Ip4
  | a :: b :: c :: d :: r => ⟨a, b, c, d⟩ :: chunks r
  | _ => []

theorem chunks4_eq : ∀ (f : Nat) (y : Bytes), y.length ≤ f → chunks4 f y = chunks y := by
  intro f
  induction f with
  | zero => intro y h; match y with | [] => simp [chunks4, chunks]
  | succ f ih =>
    intro y h
    match y with
    | [] => simp [chunks4, chunks]
    | [_] => simp [chunks4, chunks]
    | [_, _] => simp [chunks4, chunks]
    | [_, _, _] => simp [chunks4, chunks]
    | a :: b :: c :: d :: r =>
      simp only [chunks4, chunks, List.length_cons] at h ⊢
      rw [ih r (by omega)]

theorem drop4 (x : Bytes) (n : Nat) (h : n + 3 < x.length) :
    x.drop n = x[n] :: x[n + 1] :: x[n + 2] :: x[n + 3] :: x.drop (n + 4) := by
  rw [List.drop_eq_getElem_cons (by omega), List.drop_eq_getElem_cons (by omega),
    List.drop_eq_getElem_cons (by omega), List.drop_eq_getElem_cons (by omega)]

theorem toV4A_loop (x : Bytes) : ∀ (fuel : Nat) (v : List Bytes) (n : Nat),
    n ≤ x.length → (x.length - n) % 4 = 0 → x.length - n < fuel →
    Gen.dhcpmsg.toV4A.loop1 x fuel (v, (n : Int))
      = .ok (v ++ (chunks (x.drop n)).map ipToGen, (x.length : Int)) := by
  intro fuel
  induction fuel with
  | zero => intro v n _ _ h; omega
  | succ fuel ih =>
    intro v n hn hm hf
    unfold Gen.dhcpmsg.toV4A.loop1
    by_cases hlt : n < x.length
    · have h3 : n + 3 < x.length := by omega
      have hc : ((n : Int) < Int.ofNat x.length) := by simp; omega
      simp only [hc, decide_true, Bool.not_true, Bool.false_eq_true, if_false]
      rw [idx_add_lit x n 0 _ (by omega), idx_add_lit x n 1 _ (by omega),
        idx_add_lit x n 2 _ (by omega), idx_add_lit x n 3 _ (by omega)]
      simp only [bind, Except.bind]
      have e4 : (n : Int) + 4 = ((n + 4 : Nat) : Int) := by simp
      rw [e4, ih _ (n + 4) (by omega) (by omega) (by omega), drop4 x n h3]
      simp [chunks, ipToGen]
    · have : n = x.length := by omega
      subst this
      simp [chunks]
      rfl

theorem toV4A_eq (x : Bytes) : Gen.dhcpmsg.toV4A x = .ok ((toV4A x).map ipToGen) := by
  unfold Gen.dhcpmsg.toV4A toV4A
  by_cases hc : 4 ≤ x.length ∧ x.length % 4 = 0
  · have h1 : (Int.ofNat x.length ≥ 4) := by simp; omega
    have h2 : Int.tmod (Int.ofNat x.length) 4 = 0 := by
      have : Int.ofNat x.length = (x.length : Int) := rfl
      rw [this, Int.tmod_eq_emod_of_nonneg (by omega)]; omega
    rw [if_pos hc]
    simp only [h1, h2, decide_true, BEq.rfl, Bool.and_self, if_true]
    have := toV4A_loop x (([] : List Bytes).length + x.length + 1) [] 0 (by omega) (by simp; omega)
      (by simp)
    rw [show ((0 : Nat) : Int) = (0 : Int) from rfl] at this
    rw [this, chunks4_eq _ _ (Nat.le_refl _)]
    simp [bind, Except.bind, pure, Except.pure]
  · rw [if_neg hc]
    have : ¬ ((Int.ofNat x.length ≥ 4) ∧ Int.tmod (Int.ofNat x.length) 4 = 0) := by
      have : Int.ofNat x.length = (x.length : Int) := rfl
      rw [this, Int.tmod_eq_emod_of_nonneg (by omega)]; omega
    have hb : (decide (Int.ofNat x.length ≥ 4) && Int.tmod (Int.ofNat x.length) 4 == 0) = false := by
      rw [Bool.eq_false_iff]
      intro h
      simp only [Bool.and_eq_true, decide_eq_true_eq, beq_iff_eq] at h
      exact this h
    simp only [hb, Bool.false_eq_true, if_false]
    rfl

theorem toV4_eq (x : Bytes) : Gen.dhcpmsg.toV4 x = .ok (optIpToGen (toV4 x)) := by
  unfold Gen.dhcpmsg.toV4 toV4
  rw [toV4A_eq]
  simp only [bind, Except.bind]
  match toV4A x with
  | [] => rfl
  | [i] => rfl
  | i :: j :: r =>
    have : ¬ ((r.length : Int) + 1 + 1 = 1) := by omega
    simp [this]
    rfl

end PsaDhcp.Proofs.CodeDhcpOptsAux
