import PsaDhcp.Model.Dhcp
import PsaDhcp.Spec.Rfc2131
/-
Proofs for C12 (`Props/C12.lean`): the DHCP codec model against the RFC 2131/2132 reading.
-/
namespace PsaDhcp.Proofs.Dhcp
open PsaDhcp PsaDhcp.Spec

/-- `b[i]` with default, to name header bytes. -/
def g (b : Bytes) (i : Nat) : UInt8 := b.getD i 0

theorem getElem?_g {b : Bytes} {i : Nat} (h : i < b.length) : b[i]? = some (g b i) := by
  simp [g, List.getD, List.getElem?_eq_getElem h]

theorem idx_ok {b : Bytes} {i : Nat} (s : String) (h : i < b.length) : idx b i s = .ok (g b i) := by
  simp [idx, getElem?_g h, pure, Except.pure]

theorem drop_g {b : Bytes} {i : Nat} (h : i < b.length) : b.drop i = g b i :: b.drop (i + 1) := by
  rw [List.drop_eq_getElem_cons h]
  simp [g, List.getD, List.getElem?_eq_getElem h]

theorem be16At_ok {b : Bytes} {i : Nat} (s : String) (h : i + 1 < b.length) :
    be16At b i s = .ok (be16 (b.drop i)) := by
  have h0 : i < b.length := by omega
  simp [be16At, idx_ok s h0, idx_ok s h, drop_g h0, drop_g h, be16, bind, Except.bind, pure, Except.pure]

theorem be32At_ok {b : Bytes} {i : Nat} (s : String) (h : i + 3 < b.length) :
    be32At b i s = .ok (be32 (b.drop i)) := by
  have h0 : i < b.length := by omega
  have h1 : i + 1 < b.length := by omega
  have h2 : i + 2 < b.length := by omega
  simp [be32At, idx_ok s h0, idx_ok s h1, idx_ok s h2, idx_ok s h, drop_g h0, drop_g h1, drop_g h2, drop_g h,
    be32, bind, Except.bind, pure, Except.pure]

theorem ip4At_ok {b : Bytes} {i : Nat} (s : String) (h : i + 3 < b.length) :
    ip4At b i s = .ok ⟨g b i, g b (i+1), g b (i+2), g b (i+3)⟩ := by
  have h0 : i < b.length := by omega
  have h1 : i + 1 < b.length := by omega
  have h2 : i + 2 < b.length := by omega
  simp [ip4At, idx_ok s h0, idx_ok s h1, idx_ok s h2, idx_ok s h, bind, Except.bind, pure, Except.pure]

theorem ofBytes_drop {b : Bytes} {i : Nat} (h : i + 3 < b.length) :
    Ip4.ofBytes? ((b.drop i).take 4) = some ⟨g b i, g b (i+1), g b (i+2), g b (i+3)⟩ := by
  have h0 : i < b.length := by omega
  have h1 : i + 1 < b.length := by omega
  have h2 : i + 2 < b.length := by omega
  simp [drop_g h0, drop_g h1, drop_g h2, drop_g h, Ip4.ofBytes?]

theorem slice_ok (b : Bytes) (lo hi : Nat) (s : String) (h1 : lo ≤ hi) (h2 : hi ≤ b.length) :
    slice b lo hi s = .ok ((b.drop lo).take (hi - lo)) := by
  simp [slice, h1, h2, pure, Except.pure, List.drop_take]

theorem slice_end (b : Bytes) (lo : Nat) (s : String) (h : lo ≤ b.length) :
    slice b lo b.length s = .ok (b.drop lo) := by
  simp [slice, h, pure, Except.pure]

/-- Suffix-based version of the option loop. -/
def walkS : (fuel : Nat) → (rest : Bytes) → (opt : UInt8) → UInt8 × List Opt
  | 0, _, opt => (opt, [])
  | _ + 1, [], opt => (opt, [])
  | f + 1, o :: r, _ =>
    if o = 0 then walkS f r 0
    else if o = 0xff then (o, [])
    else match r with
      | [] => (o, [])
      | l :: r' =>
        if l.toNat ≤ r'.length then
          ((walkS f (r'.drop l.toNat) o).1, ⟨o, r'.take l.toNat⟩ :: (walkS f (r'.drop l.toNat) o).2)
        else (o, [])

theorem walkIdx_eq (b : Bytes) : ∀ (fuel c : Nat) (opt : UInt8) (acc : List Opt), c ≤ b.length →
    walkIdx b fuel c opt acc
      = .ok ((walkS fuel (b.drop c) opt).1, acc ++ (walkS fuel (b.drop c) opt).2) := by
  intro fuel
  induction fuel with
  | zero => intro c opt acc _; simp [walkIdx, walkS, pure, Except.pure]
  | succ f ih =>
    intro c opt acc hc
    by_cases hlt : c < b.length
    · rw [drop_g hlt]
      simp only [walkIdx, if_pos hlt, idx_ok _ hlt, bind, Except.bind, walkS]
      by_cases h0 : g b c = 0
      · simp only [if_pos h0]
        rw [ih (c + 1) _ acc (by omega), h0]
      · simp only [if_neg h0]
        by_cases hff : g b c = 0xff
        · simp [hff, pure, Except.pure]
        · by_cases hlt1 : c + 1 < b.length
          · rw [drop_g hlt1]
            have hcond : ¬ (¬ (c + 1 < b.length) ∨ g b c = 0xff) := by simp [hlt1, hff]
            simp only [if_neg hcond, if_neg hff, idx_ok _ hlt1, List.length_drop]
            by_cases hl : c + 1 + 1 + (g b (c+1)).toNat ≤ b.length
            · have hl' : (g b (c+1)).toNat ≤ b.length - (c + 1 + 1) := by omega
              simp only [hl, not_true, if_false, if_pos hl']
              rw [slice_ok b _ _ _ (by omega) hl]
              simp only []
              rw [ih _ _ _ hl]
              simp [List.drop_drop, Nat.add_sub_cancel_left]
            · have hl' : ¬ (g b (c+1)).toNat ≤ b.length - (c + 1 + 1) := by omega
              simp [hl, hl', pure, Except.pure]
          · have : b.drop (c + 1) = [] := List.drop_of_length_le (by omega)
            simp [hlt1, hff, this, pure, Except.pure]
    · have : b.drop c = [] := List.drop_of_length_le (by omega)
      simp [walkIdx, hlt, this, walkS, pure, Except.pure]


theorem walkS_sound : ∀ (f : Nat) (rest : Bytes) (opt : UInt8), opt ≠ 0xff →
    (walkS f rest opt).1 = 0xff → Area rest (walkS f rest opt).2 := by
  intro f
  induction f with
  | zero => intro rest opt h1 h2; simp [walkS] at h2; exact absurd h2 h1
  | succ f ih =>
    intro rest opt h1 h2
    match rest with
    | [] => simp [walkS] at h2; exact absurd h2 h1
    | o :: r =>
      simp only [walkS] at h2 ⊢
      by_cases h0 : o = 0
      · simp only [if_pos h0] at h2 ⊢
        subst h0
        exact Area.pad (ih r 0 (by decide) h2)
      · simp only [if_neg h0] at h2 ⊢
        by_cases hff : o = 0xff
        · simp only [if_pos hff]
          subst hff
          exact Area.fin r
        · simp only [if_neg hff] at h2 ⊢
          match r with
          | [] => simp at h2; exact absurd h2 hff
          | l :: r' =>
            simp only [] at h2 ⊢
            by_cases hl : l.toNat ≤ r'.length
            · simp only [if_pos hl] at h2 ⊢
              have := ih _ o hff h2
              have key := Area.tlv (l := l) (data := r'.take l.toNat) h0 hff
                (by rw [List.length_take]; exact Nat.min_eq_left hl) this
              rw [List.take_append_drop] at key
              exact key
            · simp only [if_neg hl] at h2
              exact absurd h2 hff

theorem walkS_complete {rest : Bytes} {os : List Opt} (h : Area rest os) :
    ∀ (f : Nat) (opt : UInt8), rest.length ≤ f → walkS f rest opt = (0xff, os) := by
  induction h with
  | fin rest =>
    intro f opt hf
    match f with
    | f + 1 => simp [walkS]
  | pad _ ih =>
    intro f opt hf
    match f with
    | f + 1 =>
      simp only [walkS, if_pos]
      exact ih f 0 (by simp at hf; omega)
  | @tlv o l data r os h0 hff hlen _ ih =>
    intro f opt hf
    match f with
    | f + 1 =>
      have hle : l.toNat ≤ data.length + r.length := by omega
      have ht : (data ++ r).take l.toNat = data := List.take_left' hlen
      have hd : (data ++ r).drop l.toNat = r := List.drop_left' hlen
      have := ih f o (by simp at hf; omega)
      simp [walkS, h0, hff, hle, ht, hd, this]

theorem area_unique (a : Bytes) (os os' : List Opt) (h : Area a os) (h' : Area a os') : os = os' := by
  have h1 := walkS_complete h a.length 0 (Nat.le_refl _)
  have h2 := walkS_complete h' a.length 0 (Nat.le_refl _)
  rw [h1] at h2
  exact (Prod.mk.inj h2).2

/-- The message `decode` returns on a packet of at least 240 bytes whose option walk yields `os`. -/
def fixedMsg (b : Bytes) (os : List Opt) : Msg :=
  { op := g b 0, htype := g b 1, hops := g b 3, xid := be32 (b.drop 4), secs := be16 (b.drop 8),
    flags := be16 (b.drop 10),
    ciaddr := some ⟨g b 12, g b 13, g b 14, g b 15⟩, yiaddr := some ⟨g b 16, g b 17, g b 18, g b 19⟩,
    siaddr := some ⟨g b 20, g b 21, g b 22, g b 23⟩, giaddr := some ⟨g b 24, g b 25, g b 26, g b 27⟩,
    chaddr := copyInto (g b 2).toNat (b.drop 28), sname := copyInto 64 (b.drop 44),
    file := copyInto 128 (b.drop 108), cookie := be32 (b.drop 236), options := os }

theorem decode_short {b : Bytes} (h : b.length < 240) : decode b = .error (.reject "short dhcpmsg") := by
  simp [decode, h, bind, Except.bind, throw, throwThe, MonadExceptOf.throw]

theorem decode_long {b : Bytes} (h : 240 ≤ b.length) :
    decode b = if (walkS b.length (b.drop 240) 0).1 = 0xff
      then .ok (fixedMsg b (walkS b.length (b.drop 240) 0).2)
      else .error (.reject "truncated options") := by
  have hn : ¬ b.length < 240 := by omega
  unfold decode
  rw [idx_ok _ (by omega : 2 < b.length), idx_ok _ (by omega : 0 < b.length),
    idx_ok _ (by omega : 1 < b.length), idx_ok _ (by omega : 3 < b.length),
    be32At_ok _ (by omega : 4 + 3 < b.length), be16At_ok _ (by omega : 8 + 1 < b.length),
    be16At_ok _ (by omega : 10 + 1 < b.length), be32At_ok _ (by omega : 236 + 3 < b.length),
    ip4At_ok _ (by omega : 12 + 3 < b.length), ip4At_ok _ (by omega : 16 + 3 < b.length),
    ip4At_ok _ (by omega : 20 + 3 < b.length), ip4At_ok _ (by omega : 24 + 3 < b.length),
    slice_end b 28 _ (by omega), slice_end b 44 _ (by omega), slice_end b 108 _ (by omega),
    walkIdx_eq b _ _ _ _ h]
  simp only [if_neg hn, bind, Except.bind, pure, Except.pure, List.nil_append]
  by_cases hw : (walkS b.length (b.drop 240) 0).1 = 0xff
  · simp [hw, fixedMsg]
  · simp [hw, throw, throwThe, MonadExceptOf.throw]

theorem copyInto_of_le {n : Nat} {s : Bytes} (h : n ≤ s.length) : copyInto n s = s.take n := by
  simp [copyInto, Nat.sub_eq_zero_of_le h]

theorem fixedAt_fixedMsg {b : Bytes} (h : 240 ≤ b.length) (os : List Opt) : FixedAt b (fixedMsg b os) where
  op := getElem?_g (by omega)
  htype := getElem?_g (by omega)
  hlen := ⟨g b 2, getElem?_g (by omega), rfl⟩
  hops := getElem?_g (by omega)
  xid := rfl
  secs := rfl
  flags := rfl
  ciaddr := (ofBytes_drop (by omega : 12 + 3 < b.length)).symm
  yiaddr := (ofBytes_drop (by omega : 16 + 3 < b.length)).symm
  siaddr := (ofBytes_drop (by omega : 20 + 3 < b.length)).symm
  giaddr := (ofBytes_drop (by omega : 24 + 3 < b.length)).symm
  sname := copyInto_of_le (by simp; omega)
  file := copyInto_of_le (by simp; omega)
  cookie := rfl

theorem fixedAt_eq {b : Bytes} {m : Msg} (h : 240 ≤ b.length) (hf : FixedAt b m) :
    m = fixedMsg b m.options := by
  obtain ⟨h0, h1, ⟨hl, h2, hch⟩, h3, hxid, hsecs, hflags, hci, hyi, hsi, hgi, hsn, hfi, hco⟩ := hf
  rw [getElem?_g (by omega)] at h0 h1 h2 h3
  rw [ofBytes_drop (by omega : 12 + 3 < b.length)] at hci
  rw [ofBytes_drop (by omega : 16 + 3 < b.length)] at hyi
  rw [ofBytes_drop (by omega : 20 + 3 < b.length)] at hsi
  rw [ofBytes_drop (by omega : 24 + 3 < b.length)] at hgi
  rw [← copyInto_of_le (by simp; omega)] at hsn hfi
  have e0 := Option.some.inj h0
  have e1 := Option.some.inj h1
  have e2 := Option.some.inj h2
  have e3 := Option.some.inj h3
  cases m
  simp only at e0 e1 e3
  subst e0 e1 e2 e3
  simp only at hch hxid hsecs hflags hci hyi hsi hgi hsn hfi hco
  simp only [fixedMsg, hch, hxid, hsecs, hflags, hci, hyi, hsi, hgi, hsn, hfi, hco]

theorem decode_iff_grammar (b : Bytes) (m : Msg) :
    decode b = .ok m ↔ (240 ≤ b.length ∧ FixedAt b m ∧ Area (b.drop 240) m.options) := by
  constructor
  · intro hd
    by_cases h : 240 ≤ b.length
    · rw [decode_long h] at hd
      by_cases hw : (walkS b.length (b.drop 240) 0).1 = 0xff
      · rw [if_pos hw] at hd
        cases hd
        exact ⟨h, fixedAt_fixedMsg h _, walkS_sound _ _ _ (by decide) hw⟩
      · rw [if_neg hw] at hd; cases hd
    · rw [decode_short (by omega)] at hd; cases hd
  · rintro ⟨h, hf, ha⟩
    have hw := walkS_complete ha b.length 0 (by simp)
    rw [decode_long h, hw, if_pos rfl]
    exact congrArg Except.ok (fixedAt_eq h hf).symm

theorem decode_never_panics (b : Bytes) (site : String) : decode b ≠ .error (.panic site) := by
  intro hd
  by_cases h : 240 ≤ b.length
  · rw [decode_long h] at hd
    split at hd <;> cases hd
  · rw [decode_short (by omega)] at hd; cases hd

theorem decode_reject_reasons (b : Bytes) (why : String) (h : decode b = .error (.reject why)) :
    (why = "short dhcpmsg" ∧ b.length < 240) ∨
      (why = "truncated options" ∧ 240 ≤ b.length ∧ ¬ ∃ os, Area (b.drop 240) os) := by
  by_cases hlen : 240 ≤ b.length
  · right
    rw [decode_long hlen] at h
    by_cases hw : (walkS b.length (b.drop 240) 0).1 = 0xff
    · rw [if_pos hw] at h; cases h
    · rw [if_neg hw] at h
      cases h
      refine ⟨rfl, hlen, ?_⟩
      rintro ⟨os, ha⟩
      have := walkS_complete ha b.length 0 (by simp)
      rw [this] at hw
      exact hw rfl
  · left
    rw [decode_short (by omega)] at h
    cases h
    exact ⟨rfl, by omega⟩

theorem long_hlen (b : Bytes) (m : Msg) (h : decode b = .ok m) :
    ∃ hl, b[2]? = some hl ∧ m.chaddr.length = hl.toNat ∧
      m.chaddr = (b.drop 28).take hl.toNat ++ List.replicate (hl.toNat - (b.length - 28)) 0 := by
  obtain ⟨hlen, hf, _⟩ := (decode_iff_grammar b m).1 h
  obtain ⟨hl, h2, hch⟩ := hf.hlen
  refine ⟨hl, h2, ?_, ?_⟩
  · rw [hch]; simp [copyInto]; omega
  · rw [hch]; simp [copyInto]

theorem chunks4_length : ∀ (f : Nat) (x : Bytes), x.length ≤ f → x.length % 4 = 0 →
    (chunks4 f x).length * 4 = x.length := by
  intro f
  induction f with
  | zero => intro x h _; match x with | [] => simp [chunks4]
  | succ f ih =>
    intro x h hm
    match x with
    | [] => simp [chunks4]
    | [_] => simp at hm
    | [_, _] => simp at hm
    | [_, _, _] => simp at hm
    | a :: b :: c :: d :: r =>
      simp only [chunks4, List.length_cons] at h hm ⊢
      have := ih r (by omega) (by omega)
      omega

theorem toV4A_length {x : Bytes} (h : toV4A x ≠ []) :
    4 ≤ x.length ∧ x.length % 4 = 0 ∧ (toV4A x).length * 4 = x.length := by
  unfold toV4A at h ⊢
  by_cases hc : 4 ≤ x.length ∧ x.length % 4 = 0
  · rw [if_pos hc]
    exact ⟨hc.1, hc.2, chunks4_length _ _ (Nat.le_refl _) hc.2⟩
  · rw [if_neg hc] at h; exact absurd rfl h

theorem typed_exact (x : Bytes) :
    (toUint8 x ≠ 0 → x.length = 1) ∧ (toUint16 x ≠ 0 → x.length = 2) ∧ (toSecs x ≠ 0 → x.length = 4) ∧
    (toNetmask x ≠ none → x.length = 4) ∧ (toV4 x ≠ none → x.length = 4) ∧
    (toV4A x ≠ [] → 4 ≤ x.length ∧ x.length % 4 = 0 ∧ (toV4A x).length * 4 = x.length) := by
  refine ⟨?_, ?_, ?_, ?_, ?_, toV4A_length⟩
  · intro h; unfold toUint8 at h; split at h
    · rfl
    · exact absurd rfl h
  · intro h; unfold toUint16 at h; split at h
    · rfl
    · exact absurd rfl h
  · intro h; unfold toSecs at h; split at h
    · rfl
    · exact absurd rfl h
  · intro h; unfold toNetmask Ip4.ofBytes? at h; split at h
    · rfl
    · exact absurd rfl h
  · intro h; unfold toV4 at h; split at h
    · rename_i i hi
      have := toV4A_length (x := x) (by rw [hi]; simp)
      rw [hi] at this
      simp at this
      omega
    · exact absurd rfl h

theorem typed_values (a b c d : UInt8) :
    toUint8 [a] = a ∧ toUint16 [a, b] = a.toNat * 256 + b.toNat ∧
    toSecs [a, b, c, d] = a.toNat * 16777216 + b.toNat * 65536 + c.toNat * 256 + d.toNat ∧
    toV4 [a, b, c, d] = some ⟨a, b, c, d⟩ ∧ toNetmask [a, b, c, d] = some ⟨a, b, c, d⟩ := by
  refine ⟨rfl, rfl, rfl, ?_, rfl⟩
  simp [toV4, toV4A, chunks4]

theorem toNat_ofNat_lt {n : Nat} (h : n < 256) : (UInt8.ofNat n).toNat = n := by
  rw [UInt8.toNat_ofNat']; omega

theorem copyInto_length (n : Nat) (s : Bytes) : (copyInto n s).length = n := by
  simp [copyInto]; omega

theorem copyInto_self {n : Nat} {s : Bytes} (h : s.length = n) : copyInto n s = s := by
  subst h; simp [copyInto]

theorem drop_seg {xs ys : Bytes} {n : Nat} (k : Nat) (h : xs.length = n) :
    (xs ++ ys).drop (n + k) = ys.drop k := by
  subst h
  induction xs with
  | nil => simp
  | cons x xs ih => simp [Nat.succ_add]

/-- The first 28 bytes of the header, byte by byte. -/
def hdrA (m : Msg) : Bytes :=
  [m.op, m.htype, UInt8.ofNat (m.chaddr.length % 256), m.hops,
   UInt8.ofNat (m.xid / 16777216 % 256), UInt8.ofNat (m.xid / 65536 % 256),
   UInt8.ofNat (m.xid / 256 % 256), UInt8.ofNat (m.xid % 256),
   UInt8.ofNat (m.secs / 256 % 256), UInt8.ofNat (m.secs % 256),
   UInt8.ofNat (m.flags / 256 % 256), UInt8.ofNat (m.flags % 256),
   (m.ciaddr.getD Ip4.zero).a, (m.ciaddr.getD Ip4.zero).b, (m.ciaddr.getD Ip4.zero).c, (m.ciaddr.getD Ip4.zero).d,
   (m.yiaddr.getD Ip4.zero).a, (m.yiaddr.getD Ip4.zero).b, (m.yiaddr.getD Ip4.zero).c, (m.yiaddr.getD Ip4.zero).d,
   (m.siaddr.getD Ip4.zero).a, (m.siaddr.getD Ip4.zero).b, (m.siaddr.getD Ip4.zero).c, (m.siaddr.getD Ip4.zero).d,
   (m.giaddr.getD Ip4.zero).a, (m.giaddr.getD Ip4.zero).b, (m.giaddr.getD Ip4.zero).c, (m.giaddr.getD Ip4.zero).d]

theorem optIpBytes_eq (x : Option Ip4) :
    optIpBytes x = [(x.getD Ip4.zero).a, (x.getD Ip4.zero).b, (x.getD Ip4.zero).c, (x.getD Ip4.zero).d] := by
  cases x <;> rfl

/-- Everything after the first 28 bytes. -/
def tailB (m : Msg) : Bytes :=
  copyInto 16 m.chaddr ++ (copyInto 64 m.sname ++ (copyInto 128 m.file ++ (put32 m.cookie ++
    (optsWire m.options ++ [0xff]))))

theorem assemble_eq (m : Msg) (hne : m.options ≠ []) : m.assemble = hdrA m ++ tailB m := by
  have : m.options.isEmpty = false := by
    cases h : m.options with
    | nil => exact absurd h hne
    | cons _ _ => rfl
  simp [Msg.assemble, Msg.header, this, put32, put16, optIpBytes_eq, hdrA, tailB]

theorem be32_put32 {n : Nat} (h : n < 4294967296) (r : Bytes) : be32 (put32 n ++ r) = n := by
  simp only [put32, be32, List.cons_append]
  rw [toNat_ofNat_lt (by omega), toNat_ofNat_lt (by omega), toNat_ofNat_lt (by omega), toNat_ofNat_lt (by omega)]
  omega

theorem area_optsWire (rest : Bytes) : ∀ (opts : List Opt),
    (∀ o ∈ opts, o.code ≠ 0 ∧ o.code ≠ 0xff ∧ o.data.length ≤ 255) →
    Area (optsWire opts ++ 0xff :: rest) opts := by
  intro opts
  induction opts with
  | nil => intro _; exact Area.fin rest
  | cons o r ih =>
    intro h
    obtain ⟨h0, hff, hl⟩ := h o (by simp)
    have ih' := ih (fun o' ho' => h o' (by simp [ho']))
    have : optsWire (o :: r) ++ 0xff :: rest
        = o.code :: UInt8.ofNat (o.data.length % 256) :: (o.data ++ (optsWire r ++ 0xff :: rest)) := by
      simp [optsWire, Opt.wire]
    rw [this]
    exact Area.tlv (o := o.code) (data := o.data) h0 hff (by rw [toNat_ofNat_lt (by omega)]; omega) ih'

theorem fixedAt_assemble (m : Msg) (wf : Msg.Wf m) : FixedAt m.assemble (Spec.Msg.norm m) := by
  have hA : (hdrA m).length = 28 := rfl
  have e28 : m.assemble.drop 28 = tailB m := by
    rw [assemble_eq m wf.nonempty]; exact drop_seg 0 hA
  have e44 : m.assemble.drop 44 = copyInto 64 m.sname ++ (copyInto 128 m.file ++ (put32 m.cookie ++
      (optsWire m.options ++ [0xff]))) := by
    rw [assemble_eq m wf.nonempty]
    exact (drop_seg 16 hA).trans (drop_seg 0 (copyInto_length _ _))
  have e108 : m.assemble.drop 108 = copyInto 128 m.file ++ (put32 m.cookie ++
      (optsWire m.options ++ [0xff])) := by
    rw [assemble_eq m wf.nonempty]
    exact (drop_seg 80 hA).trans ((drop_seg 64 (copyInto_length _ _)).trans (drop_seg 0 (copyInto_length _ _)))
  have e236 : m.assemble.drop 236 = put32 m.cookie ++ (optsWire m.options ++ [0xff]) := by
    rw [assemble_eq m wf.nonempty]
    exact (drop_seg 208 hA).trans ((drop_seg 192 (copyInto_length _ _)).trans
      ((drop_seg 128 (copyInto_length _ _)).trans (drop_seg 0 (copyInto_length _ _))))
  have hx := wf.xid
  have hs := wf.secs
  have hfl := wf.flags
  refine ⟨?_, ?_, ⟨UInt8.ofNat (m.chaddr.length % 256), ?_, ?_⟩, ?_, ?_, ?_, ?_, ?_, ?_, ?_, ?_, ?_, ?_, ?_⟩
  · rw [assemble_eq m wf.nonempty]; rfl
  · rw [assemble_eq m wf.nonempty]; rfl
  · rw [assemble_eq m wf.nonempty]; rfl
  · have hc := wf.chaddr
    rw [e28, toNat_ofNat_lt (by omega), Nat.mod_eq_of_lt (by omega)]
    show m.chaddr = _
    have : copyInto 16 m.chaddr = m.chaddr ++ List.replicate (16 - m.chaddr.length) 0 := by
      simp [copyInto, List.take_of_length_le hc]
    simp only [tailB, this, List.append_assoc]
    rw [copyInto, List.take_left' rfl]
    simp
  · rw [assemble_eq m wf.nonempty]; rfl
  · rw [assemble_eq m wf.nonempty]
    show m.xid = _
    simp only [hdrA, List.cons_append, List.drop_succ_cons, List.drop_zero, be32]
    rw [toNat_ofNat_lt (by omega), toNat_ofNat_lt (by omega), toNat_ofNat_lt (by omega), toNat_ofNat_lt (by omega)]
    omega
  · rw [assemble_eq m wf.nonempty]
    show m.secs = _
    simp only [hdrA, List.cons_append, List.drop_succ_cons, List.drop_zero, be16]
    rw [toNat_ofNat_lt (by omega), toNat_ofNat_lt (by omega)]
    omega
  · rw [assemble_eq m wf.nonempty]
    show m.flags = _
    simp only [hdrA, List.cons_append, List.drop_succ_cons, List.drop_zero, be16]
    rw [toNat_ofNat_lt (by omega), toNat_ofNat_lt (by omega)]
    omega
  · rw [assemble_eq m wf.nonempty]; rfl
  · rw [assemble_eq m wf.nonempty]; rfl
  · rw [assemble_eq m wf.nonempty]; rfl
  · rw [assemble_eq m wf.nonempty]; rfl
  · rw [e44, copyInto_self wf.sname]
    exact (List.take_left' wf.sname).symm
  · rw [e108, copyInto_self wf.file]
    exact (List.take_left' wf.file).symm
  · rw [e236]
    exact (be32_put32 wf.cookie _).symm

theorem decode_assemble (m : Msg) (wf : Msg.Wf m) : decode m.assemble = .ok (Spec.Msg.norm m) := by
  have hA : (hdrA m).length = 28 := rfl
  have e240 : m.assemble.drop 240 = optsWire m.options ++ [0xff] := by
    rw [assemble_eq m wf.nonempty]
    exact (drop_seg 212 hA).trans ((drop_seg 196 (copyInto_length _ _)).trans
      ((drop_seg 132 (copyInto_length _ _)).trans ((drop_seg 4 (copyInto_length _ _)).trans
        (drop_seg 0 rfl))))
  refine (decode_iff_grammar _ _).2 ⟨?_, fixedAt_assemble m wf, ?_⟩
  · rw [assemble_eq m wf.nonempty]
    simp [tailB, copyInto_length, hdrA, put32]
    omega
  · rw [e240]
    exact area_optsWire [] m.options wf.opts

end PsaDhcp.Proofs.Dhcp
