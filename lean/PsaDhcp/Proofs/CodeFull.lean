import PsaDhcp.Code.Bridge14
import PsaDhcp.Proofs.CodeStack
import PsaDhcp.Proofs.CodeClients
import PsaDhcp.Proofs.Safety
import PsaDhcp.Proofs.Liveness
import PsaDhcp.Proofs.CodeFullAux
namespace PsaDhcp.Proofs.CodeFull
open PsaDhcp PsaDhcp.Go PsaDhcp.Code PsaDhcp.Spec
theorem gEmpty_ok : Gen.clients.NewClients = .ok (some gEmpty.1) ∧ GRel gEmpty Clients.empty 0 :=
  CodeFullAux.gEmpty_ok
theorem genStore_wf : StoreWf genStore := CodeFullAux.genStore_wf
theorem genStore_bounded (db : IPDB GTbl) (rx : Rx) (o : HOracle) : LookupsBounded genStore db rx o :=
  CodeFullAux.genStore_bounded db rx o
theorem norm_handle {σ : Type} (S : Store σ) (c : SrvCfg) (db : IPDB σ) (rx : Rx) (o : HOracle) :
    handle S.norm c db rx o = handle S c db rx o :=
  CodeFullAux.handle_congr (CodeFullAux.norm_sameOps S) c db rx o
theorem norm_run {σ : Type} (S : Store σ) (c : SrvCfg) (s : Sys σ) (evs : List Ev) :
    Sys.run S.norm c s evs = Sys.run S c s evs :=
  CodeFullAux.run_congr (CodeFullAux.norm_sameOps S) c evs s
theorem norm_serverInit {σ : Type} (S : Store σ) (e : σ) (c : SrvCfg) (base p : Nat) (dyn : Option (Ip4 × Ip4))
    (staticOnly : Bool) (t : Int) :
    serverInit S.norm e c base p dyn staticOnly t = serverInit S e c base p dyn staticOnly t :=
  CodeFullAux.serverInit_congr (CodeFullAux.norm_sameOps S) e c base p dyn staticOnly t
theorem genStore_sim : Proofs.Ipdb.StoreSim genStore.norm clientsStore.norm GRel := CodeFullAux.genStore_sim
theorem system_refines_table (c : SrvCfg) (b : Boot) (evs : List Ev) (hm : EvMonotone evs)
    (h0 : ∀ e ∈ evs.head?, b.t0 ≤ e.t) :
    (serverInit genStore gEmpty c b.base b.p b.dyn b.staticOnly b.t0).isSome =
      (serverInit tableStore ([] : Table) c b.base b.p b.dyn b.staticOnly b.t0).isSome ∧
    ∀ dbg dbt, serverInit genStore gEmpty c b.base b.p b.dyn b.staticOnly b.t0 = some dbg →
      serverInit tableStore ([] : Table) c b.base b.p b.dyn b.staticOnly b.t0 = some dbt →
      ((Sys.run genStore c { db := dbg } evs).sent.map fun s => (s.t, s.kind, s.addr, s.duid, s.frame)) =
      ((Sys.run tableStore c { db := dbt } evs).sent.map fun s => (s.t, s.kind, s.addr, s.duid, s.frame)) := by
  have he : GRel gEmpty Clients.empty b.t0 := gEmpty_ok.2
  have hinit := Safety.serverInit_sim genStore_sim he c b.base b.p b.dyn b.staticOnly
  rw [norm_serverInit, norm_serverInit] at hinit
  obtain ⟨hsome, hrun⟩ := Safety.system_refines_table c b evs hm h0
  refine ⟨hinit.isSome_eq.trans hsome, ?_⟩
  intro dbg dbt h1 h2
  cases h3 : serverInit clientsStore Clients.empty c b.base b.p b.dyn b.staticOnly b.t0 with
  | none => rw [h1, h3] at hinit; exact absurd hinit id
  | some dbc =>
    rw [h1, h3] at hinit
    have hdb : Ipdb.DbRel GRel dbg dbc b.t0 := hinit
    have hr := Safety.sim_run genStore_sim c evs { db := dbg } { db := dbc } b.t0 ⟨hdb, rfl, rfl, rfl⟩ hm h0
    have hs := hr.sent
    rw [norm_run, norm_run] at hs
    rw [hs]
    exact hrun dbc dbt h3 h2
theorem full_handleMsg (c : SrvCfg) (sx : Gen.server.server) (dbg : IPDB GTbl) (dbc : IPDB Clients)
    (rx : Rx) (o : HOracle) (rnd : Int) (hsx : SrvOf sx c) (hm : MsgRanges rx.msg) (hdb : DbBounded dbg)
    (hrel : Proofs.Ipdb.DbRel GRel dbg dbc 0) :
    ∃ st, (Gen.server.server_handleMsg (srvEnvGen genStore c o) sx (ipToGen rx.src) (ipToGen rx.dst) (msgToGen rx.msg) rnd).run
              { db := dbg, lookups := 0, sent := [] } = .ok ((), st)
      ∧ st.sent = (handle clientsStore c dbc rx o).2.toList
      ∧ Proofs.Ipdb.DbRel GRel st.db (handle clientsStore c dbc rx o).1 0 := by
  obtain ⟨st, hrun, hdb', hsent⟩ := CodeStack.stack_handleMsg genStore genStore_wf c sx dbg rx o rnd hsx hm
    (genStore_bounded dbg rx o) hdb
  have hs := CodeFullAux.handle_sim genStore_sim (fun _ _ _ _ h => h) hrel c rx o
  rw [norm_handle, norm_handle] at hs
  refine ⟨st, hrun, ?_, ?_⟩
  · rw [hsent, hs.1]
  · rw [hdb']; exact hs.2
/-- A whole sequential history through the three translated layers. -/
theorem full_sequence (c : SrvCfg) (sx : Gen.server.server) (dbg : IPDB GTbl) (dbc : IPDB Clients)
    (hist : List (Rx × HOracle × Int)) (hsx : SrvOf sx c) (hm : ∀ x ∈ hist, MsgRanges x.1.msg) (hdb : DbBounded dbg)
    (hrel : Proofs.Ipdb.DbRel GRel dbg dbc 0) :
    ∃ dbg', stackSeq genStore c sx dbg hist =
        .ok (dbg', (handleSeq clientsStore c dbc (hist.map fun x => (x.1, x.2.1))).2)
      ∧ Proofs.Ipdb.DbRel GRel dbg' (handleSeq clientsStore c dbc (hist.map fun x => (x.1, x.2.1))).1 0 := by
  induction hist generalizing dbg dbc with
  | nil => exact ⟨dbg, rfl, hrel⟩
  | cons x rest ih =>
    obtain ⟨rx, o, rnd⟩ := x
    have hm0 : MsgRanges rx.msg := hm (rx, o, rnd) (by simp)
    obtain ⟨st, hrun, hsent, hrel'⟩ := full_handleMsg c sx dbg dbc rx o rnd hsx hm0 hdb hrel
    have hsame := CodeStack.handle_same clientsStore c dbc rx o
    have hdb' : DbBounded st.db := by
      obtain ⟨r1, r2, r3, r4, _⟩ := hrel'
      obtain ⟨s1, s2, s3, s4⟩ := hsame
      obtain ⟨q1, q2, q3, q4, _⟩ := hrel
      obtain ⟨b1, b2, b3, b4⟩ := hdb
      unfold DbBounded
      rw [r1, r2, r3, r4, s1, s2, s3, s4, ← q1, ← q2, ← q3, ← q4]
      exact ⟨b1, b2, b3, b4⟩
    obtain ⟨dbg', hseq, hrelf⟩ := ih st.db (handle clientsStore c dbc rx o).1
      (fun y hy => hm y (List.mem_cons_of_mem _ hy)) hdb' hrel'
    refine ⟨dbg', ?_, ?_⟩
    · simp only [stackSeq, hrun, hseq, hsent, List.map_cons, handleSeq]
    · simpa only [List.map_cons, handleSeq] using hrelf
end PsaDhcp.Proofs.CodeFull
