import PsaDhcp.Code.Bridge
import PsaDhcp.Proofs.Wire
/-
Lemmas about the Prelude primitives (`Go.idx`, `Go.slice`, `Go.putU16`, ...) used by the proofs
of `Proofs/CodeLayerIp.lean`.  Every lemma is stated for an arbitrary `site`.
-/
namespace PsaDhcp.Proofs.CodeLayerIpAux
open PsaDhcp PsaDhcp.Go

/-! ### index / slice -/

theorem idx_ok {α : Type} (b : List α) (i : Int) (site : String) (h0 : 0 ≤ i)
    (h1 : i.toNat < b.length) : Go.idx b i site = .ok b[i.toNat] := by
  unfold Go.idx
  rw [if_neg (by omega), List.getElem?_eq_getElem h1]; rfl

/-- Index into a list given by its elements: reduces by `simp` with `List.getElem?_cons_succ`. -/
theorem idx_get {α : Type} (b : List α) (i : Int) (site : String) (x : α) (h0 : 0 ≤ i)
    (h1 : b[i.toNat]? = some x) : Go.idx b i site = .ok x := by
  unfold Go.idx
  rw [if_neg (by omega), h1]; rfl

theorem slice_ok {α : Type} (b : List α) (lo hi : Int) (site : String)
    (h : 0 ≤ lo ∧ lo ≤ hi ∧ hi ≤ (b.length : Int)) :
    Go.slice b lo hi site = .ok ((b.take hi.toNat).drop lo.toNat) := by
  unfold Go.slice; rw [if_pos h]; rfl

theorem slice_full {α : Type} (b : List α) (site : String) :
    Go.slice b 0 (Int.ofNat b.length) site = .ok b := by
  rw [slice_ok b 0 (Int.ofNat b.length) site ⟨by omega, Int.natCast_nonneg _, by simp⟩]
  simp

theorem sliceFrom_ok {α : Type} (b : List α) (lo : Int) (site : String)
    (h0 : 0 ≤ lo) (h1 : lo ≤ (b.length : Int)) :
    Go.sliceFrom b lo site = .ok (b.drop lo.toNat) := by
  unfold Go.sliceFrom
  rw [slice_ok _ _ _ _ ⟨h0, h1, Int.le_refl _⟩]
  simp

theorem setIdx_ok {α : Type} (b : List α) (i : Int) (v : α) (site : String)
    (h : 0 ≤ i ∧ i < (b.length : Int)) : Go.setIdx b i v site = .ok (b.set i.toNat v) := by
  unfold Go.setIdx; rw [if_pos h]; rfl

theorem makeList_ok {α : Type} (z : α) (n : Int) (site : String) (h : 0 ≤ n) :
    Go.makeList z n site = .ok (List.replicate n.toNat z) := by
  unfold Go.makeList; rw [if_neg (by omega)]; rfl

theorem putU16_ok (b : Bytes) (lo hi : Int) (v : UInt16) (site : String)
    (h : 0 ≤ lo ∧ lo ≤ hi ∧ hi ≤ (b.length : Int) ∧ 2 ≤ hi - lo) :
    Go.putU16 b lo hi v site = .ok (overwrite b lo.toNat (u16Bytes v)) := by
  unfold Go.putU16; rw [if_pos h]; rfl

theorem copyAt_ok {α : Type} (b : List α) (lo hi : Int) (src : List α) (site : String)
    (h : 0 ≤ lo ∧ lo ≤ hi ∧ hi ≤ (b.length : Int)) :
    Go.copyAt b lo hi src site = .ok (overwrite b lo.toNat (src.take (hi - lo).toNat)) := by
  unfold Go.copyAt; rw [if_pos h]; rfl

/-! ### `overwrite` on explicit lists -/

theorem overwrite_zero {α : Type} (b src : List α) :
    overwrite b 0 src = src ++ b.drop src.length := by
  simp [overwrite]

theorem overwrite_succ {α : Type} (x : α) (b src : List α) (k : Nat) :
    overwrite (x :: b) (k + 1) src = x :: overwrite b k src := by
  simp [overwrite, Nat.add_right_comm]

theorem overwrite_zero2 {α : Type} (p q x y : α) (b : List α) :
    overwrite (p :: q :: b) 0 [x, y] = x :: y :: b := by
  simp [overwrite]

theorem overwrite_zero4 {α : Type} (p q r s x y z w : α) (b : List α) :
    overwrite (p :: q :: r :: s :: b) 0 [x, y, z, w] = x :: y :: z :: w :: b := by
  simp [overwrite]

theorem writeBack_zero_full {α : Type} (b sub : List α) (h : sub.length = b.length) :
    Go.writeBack b 0 sub = sub := by
  simp [Go.writeBack, overwrite, h]

/-! ### 16-bit big endian -/

theorem u16Bytes_eq (v : UInt16) : u16Bytes v = put16 v.toNat := by
  have h := v.toNat_lt
  simp only [u16Bytes, put16, List.cons.injEq, and_true]
  constructor
  · apply UInt8.toNat_inj.mp
    simp [Nat.shiftRight_eq_div_pow]
  · apply UInt8.toNat_inj.mp
    simp

theorem put16_mod (n : Nat) : put16 (n % 65536) = put16 n := by
  have h1 : n % 65536 / 256 % 256 = n / 256 % 256 := by omega
  have h2 : n % 65536 % 256 = n % 256 := by omega
  simp only [put16, h1, h2]

theorem u16Bytes_ofNat (n : Nat) : u16Bytes (UInt16.ofNat n) = put16 n := by
  rw [u16Bytes_eq, UInt16.toNat_ofNat', ← put16_mod n]

theorem u16Bytes_u16OfInt (n : Nat) : u16Bytes (u16OfInt (Int.ofNat n)) = put16 n := by
  unfold u16OfInt
  rw [u16Bytes_ofNat]
  have : ((Int.ofNat n) % 65536).toNat = n % 65536 := by
    show ((n : Int) % 65536).toNat = n % 65536
    omega
  rw [this, put16_mod]

theorem beU16_ok (x : Bytes) (site : String) (h : 2 ≤ x.length) :
    Go.beU16 x site = .ok (UInt16.ofNat (be16 x)) := by
  match x, h with
  | a :: b :: r, _ =>
    simp only [Go.beU16, be16, pure, Except.pure]
    congr 1
    apply UInt16.toNat_inj.mp
    have ha := a.toNat_lt; have hb := b.toNat_lt
    simp only [UInt16.toNat_or, UInt16.toNat_shiftLeft, UInt8.toNat_toUInt16, UInt16.toNat_ofNat']
    rw [Nat.shiftLeft_eq]
    have : (8 : UInt16).toNat % 16 = 8 := by decide
    rw [this]
    have h2 : a.toNat * 2 ^ 8 % 2 ^ 16 = a.toNat <<< 8 := by rw [Nat.shiftLeft_eq]; omega
    rw [h2, ← Nat.shiftLeft_add_eq_or_of_lt (by omega), Nat.shiftLeft_eq]
    omega

/-! ### variants indexed by a natural number (for literal `Int` indices: pass `rfl`) -/

theorem idx_nat {α : Type} (b : List α) (n : Nat) (i : Int) (site : String) (hi : i = (n : Int))
    (h : n < b.length) : Go.idx b i site = .ok b[n] := by
  subst hi
  rw [idx_ok b _ site (Int.natCast_nonneg _) (by simpa using h)]
  simp

theorem sliceFrom_nat {α : Type} (b : List α) (n : Nat) (lo : Int) (site : String) (hi : lo = (n : Int))
    (h : n ≤ b.length) : Go.sliceFrom b lo site = .ok (b.drop n) := by
  subst hi
  rw [sliceFrom_ok b _ site (Int.natCast_nonneg _) (by omega)]
  simp

theorem putU16_len (b : Bytes) (n : Nat) (lo : Int) (v : UInt16) (site : String) (hlo : lo = (n : Int))
    (h : n + 2 ≤ b.length) :
    Go.putU16 b lo (Int.ofNat b.length) v site = .ok (overwrite b n (u16Bytes v)) := by
  subst hlo
  rw [putU16_ok b (n : Int) (Int.ofNat b.length) _ _
    ⟨Int.natCast_nonneg _, by show (n : Int) ≤ (b.length : Int); omega, Int.le_refl _,
     by show (2 : Int) ≤ (b.length : Int) - (n : Int); omega⟩]
  simp

theorem copyAt_len {α : Type} (b : List α) (n : Nat) (lo : Int) (src : List α) (site : String)
    (hlo : lo = (n : Int)) (h : n ≤ b.length) :
    Go.copyAt b lo (Int.ofNat b.length) src site = .ok (overwrite b n (src.take (b.length - n))) := by
  subst hlo
  rw [copyAt_ok b (n : Int) (Int.ofNat b.length) _ _
    ⟨Int.natCast_nonneg _, by show (n : Int) ≤ (b.length : Int); omega, Int.le_refl _⟩]
  simp

theorem slice4 {α : Type} (x y z w : α) (site : String) :
    Go.slice [x, y, z, w] 0 4 site = .ok [x, y, z, w] := by
  rw [slice_ok _ _ _ _ ⟨by omega, by omega, by simp⟩]
  rfl

theorem copyAt4 {α : Type} (b : List α) (lo : Int) (x y z w : α) (site : String)
    (h : 0 ≤ lo ∧ lo + 4 ≤ (b.length : Int)) :
    Go.copyAt b lo (Int.ofNat b.length) [x, y, z, w] site = .ok (overwrite b lo.toNat [x, y, z, w]) := by
  rw [copyAt_ok b lo (Int.ofNat b.length) _ _ ⟨h.1, by show lo ≤ (b.length : Int); omega, Int.le_refl _⟩]
  have : (Int.ofNat b.length - lo).toNat = (b.length - lo.toNat - 4) + 4 := by
    show ((b.length : Int) - lo).toNat = _; omega
  rw [this]
  simp [List.take_succ_cons]

theorem overwrite_length {α : Type} (b : List α) (off : Nat) (src : List α)
    (h : off + src.length ≤ b.length) : (overwrite b off src).length = b.length := by
  simp [overwrite]; omega

/-- `copy(b[20:], data)` when the room after the header is exactly `len(data)`. -/
theorem overwrite_tail (junk data : Bytes) (k : Nat) (hk : k = data.length)
    (hj : junk.length = data.length) : overwrite junk 0 (data.take k) = data := by
  subst hk
  simp [overwrite, hj]

theorem replicate20 (n : Nat) : List.replicate (20 + n) (0 : UInt8) =
    0 :: 0 :: 0 :: 0 :: 0 :: 0 :: 0 :: 0 :: 0 :: 0 :: 0 :: 0 :: 0 :: 0 :: 0 :: 0 :: 0 :: 0 :: 0 :: 0
      :: List.replicate n 0 := by
  rw [Nat.add_comm]
  simp only [List.replicate_succ]

/-! ### bytes of the IPv4 header -/

theorem be16_lt (x : Bytes) : be16 x < 65536 := by
  unfold be16
  split
  · rename_i h l _; have := h.toNat_lt; have := l.toNat_lt; omega
  · omega

theorem beU16_drop (b : Bytes) (n : Nat) (site : String) (h : n + 2 ≤ b.length) :
    Go.beU16 (b.drop n) site = .ok (UInt16.ofNat (be16 (b.drop n))) :=
  beU16_ok _ _ (by simp; omega)

/-- `b[0] >> 4 != 4` -/
theorem u8_shr4 (x : UInt8) : (x >>> 4 != 4) = decide (x.toNat / 16 ≠ 4) := by
  have : (x >>> 4 = 4) ↔ x.toNat / 16 = 4 := by
    rw [← UInt8.toNat_inj]
    simp [Nat.shiftRight_eq_div_pow]
  rw [bne, decide_not]
  congr 1
  by_cases h : x >>> 4 = 4
  · simp [h, this.mp h]
  · have := mt this.mpr h
    simp [h, this]

/-- `(b[0] & 0x0F) << 2` -/
theorem u8_ihl (x : UInt8) : ((x &&& 15) <<< 2).toNat = x.toNat % 16 * 4 % 256 := by
  have : x.toNat &&& 15 = x.toNat % 16 := Nat.and_two_pow_sub_one_eq_mod x.toNat 4
  simp [Nat.shiftLeft_eq, this]

/-! ### `ip.To4()` -/

theorem ofBytes4 (y : Bytes) (h : y.length = 4) :
    ∃ i : Ip4, y = [i.a, i.b, i.c, i.d] ∧ Ip4.ofBytes? y = some i := by
  match y, h with
  | [a, b, c, d], _ => exact ⟨⟨a, b, c, d⟩, rfl, rfl⟩

/-- `x.To4()` is either `nil` (the model sees no address) or the four bytes of the model's address
(and then `x` itself is not empty). -/
theorem to4_cases (x : Bytes) :
    (to4 x = [] ∧ Code.ipOf x = none) ∨
    (∃ i : Ip4, to4 x = [i.a, i.b, i.c, i.d] ∧ Code.ipOf x = some i ∧ x.isEmpty = false) := by
  unfold Code.ipOf
  by_cases h4 : x.length = 4
  · right
    have : to4 x = x := by unfold to4; rw [if_pos h4]
    rw [this]
    obtain ⟨i, h1, h2⟩ := ofBytes4 x h4
    refine ⟨i, h1, h2, ?_⟩
    rw [h1]; rfl
  · by_cases h16 : x.length = 16 ∧ x.take 12 = v4InV6Prefix
    · right
      have : to4 x = x.drop 12 := by unfold to4; rw [if_neg h4, if_pos h16]
      rw [this]
      obtain ⟨i, h1, h2⟩ := ofBytes4 (x.drop 12) (by simp; omega)
      refine ⟨i, h1, h2, ?_⟩
      cases x with
      | nil => simp at h16
      | cons a r => rfl
    · left
      have : to4 x = [] := by unfold to4; rw [if_neg h4, if_neg h16]
      rw [this]
      exact ⟨rfl, rfl⟩

end PsaDhcp.Proofs.CodeLayerIpAux
