import PsaDhcp.Model.Verdict
import PsaDhcp.Model.System
import PsaDhcp.Spec.ServerSpec
import PsaDhcp.Spec.Inet
import PsaDhcp.Spec.ReplySpec
import PsaDhcp.Proofs.Ipdb
import PsaDhcp.Proofs.Wire
import PsaDhcp.Proofs.Dhcp
namespace PsaDhcp.Proofs.Decision
open PsaDhcp PsaDhcp.Spec


/-- Opacity boundary for the kernel.  `generalize` leaves no binder in the final proof term
(the β-redex it creates is reduced when metavariables are instantiated), so the kernel ends up
comparing terms that mention e.g. `IPDB.updateClient S db t (some (Ip4.ofNat a)) …` concretely
and, when unfolding a matcher, evaluates `Ip4.toNat _ < db.netFrom` by unary recursion on
`16777216`.  Passing the abstraction through this lemma keeps a genuine `fun x => …` in the term. -/
@[elab_as_elim]
theorem opq {α : Sort u} {motive : α → Prop} (a : α) (h : ∀ x, motive x) : motive a := h a

/-! ## the handler's decision, branch by branch -/

section handleV
variable {σ : Type} (S : Store σ) (c : SrvCfg) (db : IPDB σ) (rx : Rx) (o : HOracle)

theorem handleV_drop (ht : todo c (getDuid S db o.t0 rx.msg.chaddr (decodeOptions rx.msg.options).clientIdentifier).1 rx = .drop) :
    handleV S c db rx o = ((getDuid S db o.t0 rx.msg.chaddr (decodeOptions rx.msg.options).clientIdentifier).1, .silent) := by
  unfold handleV
  revert ht
  refine opq (todo c (σ := σ)) ?_; intro tdo
  refine opq (IPDB.updateClient S) ?_; intro upd
  refine opq (IPDB.findIP S) ?_; intro fnd
  refine opq (IPDB.lookupByDuid S) ?_; intro lk
  refine opq Ip4.toNat ?_; intro tn
  refine opq (getDuid S) ?_; intro gd
  intro ht
  dsimp only
  rw [ht]

theorem handleV_discover (ht : todo c (getDuid S db o.t0 rx.msg.chaddr (decodeOptions rx.msg.options).clientIdentifier).1 rx = .discover) :
    let g := getDuid S db o.t0 rx.msg.chaddr (decodeOptions rx.msg.options).clientIdentifier
    let f := g.1.findIP S o.t1 (decodeOptions rx.msg.options).requestedIP g.2 o.perm o.iters
    (∀ a, f.2 = .ok a →
      let u := f.1.updateClient S o.t2 (some (Ip4.ofNat a)) g.2 offerHoldNs
      (u.2 = .ok () → handleV S c db rx o = (u.1, .offer a)) ∧
      (u.2 ≠ .ok () → handleV S c db rx o = (u.1, .silent))) ∧
    ((∀ a, f.2 ≠ .ok a) → handleV S c db rx o = (f.1, .silent)) := by
  unfold handleV
  revert ht
  refine opq (todo c (σ := σ)) ?_; intro tdo
  refine opq (IPDB.updateClient S) ?_; intro upd
  refine opq (IPDB.findIP S) ?_; intro fnd
  refine opq (IPDB.lookupByDuid S) ?_; intro lk
  refine opq Ip4.toNat ?_; intro tn
  refine opq (getDuid S) ?_; intro gd
  intro ht
  dsimp only
  rw [ht]
  dsimp only
  generalize gd db o.t0 rx.msg.chaddr (decodeOptions rx.msg.options).clientIdentifier = g
  generalize fnd g.1 o.t1 (decodeOptions rx.msg.options).requestedIP g.2 o.perm o.iters = f
  rcases f with ⟨f1, e | a'⟩
  · refine ⟨fun a h => (by cases h), fun _ => rfl⟩
  · refine ⟨?_, fun h => absurd rfl (h a')⟩
    intro a h
    cases h
    dsimp only
    generalize upd f1 o.t2 (some (Ip4.ofNat a')) g.2 offerHoldNs = u
    rcases u with ⟨u1, e | _⟩
    · exact ⟨fun h => (by cases h), fun _ => rfl⟩
    · exact ⟨fun _ => rfl, fun h => absurd rfl h⟩

theorem handleV_request (want : Ip4) (ht : todo c (getDuid S db o.t0 rx.msg.chaddr (decodeOptions rx.msg.options).clientIdentifier).1 rx = .request want) :
    let g := getDuid S db o.t0 rx.msg.chaddr (decodeOptions rx.msg.options).clientIdentifier
    let l := g.1.lookupByDuid S o.t1 g.2
    let u := l.1.updateClient S o.t2 (some (Ip4.ofNat want.toNat)) g.2 c.leaseNs
    (l.2 = .ok want.toNat → o.probeFree = true → u.2 = .ok () → handleV S c db rx o = (u.1, .ack want.toNat)) ∧
    (l.2 = .ok want.toNat → o.probeFree = true → u.2 ≠ .ok () → handleV S c db rx o = (u.1, .silent)) ∧
    (¬ (l.2 = .ok want.toNat ∧ o.probeFree = true) → handleV S c db rx o = (l.1, .nak)) := by
  unfold handleV
  revert ht
  refine opq (todo c (σ := σ)) ?_; intro tdo
  refine opq (IPDB.updateClient S) ?_; intro upd
  refine opq (IPDB.findIP S) ?_; intro fnd
  refine opq (IPDB.lookupByDuid S) ?_; intro lk
  refine opq Ip4.toNat ?_; intro tn
  refine opq (getDuid S) ?_; intro gd
  intro ht
  dsimp only
  rw [ht]
  dsimp only
  generalize gd db o.t0 rx.msg.chaddr (decodeOptions rx.msg.options).clientIdentifier = g
  generalize lk g.1 o.t1 g.2 = l
  rcases l with ⟨l1, e | lease⟩
  · dsimp only
    refine ⟨fun h => (by cases h), fun h => (by cases h), fun _ => rfl⟩
  · dsimp only
    by_cases h1 : tn want ≠ lease
    · rw [if_pos h1]
      refine ⟨fun h => ?_, fun h => ?_, fun _ => rfl⟩ <;> (cases h; exact absurd rfl h1)
    · rw [if_neg h1]
      have h1' : tn want = lease := Decidable.not_not.1 h1
      subst h1'
      by_cases h2 : ¬ o.probeFree = true
      · rw [if_pos h2]
        exact ⟨fun _ h => absurd h h2, fun _ h => absurd h h2, fun _ => rfl⟩
      · rw [if_neg h2]
        generalize upd l1 o.t2 (some (Ip4.ofNat (tn want))) g.2 c.leaseNs = u
        rcases u with ⟨u1, e | _⟩
        · exact ⟨fun _ _ h => (by cases h), fun _ _ _ => rfl, fun h => absurd ⟨rfl, Decidable.not_not.1 h2⟩ h⟩
        · exact ⟨fun _ _ _ => rfl, fun _ _ h => absurd rfl h, fun h => absurd ⟨rfl, Decidable.not_not.1 h2⟩ h⟩

end handleV
/-! ## the guards -/

theorem todo_request_iff {σ : Type} (c : SrvCfg) (db : IPDB σ) (rx : Rx) (want : Ip4)
    (hreq : (decodeOptions rx.msg.options).messageType = 3) :
    todo c db rx = .request want ↔
      rx.msg.chaddr ≠ c.selfMac ∧ (decodeOptions rx.msg.options).requestedIP ≠ some c.selfIp ∧
      desired (classify c.selfIp rx.dst (decodeOptions rx.msg.options).serverIdentifier (decodeOptions rx.msg.options).requestedIP)
        rx.src (decodeOptions rx.msg.options).requestedIP = some want ∧
      db.inManagedRange (some want) = true := by
  unfold todo
  refine opq (IPDB.inManagedRange (σ := σ)) ?_; intro imr
  dsimp only
  generalize decodeOptions rx.msg.options = opts at hreq ⊢
  generalize desired (classify c.selfIp rx.dst opts.serverIdentifier opts.requestedIP) rx.src opts.requestedIP = dz
  by_cases hmac : c.selfMac = rx.msg.chaddr
  · rw [if_pos hmac]
    exact ⟨fun h => (by cases h), fun h => absurd hmac.symm h.1⟩
  · rw [if_neg hmac]
    by_cases hself : opts.requestedIP = some c.selfIp
    · rw [if_pos hself]
      exact ⟨fun h => (by cases h), fun h => absurd hself h.2.1⟩
    · rw [if_neg hself, hreq, if_neg (by decide), if_pos rfl]
      cases dz with
      | none => exact ⟨fun h => (by cases h), fun h => (by cases h.2.2.1)⟩
      | some w =>
        dsimp only
        by_cases hin : imr db (some w) = true
        · rw [if_pos hin]
          constructor
          · intro h; cases h; exact ⟨fun h => hmac h.symm, hself, rfl, hin⟩
          · intro h; cases h.2.2.1; rfl
        · rw [if_neg hin]
          constructor
          · intro h; cases h
          · intro h; cases h.2.2.1; exact absurd h.2.2.2 hin

theorem todo_not_discover {σ : Type} (c : SrvCfg) (db : IPDB σ) (rx : Rx)
    (hreq : (decodeOptions rx.msg.options).messageType = 3) : todo c db rx ≠ .discover := by
  unfold todo
  refine opq (IPDB.inManagedRange (σ := σ)) ?_; intro imr
  dsimp only
  generalize decodeOptions rx.msg.options = opts at hreq ⊢
  generalize desired (classify c.selfIp rx.dst opts.serverIdentifier opts.requestedIP) rx.src opts.requestedIP = dz
  rw [hreq, if_neg (by decide : ¬ (3 : UInt8) = 1), if_pos rfl]
  split
  · intro h; cases h
  · split
    · intro h; cases h
    · cases dz with
      | none => intro h; cases h
      | some w => dsimp only; split <;> (intro h; cases h)

theorem todo_drop_or_request {σ : Type} (c : SrvCfg) (db : IPDB σ) (rx : Rx)
    (hreq : (decodeOptions rx.msg.options).messageType = 3) :
    todo c db rx = .drop ∨ ∃ want, todo c db rx = .request want := by
  cases h : todo c db rx with
  | drop => exact Or.inl rfl
  | discover => exact absurd h (todo_not_discover c db rx hreq)
  | request w => exact Or.inr ⟨w, rfl⟩

/-! ## C04 -/

theorem handle_eq_handleV {σ : Type} (S : Store σ) (c : SrvCfg) (db : IPDB σ) (rx : Rx) (o : HOracle) :
    handle S c db rx o = ((handleV S c db rx o).1, (handleV S c db rx o).2.frame c rx.msg) := by
  unfold handle handleV
  refine opq (IPDB.updateClient S) ?_; intro upd
  refine opq (IPDB.findIP S) ?_; intro fnd
  refine opq (IPDB.lookupByDuid S) ?_; intro lk
  refine opq Ip4.toNat ?_; intro tn
  refine opq (getDuid S) ?_; intro gd
  refine opq (todo c (σ := σ)) ?_; intro tdo
  dsimp only
  generalize gd db o.t0 rx.msg.chaddr (decodeOptions rx.msg.options).clientIdentifier = g
  cases tdo g.1 rx with
  | drop => rfl
  | discover =>
    dsimp only
    generalize fnd g.1 o.t1 (decodeOptions rx.msg.options).requestedIP g.2 o.perm o.iters = f
    rcases f with ⟨f1, e | a⟩
    · rfl
    · dsimp only
      generalize upd f1 o.t2 (some (Ip4.ofNat a)) g.2 offerHoldNs = u
      rcases u with ⟨u1, e | _⟩ <;> rfl
  | request want =>
    dsimp only
    generalize lk g.1 o.t1 g.2 = l
    rcases l with ⟨l1, e | lease⟩
    · rfl
    · dsimp only
      by_cases h1 : tn want ≠ lease
      · rw [if_pos h1, if_pos h1]; rfl
      · rw [if_neg h1, if_neg h1]
        by_cases h2 : ¬ o.probeFree = true
        · rw [if_pos h2, if_pos h2]; rfl
        · rw [if_neg h2, if_neg h2]
          generalize upd l1 o.t2 (some (Ip4.ofNat lease)) g.2 c.leaseNs = u
          rcases u with ⟨u1, e | _⟩ <;> rfl

theorem ack_iff {σ : Type} (S : Store σ) (c : SrvCfg) (db : IPDB σ) (rx : Rx) (o : HOracle) (a : Nat)
    (hreq : (decodeOptions rx.msg.options).messageType = 3) :
    (handleV S c db rx o).2 = .ack a ↔
      (let opts := decodeOptions rx.msg.options
       let g := getDuid S db o.t0 rx.msg.chaddr opts.clientIdentifier
       rx.msg.chaddr ≠ c.selfMac ∧ opts.requestedIP ≠ some c.selfIp ∧
       ∃ want, desired (classify c.selfIp rx.dst opts.serverIdentifier opts.requestedIP) rx.src opts.requestedIP = some want ∧
         g.1.inManagedRange (some want) = true ∧ want.toNat = a ∧
         (g.1.lookupByDuid S o.t1 g.2).2 = .ok a ∧ o.probeFree = true ∧
         ((g.1.lookupByDuid S o.t1 g.2).1.updateClient S o.t2 (some (Ip4.ofNat a)) g.2 c.leaseNs).2 = .ok ()) := by
  constructor
  · intro h
    rcases todo_drop_or_request c (getDuid S db o.t0 rx.msg.chaddr (decodeOptions rx.msg.options).clientIdentifier).1 rx hreq
      with ht | ⟨want, ht⟩
    · rw [handleV_drop S c db rx o ht] at h; cases h
    · obtain ⟨hA, hB, hC⟩ := handleV_request S c db rx o want ht
      obtain ⟨t1, t2, t3, t4⟩ := (todo_request_iff c _ rx want hreq).1 ht
      by_cases hl : ((getDuid S db o.t0 rx.msg.chaddr (decodeOptions rx.msg.options).clientIdentifier).1.lookupByDuid S o.t1
          (getDuid S db o.t0 rx.msg.chaddr (decodeOptions rx.msg.options).clientIdentifier).2).2 = .ok want.toNat ∧ o.probeFree = true
      · by_cases hu : (((getDuid S db o.t0 rx.msg.chaddr (decodeOptions rx.msg.options).clientIdentifier).1.lookupByDuid S o.t1
            (getDuid S db o.t0 rx.msg.chaddr (decodeOptions rx.msg.options).clientIdentifier).2).1.updateClient S o.t2
            (some (Ip4.ofNat want.toNat)) (getDuid S db o.t0 rx.msg.chaddr (decodeOptions rx.msg.options).clientIdentifier).2 c.leaseNs).2 = .ok ()
        · rw [hA hl.1 hl.2 hu] at h
          have ha : want.toNat = a := by injection h
          subst ha
          exact ⟨t1, t2, want, t3, t4, rfl, hl.1, hl.2, hu⟩
        · rw [hB hl.1 hl.2 hu] at h; cases h
      · rw [hC hl] at h; cases h
  · rintro ⟨t1, t2, want, t3, t4, ha, hl, hp, hu⟩
    subst ha
    have ht := (todo_request_iff c _ rx want hreq).2 ⟨t1, t2, t3, t4⟩
    rw [(handleV_request S c db rx o want ht).1 hl hp hu]

theorem request_never_offered {σ : Type} (S : Store σ) (c : SrvCfg) (db : IPDB σ) (rx : Rx) (o : HOracle) (a : Nat)
    (hreq : (decodeOptions rx.msg.options).messageType = 3) : (handleV S c db rx o).2 ≠ .offer a := by
  intro h
  rcases todo_drop_or_request c (getDuid S db o.t0 rx.msg.chaddr (decodeOptions rx.msg.options).clientIdentifier).1 rx hreq
    with ht | ⟨want, ht⟩
  · rw [handleV_drop S c db rx o ht] at h; cases h
  · obtain ⟨hA, hB, hC⟩ := handleV_request S c db rx o want ht
    by_cases hl : ((getDuid S db o.t0 rx.msg.chaddr (decodeOptions rx.msg.options).clientIdentifier).1.lookupByDuid S o.t1
        (getDuid S db o.t0 rx.msg.chaddr (decodeOptions rx.msg.options).clientIdentifier).2).2 = .ok want.toNat ∧ o.probeFree = true
    · by_cases hu : (((getDuid S db o.t0 rx.msg.chaddr (decodeOptions rx.msg.options).clientIdentifier).1.lookupByDuid S o.t1
          (getDuid S db o.t0 rx.msg.chaddr (decodeOptions rx.msg.options).clientIdentifier).2).1.updateClient S o.t2
          (some (Ip4.ofNat want.toNat)) (getDuid S db o.t0 rx.msg.chaddr (decodeOptions rx.msg.options).clientIdentifier).2 c.leaseNs).2 = .ok ()
      · rw [hA hl.1 hl.2 hu] at h; cases h
      · rw [hB hl.1 hl.2 hu] at h; cases h
    · rw [hC hl] at h; cases h

/-- The statement without `hs` is false: `classify Ip4.bcast Ip4.bcast none none = .renewing`. -/
theorem classify_table (self dst : Ip4) (sid req : Option Ip4) (hs : self ≠ Ip4.bcast) :
    (classify self dst sid req = .selecting ↔ dst = Ip4.bcast ∧ sid = some self ∧ req ≠ none) ∧
    (classify self dst sid req = .initReboot ↔ dst = Ip4.bcast ∧ sid = none ∧ req ≠ none) ∧
    (classify self dst sid req = .renewing ↔ dst = self ∧ dst ≠ Ip4.bcast ∧ sid = none ∧ req = none) ∧
    (classify self dst sid req = .rebinding ↔ dst = Ip4.bcast ∧ sid = none ∧ req = none) := by
  unfold classify
  repeat' split
  all_goals simp_all

theorem desired_ne_none (self dst src : Ip4) (sid req : Option Ip4) (h : classify self dst sid req ≠ .bogus) :
    desired (classify self dst sid req) src req ≠ none := by
  unfold classify at h ⊢
  repeat' split
  all_goals simp_all [desired]

theorem desired_some_imp (self dst src : Ip4) (sid req : Option Ip4) (want : Ip4)
    (h : desired (classify self dst sid req) src req = some want) :
    (sid = none ∨ sid = some self) ∧ (dst = Ip4.bcast ∨ dst = self) := by
  unfold classify at h
  repeat' split at h
  all_goals simp_all [desired]

/-- Over the reference table `LookupClientByDuid` is a pure read. -/
theorem getDuid_table_fst (db : IPDB Table) (t : Int) (hw cid : Bytes) : (getDuid tableStore db t hw cid).1 = db := by
  unfold getDuid
  generalize h : db.lookupByDuid tableStore t (sduid hw) = r
  have h1 : r.1 = db := by rw [← h]; cases db; rfl
  rcases r with ⟨r1, e | a⟩
  · dsimp only at h1 ⊢; split <;> exact h1
  · exact h1

theorem silent_and_unchanged (c : SrvCfg) (db : IPDB Table) (rx : Rx) (o : HOracle)
    (hreq : (decodeOptions rx.msg.options).messageType = 3)
    (h : (let opts := decodeOptions rx.msg.options
          (∃ s, opts.serverIdentifier = some s ∧ s ≠ c.selfIp) ∨
          (∃ want, desired (classify c.selfIp rx.dst opts.serverIdentifier opts.requestedIP) rx.src opts.requestedIP = some want ∧
             db.inManagedRange (some want) = false) ∨
          (rx.dst ≠ Ip4.bcast ∧ rx.dst ≠ c.selfIp) ∨
          rx.msg.chaddr = c.selfMac)) :
    handleV tableStore c db rx o = (db, .silent) := by
  have hg := getDuid_table_fst db o.t0 rx.msg.chaddr (decodeOptions rx.msg.options).clientIdentifier
  have ht : todo c (getDuid tableStore db o.t0 rx.msg.chaddr (decodeOptions rx.msg.options).clientIdentifier).1 rx = .drop := by
    rcases todo_drop_or_request c _ rx hreq with ht | ⟨want, ht⟩
    · exact ht
    · exfalso
      obtain ⟨t1, t2, t3, t4⟩ := (todo_request_iff c _ rx want hreq).1 ht
      obtain ⟨d1, d2⟩ := desired_some_imp _ _ _ _ _ _ t3
      rw [hg] at t4
      rcases h with ⟨s, hs, hne⟩ | ⟨w, hw, hf⟩ | ⟨h1, h2⟩ | h4
      · rw [hs] at d1
        rcases d1 with d1 | d1
        · cases d1
        · injection d1 with d1; exact hne d1
      · rw [t3] at hw; injection hw with hw; subst hw
        rw [t4] at hf; cases hf
      · rcases d2 with d2 | d2
        · exact h1 d2
        · exact h2 d2
      · exact t1 h4
  rw [handleV_drop tableStore c db rx o ht, hg]

theorem nak_when_not_bound {σ : Type} (S : Store σ) (c : SrvCfg) (db : IPDB σ) (rx : Rx) (o : HOracle) (want : Ip4)
    (hreq : (decodeOptions rx.msg.options).messageType = 3)
    (hmac : rx.msg.chaddr ≠ c.selfMac) (hself : (decodeOptions rx.msg.options).requestedIP ≠ some c.selfIp)
    (hw : desired (classify c.selfIp rx.dst (decodeOptions rx.msg.options).serverIdentifier (decodeOptions rx.msg.options).requestedIP)
            rx.src (decodeOptions rx.msg.options).requestedIP = some want)
    (hin : (getDuid S db o.t0 rx.msg.chaddr (decodeOptions rx.msg.options).clientIdentifier).1.inManagedRange (some want) = true)
    (hnb : let g := getDuid S db o.t0 rx.msg.chaddr (decodeOptions rx.msg.options).clientIdentifier
           (g.1.lookupByDuid S o.t1 g.2).2 ≠ .ok want.toNat) :
    (handleV S c db rx o).2 = .nak := by
  have ht := (todo_request_iff c _ rx want hreq).2 ⟨hmac, hself, hw, hin⟩
  rw [(handleV_request S c db rx o want ht).2.2 (fun h => hnb h.1)]

/-! ## C08: the REQUEST-path probe -/

theorem conflict_naked {σ : Type} (S : Store σ) (c : SrvCfg) (db : IPDB σ) (rx : Rx) (o : HOracle) (want : Ip4)
    (h : o.probeFree = false)
    (ht : todo c (getDuid S db o.t0 rx.msg.chaddr (decodeOptions rx.msg.options).clientIdentifier).1 rx = .request want) :
    (handleV S c db rx o).2 = .nak := by
  rw [(handleV_request S c db rx o want ht).2.2 (fun hh => by rw [h] at hh; cases hh.2)]

theorem conflict_never_acked {σ : Type} (S : Store σ) (c : SrvCfg) (db : IPDB σ) (rx : Rx) (o : HOracle) (a : Nat)
    (h : o.probeFree = false) : (handleV S c db rx o).2 ≠ .ack a := by
  intro hv
  cases ht : todo c (getDuid S db o.t0 rx.msg.chaddr (decodeOptions rx.msg.options).clientIdentifier).1 rx with
  | drop => rw [handleV_drop S c db rx o ht] at hv; cases hv
  | request want => rw [conflict_naked S c db rx o want h ht] at hv; cases hv
  | discover =>
    obtain ⟨hA, hC⟩ := handleV_discover S c db rx o ht
    cases hf : ((getDuid S db o.t0 rx.msg.chaddr (decodeOptions rx.msg.options).clientIdentifier).1.findIP S o.t1
        (decodeOptions rx.msg.options).requestedIP (getDuid S db o.t0 rx.msg.chaddr (decodeOptions rx.msg.options).clientIdentifier).2
        o.perm o.iters).2 with
    | error e =>
      rw [hC (fun a' h' => by rw [hf] at h'; cases h')] at hv; cases hv
    | ok a' =>
      obtain ⟨h1, h2⟩ := hA a' hf
      by_cases hu : (((getDuid S db o.t0 rx.msg.chaddr (decodeOptions rx.msg.options).clientIdentifier).1.findIP S o.t1
          (decodeOptions rx.msg.options).requestedIP (getDuid S db o.t0 rx.msg.chaddr (decodeOptions rx.msg.options).clientIdentifier).2
          o.perm o.iters).1.updateClient S o.t2 (some (Ip4.ofNat a'))
          (getDuid S db o.t0 rx.msg.chaddr (decodeOptions rx.msg.options).clientIdentifier).2 offerHoldNs).2 = .ok ()
      · rw [h1 hu] at hv; cases hv
      · rw [h2 hu] at hv; cases hv


/-! ## C08: `arpVerify`, `catchARPReply` -/

theorem arpVerify_free_iff (chaddr : Bytes) (outcomes : List (Option Bytes)) :
    arpVerify chaddr outcomes = true ↔
      ((∀ x ∈ outcomes, x = none) ∨ ∃ pre mac post, outcomes = pre ++ some mac :: post ∧ (∀ x ∈ pre, x = none) ∧ mac = chaddr) := by
  induction outcomes with
  | nil => simp [arpVerify]
  | cons x rest ih =>
    cases x with
    | none =>
      rw [arpVerify, ih]
      constructor
      · rintro (h | ⟨pre, mac, post, rfl, hp, hm⟩)
        · left
          intro x hx
          rcases List.mem_cons.1 hx with rfl | hx
          · rfl
          · exact h x hx
        · right
          refine ⟨none :: pre, mac, post, rfl, ?_, hm⟩
          intro x hx
          rcases List.mem_cons.1 hx with rfl | hx
          · rfl
          · exact hp x hx
      · rintro (h | ⟨pre, mac, post, he, hp, hm⟩)
        · left; intro x hx; exact h x (List.mem_cons_of_mem _ hx)
        · right
          cases pre with
          | nil => simp at he
          | cons p pre =>
            simp only [List.cons_append, List.cons.injEq] at he
            obtain ⟨rfl, rfl⟩ := he
            exact ⟨pre, mac, post, rfl, fun x hx => hp x (List.mem_cons_of_mem _ hx), hm⟩
    | some mac =>
      simp only [arpVerify, decide_eq_true_eq]
      constructor
      · intro h; right; exact ⟨[], mac, rest, rfl, by simp, h⟩
      · rintro (h | ⟨pre, mac', post, he, hp, hm⟩)
        · have := h (some mac) List.mem_cons_self; cases this
        · cases pre with
          | nil =>
            simp only [List.nil_append, List.cons.injEq, Option.some.injEq] at he
            obtain ⟨rfl, rfl⟩ := he; exact hm
          | cons p pre =>
            simp only [List.cons_append, List.cons.injEq] at he
            obtain ⟨rfl, rfl⟩ := he
            have := hp (some mac) List.mem_cons_self; cases this

theorem ofBytes_eq_some (x : Bytes) (t : Ip4) : Ip4.ofBytes? x = some t ↔ x = t.bytes := by
  obtain ⟨a, b, c, d⟩ := t
  unfold Ip4.ofBytes? Ip4.bytes
  split
  · simp
  · rename_i h
    constructor
    · intro hh; cases hh
    · intro hh; exact absurd hh (by intro hh; exact h _ _ _ _ hh)

/-- One frame of `catchARPReply`. -/
theorem catch_cons (target : Ip4) (f : Bytes) (rest : List Bytes) :
    catchARPReply target (f :: rest) =
      if 28 ≤ f.length ∧ (f.drop 14).take 4 = target.bytes then some ((f.drop 8).take 6) else catchARPReply target rest := by
  rw [catchARPReply]
  by_cases hl : 28 ≤ f.length
  · have h28 : (f.take 28).length = 28 := by rw [List.length_take]; omega
    cases hd : decodeARP (f.take 28) with
    | error e => rw [Wire.decodeARP_eq _ h28] at hd; cases hd
    | ok p =>
      obtain ⟨-, hip, hmac⟩ := Wire.arp_sender_ip_offset _ _ hd
      have e1 : ((f.take 28).drop 14).take 4 = (f.drop 14).take 4 := by
        rw [List.drop_take, List.take_take]; congr 1
      have e2 : ((f.take 28).drop 8).take 6 = (f.drop 8).take 6 := by
        rw [List.drop_take, List.take_take]; congr 1
      rw [e1] at hip; rw [e2] at hmac
      dsimp only
      rw [hip, hmac]
      by_cases ht : (f.drop 14).take 4 = target.bytes
      · rw [if_pos ((ofBytes_eq_some _ _).2 ht), if_pos ⟨hl, ht⟩]
      · rw [if_neg (fun h => ht ((ofBytes_eq_some _ _).1 h)), if_neg (fun h => ht h.2)]
  · rw [Wire.decodeARP_short _ (by rw [List.length_take]; omega), if_neg (fun h => hl h.1)]

theorem probe_times_out (target : Ip4) (frames : List Bytes)
    (h : ∀ f ∈ frames, f.length < 28 ∨ ((f.drop 14).take 4) ≠ target.bytes) : catchARPReply target frames = none := by
  induction frames with
  | nil => rfl
  | cons f rest ih =>
    rw [catch_cons, if_neg, ih (fun g hg => h g (List.mem_cons_of_mem _ hg))]
    rintro ⟨h1, h2⟩
    rcases h f List.mem_cons_self with h3 | h3
    · omega
    · exact h3 h2

theorem only_sender_ip_counts (target : Ip4) (frames : List Bytes) (mac : Bytes) :
    catchARPReply target frames = some mac ↔
      ∃ pre f post, frames = pre ++ f :: post ∧ 28 ≤ f.length ∧ ((f.drop 14).take 4) = target.bytes ∧
        mac = (f.drop 8).take 6 ∧ ∀ g ∈ pre, g.length < 28 ∨ ((g.drop 14).take 4) ≠ target.bytes := by
  induction frames with
  | nil =>
    constructor
    · intro h; cases h
    · rintro ⟨pre, f, post, he, -⟩; cases pre <;> cases he
  | cons f rest ih =>
    rw [catch_cons]
    by_cases hit : 28 ≤ f.length ∧ (f.drop 14).take 4 = target.bytes
    · rw [if_pos hit]
      constructor
      · intro h; injection h with h
        exact ⟨[], f, rest, rfl, hit.1, hit.2, h.symm, by simp⟩
      · rintro ⟨pre, f', post, he, h1, h2, h3, h4⟩
        cases pre with
        | nil =>
          simp only [List.nil_append, List.cons.injEq] at he
          obtain ⟨rfl, rfl⟩ := he; rw [h3]
        | cons p pre =>
          simp only [List.cons_append, List.cons.injEq] at he
          obtain ⟨rfl, rfl⟩ := he
          rcases h4 f List.mem_cons_self with h5 | h5
          · omega
          · exact absurd hit.2 h5
    · rw [if_neg hit, ih]
      constructor
      · rintro ⟨pre, f', post, rfl, h1, h2, h3, h4⟩
        refine ⟨f :: pre, f', post, rfl, h1, h2, h3, ?_⟩
        intro g hg
        rcases List.mem_cons.1 hg with rfl | hg
        · by_cases hl : 28 ≤ g.length
          · exact Or.inr (fun h => hit ⟨hl, h⟩)
          · exact Or.inl (by omega)
        · exact h4 g hg
      · rintro ⟨pre, f', post, he, h1, h2, h3, h4⟩
        cases pre with
        | nil =>
          simp only [List.nil_append, List.cons.injEq] at he
          obtain ⟨rfl, rfl⟩ := he
          exact absurd ⟨h1, h2⟩ hit
        | cons p pre =>
          simp only [List.cons_append, List.cons.injEq] at he
          obtain ⟨rfl, rfl⟩ := he
          exact ⟨pre, f', post, rfl, h1, h2, h3, fun g hg => h4 g (List.mem_cons_of_mem _ hg)⟩

/-! ## inverting a verdict; C08 `offered_was_probed_free`, C07 `advertised_is_reserved` -/

section
variable {σ : Type} (S : Store σ) (c : SrvCfg) (db : IPDB σ) (rx : Rx) (o : HOracle)

/-- What an OFFER verdict tells about the run. -/
theorem offer_inv (a : Nat) (h : (handleV S c db rx o).2 = .offer a) :
    let g := getDuid S db o.t0 rx.msg.chaddr (decodeOptions rx.msg.options).clientIdentifier
    let f := g.1.findIP S o.t1 (decodeOptions rx.msg.options).requestedIP g.2 o.perm o.iters
    let u := f.1.updateClient S o.t2 (some (Ip4.ofNat a)) g.2 offerHoldNs
    todo c g.1 rx = .discover ∧ f.2 = .ok a ∧ u.2 = .ok () ∧ handleV S c db rx o = (u.1, .offer a) := by
  dsimp only
  cases ht : todo c (getDuid S db o.t0 rx.msg.chaddr (decodeOptions rx.msg.options).clientIdentifier).1 rx with
  | drop => rw [handleV_drop S c db rx o ht] at h; cases h
  | request want =>
    exfalso
    obtain ⟨hA, hB, hC⟩ := handleV_request S c db rx o want ht
    by_cases hl : ((getDuid S db o.t0 rx.msg.chaddr (decodeOptions rx.msg.options).clientIdentifier).1.lookupByDuid S o.t1 (getDuid S db o.t0 rx.msg.chaddr (decodeOptions rx.msg.options).clientIdentifier).2).2 = .ok want.toNat ∧ o.probeFree = true
    · by_cases hu : (((getDuid S db o.t0 rx.msg.chaddr (decodeOptions rx.msg.options).clientIdentifier).1.lookupByDuid S o.t1 (getDuid S db o.t0 rx.msg.chaddr (decodeOptions rx.msg.options).clientIdentifier).2).1.updateClient S o.t2 (some (Ip4.ofNat want.toNat)) (getDuid S db o.t0 rx.msg.chaddr (decodeOptions rx.msg.options).clientIdentifier).2 c.leaseNs).2 = .ok ()
      · rw [hA hl.1 hl.2 hu] at h; cases h
      · rw [hB hl.1 hl.2 hu] at h; cases h
    · rw [hC hl] at h; cases h
  | discover =>
    obtain ⟨hA, hC⟩ := handleV_discover S c db rx o ht
    cases hf : ((getDuid S db o.t0 rx.msg.chaddr (decodeOptions rx.msg.options).clientIdentifier).1.findIP S o.t1 (decodeOptions rx.msg.options).requestedIP (getDuid S db o.t0 rx.msg.chaddr (decodeOptions rx.msg.options).clientIdentifier).2 o.perm o.iters).2 with
    | error e => rw [hC (fun a' h' => by rw [hf] at h'; cases h')] at h; cases h
    | ok a' =>
      obtain ⟨h1, h2⟩ := hA a' hf
      by_cases hu : (((getDuid S db o.t0 rx.msg.chaddr (decodeOptions rx.msg.options).clientIdentifier).1.findIP S o.t1 (decodeOptions rx.msg.options).requestedIP (getDuid S db o.t0 rx.msg.chaddr (decodeOptions rx.msg.options).clientIdentifier).2 o.perm o.iters).1.updateClient S o.t2 (some (Ip4.ofNat a')) (getDuid S db o.t0 rx.msg.chaddr (decodeOptions rx.msg.options).clientIdentifier).2 offerHoldNs).2 = .ok ()
      · have h3 := h1 hu
        rw [h3] at h
        have : a' = a := by injection h
        subst this
        exact ⟨rfl, rfl, hu, h3⟩
      · rw [h2 hu] at h; cases h

/-- What an ACK verdict tells about the run. -/
theorem ack_inv (a : Nat) (h : (handleV S c db rx o).2 = .ack a) :
    let g := getDuid S db o.t0 rx.msg.chaddr (decodeOptions rx.msg.options).clientIdentifier
    let l := g.1.lookupByDuid S o.t1 g.2
    let u := l.1.updateClient S o.t2 (some (Ip4.ofNat a)) g.2 c.leaseNs
    ∃ want : Ip4, todo c g.1 rx = .request want ∧ want.toNat = a ∧ l.2 = .ok a ∧ o.probeFree = true ∧ u.2 = .ok () ∧
      handleV S c db rx o = (u.1, .ack a) := by
  dsimp only
  cases ht : todo c (getDuid S db o.t0 rx.msg.chaddr (decodeOptions rx.msg.options).clientIdentifier).1 rx with
  | drop => rw [handleV_drop S c db rx o ht] at h; cases h
  | discover =>
    exfalso
    obtain ⟨hA, hC⟩ := handleV_discover S c db rx o ht
    cases hf : ((getDuid S db o.t0 rx.msg.chaddr (decodeOptions rx.msg.options).clientIdentifier).1.findIP S o.t1 (decodeOptions rx.msg.options).requestedIP (getDuid S db o.t0 rx.msg.chaddr (decodeOptions rx.msg.options).clientIdentifier).2 o.perm o.iters).2 with
    | error e => rw [hC (fun a' h' => by rw [hf] at h'; cases h')] at h; cases h
    | ok a' =>
      obtain ⟨h1, h2⟩ := hA a' hf
      by_cases hu : (((getDuid S db o.t0 rx.msg.chaddr (decodeOptions rx.msg.options).clientIdentifier).1.findIP S o.t1 (decodeOptions rx.msg.options).requestedIP (getDuid S db o.t0 rx.msg.chaddr (decodeOptions rx.msg.options).clientIdentifier).2 o.perm o.iters).1.updateClient S o.t2
          (some (Ip4.ofNat a')) (getDuid S db o.t0 rx.msg.chaddr (decodeOptions rx.msg.options).clientIdentifier).2 offerHoldNs).2 = .ok ()
      · rw [h1 hu] at h; cases h
      · rw [h2 hu] at h; cases h
  | request want =>
    obtain ⟨hA, hB, hC⟩ := handleV_request S c db rx o want ht
    by_cases hl : ((getDuid S db o.t0 rx.msg.chaddr (decodeOptions rx.msg.options).clientIdentifier).1.lookupByDuid S o.t1 (getDuid S db o.t0 rx.msg.chaddr (decodeOptions rx.msg.options).clientIdentifier).2).2 = .ok want.toNat ∧ o.probeFree = true
    · by_cases hu : (((getDuid S db o.t0 rx.msg.chaddr (decodeOptions rx.msg.options).clientIdentifier).1.lookupByDuid S o.t1 (getDuid S db o.t0 rx.msg.chaddr (decodeOptions rx.msg.options).clientIdentifier).2).1.updateClient S o.t2 (some (Ip4.ofNat want.toNat)) (getDuid S db o.t0 rx.msg.chaddr (decodeOptions rx.msg.options).clientIdentifier).2 c.leaseNs).2 = .ok ()
      · have h3 := hA hl.1 hl.2 hu
        rw [h3] at h
        have : want.toNat = a := by injection h
        subst this
        exact ⟨want, rfl, rfl, hl.1, hl.2, hu, h3⟩
      · rw [hB hl.1 hl.2 hu] at h; cases h
    · rw [hC hl] at h; cases h
end

theorem offered_was_probed_free (c : SrvCfg) (db : IPDB Table) (rx : Rx) (o : HOracle) (a : Nat)
    (hoff : (handleV tableStore c db rx o).2 = .offer a)
    (hnb : let g := getDuid tableStore db o.t0 rx.msg.chaddr (decodeOptions rx.msg.options).clientIdentifier
           g.1.s.liveDuid o.t1 g.2 = none)
    (hp : ∀ v ∈ o.perm, v ≤ db.dynTo - db.dynFrom) (hr : db.dynFrom ≤ db.dynTo ∧ db.dynTo < 4294967296) :
    ∃ i, (o.iters i).free = true ∧ (o.iters i).cancelled = false := by
  obtain ⟨-, hf, -, -⟩ := offer_inv tableStore c db rx o a hoff
  have hg := getDuid_table_fst db o.t0 rx.msg.chaddr (decodeOptions rx.msg.options).clientIdentifier
  dsimp only at hnb
  rw [hg] at hf hnb
  obtain ⟨-, -, -, i, h1, h2, -⟩ := Ipdb.find_result_eligible db o.t1 _ _ o.perm o.iters a hnb hp hr hf
  exact ⟨i, h1, h2⟩

theorem u8_ofNat_of_eq (x : UInt8) (n : Nat) (h : n = x.toNat) : UInt8.ofNat n = x := by
  subst h; exact UInt8.ofNat_toNat

theorem ip4_ofNat_toNat (x : Ip4) : Ip4.ofNat x.toNat = x := by
  obtain ⟨a, b, c, d⟩ := x
  have ha := a.toNat_lt; have hb := b.toNat_lt; have hc := c.toNat_lt; have hd := d.toNat_lt
  simp only [Ip4.ofNat, Ip4.toNat, Ip4.mk.injEq]
  refine ⟨u8_ofNat_of_eq _ _ ?_, u8_ofNat_of_eq _ _ ?_, u8_ofNat_of_eq _ _ ?_, u8_ofNat_of_eq _ _ ?_⟩ <;> omega

theorem toUip_some_ok {σ : Type} (db : IPDB σ) (x : Ip4) (n : Nat) (h : db.toUip (some x) = .ok n) : n = x.toNat := by
  revert h
  unfold IPDB.toUip
  refine opq Ip4.toNat ?_; intro tn
  dsimp only
  split
  · intro h; cases h
  · intro h; injection h with h; exact h.symm

theorem lookupByDuid_table_fst (db : IPDB Table) (t : Int) (d : Duid) : (db.lookupByDuid tableStore t d).1 = db := by
  cases db; rfl

theorem leaseSecs_le (ns : Int) (hl : 0 ≤ ns) : (leaseSecs ns : Int) * 1000000000 ≤ ns := by
  unfold leaseSecs; omega

theorem leaseSecs_lt (ns : Int) (hl : 0 ≤ ns) (h : ns / 1000000000 < 4294967296) :
    ns < ((leaseSecs ns : Int) + 1) * 1000000000 := by
  unfold leaseSecs; omega

theorem fst_of_eq {α β : Type} {p : α × β} {a : α} {b : β} (h : p = (a, b)) : p.1 = a := by rw [h]

theorem advertised_is_reserved (c : SrvCfg) (db : IPDB Table) (rx : Rx) (o : HOracle) (a : Nat)
    (hx : db.s.Exclusive o.t0) (hck : o.t0 ≤ o.t1 ∧ o.t1 ≤ o.t2) (hl : 0 ≤ c.leaseNs)
    (h : (handleV tableStore c db rx o).2 = .ack a) :
    (∃ b, (handleV tableStore c db rx o).1.s.liveIp o.t2 a = some b ∧ o.t2 + c.leaseNs ≤ b.exp) ∧
    (leaseSecs c.leaseNs : Int) * 1000000000 ≤ c.leaseNs ∧
    (c.leaseNs / 1000000000 < 4294967296 → c.leaseNs < ((leaseSecs c.leaseNs : Int) + 1) * 1000000000) := by
  refine ⟨?_, leaseSecs_le _ hl, leaseSecs_lt _ hl⟩
  obtain ⟨want, -, hwa, -, -, hu, hv⟩ := ack_inv tableStore c db rx o a h
  have hg := getDuid_table_fst db o.t0 rx.msg.chaddr (decodeOptions rx.msg.options).clientIdentifier
  have hv1 := fst_of_eq hv
  rw [hg, lookupByDuid_table_fst db] at hu hv1
  rw [hv1]
  have hx2 : db.s.Exclusive o.t2 := Ipdb.exclusive_mono hx (by omega)
  obtain ⟨n, b, hn, hb, -, hexp, -⟩ := Ipdb.update_effect db o.t2 _ _ c.leaseNs hx2 hu
  have hna : n = a := by
    rw [toUip_some_ok db _ n hn, ← hwa, ip4_ofNat_toNat]
  subst hna
  exact ⟨b, hb, hexp⟩

/-! ## C07: options -/

/-- Verbatim copies of the definitions of `Props/C07.lean`. -/
def effRouter (c : SrvCfg) (mac : Bytes) : Option Ip4 :=
  match c.override? mac with | some o => (match o.router with | some r => some r | none => c.router) | none => c.router
def effDns (c : SrvCfg) (mac : Bytes) : List Ip4 :=
  match c.override? mac with | some o => (if o.dns = [] then c.dns else o.dns) | none => c.dns
def effNtp (c : SrvCfg) (mac : Bytes) : List Ip4 :=
  match c.override? mac with | some o => (if o.ntp = [] then c.ntp else o.ntp) | none => c.ntp

theorem isEmpty_ite {α β : Type} (l : List α) (a b : β) : (if l.isEmpty = true then a else b) = (if l = [] then a else b) := by
  cases l <;> rfl

theorem options_spec (c : SrvCfg) (mac : Bytes) :
    c.dhcpOptions mac =
      [optLease (leaseSecs c.leaseNs), optSubnetMask c.mask]
      ++ (match effRouter c mac with | some r => [optRouter (some r)] | none => [])
      ++ (if effDns c mac = [] then [] else [optDNS (effDns c mac)])
      ++ (if effNtp c mac = [] then [] else [optNTP (effNtp c mac)])
      ++ (if c.domain = [] then [] else [optDomainName c.domain])
      ++ (match c.override? mac with | some o => (if o.hostname = [] then [] else [optHostname o.hostname]) | none => []) := by
  unfold SrvCfg.dhcpOptions effRouter effDns effNtp
  cases c.override? mac with
  | none =>
    simp only [Option.bind_none, isEmpty_ite]
    cases c.router <;> rfl
  | some o =>
    simp only [Option.bind_some, isEmpty_ite]
    cases o.router <;> cases c.router <;> rfl

theorem chunks4_flatten : ∀ (ips : List Ip4) (f : Nat), 4 * ips.length ≤ f →
    chunks4 f (ips.map Ip4.bytes).flatten = ips := by
  intro ips
  induction ips with
  | nil => intro f _; cases f <;> rfl
  | cons i r ih =>
    intro f hf
    obtain ⟨a, b, c, d⟩ := i
    rw [List.length_cons] at hf
    match f, hf with
    | f + 1, hf =>
      show chunks4 (f + 1) (a :: b :: c :: d :: (r.map Ip4.bytes).flatten) = _
      rw [chunks4, ih f (by omega)]

theorem flatten_len (ips : List Ip4) : (ips.map Ip4.bytes).flatten.length = 4 * ips.length := by
  induction ips with
  | nil => rfl
  | cons i r ih =>
    show (i.bytes ++ (r.map Ip4.bytes).flatten).length = _
    rw [List.length_append, ih, List.length_cons]; simp only [Ip4.bytes, List.length_cons, List.length_nil]; omega

theorem optIPs_some_data (code : UInt8) (ips : List Ip4) : (optIPs code (ips.map some)).data = (ips.map Ip4.bytes).flatten := by
  simp only [optIPs, List.map_map]; rfl

theorem toV4A_ips (ips : List Ip4) (h : ips ≠ []) : toV4A (ips.map Ip4.bytes).flatten = ips := by
  unfold toV4A
  have hl := flatten_len ips
  have : 0 < ips.length := List.length_pos_iff.2 h
  rw [if_pos ⟨by omega, by omega⟩, hl]
  exact chunks4_flatten ips _ (Nat.le_refl _)

theorem applyOpt_51 (d : DecodedOptions) (x : Bytes) : applyOpt d ⟨51, x⟩ = { d with leaseSecs := toSecs x } := rfl
theorem applyOpt_1 (d : DecodedOptions) (x : Bytes) : applyOpt d ⟨1, x⟩ = { d with subnetMask := toNetmask x } := rfl
theorem applyOpt_3 (d : DecodedOptions) (x : Bytes) : applyOpt d ⟨3, x⟩ = { d with routers := toV4A x } := rfl
theorem applyOpt_6 (d : DecodedOptions) (x : Bytes) : applyOpt d ⟨6, x⟩ = { d with dns := toV4A x } := rfl
theorem applyOpt_15 (d : DecodedOptions) (x : Bytes) : applyOpt d ⟨15, x⟩ = { d with domainName := x } := rfl
theorem applyOpt_42 (d : DecodedOptions) (x : Bytes) : applyOpt d ⟨42, x⟩ = d := rfl
theorem applyOpt_12 (d : DecodedOptions) (x : Bytes) : applyOpt d ⟨12, x⟩ = d := rfl
theorem applyOpt_53 (d : DecodedOptions) (x : Bytes) : applyOpt d ⟨53, x⟩ = { d with messageType := toUint8 x } := rfl
theorem applyOpt_54 (d : DecodedOptions) (x : Bytes) : applyOpt d ⟨54, x⟩ = { d with serverIdentifier := toV4 x } := rfl

theorem seg_router (d : DecodedOptions) (r : Ip4) :
    [optRouter (some r)].foldl applyOpt d = { d with routers := [r] } := by
  show applyOpt d ⟨3, ([r].map Ip4.bytes).flatten⟩ = _
  rw [applyOpt_3, toV4A_ips [r] (by simp)]

theorem seg_dns (d : DecodedOptions) (l : List Ip4) :
    (if l = [] then [] else [optDNS l]).foldl applyOpt d = { d with dns := if l = [] then d.dns else l } := by
  by_cases h : l = []
  · rw [if_pos h, if_pos h]; rfl
  · rw [if_neg h, if_neg h]
    show applyOpt d ⟨6, (optIPs 6 (l.map some)).data⟩ = _
    rw [applyOpt_6, optIPs_some_data, toV4A_ips l h]

theorem seg_ntp (d : DecodedOptions) (l : List Ip4) :
    (if l = [] then [] else [optNTP l]).foldl applyOpt d = d := by
  by_cases h : l = []
  · rw [if_pos h]; rfl
  · rw [if_neg h]; rfl

theorem seg_dom (d : DecodedOptions) (x : Bytes) :
    (if x = [] then [] else [optDomainName x]).foldl applyOpt d = { d with domainName := if x = [] then d.domainName else x } := by
  by_cases h : x = []
  · rw [if_pos h, if_pos h]; rfl
  · rw [if_neg h, if_neg h]; rfl

theorem seg_host (d : DecodedOptions) (x : Bytes) :
    (if x = [] then [] else [optHostname x]).foldl applyOpt d = d := by
  by_cases h : x = []
  · rw [if_pos h]; rfl
  · rw [if_neg h]; rfl

theorem toSecs_put32 (n : Nat) (h : n < 4294967296) : toSecs (put32 n) = n := by
  have := Dhcp.be32_put32 h []
  rw [List.append_nil] at this
  exact this

set_option linter.unusedVariables false in
theorem options_decoded (c : SrvCfg) (mac : Bytes) (hm : c.mask.length = 4) (hl : 0 ≤ c.leaseNs)
    (hls : c.leaseNs / 1000000000 < 4294967296) :
    let d := decodeOptions (c.dhcpOptions mac)
    d.leaseSecs = (c.leaseNs / 1000000000).toNat ∧ d.subnetMask = Ip4.ofBytes? c.mask ∧
    d.routers = (match effRouter c mac with | some r => [r] | none => []) ∧ d.dns = effDns c mac ∧
    d.domainName = c.domain := by
  have hsecs : leaseSecs c.leaseNs = (c.leaseNs / 1000000000).toNat := by unfold leaseSecs; omega
  have h2 : [optLease (leaseSecs c.leaseNs), optSubnetMask c.mask].foldl applyOpt {} =
      { leaseSecs := toSecs (put32 (leaseSecs c.leaseNs)), subnetMask := toNetmask c.mask } := rfl
  dsimp only
  rw [options_spec]
  unfold decodeOptions
  rw [List.foldl_append, List.foldl_append, List.foldl_append, List.foldl_append, List.foldl_append, h2]
  generalize effRouter c mac = r
  generalize effDns c mac = dns
  generalize effNtp c mac = ntp
  generalize c.override? mac = ov
  have hs2 := toSecs_put32 (leaseSecs c.leaseNs) (by rw [hsecs]; omega)
  cases r <;> cases ov <;> dsimp only [List.foldl_nil]
  all_goals
    try rw [seg_host]
    rw [seg_dom, seg_ntp, seg_dns]
    try rw [seg_router]
    dsimp only [List.foldl_nil]
    rw [hs2, hsecs]
    refine ⟨rfl, rfl, rfl, ?_, ?_⟩
    · by_cases h : dns = []
      · rw [if_pos h, h]
      · rw [if_neg h]
    · by_cases h : c.domain = []
      · rw [if_pos h, h]
      · rw [if_neg h]

theorem mem_ite_single {α β : Type} {l : List α} {x o : β} (h : o ∈ (if l = [] then [] else [x])) : o = x ∧ l ≠ [] := by
  by_cases hl : l = []
  · rw [if_pos hl] at h; cases h
  · rw [if_neg hl] at h; exact ⟨List.mem_singleton.1 h, hl⟩

theorem len_ite_single {α β : Type} (l : List α) (x : β) : (if l = [] then [] else [x]).length ≤ 1 := by
  by_cases hl : l = []
  · rw [if_pos hl]; exact Nat.zero_le _
  · rw [if_neg hl]; exact Nat.le_refl _

theorem override_mem (c : SrvCfg) (mac : Bytes) (o : Override) (h : c.override? mac = some o) : o ∈ c.overrides :=
  List.mem_of_find?_eq_some h

theorem effDns_le (c : SrvCfg) (hc : CfgWf c) (mac : Bytes) : (effDns c mac).length ≤ 63 := by
  unfold effDns
  cases h : c.override? mac with
  | none => exact hc.dns
  | some o =>
    dsimp only
    split
    · exact hc.dns
    · exact (hc.ov o (override_mem c mac o h)).1

theorem effNtp_le (c : SrvCfg) (hc : CfgWf c) (mac : Bytes) : (effNtp c mac).length ≤ 63 := by
  unfold effNtp
  cases h : c.override? mac with
  | none => exact hc.ntp
  | some o =>
    dsimp only
    split
    · exact hc.ntp
    · exact (hc.ov o (override_mem c mac o h)).2.1

theorem optIPs_some_len (code : UInt8) (l : List Ip4) : (optIPs code (l.map some)).data.length = 4 * l.length := by
  rw [optIPs_some_data, flatten_len]

/-- Codes and sizes of the configured options. -/
def OptOk (o : Opt) : Prop :=
  (o.code = 51 ∨ o.code = 1 ∨ o.code = 3 ∨ o.code = 6 ∨ o.code = 42 ∨ o.code = 15 ∨ o.code = 12) ∧ o.data.length ≤ 255

def routerSeg (r : Option Ip4) : List Opt := match r with | some r => [optRouter (some r)] | none => []
def hostSeg (ov : Option Override) : List Opt :=
  match ov with | some o => (if o.hostname = [] then [] else [optHostname o.hostname]) | none => []

theorem options_spec' (c : SrvCfg) (mac : Bytes) :
    c.dhcpOptions mac =
      [optLease (leaseSecs c.leaseNs), optSubnetMask c.mask] ++ routerSeg (effRouter c mac)
      ++ (if effDns c mac = [] then [] else [optDNS (effDns c mac)])
      ++ (if effNtp c mac = [] then [] else [optNTP (effNtp c mac)])
      ++ (if c.domain = [] then [] else [optDomainName c.domain]) ++ hostSeg (c.override? mac) := by
  rw [options_spec]
  cases effRouter c mac <;> cases c.override? mac <;> rfl

theorem routerSeg_props (r : Option Ip4) : (routerSeg r).length ≤ 1 ∧ ∀ o ∈ routerSeg r, OptOk o := by
  cases r with
  | none => exact ⟨Nat.zero_le _, fun o h => by cases h⟩
  | some r =>
    refine ⟨Nat.le_refl _, fun o h => ?_⟩
    rw [List.mem_singleton.1 h]
    exact ⟨Or.inr (Or.inr (Or.inl rfl)), by show (4 : Nat) ≤ 255; decide⟩

theorem hostSeg_props (ov : Option Override) (hh : ∀ o, ov = some o → o.hostname.length ≤ 255) :
    (hostSeg ov).length ≤ 1 ∧ ∀ o ∈ hostSeg ov, OptOk o := by
  cases ov with
  | none => exact ⟨Nat.zero_le _, fun o h => by cases h⟩
  | some ovr =>
    refine ⟨len_ite_single _ _, fun o h => ?_⟩
    rw [(mem_ite_single h).1]
    exact ⟨Or.inr (Or.inr (Or.inr (Or.inr (Or.inr (Or.inr rfl))))), hh ovr rfl⟩

theorem dhcpOptions_props (c : SrvCfg) (hc : CfgWf c) (mac : Bytes) :
    (c.dhcpOptions mac).length ≤ 7 ∧ ∀ o ∈ c.dhcpOptions mac, OptOk o := by
  rw [options_spec']
  have hd := effDns_le c hc mac
  have hn := effNtp_le c hc mac
  have hR := routerSeg_props (effRouter c mac)
  have hH := hostSeg_props (c.override? mac) (fun o h => (hc.ov o (override_mem c mac o h)).2.2)
  generalize effDns c mac = dns at *
  generalize effNtp c mac = ntp at *
  constructor
  · simp only [List.length_append, List.length_cons, List.length_nil]
    have h1 := len_ite_single dns (optDNS dns)
    have h2 := len_ite_single ntp (optNTP ntp)
    have h3 := len_ite_single c.domain (optDomainName c.domain)
    have h4 := hR.1
    have h5 := hH.1
    omega
  · intro o ho
    simp only [List.mem_append] at ho
    rcases ho with ((((ho | ho) | ho) | ho) | ho) | ho
    · rcases List.mem_cons.1 ho with rfl | ho
      · exact ⟨Or.inl rfl, by show (4 : Nat) ≤ 255; decide⟩
      · rw [List.mem_singleton.1 ho]
        exact ⟨Or.inr (Or.inl rfl), by show c.mask.length ≤ 255; rw [hc.mask]; decide⟩
    · exact hR.2 o ho
    · rw [(mem_ite_single ho).1]
      exact ⟨Or.inr (Or.inr (Or.inr (Or.inl rfl))), by rw [optDNS, optIPs_some_len]; omega⟩
    · rw [(mem_ite_single ho).1]
      exact ⟨Or.inr (Or.inr (Or.inr (Or.inr (Or.inl rfl)))), by rw [optNTP, optIPs_some_len]; omega⟩
    · rw [(mem_ite_single ho).1]
      exact ⟨Or.inr (Or.inr (Or.inr (Or.inr (Or.inr (Or.inl rfl))))), hc.domain⟩
    · exact hH.2 o ho

/-! ## C06 -/

theorem set_done_facts {l : List Pending} {i : Nat} {p : Pending} (hp : l[i]? = some p) (hne : p ≠ Pending.done) :
    (l.set i Pending.done)[i]? = some Pending.done ∧ l[i]? ≠ some Pending.done ∧
      ∀ j, j ≠ i → (l.set i Pending.done)[j]? = l[j]? := by
  obtain ⟨hlt, -⟩ := List.getElem?_eq_some_iff.1 hp
  refine ⟨by rw [List.getElem?_set_self hlt], ?_, fun j hj => List.getElem?_set_ne (Ne.symm hj)⟩
  rw [hp]; intro h; injection h with h; exact hne h

theorem at_most_one_reply {σ : Type} (S : Store σ) (c : SrvCfg) (s : Sys σ) (e : Ev) :
    (s.step S c e).sent = s.sent ∨
      ∃ (x : Sent) (i : Nat), (s.step S c e).sent = x :: s.sent ∧ (s.step S c e).pend[i]? = some Pending.done ∧ s.pend[i]? ≠ some Pending.done ∧
        (∀ j, j ≠ i → (s.step S c e).pend[j]? = s.pend[j]?) := by
  cases e with
  | recv t b =>
    left
    rw [Sys.step]
    refine opq (todo c (σ := σ)) ?_; intro tdo
    refine opq (getDuid S) ?_; intro gd
    split
    · dsimp only; split <;> rfl
    · rfl
  | find i t perm orc tEnd =>
    left
    rw [Sys.step]
    refine opq (IPDB.findIP S) ?_; intro fnd
    split
    · dsimp only; split <;> rfl
    · rfl
  | hold i t =>
    rw [Sys.step]
    refine opq (IPDB.updateClient S) ?_; intro upd
    split
    · rename_i rx duid a hp
      dsimp only
      generalize upd s.db t (some (Ip4.ofNat a)) duid offerHoldNs = u
      rcases u with ⟨u1, e | _⟩
      · left; rfl
      · right
        obtain ⟨h1, h2, h3⟩ := set_done_facts hp (by intro h; cases h)
        exact ⟨_, i, rfl, h1, h2, h3⟩
    · left; rfl
  | look i t probeFree =>
    rw [Sys.step]
    refine opq (IPDB.lookupByDuid S) ?_; intro lk
    refine opq Ip4.toNat ?_; intro tn
    split
    · rename_i rx duid want hp
      dsimp only
      obtain ⟨h1, h2, h3⟩ := set_done_facts hp (by intro h; cases h)
      generalize lk s.db t duid = l
      rcases l with ⟨l1, e | lease⟩
      · right; exact ⟨_, i, rfl, h1, h2, h3⟩
      · dsimp only
        split
        · right; exact ⟨_, i, rfl, h1, h2, h3⟩
        · split
          · right; exact ⟨_, i, rfl, h1, h2, h3⟩
          · left; rfl
    · left; rfl
  | lease i t =>
    rw [Sys.step]
    refine opq (IPDB.updateClient S) ?_; intro upd
    split
    · rename_i rx duid lease hp
      dsimp only
      generalize upd s.db t (some (Ip4.ofNat lease)) duid c.leaseNs = u
      rcases u with ⟨u1, e | _⟩
      · left; rfl
      · right
        obtain ⟨h1, h2, h3⟩ := set_done_facts hp (by intro h; cases h)
        exact ⟨_, i, rfl, h1, h2, h3⟩
    · left; rfl

theorem set_other {l : List Pending} {i j : Nat} {p q : Pending} (hi : l[i]? = some Pending.done) (hj : l[j]? = some p)
    (hne : p ≠ Pending.done) : (l.set j q)[i]? = some Pending.done := by
  have hji : j ≠ i := by
    rintro rfl; rw [hj] at hi; injection hi with hi; exact hne hi
  rw [List.getElem?_set_ne hji, hi]

theorem append_keeps {l : List Pending} {i : Nat} {p : Pending} (x : Pending) (hi : l[i]? = some p) : (l ++ [x])[i]? = some p := by
  obtain ⟨hlt, -⟩ := List.getElem?_eq_some_iff.1 hi
  rw [List.getElem?_append_left hlt, hi]

theorem done_is_final {σ : Type} (S : Store σ) (c : SrvCfg) (s : Sys σ) (e : Ev) (i : Nat) (h : s.pend[i]? = some Pending.done) :
    (s.step S c e).pend[i]? = some Pending.done := by
  cases e with
  | recv t b =>
    rw [Sys.step]
    refine opq (todo c (σ := σ)) ?_; intro tdo
    refine opq (getDuid S) ?_; intro gd
    split
    · dsimp only
      split
      · exact h
      · exact append_keeps _ h
      · exact append_keeps _ h
    · exact h
  | find j t perm orc tEnd =>
    rw [Sys.step]
    refine opq (IPDB.findIP S) ?_; intro fnd
    split
    · rename_i rx duid hp
      dsimp only
      split <;> exact set_other h hp (by intro hh; cases hh)
    · exact h
  | hold j t =>
    rw [Sys.step]
    refine opq (IPDB.updateClient S) ?_; intro upd
    split
    · rename_i rx duid a hp
      dsimp only
      split <;> exact set_other h hp (by intro hh; cases hh)
    · exact h
  | look j t probeFree =>
    rw [Sys.step]
    refine opq (IPDB.lookupByDuid S) ?_; intro lk
    refine opq Ip4.toNat ?_; intro tn
    split
    · rename_i rx duid want hp
      dsimp only
      have hs := fun q => set_other (q := q) h hp (by intro hh; cases hh)
      split
      · exact hs _
      · split
        · exact hs _
        · split
          · exact hs _
          · exact hs _
    · exact h
  | lease j t =>
    rw [Sys.step]
    refine opq (IPDB.updateClient S) ?_; intro upd
    split
    · rename_i rx duid lease hp
      dsimp only
      split <;> exact set_other h hp (by intro hh; cases hh)
    · exact h

/-! ### C06 / C07: what is on the wire -/

/-- Everything the receiver sees of a frame built by `assembleUdp`. -/
theorem udp_frame_wire (src dst : Ip4) (P : Bytes) (hl : 20 + 8 + P.length ≤ 65535) :
    ∃ ip udp, decodeIPv4 (assembleUdp src dst P) = .ok ip ∧ decodeUDP ip.data = .ok udp ∧ udp.data = P ∧
      udp.srcPort = 67 ∧ udp.dstPort = 68 ∧ ip.src = some src ∧ ip.dst = some dst ∧ ip.proto = 0x11 ∧
      IpHeaderVerifies (assembleUdp src dst P) ∧ UdpVerifies src dst 0x11 ((assembleUdp src dst P).drop 20) := by
  unfold assembleUdp
  generalize hU : ({ srcPort := 67, dstPort := 68, data := P } : UDP) = U
  generalize hH : ({ ident := 0, flags := 0, ttl := 64, proto := 0x11, src := some src, dst := some dst, data := U.assemble } : IPv4) = H
  have hUd : U.data = P := by rw [← hU]
  have hUs : U.srcPort = 67 := by rw [← hU]
  have hUp : U.dstPort = 68 := by rw [← hU]
  have hd : H.data = U.assemble := by rw [← hH]
  have hp : H.proto = 0x11 := by rw [← hH]
  have hi : H.ident = 0 := by rw [← hH]
  have hf : H.flags = 0 := by rw [← hH]
  have hs : H.src = some src := by rw [← hH]
  have hdst : H.dst = some dst := by rw [← hH]
  have hlen : H.data.length = 8 + P.length := by rw [hd, Wire.udp_assemble_length, hUd]
  have hUl : U.data.length = P.length := by rw [hUd]
  obtain ⟨cs, hdec⟩ := Wire.decode_assemble_ip H (by omega) (by omega) (by omega)
  have hudp := Wire.decode_udp_inside_ip H U hd (by omega) (by omega) (by omega)
  have hv := Wire.udp_checksum_verifies H U hd hp (by omega)
  rw [hs, hdst, hp] at hv
  refine ⟨_, U, hdec, hudp, hUd, hUs, hUp, ?_, ?_, hp, Wire.ip_checksum_verifies H, hv⟩
  · show some (optIp H.src) = some src
    rw [hs]; rfl
  · show some (optIp H.dst) = some dst
    rw [hdst]; rfl

/-! ### the DHCP message inside a reply -/

def padMsg (m : Msg) : Msg := { m with sname := List.replicate 64 0, file := List.replicate 128 0 }

theorem assemble_pad (m : Msg) (hs : m.sname = []) (hf : m.file = []) : m.assemble = (padMsg m).assemble := by
  have e1 : copyInto 64 ([] : Bytes) = copyInto 64 (List.replicate 64 0) := by
    rw [Dhcp.copyInto_self List.length_replicate]; simp [copyInto]
  have e2 : copyInto 128 ([] : Bytes) = copyInto 128 (List.replicate 128 0) := by
    rw [Dhcp.copyInto_self List.length_replicate]; simp [copyInto]
  unfold Msg.assemble Msg.header padMsg
  rw [hs, hf]
  dsimp only
  rw [e1, e2]

theorem optsWire_length_le : ∀ (l : List Opt), (∀ o ∈ l, o.data.length ≤ 255) → (optsWire l).length ≤ 257 * l.length := by
  intro l
  induction l with
  | nil => intro _; exact Nat.le_refl _
  | cons o r ih =>
    intro h
    have h1 := h o List.mem_cons_self
    have h2 := ih (fun o' ho' => h o' (List.mem_cons_of_mem _ ho'))
    simp only [optsWire, Opt.wire, List.length_append, List.length_cons, List.length_nil]
    omega

theorem assemble_length (m : Msg) (hne : m.options ≠ []) : m.assemble.length = 241 + (optsWire m.options).length := by
  rw [Dhcp.assemble_eq m hne]
  have hA : (Dhcp.hdrA m).length = 28 := rfl
  simp only [Dhcp.tailB, List.length_append, hA, Dhcp.copyInto_length, List.length_cons, List.length_nil]
  have : (put32 m.cookie).length = 4 := rfl
  omega

/-- Round trip for the messages the server builds (empty `sname` / `file`). -/
theorem reply_decode (M : Msg) (hs : M.sname = []) (hf : M.file = []) (hx : M.xid < 4294967296) (hsec : M.secs < 65536)
    (hfl : M.flags < 65536) (hck : M.cookie < 4294967296) (hch : M.chaddr.length ≤ 16) (hne : M.options ≠ [])
    (ho : ∀ o ∈ M.options, o.code ≠ 0 ∧ o.code ≠ 0xff ∧ o.data.length ≤ 255) :
    decode M.assemble = .ok (Spec.Msg.norm (padMsg M)) := by
  rw [assemble_pad M hs hf]
  exact Dhcp.decode_assemble (padMsg M)
    { xid := hx, secs := hsec, flags := hfl, cookie := hck, chaddr := hch, sname := List.length_replicate ..,
      file := List.length_replicate .., nonempty := hne, opts := ho }

theorem OptOk.wf {o : Opt} (h : OptOk o) : o.code ≠ 0 ∧ o.code ≠ 0xff ∧ o.data.length ≤ 255 := by
  obtain ⟨hc, hl⟩ := h
  refine ⟨?_, ?_, hl⟩ <;> rcases hc with h | h | h | h | h | h | h <;> rw [h] <;> decide

theorem OptOk.not5354 {o : Opt} (h : OptOk o) : o.code ≠ 53 ∧ o.code ≠ 54 := by
  obtain ⟨hc, -⟩ := h
  constructor <;> rcases hc with h | h | h | h | h | h | h <;> rw [h] <;> decide

theorem applyOpt_keeps (d : DecodedOptions) (o : Opt) (h : o.code ≠ 53 ∧ o.code ≠ 54) :
    (applyOpt d o).messageType = d.messageType ∧ (applyOpt d o).serverIdentifier = d.serverIdentifier := by
  unfold applyOpt
  by_cases h1 : o.code = 1
  · rw [if_pos h1]; exact ⟨rfl, rfl⟩
  rw [if_neg h1]
  by_cases h3 : o.code = 3
  · rw [if_pos h3]; exact ⟨rfl, rfl⟩
  rw [if_neg h3]
  by_cases h6 : o.code = 6
  · rw [if_pos h6]; exact ⟨rfl, rfl⟩
  rw [if_neg h6]
  by_cases h15 : o.code = 15
  · rw [if_pos h15]; exact ⟨rfl, rfl⟩
  rw [if_neg h15]
  by_cases h28 : o.code = 28
  · rw [if_pos h28]; exact ⟨rfl, rfl⟩
  rw [if_neg h28]
  by_cases h50 : o.code = 50
  · rw [if_pos h50]; exact ⟨rfl, rfl⟩
  rw [if_neg h50]
  by_cases h51 : o.code = 51
  · rw [if_pos h51]; exact ⟨rfl, rfl⟩
  rw [if_neg h51]
  by_cases h53 : o.code = 53
  · exact absurd h53 h.1
  rw [if_neg h53]
  by_cases h57 : o.code = 57
  · rw [if_pos h57]; exact ⟨rfl, rfl⟩
  rw [if_neg h57]
  by_cases h26 : o.code = 26
  · rw [if_pos h26]; exact ⟨rfl, rfl⟩
  rw [if_neg h26]
  by_cases h54 : o.code = 54
  · exact absurd h54 h.2
  rw [if_neg h54]
  by_cases h56 : o.code = 56
  · rw [if_pos h56]; exact ⟨rfl, rfl⟩
  rw [if_neg h56]
  by_cases h58 : o.code = 58
  · rw [if_pos h58]; exact ⟨rfl, rfl⟩
  rw [if_neg h58]
  by_cases h59 : o.code = 59
  · rw [if_pos h59]; exact ⟨rfl, rfl⟩
  rw [if_neg h59]
  by_cases h61 : o.code = 61
  · rw [if_pos h61]; exact ⟨rfl, rfl⟩
  rw [if_neg h61]
  by_cases h55 : o.code = 55
  · rw [if_pos h55]; exact ⟨rfl, rfl⟩
  rw [if_neg h55]
  exact ⟨rfl, rfl⟩

theorem foldl_keeps : ∀ (l : List Opt) (d : DecodedOptions), (∀ o ∈ l, o.code ≠ 53 ∧ o.code ≠ 54) →
    (l.foldl applyOpt d).messageType = d.messageType ∧ (l.foldl applyOpt d).serverIdentifier = d.serverIdentifier := by
  intro l
  induction l with
  | nil => intro d _; exact ⟨rfl, rfl⟩
  | cons o r ih =>
    intro d h
    have h1 := applyOpt_keeps d o (h o List.mem_cons_self)
    have h2 := ih (applyOpt d o) (fun o' ho' => h o' (List.mem_cons_of_mem _ ho'))
    rw [List.foldl_cons]
    exact ⟨h2.1.trans h1.1, h2.2.trans h1.2⟩

theorem decode_head (k : UInt8) (ip : Ip4) (rest : List Opt) (h : ∀ o ∈ rest, o.code ≠ 53 ∧ o.code ≠ 54) :
    (decodeOptions ([optType k, optServerIdentifier (some ip)] ++ rest)).messageType = k ∧
    (decodeOptions ([optType k, optServerIdentifier (some ip)] ++ rest)).serverIdentifier = some ip := by
  unfold decodeOptions
  rw [List.foldl_append]
  have h0 : [optType k, optServerIdentifier (some ip)].foldl applyOpt {} =
      { messageType := k, serverIdentifier := toV4 (optServerIdentifier (some ip)).data } := rfl
  have h1 : toV4 (optServerIdentifier (some ip)).data = some ip := by
    obtain ⟨a, b, c, d⟩ := ip
    exact (Dhcp.typed_values a b c d).2.2.2.1
  rw [h0, h1]
  exact foldl_keeps rest _ h

/-- The message of `AssembleOffer` / `AssembleACK`. -/
def leaseMsg (kind : ReplyKind) (xid flags : Nat) (selfIp yiaddr : Ip4) (chaddr : Bytes) (opts : List Opt) : Msg :=
  { op := 2, htype := 1, hops := 0, xid := xid, secs := 0, flags := flags, ciaddr := none, yiaddr := some yiaddr,
    siaddr := none, giaddr := none, chaddr := chaddr, sname := [], file := [], cookie := 0x63825363,
    options := [optType kind.code, optServerIdentifier (some selfIp)] ++ opts }

def nakMsg (xid : Nat) (selfIp : Ip4) (chaddr : Bytes) : Msg :=
  { op := 2, htype := 1, hops := 0, xid := xid, secs := 0, flags := 0, ciaddr := none, yiaddr := none,
    siaddr := none, giaddr := none, chaddr := chaddr, sname := [], file := [], cookie := 0x63825363,
    options := [optType 6, optServerIdentifier (some selfIp)] }

theorem leaseFrame_pkt (c : SrvCfg) (kind : ReplyKind) (m : Msg) (y : Ip4) :
    (leaseFrame c kind m y).pkt =
      assembleUdp c.selfIp (if m.flags / 32768 % 2 = 1 then Ip4.bcast else y)
        (leaseMsg kind m.xid m.flags c.selfIp y m.chaddr (c.dhcpOptions m.chaddr)).assemble := rfl

theorem nakFrame_pkt (c : SrvCfg) (m : Msg) :
    (nakFrame c m).pkt = assembleUdp c.selfIp Ip4.bcast (nakMsg m.xid c.selfIp m.chaddr).assemble := rfl

theorem head_ok (k : UInt8) (ip : Ip4) : ∀ o ∈ [optType k, optServerIdentifier (some ip)],
    o.code ≠ 0 ∧ o.code ≠ 0xff ∧ o.data.length ≤ 255 := by
  intro o ho
  rcases List.mem_cons.1 ho with rfl | ho
  · exact ⟨by show (53 : UInt8) ≠ 0; decide, by show (53 : UInt8) ≠ 255; decide, by show (1 : Nat) ≤ 255; decide⟩
  · rw [List.mem_singleton.1 ho]
    exact ⟨by show (54 : UInt8) ≠ 0; decide, by show (54 : UInt8) ≠ 255; decide, by show (4 : Nat) ≤ 255; decide⟩

/-- The lease message decodes to itself (addresses normalised, `sname` / `file` zero filled) and is short. -/
theorem leaseMsg_decode (c : SrvCfg) (hc : CfgWf c) (kind : ReplyKind) (m : Msg) (y : Ip4)
    (hx : m.xid < 4294967296) (hf : m.flags < 65536) (hch : m.chaddr.length ≤ 16) :
    let M := leaseMsg kind m.xid m.flags c.selfIp y m.chaddr (c.dhcpOptions m.chaddr)
    decode M.assemble = .ok (Spec.Msg.norm (padMsg M)) ∧ 20 + 8 + M.assemble.length ≤ 65535 := by
  obtain ⟨hlen, hok⟩ := dhcpOptions_props c hc m.chaddr
  have hall : ∀ o ∈ [optType kind.code, optServerIdentifier (some c.selfIp)] ++ c.dhcpOptions m.chaddr,
      o.code ≠ 0 ∧ o.code ≠ 0xff ∧ o.data.length ≤ 255 := by
    intro o ho
    rcases List.mem_append.1 ho with ho | ho
    · exact head_ok _ _ o ho
    · exact (hok o ho).wf
  have hne : [optType kind.code, optServerIdentifier (some c.selfIp)] ++ c.dhcpOptions m.chaddr ≠ [] := by
    intro h; cases h
  refine ⟨reply_decode _ rfl rfl hx (by show (0 : Nat) < 65536; decide) hf
    (by show (0x63825363 : Nat) < 4294967296; decide) hch hne hall, ?_⟩
  rw [assemble_length _ hne]
  have := optsWire_length_le _ (fun o ho => (hall o ho).2.2)
  show 20 + 8 + (241 + (optsWire ([optType kind.code, optServerIdentifier (some c.selfIp)] ++ c.dhcpOptions m.chaddr)).length) ≤ 65535
  rw [List.length_append] at this
  have h2 : [optType kind.code, optServerIdentifier (some c.selfIp)].length = 2 := rfl
  omega

theorem nakMsg_decode (c : SrvCfg) (m : Msg) (hx : m.xid < 4294967296) (hch : m.chaddr.length ≤ 16) :
    let M := nakMsg m.xid c.selfIp m.chaddr
    decode M.assemble = .ok (Spec.Msg.norm (padMsg M)) ∧ 20 + 8 + M.assemble.length ≤ 65535 := by
  have hne : [optType 6, optServerIdentifier (some c.selfIp)] ≠ [] := by intro h; cases h
  refine ⟨reply_decode _ rfl rfl hx (by show (0 : Nat) < 65536; decide)
    (by show (0 : Nat) < 65536; decide) (by show (0x63825363 : Nat) < 4294967296; decide) hch hne (head_ok _ _), ?_⟩
  rw [assemble_length _ hne]
  have := optsWire_length_le _ (fun o ho => (head_ok 6 c.selfIp o ho).2.2)
  show 20 + 8 + (241 + (optsWire [optType 6, optServerIdentifier (some c.selfIp)]).length) ≤ 65535
  have h2 : [optType 6, optServerIdentifier (some c.selfIp)].length = 2 := rfl
  omega

set_option linter.unusedVariables false in
theorem lease_reply_wire (c : SrvCfg) (hc : CfgWf c) (kind : ReplyKind) (hk : kind ≠ .nak) (m : Msg) (y : Ip4)
    (hx : m.xid < 4294967296) (hf : m.flags < 65536) (hch : m.chaddr.length ≤ 16) :
    let f := leaseFrame c kind m y
    let bc := m.flags / 32768 % 2 = 1
    ∃ ip udp r, decodeIPv4 f.pkt = .ok ip ∧ decodeUDP ip.data = .ok udp ∧ decode udp.data = .ok r ∧
      r.op = 2 ∧ r.xid = m.xid ∧ r.flags = m.flags ∧ r.chaddr = m.chaddr ∧ r.yiaddr = some y ∧
      (decodeOptions r.options).messageType = kind.code ∧ (decodeOptions r.options).serverIdentifier = some c.selfIp ∧
      udp.srcPort = 67 ∧ udp.dstPort = 68 ∧ ip.src = some c.selfIp ∧ ip.proto = 0x11 ∧
      ip.dst = some (if bc then Ip4.bcast else y) ∧ f.l2dst = (if bc then bcastMac else m.chaddr) ∧
      IpHeaderVerifies f.pkt ∧ UdpVerifies c.selfIp (if bc then Ip4.bcast else y) 0x11 (f.pkt.drop 20) := by
  dsimp only
  rw [leaseFrame_pkt]
  obtain ⟨hdec, hlen⟩ := leaseMsg_decode c hc kind m y hx hf hch
  obtain ⟨h53, h54⟩ := decode_head kind.code c.selfIp (c.dhcpOptions m.chaddr)
    (fun o ho => ((dhcpOptions_props c hc m.chaddr).2 o ho).not5354)
  generalize hM : leaseMsg kind m.xid m.flags c.selfIp y m.chaddr (c.dhcpOptions m.chaddr) = M at hdec hlen
  obtain ⟨ip, udp, h1, h2, h3, h4, h5, h6, h7, h8, h9, h10⟩ := udp_frame_wire c.selfIp
    (if m.flags / 32768 % 2 = 1 then Ip4.bcast else y) M.assemble hlen
  refine ⟨ip, udp, Spec.Msg.norm (padMsg M), h1, h2, by rw [h3]; exact hdec, ?_, ?_, ?_, ?_, ?_, ?_, ?_, h4, h5, h6, h8, h7, rfl, h9, h10⟩
  all_goals subst hM
  · rfl
  · rfl
  · rfl
  · rfl
  · rfl
  · exact h53
  · exact h54

theorem nak_reply_wire (c : SrvCfg) (m : Msg) (hx : m.xid < 4294967296) (hch : m.chaddr.length ≤ 16) :
    let f := nakFrame c m
    ∃ ip udp r, decodeIPv4 f.pkt = .ok ip ∧ decodeUDP ip.data = .ok udp ∧ decode udp.data = .ok r ∧
      r.op = 2 ∧ r.xid = m.xid ∧ r.chaddr = m.chaddr ∧
      (decodeOptions r.options).messageType = 6 ∧ (decodeOptions r.options).serverIdentifier = some c.selfIp ∧
      udp.srcPort = 67 ∧ udp.dstPort = 68 ∧ ip.src = some c.selfIp ∧ ip.dst = some Ip4.bcast ∧ f.l2dst = m.chaddr ∧
      IpHeaderVerifies f.pkt ∧ UdpVerifies c.selfIp Ip4.bcast 0x11 (f.pkt.drop 20) := by
  dsimp only
  rw [nakFrame_pkt]
  obtain ⟨hdec, hlen⟩ := nakMsg_decode c m hx hch
  obtain ⟨h53, h54⟩ := decode_head 6 c.selfIp [] (fun o ho => by cases ho)
  generalize hM : nakMsg m.xid c.selfIp m.chaddr = M at hdec hlen
  obtain ⟨ip, udp, h1, h2, h3, h4, h5, h6, h7, h8, h9, h10⟩ := udp_frame_wire c.selfIp Ip4.bcast M.assemble hlen
  refine ⟨ip, udp, Spec.Msg.norm (padMsg M), h1, h2, by rw [h3]; exact hdec, ?_, ?_, ?_, ?_, ?_, h4, h5, h6, h7, rfl, h9, h10⟩
  all_goals subst hM
  · rfl
  · rfl
  · rfl
  · exact h53
  · exact h54

theorem decodedReply_lease (c : SrvCfg) (hc : CfgWf c) (kind : ReplyKind) (m : Msg) (y : Ip4)
    (hx : m.xid < 4294967296) (hf : m.flags < 65536) (hch : m.chaddr.length ≤ 16) :
    decodedReply (leaseFrame c kind m y) =
      some (Spec.Msg.norm (padMsg (leaseMsg kind m.xid m.flags c.selfIp y m.chaddr (c.dhcpOptions m.chaddr)))) := by
  obtain ⟨hdec, hlen⟩ := leaseMsg_decode c hc kind m y hx hf hch
  unfold decodedReply
  rw [leaseFrame_pkt]
  generalize hM : leaseMsg kind m.xid m.flags c.selfIp y m.chaddr (c.dhcpOptions m.chaddr) = M at hdec hlen ⊢
  obtain ⟨ip, udp, h1, h2, h3, -⟩ := udp_frame_wire c.selfIp
    (if m.flags / 32768 % 2 = 1 then Ip4.bcast else y) M.assemble hlen
  rw [← h3] at hdec
  simp only [h1, h2, hdec]

theorem offer_ack_agree (c : SrvCfg) (hc : CfgWf c) (m : Msg) (y : Ip4)
    (hx : m.xid < 4294967296) (hf : m.flags < 65536) (hch : m.chaddr.length ≤ 16) :
    ∃ r₁ r₂, decodedReply (leaseFrame c .offer m y) = some r₁ ∧ decodedReply (leaseFrame c .ack m y) = some r₂ ∧
      r₁.options.drop 2 = c.dhcpOptions m.chaddr ∧ r₂.options.drop 2 = c.dhcpOptions m.chaddr ∧
      r₁.options.drop 1 = r₂.options.drop 1 ∧ r₁.yiaddr = r₂.yiaddr :=
  ⟨_, _, decodedReply_lease c hc .offer m y hx hf hch, decodedReply_lease c hc .ack m y hx hf hch, rfl, rfl, rfl, rfl⟩

/-! ## C10 -/

theorem rxChain_cases (b : Bytes) :
    rxChain b = .ok none ∨
      ∃ v4 udp m, decodeIPv4 b = .ok v4 ∧ decodeUDP v4.data = .ok udp ∧ decode udp.data = .ok m ∧ m.op = 1 ∧
        rxChain b = .ok (some ⟨optIp v4.src, optIp v4.dst, m⟩) := by
  cases h1 : decodeIPv4 b with
  | error e =>
    cases e with
    | reject w => left; simp only [rxChain, h1]; rfl
    | panic s => exact absurd h1 (Wire.decoders_never_panic b s).1
  | ok v4 =>
    cases h2 : decodeUDP v4.data with
    | error e =>
      cases e with
      | reject w => left; simp only [rxChain, h1, h2]; rfl
      | panic s => exact absurd h2 (Wire.decoders_never_panic v4.data s).2.1
    | ok udp =>
      cases h3 : decode udp.data with
      | error e =>
        cases e with
        | reject w => left; simp only [rxChain, h1, h2, h3]; rfl
        | panic s => exact absurd h3 (Dhcp.decode_never_panics udp.data s)
      | ok m =>
        by_cases hop : m.op ≠ 1
        · left; simp only [rxChain, h1, h2, h3, if_pos hop]; rfl
        · right
          refine ⟨v4, udp, m, rfl, h2, h3, Decidable.not_not.1 hop, ?_⟩
          simp only [rxChain, h1, h2, h3, if_neg hop]; rfl

theorem rx_never_panics (b : Bytes) (site : String) : rxChain b ≠ .error (.panic site) := by
  rcases rxChain_cases b with h | ⟨_, _, _, _, _, _, _, h⟩ <;> (rw [h]; intro hh; cases hh)

theorem rx_total (b : Bytes) : rxChain b = .ok none ∨ ∃ rx, rxChain b = .ok (some rx) ∧ rx.msg.op = 1 := by
  rcases rxChain_cases b with h | ⟨v4, udp, m, _, _, _, hop, h⟩
  · exact Or.inl h
  · exact Or.inr ⟨_, h, hop⟩

theorem junk_is_noop {σ : Type} (S : Store σ) (c : SrvCfg) (s : Sys σ) (t : Int) (b : Bytes) (h : rxChain b = .ok none) :
    s.step S c (.recv t b) = s := by
  rw [Sys.step, h]

theorem todo_drop_of_other {σ : Type} (c : SrvCfg) (db : IPDB σ) (rx : Rx)
    (ht : (decodeOptions rx.msg.options).messageType ≠ 1 ∧ (decodeOptions rx.msg.options).messageType ≠ 3) :
    todo c db rx = .drop := by
  unfold todo
  refine opq (IPDB.inManagedRange (σ := σ)) ?_; intro imr
  dsimp only
  split
  · rfl
  · split
    · rfl
    · rw [if_neg ht.1, if_neg ht.2]

theorem unhandled_is_noop (c : SrvCfg) (s : Sys Table) (t : Int) (b : Bytes) (rx : Rx) (h : rxChain b = .ok (some rx))
    (ht : (decodeOptions rx.msg.options).messageType ≠ 1 ∧ (decodeOptions rx.msg.options).messageType ≠ 3) :
    (s.step tableStore c (.recv t b)).db = s.db ∧ (s.step tableStore c (.recv t b)).sent = s.sent ∧
    (s.step tableStore c (.recv t b)).pend = s.pend := by
  have hd := todo_drop_of_other c (getDuid tableStore s.db t rx.msg.chaddr (decodeOptions rx.msg.options).clientIdentifier).1 rx ht
  have hg := getDuid_table_fst s.db t rx.msg.chaddr (decodeOptions rx.msg.options).clientIdentifier
  rw [Sys.step, h]
  dsimp only
  rw [hd]
  exact ⟨hg, rfl, rfl⟩

theorem junk_interleaving {σ : Type} (S : Store σ) (c : SrvCfg) (s : Sys σ) (evs : List Ev) :
    Sys.run S c s evs =
      Sys.run S c s (evs.filter fun e => match e with
        | .recv _ b => (match rxChain b with | .ok none => false | _ => true)
        | _ => true) := by
  induction evs generalizing s with
  | nil => rfl
  | cons e rest ih =>
    cases e with
    | recv t b =>
      by_cases h : rxChain b = .ok none
      · rw [List.filter_cons_of_neg (by simp only [h]; exact Bool.false_ne_true), Sys.run, junk_is_noop S c s t b h]
        exact ih s
      · rw [List.filter_cons_of_pos (by
          dsimp only
          split
          · rename_i h'; exact absurd h' h
          · rfl), Sys.run, Sys.run]
        exact ih _
    | find i t perm orc tEnd => rw [List.filter_cons_of_pos rfl, Sys.run, Sys.run]; exact ih _
    | hold i t => rw [List.filter_cons_of_pos rfl, Sys.run, Sys.run]; exact ih _
    | look i t p => rw [List.filter_cons_of_pos rfl, Sys.run, Sys.run]; exact ih _
    | lease i t => rw [List.filter_cons_of_pos rfl, Sys.run, Sys.run]; exact ih _

end PsaDhcp.Proofs.Decision
