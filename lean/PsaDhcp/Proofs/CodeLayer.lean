import PsaDhcp.Code.Bridge
import PsaDhcp.Proofs.Wire
import PsaDhcp.Proofs.CodeLayerAux
/-
lib/layer: the code translated from the Go source equals the hand-written model (Model/Wire.lean)
on every input — in particular it never panics and never runs out of loop fuel.
-/
namespace PsaDhcp.Proofs.CodeLayer
open PsaDhcp PsaDhcp.Go PsaDhcp.Code PsaDhcp.Proofs.CodeLayerAux

/-- The four writes of `(UDP).Assemble()` into the zeroed buffer. -/
theorem udp_layout (s d l data : Bytes) (hs : s.length = 2) (hd : d.length = 2) (hl : l.length = 2) :
    overlay (Go.overwrite (Go.overwrite (Go.overwrite (List.replicate (8 + data.length) 0) 0 s) 2 d) 4 l) 8 data
      = s ++ d ++ l ++ [0, 0] ++ data := by
  have h0 : List.replicate (8 + data.length) (0 : UInt8)
      = [] ++ ([0, 0] ++ ([0, 0] ++ ([0, 0] ++ ([0, 0] ++ List.replicate data.length 0)))) := by
    rw [Nat.add_comm]; rfl
  rw [h0, overwrite_at [] _ s 0 rfl, hs]
  simp only [List.nil_append, List.drop_append_of_le_length, List.length_cons, List.length_nil, Nat.le_refl, List.drop]
  rw [overwrite_at s _ d 2 hs.symm, hd]
  simp only [List.nil_append, List.drop_append_of_le_length, List.length_cons, List.length_nil, Nat.le_refl, List.drop]
  rw [← List.append_assoc, overwrite_at (s ++ d) _ l 4 (by simp [hs, hd]), hl]
  simp only [List.nil_append, List.drop_append_of_le_length, List.length_cons, List.length_nil, Nat.le_refl, List.drop]
  rw [← List.append_assoc, ← List.append_assoc,
    overlay_at (s ++ d ++ l ++ [0, 0]) _ data 8 (by simp [hs, hd, hl]) (by simp)]

/-- The fixed ARP header: two `PutUint32` and the opcode byte. -/
theorem arp_header (op : UInt8) :
    (Go.overwrite (Go.overwrite (List.replicate 28 0) 0 (Go.u32Bytes 67584)) 4 (Go.u32Bytes 100925440)).set 7 op
      = Wire.arpBase op := by
  have : Go.overwrite (Go.overwrite (List.replicate 28 0) 0 (Go.u32Bytes 67584)) 4 (Go.u32Bytes 100925440)
      = [0, 1, 8, 0, 6, 4, 0, 0] ++ List.replicate 20 0 := by decide
  rw [this]; rfl

/-- `(UDP).Assemble()` -/
theorem UDP_Assemble_eq (u : Gen.layer.UDP) :
    Gen.layer.UDP_Assemble u = .ok (UDP.assemble (udpOf u)) := by
  have hl0 : (List.replicate (8 + u.Data.length) (0 : UInt8)).length = 8 + u.Data.length := List.length_replicate
  unfold Gen.layer.UDP_Assemble
  simp only [bind, Except.bind, pure, Except.pure]
  rw [makeList_ok 0 _ (8 + u.Data.length) _ (by simp)]
  simp only []
  rw [putU16_from _ (0 : Int) 0 _ _ rfl (by omega)]
  simp only []
  have hl1 := overwrite_length (List.replicate (8 + u.Data.length) (0 : UInt8)) 0 (put16 u.SrcPort.toNat)
    (by rw [hl0, Wire.put16_length]; omega)
  rw [putU16_from _ (2 : Int) 2 _ _ rfl (by rw [hl1, hl0]; omega)]
  simp only []
  have hl2 := overwrite_length _ 2 (put16 u.DstPort.toNat) (by rw [hl1, hl0, Wire.put16_length]; omega)
  rw [putU16_from _ (4 : Int) 4 _ _ rfl (by rw [hl2, hl1, hl0]; omega)]
  simp only []
  have hl3 := overwrite_length _ 4 (put16 (Go.u16OfInt (8 + Int.ofNat u.Data.length)).toNat)
    (by rw [hl2, hl1, hl0, Wire.put16_length]; omega)
  rw [copyAt_from _ (8 : Int) 8 _ _ rfl (by rw [hl3, hl2, hl1, hl0]; omega)]
  simp only []
  have e : (8 : Int) + Int.ofNat u.Data.length = ((8 + u.Data.length : Nat) : Int) := by simp
  rw [e, put16_u16OfInt, udp_layout _ _ _ _ (Wire.put16_length _) (Wire.put16_length _) (Wire.put16_length _)]
  rfl

/-- `DecodeUDP(b)` -/
theorem DecodeUDP_eq (b : Bytes) :
    Gen.layer.DecodeUDP b = liftDec udpToGen (decodeUDP b) := by
  unfold Gen.layer.DecodeUDP
  by_cases h : b.length < 8
  · rw [Wire.decodeUDP_short b h]
    have : (Int.ofNat b.length < 8) := by simp only [Int.ofNat_eq_natCast]; omega
    simp only [this, decide_true, if_true]
    rfl
  · have h8 : 8 ≤ b.length := by omega
    rw [Wire.decodeUDP_eq b h8]
    have : ¬ (Int.ofNat b.length < 8) := by simp only [Int.ofNat_eq_natCast]; omega
    simp only [this, decide_false, Bool.false_eq_true, if_false, pure, Except.pure]
    rw [sliceFrom_ok b (4 : Int) 4 _ rfl (by omega), sliceFrom_ok b (0 : Int) 0 _ rfl (by omega),
      sliceFrom_ok b (2 : Int) 2 _ rfl (by omega), sliceFrom_ok b (8 : Int) 8 _ rfl (by omega)]
    simp only [bind, Except.bind, List.drop_zero]
    rw [beU16_ok (b.drop 4) _ (by rw [List.length_drop]; omega), beU16_ok b _ (by omega),
      beU16_ok (b.drop 2) _ (by rw [List.length_drop]; omega)]
    simp only [toNat_ofNat_be16]
    by_cases hc : be16 (b.drop 4) = b.length
    · simp [hc, liftDec, udpToGen]
    · have : ((be16 (b.drop 4) : Nat) : Int) ≠ (b.length : Int) := by omega
      simp [hc, this, liftDec]

/-- `(ARP).Assemble()` -/
theorem ARP_Assemble_eq (a : Gen.layer.ARP) :
    Gen.layer.ARP_Assemble a = .ok (ARP.assemble (arpOf a)) := by
  unfold Gen.layer.ARP_Assemble
  simp only [bind, Except.bind, pure, Except.pure]
  rw [makeList_ok 0 (28 : Int) 28 _ rfl]
  simp only []
  have hl0 : (List.replicate 28 (0 : UInt8)).length = 28 := rfl
  rw [putU32_from _ (0 : Int) 0 _ _ rfl (by rw [hl0]; omega)]
  simp only []
  have hl1 := overwrite_length (List.replicate 28 (0 : UInt8)) 0 (Go.u32Bytes 67584) (by rw [hl0, u32Bytes_length]; omega)
  rw [putU32_from _ (4 : Int) 4 _ _ rfl (by rw [hl1, hl0]; omega)]
  simp only []
  have hl2 := overwrite_length _ 4 (Go.u32Bytes 100925440) (by rw [hl1, hl0, u32Bytes_length]; omega)
  rw [setIdx_ok _ (7 : Int) 7 _ _ rfl (by rw [hl2, hl1, hl0]; omega)]
  simp only [arp_header]
  clear hl0 hl1 hl2
  have hb0 : (Wire.arpBase a.Opcode).length = 28 := rfl
  rw [copyAt_from _ (8 : Int) 8 _ _ rfl (by rw [hb0]; omega)]
  simp only []
  have L : ∀ (b : Bytes) (off : Nat) (src : Bytes), b.length = 28 → off ≤ 28 → (overlay b off src).length = 28 :=
    fun b off src hb ho => by rw [Wire.overlay_length b off src (by omega), hb]
  have hb1 := L _ 8 a.SenderMAC hb0 (by omega)
  have hm : (arpOf a).assemble
      = (fun b => match ipOf a.TargetIP with | some i => overlay b 24 i.bytes | none => b)
          (overlay ((fun b => match ipOf a.SenderIP with | some i => overlay b 14 i.bytes | none => b)
            (overlay (Wire.arpBase a.Opcode) 8 a.SenderMAC)) 18 a.TargetMAC) := rfl
  rw [hm]
  rcases to4_cases a.SenderIP with ⟨hs, hs'⟩ | ⟨si, hs, hs'⟩ <;>
  rcases to4_cases a.TargetIP with ⟨ht, ht'⟩ | ⟨ti, ht, ht'⟩
  all_goals
    rw [hs, hs', ht, ht']
    simp only [List.isEmpty_nil, Ip4.bytes, List.isEmpty_cons, Bool.not_true, Bool.not_false, if_true, if_false,
      Bool.false_eq_true]
  · rw [copyAt_from _ (18 : Int) 18 _ _ rfl (by rw [hb1]; omega)]
  · rw [copyAt_from _ (18 : Int) 18 _ _ rfl (by rw [hb1]; omega)]
    simp only []
    rw [copyAt_from _ (24 : Int) 24 _ _ rfl (by rw [L _ 18 _ hb1 (by omega)]; omega)]
  · rw [copyAt_from _ (14 : Int) 14 _ _ rfl (by rw [hb1]; omega)]
    simp only []
    rw [copyAt_from _ (18 : Int) 18 _ _ rfl (by rw [L _ 14 _ hb1 (by omega)]; omega)]
  · rw [copyAt_from _ (14 : Int) 14 _ _ rfl (by rw [hb1]; omega)]
    simp only []
    have hb2 := L _ 14 [si.a, si.b, si.c, si.d] hb1 (by omega)
    rw [copyAt_from _ (18 : Int) 18 _ _ rfl (by rw [hb2]; omega)]
    simp only []
    rw [copyAt_from _ (24 : Int) 24 _ _ rfl (by rw [L _ 18 _ hb2 (by omega)]; omega)]

/-- `DecodeARP(b)` -/
theorem DecodeARP_eq (b : Bytes) :
    Gen.layer.DecodeARP b = liftDec arpToGen (decodeARP b) := by
  unfold Gen.layer.DecodeARP
  by_cases h : b.length = 28
  · rw [Wire.decodeARP_eq b h]
    have : ¬ ((b.length : Nat) : Int) ≠ 28 := by omega
    rw [idx_ok b (7 : Int) 7 _ rfl (by omega), idx_ok b (14 : Int) 14 _ rfl (by omega),
      idx_ok b (15 : Int) 15 _ rfl (by omega), idx_ok b (16 : Int) 16 _ rfl (by omega),
      idx_ok b (17 : Int) 17 _ rfl (by omega), idx_ok b (24 : Int) 24 _ rfl (by omega),
      idx_ok b (25 : Int) 25 _ rfl (by omega), idx_ok b (26 : Int) 26 _ rfl (by omega),
      idx_ok b (27 : Int) 27 _ rfl (by omega),
      slice_ok b (8 : Int) (14 : Int) 8 14 _ rfl rfl (by omega) (by omega),
      slice_ok b (18 : Int) (24 : Int) 18 24 _ rfl rfl (by omega) (by omega)]
    simp [this, liftDec, arpToGen, optIpToGen, ipToGen, bind, Except.bind, pure, Except.pure]
  · rw [Wire.decodeARP_short b h]
    have : ((b.length : Nat) : Int) ≠ 28 := by omega
    simp [this, liftDec, pure, Except.pure]

end PsaDhcp.Proofs.CodeLayer
