import PsaDhcp.Model.Observed
import PsaDhcp.Proofs.Ipdb
/-
Bridge lemmas for C11: an observation accepted by `findLoopObs`/`findObs` is a run of the real
`IPDB.findLoop`/`IPDB.findIP` over the concrete store for some oracle (and candidate order).
-/
namespace PsaDhcp.Proofs.Observed
open PsaDhcp

/-- `findLoop` started at index `i` consults the oracle only at indices `≥ i`. -/
theorem findLoop_congr {σ : Type} (S : Store σ) (d : Nat) :
    ∀ (cands : List Nat) (orc₁ orc₂ : Nat → IPDB.Iter) (i : Nat) (s : σ),
      (∀ j, i ≤ j → orc₁ j = orc₂ j) →
      IPDB.findLoop S d cands orc₁ i s = IPDB.findLoop S d cands orc₂ i s
  | [], _, _, _, _, _ => by simp only [IPDB.findLoop]
  | v :: rest, orc₁, orc₂, i, s, h => by
    have ih := fun s' => findLoop_congr S d rest orc₁ orc₂ (i + 1) s' (fun j hj => h j (by omega))
    simp only [IPDB.findLoop, h i (Nat.le_refl _), ih]

/-- One step of `findLoop` on a candidate that is skipped or refused, with a non-cancelled oracle
entry. -/
theorem findLoop_cons {σ : Type} (S : Store σ) (d v : Nat) (rest : List Nat) (orc : Nat → IPDB.Iter)
    (i : Nat) (s : σ) (hc : (orc i).cancelled = false) :
    IPDB.findLoop S d (v :: rest) orc i s =
      if (S.lookup s (orc i).now ((d + v) % 4294967296) []).2.byIp.isNone
          && IPDB.validUip ((d + v) % 4294967296) && (orc i).free
      then ((S.lookup s (orc i).now ((d + v) % 4294967296) []).1, some ((d + v) % 4294967296))
      else IPDB.findLoop S d rest orc (i + 1) (S.lookup s (orc i).now ((d + v) % 4294967296) []).1 := by
  simp only [IPDB.findLoop, hc]
  simp

/-- Prepend an oracle entry at index `i` to an oracle for the indices `> i`. -/
def consOrc (i : Nat) (it : IPDB.Iter) (orc : Nat → IPDB.Iter) : Nat → IPDB.Iter :=
  fun j => if j = i then it else orc j

theorem consOrc_self (i : Nat) (it : IPDB.Iter) (orc : Nat → IPDB.Iter) : consOrc i it orc i = it := by
  simp [consOrc]

theorem consOrc_cancelled (i : Nat) (it : IPDB.Iter) (orc : Nat → IPDB.Iter) (hit : it.cancelled = false)
    (h : ∀ j, (orc j).cancelled = false) : ∀ j, (consOrc i it orc j).cancelled = false := by
  intro j
  unfold consOrc
  split
  · exact hit
  · exact h j

theorem findLoop_consOrc {σ : Type} (S : Store σ) (d : Nat) (rest : List Nat) (i : Nat) (it : IPDB.Iter)
    (orc : Nat → IPDB.Iter) (s : σ) :
    IPDB.findLoop S d rest (consOrc i it orc) (i + 1) s = IPDB.findLoop S d rest orc (i + 1) s := by
  apply findLoop_congr
  intro j hj
  have : j ≠ i := by omega
  simp [consOrc, this]

/-- A candidate that `findLoop` does not return (bound, invalid, or refused by the probe). -/
theorem step_continue (dynFrom v : Nat) (rest : List Nat) (s s' : Clients) (res : Option Nat) (i : Nat)
    (now : Int) (free : Bool)
    (hel : ¬ ((Clients.lookupRes s now ((dynFrom + v) % 4294967296) []).2.byIp.isNone
        && IPDB.validUip ((dynFrom + v) % 4294967296) && free) = true)
    (hrec : ∃ orc : Nat → IPDB.Iter, (∀ j, (orc j).cancelled = false) ∧
      IPDB.findLoop clientsStore dynFrom rest orc (i + 1)
        (Clients.lookupRes s now ((dynFrom + v) % 4294967296) []).1 = (s', res)) :
    ∃ orc : Nat → IPDB.Iter, (∀ j, (orc j).cancelled = false) ∧
      IPDB.findLoop clientsStore dynFrom (v :: rest) orc i s = (s', res) := by
  obtain ⟨orc, hc, hrun⟩ := hrec
  refine ⟨consOrc i ⟨false, now, free⟩ orc, consOrc_cancelled _ _ _ rfl hc, ?_⟩
  rw [findLoop_cons clientsStore dynFrom v rest _ i s (by rw [consOrc_self]), consOrc_self, findLoop_consOrc]
  show (if ((Clients.lookupRes s now ((dynFrom + v) % 4294967296) []).2.byIp.isNone
        && IPDB.validUip ((dynFrom + v) % 4294967296) && free) = true then _ else _) = _
  rw [if_neg hel]
  exact hrun

/-- A candidate that `findLoop` returns. -/
theorem step_return (dynFrom v : Nat) (rest : List Nat) (s : Clients) (i : Nat) (now : Int)
    (hel : ((Clients.lookupRes s now ((dynFrom + v) % 4294967296) []).2.byIp.isNone
        && IPDB.validUip ((dynFrom + v) % 4294967296)) = true) :
    ∃ orc : Nat → IPDB.Iter, (∀ j, (orc j).cancelled = false) ∧
      IPDB.findLoop clientsStore dynFrom (v :: rest) orc i s =
        ((Clients.lookupRes s now ((dynFrom + v) % 4294967296) []).1, some ((dynFrom + v) % 4294967296)) := by
  refine ⟨fun _ => ⟨false, now, true⟩, fun _ => rfl, ?_⟩
  rw [findLoop_cons clientsStore dynFrom v rest _ i s rfl]
  show (if ((Clients.lookupRes s now ((dynFrom + v) % 4294967296) []).2.byIp.isNone
        && IPDB.validUip ((dynFrom + v) % 4294967296) && true) = true then _ else _) = _
  rw [Bool.and_true, if_pos hel]
  rfl

theorem bool_ite_cases {α : Type} (c : Bool) (a b x : α) (h : (if c = true then a else b) = x) :
    (c = true ∧ a = x) ∨ (c = false ∧ b = x) := by
  cases c <;> simp_all

/-- The generalisation of `observed_search_is_a_run` to an arbitrary starting index. -/
theorem observed_search_from (dynFrom : Nat) (chaddr : Bytes) (t0 : Int) (s' : Clients) (res : Option Nat) (tl' : Int) :
    ∀ (cands : List Nat) (obs : List ObsProbe) (tl : Int) (s : Clients) (i : Nat),
      findLoopObs dynFrom chaddr false t0 cands obs tl s = .ok (s', res, [], tl') →
      ∃ orc : Nat → IPDB.Iter, (∀ j, (orc j).cancelled = false) ∧
        IPDB.findLoop clientsStore dynFrom cands orc i s = (s', res) := by
  intro cands
  induction cands with
  | nil =>
    intro obs tl s i h
    simp only [findLoopObs, Except.ok.injEq, Prod.mk.injEq] at h
    refine ⟨fun _ => ⟨false, 0, false⟩, fun _ => rfl, ?_⟩
    simp only [IPDB.findLoop, Prod.mk.injEq]
    exact ⟨h.1, h.2.1⟩
  | cons v rest ih =>
    intro obs tl s i h
    cases obs with
    | nil =>
      simp only [findLoopObs] at h
      split at h
      · -- eligible candidate but nothing observed: rejected
        simp only [Bool.false_eq_true, if_false] at h
        split at h <;> simp at h
      · -- skipped candidate
        rename_i hel
        exact step_continue dynFrom v rest s s' res i tl true (by simpa using hel) (ih [] tl _ (i + 1) h)
    | cons o obs' =>
      simp only [findLoopObs] at h
      split at h
      · -- eligible candidate: must be the next observed probe
        rename_i hel
        split at h
        · split at h <;> simp at h
        · rcases bool_ite_cases _ _ _ _ h with ⟨_, h⟩ | ⟨_, h⟩
          · -- observed free: the loop returns here
            simp only [Except.ok.injEq, Prod.mk.injEq] at h
            rw [← h.1, ← h.2.1]
            exact step_return dynFrom v rest s i o.ts hel
          · -- observed conflict: the loop continues
            exact step_continue dynFrom v rest s s' res i o.ts false (by simp) (ih obs' o.te _ (i + 1) h)
      · -- skipped candidate: consumes no observation
        rename_i hel
        exact step_continue dynFrom v rest s s' res i o.ts true (by simpa using hel) (ih (o :: obs') tl _ (i + 1) h)

theorem observed_search_is_a_run (dynFrom : Nat) (chaddr : Bytes) (t0 : Int) (cands : List Nat) (obs : List ObsProbe)
    (tl : Int) (s s' : Clients) (res : Option Nat) (tl' : Int)
    (h : findLoopObs dynFrom chaddr false t0 cands obs tl s = .ok (s', res, [], tl')) :
    ∃ orc : Nat → IPDB.Iter, (∀ i, (orc i).cancelled = false) ∧
      IPDB.findLoop clientsStore dynFrom cands orc 0 s = (s', res) :=
  observed_search_from dynFrom chaddr t0 s' res tl' cands obs tl s 0 h

theorem cand_eq (A : Bool) (P Q : Prop) [Decidable P] [Decidable Q] (x y : List Nat) :
    (if A = true ∧ P ∧ Q then x else y) = (if (A && decide P && decide Q) = true then x else y) := by
  by_cases hA : A = true <;> by_cases hP : P <;> by_cases hQ : Q <;> simp [hA, hP, hQ]

theorem clientsStore_lookup : clientsStore.lookup = Clients.lookupRes := rfl

theorem observed_find_is_findIP (db db' : IPDB Clients) (now : Int) (sugg : Option Ip4) (d : Duid) (chaddr : Bytes)
    (obs : List ObsProbe) (r : Except DbErr Nat) (tl : Int)
    (h : findObs db now sugg d chaddr obs false = .ok (db', r, tl)) :
    ∃ (perm : List Nat) (orc : Nat → IPDB.Iter), db.findIP clientsStore now sugg d perm orc = (db', r) := by
  simp only [findObs, ← clientsStore_lookup] at h
  simp only [IPDB.findIP]
  cases hu : db.toUip sugg <;> simp only [hu] at h ⊢ <;> (
    split at h
    · -- the client is already bound
      rename_i a ha
      refine ⟨[], fun _ => ⟨false, 0, false⟩, ?_⟩
      simp only [ha]
      split at h
      · simp only [Except.ok.injEq, Prod.mk.injEq] at h
        rw [← h.1, ← h.2.1]
      · simp at h
    · rename_i hnone
      simp only [hnone]
      split at h
      · -- search disabled
        rename_i hd
        refine ⟨[], fun _ => ⟨false, 0, false⟩, ?_⟩
        rw [if_pos hd]
        split at h
        · simp only [Except.ok.injEq, Prod.mk.injEq] at h
          rw [← h.1, ← h.2.1]
        · simp at h
      · -- the candidate search
        rename_i hd
        simp only [if_neg hd]
        split at h
        · simp at h
        · rename_i s res left tl2 hrun
          split at h
          · simp at h
          · rename_i hleft
            simp only [Decidable.not_not, List.isEmpty_iff] at hleft
            subst hleft
            simp only [Except.ok.injEq, Prod.mk.injEq] at h
            generalize synthPerm db.dynFrom db.dynTo obs _ = perm at hrun
            obtain ⟨orc, _, hr⟩ := observed_search_is_a_run _ _ _ _ _ _ _ _ _ _ hrun
            refine ⟨perm, orc, ?_⟩
            rw [cand_eq, hr, ← h.1, ← h.2.1]
            cases res <;> rfl)

end PsaDhcp.Proofs.Observed
