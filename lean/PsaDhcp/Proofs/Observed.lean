import PsaDhcp.Model.Observed
import PsaDhcp.Proofs.Ipdb
namespace PsaDhcp.Proofs.Observed
end PsaDhcp.Proofs.Observed
