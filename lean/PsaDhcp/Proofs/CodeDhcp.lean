import PsaDhcp.Code.Bridge
import PsaDhcp.Proofs.Dhcp
import PsaDhcp.Proofs.CodeDhcpAux
/-
lib/dhcpmsg: the code translated from the Go source equals the hand-written model
(Model/Dhcp.lean) on every input.
-/
namespace PsaDhcp.Proofs.CodeDhcp
open PsaDhcp PsaDhcp.Go PsaDhcp.Code

/-- `Decode(b)` -/
theorem Decode_eq (b : Bytes) :
    Gen.dhcpmsg.Decode b = liftDec msgToGen (decode b) := by
  open PsaDhcp.Proofs.Dhcp PsaDhcp.Proofs.CodeDhcpAux in
    by_cases h : 240 ≤ b.length
    · have hn : ¬ ((b.length : Int) < 240) := by omega
      obtain ⟨c', hloop⟩ := Decode_loop1_eq b b.length 240 0
        { Op := g b 0, Htype := g b 1, Hops := g b 3, Xid := UInt32.ofNat (be32 (b.drop 4)),
          Secs := UInt16.ofNat (be16 (b.drop 8)), Flags := UInt16.ofNat (be16 (b.drop 10)),
          ClientIP := netIPv4 (g b 12) (g b 13) (g b 14) (g b 15),
          YourIP := netIPv4 (g b 16) (g b 17) (g b 18) (g b 19),
          NextIP := netIPv4 (g b 20) (g b 21) (g b 22) (g b 23),
          RelayIP := netIPv4 (g b 24) (g b 25) (g b 26) (g b 27),
          ClientMAC := copyInto (g b 2).toNat (b.drop 28),
          ServerHostName := copyInto 64 (b.drop 44), BootFilename := copyInto 128 (b.drop 108),
          Cookie := UInt32.ofNat (be32 (b.drop 236)), Options := [] } h (by omega)
      have e240 : ((240 : Nat) : Int) = 240 := rfl
      rw [e240, Int.ofNat_eq_natCast] at hloop
      rw [decode_long h]
      unfold Gen.dhcpmsg.Decode
      simp (disch := omega) only [Int.ofNat_eq_natCast, hn, decide_false, Bool.false_eq_true, if_false,
        idx_int, sliceFrom_int, Int.reduceToNat, ok_bind]
      rw [beU32_eq (b.drop 4) _ (by simp only [List.length_drop]; omega),
        beU16_eq (b.drop 8) _ (by simp only [List.length_drop]; omega),
        beU16_eq (b.drop 10) _ (by simp only [List.length_drop]; omega),
        beU32_eq (b.drop 236) _ (by simp only [List.length_drop]; omega),
        makeList_int _ _ _ (by omega)]
      simp only [ok_bind, Int.toNat_natCast, Gen.dhcpmsg.Message.zero, copyAt_replicate, hloop]
      by_cases hw : (walkS b.length (b.drop 240) 0).1 = 255
      · simp only [hw, bne_self_eq_false, Bool.false_eq_true, if_false, if_true, liftDec, pure_ok]
        simp only [addOpts, msgToGen, fixedMsg, optIpToGen, ipToGen, List.nil_append]
      · have hw' : ((walkS b.length (b.drop 240) 0).1 != 255) = true := by simp [hw]
        simp only [hw, hw', if_true, if_false, liftDec, pure_ok]
    · have hn : ((b.length : Int) < 240) := by omega
      rw [decode_short (by omega)]
      unfold Gen.dhcpmsg.Decode
      simp only [Int.ofNat_eq_natCast, hn, decide_true, if_true, liftDec]
      rfl

/-- `(Message).Assemble()`; the two hypotheses are the Go array types `[64]byte`, `[128]byte`. -/
theorem Message_Assemble_eq (m : Gen.dhcpmsg.Message)
    (h1 : m.ServerHostName.length = 64) (h2 : m.BootFilename.length = 128) :
    Gen.dhcpmsg.Message_Assemble m = .ok (Msg.assemble (msgOf m)) := by
  open PsaDhcp.Proofs.Dhcp PsaDhcp.Proofs.CodeDhcpAux in
    have hnil : List.replicate 240 (0 : UInt8) = [] ++ List.replicate 240 0 := rfl
    unfold Gen.dhcpmsg.Message_Assemble
    simp (disch := fill_disch) only [Int.ofNat_eq_natCast, makeList_int, Int.reduceToNat, ok_bind]
    rw [hnil]
    simp (disch := fill_disch) only [↓setIdx_fill_bind, ↓slice_fill_bind, ↓setU32Int_fill_bind, ↓setU16Int_fill_bind,
      ↓setIPv4_fill_bind, ↓copyAt_fill_bind (w := 16), ↓copyAt_fill_end_bind, writeBack_fill, Nat.reduceSub,
      h1, h2, Assemble_loop1_eq, ok_bind]
    simp only [u8OfInt_cast, Msg.assemble, Msg.header, msgOf, copyInto_self h1, copyInto_self h2, List.replicate_zero,
      List.append_nil, List.nil_append, List.append_assoc, List.cons_append, pure_ok]
    by_cases hopts : m.Options = []
    · simp only [hopts, List.length_nil, List.map_nil, List.isEmpty_nil, if_true]
      rfl
    · have hl : m.Options.length ≠ 0 := fun h => hopts (List.eq_nil_of_length_eq_zero h)
      have hgt : ((m.Options.length : Int) > 0) := by omega
      have hemp : (List.map optOf m.Options).isEmpty = false := by
        cases hm : m.Options with
        | nil => exact absurd hm hopts
        | cons _ _ => rfl
      simp only [hgt, decide_true, if_true, hemp, Bool.false_eq_true, if_false]

end PsaDhcp.Proofs.CodeDhcp
