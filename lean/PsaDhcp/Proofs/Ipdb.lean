import PsaDhcp.Model.Clients
import PsaDhcp.Model.Ipdb
import PsaDhcp.Spec.Table
/-
Proofs for C11 (`Props/C11.lean`): the reference table keeps bindings exclusive; the concrete
`Clients` store (two map keys per record, lazy deletion) is simulated by the table; the `ipdb.go`
program text gives equal results over any two stores related by such a simulation; and the
behaviour of `UpdateClient` / `FindIP` on the table.
-/

namespace PsaDhcp.Proofs.Ipdb
open PsaDhcp PsaDhcp.Spec


/-! ## Reference table: basic facts -/

theorem live_anti {b : Binding} {t t' : Int} (h : b.live t' = true) (htt : t ≤ t') : b.live t = true := by
  simp only [Binding.live, Bool.or_eq_true, decide_eq_true_eq] at *
  rcases h with h | h
  · exact Or.inl h
  · exact Or.inr (by omega)

theorem liveIp_some {T : Table} {t : Int} {a : Nat} {b : Binding} (h : T.liveIp t a = some b) :
    b ∈ T ∧ b.ip = a ∧ b.live t = true := by
  unfold Table.liveIp at h
  have h1 := List.mem_of_find?_eq_some h
  have h2 := List.find?_some h
  simp only [Bool.and_eq_true, decide_eq_true_eq] at h2
  exact ⟨h1, h2.1, h2.2⟩

theorem liveDuid_some {T : Table} {t : Int} {d : Duid} {b : Binding} (h : T.liveDuid t d = some b) :
    b ∈ T ∧ b.duid = d ∧ b.live t = true := by
  unfold Table.liveDuid at h
  have h1 := List.mem_of_find?_eq_some h
  have h2 := List.find?_some h
  simp only [Bool.and_eq_true, decide_eq_true_eq] at h2
  exact ⟨h1, h2.1, h2.2⟩

theorem liveIp_none {T : Table} {t : Int} {a : Nat} (h : T.liveIp t a = none) :
    ∀ b ∈ T, b.live t = true → b.ip ≠ a := by
  unfold Table.liveIp at h
  rw [List.find?_eq_none] at h
  intro b hb hl hip
  exact h b hb (by simp [hip, hl])

theorem liveDuid_none {T : Table} {t : Int} {d : Duid} (h : T.liveDuid t d = none) :
    ∀ b ∈ T, b.live t = true → b.duid ≠ d := by
  unfold Table.liveDuid at h
  rw [List.find?_eq_none] at h
  intro b hb hl hip
  exact h b hb (by simp [hip, hl])

theorem liveIp_none_of {T : Table} {t : Int} {a : Nat} (h : ∀ b ∈ T, b.live t = true → b.ip ≠ a) :
    T.liveIp t a = none := by
  unfold Table.liveIp
  rw [List.find?_eq_none]
  intro b hb hc
  simp only [Bool.and_eq_true, decide_eq_true_eq] at hc
  exact h b hb hc.2 hc.1

theorem liveDuid_none_of {T : Table} {t : Int} {d : Duid} (h : ∀ b ∈ T, b.live t = true → b.duid ≠ d) :
    T.liveDuid t d = none := by
  unfold Table.liveDuid
  rw [List.find?_eq_none]
  intro b hb hc
  simp only [Bool.and_eq_true, decide_eq_true_eq] at hc
  exact h b hb hc.2 hc.1

theorem liveIp_of_mem {T : Table} {t : Int} {b : Binding} (hx : T.Exclusive t) (hb : b ∈ T)
    (hl : b.live t = true) : T.liveIp t b.ip = some b := by
  cases h : T.liveIp t b.ip with
  | none => exact absurd rfl (liveIp_none h b hb hl)
  | some x =>
    obtain ⟨h1, h2, h3⟩ := liveIp_some h
    rw [hx x h1 b hb h3 hl (Or.inl h2)]

theorem liveDuid_of_mem {T : Table} {t : Int} {b : Binding} (hx : T.Exclusive t) (hb : b ∈ T)
    (hl : b.live t = true) : T.liveDuid t b.duid = some b := by
  cases h : T.liveDuid t b.duid with
  | none => exact absurd rfl (liveDuid_none h b hb hl)
  | some x =>
    obtain ⟨h1, h2, h3⟩ := liveDuid_some h
    rw [hx x h1 b hb h3 hl (Or.inr h2)]

theorem exclusive_mono {T : Table} {t t' : Int} (hx : T.Exclusive t) (htt : t ≤ t') : T.Exclusive t' := by
  intro b1 h1 b2 h2 l1 l2 h
  exact hx b1 h1 b2 h2 (live_anti l1 htt) (live_anti l2 htt) h

/-! ### `inject` on the table -/

theorem inject_ok_iff (T : Table) (t : Int) (a : Nat) (d : Duid) (exp : Int) (perm : Bool) :
    (T.inject t a d exp perm).2 = .ok ↔ (T.liveIp t a = none ∧ T.liveDuid t d = none) := by
  unfold Table.inject
  cases h1 : T.liveIp t a <;> cases h2 : T.liveDuid t d <;> simp

theorem inject_ok_eq {T : Table} {t : Int} {a : Nat} {d : Duid} {exp : Int} {perm : Bool}
    (h1 : T.liveIp t a = none) (h2 : T.liveDuid t d = none) :
    T.inject t a d exp perm = (⟨a, d, exp, perm⟩ :: T.filter (fun b => b.live t), .ok) := by
  unfold Table.inject
  simp [h1, h2]

theorem inject_fail_eq {T : Table} {t : Int} {a : Nat} {d : Duid} {exp : Int} {perm : Bool}
    (h : (T.inject t a d exp perm).2 ≠ .ok) : (T.inject t a d exp perm).1 = T := by
  unfold Table.inject at *
  cases h1 : T.liveIp t a <;> cases h2 : T.liveDuid t d <;> simp [h1, h2] at h ⊢

theorem inject_exclusive {T : Table} {t : Int} (a : Nat) (d : Duid) (exp : Int) (perm : Bool)
    (hx : T.Exclusive t) : (T.inject t a d exp perm).1.Exclusive t := by
  by_cases hok : (T.inject t a d exp perm).2 = .ok
  · obtain ⟨h1, h2⟩ := (inject_ok_iff T t a d exp perm).1 hok
    rw [inject_ok_eq h1 h2]
    intro b1 m1 b2 m2 l1 l2 h
    simp only [List.mem_cons, List.mem_filter] at m1 m2
    rcases m1 with rfl | ⟨m1, -⟩ <;> rcases m2 with rfl | ⟨m2, -⟩
    · rfl
    · rcases h with h | h
      · exact absurd h.symm (liveIp_none h1 b2 m2 l2)
      · exact absurd h.symm (liveDuid_none h2 b2 m2 l2)
    · rcases h with h | h
      · exact absurd h (liveIp_none h1 b1 m1 l1)
      · exact absurd h (liveDuid_none h2 b1 m1 l1)
    · exact hx b1 m1 b2 m2 l1 l2 h
  · rw [inject_fail_eq hok]; exact hx

/-! ### `setLease` on the table -/

/-- The update function of `Table.setLease`. -/
def upd (x : Binding) (exp : Int) : Binding → Binding := fun b => if b = x then { b with exp := exp } else b

theorem upd_ip (x : Binding) (exp : Int) (b : Binding) : (upd x exp b).ip = b.ip := by
  unfold upd; split <;> rfl
theorem upd_duid (x : Binding) (exp : Int) (b : Binding) : (upd x exp b).duid = b.duid := by
  unfold upd; split <;> rfl
theorem upd_perm (x : Binding) (exp : Int) (b : Binding) : (upd x exp b).perm = b.perm := by
  unfold upd; split <;> rfl
theorem upd_ne {x : Binding} {exp : Int} {b : Binding} (h : b ≠ x) : upd x exp b = b := by
  unfold upd; simp [h]
theorem upd_self (x : Binding) (exp : Int) : upd x exp x = { x with exp := exp } := by
  unfold upd; simp

theorem setLease_ok_inv {T : Table} {t : Int} {a : Nat} {d : Duid} {exp : Int}
    (h : (T.setLease t a d exp).2 = .ok) :
    ∃ x, T.liveIp t a = some x ∧ T.liveDuid t d = some x ∧
      T.setLease t a d exp = (T.map (upd x exp), .ok) := by
  unfold Table.setLease at *
  cases h1 : T.liveIp t a with
  | none => simp [h1] at h
  | some x =>
    cases h2 : T.liveDuid t d with
    | none => simp [h1, h2] at h
    | some y =>
      simp only [h1, h2] at h ⊢
      by_cases hxy : x = y
      · subst hxy; exact ⟨x, rfl, rfl, by simp [upd]⟩
      · simp [hxy] at h

theorem setLease_fail_eq {T : Table} {t : Int} {a : Nat} {d : Duid} {exp : Int}
    (h : (T.setLease t a d exp).2 ≠ .ok) : (T.setLease t a d exp).1 = T := by
  unfold Table.setLease at *
  cases h1 : T.liveIp t a with
  | none => simp
  | some x =>
    cases h2 : T.liveDuid t d with
    | none => simp
    | some y =>
      simp only [h1, h2] at h ⊢
      by_cases hxy : x = y
      · simp [hxy] at h
      · simp [hxy]

theorem setLease_ok_of {T : Table} {t : Int} {a : Nat} {d : Duid} {exp : Int} {x : Binding}
    (h1 : T.liveIp t a = some x) (h2 : T.liveDuid t d = some x) :
    T.setLease t a d exp = (T.map (upd x exp), .ok) := by
  unfold Table.setLease
  simp [h1, h2, upd]

theorem setLease_ok_iff (T : Table) (t : Int) (a : Nat) (d : Duid) (exp : Int) (hx : T.Exclusive t) :
    (T.setLease t a d exp).2 = .ok ↔ ∃ b ∈ T, b.live t = true ∧ b.ip = a ∧ b.duid = d := by
  constructor
  · intro h
    obtain ⟨x, h1, h2, -⟩ := setLease_ok_inv h
    obtain ⟨m, hip, hl⟩ := liveIp_some h1
    obtain ⟨-, hd, -⟩ := liveDuid_some h2
    exact ⟨x, m, hl, hip, hd⟩
  · rintro ⟨b, hb, hl, rfl, rfl⟩
    rw [setLease_ok_of (liveIp_of_mem hx hb hl) (liveDuid_of_mem hx hb hl)]

theorem setLease_exclusive {T : Table} {t : Int} (a : Nat) (d : Duid) (exp : Int)
    (hx : T.Exclusive t) : (T.setLease t a d exp).1.Exclusive t := by
  by_cases hok : (T.setLease t a d exp).2 = .ok
  · obtain ⟨x, h1, h2, he⟩ := setLease_ok_inv hok
    obtain ⟨mx, -, lx⟩ := liveIp_some h1
    rw [he]
    intro b1' m1 b2' m2 l1 l2 h
    simp only [List.mem_map] at m1 m2
    obtain ⟨b1, m1, rfl⟩ := m1
    obtain ⟨b2, m2, rfl⟩ := m2
    rw [upd_ip, upd_ip, upd_duid, upd_duid] at h
    by_cases e1 : b1 = x <;> by_cases e2 : b2 = x
    · rw [e1, e2]
    · rw [upd_ne e2] at l2
      exact absurd (hx b2 m2 x mx l2 lx (by rw [← e1]; exact h.imp Eq.symm Eq.symm)) e2
    · rw [upd_ne e1] at l1
      exact absurd (hx b1 m1 x mx l1 lx (by rw [← e2]; exact h)) e1
    · rw [upd_ne e1] at l1 ⊢
      rw [upd_ne e2] at l2 ⊢
      exact hx b1 m1 b2 m2 l1 l2 h
  · rw [setLease_fail_eq hok]; exact hx

theorem step_exclusive {T : Table} {t : Int} (op : COp) (hx : T.Exclusive t) :
    (T.step t op).1.Exclusive t := by
  cases op with
  | lookup a d => exact hx
  | inject a d exp => exact inject_exclusive a d exp false hx
  | injectPermanent a d => exact inject_exclusive a d 0 true hx
  | setLease a d exp => exact setLease_exclusive a d exp hx
  | expire a d => exact setLease_exclusive a d 0 hx


theorem mono_tail {t : Int} {op : COp} {rest : List (Int × COp)} (hm : Monotone ((t, op) :: rest)) :
    (∀ x ∈ rest.head?, t ≤ x.1) ∧ Monotone rest := by
  cases rest with
  | nil => exact ⟨by simp, trivial⟩
  | cons y r =>
    obtain ⟨t2, o2⟩ := y
    simp only [Monotone] at hm
    exact ⟨by simp [hm.1], hm.2⟩

theorem states_exclusive (ops : List (Int × COp)) :
    ∀ (T : Table) (t0 : Int), T.Exclusive t0 → (∀ x ∈ ops.head?, t0 ≤ x.1) → Monotone ops →
      ∀ tT ∈ Table.states T ops, Table.Exclusive tT.2 tT.1 := by
  induction ops with
  | nil => intro T t0 _ _ _ tT h; simp [Table.states] at h
  | cons x rest ih =>
    obtain ⟨t, op⟩ := x
    intro T t0 hx h0 hm tT h
    have htt : t0 ≤ t := h0 (t, op) (by simp)
    have hx' : (T.step t op).1.Exclusive t := step_exclusive op (exclusive_mono hx htt)
    obtain ⟨hh, hm'⟩ := mono_tail hm
    simp only [Table.states, List.mem_cons] at h
    rcases h with rfl | h
    · exact hx'
    · exact ih _ t hx' hh hm' tT h

theorem table_exclusive (ops : List (Int × COp)) (hm : Monotone ops) :
    ∀ tT ∈ Table.states [] ops, Table.Exclusive tT.2 tT.1 := by
  cases ops with
  | nil => intro tT h; simp [Table.states] at h
  | cons x rest =>
    refine states_exclusive (x :: rest) [] x.1 ?_ ?_ hm
    · intro b1 h1; simp at h1
    · simp

theorem others_untouched (T : Table) (t : Int) (op : COp) (b : Binding) (hb : b ∈ T) (hl : b.live t = true)
    (hop : match op with
      | .lookup _ _ => True
      | .inject a d _ | .injectPermanent a d | .setLease a d _ | .expire a d => b.ip ≠ a ∨ b.duid ≠ d) :
    b ∈ (T.step t op).1 := by
  have hinj : ∀ a d exp perm, b ∈ (T.inject t a d exp perm).1 := by
    intro a d exp perm
    by_cases hok : (T.inject t a d exp perm).2 = .ok
    · obtain ⟨h1, h2⟩ := (inject_ok_iff T t a d exp perm).1 hok
      rw [inject_ok_eq h1 h2]
      simp [hb, hl]
    · rw [inject_fail_eq hok]; exact hb
  have hset : ∀ a d exp, (b.ip ≠ a ∨ b.duid ≠ d) → b ∈ (T.setLease t a d exp).1 := by
    intro a d exp hne
    by_cases hok : (T.setLease t a d exp).2 = .ok
    · obtain ⟨x, h1, h2, he⟩ := setLease_ok_inv hok
      rw [he]
      have hbx : b ≠ x := by
        rintro rfl
        rcases hne with h | h
        · exact h (liveIp_some h1).2.1
        · exact h (liveDuid_some h2).2.1
      exact List.mem_map.2 ⟨b, hb, upd_ne hbx⟩
    · rw [setLease_fail_eq hok]; exact hb
  cases op with
  | lookup a d => exact hb
  | inject a d exp => exact hinj a d exp false
  | injectPermanent a d => exact hinj a d 0 true
  | setLease a d exp => exact hset a d exp hop
  | expire a d => exact hset a d 0 hop

theorem permanent_persists (T : Table) (t : Int) (op : COp) (b : Binding) (hb : b ∈ T) (hp : b.perm = true) :
    ∃ b' ∈ (T.step t op).1, b'.ip = b.ip ∧ b'.duid = b.duid ∧ b'.perm = true := by
  have hl : b.live t = true := by simp [Binding.live, hp]
  have hinj : ∀ a d exp perm, ∃ b' ∈ (T.inject t a d exp perm).1, b'.ip = b.ip ∧ b'.duid = b.duid ∧ b'.perm = true := by
    intro a d exp perm
    refine ⟨b, ?_, rfl, rfl, hp⟩
    by_cases hok : (T.inject t a d exp perm).2 = .ok
    · obtain ⟨h1, h2⟩ := (inject_ok_iff T t a d exp perm).1 hok
      rw [inject_ok_eq h1 h2]
      simp [hb, hl]
    · rw [inject_fail_eq hok]; exact hb
  have hset : ∀ a d exp, ∃ b' ∈ (T.setLease t a d exp).1, b'.ip = b.ip ∧ b'.duid = b.duid ∧ b'.perm = true := by
    intro a d exp
    by_cases hok : (T.setLease t a d exp).2 = .ok
    · obtain ⟨x, h1, h2, he⟩ := setLease_ok_inv hok
      rw [he]
      exact ⟨upd x exp b, List.mem_map.2 ⟨b, hb, rfl⟩, upd_ip _ _ _, upd_duid _ _ _, by rw [upd_perm]; exact hp⟩
    · rw [setLease_fail_eq hok]; exact ⟨b, hb, rfl, rfl, hp⟩
  cases op with
  | lookup a d => exact ⟨b, hb, rfl, rfl, hp⟩
  | inject a d exp => exact hinj a d exp false
  | injectPermanent a d => exact hinj a d 0 true
  | setLease a d exp => exact hset a d exp
  | expire a d => exact hset a d 0


/-! ## Simulation between the concrete store and the reference table -/

def toB (e : Entry) : Binding := ⟨e.ip, e.duid, e.exp, e.perm⟩

theorem toB_live (e : Entry) (t : Int) : (toB e).live t = Clients.Entry.live e t := rfl

theorem toB_inj {e e' : Entry} (h : toB e = toB e') : e = e' := by
  cases e; cases e'; simp only [toB, Binding.mk.injEq] at h
  obtain ⟨h1, h2, h3, h4⟩ := h
  subst h1 h2 h3 h4; rfl

structure R (c : Clients) (T : Table) (t : Int) : Prop where
  keyIp : ∀ a p, c.m (.ip a) = some p → ∃ e, c.ents[p]? = some e ∧ e.ip = a
  keyDuid : ∀ d p, c.m (.duid d) = some p → ∃ e, c.ents[p]? = some e ∧ e.duid = d
  fwd : ∀ k p e, c.m k = some p → c.ents[p]? = some e → Clients.Entry.live e t = true → toB e ∈ T
  rev : ∀ b ∈ T, b.live t = true →
    ∃ p e, c.ents[p]? = some e ∧ toB e = b ∧ c.m (.ip b.ip) = some p ∧ c.m (.duid b.duid) = some p
  excl : T.Exclusive t

theorem R.empty (t : Int) : R Clients.empty [] t where
  keyIp := by intro a p h; simp [Clients.empty] at h
  keyDuid := by intro a p h; simp [Clients.empty] at h
  fwd := by intro k p e h; simp [Clients.empty] at h
  rev := by intro b h; simp at h
  excl := by intro b h; simp at h

theorem R.mono {c : Clients} {T : Table} {t t' : Int} (h : R c T t) (htt : t ≤ t') : R c T t' where
  keyIp := h.keyIp
  keyDuid := h.keyDuid
  fwd := by
    intro k p e hk he hl
    exact h.fwd k p e hk he (by rw [← toB_live] at hl ⊢; exact live_anti hl htt)
  rev := by
    intro b hb hl
    exact h.rev b hb (live_anti hl htt)
  excl := exclusive_mono h.excl htt

/-- Every mapped key designates an existing record carrying that key. -/
theorem R.keyOk {c : Clients} {T : Table} {t : Int} (h : R c T t) {k : Key} {p : Nat} (hk : c.m k = some p) :
    ∃ e, c.ents[p]? = some e ∧ (k = .ip e.ip ∨ k = .duid e.duid) := by
  cases k with
  | ip a => obtain ⟨e, he, rfl⟩ := h.keyIp a p hk; exact ⟨e, he, Or.inl rfl⟩
  | duid d => obtain ⟨e, he, rfl⟩ := h.keyDuid d p hk; exact ⟨e, he, Or.inr rfl⟩

/-- A live record reachable through some key is reachable through both of its keys. -/
theorem R.both {c : Clients} {T : Table} {t : Int} (h : R c T t) {k : Key} {p : Nat} {e : Entry}
    (hk : c.m k = some p) (he : c.ents[p]? = some e) (hl : Clients.Entry.live e t = true) :
    c.m (.ip e.ip) = some p ∧ c.m (.duid e.duid) = some p := by
  have hT := h.fwd k p e hk he hl
  obtain ⟨p', e', he', hb, h1, h2⟩ := h.rev (toB e) hT (by rw [toB_live]; exact hl)
  have : p' = p := by
    obtain ⟨e2, he2, hk2⟩ := h.keyOk hk
    rw [he] at he2; cases he2
    rcases hk2 with rfl | rfl
    · simp only [toB] at h1; rw [hk] at h1; exact (Option.some.inj h1).symm
    · simp only [toB] at h2; rw [hk] at h2; exact (Option.some.inj h2).symm
  subst this
  exact ⟨h1, h2⟩

/-- Two live reachable records with the same content are the same record. -/
theorem R.uniq {c : Clients} {T : Table} {t : Int} (h : R c T t) {k k' : Key} {p p' : Nat} {e e' : Entry}
    (hk : c.m k = some p) (he : c.ents[p]? = some e) (hl : Clients.Entry.live e t = true)
    (hk' : c.m k' = some p') (he' : c.ents[p']? = some e') (hee : toB e = toB e') : p = p' := by
  have := toB_inj hee; subst this
  have h1 := (h.both hk he hl).1
  have h2 := (h.both hk' he' hl).1
  rw [h1] at h2; exact Option.some.inj h2

/-- The binding designated by an optional pointer. -/
def entB (c : Clients) (r : Option Nat) : Option Binding := r.bind fun p => (c.ents[p]?).map toB

theorem liveIp_of_key {c : Clients} {T : Table} {t : Int} (h : R c T t) {a p : Nat} {e : Entry}
    (hk : c.m (.ip a) = some p) (he : c.ents[p]? = some e) (hl : Clients.Entry.live e t = true) :
    T.liveIp t a = some (toB e) := by
  obtain ⟨e2, he2, hip⟩ := h.keyIp a p hk
  rw [he] at he2; cases he2
  have := liveIp_of_mem h.excl (h.fwd _ p e hk he hl) (by rw [toB_live]; exact hl)
  rw [← hip]; exact this

theorem liveDuid_of_key {c : Clients} {T : Table} {t : Int} (h : R c T t) {d : Duid} {p : Nat} {e : Entry}
    (hk : c.m (.duid d) = some p) (he : c.ents[p]? = some e) (hl : Clients.Entry.live e t = true) :
    T.liveDuid t d = some (toB e) := by
  obtain ⟨e2, he2, hip⟩ := h.keyDuid d p hk
  rw [he] at he2; cases he2
  have := liveDuid_of_mem h.excl (h.fwd _ p e hk he hl) (by rw [toB_live]; exact hl)
  rw [← hip]; exact this

theorem liveIp_none_of_key {c : Clients} {T : Table} {t : Int} (h : R c T t) {a : Nat}
    (hk : ∀ p e, c.m (.ip a) = some p → c.ents[p]? = some e → Clients.Entry.live e t = false) :
    T.liveIp t a = none := by
  apply liveIp_none_of
  intro b hb hl hip
  obtain ⟨p, e, he, hbe, h1, -⟩ := h.rev b hb hl
  rw [hip] at h1
  have := hk p e h1 he
  rw [← toB_live, hbe, hl] at this; cases this

theorem liveDuid_none_of_key {c : Clients} {T : Table} {t : Int} (h : R c T t) {d : Duid}
    (hk : ∀ p e, c.m (.duid d) = some p → c.ents[p]? = some e → Clients.Entry.live e t = false) :
    T.liveDuid t d = none := by
  apply liveDuid_none_of
  intro b hb hl hip
  obtain ⟨p, e, he, hbe, -, h1⟩ := h.rev b hb hl
  rw [hip] at h1
  have := hk p e h1 he
  rw [← toB_live, hbe, hl] at this; cases this

theorem del_some {m : Key → Option Nat} {k k' : Key} {p : Nat} (h : Clients.del m k k' = some p) :
    k' ≠ k ∧ m k' = some p := by
  unfold Clients.del at h
  by_cases hk : k' = k
  · simp [hk] at h
  · simp [hk] at h; exact ⟨hk, h⟩

theorem del_ne {m : Key → Option Nat} {k k' : Key} (h : k' ≠ k) : Clients.del m k k' = m k' := by
  unfold Clients.del; simp [h]

/-- Unlinking a key whose record is dead preserves the relation. -/
theorem R.del {c : Clients} {T : Table} {t : Int} (h : R c T t) {k : Key} {p : Nat} {e : Entry}
    (hk : c.m k = some p) (he : c.ents[p]? = some e) (hl : Clients.Entry.live e t = false) :
    R { c with m := Clients.del c.m k } T t where
  keyIp := by intro a q hq; exact h.keyIp a q (del_some hq).2
  keyDuid := by intro a q hq; exact h.keyDuid a q (del_some hq).2
  fwd := by intro k' q e' hq; exact h.fwd k' q e' (del_some hq).2
  rev := by
    intro b hb hbl
    obtain ⟨q, e', he', hbe, h1, h2⟩ := h.rev b hb hbl
    have hne : ∀ k', c.m k' = some q → k' ≠ k := by
      rintro k' hk' rfl
      rw [hk] at hk'; cases hk'
      rw [he] at he'; cases he'
      rw [← hbe, toB_live, hl] at hbl; cases hbl
    refine ⟨q, e', he', hbe, ?_, ?_⟩
    · show Clients.del c.m k _ = _
      rw [del_ne (hne _ h1)]; exact h1
    · show Clients.del c.m k _ = _
      rw [del_ne (hne _ h2)]; exact h2
  excl := h.excl

theorem look1_eq_none {c : Clients} {t : Int} {k : Key} (hk : c.m k = none) : c.look1 t k = (c, none) := by
  unfold Clients.look1; rw [hk]

theorem look1_eq_live {c : Clients} {t : Int} {k : Key} {p : Nat} {e : Entry} (hk : c.m k = some p)
    (he : c.ents[p]? = some e) (hl : Clients.Entry.live e t = true) : c.look1 t k = (c, some p) := by
  unfold Clients.look1; rw [hk]; simp only [he, hl, if_true]

theorem look1_eq_dead {c : Clients} {t : Int} {k : Key} {p : Nat} {e : Entry} (hk : c.m k = some p)
    (he : c.ents[p]? = some e) (hl : Clients.Entry.live e t = false) :
    c.look1 t k = ({ c with m := Clients.del c.m k }, none) := by
  unfold Clients.look1; rw [hk]; simp only [he, hl, Bool.false_eq_true, if_false]

/-- Specification of one `look1` under the relation. -/
theorem look1_R {c : Clients} {T : Table} {t : Int} (h : R c T t) (k : Key) :
    R (c.look1 t k).1 T t ∧ (c.look1 t k).1.ents = c.ents ∧
    (∀ k', k' ≠ k → (c.look1 t k).1.m k' = c.m k') ∧
    (match (c.look1 t k).2 with
     | some p => (c.look1 t k).1 = c ∧ c.m k = some p ∧ ∃ e, c.ents[p]? = some e ∧ Clients.Entry.live e t = true
     | none => ∀ p e, c.m k = some p → c.ents[p]? = some e → Clients.Entry.live e t = false) := by
  cases hk : c.m k with
  | none =>
    rw [look1_eq_none hk]
    exact ⟨h, rfl, fun _ _ => rfl, by intro p e hp; cases hp⟩
  | some p =>
    obtain ⟨e, he, -⟩ := h.keyOk hk
    cases hl : Clients.Entry.live e t with
    | true =>
      rw [look1_eq_live hk he hl]
      exact ⟨h, rfl, fun _ _ => rfl, rfl, rfl, e, he, hl⟩
    | false =>
      rw [look1_eq_dead hk he hl]
      refine ⟨h.del hk he hl, rfl, fun k' hk' => del_ne hk', ?_⟩
      intro q e' hq he'
      cases hq; rw [he] at he'; cases he'; exact hl

/-- Specification of `lookup` under the relation. -/
theorem lookup_R {c : Clients} {T : Table} {t : Int} (h : R c T t) (a : Nat) (d : Duid) :
    R (c.lookup t a d).1 T t ∧
    T.liveIp t a = entB (c.lookup t a d).1 (c.lookup t a d).2.1 ∧
    T.liveDuid t d = entB (c.lookup t a d).1 (c.lookup t a d).2.2 ∧
    (∀ p, (c.lookup t a d).2.1 = some p → (c.lookup t a d).1.m (.ip a) = some p) ∧
    (∀ p, (c.lookup t a d).2.2 = some p → (c.lookup t a d).1.m (.duid d) = some p) := by
  obtain ⟨hR1, hents1, hm1, hres1⟩ := look1_R h (.ip a)
  obtain ⟨hR2, hents2, hm2, hres2⟩ := look1_R hR1 (.duid d)
  have hip : T.liveIp t a = entB (c.look1 t (.ip a)).1 (c.look1 t (.ip a)).2 ∧
      (∀ p, (c.look1 t (.ip a)).2 = some p → (c.look1 t (.ip a)).1.m (.ip a) = some p) := by
    cases hr : (c.look1 t (.ip a)).2 with
    | none =>
      rw [hr] at hres1
      exact ⟨liveIp_none_of_key h hres1, by intro p hp; cases hp⟩
    | some p =>
      rw [hr] at hres1
      obtain ⟨hc, hk, e, he, hl⟩ := hres1
      rw [hc]
      refine ⟨?_, by intro q hq; cases hq; exact hk⟩
      rw [liveIp_of_key h hk he hl]
      simp [entB, he]
  have hdu : T.liveDuid t d = entB ((c.look1 t (.ip a)).1.look1 t (.duid d)).1 ((c.look1 t (.ip a)).1.look1 t (.duid d)).2 ∧
      (∀ p, ((c.look1 t (.ip a)).1.look1 t (.duid d)).2 = some p →
        ((c.look1 t (.ip a)).1.look1 t (.duid d)).1.m (.duid d) = some p) := by
    cases hr : ((c.look1 t (.ip a)).1.look1 t (.duid d)).2 with
    | none =>
      rw [hr] at hres2
      exact ⟨liveDuid_none_of_key hR1 hres2, by intro p hp; cases hp⟩
    | some p =>
      rw [hr] at hres2
      obtain ⟨hc, hk, e, he, hl⟩ := hres2
      rw [hc]
      refine ⟨?_, by intro q hq; cases hq; exact hk⟩
      rw [liveDuid_of_key hR1 hk he hl]
      simp [entB, he]
  refine ⟨hR2, ?_, hdu.1, ?_, hdu.2⟩
  · show T.liveIp t a = entB ((c.look1 t (.ip a)).1.look1 t (.duid d)).1 (c.look1 t (.ip a)).2
    rw [hip.1]
    simp only [entB, hents2]
  · intro p hp
    show ((c.look1 t (.ip a)).1.look1 t (.duid d)).1.m (.ip a) = some p
    rw [hm2 _ (by simp)]
    exact hip.2 p hp


theorem entB_some {c : Clients} {T : Table} {t : Int} (h : R c T t) {k : Key} {p : Nat} (hk : c.m k = some p) :
    ∃ e, c.ents[p]? = some e ∧ entB c (some p) = some (toB e) := by
  obtain ⟨e, he, -⟩ := h.keyOk hk
  exact ⟨e, he, by simp [entB, he]⟩

/-- The two map writes of `inject`. -/
def put2 (m : Key → Option Nat) (a : Nat) (d : Duid) (p : Nat) : Key → Option Nat :=
  Clients.put (Clients.put m (.ip a) p) (.duid d) p

theorem put2_cases {m : Key → Option Nat} {a : Nat} {d : Duid} {p q : Nat} {k : Key}
    (h : put2 m a d p k = some q) :
    (q = p ∧ (k = .ip a ∨ k = .duid d)) ∨ (k ≠ .ip a ∧ k ≠ .duid d ∧ m k = some q) := by
  unfold put2 Clients.put at h
  by_cases h1 : k = .duid d
  · simp [h1] at h; exact Or.inl ⟨h.symm, Or.inr h1⟩
  · by_cases h2 : k = .ip a
    · simp [h2] at h; exact Or.inl ⟨h.symm, Or.inl h2⟩
    · simp [h1, h2] at h; exact Or.inr ⟨h2, h1, h⟩

theorem put2_ip (m : Key → Option Nat) (a : Nat) (d : Duid) (p : Nat) :
    put2 m a d p (.ip a) = some p := by
  simp [put2, Clients.put]

theorem put2_duid (m : Key → Option Nat) (a : Nat) (d : Duid) (p : Nat) :
    put2 m a d p (.duid d) = some p := by
  simp [put2, Clients.put]

theorem put2_ne (m : Key → Option Nat) (a : Nat) (d : Duid) (p : Nat) {k : Key}
    (h1 : k ≠ .ip a) (h2 : k ≠ .duid d) :
    put2 m a d p k = m k := by
  simp [put2, Clients.put, h1, h2]

/-- Appending a fresh record under two unbound keys matches `Table.inject`. -/
theorem R.push {c : Clients} {T : Table} {t : Int} (h : R c T t) {a : Nat} {d : Duid} (exp : Int) (perm : Bool)
    (h1 : T.liveIp t a = none) (h2 : T.liveDuid t d = none) :
    R { ents := c.ents ++ [⟨a, d, exp, perm⟩],
        m := Clients.put (Clients.put c.m (.ip a) c.ents.length) (.duid d) c.ents.length }
      (⟨a, d, exp, perm⟩ :: T.filter (fun b => b.live t)) t where
  keyIp := by
    intro a' q hq
    have hq : put2 c.m a d c.ents.length (.ip a') = some q := hq
    rcases put2_cases hq with ⟨rfl, hk | hk⟩ | ⟨-, -, hk⟩
    · cases hk; exact ⟨_, List.getElem?_concat_length, rfl⟩
    · cases hk
    · obtain ⟨e, he, hip⟩ := h.keyIp a' q hk
      have hlt : q < c.ents.length := by
        obtain ⟨hlt, -⟩ := List.getElem?_eq_some_iff.1 he; exact hlt
      exact ⟨e, by show (c.ents ++ _)[q]? = _; rw [List.getElem?_append_left hlt]; exact he, hip⟩
  keyDuid := by
    intro d' q hq
    have hq : put2 c.m a d c.ents.length (.duid d') = some q := hq
    rcases put2_cases hq with ⟨rfl, hk | hk⟩ | ⟨-, -, hk⟩
    · cases hk
    · cases hk; exact ⟨_, List.getElem?_concat_length, rfl⟩
    · obtain ⟨e, he, hip⟩ := h.keyDuid d' q hk
      have hlt : q < c.ents.length := by
        obtain ⟨hlt, -⟩ := List.getElem?_eq_some_iff.1 he; exact hlt
      exact ⟨e, by show (c.ents ++ _)[q]? = _; rw [List.getElem?_append_left hlt]; exact he, hip⟩
  fwd := by
    intro k q e hq he hl
    have he : (c.ents ++ [(⟨a, d, exp, perm⟩ : Entry)])[q]? = some e := he
    have hq : put2 c.m a d c.ents.length k = some q := hq
    rcases put2_cases hq with ⟨rfl, -⟩ | ⟨-, -, hk⟩
    · rw [List.getElem?_concat_length] at he; cases he
      exact List.mem_cons_self
    · obtain ⟨e', he', -⟩ := h.keyOk hk
      have hlt : q < c.ents.length := by
        obtain ⟨hlt, -⟩ := List.getElem?_eq_some_iff.1 he'; exact hlt
      rw [List.getElem?_append_left hlt] at he
      have := h.fwd k q e hk he hl
      refine List.mem_cons_of_mem _ (List.mem_filter.2 ⟨this, ?_⟩)
      rw [toB_live]; exact hl
  rev := by
    intro b hb hl
    rcases List.mem_cons.1 hb with rfl | hb
    · exact ⟨c.ents.length, ⟨a, d, exp, perm⟩, List.getElem?_concat_length, rfl, put2_ip c.m a d c.ents.length, put2_duid c.m a d c.ents.length⟩
    · have hb := (List.mem_filter.1 hb).1
      obtain ⟨q, e, he, hbe, hk1, hk2⟩ := h.rev b hb hl
      have hlt : q < c.ents.length := by
        obtain ⟨hlt, -⟩ := List.getElem?_eq_some_iff.1 he; exact hlt
      have n1 : b.ip ≠ a := liveIp_none h1 b hb hl
      have n2 : b.duid ≠ d := liveDuid_none h2 b hb hl
      refine ⟨q, e, ?_, hbe, ?_, ?_⟩
      · show (c.ents ++ _)[q]? = _
        rw [List.getElem?_append_left hlt]; exact he
      · show put2 c.m a d c.ents.length (.ip b.ip) = some q
        rw [put2_ne _ _ _ _ (by simp [n1]) (by simp)]; exact hk1
      · show put2 c.m a d c.ents.length (.duid b.duid) = some q
        rw [put2_ne _ _ _ _ (by simp) (by simp [n2])]; exact hk2
  excl := by
    have := inject_exclusive a d exp perm h.excl
    rw [inject_ok_eq h1 h2] at this
    exact this

theorem inject_R {c : Clients} {T : Table} {t : Int} (h : R c T t) (a : Nat) (d : Duid) (exp : Int) (perm : Bool) :
    (c.inject t a d exp perm).2 = (T.inject t a d exp perm).2 ∧
    R (c.inject t a d exp perm).1 (T.inject t a d exp perm).1 t := by
  obtain ⟨hR, hip, hdu, hkip, hkdu⟩ := lookup_R h a d
  unfold Clients.inject
  generalize c.lookup t a d = r at hR hip hdu hkip hkdu ⊢
  obtain ⟨c', pi, pd⟩ := r
  simp only at hR hip hdu hkip hkdu
  cases pi with
  | some p =>
    obtain ⟨e, -, he⟩ := entB_some hR (hkip p rfl)
    rw [he] at hip
    have : T.inject t a d exp perm = (T, .ipExists) := by simp [Table.inject, hip]
    rw [this]; exact ⟨rfl, hR⟩
  | none =>
    have hip : T.liveIp t a = none := hip
    cases pd with
    | some q =>
      obtain ⟨e, -, he⟩ := entB_some hR (hkdu q rfl)
      rw [he] at hdu
      have : T.inject t a d exp perm = (T, .duidExists) := by simp [Table.inject, hip, hdu]
      rw [this]; exact ⟨rfl, hR⟩
    | none =>
      have hdu : T.liveDuid t d = none := hdu
      rw [inject_ok_eq hip hdu]
      exact ⟨rfl, hR.push exp perm hip hdu⟩

theorem getElem?_modify_eq {l : List Entry} {p : Nat} {e : Entry} (f : Entry → Entry) (he : l[p]? = some e) :
    (l.modify p f)[p]? = some (f e) := by
  rw [List.getElem?_modify, he]; simp

theorem getElem?_modify_ne {l : List Entry} {p q : Nat} (f : Entry → Entry) (hne : p ≠ q) :
    (l.modify p f)[q]? = l[q]? := by
  rw [List.getElem?_modify]
  cases l[q]? <;> simp [hne]

/-- Rewriting the expiry of a live record reachable through both keys matches `Table.setLease`. -/
theorem R.modify {c : Clients} {T : Table} {t : Int} (h : R c T t) {a : Nat} {p : Nat} {e : Entry}
    (exp : Int) (hk1 : c.m (.ip a) = some p) (he : c.ents[p]? = some e)
    (hl : Clients.Entry.live e t = true) :
    R { c with ents := c.ents.modify p (fun e => { e with exp := exp }) } (T.map (upd (toB e) exp)) t where
  keyIp := by
    intro a' q hq
    obtain ⟨e', he', hip⟩ := h.keyIp a' q hq
    by_cases hpq : p = q
    · subst hpq; rw [he] at he'; cases he'
      exact ⟨_, getElem?_modify_eq _ he, hip⟩
    · exact ⟨e', by show (c.ents.modify _ _)[q]? = _; rw [getElem?_modify_ne _ hpq]; exact he', hip⟩
  keyDuid := by
    intro a' q hq
    obtain ⟨e', he', hip⟩ := h.keyDuid a' q hq
    by_cases hpq : p = q
    · subst hpq; rw [he] at he'; cases he'
      exact ⟨_, getElem?_modify_eq _ he, hip⟩
    · exact ⟨e', by show (c.ents.modify _ _)[q]? = _; rw [getElem?_modify_ne _ hpq]; exact he', hip⟩
  fwd := by
    intro k q e' hq he' hl'
    have he' : (c.ents.modify p (fun e => { e with exp := exp }))[q]? = some e' := he'
    have hxT : toB e ∈ T := h.fwd _ p e hk1 he hl
    by_cases hpq : p = q
    · subst hpq
      rw [getElem?_modify_eq _ he] at he'; cases he'
      refine List.mem_map.2 ⟨toB e, hxT, ?_⟩
      rw [upd_self]; rfl
    · rw [getElem?_modify_ne _ hpq] at he'
      have hne : toB e' ≠ toB e := fun heq => hpq (h.uniq hk1 he hl hq he' heq.symm)
      exact List.mem_map.2 ⟨toB e', h.fwd k q e' hq he' hl', upd_ne hne⟩
  rev := by
    intro b' hb' hl'
    obtain ⟨b, hb, rfl⟩ := List.mem_map.1 hb'
    by_cases hbx : b = toB e
    · subst hbx
      obtain ⟨h1, h2⟩ := h.both hk1 he hl
      refine ⟨p, _, getElem?_modify_eq _ he, ?_, ?_, ?_⟩
      · rw [upd_self]; rfl
      · rw [upd_ip]; exact h1
      · rw [upd_duid]; exact h2
    · rw [upd_ne hbx] at hl' ⊢
      obtain ⟨q, e', he', hbe, h1, h2⟩ := h.rev b hb hl'
      have hpq : p ≠ q := by
        rintro rfl
        rw [he] at he'; cases he'; exact hbx hbe.symm
      exact ⟨q, e', by show (c.ents.modify _ _)[q]? = _; rw [getElem?_modify_ne _ hpq]; exact he', hbe, h1, h2⟩
  excl := by
    obtain ⟨-, h2⟩ := h.both hk1 he hl
    have := setLease_exclusive e.ip e.duid exp h.excl
    rw [setLease_ok_of (liveIp_of_key h (h.both hk1 he hl).1 he hl) (liveDuid_of_key h h2 he hl)] at this
    exact this

theorem setLease_eq_same {c c' : Clients} {t : Int} {a : Nat} {d : Duid} {p : Nat} (exp : Int)
    (h : c.lookup t a d = (c', some p, some p)) :
    c.setLease t a d exp = ({ c' with ents := c'.ents.modify p (fun e => { e with exp := exp }) }, .ok) := by
  unfold Clients.setLease; rw [h]; simp

theorem setLease_eq_diff {c c' : Clients} {t : Int} {a : Nat} {d : Duid} {p q : Nat} (exp : Int)
    (h : c.lookup t a d = (c', some p, some q)) (hpq : p ≠ q) :
    c.setLease t a d exp = (c', .mismatch) := by
  unfold Clients.setLease; rw [h]; simp [hpq]

theorem setLease_R {c : Clients} {T : Table} {t : Int} (h : R c T t) (a : Nat) (d : Duid) (exp : Int) :
    (c.setLease t a d exp).2 = (T.setLease t a d exp).2 ∧
    R (c.setLease t a d exp).1 (T.setLease t a d exp).1 t := by
  obtain ⟨hR, hip, hdu, hkip, hkdu⟩ := lookup_R h a d
  generalize hr : c.lookup t a d = r at hR hip hdu hkip hkdu ⊢
  obtain ⟨c', pi, pd⟩ := r
  simp only at hR hip hdu hkip hkdu
  cases pi with
  | none =>
    have hip : T.liveIp t a = none := hip
    have : T.setLease t a d exp = (T, .noIp) := by simp [Table.setLease, hip]
    rw [this]; unfold Clients.setLease; rw [hr]; exact ⟨rfl, hR⟩
  | some p =>
    have hk1 := hkip p rfl
    obtain ⟨e, hpe, he⟩ := entB_some hR hk1
    rw [he] at hip
    cases pd with
    | none =>
      have hdu : T.liveDuid t d = none := hdu
      have : T.setLease t a d exp = (T, .noDuid) := by simp [Table.setLease, hip, hdu]
      rw [this]; unfold Clients.setLease; rw [hr]; exact ⟨rfl, hR⟩
    | some q =>
      have hk2 := hkdu q rfl
      obtain ⟨e', hqe, he'⟩ := entB_some hR hk2
      rw [he'] at hdu
      have hl : Clients.Entry.live e t = true := by
        rw [← toB_live]; exact (liveIp_some hip).2.2
      by_cases hpq : p = q
      · subst hpq
        rw [hpe] at hqe; cases hqe
        rw [setLease_ok_of hip hdu, setLease_eq_same exp hr]
        exact ⟨rfl, hR.modify exp hk1 hpe hl⟩
      · have hne : toB e ≠ toB e' := fun heq => hpq (hR.uniq hk1 hpe hl hk2 hqe heq)
        have : T.setLease t a d exp = (T, .mismatch) := by simp [Table.setLease, hip, hdu, hne]
        rw [this, setLease_eq_diff exp hr hpq]
        exact ⟨rfl, hR⟩


theorem entB_map_ip (c : Clients) (r : Option Nat) : (entB c r).map (·.ip) = c.ipOf r := by
  cases r with
  | none => rfl
  | some p => simp only [entB, Clients.ipOf, Option.bind_some, Option.map_map]; rfl

theorem entB_map_exp (c : Clients) (r : Option Nat) :
    (entB c r).map (·.exp) = r.bind fun i => (c.ents[i]?).map (·.exp) := by
  cases r with
  | none => rfl
  | some p => simp only [entB, Option.bind_some, Option.map_map]; rfl

/-- What `Lookup` lets its caller observe agrees with the table. -/
theorem lookup_obs {c : Clients} {T : Table} {t : Int} (h : R c T t) (a : Nat) (d : Duid) :
    R (c.lookup t a d).1 T t ∧
    (c.lookup t a d).1.ipOf (c.lookup t a d).2.1 = (T.liveIp t a).map (·.ip) ∧
    (c.lookup t a d).1.ipOf (c.lookup t a d).2.2 = (T.liveDuid t d).map (·.ip) ∧
    ((c.lookup t a d).2.1.isSome && (c.lookup t a d).2.1 == (c.lookup t a d).2.2) =
      ((T.liveIp t a).isSome && T.liveIp t a == T.liveDuid t d) ∧
    ((c.lookup t a d).2.1.bind fun i => ((c.lookup t a d).1.ents[i]?).map (·.exp)) = (T.liveIp t a).map (·.exp) := by
  obtain ⟨hR, hip, hdu, hkip, hkdu⟩ := lookup_R h a d
  generalize c.lookup t a d = r at hR hip hdu hkip hkdu ⊢
  obtain ⟨c', pi, pd⟩ := r
  simp only at hR hip hdu hkip hkdu ⊢
  refine ⟨hR, by rw [hip, entB_map_ip], by rw [hdu, entB_map_ip], ?_, by rw [hip, entB_map_exp]⟩
  cases pi with
  | none =>
    have hip : T.liveIp t a = none := hip
    simp [hip]
  | some p =>
    have hk1 := hkip p rfl
    obtain ⟨e, hpe, he⟩ := entB_some hR hk1
    rw [he] at hip
    cases pd with
    | none =>
      have hdu : T.liveDuid t d = none := hdu
      simp [hip, hdu]
    | some q =>
      have hk2 := hkdu q rfl
      obtain ⟨e', hqe, he'⟩ := entB_some hR hk2
      rw [he'] at hdu
      have hl : Clients.Entry.live e t = true := by
        rw [← toB_live]; exact (liveIp_some hip).2.2
      by_cases hpq : p = q
      · subst hpq
        rw [hpe] at hqe; cases hqe
        simp [hip, hdu]
      · have hne : toB e ≠ toB e' := fun heq => hpq (hR.uniq hk1 hpe hl hk2 hqe heq)
        simp only [hip, hdu, Option.isSome_some, Bool.true_and, Option.some_beq_some]
        rw [beq_eq_false_iff_ne.2 hpq, beq_eq_false_iff_ne.2 hne]

theorem step_R {c : Clients} {T : Table} {t : Int} (h : R c T t) (op : COp) :
    (c.step t op).2 = (T.step t op).2 ∧ R (c.step t op).1 (T.step t op).1 t := by
  cases op with
  | lookup a d =>
    obtain ⟨hR, h1, h2, h3, -⟩ := lookup_obs h a d
    refine ⟨?_, hR⟩
    show CRes.found _ _ _ = CRes.found _ _ _
    rw [h1, h2, h3]
  | inject a d exp =>
    obtain ⟨h1, h2⟩ := inject_R h a d exp false
    exact ⟨congrArg CRes.res h1, h2⟩
  | injectPermanent a d =>
    obtain ⟨h1, h2⟩ := inject_R h a d 0 true
    exact ⟨congrArg CRes.res h1, h2⟩
  | setLease a d exp =>
    obtain ⟨h1, h2⟩ := setLease_R h a d exp
    exact ⟨congrArg CRes.res h1, h2⟩
  | expire a d =>
    obtain ⟨h1, h2⟩ := setLease_R h a d 0
    exact ⟨congrArg CRes.res h1, h2⟩

theorem run_R (ops : List (Int × COp)) :
    ∀ (c : Clients) (T : Table) (t0 : Int), R c T t0 → (∀ x ∈ ops.head?, t0 ≤ x.1) → Monotone ops →
      Clients.run c ops = Table.run T ops := by
  induction ops with
  | nil => intros; rfl
  | cons x rest ih =>
    obtain ⟨t, op⟩ := x
    intro c T t0 hR h0 hm
    have htt : t0 ≤ t := h0 (t, op) (by simp)
    obtain ⟨h1, h2⟩ := step_R (hR.mono htt) op
    obtain ⟨hh, hm'⟩ := mono_tail hm
    show (c.step t op).2 :: Clients.run (c.step t op).1 rest = (T.step t op).2 :: Table.run (T.step t op).1 rest
    rw [h1, ih _ _ t h2 hh hm']

theorem clients_refine (ops : List (Int × COp)) (hm : Monotone ops) :
    Clients.run Clients.empty ops = Table.run [] ops := by
  cases ops with
  | nil => rfl
  | cons x rest => exact run_R (x :: rest) _ _ x.1 (R.empty _) (by simp) hm


/-! ## The `ipdb.go` program text over two related stores -/

structure StoreSim {σ₁ σ₂ : Type} (S₁ : Store σ₁) (S₂ : Store σ₂) (Rel : σ₁ → σ₂ → Int → Prop) : Prop where
  mono : ∀ s1 s2 t t', Rel s1 s2 t → t ≤ t' → Rel s1 s2 t'
  lookup : ∀ s1 s2 t a d, Rel s1 s2 t →
    (S₁.lookup s1 t a d).2 = (S₂.lookup s2 t a d).2 ∧ Rel (S₁.lookup s1 t a d).1 (S₂.lookup s2 t a d).1 t
  inject : ∀ s1 s2 t a d exp perm, Rel s1 s2 t →
    (S₁.inject s1 t a d exp perm).2 = (S₂.inject s2 t a d exp perm).2 ∧
      Rel (S₁.inject s1 t a d exp perm).1 (S₂.inject s2 t a d exp perm).1 t
  setLease : ∀ s1 s2 t a d exp, Rel s1 s2 t →
    (S₁.setLease s1 t a d exp).2 = (S₂.setLease s2 t a d exp).2 ∧
      Rel (S₁.setLease s1 t a d exp).1 (S₂.setLease s2 t a d exp).1 t

theorem clients_table_sim : StoreSim clientsStore tableStore R where
  mono := fun _ _ _ _ h htt => h.mono htt
  lookup := by
    intro c T t a d h
    obtain ⟨hR, h1, h2, h3, h4⟩ := lookup_obs h a d
    refine ⟨?_, hR⟩
    show LookupRes.mk _ _ _ _ = LookupRes.mk _ _ _ _
    rw [h1, h2, h3, h4]
  inject := fun c T t a d exp perm h => inject_R h a d exp perm
  setLease := fun c T t a d exp h => setLease_R h a d exp

/-- The lease time `UpdateClient` settles on. -/
def ltimeOf (l : LookupRes) (lt : Int) : Int :=
  match l.byIp, l.same, l.ipExp with
  | some _, true, some e => if e > lt then e else lt
  | _, _, _ => lt

/-- `UpdateClient` after the lease time is fixed: `SetLease`, else `Inject` then `SetLease`. -/
def updTail {σ : Type} (S : Store σ) (s : σ) (now : Int) (n : Nat) (d : Duid) (lt : Int) : σ × Except DbErr Unit :=
  let r1 := S.setLease s now n d lt
  if r1.2 = .ok then (r1.1, .ok ())
  else
    let r2 := S.inject r1.1 now n d lt false
    if r2.2 ≠ .ok then (r2.1, .error (.store r2.2))
    else
      let r3 := S.setLease r2.1 now n d lt
      (r3.1, if r3.2 = .ok then .ok () else .error (.store r3.2))

theorem updTail_wrap {σ : Type} (S : Store σ) (db : IPDB σ) (s : σ) (now : Int) (n : Nat) (d : Duid) (lt : Int) :
    (let r1 := S.setLease s now n d lt
     if r1.2 = .ok then (({ db with s := r1.1 } : IPDB σ), (Except.ok () : Except DbErr Unit))
     else
       let r2 := S.inject r1.1 now n d lt false
       if r2.2 ≠ .ok then ({ db with s := r2.1 }, .error (.store r2.2))
       else
         let r3 := S.setLease r2.1 now n d lt
         ({ db with s := r3.1 }, if r3.2 = .ok then .ok () else .error (.store r3.2))) =
      ({ db with s := (updTail S s now n d lt).1 }, (updTail S s now n d lt).2) := by
  unfold updTail
  dsimp only
  split
  · rfl
  · split <;> rfl

theorem updateClient_eq {σ : Type} (S : Store σ) (db : IPDB σ) (now : Int) (ip : Option Ip4) (d : Duid) (ttl : Int) :
    db.updateClient S now ip d ttl =
      match db.toUip ip with
      | .error x => (db, .error x)
      | .ok n =>
        ({ db with s := (updTail S (S.lookup db.s now n d).1 now n d (ltimeOf (S.lookup db.s now n d).2 (now + ttl))).1 },
         (updTail S (S.lookup db.s now n d).1 now n d (ltimeOf (S.lookup db.s now n d).2 (now + ttl))).2) := by
  unfold IPDB.updateClient
  cases db.toUip ip with
  | error x => rfl
  | ok n => exact updTail_wrap S db (S.lookup db.s now n d).1 now n d (ltimeOf (S.lookup db.s now n d).2 (now + ttl))

/-- The address `FindIP` looks up first. -/
def suggN {σ : Type} (db : IPDB σ) (sugg : Option Ip4) : Nat :=
  match db.toUip sugg with | .ok n => n | .error _ => 0

/-- `FindIP` as a function of the store state only. -/
def findCore {σ : Type} (S : Store σ) (df dt : Nat) (s : σ) (now : Int) (n : Nat) (d : Duid) (perm : List Nat)
    (orc : Nat → IPDB.Iter) : σ × Except DbErr Nat :=
  let r := S.lookup s now n d
  match r.2.byDuid with
  | some a => (r.1, .ok a)
  | none =>
    if dt = 0 ∧ df = 0 then (r.1, .error .disabled)
    else
      let p := if r.2.byIp.isNone ∧ df ≤ n ∧ n ≤ dt then (n - df) :: perm else perm
      let f := IPDB.findLoop S df p orc 0 r.1
      (f.1, match f.2 with | some a => .ok a | none => .error .noFreeIp)

theorem findIP_eq {σ : Type} (S : Store σ) (db : IPDB σ) (now : Int) (sugg : Option Ip4) (d : Duid) (perm : List Nat)
    (orc : Nat → IPDB.Iter) :
    db.findIP S now sugg d perm orc =
      ({ db with s := (findCore S db.dynFrom db.dynTo db.s now (suggN db sugg) d perm orc).1 },
       (findCore S db.dynFrom db.dynTo db.s now (suggN db sugg) d perm orc).2) := by
  unfold IPDB.findIP findCore suggN
  cases db.toUip sugg with
  | error x =>
    dsimp only
    generalize S.lookup db.s now 0 d = r
    obtain ⟨s', bi, bd, sm, ie⟩ := r
    cases bd with
    | some a => rfl
    | none => dsimp only; split <;> rfl
  | ok n =>
    dsimp only
    generalize S.lookup db.s now n d = r
    obtain ⟨s', bi, bd, sm, ie⟩ := r
    cases bd with
    | some a => rfl
    | none => dsimp only; split <;> rfl

section Sim
variable {σ₁ σ₂ : Type} {S₁ : Store σ₁} {S₂ : Store σ₂} {Rel : σ₁ → σ₂ → Int → Prop}

theorem updTail_sim (sim : StoreSim S₁ S₂ Rel) {s1 : σ₁} {s2 : σ₂} {now : Int} (h : Rel s1 s2 now)
    (n : Nat) (d : Duid) (lt : Int) :
    (updTail S₁ s1 now n d lt).2 = (updTail S₂ s2 now n d lt).2 ∧
    Rel (updTail S₁ s1 now n d lt).1 (updTail S₂ s2 now n d lt).1 now := by
  obtain ⟨e1, h1⟩ := sim.setLease s1 s2 now n d lt h
  obtain ⟨e2, h2⟩ := sim.inject _ _ now n d lt false h1
  obtain ⟨e3, h3⟩ := sim.setLease _ _ now n d lt h2
  unfold updTail
  simp only [e1]
  by_cases c1 : (S₂.setLease s2 now n d lt).2 = .ok
  · simp only [c1, if_true]; exact ⟨trivial, h1⟩
  · simp only [c1, if_false, e2]
    by_cases c2 : (S₂.inject (S₂.setLease s2 now n d lt).1 now n d lt false).2 = .ok
    · simp only [c2, ne_eq, not_true_eq_false, if_false, e3]
      exact ⟨trivial, h3⟩
    · simp only [c2, ne_eq, not_false_eq_true, if_true]
      exact ⟨trivial, h2⟩

/-- Two databases over related stores with the same ranges. -/
def DbRel (Rel : σ₁ → σ₂ → Int → Prop) (db1 : IPDB σ₁) (db2 : IPDB σ₂) (t : Int) : Prop :=
  db1.netFrom = db2.netFrom ∧ db1.netTo = db2.netTo ∧ db1.dynFrom = db2.dynFrom ∧ db1.dynTo = db2.dynTo ∧
    Rel db1.s db2.s t

theorem findLoop_sim (sim : StoreSim S₁ S₂ Rel) (df : Nat) (orc : Nat → IPDB.Iter) (tEnd : Int)
    (hmono : ∀ i, (orc i).now ≤ (orc (i + 1)).now) (hend : ∀ i, (orc i).now ≤ tEnd) (vs : List Nat) :
    ∀ (i : Nat) (s1 : σ₁) (s2 : σ₂) (t : Int), Rel s1 s2 t → t ≤ (orc i).now →
      (IPDB.findLoop S₁ df vs orc i s1).2 = (IPDB.findLoop S₂ df vs orc i s2).2 ∧
      Rel (IPDB.findLoop S₁ df vs orc i s1).1 (IPDB.findLoop S₂ df vs orc i s2).1 tEnd := by
  induction vs with
  | nil =>
    intro i s1 s2 t h ht
    exact ⟨rfl, sim.mono _ _ _ _ h (Int.le_trans ht (hend i))⟩
  | cons v rest ih =>
    intro i s1 s2 t h ht
    unfold IPDB.findLoop
    by_cases hc : (orc i).cancelled = true
    · simp only [hc, if_true]
      exact ⟨trivial, sim.mono _ _ _ _ h (Int.le_trans ht (hend i))⟩
    · simp only [hc, Bool.false_eq_true, if_false]
      obtain ⟨e1, h1⟩ := sim.lookup s1 s2 (orc i).now ((df + v) % 4294967296) [] (sim.mono _ _ _ _ h ht)
      simp only [e1]
      split
      · exact ⟨rfl, sim.mono _ _ _ _ h1 (hend i)⟩
      · exact ih (i + 1) _ _ _ h1 (hmono i)

theorem findCore_sim (sim : StoreSim S₁ S₂ Rel) {s1 : σ₁} {s2 : σ₂} {now : Int}
    (hR : Rel s1 s2 now) (df dt n : Nat) (d : Duid) (perm : List Nat) (orc : Nat → IPDB.Iter) (tEnd : Int)
    (h0 : now ≤ (orc 0).now)
    (hmono : ∀ i, (orc i).now ≤ (orc (i + 1)).now) (hend : ∀ i, (orc i).now ≤ tEnd) :
    (findCore S₁ df dt s1 now n d perm orc).2 = (findCore S₂ df dt s2 now n d perm orc).2 ∧
    Rel (findCore S₁ df dt s1 now n d perm orc).1 (findCore S₂ df dt s2 now n d perm orc).1 tEnd := by
  have hle : now ≤ tEnd := Int.le_trans h0 (hend 0)
  unfold findCore
  obtain ⟨e1, r1⟩ := sim.lookup s1 s2 now n d hR
  simp only [e1]
  cases (S₂.lookup s2 now n d).2.byDuid with
  | some a => exact ⟨rfl, sim.mono _ _ _ _ r1 hle⟩
  | none =>
    simp only
    split
    · exact ⟨rfl, sim.mono _ _ _ _ r1 hle⟩
    · obtain ⟨e2, r2⟩ := findLoop_sim sim df orc tEnd hmono hend
        (if (S₂.lookup s2 now n d).2.byIp.isNone = true ∧ df ≤ n ∧ n ≤ dt then (n - df) :: perm else perm)
        0 _ _ now r1 h0
      simp only [e2]
      exact ⟨trivial, r2⟩

theorem findIP_sim (sim : StoreSim S₁ S₂ Rel) {db1 : IPDB σ₁} {db2 : IPDB σ₂} {now : Int}
    (h : DbRel Rel db1 db2 now) (sugg : Option Ip4) (d : Duid) (perm : List Nat) (orc : Nat → IPDB.Iter) (tEnd : Int)
    (h0 : now ≤ (orc 0).now)
    (hmono : ∀ i, (orc i).now ≤ (orc (i + 1)).now) (hend : ∀ i, (orc i).now ≤ tEnd) :
    (db1.findIP S₁ now sugg d perm orc).2 = (db2.findIP S₂ now sugg d perm orc).2 ∧
    DbRel Rel (db1.findIP S₁ now sugg d perm orc).1 (db2.findIP S₂ now sugg d perm orc).1 tEnd := by
  obtain ⟨nf, nt, df, dt, s1⟩ := db1
  obtain ⟨nf', nt', df', dt', s2⟩ := db2
  obtain ⟨h1, h2, h3, h4, hR⟩ := h
  simp only at h1 h2 h3 h4 hR
  subst h1 h2 h3 h4
  have hn : suggN (⟨nf, nt, df, dt, s1⟩ : IPDB σ₁) sugg = suggN (⟨nf, nt, df, dt, s2⟩ : IPDB σ₂) sugg := rfl
  rw [findIP_eq, findIP_eq, hn]
  obtain ⟨e, r⟩ := findCore_sim sim hR df dt (suggN (⟨nf, nt, df, dt, s2⟩ : IPDB σ₂) sugg) d perm orc tEnd h0 hmono hend
  exact ⟨e, rfl, rfl, rfl, rfl, r⟩

theorem step_sim (sim : StoreSim S₁ S₂ Rel) {db1 : IPDB σ₁} {db2 : IPDB σ₂} {now : Int}
    (h : DbRel Rel db1 db2 now) (op : DbOp) (hc : op.ClockOk now) :
    (db1.step S₁ now op).2 = (db2.step S₂ now op).2 ∧
    DbRel Rel (db1.step S₁ now op).1 (db2.step S₂ now op).1 (op.tEnd now) := by
  cases op with
  | findIP sugg d perm orc tEnd =>
    obtain ⟨h0, hmono, hend⟩ := hc
    obtain ⟨e, r⟩ := findIP_sim sim h sugg d perm orc tEnd h0 hmono hend
    exact ⟨congrArg DbRes.addr e, r⟩
  | lookupByDuid d =>
    obtain ⟨h1, h2, h3, h4, hR⟩ := h
    obtain ⟨e1, r1⟩ := sim.lookup _ _ now 0 d hR
    refine ⟨?_, h1, h2, h3, h4, r1⟩
    simp only [IPDB.step, IPDB.lookupByDuid, e1]
  | addPermanent ip d =>
    obtain ⟨nf, nt, df, dt, s1⟩ := db1
    obtain ⟨nf', nt', df', dt', s2⟩ := db2
    obtain ⟨h1, h2, h3, h4, hR⟩ := h
    simp only at h1 h2 h3 h4 hR
    subst h1 h2 h3 h4
    have htu : IPDB.toUip (⟨nf, nt, df, dt, s1⟩ : IPDB σ₁) ip = IPDB.toUip (⟨nf, nt, df, dt, s2⟩ : IPDB σ₂) ip := rfl
    simp only [IPDB.step, IPDB.addPermanent, htu, DbOp.tEnd]
    cases IPDB.toUip (⟨nf, nt, df, dt, s2⟩ : IPDB σ₂) ip with
    | error x => exact ⟨rfl, rfl, rfl, rfl, rfl, hR⟩
    | ok n =>
      obtain ⟨e1, r1⟩ := sim.inject s1 s2 now n d 0 true hR
      simp only [e1]
      exact ⟨trivial, rfl, rfl, rfl, rfl, r1⟩
  | updateClient ip d ttl =>
    obtain ⟨nf, nt, df, dt, s1⟩ := db1
    obtain ⟨nf', nt', df', dt', s2⟩ := db2
    obtain ⟨h1, h2, h3, h4, hR⟩ := h
    simp only at h1 h2 h3 h4 hR
    subst h1 h2 h3 h4
    have htu : IPDB.toUip (⟨nf, nt, df, dt, s1⟩ : IPDB σ₁) ip = IPDB.toUip (⟨nf, nt, df, dt, s2⟩ : IPDB σ₂) ip := rfl
    simp only [IPDB.step, updateClient_eq, htu, DbOp.tEnd]
    cases IPDB.toUip (⟨nf, nt, df, dt, s2⟩ : IPDB σ₂) ip with
    | error x => exact ⟨rfl, rfl, rfl, rfl, rfl, hR⟩
    | ok n =>
      obtain ⟨e1, r1⟩ := sim.lookup s1 s2 now n d hR
      simp only [e1]
      obtain ⟨e2, r2⟩ := updTail_sim sim r1 n d (ltimeOf (S₂.lookup s2 now n d).2 (now + ttl))
      simp only [e2]
      exact ⟨trivial, rfl, rfl, rfl, rfl, r2⟩
  | inManagedRange ip =>
    obtain ⟨nf, nt, df, dt, s1⟩ := db1
    obtain ⟨nf', nt', df', dt', s2⟩ := db2
    obtain ⟨h1, h2, h3, h4, hR⟩ := h
    simp only at h1 h2 h3 h4 hR
    subst h1 h2 h3 h4
    exact ⟨rfl, rfl, rfl, rfl, rfl, hR⟩
  | setDynamicRange b e =>
    obtain ⟨nf, nt, df, dt, s1⟩ := db1
    obtain ⟨nf', nt', df', dt', s2⟩ := db2
    obtain ⟨h1, h2, h3, h4, hR⟩ := h
    simp only at h1 h2 h3 h4 hR
    subst h1 h2 h3 h4
    have htu : ∀ ip, IPDB.toUip (⟨nf, nt, df, dt, s1⟩ : IPDB σ₁) ip = IPDB.toUip (⟨nf, nt, df, dt, s2⟩ : IPDB σ₂) ip :=
      fun _ => rfl
    simp only [IPDB.step, IPDB.setDynamicRange, htu, DbOp.tEnd]
    cases IPDB.toUip (⟨nf, nt, df, dt, s2⟩ : IPDB σ₂) b with
    | error x => exact ⟨rfl, rfl, rfl, rfl, rfl, hR⟩
    | ok bb =>
      cases IPDB.toUip (⟨nf, nt, df, dt, s2⟩ : IPDB σ₂) e with
      | error x => exact ⟨rfl, rfl, rfl, rfl, rfl, hR⟩
      | ok ee =>
        simp only
        split
        · exact ⟨rfl, rfl, rfl, rfl, rfl, hR⟩
        · exact ⟨rfl, rfl, rfl, rfl, rfl, hR⟩
  | disableDynamic =>
    obtain ⟨h1, h2, h3, h4, hR⟩ := h
    exact ⟨rfl, h1, h2, rfl, rfl, hR⟩

theorem dbmono_tail {t : Int} {op : DbOp} {rest : List (Int × DbOp)} (hm : DbMonotone ((t, op) :: rest)) :
    op.ClockOk t ∧ (∀ x ∈ rest.head?, op.tEnd t ≤ x.1) ∧ DbMonotone rest := by
  cases rest with
  | nil => exact ⟨hm, by simp, trivial⟩
  | cons y r =>
    obtain ⟨t2, o2⟩ := y
    simp only [DbMonotone] at hm
    exact ⟨hm.1, by simp [hm.2.1], hm.2.2⟩

theorem run_sim (sim : StoreSim S₁ S₂ Rel) (ops : List (Int × DbOp)) :
    ∀ (db1 : IPDB σ₁) (db2 : IPDB σ₂) (t0 : Int), DbRel Rel db1 db2 t0 → (∀ x ∈ ops.head?, t0 ≤ x.1) →
      DbMonotone ops → IPDB.run S₁ db1 ops = IPDB.run S₂ db2 ops := by
  induction ops with
  | nil => intros; rfl
  | cons x rest ih =>
    obtain ⟨t, op⟩ := x
    intro db1 db2 t0 h h0 hm
    have htt : t0 ≤ t := h0 (t, op) (by simp)
    obtain ⟨hc, hh, hm'⟩ := dbmono_tail hm
    have h' : DbRel Rel db1 db2 t := ⟨h.1, h.2.1, h.2.2.1, h.2.2.2.1, sim.mono _ _ _ _ h.2.2.2.2 htt⟩
    obtain ⟨e, r⟩ := step_sim sim h' op hc
    show (db1.step S₁ t op).2 :: IPDB.run S₁ (db1.step S₁ t op).1 rest =
      (db2.step S₂ t op).2 :: IPDB.run S₂ (db2.step S₂ t op).1 rest
    rw [e, ih _ _ _ r hh hm']

end Sim

theorem ipdb_refine (base p : Nat) (ops : List (Int × DbOp)) (hm : DbMonotone ops) :
    IPDB.run clientsStore (IPDB.new Clients.empty base p) ops = IPDB.run tableStore (IPDB.new [] base p) ops := by
  cases ops with
  | nil => rfl
  | cons x rest =>
    exact run_sim clients_table_sim (x :: rest) _ _ x.1 ⟨rfl, rfl, rfl, rfl, R.empty _⟩ (by simp) hm


/-! ## `UpdateClient` on the reference table -/

/-- The caller owns a live binding of exactly this address. -/
def Own (T : Table) (now : Int) (n : Nat) (d : Duid) : Prop :=
  ∃ x, T.liveIp now n = some x ∧ T.liveDuid now d = some x

theorem setLease_ok_iff_own (T : Table) (now : Int) (n : Nat) (d : Duid) (exp : Int) :
    (T.setLease now n d exp).2 = .ok ↔ Own T now n d := by
  constructor
  · intro h; obtain ⟨x, h1, h2, -⟩ := setLease_ok_inv h; exact ⟨x, h1, h2⟩
  · rintro ⟨x, h1, h2⟩; rw [setLease_ok_of h1 h2]

theorem own_iff {T : Table} {now : Int} {n : Nat} {d : Duid} (hx : T.Exclusive now) :
    Own T now n d ↔ ∃ b ∈ T, b.live now = true ∧ b.ip = n ∧ b.duid = d := by
  rw [← setLease_ok_iff_own T now n d 0]; exact setLease_ok_iff T now n d 0 hx

theorem ltimeOf_own {T : Table} {now : Int} {n : Nat} {d : Duid} {x : Binding} (lt0 : Int)
    (h1 : T.liveIp now n = some x) (h2 : T.liveDuid now d = some x) :
    ltimeOf (tableStore.lookup T now n d).2 lt0 = if x.exp > lt0 then x.exp else lt0 := by
  simp [ltimeOf, tableStore, Table.lookupRes, h1, h2]

theorem ltimeOf_not_own {T : Table} {now : Int} {n : Nat} {d : Duid} (lt0 : Int) (h : ¬ Own T now n d) :
    ltimeOf (tableStore.lookup T now n d).2 lt0 = lt0 := by
  unfold Own at h
  cases h1 : T.liveIp now n with
  | none => simp [ltimeOf, tableStore, Table.lookupRes, h1]
  | some x =>
    cases h2 : T.liveDuid now d with
    | none => simp [ltimeOf, tableStore, Table.lookupRes, h1, h2]
    | some y =>
      have hne : x ≠ y := by
        rintro rfl; exact h ⟨x, h1, h2⟩
      simp [ltimeOf, tableStore, Table.lookupRes, h1, h2, hne]

theorem liveIp_map_upd {T : Table} {now : Int} {n : Nat} {x : Binding} {lt : Int}
    (h1 : T.liveIp now n = some x) (hlive : ({ x with exp := lt } : Binding).live now = true) :
    Table.liveIp (T.map (upd x lt)) now n = some { x with exp := lt } := by
  obtain ⟨-, hip, hl⟩ := liveIp_some h1
  unfold Table.liveIp at h1 ⊢
  rw [List.find?_map]
  have hfun : ((fun b : Binding => decide (b.ip = n) && b.live now) ∘ upd x lt) =
      (fun b : Binding => decide (b.ip = n) && b.live now) := by
    funext b
    by_cases hb : b = x
    · subst hb
      simp only [Function.comp, upd_self, hl, hlive]
    · simp only [Function.comp, upd_ne hb]
  rw [hfun, h1]
  simp [upd_self]

theorem updTail_own {T : Table} {now : Int} {n : Nat} {d : Duid} {x : Binding} (lt : Int)
    (h1 : T.liveIp now n = some x) (h2 : T.liveDuid now d = some x) :
    updTail tableStore T now n d lt = (T.map (upd x lt), .ok ()) := by
  unfold updTail
  simp [tableStore, setLease_ok_of h1 h2]

/-- The table after a successful injection of a fresh binding. -/
theorem liveIp_fresh {T : Table} {now : Int} {n : Nat} {d : Duid} {lt : Int} (hl : now ≤ lt) :
    Table.liveIp (⟨n, d, lt, false⟩ :: T.filter (fun b => b.live now)) now n = some ⟨n, d, lt, false⟩ := by
  simp [Table.liveIp, Binding.live, hl]

theorem liveDuid_fresh {T : Table} {now : Int} {n : Nat} {d : Duid} {lt : Int} (hl : now ≤ lt) :
    Table.liveDuid (⟨n, d, lt, false⟩ :: T.filter (fun b => b.live now)) now d = some ⟨n, d, lt, false⟩ := by
  simp [Table.liveDuid, Binding.live, hl]

theorem liveIp_stale {T : Table} {now : Int} {n : Nat} {d : Duid} {lt : Int} (hl : ¬ now ≤ lt)
    (h1 : T.liveIp now n = none) :
    Table.liveIp (⟨n, d, lt, false⟩ :: T.filter (fun b => b.live now)) now n = none := by
  apply liveIp_none_of
  intro b hb hbl
  rcases List.mem_cons.1 hb with rfl | hb
  · simp [Binding.live, hl] at hbl
  · exact liveIp_none h1 b (List.mem_filter.1 hb).1 hbl

theorem updTail_not_own {T : Table} {now : Int} {n : Nat} {d : Duid} (lt : Int) (h : ¬ Own T now n d) :
    (T.liveIp now n = none ∧ T.liveDuid now d = none ∧ now ≤ lt ∧
      updTail tableStore T now n d lt =
        ((⟨n, d, lt, false⟩ :: T.filter (fun b => b.live now)).map (upd ⟨n, d, lt, false⟩ lt), .ok ())) ∨
    (¬ (T.liveIp now n = none ∧ T.liveDuid now d = none ∧ now ≤ lt) ∧
      (updTail tableStore T now n d lt).2 ≠ .ok ()) := by
  have c1 : (T.setLease now n d lt).2 ≠ .ok := fun hh => h ((setLease_ok_iff_own T now n d lt).1 hh)
  have e1 : (T.setLease now n d lt).1 = T := setLease_fail_eq c1
  unfold updTail
  simp only [tableStore, c1, if_false, e1]
  by_cases c2 : (T.inject now n d lt false).2 = .ok
  · obtain ⟨h1, h2⟩ := (inject_ok_iff T now n d lt false).1 c2
    simp only [inject_ok_eq h1 h2, ne_eq, not_true_eq_false, if_false]
    by_cases hl : now ≤ lt
    · left
      refine ⟨h1, h2, hl, ?_⟩
      rw [setLease_ok_of (liveIp_fresh hl) (liveDuid_fresh hl)]
      simp
    · right
      refine ⟨fun hh => hl hh.2.2, ?_⟩
      have : Table.setLease (⟨n, d, lt, false⟩ :: T.filter (fun b => b.live now)) now n d lt =
          (⟨n, d, lt, false⟩ :: T.filter (fun b => b.live now), .noIp) := by
        simp [Table.setLease, liveIp_stale hl h1]
      rw [this]; simp
  · right
    refine ⟨fun hh => c2 ((inject_ok_iff T now n d lt false).2 ⟨hh.1, hh.2.1⟩), ?_⟩
    simp [c2]

theorem update_ok_iff (db : IPDB Table) (now : Int) (ip : Option Ip4) (d : Duid) (ttl : Int) (hx : db.s.Exclusive now) :
    (db.updateClient tableStore now ip d ttl).2 = .ok () ↔
      ∃ n, db.toUip ip = .ok n ∧
        ((∃ b ∈ db.s, b.live now = true ∧ b.ip = n ∧ b.duid = d) ∨
         (db.s.liveIp now n = none ∧ db.s.liveDuid now d = none ∧ 0 ≤ ttl)) := by
  rw [updateClient_eq]
  cases htu : db.toUip ip with
  | error x => simp
  | ok n =>
    simp only [Except.ok.injEq, exists_eq_left']
    have hT : (tableStore.lookup db.s now n d).1 = db.s := rfl
    rw [hT, ← own_iff hx]
    by_cases ho : Own db.s now n d
    · obtain ⟨x, h1, h2⟩ := ho
      rw [updTail_own _ h1 h2]
      simp only [true_iff]
      exact Or.inl ⟨x, h1, h2⟩
    · rw [ltimeOf_not_own _ ho]
      rcases updTail_not_own (now + ttl) ho with ⟨h1, h2, hl, he⟩ | ⟨hn, he⟩
      · rw [he]
        simp only [true_iff]
        exact Or.inr ⟨h1, h2, by omega⟩
      · constructor
        · intro hh; exact absurd hh he
        · rintro (hh | ⟨h1, h2, hl⟩)
          · exact absurd hh ho
          · exact absurd ⟨h1, h2, by omega⟩ hn

theorem update_effect (db : IPDB Table) (now : Int) (ip : Option Ip4) (d : Duid) (ttl : Int) (hx : db.s.Exclusive now)
    (h : (db.updateClient tableStore now ip d ttl).2 = .ok ()) :
    ∃ n b, db.toUip ip = .ok n ∧ (db.updateClient tableStore now ip d ttl).1.s.liveIp now n = some b ∧ b.duid = d ∧
      now + ttl ≤ b.exp ∧ ∀ b₀ ∈ db.s, b₀.live now = true → b₀.ip = n → b₀.exp ≤ b.exp := by
  rw [updateClient_eq] at h ⊢
  cases htu : db.toUip ip with
  | error x => rw [htu] at h; simp at h
  | ok n =>
    rw [htu] at h
    simp only at h ⊢
    have hT : (tableStore.lookup db.s now n d).1 = db.s := rfl
    rw [hT] at h ⊢
    by_cases ho : Own db.s now n d
    · obtain ⟨x, h1, h2⟩ := ho
      obtain ⟨mx, hip, hl⟩ := liveIp_some h1
      obtain ⟨-, hd, -⟩ := liveDuid_some h2
      rw [updTail_own _ h1 h2, ltimeOf_own _ h1 h2]
      have hge : x.exp ≤ (if x.exp > now + ttl then x.exp else now + ttl) ∧
          now + ttl ≤ (if x.exp > now + ttl then x.exp else now + ttl) := by
        split <;> omega
      generalize (if x.exp > now + ttl then x.exp else now + ttl) = lt at hge
      have hlive : ({ x with exp := lt } : Binding).live now = true := by
        simp only [Binding.live, Bool.or_eq_true, decide_eq_true_eq] at hl ⊢
        rcases hl with hl | hl
        · exact Or.inl hl
        · exact Or.inr (by omega)
      refine ⟨n, { x with exp := lt }, rfl, liveIp_map_upd h1 hlive, hd, hge.2, ?_⟩
      intro b₀ hb₀ hl₀ hip₀
      have : b₀ = x := hx b₀ hb₀ x mx hl₀ hl (Or.inl (by rw [hip₀, hip]))
      rw [this]; exact hge.1
    · rw [ltimeOf_not_own _ ho] at h ⊢
      rcases updTail_not_own (now + ttl) ho with ⟨h1, h2, hl, he⟩ | ⟨hn, he⟩
      · rw [he]
        have hlive : ({ (⟨n, d, now + ttl, false⟩ : Binding) with exp := now + ttl } : Binding).live now = true := by
          simp [Binding.live, hl]
        refine ⟨n, ⟨n, d, now + ttl, false⟩, rfl, liveIp_map_upd (liveIp_fresh hl) hlive, rfl, Int.le_refl _, ?_⟩
        intro b₀ hb₀ hl₀ hip₀
        exact absurd hip₀ (liveIp_none h1 b₀ hb₀ hl₀)
      · exact absurd h he


/-! ## `FindIP` on the reference table -/

/-- The test one loop iteration applies to its candidate. -/
def pick (T : Table) (orc : Nat → IPDB.Iter) (i : Nat) (a : Nat) : Bool :=
  (T.liveIp (orc i).now a).isNone && IPDB.validUip a && (orc i).free

theorem findLoop_table_cons (T : Table) (df : Nat) (v : Nat) (rest : List Nat) (orc : Nat → IPDB.Iter) (i : Nat) :
    IPDB.findLoop tableStore df (v :: rest) orc i T =
      if (orc i).cancelled = true then (T, none)
      else if pick T orc i ((df + v) % 4294967296) = true then (T, some ((df + v) % 4294967296))
      else IPDB.findLoop tableStore df rest orc (i + 1) T := by
  rw [IPDB.findLoop]
  have hl : ∀ (T : Table) t a d, tableStore.lookup T t a d = Table.lookupRes T t a d := fun _ _ _ _ => rfl
  simp only [hl, Table.lookupRes, pick, Option.isNone_map]
  rfl

theorem findLoop_table_some (T : Table) (df : Nat) (orc : Nat → IPDB.Iter) (a : Nat) (vs : List Nat) :
    ∀ i, (IPDB.findLoop tableStore df vs orc i T).2 = some a →
      ∃ v ∈ vs, ∃ j, a = (df + v) % 4294967296 ∧ (orc j).cancelled = false ∧ pick T orc j a = true := by
  induction vs with
  | nil => intro i h; simp [IPDB.findLoop] at h
  | cons v rest ih =>
    intro i h
    rw [findLoop_table_cons] at h
    by_cases hc : (orc i).cancelled = true
    · simp [hc] at h
    · rw [if_neg hc] at h
      by_cases hp : pick T orc i ((df + v) % 4294967296) = true
      · rw [if_pos hp] at h
        have : (df + v) % 4294967296 = a := by simpa using h
        subst this
        exact ⟨v, List.mem_cons_self, i, rfl, by simpa using hc, hp⟩
      · rw [if_neg hp] at h
        obtain ⟨v', hv', j, h1, h2, h3⟩ := ih (i + 1) h
        exact ⟨v', List.mem_cons_of_mem _ hv', j, h1, h2, h3⟩

theorem findLoop_table_none (T : Table) (df : Nat) (orc : Nat → IPDB.Iter)
    (hnc : ∀ i, (orc i).cancelled = false) (vs : List Nat) :
    ∀ i, (IPDB.findLoop tableStore df vs orc i T).2 = none →
      ∀ v ∈ vs, ∃ j, pick T orc j ((df + v) % 4294967296) = false := by
  induction vs with
  | nil => intro i _ v hv; simp at hv
  | cons v rest ih =>
    intro i h
    rw [findLoop_table_cons] at h
    rw [if_neg (by simp [hnc i])] at h
    by_cases hp : pick T orc i ((df + v) % 4294967296) = true
    · rw [if_pos hp] at h; simp at h
    · rw [if_neg hp] at h
      intro v' hv'
      rcases List.mem_cons.1 hv' with rfl | hv'
      · exact ⟨i, by simpa using hp⟩
      · exact ih (i + 1) h v' hv'

/-- The candidate list `FindIP` walks. -/
def cands (db : IPDB Table) (now : Int) (sugg : Option Ip4) (perm : List Nat) : List Nat :=
  if (db.s.liveIp now (suggN db sugg)).isNone = true ∧ db.dynFrom ≤ suggN db sugg ∧ suggN db sugg ≤ db.dynTo
  then (suggN db sugg - db.dynFrom) :: perm else perm

theorem findIP_table_none (db : IPDB Table) (now : Int) (sugg : Option Ip4) (d : Duid) (perm : List Nat)
    (orc : Nat → IPDB.Iter) (h : db.s.liveDuid now d = none) :
    (db.findIP tableStore now sugg d perm orc).2 =
      if db.dynTo = 0 ∧ db.dynFrom = 0 then .error .disabled
      else match (IPDB.findLoop tableStore db.dynFrom (cands db now sugg perm) orc 0 db.s).2 with
        | some a => .ok a
        | none => .error .noFreeIp := by
  rw [findIP_eq]
  unfold findCore cands
  simp only [tableStore, Table.lookupRes, h, Option.map_none, Option.isNone_map]
  split <;> rfl

theorem find_existing (db : IPDB Table) (now : Int) (sugg : Option Ip4) (d : Duid) (perm : List Nat)
    (orc : Nat → IPDB.Iter) (b : Binding) (h : db.s.liveDuid now d = some b) :
    (db.findIP tableStore now sugg d perm orc).2 = .ok b.ip := by
  rw [findIP_eq]
  unfold findCore
  simp only [tableStore, Table.lookupRes, h, Option.map_some]

theorem find_disabled (db : IPDB Table) (now : Int) (sugg : Option Ip4) (d : Duid) (perm : List Nat)
    (orc : Nat → IPDB.Iter) (h : db.s.liveDuid now d = none) (hd : db.dynTo = 0 ∧ db.dynFrom = 0) :
    (db.findIP tableStore now sugg d perm orc).2 = .error .disabled := by
  rw [findIP_table_none _ _ _ _ _ _ h, if_pos hd]

theorem find_result_eligible (db : IPDB Table) (now : Int) (sugg : Option Ip4) (d : Duid) (perm : List Nat)
    (orc : Nat → IPDB.Iter) (a : Nat) (h : db.s.liveDuid now d = none)
    (hp : ∀ v ∈ perm, v ≤ db.dynTo - db.dynFrom) (hr : db.dynFrom ≤ db.dynTo ∧ db.dynTo < 4294967296)
    (hres : (db.findIP tableStore now sugg d perm orc).2 = .ok a) :
    db.dynFrom ≤ a ∧ a ≤ db.dynTo ∧ IPDB.validUip a = true ∧
      ∃ i, (orc i).free = true ∧ (orc i).cancelled = false ∧ db.s.liveIp (orc i).now a = none := by
  rw [findIP_table_none _ _ _ _ _ _ h] at hres
  by_cases hd : db.dynTo = 0 ∧ db.dynFrom = 0
  · rw [if_pos hd] at hres; cases hres
  · rw [if_neg hd] at hres
    cases hf : (IPDB.findLoop tableStore db.dynFrom (cands db now sugg perm) orc 0 db.s).2 with
    | none => rw [hf] at hres; cases hres
    | some a' =>
      rw [hf] at hres
      have : a' = a := by simpa using hres
      subst this
      obtain ⟨v, hv, j, ha, hc, hpk⟩ := findLoop_table_some _ _ _ _ _ 0 hf
      have hvle : v ≤ db.dynTo - db.dynFrom := by
        unfold cands at hv
        split at hv
        · rename_i hcond
          rcases List.mem_cons.1 hv with rfl | hv
          · omega
          · exact hp v hv
        · exact hp v hv
      have hmod : (db.dynFrom + v) % 4294967296 = db.dynFrom + v := Nat.mod_eq_of_lt (by omega)
      rw [hmod] at ha
      simp only [pick, Bool.and_eq_true, Option.isNone_iff_eq_none] at hpk
      exact ⟨by omega, by omega, hpk.1.2, j, hpk.2, hc, hpk.1.1⟩

theorem find_suggestion_first (db : IPDB Table) (now : Int) (sugg : Option Ip4) (d : Duid) (perm : List Nat)
    (orc : Nat → IPDB.Iter) (n : Nat) (h : db.s.liveDuid now d = none) (hen : ¬ (db.dynTo = 0 ∧ db.dynFrom = 0))
    (hs : db.toUip sugg = .ok n) (hr : db.dynFrom ≤ n ∧ n ≤ db.dynTo ∧ db.dynTo < 4294967296)
    (hu : db.s.liveIp now n = none ∧ db.s.liveIp (orc 0).now n = none) (hv : IPDB.validUip n = true)
    (hf : (orc 0).free = true ∧ (orc 0).cancelled = false) :
    (db.findIP tableStore now sugg d perm orc).2 = .ok n := by
  rw [findIP_table_none _ _ _ _ _ _ h, if_neg hen]
  have hn : suggN db sugg = n := by simp [suggN, hs]
  have hc : cands db now sugg perm = (n - db.dynFrom) :: perm := by
    unfold cands; rw [hn]; simp [hu.1, hr.1, hr.2.1]
  have hmod : (db.dynFrom + (n - db.dynFrom)) % 4294967296 = n := by
    rw [Nat.mod_eq_of_lt (by omega)]; omega
  rw [hc, findLoop_table_cons, hmod]
  have hpk : pick db.s orc 0 n = true := by simp [pick, hu.2, hv, hf.1]
  simp [hf.2, hpk]

theorem find_fails_only_if_exhausted (db : IPDB Table) (now : Int) (sugg : Option Ip4) (d : Duid) (perm : List Nat)
    (orc : Nat → IPDB.Iter) (h : db.s.liveDuid now d = none)
    (hperm : List.Perm perm (List.range (1 + db.dynTo - db.dynFrom)))
    (hr : db.dynFrom ≤ db.dynTo ∧ db.dynTo < 4294967296)
    (hnc : ∀ i, (orc i).cancelled = false)
    (hres : (db.findIP tableStore now sugg d perm orc).2 = .error .noFreeIp) :
    ∀ a, db.dynFrom ≤ a → a ≤ db.dynTo →
      ∃ i, (db.s.liveIp (orc i).now a).isSome = true ∨ IPDB.validUip a = false ∨ (orc i).free = false := by
  rw [findIP_table_none _ _ _ _ _ _ h] at hres
  by_cases hd : db.dynTo = 0 ∧ db.dynFrom = 0
  · rw [if_pos hd] at hres; cases hres
  · rw [if_neg hd] at hres
    cases hf : (IPDB.findLoop tableStore db.dynFrom (cands db now sugg perm) orc 0 db.s).2 with
    | some a' => rw [hf] at hres; cases hres
    | none =>
      intro a ha1 ha2
      have hmem : a - db.dynFrom ∈ cands db now sugg perm := by
        have : a - db.dynFrom ∈ perm := hperm.mem_iff.2 (List.mem_range.2 (by omega))
        unfold cands; split
        · exact List.mem_cons_of_mem _ this
        · exact this
      obtain ⟨j, hj⟩ := findLoop_table_none _ _ _ hnc _ 0 hf _ hmem
      have hmod : (db.dynFrom + (a - db.dynFrom)) % 4294967296 = a := by
        rw [Nat.mod_eq_of_lt (by omega)]; omega
      rw [hmod] at hj
      refine ⟨j, ?_⟩
      unfold pick at hj
      cases h1 : db.s.liveIp (orc j).now a with
      | some x => simp
      | none =>
        rw [h1] at hj
        cases h2 : IPDB.validUip a with
        | false => simp
        | true =>
          rw [h2] at hj
          right; right
          simpa using hj


end PsaDhcp.Proofs.Ipdb
