import PsaDhcp.Code.Bridge7
import PsaDhcp.Proofs.CodeLayer
import PsaDhcp.Proofs.CodeLayerIp
import PsaDhcp.Proofs.CodeDhcp
import PsaDhcp.Proofs.Decision
/-
Socket layer: translated code = model (statements fixed in Props/C10Code.lean, Props/C08Code.lean).
-/
set_option linter.unusedSimpArgs false
namespace PsaDhcp.Proofs.CodeRun
open PsaDhcp PsaDhcp.Go PsaDhcp.Code

theorem lift_ok {σ α : Type} (a : α) :
    (liftM (Except.ok a : R α) : StateT σ R α) = fun st => .ok (a, st) := rfl

theorem env_SockRead (o : GoErr) : (runEnv o).SockRead = fun _ st =>
    match st.rest with
    | [] => .ok (([], readClosed), st)
    | f :: r => .ok ((f, none), { st with rest := r }) := rfl

theorem env_Go_handleMsg (o : GoErr) : (runEnv o).Go_handleMsg =
    fun _ src dst msg st => .ok ((), { st with handled := st.handled ++ [(src, dst, msg)] }) := rfl

theorem env_Open (o : GoErr) : (runEnv o).OpenIPRecvSock = fun _ st => .ok (((), o), st) := rfl

theorem readInto_fst (buf f : Bytes) :
    (readInto buf f).1 = f.take buf.length ++ buf.drop (min f.length buf.length) := by
  simp [readInto, overwrite, Nat.min_comm]

theorem readInto_length (buf f : Bytes) : (readInto buf f).1.length = buf.length := by
  rw [readInto_fst]; simp; omega

theorem readInto_snd (buf f : Bytes) : (readInto buf f).2 = ((min f.length buf.length : Nat) : Int) := rfl

theorem makeList_ok (n : Nat) (s : String) : makeList (0 : UInt8) (n : Int) s = .ok (List.replicate n 0) := by
  have : ¬ ((n : Int) < 0) := by omega
  simp [makeList, this, pure, Except.pure]

theorem slice0_ok (b : Bytes) (n : Nat) (s : String) (h : n ≤ b.length) :
    Go.slice b (0 : Int) (n : Int) s = .ok (b.take n) := by
  have : (0 : Int) ≤ 0 ∧ (0 : Int) ≤ (n : Int) ∧ (n : Int) ≤ (b.length : Int) := by omega
  simp [Go.slice, this, pure, Except.pure]

theorem copyAt0_ok (n : Nat) (src : Bytes) (s : String) (h : src.length = n) :
    copyAt (List.replicate n (0 : UInt8)) (0 : Int) (Int.ofNat (List.replicate n (0 : UInt8)).length) src s = .ok src := by
  have : (0 : Int) ≤ 0 ∧ (0 : Int) ≤ (n : Int) ∧ (n : Int) ≤ (n : Int) := by omega
  simp [copyAt, this, pure, Except.pure, overwrite, h]
  rw [List.take_of_length_le (by omega)]

theorem take_readInto (buf f : Bytes) :
    (readInto buf f).1.take (min f.length buf.length) = f.take buf.length := by
  rw [readInto_fst, List.take_append_of_le_length (by simp; omega), List.take_take]
  by_cases h : f.length ≤ buf.length
  · rw [List.take_of_length_le (by omega), List.take_of_length_le h]
  · congr 1; omega

/-- One iteration. -/
theorem loop1_nil (o : GoErr) (sx : Gen.server.server) (fuel : Nat) (buf : Bytes) (st : RunState) (h : st.rest = []) :
    Gen.server.server_Run.loop1 (runEnv o) sx () (fuel+1) buf st = .ok (LoopOut.ret readClosed, st) := by
  unfold Gen.server.server_Run.loop1
  simp only [env_SockRead, bind, StateT.bind, h, Except.bind]
  rfl

def stepState (st : RunState) (r : List Bytes) (f : Bytes) : RunState :=
  { st with rest := r, handled := st.handled ++ (handlerArgs f).toList }

theorem loop1_cons (o : GoErr) (sx : Gen.server.server) (fuel : Nat) (buf : Bytes) (st : RunState) (f : Bytes)
    (r : List Bytes) (h : st.rest = f :: r) :
    Gen.server.server_Run.loop1 (runEnv o) sx () (fuel+1) buf st =
      Gen.server.server_Run.loop1 (runEnv o) sx () fuel (readInto buf f).1 (stepState st r (f.take buf.length)) := by
  rw [Gen.server.server_Run.loop1]
  simp only [env_SockRead, bind, StateT.bind, h, Except.bind]
  rw [readInto_snd, readInto_length, makeList_ok, slice0_ok _ _ _ (by rw [readInto_length]; omega), take_readInto]
  simp only [lift_ok, Option.isNone_none, Bool.not_true, Bool.false_eq_true, if_false, StateT.bind, bind, Except.bind]
  rw [copyAt0_ok _ _ _ (by simp; omega)]
  simp only [lift_ok, CodeLayerIp.DecodeIPv4_eq, CodeLayer.DecodeUDP_eq, CodeDhcp.Decode_eq]
  generalize f.take buf.length = p
  generalize (readInto buf f).1 = buf'
  cases h1 : decodeIPv4 p with
  | error e =>
    cases e with
    | panic s => exact absurd h1 (Wire.decoders_never_panic p s).1
    | reject w => simp [liftDec, lift_ok, stepState, handlerArgs, h1]
  | ok v4 =>
    simp only [liftDec, lift_ok, derefOpt, Option.isNone_none, Bool.not_true, Bool.false_eq_true, if_false,
      StateT.bind, bind, Except.bind, pure, Except.pure]
    cases h2 : decodeUDP v4.data with
    | error e =>
      cases e with
      | panic s => exact absurd h2 (Wire.decoders_never_panic _ s).2.1
      | reject w => simp [liftDec, lift_ok, stepState, handlerArgs, h1, h2, ipv4ToGen]
    | ok udp =>
      have h2' : decodeUDP (ipv4ToGen v4).Data = .ok udp := h2
      simp only [h2', liftDec, lift_ok, derefOpt, Option.isNone_none, Bool.not_true, Bool.false_eq_true, if_false,
        StateT.bind, bind, Except.bind, pure, Except.pure]
      cases h3 : decode udp.data with
      | error e =>
        cases e with
        | panic s => exact absurd h3 (Dhcp.decode_never_panics _ s)
        | reject w => 
          have h3' : decode (udpToGen udp).Data = .error (.reject w) := h3
          simp [liftDec, lift_ok, stepState, handlerArgs, h1, h2, h3, h3', StateT.pure, pure, Except.pure]
      | ok m =>
        have h3' : decode (udpToGen udp).Data = .ok m := h3
        simp only [h3', liftDec, lift_ok, derefOpt, Option.isNone_none, Bool.not_true, Bool.false_eq_true, if_false,
          StateT.bind, bind, Except.bind, pure, Except.pure, StateT.pure, env_Go_handleMsg]
        by_cases hop : m.op = 1
        · simp [stepState, handlerArgs, h1, h2, h3, hop, msgToGen, ipv4ToGen, StateT.bind, bind, Except.bind]
        · simp [stepState, handlerArgs, h1, h2, h3, hop, msgToGen, StateT.bind, bind, Except.bind]

/-- The whole loop over the frames `fs`, from any 4096-byte buffer and any state. -/
theorem loop1_eq (o : GoErr) (sx : Gen.server.server) :
    ∀ (fs : List Bytes) (fuel : Nat) (buf : Bytes) (st : RunState), buf.length = 4096 → st.rest = fs →
      fs.length < fuel →
      Gen.server.server_Run.loop1 (runEnv o) sx () fuel buf st =
        .ok (LoopOut.ret readClosed,
          { st with rest := [], handled := st.handled ++ fs.filterMap fun f => handlerArgs (f.take 4096) })
  | [], fuel, buf, st, _, hr, hf => by
    obtain ⟨k, rfl⟩ : ∃ k, fuel = k + 1 := ⟨fuel - 1, by simp at hf; omega⟩
    rw [loop1_nil o sx k buf st hr]
    cases st; simp at hr; simp [hr]
  | f :: r, fuel, buf, st, hb, hr, hf => by
    obtain ⟨k, rfl⟩ : ∃ k, fuel = k + 1 := ⟨fuel - 1, by simp at hf; omega⟩
    rw [loop1_cons o sx k buf st f r hr,
      loop1_eq o sx r k _ _ (by rw [readInto_length]; exact hb) rfl (by simp at hf; omega)]
    rw [hb]
    cases h : handlerArgs (f.take 4096) <;> simp [stepState, h, List.filterMap_cons]

theorem Run_eq (sx : Gen.server.server) (fs : List Bytes) (pings : List (Option Bytes)) (fuel : Nat)
    (hf : fs.length < fuel) :
    (Gen.server.server_Run (runEnv none) sx fuel).run { rest := fs, pings := pings, handled := [] } =
      .ok (readClosed, { rest := [], pings := pings, handled := fs.filterMap fun f => handlerArgs (f.take 4096) }) := by
  unfold Gen.server.server_Run
  have hm : makeList (0 : UInt8) (4096 : Int) "run.go:28" = .ok (List.replicate 4096 0) := makeList_ok 4096 _
  simp only [StateT.run, env_Open, bind, StateT.bind, Except.bind, hm, lift_ok, Option.isNone_none, Bool.not_true,
    Bool.false_eq_true, if_false]
  rw [loop1_eq none sx fs fuel _ _ (List.length_replicate ..) rfl hf]
  simp [pure, StateT.pure, Except.pure, runEnv, bind, StateT.bind, Except.bind]

theorem Run_open_fails (sx : Gen.server.server) (st : RunState) (fuel : Nat) (e : String) :
    (Gen.server.server_Run (runEnv (some e)) sx fuel).run st = .ok (some e, st) := by
  unfold Gen.server.server_Run
  simp [StateT.run, env_Open, bind, StateT.bind, Except.bind, pure, StateT.pure, Except.pure]

/-- An accepted IPv4 header carries both addresses. -/
theorem decodeIPv4_addrs (b : Bytes) (v4 : IPv4) (h : decodeIPv4 b = .ok v4) :
    (∃ s, v4.src = some s) ∧ ∃ d, v4.dst = some d := by
  by_cases hs : b.length < 20
  · rw [Wire.decodeIPv4_short b hs] at h; cases h
  · rw [Wire.decodeIPv4_eq b (by omega)] at h
    split at h
    · cases h
    · split at h
      · cases h
      · cases h; exact ⟨⟨_, rfl⟩, ⟨_, rfl⟩⟩

theorem handlerArgs_is_rxChain (b : Bytes) :
    (handlerArgs b = none ↔ rxChain b = .ok none) ∧
    ∀ src dst m, handlerArgs b = some (src, dst, m) →
      ∃ rx, rxChain b = .ok (some rx) ∧ src = ipToGen rx.src ∧ dst = ipToGen rx.dst ∧ m = msgToGen rx.msg := by
  cases h1 : decodeIPv4 b with
  | error e =>
    cases e with
    | panic s => exact absurd h1 (Wire.decoders_never_panic b s).1
    | reject w => simp [handlerArgs, rxChain, h1, pure, Except.pure]
  | ok v4 =>
    obtain ⟨⟨s, hs⟩, ⟨d, hd⟩⟩ := decodeIPv4_addrs b v4 h1
    cases h2 : decodeUDP v4.data with
    | error e =>
      cases e with
      | panic s => exact absurd h2 (Wire.decoders_never_panic _ s).2.1
      | reject w => simp [handlerArgs, rxChain, h1, h2, pure, Except.pure]
    | ok udp =>
      cases h3 : decode udp.data with
      | error e =>
        cases e with
        | panic s => exact absurd h3 (Dhcp.decode_never_panics _ s)
        | reject w => simp [handlerArgs, rxChain, h1, h2, h3, pure, Except.pure]
      | ok m =>
        by_cases hop : m.op = 1
        · simp [handlerArgs, rxChain, h1, h2, h3, hop, pure, Except.pure, hs, hd, optIp, optIpToGen]
        · simp [handlerArgs, rxChain, h1, h2, h3, hop, pure, Except.pure]

end PsaDhcp.Proofs.CodeRun
