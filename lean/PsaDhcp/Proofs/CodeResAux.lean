import PsaDhcp.Code.Bridge15
namespace PsaDhcp.Proofs.CodeRes
open PsaDhcp PsaDhcp.Go PsaDhcp.Code

def Keeps {α : Type} (f : ResState → Nat) (m : StateT ResState R α) : Prop :=
  ∀ st x st', m st = .ok (x, st') → f st' = f st

theorem bind_ok {σ α β : Type} (m : StateT σ R α) (k : α → StateT σ R β) (st st'' : σ) (b : β)
    (h : (m >>= k) st = .ok (b, st'')) : ∃ a st', m st = .ok (a, st') ∧ k a st' = .ok (b, st'') := by
  simp only [bind, StateT.bind, Except.bind] at h
  cases hm : m st with
  | error e => rw [hm] at h; cases h
  | ok p => obtain ⟨a, st'⟩ := p; rw [hm] at h; exact ⟨a, st', rfl, h⟩

theorem keeps_bind {α β : Type} {f : ResState → Nat} {m : StateT ResState R α} {k : α → StateT ResState R β}
    (hm : Keeps f m) (hk : ∀ a, Keeps f (k a)) : Keeps f (m >>= k) := by
  intro st b st'' h
  obtain ⟨a, st', h1, h2⟩ := bind_ok m k st st'' b h
  rw [hk a st' b st'' h2, hm st a st' h1]

theorem keeps_pure {α : Type} (f : ResState → Nat) (a : α) : Keeps f (pure a : StateT ResState R α) := by
  intro st x st' h; cases h; rfl

theorem keeps_lift {α : Type} (f : ResState → Nat) (r : R α) : Keeps f (liftM r : StateT ResState R α) := by
  intro st x st' h
  cases r with
  | error e => cases h
  | ok a => cases h; rfl

theorem keeps_throw {α : Type} (f : ResState → Nat) (e : Err) : Keeps f (throw e : StateT ResState R α) := by
  intro st x st' h; cases h

theorem keeps_discard {α : Type} {f : ResState → Nat} {m : StateT ResState R α} (hm : Keeps f m) :
    Keeps f (discard m) := by
  intro st x st' h
  simp only [discard, Functor.mapConst, Function.comp, StateT.map, bind, Except.bind] at h
  cases hm' : m st with
  | error e => rw [hm'] at h; cases h
  | ok p =>
    obtain ⟨a, s⟩ := p
    rw [hm'] at h
    cases h
    exact hm st a _ hm'

/-- The projection does not see the operation counters. -/
structure Inert (f : ResState → Nat) : Prop where
  h : ∀ (st : ResState) (r w wt c p rn : Nat),
    f { st with reads := r, writes := w, waits := wt, ctxs := c, pingsN := p, rnds := rn } = f st

theorem inert_opened : Inert ResState.opened := ⟨fun _ _ _ _ _ _ _ => rfl⟩
theorem inert_closed : Inert ResState.closed := ⟨fun _ _ _ _ _ _ _ => rfl⟩
theorem inert_spawned : Inert ResState.spawned := ⟨fun _ _ _ _ _ _ _ => rfl⟩

theorem keeps_read {f} (hf : Inert f) (o : ResOracle) (n : Int) : Keeps f (Res.read o n) := by
  intro st x st' h
  simp only [Res.read] at h
  split at h <;> (cases h; exact hf.h st (st.reads + 1) st.writes st.waits st.ctxs st.pingsN st.rnds)

theorem keeps_write {f} (hf : Inert f) (o : ResOracle) (b : Bytes) : Keeps f (Res.write o b) := by
  intro st x st' h
  cases h; exact hf.h st st.reads (st.writes + 1) st.waits st.ctxs st.pingsN st.rnds

theorem keeps_wait {f} (hf : Inert f) (o : ResOracle) (n : Int) : Keeps f (Res.wait o n) := by
  intro st x st' h
  cases h; exact hf.h st st.reads st.writes (st.waits + 1) st.ctxs st.pingsN st.rnds

theorem keeps_ctxErr {f} (hf : Inert f) (o : ResOracle) : Keeps f (Res.ctxErr o) := by
  intro st x st' h
  cases h; exact hf.h st st.reads st.writes st.waits (st.ctxs + 1) st.pingsN st.rnds

theorem keeps_ping {f} (hf : Inert f) (o : ResOracle) (i : Go.NetInterface) (a b : Bytes) : Keeps f (Res.ping o i a b) := by
  intro st x st' h
  simp only [Res.ping] at h
  split at h <;> (cases h; exact hf.h st st.reads st.writes st.waits st.ctxs (st.pingsN + 1) st.rnds)

theorem keeps_rand {f} (hf : Inert f) (o : ResOracle) : Keeps f (resSendEnv o).RandInt63 := by
  intro st x st' h
  cases h; exact hf.h st st.reads st.writes st.waits st.ctxs st.pingsN (st.rnds + 1)

theorem keeps_spawn_opened : Keeps ResState.opened Res.spawn := by
  intro st x st' h; cases h; rfl
theorem keeps_spawn_closed : Keeps ResState.closed Res.spawn := by
  intro st x st' h; cases h; rfl

theorem keeps_open_closed (o : ResOracle) : Keeps ResState.closed (Res.open_ o) := by
  intro st x st' h
  simp only [Res.open_] at h
  split at h <;> (cases h; rfl)

theorem keeps_open_spawned (o : ResOracle) : Keeps ResState.spawned (Res.open_ o) := by
  intro st x st' h
  simp only [Res.open_] at h
  split at h <;> (cases h; rfl)

theorem keeps_close_spawned : Keeps ResState.spawned Res.close := by
  intro st x st' h; cases h; rfl

theorem arpEnv_read (o : ResOracle) : (resArpEnv o).SockRead = Res.read o := rfl
theorem runEnv_read (o : ResOracle) : (resRunEnv o).SockRead = Res.read o := rfl
theorem runEnv_handle (o : ResOracle) (a b c d) : (resRunEnv o).Go_handleMsg a b c d = Res.spawn := rfl
theorem sockEnv_write (o : ResOracle) : (resSockEnv o).SockWrite = Res.write o := rfl
theorem sockEnv_wait (o : ResOracle) : (resSockEnv o).SelectAfter = Res.wait o := rfl
theorem sendEnv_write (o : ResOracle) : (resSendEnv o).SockWrite = Res.write o := rfl
theorem sendEnv_wait (o : ResOracle) : (resSendEnv o).SelectAfter = Res.wait o := rfl
theorem sendEnv_ctx (o : ResOracle) : (resSendEnv o).CtxErr = Res.ctxErr o := rfl
theorem sendEnv_ping (o : ResOracle) : (resSendEnv o).Ping = Res.ping o := rfl
theorem cliEnv_read (o : ResOracle) : (resCliEnv o).SockRead = Res.read o := rfl
theorem arpEnv_open (o : ResOracle) (i) : (resArpEnv o).OpenARPRecvSock i = Res.open_ o := rfl
theorem arpEnv_close (o : ResOracle) : (resArpEnv o).SockClose = Res.close := rfl
theorem arpEnv_spawn (o : ResOracle) (a b c) : (resArpEnv o).Go_sendARPPing a b c = Res.spawn := rfl
theorem sendEnv_openU (o : ResOracle) (i h) : (resSendEnv o).OpenUnicastSendSock i h = Res.open_ o := rfl
theorem sendEnv_openIP (o : ResOracle) (i) : (resSendEnv o).OpenIPSendSock i = Res.open_ o := rfl
theorem sockEnv_openU (o : ResOracle) (i h) : (resSockEnv o).OpenUnicastSendSock i h = Res.open_ o := rfl
theorem sockEnv_close (o : ResOracle) : (resSockEnv o).SockClose = Res.close := rfl

syntax "keeps_tac" term:max term:max : tactic
macro_rules
  | `(tactic| keeps_tac $hf $ih) => `(tactic| repeat' (with_reducible first
      | exact keeps_pure _ _
      | exact keeps_lift _ _
      | exact keeps_throw _ _
      | exact $ih _
      | exact keeps_read $hf _ _
      | exact keeps_write $hf _ _
      | exact keeps_wait $hf _ _
      | exact keeps_ctxErr $hf _
      | exact keeps_ping $hf _ _ _ _
      | exact keeps_rand $hf _
      | exact keeps_spawn_opened
      | exact keeps_open_closed _
      | exact keeps_open_spawned _
      | exact keeps_close_spawned
      | exact keeps_spawn_closed
      | apply keeps_discard
      | apply keeps_bind
      | (intro _; try dsimp only)
      | split))

macro "keeps_tac0" hf:term:max : tactic => `(tactic| keeps_tac $hf (keeps_pure _))

theorem arp_loop (o : ResOracle) (target : Bytes) (rs : Go.Sock) {f} (hf : Inert f) :
    ∀ fuel buf, Keeps f (Gen.arpping.catchARPReply.loop1 (resArpEnv o) target rs fuel buf) := by
  intro fuel
  induction fuel with
  | zero => intro buf; exact keeps_throw _ _
  | succ n ih =>
    intro buf
    rw [Gen.arpping.catchARPReply.loop1]; simp only [arpEnv_read]
    keeps_tac hf ih

theorem arpSend_loop (o : ResOracle) (rs : Go.Sock) (a : Gen.layer.ARP) {f} (hf : Inert f) :
    ∀ fuel u, Keeps f (Gen.arpping.sendARPPing.loop1 (resSockEnv o) rs a fuel u) := by
  intro fuel
  induction fuel with
  | zero => intro buf; exact keeps_throw _ _
  | succ n ih =>
    intro buf
    rw [Gen.arpping.sendARPPing.loop1]; simp only [sockEnv_write, sockEnv_wait]
    keeps_tac hf ih

theorem run_loop (o : ResOracle) (sx : Gen.server.server) (rs : Go.Sock) {f} (hf : Inert f) (hs : Keeps f Res.spawn) :
    ∀ fuel buf, Keeps f (Gen.server.server_Run.loop1 (resRunEnv o) sx rs fuel buf) := by
  intro fuel
  induction fuel with
  | zero => intro buf; exact keeps_throw _ _
  | succ n ih =>
    intro buf
    rw [Gen.server.server_Run.loop1]; simp only [runEnv_read, runEnv_handle]
    keeps_tac hf ih
    all_goals exact hs

theorem send_loop (o : ResOracle) (sender : R (Bytes × Bytes × Bytes)) (rs : Go.Sock) (barrier : Int) {f} (hf : Inert f) :
    ∀ fuel d, Keeps f (Gen.dclient.sendMessage.loop1 (resSendEnv o) sender rs barrier fuel d) := by
  intro fuel
  induction fuel with
  | zero => intro buf; exact keeps_throw _ _
  | succ n ih =>
    intro buf
    rw [Gen.dclient.sendMessage.loop1]; simp only [sendEnv_write, sendEnv_wait]
    keeps_tac hf ih

theorem catch_loop (o : ResOracle) (iface : Go.NetInterface)
    (vrfy : Gen.dhcpmsg.Message → Gen.dhcpmsg.DecodedOptions → R Int) (rs : Go.Sock) {f} (hf : Inert f) :
    ∀ fuel d, Keeps f (Gen.dclient.catchReply.loop1 (resCliEnv o) iface vrfy rs fuel d) := by
  intro fuel
  induction fuel with
  | zero => intro buf; exact keeps_throw _ _
  | succ n ih =>
    intro buf
    rw [Gen.dclient.catchReply.loop1]; simp only [cliEnv_read]
    keeps_tac hf ih


/-! ### Opening and closing -/

/-- What a socket constructor does to the two counters. -/
def OpenSpec (opn : StateT ResState R (Go.Sock × GoErr)) : Prop :=
  ∀ st e st', opn st = .ok (e, st') →
    st'.closed = st.closed ∧ (e.2 = none → st'.opened = st.opened + 1) ∧ (e.2 ≠ none → st'.opened = st.opened)

theorem open_spec (o : ResOracle) : OpenSpec (Res.open_ o) := by
  intro st e st' h
  simp only [Res.open_] at h
  split at h
  · cases h
    refine ⟨rfl, ?_, fun _ => rfl⟩
    intro h; simp [openErr] at h
  · cases h
    exact ⟨rfl, fun _ => rfl, fun h => absurd rfl h⟩

/-- open; on error leave; otherwise run the inner block, close, return its result. -/
theorem bracket_spec {α : Type} {opn : StateT ResState R (Go.Sock × GoErr)}
    {fail inner : Go.Sock × GoErr → StateT ResState R α}
    (hopn : OpenSpec opn)
    (hfail : ∀ e, Keeps ResState.opened (fail e) ∧ Keeps ResState.closed (fail e))
    (hin : ∀ e, Keeps ResState.opened (inner e) ∧ Keeps ResState.closed (inner e))
    (st st' : ResState) (x : α)
    (h : (opn >>= fun e => if (!e.2.isNone) = true then fail e
            else inner e >>= fun r => Res.close >>= fun _ => pure r) st = .ok (x, st')) :
    st'.opened - st.opened = st'.closed - st.closed ∧ st'.opened ≤ st.opened + 1 ∧
      st.opened ≤ st'.opened ∧ st.closed ≤ st'.closed := by
  obtain ⟨e, st1, h1, h2⟩ := bind_ok _ _ _ _ _ h
  obtain ⟨hc, hn, hs⟩ := hopn st e st1 h1
  split at h2
  · rename_i he
    have he' : e.2 ≠ none := by
      intro h0; rw [h0] at he; cases he
    have ho := hs he'
    have := (hfail e).1 st1 x st' h2
    have := (hfail e).2 st1 x st' h2
    omega
  · rename_i he
    have he' : e.2 = none := by
      cases hh : e.2 with
      | none => rfl
      | some s => rw [hh] at he; exact absurd rfl he
    have ho := hn he'
    obtain ⟨r, st2, h3, h4⟩ := bind_ok _ _ _ _ _ h2
    obtain ⟨u, st3, h5, h6⟩ := bind_ok _ _ _ _ _ h4
    cases h6
    cases h5
    have := (hin e).1 st1 _ st2 h3
    have := (hin e).2 st1 _ st2 h3
    show st2.opened - st.opened = (st2.closed + 1) - st.closed ∧ st2.opened ≤ st.opened + 1 ∧
      st.opened ≤ st2.opened ∧ st.closed ≤ st2.closed + 1
    omega

theorem balanced_of {st st' : ResState} (h0 : Balanced st)
    (h : st'.opened - st.opened = st'.closed - st.closed ∧ st'.opened ≤ st.opened + 1 ∧
      st.opened ≤ st'.opened ∧ st.closed ≤ st'.closed) : Balanced st' ∧ st'.opened ≤ st.opened + 1 := by
  unfold Balanced at *
  omega

end PsaDhcp.Proofs.CodeRes
