import PsaDhcp.Code.Bridge2
import PsaDhcp.Model.Ipdb
/-
lib/server/ipdb address arithmetic and lib/server duidFromHwAddr: translated code = model.
-/
namespace PsaDhcp.Proofs.CodeIpdb
open PsaDhcp PsaDhcp.Go PsaDhcp.Code

theorem to4_cases (x : Bytes) :
    (Go.to4 x = [] ∧ ipOf x = none) ∨ ∃ i : Ip4, Go.to4 x = [i.a, i.b, i.c, i.d] ∧ ipOf x = some i := by
  have hlen : (Go.to4 x).length = 0 ∨ (Go.to4 x).length = 4 := by
    unfold Go.to4
    split
    · right; assumption
    · split
      · right; simp; omega
      · left; rfl
  unfold ipOf
  generalize Go.to4 x = y at *
  match y, hlen with
  | [], _ => left; simp [Ip4.ofBytes?]
  | [a, b, c, d], _ => right; exact ⟨⟨a, b, c, d⟩, rfl, rfl⟩
  | [_], h | [_, _], h | [_, _, _], h | _ :: _ :: _ :: _ :: _ :: _, h => simp at h <;> omega

def ipU32 (i : Ip4) : UInt32 :=
  (i.a.toUInt32 <<< 24) ||| (i.b.toUInt32 <<< 16) ||| (i.c.toUInt32 <<< 8) ||| i.d.toUInt32

theorem beU32_ip (i : Ip4) (site : String) : Go.beU32 [i.a, i.b, i.c, i.d] site = .ok (ipU32 i) := rfl

theorem ipU32_toNat (i : Ip4) : (ipU32 i).toNat = i.toNat := by
  unfold ipU32 Ip4.toNat
  have ha := i.a.toNat_lt; have hb := i.b.toNat_lt; have hc := i.c.toNat_lt; have hd := i.d.toNat_lt
  simp only [UInt32.toNat_or, UInt32.toNat_shiftLeft, UInt8.toNat_toUInt32, Nat.shiftLeft_eq]
  have e1 : UInt32.toNat 24 % 32 = 24 := by decide
  have e2 : UInt32.toNat 16 % 32 = 16 := by decide
  have e3 : UInt32.toNat 8 % 32 = 8 := by decide
  rw [e1, e2, e3]
  generalize i.a.toNat = A at *; generalize i.b.toNat = B at *
  generalize i.c.toNat = C at *; generalize i.d.toNat = D at *
  rw [Nat.mod_eq_of_lt (by omega), Nat.mod_eq_of_lt (by omega), Nat.mod_eq_of_lt (by omega)]
  have s1 : A * 2 ^ 24 ||| B * 2 ^ 16 = 2 ^ 16 * (A * 256 + B) := by
    rw [show A * 2 ^ 24 = 2 ^ 24 * A by omega, ← Nat.two_pow_add_eq_or_of_lt (by omega)]; omega
  have s2 : 2 ^ 16 * (A * 256 + B) ||| C * 2 ^ 8 = 2 ^ 8 * (A * 65536 + B * 256 + C) := by
    rw [← Nat.two_pow_add_eq_or_of_lt (by omega)]; omega
  rw [s1, s2, ← Nat.two_pow_add_eq_or_of_lt (by omega)]; omega

theorem and_mask (base k : Nat) (hb : base < 2 ^ 32) (hk : k ≤ 32) :
    base &&& (2 ^ 32 - 2 ^ k) = base / 2 ^ k * 2 ^ k := by
  have hpos : 0 < 2 ^ k := Nat.two_pow_pos k
  have e : 2 ^ 32 - 2 ^ k = 2 ^ 32 - ((2 ^ k - 1) + 1) := by omega
  have hlt : 2 ^ k - 1 < 2 ^ 32 := by
    have : 2 ^ k ≤ 2 ^ 32 := Nat.pow_le_pow_right (by decide) hk
    omega
  apply Nat.eq_of_testBit_eq
  intro i
  rw [e, Nat.testBit_and, Nat.testBit_two_pow_sub_succ hlt, Nat.testBit_two_pow_sub_one,
    Nat.testBit_mul_two_pow, Nat.testBit_div_two_pow]
  by_cases h1 : k ≤ i
  · have : i - k + k = i := by omega
    rw [this]
    by_cases h2 : i < 32
    · simp [h1, h2]
    · have : base.testBit i = false := by
        apply Nat.testBit_lt_two_pow
        have : 2 ^ 32 ≤ 2 ^ i := Nat.pow_le_pow_right (by decide) (by omega)
        omega
      simp [this]
  · simp [h1]; omega

theorem toNat_ofNat_ip (m : Nat) (h : m < 4294967296) : (Ip4.ofNat m).toNat = m := by
  simp only [Ip4.toNat, Ip4.ofNat, UInt8.toNat_ofNat']
  omega

/-- The branch of `fromTo`, given the `Nat` values of `start` and `end`. -/
theorem fromTo_branch (start stop : UInt32) (st s : Nat) (hs : 0 < s) (hle : st + s ≤ 4294967296)
    (hst : start.toNat = st) (hstop : stop.toNat = st + s - 1) :
    (if (start != stop) = true then (start + 1, stop - 1) else (start, stop)) =
      (if st ≠ st + s - 1 then (UInt32.ofNat (st + 1), UInt32.ofNat (st + s - 1 - 1))
        else (UInt32.ofNat st, UInt32.ofNat (st + s - 1))) := by
  have hne : (start != stop) = true ↔ st ≠ st + s - 1 := by
    rw [bne_iff_ne, ← hstop, ← hst, Ne, Ne, UInt32.toNat_inj]
  by_cases h : st ≠ st + s - 1
  · rw [if_pos (hne.2 h), if_pos h]
    have h1 : (1 : UInt32).toNat = 1 := rfl
    have hle' : stop.toNat < 4294967296 := stop.toNat_lt
    congr 1
    · apply UInt32.toNat_inj.1
      rw [UInt32.toNat_add, hst, UInt32.toNat_ofNat', h1]
    · apply UInt32.toNat_inj.1
      rw [UInt32.toNat_sub_of_le _ _ (by rw [UInt32.le_iff_toNat_le, h1, hstop]; omega), hstop,
        UInt32.toNat_ofNat', h1]
      omega
  · rw [if_neg (fun x => h (hne.1 x)), if_neg h, ← hstop, ← hst, UInt32.ofNat_toNat, UInt32.ofNat_toNat]

theorem fromTo_vals (n nm : UInt32) (base k : Nat) (hk : k ≤ 32)
    (hb : base < 4294967296) (hn : n.toNat = base) (hnm : nm.toNat = 4294967296 - 2 ^ k) :
    (n &&& nm).toNat = base / 2 ^ k * 2 ^ k ∧ base / 2 ^ k * 2 ^ k + 2 ^ k ≤ 4294967296 ∧
    ((n &&& nm) + ~~~nm).toNat = base / 2 ^ k * 2 ^ k + 2 ^ k - 1 := by
  have hpos : 0 < 2 ^ k := Nat.two_pow_pos k
  have hq : 2 ^ k * 2 ^ (32 - k) = 4294967296 := by
    rw [← Nat.pow_add, show k + (32 - k) = 32 by omega]
  have hst : (n &&& nm).toNat = base / 2 ^ k * 2 ^ k := by
    rw [UInt32.toNat_and, hn, hnm]; exact and_mask base k hb hk
  have hle : base / 2 ^ k * 2 ^ k + 2 ^ k ≤ 4294967296 := by
    have h1 : base / 2 ^ k < 2 ^ (32 - k) := by
      apply Nat.div_lt_of_lt_mul; omega
    have h2 : (base / 2 ^ k + 1) * 2 ^ k ≤ 2 ^ (32 - k) * 2 ^ k := Nat.mul_le_mul_right _ h1
    rw [Nat.add_mul, Nat.mul_comm (2 ^ (32 - k))] at h2
    omega
  refine ⟨hst, hle, ?_⟩
  rw [UInt32.toNat_add, UInt32.toNat_not, hst, hnm]
  generalize base / 2 ^ k * 2 ^ k = st at *
  generalize 2 ^ k = s at *
  have : UInt32.size = 4294967296 := rfl
  omega

theorem toUip_eq {σ : Type} (ix : Gen.ipdb.IPDB) (db : IPDB σ) (ip : Bytes)
    (h1 : db.netFrom = ix.netFrom.toNat) (h2 : db.netTo = ix.netTo.toNat) :
    Gen.ipdb.IPDB_toUip ix ip = .ok (toUipToGen (db.toUip (ipOf ip))) := by
  unfold Gen.ipdb.IPDB_toUip
  rcases to4_cases ip with ⟨h, hi⟩ | ⟨i, h, hi⟩
  · rw [h, hi]; rfl
  · rw [h, hi]
    simp only [List.isEmpty_cons, Bool.false_eq_true, if_false, beU32_ip, bind, Except.bind, pure, Except.pure,
      IPDB.toUip, h1, h2, UInt32.lt_iff_toNat_lt, GT.gt, ipU32_toNat, Bool.or_eq_true, decide_eq_true_eq]
    split
    · rfl
    · simp only [toUipToGen, ← ipU32_toNat, UInt32.ofNat_toNat]

theorem InManagedRange_eq {σ : Type} (ix : Gen.ipdb.IPDB) (db : IPDB σ) (ip : Bytes)
    (h1 : db.netFrom = ix.netFrom.toNat) (h2 : db.netTo = ix.netTo.toNat) :
    Gen.ipdb.IPDB_InManagedRange ix ip = .ok (db.inManagedRange (ipOf ip)) := by
  unfold Gen.ipdb.IPDB_InManagedRange IPDB.inManagedRange
  rw [toUip_eq ix db ip h1 h2]
  cases db.toUip (ipOf ip) with
  | ok n => rfl
  | error e => cases e <;> rfl

/-- `fromTo(network, netmask)` for a CIDR prefix `p` (mask = the `p` high bits). -/
theorem fromTo_eq (network netmask : Bytes) (base p : Nat) (hb : base < 4294967296) (hp : p ≤ 32)
    (hn : ipOf network = some (Ip4.ofNat base)) (hm : netmask = (Ip4.ofNat (4294967296 - 2 ^ (32 - p))).bytes) :
    Gen.ipdb.fromTo network netmask =
      .ok (UInt32.ofNat (fromTo base p).1, UInt32.ofNat (fromTo base p).2, none) := by
  have hpos : 0 < 2 ^ (32 - p) := Nat.two_pow_pos _
  rcases to4_cases network with ⟨_, hi⟩ | ⟨i, h, hi⟩
  · rw [hn] at hi; cases hi
  rw [hn] at hi; cases hi
  obtain ⟨hst, hle, hstop⟩ := fromTo_vals (ipU32 (Ip4.ofNat base)) (ipU32 (Ip4.ofNat (4294967296 - 2 ^ (32 - p))))
    base (32 - p) (by omega) hb (by rw [ipU32_toNat, toNat_ofNat_ip _ hb])
    (by rw [ipU32_toNat, toNat_ofNat_ip _ (by omega)])
  have hbr := fromTo_branch _ _ _ _ hpos hle hst hstop
  unfold Gen.ipdb.fromTo
  have hl : ∀ j : Ip4, (Int.ofNat j.bytes.length != (4 : Int)) = false := fun _ => rfl
  rw [h, hm]
  simp only [hl]
  simp only [Ip4.bytes, List.isEmpty_cons, Bool.false_eq_true, if_false, beU32_ip, bind, Except.bind, pure,
    Except.pure]
  generalize ipU32 (Ip4.ofNat base) &&& ipU32 (Ip4.ofNat (4294967296 - 2 ^ (32 - p))) = start at *
  generalize start + ~~~ipU32 (Ip4.ofNat (4294967296 - 2 ^ (32 - p))) = stop at *
  simp only [fromTo]
  by_cases hc : (start != stop) = true
  · rw [if_pos hc] at hbr ⊢
    split at hbr
    · rename_i h'; rw [if_pos h']; obtain ⟨e1, e2⟩ := Prod.mk.inj hbr; rw [e1, e2]
    · rename_i h'; rw [if_neg h']; obtain ⟨e1, e2⟩ := Prod.mk.inj hbr; rw [e1, e2]
  · rw [if_neg hc] at hbr ⊢
    split at hbr
    · rename_i h'; rw [if_pos h']; obtain ⟨e1, e2⟩ := Prod.mk.inj hbr; rw [e1, e2]
    · rename_i h'; rw [if_neg h']; obtain ⟨e1, e2⟩ := Prod.mk.inj hbr; rw [e1, e2]

theorem duidFromHwAddr_eq (hw : Bytes) : Gen.server.duidFromHwAddr hw = sduid hw := by
  rfl

end PsaDhcp.Proofs.CodeIpdb
