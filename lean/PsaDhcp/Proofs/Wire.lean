import PsaDhcp.Model.Wire
import PsaDhcp.Spec.Inet
/-
Helper lemmas and full proofs for C13 (`Props/C13.lean` only re-exports these).
Core Lean only; no Mathlib import.
-/

namespace PsaDhcp.Proofs.Wire
open PsaDhcp PsaDhcp.Spec

/-! ### `fold`: end-around carry -/
theorem fold_le (a : Nat) : fold a ≤ 0xFFFF := by
  induction a using Nat.strongRecOn with
  | _ a ih =>
    unfold fold; split
    · apply ih; omega
    · omega

theorem fold_mod (a : Nat) : fold a % 65535 = a % 65535 := by
  induction a using Nat.strongRecOn with
  | _ a ih =>
    unfold fold; split
    · rw [ih _ (by omega)]; omega
    · rfl

theorem fold_pos (a : Nat) (h : 0 < a) : 0 < fold a := by
  induction a using Nat.strongRecOn with
  | _ a ih =>
    unfold fold; split
    · apply ih <;> omega
    · exact h

theorem fold_small (a : Nat) (h : a ≤ 0xFFFF) : fold a = a := by
  unfold fold; split
  · omega
  · rfl

/-- The end-around-carry fold of a sum plus its complemented fold is `0xFFFF`. -/
theorem fold_compl (s : Nat) : fold (s + (0xFFFF - fold s)) = 0xFFFF := by
  have h1 := fold_le s
  have h2 := fold_mod s
  have h3 := fold_le (s + (0xFFFF - fold s))
  have h4 := fold_mod (s + (0xFFFF - fold s))
  by_cases hs : s = 0
  · subst hs; rw [fold_small 0 (by omega)]; exact fold_small _ (by omega)
  · have h5 := fold_pos s (by omega)
    have h6 := fold_pos (s + (0xFFFF - fold s)) (by omega)
    omega

theorem u8_lt (x : UInt8) : x.toNat < 256 := x.toNat_lt

theorem accWords_eq (b : Bytes) : ∀ acc, acc + sum16 b < 4294967296 → accWords b acc = acc + sum16 b := by
  induction b using sum16.induct with
  | case1 a b r ih =>
    intro acc h
    rw [sum16] at h
    rw [accWords, sum16, ih _ (by omega)]
    omega
  | case2 a => intro acc h; rw [sum16] at h; rw [accWords, sum16]; omega
  | case3 => intro acc _; rw [accWords, sum16]; omega

theorem sum16_le (b : Bytes) : sum16 b ≤ 65535 * ((b.length + 1) / 2) := by
  induction b using sum16.induct with
  | case1 a b r ih =>
    have := u8_lt a; have := u8_lt b
    rw [sum16]; simp only [List.length_cons]; omega
  | case2 a => have := u8_lt a; rw [sum16]; simp only [List.length_cons, List.length_nil]; omega
  | case3 => simp [sum16]

theorem sum16_append (x y : Bytes) (h : x.length % 2 = 0) : sum16 (x ++ y) = sum16 x + sum16 y := by
  induction x using sum16.induct with
  | case1 a b r ih =>
    simp only [List.length_cons] at h
    simp only [List.cons_append, sum16]
    rw [ih (by omega)]; omega
  | case2 a => simp at h
  | case3 => simp [sum16]

theorem toNat_ofNat_mod (n : Nat) : (UInt8.ofNat (n % 256)).toNat = n % 256 := by
  rw [UInt8.toNat_ofNat']; omega

theorem sum16_put16 (n : Nat) (r : Bytes) : sum16 (put16 n ++ r) = n % 65536 + sum16 r := by
  simp only [put16, List.cons_append, List.nil_append, sum16, toNat_ofNat_mod]; omega

theorem be16_put16 (n : Nat) (r : Bytes) : be16 (put16 n ++ r) = n % 65536 := by
  simp only [put16, List.cons_append, List.nil_append, be16, toNat_ofNat_mod]; omega

theorem no_overflow (b : Bytes) (acc : Nat) (hb : b.length ≤ 65535) (ha : acc ≤ 262144) :
    accWords b acc = acc + sum16 b := by
  apply accWords_eq
  have := sum16_le b
  have : (b.length + 1) / 2 ≤ 32768 := by omega
  have : 65535 * ((b.length + 1) / 2) ≤ 65535 * 32768 := Nat.mul_le_mul_left _ this
  omega

theorem pre_length (h : IPv4) : h.pre.length = 10 := by simp [IPv4.pre, put16]
theorem optIpBytes_length (x : Option Ip4) : (optIpBytes x).length = 4 := by
  cases x <;> simp [optIpBytes, Ip4.bytes]
theorem post_length (h : IPv4) : h.post.length = 8 := by simp [IPv4.post, optIpBytes_length]
theorem put16_length (n : Nat) : (put16 n).length = 2 := rfl

theorem hdr_take (h : IPv4) (c : Nat) (d : Bytes) :
    (h.pre ++ put16 c ++ h.post ++ d).take 20 = h.pre ++ put16 c ++ h.post := by
  apply List.take_left'
  simp [pre_length, post_length, put16_length]

theorem ip_checksum_verifies (h : IPv4) : IpHeaderVerifies h.assemble := by
  unfold IpHeaderVerifies Verifies IPv4.assemble
  rw [hdr_take]
  generalize hc : ipv4csum (h.pre ++ [0, 0] ++ h.post) 0 = c
  have hpre : h.pre.length % 2 = 0 := by rw [pre_length]
  have e1 : sum16 (h.pre ++ [0, 0] ++ h.post) = sum16 h.pre + sum16 h.post := by
    rw [List.append_assoc, sum16_append _ _ hpre]; simp [sum16]
  have hb := sum16_le (h.pre ++ [0, 0] ++ h.post)
  have hlen : (h.pre ++ [0, 0] ++ h.post).length = 20 := by simp [pre_length, post_length]
  rw [hlen] at hb
  have e2 : accWords (h.pre ++ [0, 0] ++ h.post) 0 = sum16 h.pre + sum16 h.post := by
    rw [accWords_eq _ _ (by omega), e1]; omega
  have e3 : sum16 (h.pre ++ put16 c ++ h.post) = sum16 h.pre + (c % 65536 + sum16 h.post) := by
    rw [List.append_assoc, sum16_append _ _ hpre, sum16_put16]
  unfold ipv4csum at hc
  rw [e2] at hc
  rw [e3]
  have := fold_compl (sum16 h.pre + sum16 h.post)
  have hf := fold_le (sum16 h.pre + sum16 h.post)
  have : sum16 h.pre + (c % 65536 + sum16 h.post)
      = sum16 h.pre + sum16 h.post + (0xFFFF - fold (sum16 h.pre + sum16 h.post)) := by omega
  rw [this]; assumption

theorem dwc_length (h : IPv4) : h.dataWithCsum.length = h.data.length := by
  unfold IPv4.dataWithCsum; split
  · simp only [List.length_append, List.length_take, List.length_drop, put16_length]; omega
  · rfl

theorem assemble_length (h : IPv4) : h.assemble.length = 20 + h.data.length := by
  simp only [IPv4.assemble, List.length_append, pre_length, post_length, put16_length, dwc_length]

theorem ip_version_ihl_length (h : IPv4) :
    h.assemble.length = 20 + h.data.length ∧ h.assemble[0]? = some 0x45 :=
  ⟨assemble_length h, by simp [IPv4.assemble, IPv4.pre]⟩

theorem ip_total_length (h : IPv4) (hl : 20 + h.data.length ≤ 65535) :
    be16 (h.assemble.drop 2) = h.assemble.length := by
  rw [assemble_length]
  simp only [IPv4.assemble, IPv4.pre, List.cons_append, List.nil_append, List.append_assoc,
    List.drop_succ_cons, List.drop_zero, be16_put16]
  omega

theorem udp_assemble_length (u : UDP) : u.assemble.length = 8 + u.data.length := by
  simp only [UDP.assemble, List.length_append, put16_length, List.length_cons, List.length_nil]

theorem udp_length (u : UDP) (hl : 8 + u.data.length ≤ 65535) :
    be16 (u.assemble.drop 4) = u.assemble.length := by
  rw [udp_assemble_length]
  simp only [UDP.assemble, put16, List.cons_append, List.nil_append,
    List.drop_succ_cons, List.drop_zero, be16, toNat_ofNat_mod]
  omega

theorem pseudohdrcsum_eq (proto : UInt8) (src dst : Ip4) :
    pseudohdrcsum proto src dst = sum16 src.bytes + sum16 dst.bytes + proto.toNat := by
  simp only [pseudohdrcsum, Ip4.bytes, sum16]; omega

theorem pseudohdrcsum_le (proto : UInt8) (src dst : Ip4) : pseudohdrcsum proto src dst ≤ 262395 := by
  have := u8_lt proto
  have := u8_lt src.a; have := u8_lt src.b; have := u8_lt src.c; have := u8_lt src.d
  have := u8_lt dst.a; have := u8_lt dst.b; have := u8_lt dst.c; have := u8_lt dst.d
  unfold pseudohdrcsum; omega

/-- Core of the UDP checksum argument: a segment whose bytes 6,7 are replaced by the checksum
computed over the segment with zeroes there verifies against the pseudo header. -/
theorem udp_verifies_core (proto : UInt8) (src dst : Ip4) (H tail : Bytes) (hH : H.length = 6)
    (hl : 8 + tail.length ≤ 65535) :
    UdpVerifies src dst proto (H ++ put16 (udp4csum proto src dst (H ++ [0, 0] ++ tail)) ++ tail) := by
  have hH2 : H.length % 2 = 0 := by rw [hH]
  have hlenD : (H ++ [0, 0] ++ tail).length = 8 + tail.length := by simp [hH]; omega
  have hsD : sum16 (H ++ [0, 0] ++ tail) = sum16 H + sum16 tail := by
    rw [List.append_assoc, sum16_append _ _ hH2]; simp [sum16]
  have hb := sum16_le (H ++ [0, 0] ++ tail)
  rw [hlenD] at hb
  have hb2 : sum16 (H ++ [0, 0] ++ tail) ≤ 2147450880 :=
    Nat.le_trans hb (Nat.mul_le_mul_left 65535 (by omega : (8 + tail.length + 1) / 2 ≤ 32768))
  clear hb
  have hp := pseudohdrcsum_le proto src dst
  have hC : udp4csum proto src dst (H ++ [0, 0] ++ tail)
      = 0xFFFF - fold (pseudohdrcsum proto src dst + (8 + tail.length) + (sum16 H + sum16 tail)) := by
    simp only [udp4csum, ipv4csum, hlenD]
    have e : ((pseudohdrcsum proto src dst + (8 + tail.length) % 4294967296 % 65536) % 4294967296
        + (8 + tail.length) % 4294967296 / 65536) % 4294967296
        = pseudohdrcsum proto src dst + (8 + tail.length) := by omega
    rw [e, accWords_eq _ _ (by omega), hsD]
  generalize udp4csum proto src dst (H ++ [0, 0] ++ tail) = C at hC
  unfold UdpVerifies Verifies pseudoSum
  have hlenS : (H ++ put16 C ++ tail).length = 8 + tail.length := by simp [hH, put16_length]; omega
  have hsS : sum16 (H ++ put16 C ++ tail) = sum16 H + (C % 65536 + sum16 tail) := by
    rw [List.append_assoc, sum16_append _ _ hH2, sum16_put16]
  rw [hlenS, hsS, ← pseudohdrcsum_eq]
  generalize hS : pseudohdrcsum proto src dst + (8 + tail.length) + (sum16 H + sum16 tail) = S at hC
  have h1 := fold_compl S
  have h2 := fold_le S
  have : pseudohdrcsum proto src dst + (8 + tail.length)
        + (sum16 H + (C % 65536 + sum16 tail)) = S + (0xFFFF - fold S) := by omega
  rw [this]; exact h1

/-- The six header bytes of a UDP datagram before the checksum field. -/
def udpH (u : UDP) : Bytes := put16 u.srcPort ++ put16 u.dstPort ++ put16 (8 + u.data.length)

theorem udpH_length (u : UDP) : (udpH u).length = 6 := rfl

theorem udp_assemble_eq (u : UDP) : u.assemble = udpH u ++ [0, 0] ++ u.data := rfl

theorem udp_take6 (u : UDP) : u.assemble.take 6 = udpH u := by
  rw [udp_assemble_eq, List.append_assoc]; exact List.take_left' (udpH_length u)

theorem udp_drop8 (u : UDP) : u.assemble.drop 8 = u.data := by
  rw [udp_assemble_eq]; exact List.drop_left' (by simp [udpH_length])

theorem assemble_drop20 (h : IPv4) : h.assemble.drop 20 = h.dataWithCsum := by
  unfold IPv4.assemble
  exact List.drop_left' (by simp [pre_length, post_length, put16_length])

theorem dwc_udp (h : IPv4) (u : UDP) (hd : h.data = u.assemble) (hp : h.proto = 0x11) :
    h.dataWithCsum
      = udpH u ++ put16 (udp4csum h.proto (optIp h.src) (optIp h.dst) (udpH u ++ [0, 0] ++ u.data)) ++ u.data := by
  unfold IPv4.dataWithCsum
  rw [if_pos ⟨hp, by rw [hd, udp_assemble_length]; omega⟩, hd, udp_take6, udp_drop8, udp_assemble_eq]

theorem udp_checksum_verifies (h : IPv4) (u : UDP) (hd : h.data = u.assemble) (hp : h.proto = 0x11)
    (hl : 20 + 8 + u.data.length ≤ 65535) :
    UdpVerifies (optIp h.src) (optIp h.dst) h.proto (h.assemble.drop 20) := by
  rw [assemble_drop20, dwc_udp h u hd hp]
  exact udp_verifies_core _ _ _ _ _ (udpH_length u) (by omega)

theorem idx_ok (b : Bytes) (i : Nat) (s : String) (h : i < b.length) : idx b i s = .ok b[i] := by
  unfold idx; rw [List.getElem?_eq_getElem h]; rfl

theorem be16At_ok (b : Bytes) (i : Nat) (s : String) (h : i + 1 < b.length) :
    be16At b i s = .ok (be16 (b.drop i)) := by
  unfold be16At
  rw [idx_ok b i s (by omega), idx_ok b (i + 1) s h]
  have : b.drop i = b[i] :: b[i+1] :: b.drop (i + 2) := by
    rw [List.drop_eq_getElem_cons (by omega), List.drop_eq_getElem_cons (by omega)]
  rw [this]; rfl

theorem slice_ok (b : Bytes) (lo hi : Nat) (s : String) (h : lo ≤ hi ∧ hi ≤ b.length) :
    slice b lo hi s = .ok ((b.take hi).drop lo) := by
  unfold slice; rw [if_pos h]; rfl

theorem decodeUDP_short (b : Bytes) (h : b.length < 8) : decodeUDP b = .error (.reject "short udp") := by
  unfold decodeUDP; simp only [h, if_true]; rfl

theorem decodeUDP_eq (b : Bytes) (h : 8 ≤ b.length) :
    decodeUDP b = if be16 (b.drop 4) ≠ b.length then .error (.reject "truncated udp")
      else .ok ⟨be16 b, be16 (b.drop 2), b.drop 8⟩ := by
  have hn : ¬ (b.length < 8) := by omega
  unfold decodeUDP
  rw [if_neg hn, be16At_ok b 4 _ (by omega), be16At_ok b 0 _ (by omega), be16At_ok b 2 _ (by omega),
    slice_ok b 8 b.length _ ⟨h, Nat.le_refl _⟩, List.take_length, List.drop_zero]
  by_cases hc : be16 (b.drop 4) = b.length
  · simp [hc, bind, Except.bind, pure, Except.pure]
  · simp [hc, bind, Except.bind, throw, throwThe, MonadExceptOf.throw]

theorem decodeIPv4_short (b : Bytes) (h : b.length < 20) : decodeIPv4 b = .error (.reject "short ipv4") := by
  unfold decodeIPv4; simp only [h, if_true]; rfl

theorem decodeIPv4_eq (b : Bytes) (h : 20 ≤ b.length) :
    decodeIPv4 b =
      if b[0].toNat / 16 ≠ 4 ∨ b.length < (b[0].toNat % 16 * 4) % 256 ∨ (b[0].toNat % 16 * 4) % 256 < 20 then
        .error (.reject "invalid packet")
      else if be16 (b.drop 2) ≠ b.length then .error (.reject "truncated packet")
      else .ok { ident := be16 (b.drop 4), flags := be16 (b.drop 6), ttl := b[8], proto := b[9],
                 csum := be16 (b.drop 10), src := some ⟨b[12], b[13], b[14], b[15]⟩,
                 dst := some ⟨b[16], b[17], b[18], b[19]⟩,
                 data := b.drop ((b[0].toNat % 16 * 4) % 256) } := by
  have hn : ¬ (b.length < 20) := by omega
  unfold decodeIPv4
  rw [if_neg hn, idx_ok b 0 _ (by omega), be16At_ok b 2 _ (by omega), be16At_ok b 4 _ (by omega),
    be16At_ok b 6 _ (by omega), idx_ok b 8 _ (by omega), idx_ok b 9 _ (by omega),
    be16At_ok b 10 _ (by omega), idx_ok b 12 _ (by omega), idx_ok b 13 _ (by omega),
    idx_ok b 14 _ (by omega), idx_ok b 15 _ (by omega), idx_ok b 16 _ (by omega),
    idx_ok b 17 _ (by omega), idx_ok b 18 _ (by omega), idx_ok b 19 _ (by omega)]
  by_cases hv : b[0].toNat / 16 ≠ 4 ∨ b.length < (b[0].toNat % 16 * 4) % 256 ∨ (b[0].toNat % 16 * 4) % 256 < 20
  · simp only [if_pos hv, bind, Except.bind, throw, throwThe, MonadExceptOf.throw]
  · by_cases hc : be16 (b.drop 2) = b.length
    · have hs := slice_ok b ((b[0].toNat % 16 * 4) % 256) b.length "ip.go:78" ⟨by omega, Nat.le_refl _⟩
      simp only [if_neg hv, hc, bind, Except.bind, pure, Except.pure, hs, List.take_length, ne_eq,
        not_true_eq_false, if_false]
    · simp [if_neg hv, hc, bind, Except.bind, throw, throwThe, MonadExceptOf.throw]

theorem decodeARP_short (b : Bytes) (h : b.length ≠ 28) : decodeARP b = .error (.reject "short arp") := by
  unfold decodeARP; simp only [h, ne_eq, not_false_eq_true, if_true]; rfl

theorem decodeARP_eq (b : Bytes) (h : b.length = 28) :
    decodeARP b = .ok { senderMAC := (b.take 14).drop 8, senderIP := some ⟨b[14], b[15], b[16], b[17]⟩,
                        targetMAC := (b.take 24).drop 18, targetIP := some ⟨b[24], b[25], b[26], b[27]⟩,
                        opcode := b[7] } := by
  have hn : ¬ (b.length ≠ 28) := by omega
  unfold decodeARP
  rw [if_neg hn, idx_ok b 7 _ (by omega), slice_ok b 8 14 _ (by omega), idx_ok b 14 _ (by omega),
    idx_ok b 15 _ (by omega), idx_ok b 16 _ (by omega), idx_ok b 17 _ (by omega),
    slice_ok b 18 24 _ (by omega), idx_ok b 24 _ (by omega), idx_ok b 25 _ (by omega),
    idx_ok b 26 _ (by omega), idx_ok b 27 _ (by omega)]
  rfl

theorem decoder_strict_udp (b : Bytes) (u : UDP) (h : decodeUDP b = .ok u) :
    be16 (b.drop 4) = b.length ∧ 8 ≤ b.length ∧ u.data = b.drop 8 := by
  by_cases hs : b.length < 8
  · rw [decodeUDP_short b hs] at h; cases h
  · rw [decodeUDP_eq b (by omega)] at h
    split at h
    · cases h
    · cases h; exact ⟨by omega, by omega, rfl⟩

theorem decoder_strict_ip (b : Bytes) (p : IPv4) (h : decodeIPv4 b = .ok p) :
    be16 (b.drop 2) = b.length ∧ 20 ≤ b.length ∧
    ∃ b0 ihl, b[0]? = some b0 ∧ b0.toNat / 16 = 4 ∧ ihl = b0.toNat % 16 * 4 ∧ 20 ≤ ihl ∧ ihl ≤ b.length ∧
      p.data = b.drop ihl := by
  by_cases hs : b.length < 20
  · rw [decodeIPv4_short b hs] at h; cases h
  · have h20 : 20 ≤ b.length := by omega
    rw [decodeIPv4_eq b h20] at h
    split at h
    · cases h
    · split at h
      · cases h
      · cases h
        refine ⟨by omega, h20, b[0], _, List.getElem?_eq_getElem (by omega), by omega, rfl, by omega, by omega, ?_⟩
        have : b[0].toNat % 16 * 4 % 256 = b[0].toNat % 16 * 4 := by omega
        simp only [this]

theorem decoders_never_panic (b : Bytes) (site : String) :
    decodeIPv4 b ≠ .error (.panic site) ∧ decodeUDP b ≠ .error (.panic site) ∧ decodeARP b ≠ .error (.panic site) := by
  refine ⟨?_, ?_, ?_⟩
  · by_cases hs : b.length < 20
    · rw [decodeIPv4_short b hs]; intro h; cases h
    · rw [decodeIPv4_eq b (by omega)]
      split
      · intro h; cases h
      · split <;> (intro h; cases h)
  · by_cases hs : b.length < 8
    · rw [decodeUDP_short b hs]; intro h; cases h
    · rw [decodeUDP_eq b (by omega)]
      split <;> (intro h; cases h)
  · by_cases hs : b.length = 28
    · rw [decodeARP_eq b hs]; intro h; cases h
    · rw [decodeARP_short b hs]; intro h; cases h

theorem arp_sender_ip_offset (b : Bytes) (p : ARP) (h : decodeARP b = .ok p) :
    b.length = 28 ∧ p.senderIP = Ip4.ofBytes? ((b.drop 14).take 4) ∧ p.senderMAC = (b.drop 8).take 6 := by
  by_cases hs : b.length = 28
  · rw [decodeARP_eq b hs] at h
    cases h
    refine ⟨hs, ?_, ?_⟩
    · have : (b.drop 14).take 4 = [b[14], b[15], b[16], b[17]] := by
        rw [List.drop_eq_getElem_cons (by omega), List.drop_eq_getElem_cons (by omega),
          List.drop_eq_getElem_cons (by omega), List.drop_eq_getElem_cons (by omega)]
        rfl
      rw [this]; rfl
    · show (b.take 14).drop 8 = (b.drop 8).take 6
      rw [List.drop_take]
  · rw [decodeARP_short b hs] at h; cases h

theorem be16_split (n : Nat) (h : n < 65536) : n / 256 % 256 * 256 + n % 256 = n := by omega

theorem decodeUDP_hdr (u : UDP) (c : Nat) (hs : u.srcPort < 65536) (hd : u.dstPort < 65536)
    (hl : 8 + u.data.length ≤ 65535) : decodeUDP (udpH u ++ put16 c ++ u.data) = .ok u := by
  have hlen : (udpH u ++ put16 c ++ u.data).length = 8 + u.data.length := by
    simp only [List.length_append, udpH_length, put16_length]
  rw [decodeUDP_eq _ (by omega), hlen]
  simp only [udpH, put16, List.cons_append, List.nil_append,
    List.drop_succ_cons, List.drop_zero, be16, toNat_ofNat_mod]
  rw [be16_split _ hs, be16_split _ hd, be16_split (8 + u.data.length) (by omega)]
  simp

theorem decode_assemble_udp (u : UDP) (hs : u.srcPort < 65536) (hd : u.dstPort < 65536)
    (hl : 8 + u.data.length ≤ 65535) : decodeUDP u.assemble = .ok u :=
  decodeUDP_hdr u 0 hs hd hl

theorem decode_udp_inside_ip (h : IPv4) (u : UDP) (hd : h.data = u.assemble) (hs : u.srcPort < 65536)
    (hdp : u.dstPort < 65536) (hl : 20 + 8 + u.data.length ≤ 65535) :
    decodeUDP h.dataWithCsum = .ok u := by
  by_cases hp : h.proto = 0x11
  · rw [dwc_udp h u hd hp]; exact decodeUDP_hdr u _ hs hdp (by omega)
  · unfold IPv4.dataWithCsum
    rw [if_neg (fun hc => hp hc.1), hd]
    exact decode_assemble_udp u hs hdp (by omega)

theorem optIpBytes_eq (x : Option Ip4) : optIpBytes x = (optIp x).bytes := by
  cases x <;> rfl

/-- The assembled packet as an explicit list of its twenty header bytes followed by the payload. -/
theorem assemble_cons (h : IPv4) (c : Nat) (hc : c = ipv4csum (h.pre ++ [0, 0] ++ h.post) 0) :
    h.assemble =
      0x45 :: 0x00 :: UInt8.ofNat ((20 + h.data.length) / 256 % 256) :: UInt8.ofNat ((20 + h.data.length) % 256)
        :: UInt8.ofNat (h.ident / 256 % 256) :: UInt8.ofNat (h.ident % 256)
        :: UInt8.ofNat (h.flags / 256 % 256) :: UInt8.ofNat (h.flags % 256)
        :: h.ttl :: h.proto :: UInt8.ofNat (c / 256 % 256) :: UInt8.ofNat (c % 256)
        :: (optIp h.src).a :: (optIp h.src).b :: (optIp h.src).c :: (optIp h.src).d
        :: (optIp h.dst).a :: (optIp h.dst).b :: (optIp h.dst).c :: (optIp h.dst).d :: h.dataWithCsum := by
  subst hc
  simp only [IPv4.assemble, IPv4.post, optIpBytes_eq, Ip4.bytes]
  simp only [IPv4.pre, put16, List.cons_append, List.nil_append]

theorem decode_assemble_ip (h : IPv4) (hi : h.ident < 65536) (hf : h.flags < 65536)
    (hl : 20 + h.data.length ≤ 65535) :
    ∃ c, decodeIPv4 h.assemble = .ok { h with csum := c, src := some (optIp h.src), dst := some (optIp h.dst),
                                               data := h.dataWithCsum } := by
  generalize hc : ipv4csum (h.pre ++ [0, 0] ++ h.post) 0 = c
  refine ⟨c / 256 % 256 * 256 + c % 256, ?_⟩
  rw [assemble_cons h c hc.symm, decodeIPv4_eq _ (by simp)]
  simp only [List.getElem_cons_zero, List.getElem_cons_succ, List.drop_succ_cons, List.drop_zero,
    List.length_cons, be16, toNat_ofNat_mod, dwc_length, be16_split _ hi, be16_split _ hf,
    be16_split (20 + h.data.length) (by omega)]
  have h69 : UInt8.toNat 69 = 69 := rfl
  simp only [h69, Nat.reduceMod, Nat.reduceMul, Nat.reduceDiv, List.drop_succ_cons, List.drop_zero]
  rw [if_neg (by omega), if_neg (by omega)]

/-! ### ARP -/

theorem overlay_length (buf : Bytes) (off : Nat) (src : Bytes) (h : off ≤ buf.length) :
    (overlay buf off src).length = buf.length := by
  simp only [overlay, List.length_append, List.length_take, List.length_drop]; omega

theorem overlay_get_lt (buf : Bytes) (off : Nat) (src : Bytes) (i : Nat) (hi : i < off) (h : off ≤ buf.length) :
    (overlay buf off src)[i]? = buf[i]? := by
  unfold overlay
  rw [List.append_assoc, List.getElem?_append_left (by simp only [List.length_take]; omega),
    List.getElem?_take, if_pos hi]

theorem overlay_get_mid (buf : Bytes) (off : Nat) (src : Bytes) (j : Nat) (hj : j < src.length)
    (h : off + src.length ≤ buf.length) : (overlay buf off src)[off + j]? = src[j]? := by
  unfold overlay
  have ht : src.take (buf.length - off) = src := List.take_of_length_le (by omega)
  rw [ht, List.append_assoc, List.getElem?_append_right (by simp only [List.length_take]; omega),
    List.getElem?_append_left (by simp only [List.length_take]; omega)]
  congr 1
  simp only [List.length_take]; omega




/-- The zeroed 28-byte ARP buffer with the fixed header filled in. -/
def arpBase (op : UInt8) : Bytes := [0x00, 0x01, 0x08, 0x00, 0x06, 0x04, 0x00, op] ++ List.replicate 20 0

theorem arpBase_length (op : UInt8) : (arpBase op).length = 28 := rfl

theorem arp_assemble_eq (a : ARP) (si ti : Ip4) (hs : a.senderIP = some si) (ht : a.targetIP = some ti) :
    a.assemble = overlay (overlay (overlay (overlay (arpBase a.opcode) 8 a.senderMAC) 14 si.bytes) 18 a.targetMAC)
      24 ti.bytes := by
  simp only [ARP.assemble, hs, ht, arpBase]

theorem arp_round_trip_ips (a : ARP) (si ti : Ip4) (hs : a.senderIP = some si) (ht : a.targetIP = some ti) :
    ∃ p, decodeARP a.assemble = .ok p ∧ p.opcode = a.opcode ∧ p.senderIP = some si ∧ p.targetIP = some ti := by
  rw [arp_assemble_eq a si ti hs ht]
  generalize hB1 : overlay (arpBase a.opcode) 8 a.senderMAC = B1
  generalize hB2 : overlay B1 14 si.bytes = B2
  generalize hB3 : overlay B2 18 a.targetMAC = B3
  generalize hB4 : overlay B3 24 ti.bytes = B4
  have l1 : B1.length = 28 := by rw [← hB1, overlay_length _ _ _ (by rw [arpBase_length]; omega), arpBase_length]
  have l2 : B2.length = 28 := by rw [← hB2, overlay_length _ _ _ (by omega), l1]
  have l3 : B3.length = 28 := by rw [← hB3, overlay_length _ _ _ (by omega), l2]
  have l4 : B4.length = 28 := by rw [← hB4, overlay_length _ _ _ (by omega), l3]
  have hsi : si.bytes.length = 4 := rfl
  have hti : ti.bytes.length = 4 := rfl
  -- opcode
  have g7 : B4[7]? = some a.opcode := by
    rw [← hB4, overlay_get_lt _ _ _ _ (by omega) (by omega), ← hB3, overlay_get_lt _ _ _ _ (by omega) (by omega),
      ← hB2, overlay_get_lt _ _ _ _ (by omega) (by omega), ← hB1,
      overlay_get_lt _ _ _ _ (by omega) (by rw [arpBase_length]; omega)]
    rfl
  -- sender address
  have gs : ∀ j, j < 4 → B4[14 + j]? = si.bytes[j]? := by
    intro j hj
    rw [← hB4, overlay_get_lt _ _ _ _ (by omega) (by omega), ← hB3, overlay_get_lt _ _ _ _ (by omega) (by omega),
      ← hB2, overlay_get_mid _ _ _ _ (by omega) (by omega)]
  -- target address
  have gt : ∀ j, j < 4 → B4[24 + j]? = ti.bytes[j]? := by
    intro j hj
    rw [← hB4, overlay_get_mid _ _ _ _ (by omega) (by omega)]
  refine ⟨_, decodeARP_eq B4 l4, ?_, ?_, ?_⟩
  · exact (List.getElem_eq_iff _).2 g7
  · have e0 : B4[14] = si.a := (List.getElem_eq_iff _).2 (gs 0 (by omega))
    have e1 : B4[15] = si.b := (List.getElem_eq_iff _).2 (gs 1 (by omega))
    have e2 : B4[16] = si.c := (List.getElem_eq_iff _).2 (gs 2 (by omega))
    have e3 : B4[17] = si.d := (List.getElem_eq_iff _).2 (gs 3 (by omega))
    simp only [e0, e1, e2, e3]
  · have e0 : B4[24] = ti.a := (List.getElem_eq_iff _).2 (gt 0 (by omega))
    have e1 : B4[25] = ti.b := (List.getElem_eq_iff _).2 (gt 1 (by omega))
    have e2 : B4[26] = ti.c := (List.getElem_eq_iff _).2 (gt 2 (by omega))
    have e3 : B4[27] = ti.d := (List.getElem_eq_iff _).2 (gt 3 (by omega))
    simp only [e0, e1, e2, e3]

theorem arp_round_trip (a : ARP) (si ti : Ip4) (hs : a.senderIP = some si) (ht : a.targetIP = some ti)
    (hsm : a.senderMAC.length = 6) (htm : a.targetMAC.length = 6) : decodeARP a.assemble = .ok a := by
  obtain ⟨sm, sip, tm, tip, op⟩ := a
  simp only at hs ht hsm htm
  subst hs ht
  obtain _ | ⟨s0, _ | ⟨s1, _ | ⟨s2, _ | ⟨s3, _ | ⟨s4, _ | ⟨s5, _ | ⟨s6, sr⟩⟩⟩⟩⟩⟩⟩ := sm <;>
    simp only [List.length_cons, List.length_nil] at hsm <;> try omega
  obtain _ | ⟨t0, _ | ⟨t1, _ | ⟨t2, _ | ⟨t3, _ | ⟨t4, _ | ⟨t5, _ | ⟨t6, tr⟩⟩⟩⟩⟩⟩⟩ := tm <;>
    simp only [List.length_cons, List.length_nil] at htm <;> try omega
  have e : ARP.assemble ⟨[s0, s1, s2, s3, s4, s5], some si, [t0, t1, t2, t3, t4, t5], some ti, op⟩
      = [0x00, 0x01, 0x08, 0x00, 0x06, 0x04, 0x00, op, s0, s1, s2, s3, s4, s5, si.a, si.b, si.c, si.d,
         t0, t1, t2, t3, t4, t5, ti.a, ti.b, ti.c, ti.d] := by
    simp [ARP.assemble, overlay, Ip4.bytes]
  rw [e, decodeARP_eq _ rfl]
  rfl

end PsaDhcp.Proofs.Wire
