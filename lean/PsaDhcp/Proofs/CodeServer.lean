import PsaDhcp.Code.Bridge3
import PsaDhcp.Proofs.CodeReplies
import PsaDhcp.Proofs.CodeDhcpOpts
import PsaDhcp.Proofs.CodeIpdb
import PsaDhcp.Proofs.CodeVerify
/-
Translated server handlers = model `handle` (statements fixed in Props/C04Code.lean).

Layout.  The database steps of the model (`IPDB.lookupByDuid`, `findIP`, `updateClient`,
`inManagedRange`) are abstracted into a record of functions `Ops`: the handlers never look inside
them, and keeping them opaque keeps every definitional check of the kernel away from the address
arithmetic inside them.  `aEnv`/`aHandle0` are `srvEnv`/`handle` over `Ops` (equal by `rfl` at
`Ops.of S`); `aHandle` is the same function laid out along the control flow of the Go code
(`handleMsg` → `handleDiscover` / `handleRequest`).
-/
set_option linter.unusedSimpArgs false
set_option linter.unusedVariables false
namespace PsaDhcp.Proofs.CodeServer
open PsaDhcp PsaDhcp.Go PsaDhcp.Code PsaDhcp.Proofs

/-! ### addresses -/

theorem ipOf_ipToGen (i : Ip4) : ipOf (ipToGen i) = some i := by
  cases i; rfl

theorem ipOf_optIpToGen (a : Option Ip4) : ipOf (optIpToGen a) = a := by
  cases a with
  | none => rfl
  | some i => exact ipOf_ipToGen i

/-- Every `net.IP` with a 4-byte form is that form or the 16-byte form. -/
theorem ipOf_forms (x : Bytes) (s : Ip4) (h : ipOf x = some s) : x = s.bytes ∨ x = ipToGen s := by
  unfold ipOf Go.to4 at h
  split at h
  · rename_i h4
    match x, h4 with
    | [a, b, c, d], _ =>
      simp only [Ip4.ofBytes?, Option.some.injEq] at h
      subst h; left; rfl
  · split at h
    · rename_i h16
      obtain ⟨hl, hp⟩ := h16
      right
      have hx : x = x.take 12 ++ x.drop 12 := (List.take_append_drop 12 x).symm
      have hd : (x.drop 12).length = 4 := by simp [hl]
      match hdx : x.drop 12, hd with
      | [a, b, c, d], _ =>
        rw [hdx] at h
        simp only [Ip4.ofBytes?, Option.some.injEq] at h
        subst h
        rw [hx, hp, hdx]; rfl
    · simp [Ip4.ofBytes?] at h

/-- `x.Equal(y)` for the server's own address `x` (either form) and a decoded option address. -/
theorem ipEqual_self_opt (x : Bytes) (s : Ip4) (h : ipOf x = some s) (a : Option Ip4) :
    Go.ipEqual x (optIpToGen a) = decide (a = some s) := by
  rcases ipOf_forms x s h with rfl | rfl
  · cases a with
    | none => simp [optIpToGen, Go.ipEqual, Ip4.bytes]
    | some i =>
      cases i; cases s
      simp [optIpToGen, Go.ipEqual, Ip4.bytes, ipToGen, Go.netIPv4, Go.v4InV6Prefix]
      grind
  · have := CodeVerify.ipEqual_optIpToGen (some s) a
    have e : optIpToGen (some s) = ipToGen s := rfl
    rw [e] at this
    rw [this]
    simp [eq_comm]

theorem ipEqual_opt_self (x : Bytes) (s : Ip4) (h : ipOf x = some s) (a : Option Ip4) :
    Go.ipEqual (optIpToGen a) x = decide (a = some s) := by
  rcases ipOf_forms x s h with rfl | rfl
  · cases a with
    | none => simp [optIpToGen, Go.ipEqual, Ip4.bytes]
    | some i =>
      cases i; cases s
      simp [optIpToGen, Go.ipEqual, Ip4.bytes, ipToGen, Go.netIPv4, Go.v4InV6Prefix]
      grind
  · exact CodeVerify.ipEqual_optIpToGen a (some s)

theorem ipEqual_ip_self (x : Bytes) (s : Ip4) (h : ipOf x = some s) (d : Ip4) :
    Go.ipEqual (ipToGen d) x = decide (d = s) := by
  have := ipEqual_opt_self x s h (some d)
  simpa [optIpToGen] using this

theorem ipEqual_ip_bcast (d : Ip4) :
    Go.ipEqual (ipToGen d) (Go.netIPv4 255 255 255 255) = decide (d = Ip4.bcast) := by
  have := CodeVerify.ipEqual_bcast (some d)
  simpa [optIpToGen] using this

theorem ipToGen_isEmpty (i : Ip4) : (ipToGen i).isEmpty = false := by
  simp [ipToGen, Go.netIPv4, Go.v4InV6Prefix]

theorem u8_ofNat_of_eq (x : UInt8) (n : Nat) (h : n = x.toNat) : UInt8.ofNat n = x := by
  subst h; exact UInt8.ofNat_toNat

theorem ip4_ofNat_toNat (x : Ip4) : Ip4.ofNat x.toNat = x := by
  obtain ⟨a, b, c, d⟩ := x
  have ha := a.toNat_lt; have hb := b.toNat_lt; have hc := c.toNat_lt; have hd := d.toNat_lt
  simp only [Ip4.ofNat, Ip4.toNat, Ip4.mk.injEq]
  refine ⟨u8_ofNat_of_eq _ _ ?_, u8_ofNat_of_eq _ _ ?_, u8_ofNat_of_eq _ _ ?_, u8_ofNat_of_eq _ _ ?_⟩ <;> omega

/-- `desiredIP.Equal(lease)` against the model's comparison of 32-bit values. -/
theorem want_eq_iff (want : Ip4) (lease : Nat) (h : lease < 4294967296) :
    want = Ip4.ofNat lease ↔ want.toNat = lease := by
  constructor
  · intro e; rw [e]; exact CodeIpdb.toNat_ofNat_ip lease h
  · intro e; rw [← e]; exact (ip4_ofNat_toNat want).symm

theorem u32_roundtrip (n : Nat) (h : n < 4294967296) : (UInt32.ofNat n).toNat = n := by
  simp [UInt32.toNat_ofNat']; omega

theorem u16_roundtrip (n : Nat) (h : n < 65536) : (UInt16.ofNat n).toNat = n := by
  simp [UInt16.toNat_ofNat']; omega

theorem map_optOf_optToGen (l : List Opt) : (l.map optToGen).map optOf = l := by
  simp [List.map_map, Function.comp_def, CodeReplies.optOf_optToGen]

/-! ### field projections of the converted message and options -/

theorem msg_Options (m : Msg) : (msgToGen m).Options = m.options.map optToGen := by cases m; rfl
theorem msg_ClientMAC (m : Msg) : (msgToGen m).ClientMAC = m.chaddr := by cases m; rfl
theorem msg_Xid (m : Msg) : (msgToGen m).Xid = UInt32.ofNat m.xid := by cases m; rfl
theorem msg_Flags (m : Msg) : (msgToGen m).Flags = UInt16.ofNat m.flags := by cases m; rfl
theorem dopts_cid (d : DecodedOptions) : (doptsToGen d).ClientIdentifier = d.clientIdentifier := by cases d; rfl
theorem dopts_req (d : DecodedOptions) : (doptsToGen d).RequestedIP = optIpToGen d.requestedIP := by cases d; rfl
theorem dopts_sid (d : DecodedOptions) : (doptsToGen d).ServerIdentifier = optIpToGen d.serverIdentifier := by cases d; rfl
theorem dopts_type (d : DecodedOptions) : (doptsToGen d).MessageType = d.messageType := by cases d; rfl

theorem ipRes_ok (a : Nat) : ipResToGen (.ok a) = (ipToGen (Ip4.ofNat a), none) := rfl
theorem ipRes_err (e : DbErr) : ipResToGen (.error e) = ([], some "error") := rfl
theorem unitRes_ok (a : Unit) : unitResToGen (.ok a) = none := rfl
theorem unitRes_err (e : DbErr) : unitResToGen (.error e) = some "error" := rfl

/-! ### the monad `StateT σ R`, one equation each -/
section monad
variable {σ α β : Type}

theorem st_bind (x : StateT σ R α) (f : α → StateT σ R β) (st : σ) :
    (x >>= f) st = (match x st with | .ok (a, st') => f a st' | .error e => .error e) := by
  show StateT.bind x f st = _
  unfold StateT.bind
  show Except.bind _ _ = _
  unfold Except.bind
  cases x st with
  | error e => rfl
  | ok v => rfl

theorem st_pure (a : α) (st : σ) : (pure a : StateT σ R α) st = .ok (a, st) := rfl

theorem st_lift (x : R α) (st : σ) :
    (liftM x : StateT σ R α) st = (match x with | .ok a => .ok (a, st) | .error e => .error e) := by
  cases x <;> rfl

theorem st_discard (x : StateT σ R α) (st : σ) :
    (discard x : StateT σ R PUnit) st = (match x st with | .ok (_, st') => .ok ((), st') | .error e => .error e) := by
  show (Functor.mapConst PUnit.unit x : StateT σ R PUnit) st = _
  show (StateT.map (Function.const α PUnit.unit) x) st = _
  unfold StateT.map
  show Except.bind _ _ = _
  unfold Except.bind
  cases x st with
  | error e => rfl
  | ok v => rfl

theorem st_ite (b : Prop) [Decidable b] (x y : StateT σ R α) (st : σ) :
    (if b then x else y) st = if b then x st else y st := by
  split <;> rfl

theorem st_throw (e : Err) (st : σ) : (throw e : StateT σ R α) st = .error e := rfl
end monad

/-! ### the database steps, abstracted -/

structure Ops (σ : Type) where
  lookup : IPDB σ → Int → Duid → IPDB σ × Except DbErr Nat
  find : IPDB σ → Int → Option Ip4 → Duid → List Nat → (Nat → IPDB.Iter) → IPDB σ × Except DbErr Nat
  update : IPDB σ → Int → Option Ip4 → Duid → Int → IPDB σ × Except DbErr Unit
  inRange : IPDB σ → Option Ip4 → Bool

def Ops.of {σ : Type} (S : Store σ) : Ops σ where
  lookup := fun db t d => db.lookupByDuid S t d
  find := fun db t sugg d perm iters => db.findIP S t sugg d perm iters
  update := fun db t ip d ttl => db.updateClient S t ip d ttl
  inRange := fun db ip => db.inManagedRange ip

theorem of_lookup {σ : Type} (S : Store σ) (db : IPDB σ) (t : Int) (d : Duid) :
    (Ops.of S).lookup db t d = db.lookupByDuid S t d := rfl
theorem of_find {σ : Type} (S : Store σ) (db : IPDB σ) (t : Int) (sugg : Option Ip4) (d : Duid) (perm : List Nat)
    (iters : Nat → IPDB.Iter) : (Ops.of S).find db t sugg d perm iters = db.findIP S t sugg d perm iters := rfl
theorem of_update {σ : Type} (S : Store σ) (db : IPDB σ) (t : Int) (ip : Option Ip4) (d : Duid) (ttl : Int) :
    (Ops.of S).update db t ip d ttl = db.updateClient S t ip d ttl := rfl
theorem of_inRange {σ : Type} (S : Store σ) (db : IPDB σ) (ip : Option Ip4) :
    (Ops.of S).inRange db ip = db.inManagedRange ip := rfl

/-- `srvEnv` over `Ops`. -/
def aEnv {σ : Type} (P : Ops σ) (c : SrvCfg) (o : HOracle) : Gen.Env (HState σ) where
  LookupClientByDuid := fun duid st =>
    let r := P.lookup st.db (if st.lookups = 0 then o.t0 else o.t1) duid
    .ok (ipResToGen r.2, { st with db := r.1, lookups := st.lookups + 1 })
  FindIP := fun _mac sugg duid st =>
    let f := P.find st.db o.t1 (ipOf sugg) duid o.perm o.iters
    .ok (ipResToGen f.2, { st with db := f.1 })
  UpdateClient := fun ip duid ttl st =>
    let u := P.update st.db o.t2 (ipOf ip) duid ttl
    .ok (unitResToGen u.2, { st with db := u.1 })
  InManagedRange := fun ip st => .ok (P.inRange st.db (ipOf ip), st)
  ArpVerifyRun := fun _mac _ip st => .ok (o.probeFree, st)
  SendUnicast := fun mac pkt st => .ok (none, { st with sent := st.sent ++ [{ l2dst := mac, pkt := pkt }] })
  DhcpOptions := fun mac st => .ok ((c.dhcpOptions mac).map optToGen, st)
  Sleep := fun _ st => .ok ((), st)

theorem srvEnv_eq {σ : Type} (S : Store σ) (c : SrvCfg) (o : HOracle) : srvEnv S c o = aEnv (Ops.of S) c o := rfl

/-- `getDuid` over `Ops`. -/
def aGetDuid {σ : Type} (P : Ops σ) (db : IPDB σ) (t : Int) (hw cid : Bytes) : IPDB σ × Duid :=
  let r := P.lookup db t (sduid hw)
  match r.2 with
  | .ok _ => (r.1, sduid hw)
  | .error _ =>
    if cid.length < 4 ∨ internalPrefix.isPrefixOf cid then (r.1, sduid hw) else (r.1, cid)

theorem getDuid_abs {σ : Type} (S : Store σ) (db : IPDB σ) (t : Int) (hw cid : Bytes) :
    getDuid S db t hw cid = aGetDuid (Ops.of S) db t hw cid := rfl

/-- `todo` over `Ops`. -/
def aTodo {σ : Type} (P : Ops σ) (c : SrvCfg) (db : IPDB σ) (rx : Rx) : Todo :=
  let o := decodeOptions rx.msg.options
  if c.selfMac = rx.msg.chaddr then .drop
  else if o.requestedIP = some c.selfIp then .drop
  else if o.messageType = 1 then
    if rx.dst ≠ Ip4.bcast then .drop
    else if o.serverIdentifier ≠ none then .drop
    else .discover
  else if o.messageType = 3 then
    let cls := classify c.selfIp rx.dst o.serverIdentifier o.requestedIP
    match desired cls rx.src o.requestedIP with
    | none => .drop
    | some want => if P.inRange db (some want) then .request want else .drop
  else .drop

theorem todo_abs {σ : Type} (S : Store σ) (c : SrvCfg) (db : IPDB σ) (rx : Rx) :
    todo c db rx = aTodo (Ops.of S) c db rx := rfl

/-- `handle` over `Ops`. -/
def aHandle0 {σ : Type} (P : Ops σ) (c : SrvCfg) (db : IPDB σ) (rx : Rx) (o : HOracle) : IPDB σ × Option Frame :=
  let opts := decodeOptions rx.msg.options
  let g := aGetDuid P db o.t0 rx.msg.chaddr opts.clientIdentifier
  let db := g.1
  let duid := g.2
  match aTodo P c db rx with
  | .drop => (db, none)
  | .discover =>
    let f := P.find db o.t1 opts.requestedIP duid o.perm o.iters
    match f.2 with
    | .error _ => (f.1, none)
    | .ok a =>
      let u := P.update f.1 o.t2 (some (Ip4.ofNat a)) duid offerHoldNs
      match u.2 with
      | .error _ => (u.1, none)
      | .ok _ => (u.1, some (leaseFrame c .offer rx.msg (Ip4.ofNat a)))
  | .request want =>
    let l := P.lookup db o.t1 duid
    match l.2 with
    | .error _ => (l.1, some (nakFrame c rx.msg))
    | .ok lease =>
      if want.toNat ≠ lease then (l.1, some (nakFrame c rx.msg))
      else if ¬ o.probeFree then (l.1, some (nakFrame c rx.msg))
      else
        let u := P.update l.1 o.t2 (some (Ip4.ofNat lease)) duid c.leaseNs
        match u.2 with
        | .error _ => (u.1, none)
        | .ok _ => (u.1, some (leaseFrame c .ack rx.msg (Ip4.ofNat lease)))

theorem handle_abs {σ : Type} (S : Store σ) (c : SrvCfg) (db : IPDB σ) (rx : Rx) (o : HOracle) :
    handle S c db rx o = aHandle0 (Ops.of S) c db rx o := by
  unfold handle aHandle0
  simp -zeta only [todo_abs S, getDuid_abs, of_lookup, of_find, of_update]
  rfl

/-! ### the model along the control flow of the code -/

/-- `handleDiscover` from its first line. -/
def mDiscover {σ : Type} (P : Ops σ) (c : SrvCfg) (o : HOracle) (db : IPDB σ) (dst : Ip4) (duid : Duid) (m : Msg)
    (d : DecodedOptions) : IPDB σ × Option Frame :=
  if dst ≠ Ip4.bcast then (db, none)
  else if d.serverIdentifier ≠ none then (db, none)
  else
    let f := P.find db o.t1 d.requestedIP duid o.perm o.iters
    match f.2 with
    | .error _ => (f.1, none)
    | .ok a =>
      let u := P.update f.1 o.t2 (some (Ip4.ofNat a)) duid offerHoldNs
      match u.2 with
      | .error _ => (u.1, none)
      | .ok _ => (u.1, some (leaseFrame c .offer m (Ip4.ofNat a)))

/-- `handleRequest` from the `InManagedRange` check on. -/
def mReqCont {σ : Type} (P : Ops σ) (c : SrvCfg) (o : HOracle) (db : IPDB σ) (want : Ip4) (duid : Duid) (m : Msg) :
    IPDB σ × Option Frame :=
  if P.inRange db (some want) then
    let l := P.lookup db o.t1 duid
    match l.2 with
    | .error _ => (l.1, some (nakFrame c m))
    | .ok lease =>
      if want.toNat ≠ lease then (l.1, some (nakFrame c m))
      else if ¬ o.probeFree then (l.1, some (nakFrame c m))
      else
        let u := P.update l.1 o.t2 (some (Ip4.ofNat lease)) duid c.leaseNs
        match u.2 with
        | .error _ => (u.1, none)
        | .ok _ => (u.1, some (leaseFrame c .ack m (Ip4.ofNat lease)))
  else (db, none)

/-- `handleRequest` from its first line. -/
def mRequest {σ : Type} (P : Ops σ) (c : SrvCfg) (o : HOracle) (db : IPDB σ) (src dst : Ip4) (duid : Duid) (m : Msg)
    (d : DecodedOptions) : IPDB σ × Option Frame :=
  match desired (classify c.selfIp dst d.serverIdentifier d.requestedIP) src d.requestedIP with
  | none => (db, none)
  | some want => mReqCont P c o db want duid m

/-- `handleMsg`. -/
def aHandle {σ : Type} (P : Ops σ) (c : SrvCfg) (db : IPDB σ) (rx : Rx) (o : HOracle) : IPDB σ × Option Frame :=
  let opts := decodeOptions rx.msg.options
  let g := aGetDuid P db o.t0 rx.msg.chaddr opts.clientIdentifier
  if c.selfMac = rx.msg.chaddr then (g.1, none)
  else if opts.requestedIP = some c.selfIp then (g.1, none)
  else if opts.messageType = 1 then mDiscover P c o g.1 rx.dst g.2 rx.msg opts
  else if opts.messageType = 3 then mRequest P c o g.1 rx.src rx.dst g.2 rx.msg opts
  else (g.1, none)

theorem aHandle0_eq {σ : Type} (P : Ops σ) (c : SrvCfg) (db : IPDB σ) (rx : Rx) (o : HOracle) :
    aHandle0 P c db rx o = aHandle P c db rx o := by
  unfold aHandle0 aHandle aTodo mDiscover mRequest mReqCont
  simp only []
  by_cases h1 : c.selfMac = rx.msg.chaddr
  · simp only [h1, if_true]
  simp only [h1, if_false]
  by_cases h2 : (decodeOptions rx.msg.options).requestedIP = some c.selfIp
  · simp only [h2, if_true]
  simp only [h2, if_false]
  by_cases h3 : (decodeOptions rx.msg.options).messageType = 1
  · simp only [h3, if_true]
    by_cases h4 : rx.dst = Ip4.bcast
    · by_cases h5 : (decodeOptions rx.msg.options).serverIdentifier = none
      · simp [h4, h5]
      · simp [h4, h5]
    · simp [h4]
  simp only [h3, if_false]
  by_cases h6 : (decodeOptions rx.msg.options).messageType = 3
  · simp only [h6, if_true]
    cases hd : desired (classify c.selfIp rx.dst (decodeOptions rx.msg.options).serverIdentifier
        (decodeOptions rx.msg.options).requestedIP) rx.src (decodeOptions rx.msg.options).requestedIP with
    | none => rfl
    | some want =>
      simp only []
      cases hin : P.inRange (aGetDuid P db o.t0 rx.msg.chaddr (decodeOptions rx.msg.options).clientIdentifier).1 (some want) with
      | false => simp
      | true => simp
  simp only [h6, if_false]

/-! ### the environment operations, one equation each -/
section env
variable {σ : Type} (P : Ops σ) (c : SrvCfg) (o : HOracle)

theorem env_lookup (duid : Bytes) (st : HState σ) :
    (aEnv P c o).LookupClientByDuid duid st =
      .ok (ipResToGen (P.lookup st.db (if st.lookups = 0 then o.t0 else o.t1) duid).2,
        { st with db := (P.lookup st.db (if st.lookups = 0 then o.t0 else o.t1) duid).1, lookups := st.lookups + 1 }) := rfl

theorem env_findIP (mac sugg duid : Bytes) (st : HState σ) :
    (aEnv P c o).FindIP mac sugg duid st =
      .ok (ipResToGen (P.find st.db o.t1 (ipOf sugg) duid o.perm o.iters).2,
        { st with db := (P.find st.db o.t1 (ipOf sugg) duid o.perm o.iters).1 }) := rfl

theorem env_update (ip duid : Bytes) (ttl : Int) (st : HState σ) :
    (aEnv P c o).UpdateClient ip duid ttl st =
      .ok (unitResToGen (P.update st.db o.t2 (ipOf ip) duid ttl).2,
        { st with db := (P.update st.db o.t2 (ipOf ip) duid ttl).1 }) := rfl

theorem env_inRange (ip : Bytes) (st : HState σ) :
    (aEnv P c o).InManagedRange ip st = .ok (P.inRange st.db (ipOf ip), st) := rfl

theorem env_arp (mac ip : Bytes) (st : HState σ) :
    (aEnv P c o).ArpVerifyRun mac ip st = .ok (o.probeFree, st) := rfl

theorem env_send (mac pkt : Bytes) (st : HState σ) :
    (aEnv P c o).SendUnicast mac pkt st =
      .ok (none, { st with sent := st.sent ++ [{ l2dst := mac, pkt := pkt }] }) := rfl

theorem env_opts (mac : Bytes) (st : HState σ) :
    (aEnv P c o).DhcpOptions mac st = .ok ((c.dhcpOptions mac).map optToGen, st) := rfl

theorem env_sleep (d : Int) (st : HState σ) : (aEnv P c o).Sleep d st = .ok ((), st) := rfl
end env

/-! ### the handlers over `Ops` -/
section handlers
variable {σ : Type} (P : Ops σ) (c : SrvCfg) (o : HOracle) (sx : Gen.server.server)

theorem aGetDuid_run (hw cid : Bytes) (st : HState σ) (h0 : st.lookups = 0) :
    (Gen.server.server_getDuid (aEnv P c o) sx hw cid).run st =
      .ok ((aGetDuid P st.db o.t0 hw cid).2, { st with db := (aGetDuid P st.db o.t0 hw cid).1, lookups := 1 }) := by
  obtain ⟨db, lk, sent⟩ := st
  simp only at h0
  subst h0
  unfold Gen.server.server_getDuid aGetDuid
  simp only [StateT.run, st_bind, st_ite, st_pure, env_lookup, CodeIpdb.duidFromHwAddr_eq, if_true, Nat.zero_add]
  have hp : Gen.server.var_internalDuidPrefix = internalPrefix := rfl
  generalize P.lookup db o.t0 (sduid hw) = L
  obtain ⟨db1, r⟩ := L
  cases r with
  | ok a => simp [ipRes_ok]
  | error e =>
    simp only [ipRes_err, hp, Go.hasPrefix]
    by_cases hc : cid.length < 4 ∨ internalPrefix.isPrefixOf cid
    · rw [if_pos hc]
      rcases hc with hc | hc
      · have : (cid.length : Int) < 4 := by omega
        simp [this]
      · simp [hc]
    · rw [if_neg hc]
      have h1 : ¬ (cid.length : Int) < 4 := by omega
      have h2 : internalPrefix.isPrefixOf cid = false := by
        cases h : internalPrefix.isPrefixOf cid with
        | false => rfl
        | true => exact absurd (Or.inr h) hc
      simp [h1, h2]

theorem sendNACK_run (hs : ipOf sx.selfIP = some c.selfIp) (m : Msg) (hm : MsgRanges m) (st : HState σ) :
    (Gen.server.server_sendNACK (aEnv P c o) sx (msgToGen m).Xid (msgToGen m).ClientMAC).run st =
      .ok ((), { st with sent := st.sent ++ [nakFrame c m] }) := by
  unfold Gen.server.server_sendNACK nakFrame
  simp only [StateT.run, st_bind, st_lift, st_discard, st_pure, env_send, CodeReplies.AssembleNACK_eq _ _ _ _ hs,
    msg_Xid, msg_ClientMAC, u32_roundtrip _ hm.1]

theorem sendMsg_run (kind : ReplyKind)
    (f : UInt32 → UInt16 → Bytes → Bytes → Bytes → List Gen.dhcpmsg.DHCPOpt → R Bytes)
    (hf : ∀ xid flags dstIP dstMAC opts y, ipOf dstIP = some y →
      f xid flags sx.selfIP dstIP dstMAC opts =
        .ok (assembleLease kind xid.toNat flags.toNat c.selfIp y dstMAC (opts.map optOf)))
    (m : Msg) (hm : MsgRanges m) (y : Ip4) (st : HState σ) :
    (Gen.server.server_sendMsg (aEnv P c o) sx (msgToGen m) (ipToGen y) f).run st =
      .ok ((), { st with sent := st.sent ++ [leaseFrame c kind m y] }) := by
  obtain ⟨hx, hfl, -, -⟩ := hm
  unfold Gen.server.server_sendMsg
  simp only [StateT.run, st_bind, st_lift, st_discard, st_pure, st_ite, env_send, env_opts, msg_Xid, msg_ClientMAC,
    msg_Flags, hf _ _ _ _ _ _ (ipOf_ipToGen y), CodeReplies.u16_and_msb,
    u32_roundtrip _ hx, u16_roundtrip _ hfl, map_optOf_optToGen, leaseFrame, bcastMac]
  by_cases hb : m.flags / 32768 % 2 = 1 <;> simp [hb]

theorem handleDiscover_run (hs : ipOf sx.selfIP = some c.selfIp) (src : Bytes) (dst : Ip4) (duid : Duid) (m : Msg)
    (hm : MsgRanges m) (d : DecodedOptions) (st : HState σ) :
    (Gen.server.server_handleDiscover (aEnv P c o) sx src (ipToGen dst) duid (msgToGen m) (doptsToGen d)).run st =
      .ok ((), { st with db := (mDiscover P c o st.db dst duid m d).1,
                         sent := st.sent ++ (mDiscover P c o st.db dst duid m d).2.toList }) := by
  unfold Gen.server.server_handleDiscover mDiscover
  have e15 : (15000000000 : Int) = offerHoldNs := by unfold offerHoldNs; omega
  have hsend := fun y st => sendMsg_run P c o sx .offer Gen.replies.AssembleOffer
        (fun xid flags dstIP dstMAC opts y hy =>
          CodeReplies.AssembleOffer_eq xid flags sx.selfIP dstIP dstMAC opts c.selfIp y hs hy) m hm y st
  simp only [StateT.run] at hsend
  simp only [ipEqual_ip_bcast, dopts_sid, dopts_req, CodeVerify.optIpToGen_isEmpty, StateT.run, st_bind, st_ite,
    st_pure, env_findIP, env_update, ipOf_optIpToGen, e15]
  obtain ⟨db, lk, sent⟩ := st
  by_cases h1 : dst = Ip4.bcast
  · cases h2 : d.serverIdentifier with
    | some x => simp [h1]
    | none =>
      simp only [h1, ne_eq, not_true_eq_false, if_false, decide_true, Bool.not_true, Bool.false_eq_true,
        Option.isNone_none]
      generalize P.find db o.t1 d.requestedIP duid o.perm o.iters = F
      obtain ⟨db1, r⟩ := F
      cases r with
      | error e => simp [ipRes_err]
      | ok a =>
        simp only [ipRes_ok, Option.isNone_none, Bool.not_true, Bool.false_eq_true, if_false, ipOf_ipToGen]
        generalize P.update db1 o.t2 (some (Ip4.ofNat a)) duid offerHoldNs = U
        obtain ⟨db2, u⟩ := U
        cases u with
        | error e => simp [unitRes_err]
        | ok u =>
          simp only [unitRes_ok, Option.isNone_none, Bool.not_true, Bool.false_eq_true, if_false, hsend,
            Option.toList]
  · simp [h1]

theorem handleRequest_run (hs : ipOf sx.selfIP = some c.selfIp) (hl : sx.lopts.LeaseDuration = c.leaseNs)
    (src dst : Ip4) (duid : Duid) (m : Msg) (hm : MsgRanges m) (d : DecodedOptions) (st : HState σ)
    (hne : st.lookups ≠ 0) (hb : ∀ a, (P.lookup st.db o.t1 duid).2 = .ok a → a < 4294967296) :
    ∃ st', (Gen.server.server_handleRequest (aEnv P c o) sx (ipToGen src) (ipToGen dst) duid (msgToGen m)
              (doptsToGen d)).run st = .ok ((), st')
      ∧ st'.db = (mRequest P c o st.db src dst duid m d).1
      ∧ st'.sent = st.sent ++ (mRequest P c o st.db src dst duid m d).2.toList := by
  unfold Gen.server.server_handleRequest
  extract_lets d0 jp dreq dsrc
  -- the part after the classification
  have key : ∀ want : Ip4, ∃ st', jp () (ipToGen want) st = .ok ((), st')
      ∧ st'.db = (mReqCont P c o st.db want duid m).1
      ∧ st'.sent = st.sent ++ (mReqCont P c o st.db want duid m).2.toList := by
    intro want
    have hnack := fun st => sendNACK_run P c o sx hs m hm st
    have hsend := fun y st => sendMsg_run P c o sx .ack Gen.replies.AssembleACK
        (fun xid flags dstIP dstMAC opts y hy =>
          CodeReplies.AssembleACK_eq xid flags sx.selfIP dstIP dstMAC opts c.selfIp y hs hy) m hm y st
    simp only [StateT.run] at hnack hsend
    obtain ⟨db, lk, sent⟩ := st
    simp only at hne hb
    unfold mReqCont
    simp only [jp, ipToGen_isEmpty, Bool.false_eq_true, if_false, st_bind, st_ite, st_pure, env_inRange, env_lookup,
      env_arp, env_update, ipOf_ipToGen, hne, hl]
    cases hin : P.inRange db (some want) with
    | false => simp
    | true =>
      simp only [Bool.not_true, Bool.false_eq_true, if_false, if_true]
      revert hb
      generalize P.lookup db o.t1 duid = L
      obtain ⟨db1, r⟩ := L
      intro hb
      cases r with
      | error e => simp [ipRes_err, hnack]
      | ok lease =>
        have hlt : lease < 4294967296 := hb lease rfl
        simp only [ipRes_ok, Option.isNone_none, Bool.not_true, Bool.false_eq_true, if_false,
          CodeVerify.ipEqual_ipToGen, ipOf_ipToGen]
        by_cases hw : want.toNat = lease
        · have hw' : want = Ip4.ofNat lease := (want_eq_iff want lease hlt).2 hw
          simp only [hw', decide_true, Bool.not_true, Bool.false_eq_true, if_false]
          have hw2 : (Ip4.ofNat lease).toNat = lease := CodeIpdb.toNat_ofNat_ip lease hlt
          simp only [hw2, ne_eq, not_true_eq_false, if_false]
          cases hp : o.probeFree with
          | false => simp [hnack]
          | true =>
            simp only [Bool.not_true, Bool.false_eq_true, if_false, not_true_eq_false]
            generalize P.update db1 o.t2 (some (Ip4.ofNat lease)) duid c.leaseNs = U
            obtain ⟨db2, u⟩ := U
            cases u with
            | error e => simp [unitRes_err]
            | ok u => simp [unitRes_ok, hsend]
        · have hw' : ¬ want = Ip4.ofNat lease := fun e => hw ((want_eq_iff want lease hlt).1 e)
          simp [hw, hw', hnack]
  clear_value jp
  -- the classification
  have hcode : (if (Go.ipEqual (ipToGen dst) (Go.netIPv4 255 255 255 255) && (doptsToGen d).ServerIdentifier.isEmpty &&
          !(doptsToGen d).RequestedIP.isEmpty) = true then jp () dreq
        else if (Go.ipEqual (ipToGen dst) (Go.netIPv4 255 255 255 255) &&
          Go.ipEqual (doptsToGen d).ServerIdentifier sx.selfIP && !(doptsToGen d).RequestedIP.isEmpty) = true then jp () dreq
        else if (Go.ipEqual (ipToGen dst) sx.selfIP && (doptsToGen d).ServerIdentifier.isEmpty &&
          (doptsToGen d).RequestedIP.isEmpty) = true then jp () dsrc
        else if (Go.ipEqual (ipToGen dst) (Go.netIPv4 255 255 255 255) && (doptsToGen d).ServerIdentifier.isEmpty &&
          (doptsToGen d).RequestedIP.isEmpty) = true then jp () dsrc
        else pure ()) =
      (match desired (classify c.selfIp dst d.serverIdentifier d.requestedIP) src d.requestedIP with
        | none => pure ()
        | some want => jp () (ipToGen want)) := by
    simp only [dreq, dsrc, ipEqual_ip_bcast, ipEqual_ip_self _ _ hs, ipEqual_opt_self _ _ hs, dopts_sid, dopts_req,
      CodeVerify.optIpToGen_isEmpty]
    unfold classify desired
    by_cases hd1 : dst = Ip4.bcast <;> by_cases hd2 : dst = c.selfIp <;> by_cases hbs : Ip4.bcast = c.selfIp <;>
      rcases hsid : d.serverIdentifier with _ | v <;> rcases hreq : d.requestedIP with _ | r
    all_goals have hbs2 : (c.selfIp = Ip4.bcast) ↔ (Ip4.bcast = c.selfIp) := eq_comm
    all_goals first
      | (simp [hd1, hd2, hbs, hbs2, optIpToGen]; done)
      | (by_cases hv : v = c.selfIp <;> simp [hd1, hd2, hbs, hbs2, hv, optIpToGen]; done)
  rw [hcode]
  unfold mRequest
  cases desired (classify c.selfIp dst d.serverIdentifier d.requestedIP) src d.requestedIP with
  | none => exact ⟨st, rfl, rfl, by simp⟩
  | some want => exact key want

theorem handleMsg_run (hsx : SrvOf sx c) (db : IPDB σ) (rx : Rx) (rnd : Int) (hm : MsgRanges rx.msg)
    (hb : ∀ a, (P.lookup (aGetDuid P db o.t0 rx.msg.chaddr (decodeOptions rx.msg.options).clientIdentifier).1 o.t1
        (aGetDuid P db o.t0 rx.msg.chaddr (decodeOptions rx.msg.options).clientIdentifier).2).2 = .ok a →
      a < 4294967296) :
    ∃ st, (Gen.server.server_handleMsg (aEnv P c o) sx (ipToGen rx.src) (ipToGen rx.dst) (msgToGen rx.msg) rnd).run
              { db := db, lookups := 0, sent := [] } = .ok ((), st)
      ∧ st.db = (aHandle P c db rx o).1 ∧ st.sent = (aHandle P c db rx o).2.toList := by
  obtain ⟨hmac, hs, hl⟩ := hsx
  unfold Gen.server.server_handleMsg aHandle
  have hg := aGetDuid_run P c o sx rx.msg.chaddr (decodeOptions rx.msg.options).clientIdentifier
    { db := db, lookups := 0, sent := [] } rfl
  simp only [StateT.run] at hg
  simp only [StateT.run, st_bind, st_lift, st_ite, st_pure, st_discard, env_sleep, msg_Options, msg_ClientMAC,
    CodeDhcpOpts.DecodeOptions_eq, map_optOf_optToGen, dopts_cid, dopts_req, dopts_type, hg, hmac,
    ipEqual_self_opt _ _ hs]
  revert hb
  generalize aGetDuid P db o.t0 rx.msg.chaddr (decodeOptions rx.msg.options).clientIdentifier = g
  obtain ⟨db1, duid⟩ := g
  intro hb
  simp only at hb
  simp only []
  by_cases h1 : c.selfMac = rx.msg.chaddr
  · exact ⟨{ db := db1, lookups := 1, sent := [] }, by simp [h1], by simp [h1], by simp [h1]⟩
  by_cases h2 : (decodeOptions rx.msg.options).requestedIP = some c.selfIp
  · exact ⟨{ db := db1, lookups := 1, sent := [] }, by simp [h1, h2], by simp [h1, h2], by simp [h1, h2]⟩
  by_cases h3 : (decodeOptions rx.msg.options).messageType = 1
  · have hd := handleDiscover_run P c o sx hs (ipToGen rx.src) rx.dst duid rx.msg hm (decodeOptions rx.msg.options)
      { db := db1, lookups := 1, sent := [] }
    simp only [StateT.run] at hd
    refine ⟨{ db := (mDiscover P c o db1 rx.dst duid rx.msg (decodeOptions rx.msg.options)).fst, lookups := 1,
              sent := [] ++ (mDiscover P c o db1 rx.dst duid rx.msg (decodeOptions rx.msg.options)).snd.toList },
      ?_, ?_, ?_⟩
    · simp only [h1, h2, h3, beq_iff_eq, if_true, if_false, decide_false, Bool.false_eq_true, st_ite, st_bind,
        st_discard, env_sleep, st_pure, hd, ite_self]
    · simp [h1, h2, h3]
    · simp [h1, h2, h3]
  by_cases h4 : (decodeOptions rx.msg.options).messageType = 3
  · obtain ⟨st', hr, hdb, hsent⟩ := handleRequest_run P c o sx hs hl rx.src rx.dst duid rx.msg hm
      (decodeOptions rx.msg.options) { db := db1, lookups := 1, sent := [] } (by simp) hb
    simp only [StateT.run] at hr
    refine ⟨st', ?_, ?_, ?_⟩
    · have h31 : ¬ ((3 : UInt8) = 1) := by decide
      simp only [h1, h2, h31, h4, beq_iff_eq, if_true, if_false, decide_false, Bool.false_eq_true, st_ite, st_bind,
        st_pure, hr]
    · simp [h1, h2, h3, h4, hdb]
    · simp [h1, h2, h3, h4, hsent]
  · exact ⟨{ db := db1, lookups := 1, sent := [] }, by simp [h1, h2, h3, h4, st_pure], by simp [h1, h2, h3, h4], by simp [h1, h2, h3, h4]⟩

end handlers

/-! ### the statements of Props/C04Code.lean -/

/-- `getDuid` alone. -/
theorem getDuid_eq {σ : Type} (S : Store σ) (c : SrvCfg) (sx : Gen.server.server) (db : IPDB σ) (o : HOracle)
    (hw cid : Bytes) (sent : List Frame) :
    (Gen.server.server_getDuid (srvEnv S c o) sx hw cid).run { db := db, lookups := 0, sent := sent } =
      .ok ((getDuid S db o.t0 hw cid).2, { db := (getDuid S db o.t0 hw cid).1, lookups := 1, sent := sent }) := by
  rw [srvEnv_eq, getDuid_abs]
  exact aGetDuid_run (Ops.of S) c o sx hw cid { db := db, lookups := 0, sent := sent } rfl

/-- The translated `handleMsg` ends in the database and the frame of the model's `handle`. -/
theorem handleMsg_eq {σ : Type} (S : Store σ) (c : SrvCfg) (sx : Gen.server.server) (db : IPDB σ) (rx : Rx)
    (o : HOracle) (rnd : Int) (hsx : SrvOf sx c) (hm : MsgRanges rx.msg) (hb : LookupsBounded S db rx o) :
    ∃ st, (Gen.server.server_handleMsg (srvEnv S c o) sx (ipToGen rx.src) (ipToGen rx.dst) (msgToGen rx.msg) rnd).run
              { db := db, lookups := 0, sent := [] } = .ok ((), st)
      ∧ st.db = (handle S c db rx o).1 ∧ st.sent = (handle S c db rx o).2.toList := by
  rw [srvEnv_eq, handle_abs, aHandle0_eq]
  refine handleMsg_run (Ops.of S) c o sx hsx db rx rnd hm ?_
  intro a ha
  unfold LookupsBounded at hb
  rw [getDuid_abs] at hb
  exact hb a ha

end PsaDhcp.Proofs.CodeServer
