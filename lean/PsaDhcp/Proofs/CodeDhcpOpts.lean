import PsaDhcp.Code.Bridge
import PsaDhcp.Proofs.Dhcp
import PsaDhcp.Proofs.CodeDhcpOptsAux
/-
lib/dhcpmsg/optshelper.go: translated DecodeOptions and typed accessors = model.
-/
namespace PsaDhcp.Proofs.CodeDhcpOpts
open PsaDhcp PsaDhcp.Go PsaDhcp.Code PsaDhcp.Proofs.CodeDhcpOptsAux

theorem ite_map {c : Prop} [Decidable c] {α β : Type} (f : α → β) {A B : β} {a b : α}
    (h1 : A = f a) (h2 : B = f b) : (if c then A else B) = f (if c then a else b) := by
  by_cases h : c
  · rw [if_pos h, if_pos h]; exact h1
  · rw [if_neg h, if_neg h]; exact h2

theorem loop_step (o : Gen.dhcpmsg.DHCPOpt) (rest : List Gen.dhcpmsg.DHCPOpt) (i : Int)
    (d : DecodedOptions) :
    Gen.dhcpmsg.DecodeOptions.loop1 (o :: rest) i (doptsToGen d)
      = Gen.dhcpmsg.DecodeOptions.loop1 rest (i + 1) (doptsToGen (applyOpt d (optOf o))) := by
  rw [Gen.dhcpmsg.DecodeOptions.loop1]
  simp only [toNetmask_eq, toV4A_eq, toV4_eq, toDuration_eq, toUint8_eq, toUint16_eq, toString_eq,
    bind, Except.bind, beq_iff_eq]
  unfold applyOpt optOf
  simp only []
  iterate 16
    refine ite_map (fun d' => Gen.dhcpmsg.DecodeOptions.loop1 rest (i + 1) (doptsToGen d')) rfl ?_
  rfl

theorem loop_eq : ∀ (opts : List Gen.dhcpmsg.DHCPOpt) (i : Int) (d : DecodedOptions),
    Gen.dhcpmsg.DecodeOptions.loop1 opts i (doptsToGen d)
      = .ok (doptsToGen ((opts.map optOf).foldl applyOpt d)) := by
  intro opts
  induction opts with
  | nil => intro i d; rfl
  | cons o rest ih =>
    intro i d
    rw [loop_step, ih]
    rfl

theorem zero_eq : Gen.dhcpmsg.DecodedOptions.zero = doptsToGen {} := by
  rfl

/-- `DecodeOptions(opts)` with all typed accessors (`toUint8 … toV4A`). -/
theorem DecodeOptions_eq (opts : List Gen.dhcpmsg.DHCPOpt) :
    Gen.dhcpmsg.DecodeOptions opts = .ok (doptsToGen (decodeOptions (opts.map optOf))) := by
  unfold Gen.dhcpmsg.DecodeOptions decodeOptions
  rw [zero_eq]
  simp only [loop_eq, bind, Except.bind]
  rfl

end PsaDhcp.Proofs.CodeDhcpOpts
