import PsaDhcp.Model.System
import PsaDhcp.Spec.ServerSpec
import PsaDhcp.Proofs.Ipdb
namespace PsaDhcp.Proofs.Safety
open PsaDhcp PsaDhcp.Spec PsaDhcp.Proofs.Ipdb

/-! ## Small facts: identities, addresses, ranges -/

theorem sduid_injective (a b : Bytes) (h : sduid a = sduid b) : a = b :=
  List.append_cancel_left h

theorem sduid_prefix (hw : Bytes) : internalPrefix.isPrefixOf (sduid hw) = true := by
  rw [List.isPrefixOf_iff_prefix]; exact List.prefix_append _ _

theorem holder_identity {σ : Type} (S : Store σ) (db : IPDB σ) (t : Int) (hw cid : Bytes) :
    (getDuid S db t hw cid).2 = sduid hw ∨
      ((getDuid S db t hw cid).2 = cid ∧ 4 ≤ cid.length ∧ internalPrefix.isPrefixOf cid = false) := by
  unfold getDuid
  dsimp only
  split
  · exact Or.inl rfl
  · split
    · exact Or.inl rfl
    · rename_i hc
      refine Or.inr ⟨rfl, by omega, ?_⟩
      cases hp : internalPrefix.isPrefixOf cid with
      | false => rfl
      | true => exact absurd (Or.inr hp) hc

theorem holder_distinct {σ : Type} (S : Store σ) (db₁ db₂ : IPDB σ) (t₁ t₂ : Int) (hw₁ cid₁ hw₂ cid₂ : Bytes)
    (hhw : hw₁ ≠ hw₂) (hcid : cid₁ ≠ cid₂ ∨ cid₁ = []) :
    (getDuid S db₁ t₁ hw₁ cid₁).2 ≠ (getDuid S db₂ t₂ hw₂ cid₂).2 := by
  rcases holder_identity S db₁ t₁ hw₁ cid₁ with h1 | ⟨h1, l1, p1⟩ <;>
    rcases holder_identity S db₂ t₂ hw₂ cid₂ with h2 | ⟨h2, l2, p2⟩ <;> rw [h1, h2] <;> intro he
  · exact hhw (sduid_injective _ _ he)
  · rw [← he, sduid_prefix] at p2; cases p2
  · rw [he, sduid_prefix] at p1; cases p1
  · rcases hcid with h | h
    · exact h he
    · rw [h] at l1; simp at l1

theorem u8_lt (x : UInt8) : x.toNat < 256 := x.toNat_lt

theorem Ip4.toNat_lt (x : Ip4) : x.toNat < 4294967296 := by
  have := u8_lt x.a; have := u8_lt x.b; have := u8_lt x.c; have := u8_lt x.d
  unfold Ip4.toNat; omega

theorem u8_ofNat_toNat (x : UInt8) (n : Nat) (h : n = x.toNat) : UInt8.ofNat n = x := by
  subst h; exact UInt8.ofNat_toNat

theorem Ip4.ofNat_toNat (x : Ip4) : Ip4.ofNat x.toNat = x := by
  have := u8_lt x.a; have := u8_lt x.b; have := u8_lt x.c; have := u8_lt x.d
  cases x with
  | mk a b c d =>
    simp only [Ip4.ofNat, Ip4.toNat] at *
    rw [u8_ofNat_toNat a _ (by omega), u8_ofNat_toNat b _ (by omega), u8_ofNat_toNat c _ (by omega),
      u8_ofNat_toNat d _ (by omega)]

theorem Ip4.toNat_ofNat {n : Nat} (h : n < 4294967296) : (Ip4.ofNat n).toNat = n := by
  simp only [Ip4.ofNat, Ip4.toNat, UInt8.toNat_ofNat']
  omega

theorem fromTo_31_empty (base : Nat) : (fromTo base 31).2 < (fromTo base 31).1 := by
  simp only [fromTo]
  split <;> simp only [] <;> omega

theorem fromTo_excludes (base p : Nat) (hp : p ≤ 30) :
    let size := 2 ^ (32 - p)
    let start := base / size * size
    (fromTo base p).1 = start + 1 ∧ (fromTo base p).2 = start + size - 2 ∧
    ∀ a, (fromTo base p).1 ≤ a → a ≤ (fromTo base p).2 → a ≠ start ∧ a ≠ start + size - 1 := by
  intro size start
  have hs : 4 ≤ size := by
    have : 2 ^ 2 ≤ 2 ^ (32 - p) := Nat.pow_le_pow_right (by decide) (by omega)
    simpa using this
  have hft : fromTo base p = (start + 1, start + size - 1 - 1) := by
    unfold fromTo
    show (if start ≠ start + size - 1 then (start + 1, start + size - 1 - 1) else (start, start + size - 1)) = _
    rw [if_pos (by omega)]
  rw [hft]
  refine ⟨rfl, by simp only []; omega, ?_⟩
  intro a h1 h2
  simp only [] at h1 h2
  omega

/-- The managed range ends below 2^32. -/
theorem fromTo_lt (base p : Nat) (hb : base < 4294967296) (hp : p ≤ 32) : (fromTo base p).2 < 4294967296 := by
  have hpow : 2 ^ p * 2 ^ (32 - p) = 4294967296 := by
    have : p + (32 - p) = 32 := by omega
    rw [← Nat.pow_add, this]
  have hpos : 0 < 2 ^ (32 - p) := Nat.two_pow_pos _
  unfold fromTo
  generalize 2 ^ (32 - p) = size at *
  have hdiv : base / size < 2 ^ p := by
    apply Nat.div_lt_of_lt_mul; rw [Nat.mul_comm]; omega
  have hle : (base / size + 1) * size ≤ 2 ^ p * size := Nat.mul_le_mul_right _ hdiv
  rw [Nat.add_mul] at hle
  simp only []
  split <;> simp only [] <;> omega




/-! ## The database calls over the reference table -/

theorem lookupByDuid_table (db : IPDB Table) (t : Int) (d : Duid) :
    db.lookupByDuid tableStore t d =
      (db, match db.s.liveDuid t d with | some x => .ok x.ip | none => .error .notFound) := by
  unfold IPDB.lookupByDuid
  simp only [tableStore, Table.lookupRes]
  cases db.s.liveDuid t d <;> rfl

theorem getDuid_table_fst (db : IPDB Table) (t : Int) (hw cid : Bytes) : (getDuid tableStore db t hw cid).1 = db := by
  unfold getDuid
  rw [lookupByDuid_table]
  dsimp only
  split
  · rfl
  · split <;> rfl

theorem getDuid_table_found (db : IPDB Table) (t : Int) (hw cid : Bytes) (x : Binding)
    (h : db.s.liveDuid t (sduid hw) = some x) : (getDuid tableStore db t hw cid).2 = sduid hw := by
  unfold getDuid
  rw [lookupByDuid_table, h]

theorem getDuid_table_cid (db : IPDB Table) (t : Int) (hw cid : Bytes)
    (h : (getDuid tableStore db t hw cid).2 ≠ sduid hw) : db.s.liveDuid t (sduid hw) = none := by
  cases hl : db.s.liveDuid t (sduid hw) with
  | none => rfl
  | some x => exact absurd (getDuid_table_found db t hw cid x hl) h

theorem findLoop_table_fst (df : Nat) (orc : Nat → IPDB.Iter) (vs : List Nat) :
    ∀ (i : Nat) (T : Table), (IPDB.findLoop tableStore df vs orc i T).1 = T := by
  induction vs with
  | nil => intro i T; rfl
  | cons v rest ih =>
    intro i T
    rw [findLoop_table_cons]
    split
    · rfl
    · split
      · rfl
      · exact ih _ _

theorem findIP_table_fst (db : IPDB Table) (now : Int) (sugg : Option Ip4) (d : Duid) (perm : List Nat)
    (orc : Nat → IPDB.Iter) : (db.findIP tableStore now sugg d perm orc).1 = db := by
  rw [findIP_eq]
  have : (findCore tableStore db.dynFrom db.dynTo db.s now (suggN db sugg) d perm orc).1 = db.s := by
    unfold findCore
    have hl : (tableStore.lookup db.s now (suggN db sugg) d).1 = db.s := rfl
    dsimp only
    split
    · exact hl
    · split
      · exact hl
      · rw [findLoop_table_fst, hl]
  simp only [this]

/-- `upd` with the expiry the binding already has is the identity. -/
theorem map_upd_self (x : Binding) (l : List Binding) : l.map (upd x x.exp) = l := by
  have : upd x x.exp = id := by
    funext b; unfold upd; split
    · rename_i h; subst h; rfl
    · rfl
  rw [this, List.map_id]

/-- What `UpdateClient` does to the reference table, in every case. -/
theorem update_cases (db : IPDB Table) (now : Int) (ip : Option Ip4) (d : Duid) (ttl : Int) :
    (∃ e, db.toUip ip = .error e ∧ db.updateClient tableStore now ip d ttl = (db, .error e)) ∨
    ∃ n, db.toUip ip = .ok n ∧
      ((∃ x lt, db.s.liveIp now n = some x ∧ db.s.liveDuid now d = some x ∧ x.exp ≤ lt ∧ now + ttl ≤ lt ∧
          db.updateClient tableStore now ip d ttl = ({ db with s := db.s.map (upd x lt) }, .ok ())) ∨
       (db.s.liveIp now n = none ∧ db.s.liveDuid now d = none ∧
          ∃ r, db.updateClient tableStore now ip d ttl =
              ({ db with s := ⟨n, d, now + ttl, false⟩ :: db.s.filter (fun b => b.live now) }, r) ∧
            (r = .ok () → 0 ≤ ttl)) ∨
       (¬ Own db.s now n d ∧ ¬ (db.s.liveIp now n = none ∧ db.s.liveDuid now d = none) ∧
          ∃ r, r ≠ .ok () ∧ db.updateClient tableStore now ip d ttl = (db, r))) := by
  rw [updateClient_eq]
  cases htu : db.toUip ip with
  | error e => exact Or.inl ⟨e, rfl, rfl⟩
  | ok n =>
    refine Or.inr ⟨n, rfl, ?_⟩
    simp only
    have hT : (tableStore.lookup db.s now n d).1 = db.s := rfl
    rw [hT]
    by_cases ho : Own db.s now n d
    · obtain ⟨x, h1, h2⟩ := ho
      refine Or.inl ⟨x, (if x.exp > now + ttl then x.exp else now + ttl), h1, h2, ?_, ?_, ?_⟩
      · split <;> omega
      · split <;> omega
      · rw [updTail_own _ h1 h2, ltimeOf_own _ h1 h2]
    · rw [ltimeOf_not_own _ ho]
      have c1 : (db.s.setLease now n d (now + ttl)).2 ≠ .ok :=
        fun hh => ho ((setLease_ok_iff_own db.s now n d (now + ttl)).1 hh)
      have e1 : (db.s.setLease now n d (now + ttl)).1 = db.s := setLease_fail_eq c1
      by_cases c2 : (db.s.inject now n d (now + ttl) false).2 = .ok
      · obtain ⟨h1, h2⟩ := (inject_ok_iff db.s now n d (now + ttl) false).1 c2
        refine Or.inr (Or.inl ⟨h1, h2, ?_⟩)
        unfold updTail
        simp only [tableStore, c1, if_false, e1, inject_ok_eq h1 h2, ne_eq, not_true_eq_false]
        by_cases hl : now ≤ now + ttl
        · rw [setLease_ok_of (liveIp_fresh hl) (liveDuid_fresh hl)]
          refine ⟨.ok (), ?_, fun _ => by omega⟩
          simp only [if_true]
          rw [map_upd_self ⟨n, d, now + ttl, false⟩]
        · have : Table.setLease (⟨n, d, now + ttl, false⟩ :: db.s.filter (fun b => b.live now)) now n d (now + ttl) =
              (⟨n, d, now + ttl, false⟩ :: db.s.filter (fun b => b.live now), .noIp) := by
            simp [Table.setLease, liveIp_stale hl h1]
          rw [this]
          exact ⟨_, rfl, by simp⟩
      · refine Or.inr (Or.inr ⟨ho, fun hh => c2 ((inject_ok_iff db.s now n d (now + ttl) false).2 hh), ?_⟩)
        unfold updTail
        simp only [tableStore, c1, if_false, e1, c2, ne_eq, not_false_eq_true, if_true, inject_fail_eq c2]
        exact ⟨_, by simp, rfl⟩

/-- What `AddPermanentClient` does to the reference table. -/
theorem addPermanent_cases (db : IPDB Table) (now : Int) (ip : Option Ip4) (d : Duid) :
    ((db.addPermanent tableStore now ip d).2 ≠ .ok ()) ∨
    ∃ n, db.toUip ip = .ok n ∧ db.s.liveIp now n = none ∧ db.s.liveDuid now d = none ∧
      db.addPermanent tableStore now ip d =
        ({ db with s := ⟨n, d, 0, true⟩ :: db.s.filter (fun b => b.live now) }, .ok ()) := by
  unfold IPDB.addPermanent
  cases htu : db.toUip ip with
  | error e => left; simp
  | ok n =>
    simp only [tableStore]
    by_cases c2 : (db.s.inject now n d 0 true).2 = .ok
    · obtain ⟨h1, h2⟩ := (inject_ok_iff db.s now n d 0 true).1 c2
      right
      refine ⟨n, rfl, h1, h2, ?_⟩
      simp only [inject_ok_eq h1 h2, if_true]
    · left; simp [c2]


/-! ## The invariant of reachable systems -/

/-- The permanent bindings the boot installs: one per client entry with an address, then the server's own. -/
def permPairs (c : SrvCfg) : List (Nat × Duid) :=
  c.overrides.filterMap (fun o => o.ip.map fun ip => (ip.toNat, sduid o.mac)) ++ [(c.selfIp.toNat, sduid c.selfMac)]

/-- In the enabled dynamic range of the boot configuration. -/
def DynOk (b : Boot) (a : Nat) : Prop :=
  ¬ (b.dynRange.2 = 0 ∧ b.dynRange.1 = 0) ∧ b.dynRange.1 ≤ a ∧ a ≤ b.dynRange.2

/-- What is known of the holder identity a handler computed for its message. -/
def DuidOk (c : SrvCfg) (rx : Rx) (duid : Duid) : Prop :=
  rx.msg.chaddr ≠ c.selfMac ∧
  (duid = sduid rx.msg.chaddr ∨
    (4 ≤ duid.length ∧ internalPrefix.isPrefixOf duid = false ∧ ∀ q ∈ permPairs c, q.2 ≠ sduid rx.msg.chaddr))

/-- What is known of the address a handler is about to write. -/
def AddrOk (c : SrvCfg) (b : Boot) (a : Nat) (duid : Duid) : Prop :=
  a < 4294967296 ∧ ((a, duid) ∈ permPairs c ∨ DynOk b a)

def PendOk (c : SrvCfg) (b : Boot) : Pending → Prop
  | .a1 rx d => DuidOk c rx d
  | .a2 rx d a => DuidOk c rx d ∧ AddrOk c b a d
  | .b1 rx d _ => DuidOk c rx d
  | .b2 rx d a => DuidOk c rx d ∧ AddrOk c b a d
  | .done => True

structure DbInv (c : SrvCfg) (b : Boot) (db : IPDB Table) (now : Int) : Prop where
  nf : db.netFrom = (fromTo b.base b.p).1
  nt : db.netTo = (fromTo b.base b.p).2
  df : db.dynFrom = b.dynRange.1
  dt : db.dynTo = b.dynRange.2
  rng : b.dynRange.1 ≤ b.dynRange.2 ∧ b.dynRange.2 < 4294967296
  excl : db.s.Exclusive now
  permIn : ∀ q ∈ permPairs c, ∃ x ∈ db.s, x.ip = q.1 ∧ x.duid = q.2 ∧ x.perm = true
  permOnly : ∀ x ∈ db.s, x.perm = true → (x.ip, x.duid) ∈ permPairs c
  dynOnly : ∀ x ∈ db.s, x.perm = false → DynOk b x.ip
  inNet : ∀ x ∈ db.s, db.netFrom ≤ x.ip ∧ x.ip ≤ db.netTo ∧ x.ip < 4294967296

/-- Clock-independent facts about a grant, fixed when it is made. -/
structure SentOk (c : SrvCfg) (b : Boot) (s : Sent) : Prop where
  duid : DuidOk c s.rx s.duid
  net : (fromTo b.base b.p).1 ≤ s.addr ∧ s.addr ≤ (fromTo b.base b.p).2 ∧ s.addr < 4294967296
  cls : (s.addr, s.duid) ∈ permPairs c ∨ ((∀ q ∈ permPairs c, q.1 ≠ s.addr ∧ q.2 ≠ s.duid) ∧ DynOk b s.addr)

/-- A grant has run out, or the table still holds the binding that backs it. -/
def Granted (c : SrvCfg) (T : Table) (now : Int) (s : Sent) : Prop :=
  s.t ≤ now ∧ (s.t + s.ttl c < now ∨
    ∃ x ∈ T, x.ip = s.addr ∧ x.duid = s.duid ∧ (x.perm = true ∨ s.t + s.ttl c ≤ x.exp))

def NoDouble (c : SrvCfg) (sent : List Sent) : Prop :=
  ∀ s₁ ∈ sent, ∀ s₂ ∈ sent, s₁.kind ≠ .nak → s₂.kind ≠ .nak → s₁.addr = s₂.addr → s₁.duid ≠ s₂.duid →
    s₁.t ≤ s₂.t → s₁.t + s₁.ttl c < s₂.t

structure SentInv (c : SrvCfg) (b : Boot) (T : Table) (now : Int) (sent : List Sent) (calls : List (Int × DbOp)) : Prop where
  ok : ∀ s ∈ sent, s.kind ≠ .nak → SentOk c b s
  gr : ∀ s ∈ sent, s.kind ≠ .nak → Granted c T now s
  cl : ∀ s ∈ sent, s.kind ≠ .nak → (s.t, DbOp.updateClient (some (Ip4.ofNat s.addr)) s.duid (s.ttl c)) ∈ calls
  nd : 0 ≤ c.leaseNs → NoDouble c sent

structure Inv (c : SrvCfg) (b : Boot) (sys : Sys Table) (now : Int) : Prop where
  db : DbInv c b sys.db now
  pend : ∀ p ∈ sys.pend, PendOk c b p
  sent : SentInv c b sys.db.s now sys.sent sys.calls

theorem perm_live {x : Binding} (h : x.perm = true) (t : Int) : x.live t = true := by
  simp [Binding.live, h]

theorem DbInv.mono {c : SrvCfg} {b : Boot} {db : IPDB Table} {t t' : Int} (h : DbInv c b db t) (htt : t ≤ t') :
    DbInv c b db t' :=
  { h with excl := exclusive_mono h.excl htt }

theorem Granted.mono {c : SrvCfg} {T : Table} {t t' : Int} {s : Sent} (h : Granted c T t s) (htt : t ≤ t') :
    Granted c T t' s := by
  refine ⟨by have := h.1; omega, ?_⟩
  rcases h.2 with h2 | h2
  · exact Or.inl (by omega)
  · exact Or.inr h2

theorem SentInv.mono {c : SrvCfg} {b : Boot} {T : Table} {t t' : Int} {sent : List Sent} {calls : List (Int × DbOp)}
    (h : SentInv c b T t sent calls) (htt : t ≤ t') : SentInv c b T t' sent calls :=
  { h with gr := fun s hs hk => (h.gr s hs hk).mono htt }

theorem Inv.mono {c : SrvCfg} {b : Boot} {sys : Sys Table} {t t' : Int} (h : Inv c b sys t) (htt : t ≤ t') :
    Inv c b sys t' :=
  ⟨h.db.mono htt, h.pend, h.sent.mono htt⟩

theorem SentInv.addCall {c : SrvCfg} {b : Boot} {T : Table} {t : Int} {sent : List Sent} {calls : List (Int × DbOp)}
    (h : SentInv c b T t sent calls) (x : Int × DbOp) : SentInv c b T t sent (x :: calls) :=
  { h with cl := fun s hs hk => List.mem_cons_of_mem _ (h.cl s hs hk) }

/-- A permanent pair is found by identity at every clock the table is exclusive at. -/
theorem DbInv.perm_liveDuid {c : SrvCfg} {b : Boot} {db : IPDB Table} {t : Int} (h : DbInv c b db t)
    {q : Nat × Duid} (hq : q ∈ permPairs c) :
    ∃ x, db.s.liveDuid t q.2 = some x ∧ x ∈ db.s ∧ x.ip = q.1 ∧ x.duid = q.2 ∧ x.perm = true := by
  obtain ⟨x, hx, h1, h2, h3⟩ := h.permIn q hq
  refine ⟨x, ?_, hx, h1, h2, h3⟩
  rw [← h2]; exact liveDuid_of_mem h.excl hx (perm_live h3 t)

/-- A live binding that shares address or identity with a permanent pair is that permanent binding. -/
theorem DbInv.perm_unique {c : SrvCfg} {b : Boot} {db : IPDB Table} {t : Int} (h : DbInv c b db t)
    {q : Nat × Duid} (hq : q ∈ permPairs c) {y : Binding} (hy : y ∈ db.s) (hl : y.live t = true)
    (hs : y.ip = q.1 ∨ y.duid = q.2) : y.ip = q.1 ∧ y.duid = q.2 ∧ y.perm = true := by
  obtain ⟨x, hx, h1, h2, h3⟩ := h.permIn q hq
  have : y = x := h.excl y hy x hx hl (perm_live h3 t) (by rw [h1, h2]; exact hs)
  subst this; exact ⟨h1, h2, h3⟩

/-- Two permanent pairs sharing address or identity coincide. -/
theorem DbInv.pairs_unique {c : SrvCfg} {b : Boot} {db : IPDB Table} {t : Int} (h : DbInv c b db t)
    {q r : Nat × Duid} (hq : q ∈ permPairs c) (hr : r ∈ permPairs c) (hs : q.1 = r.1 ∨ q.2 = r.2) : q = r := by
  obtain ⟨x, hx, h1, h2, h3⟩ := h.permIn q hq
  obtain ⟨e1, e2, -⟩ := h.perm_unique hr hx (perm_live h3 t) (by rw [h1, h2]; exact hs)
  rw [h1] at e1; rw [h2] at e2
  exact Prod.ext e1 e2

/-! ### `UpdateClient` and the invariant -/


/-! ### `UpdateClient` and the invariant -/

/-- Everything the invariant needs to know about one `UpdateClient` on the table. -/
structure UpdFacts (db : IPDB Table) (t : Int) (ip : Option Ip4) (d : Duid) (ttl : Int)
    (u : IPDB Table × Except DbErr Unit) : Prop where
  nf : u.1.netFrom = db.netFrom
  nt : u.1.netTo = db.netTo
  df : u.1.dynFrom = db.dynFrom
  dt : u.1.dynTo = db.dynTo
  excl : db.s.Exclusive t → u.1.s.Exclusive t
  ext : ∀ x ∈ db.s, x.live t = true →
    ∃ x' ∈ u.1.s, x'.ip = x.ip ∧ x'.duid = x.duid ∧ x'.perm = x.perm ∧ x.exp ≤ x'.exp
  back : ∀ x' ∈ u.1.s, (∃ x ∈ db.s, x'.ip = x.ip ∧ x'.duid = x.duid ∧ x'.perm = x.perm) ∨
    (∃ n, db.toUip ip = .ok n ∧ x'.ip = n ∧ x'.duid = d ∧ x'.perm = false ∧
      db.s.liveIp t n = none ∧ db.s.liveDuid t d = none)
  succ : u.2 = .ok () → ∃ n, db.toUip ip = .ok n ∧ ∃ x' ∈ u.1.s, x'.ip = n ∧ x'.duid = d ∧ t + ttl ≤ x'.exp ∧
    ((∃ x ∈ db.s, x.live t = true ∧ x.ip = n ∧ x.duid = d) ∨
     (db.s.liveIp t n = none ∧ db.s.liveDuid t d = none))

theorem updFacts_same (db : IPDB Table) (t : Int) (ip : Option Ip4) (d : Duid) (ttl : Int) (r : Except DbErr Unit)
    (hr : r ≠ .ok ()) : UpdFacts db t ip d ttl (db, r) where
  nf := rfl
  nt := rfl
  df := rfl
  dt := rfl
  excl := id
  ext := fun x hx _ => ⟨x, hx, rfl, rfl, rfl, Int.le_refl _⟩
  back := fun x hx => Or.inl ⟨x, hx, rfl, rfl, rfl⟩
  succ := fun h => absurd h hr

theorem updFacts (db : IPDB Table) (t : Int) (ip : Option Ip4) (d : Duid) (ttl : Int) :
    UpdFacts db t ip d ttl (db.updateClient tableStore t ip d ttl) := by
  rcases update_cases db t ip d ttl with ⟨e, -, he⟩ | ⟨n, hn, hc⟩
  · rw [he]; exact updFacts_same db t ip d ttl _ (by simp)
  · rcases hc with ⟨x, lt, h1, h2, hle, hlt, he⟩ | ⟨h1, h2, r, he, hr⟩ | ⟨-, -, r, hr, he⟩
    · rw [he]
      obtain ⟨mx, hip, hl⟩ := liveIp_some h1
      obtain ⟨-, hd, -⟩ := liveDuid_some h2
      have hmem : upd x lt x ∈ db.s.map (upd x lt) := List.mem_map.2 ⟨x, mx, rfl⟩
      refine ⟨rfl, rfl, rfl, rfl, ?_, ?_, ?_, ?_⟩
      · intro hx
        have := setLease_exclusive n d lt hx
        rwa [setLease_ok_of h1 h2] at this
      · intro y hy _
        refine ⟨upd x lt y, List.mem_map.2 ⟨y, hy, rfl⟩, upd_ip _ _ _, upd_duid _ _ _, upd_perm _ _ _, ?_⟩
        by_cases hyx : y = x
        · subst hyx; rw [upd_self]; exact hle
        · rw [upd_ne hyx]; exact Int.le_refl _
      · intro y' hy'
        obtain ⟨y, hy, rfl⟩ := List.mem_map.1 hy'
        exact Or.inl ⟨y, hy, upd_ip _ _ _, upd_duid _ _ _, upd_perm _ _ _⟩
      · intro _
        refine ⟨n, hn, upd x lt x, hmem, ?_, ?_, ?_, Or.inl ⟨x, mx, hl, hip, hd⟩⟩
        · rw [upd_ip]; exact hip
        · rw [upd_duid]; exact hd
        · rw [upd_self]; exact hlt
    · rw [he]
      refine ⟨rfl, rfl, rfl, rfl, ?_, ?_, ?_, ?_⟩
      · intro hx
        have := inject_exclusive n d (t + ttl) false hx
        rwa [inject_ok_eq h1 h2] at this
      · intro y hy hl
        exact ⟨y, List.mem_cons_of_mem _ (List.mem_filter.2 ⟨hy, hl⟩), rfl, rfl, rfl, Int.le_refl _⟩
      · intro y' hy'
        rcases List.mem_cons.1 hy' with rfl | hy'
        · exact Or.inr ⟨n, hn, rfl, rfl, rfl, h1, h2⟩
        · exact Or.inl ⟨y', (List.mem_filter.1 hy').1, rfl, rfl, rfl⟩
      · intro _
        exact ⟨n, hn, _, List.mem_cons_self, rfl, rfl, Int.le_refl _, Or.inr ⟨h1, h2⟩⟩
    · rw [he]; exact updFacts_same db t ip d ttl _ hr

theorem toUip_some {σ : Type} {db : IPDB σ} {i : Ip4} {n : Nat} (h : db.toUip (some i) = .ok n) :
    n = i.toNat ∧ db.netFrom ≤ n ∧ n ≤ db.netTo := by
  unfold IPDB.toUip at h
  simp only at h
  split at h
  · cases h
  · cases h; omega

/-- The database part of the invariant survives an `UpdateClient` of a handler. -/
theorem DbInv.update {c : SrvCfg} {b : Boot} {db : IPDB Table} {t : Int} (h : DbInv c b db t)
    {a : Nat} {d : Duid} (ha : AddrOk c b a d) (ttl : Int) :
    DbInv c b (db.updateClient tableStore t (some (Ip4.ofNat a)) d ttl).1 t := by
  have f := updFacts db t (some (Ip4.ofNat a)) d ttl
  generalize db.updateClient tableStore t (some (Ip4.ofNat a)) d ttl = u at f
  refine ⟨f.nf.trans h.nf, f.nt.trans h.nt, f.df.trans h.df, f.dt.trans h.dt, h.rng, f.excl h.excl, ?_, ?_, ?_, ?_⟩
  · intro q hq
    obtain ⟨x, hx, h1, h2, h3⟩ := h.permIn q hq
    obtain ⟨x', hx', e1, e2, e3, -⟩ := f.ext x hx (perm_live h3 t)
    exact ⟨x', hx', e1.trans h1, e2.trans h2, e3.trans h3⟩
  · intro x' hx' hp
    rcases f.back x' hx' with ⟨x, hx, e1, e2, e3⟩ | ⟨n, -, -, -, e3, -, -⟩
    · rw [e1, e2]; exact h.permOnly x hx (e3 ▸ hp)
    · rw [e3] at hp; cases hp
  · intro x' hx' hp
    rcases f.back x' hx' with ⟨x, hx, e1, e2, e3⟩ | ⟨n, hn, e1, e2, -, -, h2⟩
    · rw [e1]; exact h.dynOnly x hx (e3 ▸ hp)
    · obtain ⟨hn1, -, -⟩ := toUip_some hn
      rw [Ip4.toNat_ofNat ha.1] at hn1
      rw [e1, hn1]
      rcases ha.2 with hq | hd
      · obtain ⟨y, hy, -⟩ := h.perm_liveDuid hq
        have hy' : db.s.liveDuid t d = some y := hy
        rw [h2] at hy'; cases hy'
      · exact hd
  · intro x' hx'
    rw [f.nf, f.nt]
    rcases f.back x' hx' with ⟨x, hx, e1, e2, e3⟩ | ⟨n, hn, e1, -, -, -, -⟩
    · rw [e1]; exact h.inNet x hx
    · obtain ⟨hn1, hn2, hn3⟩ := toUip_some hn
      rw [e1]
      exact ⟨hn2, hn3, by rw [hn1]; exact Ip4.toNat_lt _⟩

/-- Grants stay backed across an `UpdateClient`: live bindings keep their holder and never shrink. -/
theorem SentInv.update {c : SrvCfg} {b : Boot} {db : IPDB Table} {t : Int} {sent : List Sent}
    {calls : List (Int × DbOp)} (hs : SentInv c b db.s t sent calls) (ip : Option Ip4) (d : Duid) (ttl : Int)
    (x : Int × DbOp) :
    SentInv c b (db.updateClient tableStore t ip d ttl).1.s t sent (x :: calls) := by
  have f := updFacts db t ip d ttl
  generalize db.updateClient tableStore t ip d ttl = u at f
  refine ⟨hs.ok, ?_, fun s h1 h2 => List.mem_cons_of_mem _ (hs.cl s h1 h2), hs.nd⟩
  intro s h1 h2
  obtain ⟨g1, g2⟩ := hs.gr s h1 h2
  refine ⟨g1, ?_⟩
  by_cases hexp : s.t + s.ttl c < t
  · exact Or.inl hexp
  · rcases g2 with g2 | ⟨y, hy, e1, e2, e3⟩
    · exact Or.inl g2
    · have hl : y.live t = true := by
        simp only [Binding.live, Bool.or_eq_true, decide_eq_true_eq]
        rcases e3 with e3 | e3
        · exact Or.inl e3
        · exact Or.inr (by omega)
      obtain ⟨y', hy', f1, f2, f3, f4⟩ := f.ext y hy hl
      refine Or.inr ⟨y', hy', f1.trans e1, f2.trans e2, ?_⟩
      rcases e3 with e3 | e3
      · exact Or.inl (f3.trans e3)
      · exact Or.inr (by omega)

theorem ttl_nonneg {c : SrvCfg} (hl : 0 ≤ c.leaseNs) (s : Sent) : 0 ≤ s.ttl c := by
  unfold Sent.ttl
  cases s.kind <;> simp only [offerHoldNs] <;> omega

/-- A successful `UpdateClient` of a handler justifies appending its grant. -/
theorem SentInv.grant {c : SrvCfg} {b : Boot} {db : IPDB Table} {t : Int} {sent : List Sent}
    {calls : List (Int × DbOp)} (h : DbInv c b db t) (hs : SentInv c b db.s t sent calls)
    {rx : Rx} {a : Nat} {d : Duid} (hd : DuidOk c rx d) (ha : AddrOk c b a d) (kind : ReplyKind)
    (frame : Frame) (ttl : Int) (httl : ttl = (⟨t, kind, a, d, rx, frame⟩ : Sent).ttl c)
    (hok : (db.updateClient tableStore t (some (Ip4.ofNat a)) d ttl).2 = .ok ()) :
    SentInv c b (db.updateClient tableStore t (some (Ip4.ofNat a)) d ttl).1.s t
      (⟨t, kind, a, d, rx, frame⟩ :: sent) ((t, DbOp.updateClient (some (Ip4.ofNat a)) d ttl) :: calls) := by
  have hold := hs.update (db := db) (some (Ip4.ofNat a)) d ttl (t, DbOp.updateClient (some (Ip4.ofNat a)) d ttl)
  have f := updFacts db t (some (Ip4.ofNat a)) d ttl
  generalize db.updateClient tableStore t (some (Ip4.ofNat a)) d ttl = u at f hok hold
  obtain ⟨n, hn, x', hx', e1, e2, e3, hcase⟩ := f.succ hok
  obtain ⟨hn1, hn2, hn3⟩ := toUip_some hn
  rw [Ip4.toNat_ofNat ha.1] at hn1
  subst hn1
  -- an earlier grant of the same address to someone else has run out
  have hexpired : ∀ s ∈ sent, s.kind ≠ .nak → s.addr = n → s.duid ≠ d → s.t + s.ttl c < t := by
    intro s h1 h2 h3 h4
    obtain ⟨g1, g2⟩ := hs.gr s h1 h2
    rcases g2 with g2 | ⟨y, hy, f1, f2, f3⟩
    · exact g2
    · by_cases hexp : s.t + s.ttl c < t
      · exact hexp
      · have hl : y.live t = true := by
          simp only [Binding.live, Bool.or_eq_true, decide_eq_true_eq]
          rcases f3 with f3 | f3
          · exact Or.inl f3
          · exact Or.inr (by omega)
        rcases hcase with ⟨z, hz, hzl, z1, z2⟩ | ⟨c1, -⟩
        · have : y = z := h.excl y hy z hz hl hzl (Or.inl (by rw [f1, z1, h3]))
          subst this
          exact absurd (f2.symm.trans z2) h4
        · exact absurd (f1.trans h3) (liveIp_none c1 y hy hl)
  refine ⟨?_, ?_, ?_, ?_⟩
  · intro s h1 h2
    rcases List.mem_cons.1 h1 with rfl | h1
    · refine ⟨hd, ⟨by rw [← h.nf]; exact hn2, by rw [← h.nt]; exact hn3, ha.1⟩, ?_⟩
      show (n, d) ∈ permPairs c ∨ _
      rcases hcase with ⟨z, hz, hzl, z1, z2⟩ | ⟨c1, c2⟩
      · cases hzp : z.perm with
        | true => left; have := h.permOnly z hz hzp; rwa [z1, z2] at this
        | false =>
          right
          refine ⟨?_, z1 ▸ h.dynOnly z hz hzp⟩
          intro q hq
          constructor
          · intro hq1
            obtain ⟨-, -, hp⟩ := h.perm_unique hq hz hzl (Or.inl (by rw [z1, hq1]))
            rw [hzp] at hp; cases hp
          · intro hq2
            obtain ⟨-, -, hp⟩ := h.perm_unique hq hz hzl (Or.inr (by rw [z2, hq2]))
            rw [hzp] at hp; cases hp
      · have hno : ∀ q ∈ permPairs c, q.1 ≠ n ∧ q.2 ≠ d := by
          intro q hq
          obtain ⟨y, hy, y1, y2, y3⟩ := h.permIn q hq
          exact ⟨fun hq1 => liveIp_none c1 y hy (perm_live y3 t) (y1.trans hq1),
                 fun hq2 => liveDuid_none c2 y hy (perm_live y3 t) (y2.trans hq2)⟩
        right
        refine ⟨hno, ?_⟩
        rcases ha.2 with hq | hdyn
        · exact absurd rfl (hno _ hq).1
        · exact hdyn
    · exact hs.ok s h1 h2
  · intro s h1 h2
    rcases List.mem_cons.1 h1 with rfl | h1
    · refine ⟨Int.le_refl _, Or.inr ⟨x', hx', e1, e2, Or.inr ?_⟩⟩
      rw [← httl]; exact e3
    · exact hold.gr s h1 h2
  · intro s h1 h2
    rcases List.mem_cons.1 h1 with rfl | h1
    · rw [← httl]; exact List.mem_cons_self
    · exact hold.cl s h1 h2
  · intro hl s₁ h1 s₂ h2 k1 k2 hadr hne hle
    rcases List.mem_cons.1 h1 with rfl | h1 <;> rcases List.mem_cons.1 h2 with rfl | h2
    · exact absurd rfl hne
    · -- the new grant first, an old one at the same clock: impossible
      have := hexpired s₂ h2 k2 hadr.symm (Ne.symm hne)
      have g1 := (hs.gr s₂ h2 k2).1
      have := ttl_nonneg hl s₂
      simp only at hle
      omega
    · exact hexpired s₁ h1 k1 hadr hne
    · exact hs.nd hl s₁ h1 s₂ h2 k1 k2 hadr hne hle

/-! ### One event -/

theorem todo_self {σ : Type} {c : SrvCfg} {db : IPDB σ} {rx : Rx} (h : c.selfMac = rx.msg.chaddr) :
    todo c db rx = .drop := by
  unfold todo; simp only [h, if_true]

theorem binding_addrOk {c : SrvCfg} {b : Boot} {db : IPDB Table} {t : Int} (h : DbInv c b db t)
    {x : Binding} (hx : x ∈ db.s) : AddrOk c b x.ip x.duid := by
  refine ⟨(h.inNet x hx).2.2, ?_⟩
  cases hp : x.perm with
  | true => exact Or.inl (h.permOnly x hx hp)
  | false => exact Or.inr (h.dynOnly x hx hp)

theorem find_addrOk {c : SrvCfg} {b : Boot} {db : IPDB Table} {t : Int} (h : DbInv c b db t)
    (sugg : Option Ip4) (d : Duid) (perm : List Nat) (orc : Nat → IPDB.Iter) (a : Nat)
    (hp : ∀ v ∈ perm, v ≤ b.dynRange.2 - b.dynRange.1)
    (hres : (db.findIP tableStore t sugg d perm orc).2 = .ok a) : AddrOk c b a d := by
  cases hl : db.s.liveDuid t d with
  | some x =>
    rw [find_existing db t sugg d perm orc x hl] at hres
    obtain ⟨hx, hd, -⟩ := liveDuid_some hl
    cases hres
    rw [← hd]; exact binding_addrOk h hx
  | none =>
    have hen : ¬ (db.dynTo = 0 ∧ db.dynFrom = 0) := by
      intro hd
      rw [find_disabled db t sugg d perm orc hl hd] at hres; cases hres
    obtain ⟨h1, h2, -, -⟩ := find_result_eligible db t sugg d perm orc a hl
      (by rw [h.df, h.dt]; exact hp) (by rw [h.df, h.dt]; exact h.rng) hres
    rw [h.df, h.dt] at hen
    rw [h.df] at h1; rw [h.dt] at h2
    exact ⟨by have := h.rng.2; omega, Or.inr ⟨hen, h1, h2⟩⟩

theorem getDuid_duidOk {c : SrvCfg} {b : Boot} {db : IPDB Table} {t : Int} (h : DbInv c b db t) (rx : Rx) (cid : Bytes)
    (hne : c.selfMac ≠ rx.msg.chaddr) : DuidOk c rx (getDuid tableStore db t rx.msg.chaddr cid).2 := by
  refine ⟨Ne.symm hne, ?_⟩
  rcases holder_identity tableStore db t rx.msg.chaddr cid with h1 | ⟨h1, h2, h3⟩
  · exact Or.inl h1
  · right
    rw [h1]
    refine ⟨h2, h3, ?_⟩
    have hne' : (getDuid tableStore db t rx.msg.chaddr cid).2 ≠ sduid rx.msg.chaddr := by
      rw [h1]; intro he; rw [he, sduid_prefix] at h3; cases h3
    have hnone := getDuid_table_cid db t _ _ hne'
    intro q hq hq2
    obtain ⟨x, hx, -⟩ := h.perm_liveDuid hq
    rw [hq2, hnone] at hx; cases hx

theorem mem_setPend {σ : Type} {s : Sys σ} {i : Nat} {p q : Pending} (h : q ∈ (s.setPend i p).pend) :
    q ∈ s.pend ∨ q = p := List.mem_or_eq_of_mem_set h


theorem step_recv {c : SrvCfg} {b : Boot} {sys : Sys Table} {now : Int} (hi : Inv c b sys now) (t : Int) (bytes : Bytes)
    (ht : now ≤ (Ev.t (.recv t bytes))) (_hc : Ev.ClockOk (.recv t bytes)) (_hp : Ev.PermOk b.dynRange.1 b.dynRange.2 (.recv t bytes)) :
    Inv c b (Sys.step tableStore c sys (.recv t bytes)) (Ev.tEnd (.recv t bytes)) := by
  have hi := hi.mono ht
  simp only [Ev.t] at hi
  simp only [Sys.step, Ev.tEnd, Ev.t]
  split
  · rename_i rx hrx
    simp only [getDuid_table_fst]
    have hsent := hi.sent.addCall (t, DbOp.lookupByDuid (sduid rx.msg.chaddr))
    split
    · exact ⟨hi.db, hi.pend, hsent⟩
    · rename_i htd
      have hne : c.selfMac ≠ rx.msg.chaddr := fun he => by rw [todo_self he] at htd; cases htd
      refine ⟨hi.db, ?_, hsent⟩
      intro p hpm
      rcases List.mem_append.1 hpm with hp | hp
      · exact hi.pend p hp
      · rw [List.mem_singleton.1 hp]
        exact getDuid_duidOk hi.db rx _ hne
    · rename_i want htd
      have hne : c.selfMac ≠ rx.msg.chaddr := fun he => by rw [todo_self he] at htd; cases htd
      refine ⟨hi.db, ?_, hsent⟩
      intro p hpm
      rcases List.mem_append.1 hpm with hp | hp
      · exact hi.pend p hp
      · rw [List.mem_singleton.1 hp]
        exact getDuid_duidOk hi.db rx _ hne
  · exact hi


theorem step_find {c : SrvCfg} {b : Boot} {sys : Sys Table} {now : Int} (hi : Inv c b sys now) (i : Nat) (t : Int) (perm : List Nat) (orc : Nat → IPDB.Iter) (tEnd : Int)
    (ht : now ≤ (Ev.t (.find i t perm orc tEnd))) (hc : Ev.ClockOk (.find i t perm orc tEnd)) (hp : Ev.PermOk b.dynRange.1 b.dynRange.2 (.find i t perm orc tEnd)) :
    Inv c b (Sys.step tableStore c sys (.find i t perm orc tEnd)) (Ev.tEnd (.find i t perm orc tEnd)) := by
  have hi := hi.mono ht
  have hte : t ≤ tEnd := Int.le_trans hc.1 (hc.2.2 0)
  simp only [Ev.t] at hi
  simp only [Sys.step, Ev.tEnd]
  split
  · rename_i rx duid hpi
    have hpo : DuidOk c rx duid := hi.pend _ (List.mem_of_getElem? hpi)
    simp only [findIP_table_fst]
    have hsent := hi.sent.addCall (t, DbOp.findIP (decodeOptions rx.msg.options).requestedIP duid perm orc tEnd)
    split
    · refine Inv.mono ⟨hi.db, ?_, hsent⟩ hte
      intro p hpm
      rcases mem_setPend hpm with hp | rfl
      · exact hi.pend p hp
      · trivial
    · rename_i a hres
      refine Inv.mono ⟨hi.db, ?_, hsent⟩ hte
      intro p hpm
      rcases mem_setPend hpm with hp | rfl
      · exact hi.pend p hp
      · exact ⟨hpo, find_addrOk hi.db _ _ _ _ _ hp hres⟩
  · exact hi.mono hte


/-! The `hold` and `lease` branches contain `UpdateClient` on a symbolic address; the kernel must never be asked to
evaluate it, so the outer `match` on the handler is reduced by explicit equations about the two matchers of
`Sys.step` (no `split`, no `simp`), and the call is generalised before anything else is done. -/

theorem hold_match {σ : Type} {o : Option Pending} {rx : Rx} {duid : Duid} {a : Nat} (ho : o = some (.a2 rx duid a))
    (F : Rx → Duid → Nat → Sys σ) (g : Option Pending → Sys σ) :
    Sys.step.match_14 (fun _ => Sys σ) o F g = F rx duid a := by
  subst ho; rfl

theorem hold_match_other {σ : Type} {o : Option Pending} (ho : ∀ rx duid a, o ≠ some (.a2 rx duid a))
    (F : Rx → Duid → Nat → Sys σ) (g : Option Pending → Sys σ) :
    Sys.step.match_14 (fun _ => Sys σ) o F g = g o := by
  cases o with
  | none => rfl
  | some p =>
    cases p with
    | a2 rx duid a => exact absurd rfl (ho rx duid a)
    | _ => rfl

theorem lease_match {σ : Type} {o : Option Pending} {rx : Rx} {duid : Duid} {a : Nat} (ho : o = some (.b2 rx duid a))
    (F : Rx → Duid → Nat → Sys σ) (g : Option Pending → Sys σ) :
    Sys.step.match_20 (fun _ => Sys σ) o F g = F rx duid a := by
  subst ho; rfl

theorem lease_match_other {σ : Type} {o : Option Pending} (ho : ∀ rx duid a, o ≠ some (.b2 rx duid a))
    (F : Rx → Duid → Nat → Sys σ) (g : Option Pending → Sys σ) :
    Sys.step.match_20 (fun _ => Sys σ) o F g = g o := by
  cases o with
  | none => rfl
  | some p =>
    cases p with
    | b2 rx duid a => exact absurd rfl (ho rx duid a)
    | _ => rfl

theorem step_hold {c : SrvCfg} {b : Boot} {sys : Sys Table} {now : Int} (hi : Inv c b sys now) (i : Nat) (t : Int)
    (ht : now ≤ (Ev.t (.hold i t))) :
    Inv c b (Sys.step tableStore c sys (.hold i t)) (Ev.tEnd (.hold i t)) := by
  have hi := hi.mono ht
  change Inv c b sys t at hi
  change Inv c b (Sys.step tableStore c sys (.hold i t)) t
  rw [Sys.step]
  by_cases hex : ∃ rx duid a, sys.pend[i]? = some (.a2 rx duid a)
  · obtain ⟨rx, duid, a, hpi⟩ := hex
    rw [hold_match hpi]
    obtain ⟨hpo, hao⟩ : DuidOk c rx duid ∧ AddrOk c b a duid := hi.pend _ (List.mem_of_getElem? hpi)
    have hdb := hi.db.update hao offerHoldNs
    have hs1 := hi.sent.update (db := sys.db) (some (Ip4.ofNat a)) duid offerHoldNs
      (t, DbOp.updateClient (some (Ip4.ofNat a)) duid offerHoldNs)
    have hs2 := fun hok => SentInv.grant hi.db hi.sent hpo hao .offer (leaseFrame c .offer rx.msg (Ip4.ofNat a))
      offerHoldNs rfl hok
    generalize sys.db.updateClient tableStore t (some (Ip4.ofNat a)) duid offerHoldNs = u at hdb hs1 hs2 ⊢
    obtain ⟨db', r⟩ := u
    cases r with
    | error e =>
      refine ⟨hdb, ?_, hs1⟩
      intro p hpm
      rcases mem_setPend hpm with hp | rfl
      · exact hi.pend p hp
      · trivial
    | ok v =>
      refine ⟨hdb, ?_, hs2 rfl⟩
      intro p hpm
      rcases mem_setPend hpm with hp | rfl
      · exact hi.pend p hp
      · trivial
  · rw [hold_match_other (fun rx duid a h => hex ⟨rx, duid, a, h⟩)]
    exact hi

theorem step_look {c : SrvCfg} {b : Boot} {sys : Sys Table} {now : Int} (hi : Inv c b sys now) (i : Nat) (t : Int) (probeFree : Bool)
    (ht : now ≤ (Ev.t (.look i t probeFree))) (_hc : Ev.ClockOk (.look i t probeFree)) (_hp : Ev.PermOk b.dynRange.1 b.dynRange.2 (.look i t probeFree)) :
    Inv c b (Sys.step tableStore c sys (.look i t probeFree)) (Ev.tEnd (.look i t probeFree)) := by
  have hi := hi.mono ht
  simp only [Ev.t] at hi
  simp only [Sys.step, Ev.tEnd, Ev.t]
  split
  · rename_i rx duid want hpi
    have hpo : DuidOk c rx duid := hi.pend _ (List.mem_of_getElem? hpi)
    simp only [lookupByDuid_table]
    have hsent := hi.sent.addCall (t, DbOp.lookupByDuid duid)
    have hnak : Inv c b
        { db := sys.db, pend := (sys.pend.set i .done), sent := ⟨t, .nak, 0, duid, rx, nakFrame c rx.msg⟩ :: sys.sent,
          calls := (t, DbOp.lookupByDuid duid) :: sys.calls } t := by
      refine ⟨hi.db, ?_, ?_⟩
      · intro p hpm
        rcases List.mem_or_eq_of_mem_set hpm with hp | rfl
        · exact hi.pend p hp
        · trivial
      · refine ⟨?_, ?_, ?_, ?_⟩
        · intro s h1 h2
          rcases List.mem_cons.1 h1 with rfl | h1
          · exact absurd rfl h2
          · exact hsent.ok s h1 h2
        · intro s h1 h2
          rcases List.mem_cons.1 h1 with rfl | h1
          · exact absurd rfl h2
          · exact hsent.gr s h1 h2
        · intro s h1 h2
          rcases List.mem_cons.1 h1 with rfl | h1
          · exact absurd rfl h2
          · exact hsent.cl s h1 h2
        · intro hl s₁ h1 s₂ h2 k1 k2
          rcases List.mem_cons.1 h1 with rfl | h1
          · exact absurd rfl k1
          · rcases List.mem_cons.1 h2 with rfl | h2
            · exact absurd rfl k2
            · exact hsent.nd hl s₁ h1 s₂ h2 k1 k2
    split
    · exact hnak
    · rename_i lease hres
      split
      · exact hnak
      · split
        · exact hnak
        · refine ⟨hi.db, ?_, hsent⟩
          intro p hpm
          rcases mem_setPend hpm with hp | rfl
          · exact hi.pend p hp
          · refine ⟨hpo, ?_⟩
            cases hl : sys.db.s.liveDuid t duid with
            | none => rw [hl] at hres; cases hres
            | some x =>
              rw [hl] at hres
              obtain ⟨hx, hd, -⟩ := liveDuid_some hl
              cases hres
              rw [← hd]; exact binding_addrOk hi.db hx
  · exact hi


theorem step_lease {c : SrvCfg} {b : Boot} {sys : Sys Table} {now : Int} (hi : Inv c b sys now) (i : Nat) (t : Int)
    (ht : now ≤ (Ev.t (.lease i t))) :
    Inv c b (Sys.step tableStore c sys (.lease i t)) (Ev.tEnd (.lease i t)) := by
  have hi := hi.mono ht
  change Inv c b sys t at hi
  change Inv c b (Sys.step tableStore c sys (.lease i t)) t
  rw [Sys.step]
  by_cases hex : ∃ rx duid a, sys.pend[i]? = some (.b2 rx duid a)
  · obtain ⟨rx, duid, a, hpi⟩ := hex
    rw [lease_match hpi]
    obtain ⟨hpo, hao⟩ : DuidOk c rx duid ∧ AddrOk c b a duid := hi.pend _ (List.mem_of_getElem? hpi)
    have hdb := hi.db.update hao c.leaseNs
    have hs1 := hi.sent.update (db := sys.db) (some (Ip4.ofNat a)) duid c.leaseNs
      (t, DbOp.updateClient (some (Ip4.ofNat a)) duid c.leaseNs)
    have hs2 := fun hok => SentInv.grant hi.db hi.sent hpo hao .ack (leaseFrame c .ack rx.msg (Ip4.ofNat a))
      c.leaseNs rfl hok
    generalize sys.db.updateClient tableStore t (some (Ip4.ofNat a)) duid c.leaseNs = u at hdb hs1 hs2 ⊢
    obtain ⟨db', r⟩ := u
    cases r with
    | error e =>
      refine ⟨hdb, ?_, hs1⟩
      intro p hpm
      rcases mem_setPend hpm with hp | rfl
      · exact hi.pend p hp
      · trivial
    | ok v =>
      refine ⟨hdb, ?_, hs2 rfl⟩
      intro p hpm
      rcases mem_setPend hpm with hp | rfl
      · exact hi.pend p hp
      · trivial
  · rw [lease_match_other (fun rx duid a h => hex ⟨rx, duid, a, h⟩)]
    exact hi

theorem step_inv {c : SrvCfg} {b : Boot} {sys : Sys Table} {now : Int} (hi : Inv c b sys now) (e : Ev)
    (ht : now ≤ e.t) (hc : e.ClockOk) (hp : Ev.PermOk b.dynRange.1 b.dynRange.2 e) :
    Inv c b (Sys.step tableStore c sys e) e.tEnd := by
  cases e with
  | recv t bytes => exact step_recv hi t bytes ht hc hp
  | find i t perm orc tEnd => exact step_find hi i t perm orc tEnd ht hc hp
  | hold i t => exact step_hold hi i t ht
  | look i t probeFree => exact step_look hi i t probeFree ht hc hp
  | lease i t => exact step_lease hi i t ht

/-! ## Start-up

`serverInit` runs `AddPermanentClient` on symbolic addresses.  The kernel must never be asked to evaluate such a call,
so `serverInit` is opened with `delta` and its matchers are eliminated by lemmas over abstract alternatives. -/

/-- The client entries are installed one after the other, each successfully. -/
def AddAll {σ : Type} (S : Store σ) (t : Int) : List Override → IPDB σ → IPDB σ → Prop
  | [], d, d' => d' = d
  | o :: rest, d, d' =>
    (o.ip = none ∧ AddAll S t rest d d') ∨
    ∃ ip d1 v, o.ip = some ip ∧ d.addPermanent S t (some ip) (sduid o.mac) = (d1, .ok v) ∧ AddAll S t rest d1 d'

theorem m1_some {σ : Type} {r : IPDB σ × Except DbErr Unit} {d : IPDB σ}
    (h : serverInit.match_1 (fun _ => Option (IPDB σ)) r (fun db' _ => some db') (fun _ _ => none) = some d) :
    ∃ v, r = (d, .ok v) := by
  obtain ⟨d', e⟩ := r
  cases e with
  | error x => cases h
  | ok v =>
    have h' : some d' = some d := h
    cases h'
    exact ⟨v, rfl⟩

theorem m7_some {σ : Type} {o : Option (IPDB σ)} {F : IPDB σ → Option (IPDB σ)} {r : IPDB σ}
    (h : serverInit.match_7 (fun _ => Option (IPDB σ)) o (fun _ => none) F = some r) : ∃ d, o = some d ∧ F d = some r := by
  cases o with
  | none => cases h
  | some d => exact ⟨d, rfl, h⟩

theorem m3_some {α : Type} {dyn : Option (Ip4 × Ip4)} {A : α} {B : Ip4 → Ip4 → α} {r : α}
    (h : serverInit.match_3 (fun _ => α) dyn (fun _ => A) B = r) :
    (dyn = none ∧ A = r) ∨ ∃ a b, dyn = some (a, b) ∧ B a b = r := by
  cases dyn with
  | none => exact Or.inl ⟨rfl, h⟩
  | some ab => obtain ⟨a, b⟩ := ab; exact Or.inr ⟨a, b, rfl, h⟩

theorem m5_some {σ : Type} {acc : Option (IPDB σ)} {oip : Option Ip4} {F : IPDB σ → Ip4 → Option (IPDB σ)} {r : IPDB σ}
    (h : serverInit.match_5 (fun _ _ => Option (IPDB σ)) acc oip (fun _ => none) (fun d => some d) F = some r) :
    ∃ d, acc = some d ∧ ((oip = none ∧ r = d) ∨ ∃ ip, oip = some ip ∧ F d ip = some r) := by
  cases acc with
  | none => cases h
  | some d =>
    refine ⟨d, rfl, ?_⟩
    cases oip with
    | none =>
      have h' : some d = some r := h
      cases h'; exact Or.inl ⟨rfl, rfl⟩
    | some ip => exact Or.inr ⟨ip, rfl, h⟩

theorem fold_some_gen {σ : Type} (S : Store σ) (t : Int) (f : Option (IPDB σ) → Override → Option (IPDB σ))
    (hf : ∀ acc o d1, f acc o = some d1 → ∃ d, acc = some d ∧ ((o.ip = none ∧ d1 = d) ∨
      ∃ ip v, o.ip = some ip ∧ d.addPermanent S t (some ip) (sduid o.mac) = (d1, .ok v))) (l : List Override) :
    ∀ acc r, List.foldl f acc l = some r → ∃ d, acc = some d ∧ AddAll S t l d r := by
  induction l with
  | nil => intro acc r h; exact ⟨r, h, rfl⟩
  | cons o rest ih =>
    intro acc r h
    rw [List.foldl_cons] at h
    obtain ⟨d1, h1, h2⟩ := ih _ _ h
    obtain ⟨d, hd, hc⟩ := hf _ _ _ h1
    refine ⟨d, hd, ?_⟩
    rcases hc with ⟨hn, rfl⟩ | ⟨ip, v, hip, hadd⟩
    · exact Or.inl ⟨hn, h2⟩
    · exact Or.inr ⟨ip, d1, v, hip, hadd, h2⟩

/-- What a successful start-up consists of. -/
theorem serverInit_some {σ : Type} (S : Store σ) (empty : σ) (c : SrvCfg) (base p : Nat) (dyn : Option (Ip4 × Ip4))
    (staticOnly : Bool) (t : Int) (db0 : IPDB σ) (h : serverInit S empty c base p dyn staticOnly t = some db0) :
    ∃ db1 db2 v,
      ((dyn = none ∧ db1 = IPDB.new empty base p) ∨
        ∃ a b w, dyn = some (a, b) ∧ (IPDB.new empty base p).setDynamicRange (some a) (some b) = (db1, .ok w)) ∧
      AddAll S t c.overrides (if staticOnly = true then db1.disableDynamic else db1) db2 ∧
      db2.addPermanent S t (some c.selfIp) (sduid c.selfMac) = (db0, .ok v) := by
  delta serverInit at h
  obtain ⟨db1, h1, h⟩ := m7_some h
  obtain ⟨acc, h2, h⟩ := m7_some h
  obtain ⟨v, h3⟩ := m1_some h
  obtain ⟨d, hd, h2⟩ := fold_some_gen S t _ (by
    intro acc o d1 hh
    obtain ⟨d, hd, hc⟩ := m5_some hh
    refine ⟨d, hd, ?_⟩
    rcases hc with hc | ⟨ip, hip, hc⟩
    · exact Or.inl hc
    · obtain ⟨v, hv⟩ := m1_some hc
      exact Or.inr ⟨ip, v, hip, hv⟩) _ _ _ h2
  cases hd
  refine ⟨db1, acc, v, ?_, h2, h3⟩
  rcases m3_some h1 with ⟨hn, he⟩ | ⟨a, b, hab, he⟩
  · cases he; exact Or.inl ⟨hn, rfl⟩
  · obtain ⟨w, hw⟩ := m1_some he
    exact Or.inr ⟨a, b, w, hab, hw⟩

theorem setDynamicRange_ok {σ : Type} {db db1 : IPDB σ} {a b : Option Ip4} {w : Unit}
    (h : db.setDynamicRange a b = (db1, .ok w)) :
    ∃ bb ee, db.toUip a = .ok bb ∧ db.toUip b = .ok ee ∧ bb ≤ ee ∧ db1 = { db with dynFrom := bb, dynTo := ee } := by
  unfold IPDB.setDynamicRange at h
  generalize db.toUip a = r1 at h ⊢
  generalize db.toUip b = r2 at h ⊢
  cases r1 with
  | error x => cases h
  | ok bb =>
    cases r2 with
    | error x => cases h
    | ok ee =>
      refine ⟨bb, ee, rfl, rfl, ?_⟩
      by_cases hgt : bb > ee
      · simp only [hgt, if_true] at h; cases h
      · simp only [hgt, if_false] at h
        cases h
        exact ⟨by omega, rfl⟩

/-- The invariant while the permanent bindings are being installed: the table holds exactly the pairs `P`. -/
structure PInv (b : Boot) (P : List (Nat × Duid)) (db : IPDB Table) (t : Int) : Prop where
  nf : db.netFrom = (fromTo b.base b.p).1
  nt : db.netTo = (fromTo b.base b.p).2
  df : db.dynFrom = b.dynRange.1
  dt : db.dynTo = b.dynRange.2
  excl : db.s.Exclusive t
  permIn : ∀ q ∈ P, ∃ x ∈ db.s, x.ip = q.1 ∧ x.duid = q.2 ∧ x.perm = true
  permOnly : ∀ x ∈ db.s, x.perm = true ∧ (x.ip, x.duid) ∈ P
  inNet : ∀ x ∈ db.s, db.netFrom ≤ x.ip ∧ x.ip ≤ db.netTo ∧ x.ip < 4294967296

theorem PInv.add {b : Boot} {P : List (Nat × Duid)} {db db' : IPDB Table} {t : Int} (h : PInv b P db t)
    {ip : Ip4} {d : Duid} {v : Unit} (ha : db.addPermanent tableStore t (some ip) d = (db', .ok v)) :
    PInv b (P ++ [(ip.toNat, d)]) db' t ∧ db.netFrom ≤ ip.toNat ∧ ip.toNat ≤ db.netTo := by
  rcases addPermanent_cases db t (some ip) d with hne | ⟨n, hn, h1, h2, he⟩
  · rw [ha] at hne; exact absurd rfl hne
  · rw [ha] at he
    obtain ⟨e1, e2, e3⟩ := toUip_some hn
    subst e1
    have hdb : db' = { db with s := ⟨ip.toNat, d, 0, true⟩ :: db.s.filter (fun b => b.live t) } := by
      injection he
    subst hdb
    refine ⟨⟨h.nf, h.nt, h.df, h.dt, ?_, ?_, ?_, ?_⟩, e2, e3⟩
    · have := inject_exclusive ip.toNat d 0 true h.excl
      rwa [inject_ok_eq h1 h2] at this
    · intro q hq
      rcases List.mem_append.1 hq with hq | hq
      · obtain ⟨x, hx, x1, x2, x3⟩ := h.permIn q hq
        exact ⟨x, List.mem_cons_of_mem _ (List.mem_filter.2 ⟨hx, perm_live x3 t⟩), x1, x2, x3⟩
      · rw [List.mem_singleton.1 hq]
        exact ⟨_, List.mem_cons_self, rfl, rfl, rfl⟩
    · intro x hx
      rcases List.mem_cons.1 hx with rfl | hx
      · exact ⟨rfl, List.mem_append_right _ (List.mem_singleton.2 rfl)⟩
      · obtain ⟨p1, p2⟩ := h.permOnly x (List.mem_filter.1 hx).1
        exact ⟨p1, List.mem_append_left _ p2⟩
    · intro x hx
      rcases List.mem_cons.1 hx with rfl | hx
      · exact ⟨e2, e3, Ip4.toNat_lt ip⟩
      · exact h.inNet x (List.mem_filter.1 hx).1

theorem PInv.addAll {b : Boot} {t : Int} (l : List Override) :
    ∀ (P : List (Nat × Duid)) (d d' : IPDB Table), PInv b P d t → AddAll tableStore t l d d' →
      PInv b (P ++ l.filterMap (fun o => o.ip.map fun ip => (ip.toNat, sduid o.mac))) d' t := by
  induction l with
  | nil =>
    intro P d d' h ha
    have : d' = d := ha
    subst this
    simpa using h
  | cons o rest ih =>
    intro P d d' h ha
    rcases ha with ⟨hn, ha⟩ | ⟨ip, d1, v, hip, hadd, ha⟩
    · have := ih P d d' h ha
      rwa [List.filterMap_cons_none (by rw [hn]; rfl)]
    · have h1 := (h.add hadd).1
      have := ih _ d1 d' h1 ha
      rw [List.filterMap_cons_some (b := (ip.toNat, sduid o.mac)) (by rw [hip]; rfl), List.append_cons]
      exact this

/-- The invariant holds when the server has started. -/
theorem init_inv (c : SrvCfg) (b : Boot) (db0 : IPDB Table) (hb : b.base < 4294967296) (hp : b.p ≤ 32)
    (h : serverInit tableStore ([] : Table) c b.base b.p b.dyn b.staticOnly b.t0 = some db0) :
    Inv c b { db := db0 } b.t0 := by
  obtain ⟨db1, db2, v, hr, hall, hself⟩ := serverInit_some _ _ _ _ _ _ _ _ _ h
  -- the database before any binding is installed
  have hN1 : (IPDB.new ([] : Table) b.base b.p).netFrom = (fromTo b.base b.p).1 := rfl
  have hN2 : (IPDB.new ([] : Table) b.base b.p).netTo = (fromTo b.base b.p).2 := rfl
  have hN3 : (IPDB.new ([] : Table) b.base b.p).dynFrom = (fromTo b.base b.p).1 := rfl
  have hN4 : (IPDB.new ([] : Table) b.base b.p).dynTo = (fromTo b.base b.p).2 := rfl
  have hN5 : (IPDB.new ([] : Table) b.base b.p).s = [] := rfl
  generalize IPDB.new ([] : Table) b.base b.p = dbN at hr hN1 hN2 hN3 hN4 hN5
  have h1 : db1.netFrom = (fromTo b.base b.p).1 ∧ db1.netTo = (fromTo b.base b.p).2 ∧ db1.s = [] ∧
      (b.staticOnly = false → db1.dynFrom = b.dynRange.1 ∧ db1.dynTo = b.dynRange.2) ∧
      (b.staticOnly = false → b.dyn ≠ none → b.dynRange.1 ≤ b.dynRange.2) := by
    rcases hr with ⟨hn, rfl⟩ | ⟨x, y, w, hxy, hset⟩
    · refine ⟨hN1, hN2, hN5, ?_, fun _ hh => absurd hn hh⟩
      intro hso
      simp only [Boot.dynRange, hso, hn, Bool.false_eq_true, if_false]
      exact ⟨hN3, hN4⟩
    · obtain ⟨bb, ee, u1, u2, hle, rfl⟩ := setDynamicRange_ok hset
      obtain ⟨rfl, -, -⟩ := toUip_some u1
      obtain ⟨rfl, -, -⟩ := toUip_some u2
      refine ⟨hN1, hN2, hN5, ?_, ?_⟩
      · intro hso
        simp only [Boot.dynRange, hso, hxy, Bool.false_eq_true, if_false]
        exact ⟨trivial, trivial⟩
      · intro hso _
        simp only [Boot.dynRange, hso, hxy, Bool.false_eq_true, if_false]
        exact hle
  obtain ⟨a1, a2, a3, a4, a5⟩ := h1
  have hP0 : PInv b [] (if b.staticOnly = true then db1.disableDynamic else db1) b.t0 := by
    cases hso : b.staticOnly with
    | true =>
      simp only [if_true]
      refine ⟨a1, a2, ?_, ?_, ?_, ?_, ?_, ?_⟩
      · simp [IPDB.disableDynamic, Boot.dynRange, hso]
      · simp [IPDB.disableDynamic, Boot.dynRange, hso]
      · show Table.Exclusive db1.s _
        rw [a3]; intro x hx; cases hx
      · intro q hq; cases hq
      · intro x hx; have : x ∈ db1.s := hx; rw [a3] at this; cases this
      · intro x hx; have : x ∈ db1.s := hx; rw [a3] at this; cases this
    | false =>
      simp only [Bool.false_eq_true, if_false]
      refine ⟨a1, a2, (a4 hso).1, (a4 hso).2, ?_, ?_, ?_, ?_⟩
      · rw [a3]; intro x hx; cases hx
      · intro q hq; cases hq
      · intro x hx; rw [a3] at hx; cases hx
      · intro x hx; rw [a3] at hx; cases hx
  have hP1 := PInv.addAll c.overrides [] _ _ hP0 hall
  obtain ⟨hP2, hs1, hs2⟩ := hP1.add hself
  rw [List.nil_append] at hP2
  have hrng : b.dynRange.1 ≤ b.dynRange.2 ∧ b.dynRange.2 < 4294967296 := by
    have hnet : (fromTo b.base b.p).1 ≤ (fromTo b.base b.p).2 := by
      rw [← hP1.nf, ← hP1.nt]; omega
    have hlt := fromTo_lt b.base b.p hb hp
    cases hso : b.staticOnly with
    | true => simp [Boot.dynRange, hso]
    | false =>
      cases hd : b.dyn with
      | none =>
        simp only [Boot.dynRange, hso, hd, Bool.false_eq_true, if_false]
        exact ⟨hnet, hlt⟩
      | some xy =>
        have := a5 hso (by rw [hd]; simp)
        refine ⟨this, ?_⟩
        obtain ⟨x, y⟩ := xy
        simp only [Boot.dynRange, hso, hd, Bool.false_eq_true, if_false]
        exact Ip4.toNat_lt y
  refine ⟨⟨hP2.nf, hP2.nt, hP2.df, hP2.dt, hrng, hP2.excl, hP2.permIn, fun x hx _ => (hP2.permOnly x hx).2, ?_, hP2.inNet⟩,
    ?_, ?_⟩
  · intro x hx hp
    rw [(hP2.permOnly x hx).1] at hp; cases hp
  · intro p hp; cases hp
  · refine ⟨?_, ?_, ?_, ?_⟩
    · intro s hs; cases hs
    · intro s hs; cases hs
    · intro s hs; cases hs
    · intro _ s hs; cases hs

/-! ## Runs -/

theorem evmono_tail {e : Ev} {rest : List Ev} (hm : EvMonotone (e :: rest)) :
    e.ClockOk ∧ (∀ x ∈ rest.head?, e.tEnd ≤ x.t) ∧ EvMonotone rest := by
  cases rest with
  | nil => exact ⟨hm, by simp, trivial⟩
  | cons y r =>
    simp only [EvMonotone] at hm
    exact ⟨hm.1, by simp [hm.2.1], hm.2.2⟩

/-- The clock after a run that started at `now`. -/
def endClock (now : Int) (evs : List Ev) : Int :=
  match evs.getLast? with
  | some e => e.tEnd
  | none => now

theorem endClock_cons (now : Int) (e : Ev) (rest : List Ev) : endClock now (e :: rest) = endClock e.tEnd rest := by
  cases rest with
  | nil => rfl
  | cons y r =>
    simp only [endClock, List.getLast?_cons_cons]
    cases hl : (y :: r).getLast? with
    | none => simp at hl
    | some z => rfl

theorem run_inv {c : SrvCfg} {b : Boot} (evs : List Ev) :
    ∀ (sys : Sys Table) (now : Int), Inv c b sys now → EvMonotone evs → (∀ e ∈ evs.head?, now ≤ e.t) →
      (∀ e ∈ evs, Ev.PermOk b.dynRange.1 b.dynRange.2 e) → Inv c b (Sys.run tableStore c sys evs) (endClock now evs) := by
  induction evs with
  | nil => intro sys now hi _ _ _; exact hi
  | cons e rest ih =>
    intro sys now hi hm h0 hp
    obtain ⟨hc, hh, hm'⟩ := evmono_tail hm
    have hstep := step_inv hi e (h0 e (by simp)) hc (hp e List.mem_cons_self)
    rw [endClock_cons]
    exact ih _ _ hstep hm' hh (fun x hx => hp x (List.mem_cons_of_mem _ hx))

theorem reach_inv {c : SrvCfg} {b : Boot} {evs : List Ev} {sys : Sys Table} (h : ReachableT c b evs sys) :
    Inv c b sys (lastClock b evs) := by
  obtain ⟨hb, hp, db0, hinit, hm, h0, hperm, rfl⟩ := h
  exact run_inv evs _ _ (init_inv c b db0 hb hp hinit) hm h0 hperm

/-! ## C01 -/

theorem no_double_lease (c : SrvCfg) (b : Boot) (evs : List Ev) (sys : Sys Table) (h : ReachableT c b evs sys)
    (hl : 0 ≤ c.leaseNs) :
    ∀ s₁ ∈ sys.sent, ∀ s₂ ∈ sys.sent, s₁.kind ≠ .nak → s₂.kind ≠ .nak → s₁.addr = s₂.addr → s₁.duid ≠ s₂.duid →
      s₁.t ≤ s₂.t → s₁.t + s₁.ttl c < s₂.t :=
  (reach_inv h).sent.nd hl

theorem grant_is_update (c : SrvCfg) (b : Boot) (evs : List Ev) (sys : Sys Table) (h : ReachableT c b evs sys) :
    ∀ s ∈ sys.sent, s.kind ≠ .nak →
      (s.t, DbOp.updateClient (some (Ip4.ofNat s.addr)) s.duid (s.ttl c)) ∈ sys.calls :=
  (reach_inv h).sent.cl

/-! ## C02, C03 -/

theorem override_mem {c : SrvCfg} {o : Override} {ip : Ip4} (ho : o ∈ c.overrides) (hip : o.ip = some ip) :
    (ip.toNat, sduid o.mac) ∈ permPairs c :=
  List.mem_append_left _ (List.mem_filterMap.2 ⟨o, ho, by rw [hip]; rfl⟩)

theorem self_mem (c : SrvCfg) : (c.selfIp.toNat, sduid c.selfMac) ∈ permPairs c :=
  List.mem_append_right _ (List.mem_singleton.2 rfl)

theorem perm_mem_cases {c : SrvCfg} {q : Nat × Duid} (hq : q ∈ permPairs c) :
    (∃ o ∈ c.overrides, ∃ ip, o.ip = some ip ∧ q = (ip.toNat, sduid o.mac)) ∨ q = (c.selfIp.toNat, sduid c.selfMac) := by
  rcases List.mem_append.1 hq with hq | hq
  · obtain ⟨o, ho, hoq⟩ := List.mem_filterMap.1 hq
    cases hip : o.ip with
    | none => rw [hip] at hoq; cases hoq
    | some ip =>
      rw [hip] at hoq
      have : (ip.toNat, sduid o.mac) = q := by simpa using hoq
      exact Or.inl ⟨o, ho, ip, hip, this.symm⟩
  · exact Or.inr (List.mem_singleton.1 hq)

/-- A permanent identity is a hardware-address identity. -/
theorem perm_duid_shape {c : SrvCfg} {q : Nat × Duid} (hq : q ∈ permPairs c) : ∃ m, q.2 = sduid m := by
  rcases perm_mem_cases hq with ⟨o, -, ip, -, rfl⟩ | rfl
  · exact ⟨o.mac, rfl⟩
  · exact ⟨c.selfMac, rfl⟩

/-- A handler that uses a permanent identity uses the one of its own hardware address. -/
theorem duid_of_perm {c : SrvCfg} {rx : Rx} {d : Duid} (hd : DuidOk c rx d) {a : Nat} (hq : (a, d) ∈ permPairs c) :
    d = sduid rx.msg.chaddr := by
  rcases hd.2 with h | ⟨-, hp, -⟩
  · exact h
  · obtain ⟨m, hm⟩ := perm_duid_shape hq
    simp only at hm
    rw [hm, sduid_prefix] at hp; cases hp

/-- The classification of a grant: a static reservation of the sender, or a dynamic address. -/
theorem grant_class {c : SrvCfg} {b : Boot} {db : IPDB Table} {t : Int} (hdb : DbInv c b db t) {s : Sent}
    (so : SentOk c b s) :
    s.addr ≠ c.selfIp.toNat ∧
    ((∃ o ∈ c.overrides, o.mac = s.rx.msg.chaddr ∧ o.ip = some (Ip4.ofNat s.addr) ∧ (s.addr, s.duid) ∈ permPairs c) ∨
     ((∀ q ∈ permPairs c, q.1 ≠ s.addr ∧ q.2 ≠ s.duid) ∧ DynOk b s.addr)) := by
  rcases so.cls with hq | ⟨hno, hdyn⟩
  · have hd := duid_of_perm so.duid hq
    have hnself : s.addr ≠ c.selfIp.toNat := by
      intro he
      have := hdb.pairs_unique hq (self_mem c) (Or.inl he)
      have h2 : s.duid = sduid c.selfMac := congrArg Prod.snd this
      rw [hd] at h2
      exact so.duid.1 (sduid_injective _ _ h2)
    refine ⟨hnself, Or.inl ?_⟩
    rcases perm_mem_cases hq with ⟨o, ho, ip, hip, he⟩ | he
    · have h1 : s.addr = ip.toNat := congrArg Prod.fst he
      have h2 : s.duid = sduid o.mac := congrArg Prod.snd he
      rw [hd] at h2
      refine ⟨o, ho, (sduid_injective _ _ h2).symm, ?_, hq⟩
      rw [h1, Ip4.ofNat_toNat]; exact hip
    · exact absurd (congrArg Prod.fst he) hnself
  · exact ⟨fun he => (hno _ (self_mem c)).1 he.symm, Or.inr ⟨hno, hdyn⟩⟩

theorem handed_out_allowed (c : SrvCfg) (b : Boot) (evs : List Ev) (sys : Sys Table) (h : ReachableT c b evs sys) :
    ∀ s ∈ sys.sent, s.kind ≠ .nak →
      sys.db.netFrom ≤ s.addr ∧ s.addr ≤ sys.db.netTo ∧ s.addr ≠ c.selfIp.toNat ∧
      ((¬ (sys.db.dynTo = 0 ∧ sys.db.dynFrom = 0) ∧ sys.db.dynFrom ≤ s.addr ∧ s.addr ≤ sys.db.dynTo) ∨
       ∃ o ∈ c.overrides, o.mac = s.rx.msg.chaddr ∧ o.ip = some (Ip4.ofNat s.addr)) := by
  have hi := reach_inv h
  intro s hs hk
  have so := hi.sent.ok s hs hk
  obtain ⟨h1, h2⟩ := grant_class hi.db so
  rw [hi.db.nf, hi.db.nt, hi.db.df, hi.db.dt]
  refine ⟨so.net.1, so.net.2.1, h1, ?_⟩
  rcases h2 with ⟨o, ho, hm, hip, -⟩ | ⟨-, hdyn⟩
  · exact Or.inr ⟨o, ho, hm, hip⟩
  · exact Or.inl hdyn

theorem static_only_blocks_dynamic (c : SrvCfg) (b : Boot) (evs : List Ev) (sys : Sys Table) (h : ReachableT c b evs sys)
    (hso : b.staticOnly = true) :
    ∀ s ∈ sys.sent, s.kind ≠ .nak → ∃ o ∈ c.overrides, o.mac = s.rx.msg.chaddr ∧ o.ip = some (Ip4.ofNat s.addr) := by
  have hi := reach_inv h
  intro s hs hk
  obtain ⟨-, h2⟩ := grant_class hi.db (hi.sent.ok s hs hk)
  rcases h2 with ⟨o, ho, hm, hip, -⟩ | ⟨-, hdyn⟩
  · exact ⟨o, ho, hm, hip⟩
  · exfalso
    apply hdyn.1
    simp [Boot.dynRange, hso]

theorem ranges_fixed (c : SrvCfg) (b : Boot) (evs : List Ev) (sys : Sys Table) (h : ReachableT c b evs sys) :
    (sys.db.netFrom, sys.db.netTo) = fromTo b.base b.p ∧
    (sys.db.dynFrom, sys.db.dynTo) = b.dynRange := by
  have hi := reach_inv h
  exact ⟨Prod.ext hi.db.nf hi.db.nt, Prod.ext hi.db.df hi.db.dt⟩

theorem static_exclusive (c : SrvCfg) (b : Boot) (evs : List Ev) (sys : Sys Table) (h : ReachableT c b evs sys) :
    ∀ s ∈ sys.sent, s.kind ≠ .nak → ∀ o ∈ c.overrides, ∀ ip, o.ip = some ip → s.addr = ip.toNat →
      s.rx.msg.chaddr = o.mac := by
  have hi := reach_inv h
  intro s hs hk o ho ip hip ha
  have so := hi.sent.ok s hs hk
  have hq := override_mem ho hip
  rcases so.cls with hs' | ⟨hno, -⟩
  · have := hi.db.pairs_unique hs' hq (Or.inl ha)
    have h2 : s.duid = sduid o.mac := congrArg Prod.snd this
    rw [duid_of_perm so.duid hs'] at h2
    exact sduid_injective _ _ h2
  · exact absurd ha.symm (hno _ hq).1

theorem static_only_address (c : SrvCfg) (b : Boot) (evs : List Ev) (sys : Sys Table) (h : ReachableT c b evs sys) :
    ∀ s ∈ sys.sent, s.kind ≠ .nak → ∀ o ∈ c.overrides, ∀ ip, o.ip = some ip → s.rx.msg.chaddr = o.mac →
      s.addr = ip.toNat := by
  have hi := reach_inv h
  intro s hs hk o ho ip hip hm
  have so := hi.sent.ok s hs hk
  have hq := override_mem ho hip
  have hd : s.duid = sduid o.mac := by
    rcases so.duid.2 with hd | ⟨-, -, hno⟩
    · rw [hd, hm]
    · exact absurd (by rw [hm]) (hno _ hq)
  rcases so.cls with hs' | ⟨hno, -⟩
  · have := hi.db.pairs_unique hs' hq (Or.inr hd)
    exact congrArg Prod.fst this
  · exact absurd hd.symm (hno _ hq).2

/-! ## C03: a static reservation is always offered

`handle` is opened with `delta`; its matchers are eliminated by the equations below (abstract alternatives), so that
the kernel never evaluates a database call on a symbolic address. -/

theorem todo_match_discover {α : Type} {x : Todo} (hx : x = .discover) (A : Unit → α) (B : Unit → α) (C : Ip4 → α) :
    instReprTodo.repr.match_1 (fun _ => α) x A B C = B () := by
  subst hx; rfl

theorem nat_match_ok {α : Type} {x : Except DbErr Nat} {a : Nat} (hx : x = .ok a) (E : DbErr → α) (K : Nat → α) :
    handle.match_3 (fun _ => α) x E K = K a := by
  subst hx; rfl

theorem unit_match_ok {α : Type} {x : Except DbErr Unit} {v : Unit} (hx : x = .ok v) (E : DbErr → α) (K : Unit → α) :
    handle.match_1 (fun _ => α) x E K = K v := by
  subst hx; rfl

/-- The DISCOVER path of the sequential handler when every step succeeds. -/
theorem handle_discover {σ : Type} (S : Store σ) (c : SrvCfg) (db : IPDB σ) (rx : Rx) (o : HOracle)
    {db1 db2 db3 : IPDB σ} {duid : Duid} {a : Nat} {v : Unit}
    (hg : getDuid S db o.t0 rx.msg.chaddr (decodeOptions rx.msg.options).clientIdentifier = (db1, duid))
    (htodo : todo c db1 rx = .discover)
    (hf : db1.findIP S o.t1 (decodeOptions rx.msg.options).requestedIP duid o.perm o.iters = (db2, .ok a))
    (hu : db2.updateClient S o.t2 (some (Ip4.ofNat a)) duid offerHoldNs = (db3, .ok v)) :
    handle S c db rx o = (db3, some (leaseFrame c .offer rx.msg (Ip4.ofNat a))) := by
  delta handle
  refine Eq.trans (todo_match_discover ?h1 _ _ _) ?_
  case h1 => rw [hg]; exact htodo
  refine Eq.trans (nat_match_ok (a := a) ?h2 _ _) ?_
  case h2 => rw [hg, hf]
  refine Eq.trans (unit_match_ok (v := v) ?h3 _ _) ?_
  case h3 => rw [hg, hf, hu]
  rw [hg, hf, hu]

theorem pair_of_snd {α β : Type} (x : α × β) (b : β) (h : x.2 = b) : x = (x.1, b) := by
  cases x; cases h; rfl

theorem toUip_ok {σ : Type} {db : IPDB σ} {i : Ip4} (h1 : db.netFrom ≤ i.toNat) (h2 : i.toNat ≤ db.netTo) :
    db.toUip (some i) = .ok i.toNat := by
  unfold IPDB.toUip
  simp only
  rw [if_neg (by omega)]

theorem todo_discover {σ : Type} {c : SrvCfg} {rx : Rx} (hwf : WellFormedDiscover c rx) (db : IPDB σ) :
    todo c db rx = .discover := by
  obtain ⟨h1, h2, h3, h4, h5⟩ := hwf
  unfold todo
  simp only
  rw [if_neg (Ne.symm h4), if_neg h5, if_pos h1, if_neg (fun hne => hne h2), if_neg (fun hne => hne h3)]

theorem static_always_offered (c : SrvCfg) (b : Boot) (evs : List Ev) (sys : Sys Table) (h : ReachableT c b evs sys)
    (rx : Rx) (orc : HOracle) (o : Override) (ip : Ip4) (ho : o ∈ c.overrides) (hip : o.ip = some ip)
    (hmac : rx.msg.chaddr = o.mac) (hwf : WellFormedDiscover c rx) (hck : HOracle.ClockOk orc (lastClock b evs)) :
    (handle tableStore c sys.db rx orc).2 = some (leaseFrame c .offer rx.msg ip) := by
  have hi := reach_inv h
  obtain ⟨k0, k1, -, -, -, k2⟩ := hck
  have hq := override_mem ho hip
  have hd0 := hi.db.mono k0
  have hd1 := hd0.mono k1
  have hd2 := hd1.mono k2
  obtain ⟨x0, l0, -, -, -, -⟩ := hd0.perm_liveDuid hq
  obtain ⟨x1, l1, m1, i1, -, -⟩ := hd1.perm_liveDuid hq
  obtain ⟨x2, l2, m2, i2, d2, p2⟩ := hd2.perm_liveDuid hq
  simp only at l0 l1 l2 i1 i2 d2
  have hg : getDuid tableStore sys.db orc.t0 rx.msg.chaddr (decodeOptions rx.msg.options).clientIdentifier =
      (sys.db, sduid o.mac) := by
    refine Prod.ext (getDuid_table_fst _ _ _ _) ?_
    rw [hmac]
    exact getDuid_table_found _ _ _ _ x0 l0
  have hf : sys.db.findIP tableStore orc.t1 (decodeOptions rx.msg.options).requestedIP (sduid o.mac) orc.perm orc.iters =
      (sys.db, .ok ip.toNat) := by
    refine Prod.ext (findIP_table_fst _ _ _ _ _ _) ?_
    rw [find_existing _ _ _ _ _ _ x1 l1, i1]
  have hok : (sys.db.updateClient tableStore orc.t2 (some (Ip4.ofNat ip.toNat)) (sduid o.mac) offerHoldNs).2 = .ok () := by
    rw [update_ok_iff _ _ _ _ _ hd2.excl, Ip4.ofNat_toNat]
    have hn := hd2.inNet x2 m2
    rw [i2] at hn
    exact ⟨ip.toNat, toUip_ok hn.1 hn.2.1, Or.inl ⟨x2, m2, perm_live p2 _, i2, d2⟩⟩
  have hu : sys.db.updateClient tableStore orc.t2 (some (Ip4.ofNat ip.toNat)) (sduid o.mac) offerHoldNs =
      ((sys.db.updateClient tableStore orc.t2 (some (Ip4.ofNat ip.toNat)) (sduid o.mac) offerHoldNs).1, .ok ()) :=
    pair_of_snd _ _ hok
  rw [handle_discover tableStore c sys.db rx orc hg (todo_discover hwf _) hf hu, Ip4.ofNat_toNat]

/-! ## C01: the concrete server refines the server over the reference table -/

section Refine
variable {σ₁ σ₂ : Type} {S₁ : Store σ₁} {S₂ : Store σ₂} {Rel : σ₁ → σ₂ → Int → Prop}

theorem dbRel_mono (sim : StoreSim S₁ S₂ Rel) {db1 : IPDB σ₁} {db2 : IPDB σ₂} {t t' : Int} (h : DbRel Rel db1 db2 t)
    (htt : t ≤ t') : DbRel Rel db1 db2 t' :=
  ⟨h.1, h.2.1, h.2.2.1, h.2.2.2.1, sim.mono _ _ _ _ h.2.2.2.2 htt⟩

theorem lookupByDuid_sim (sim : StoreSim S₁ S₂ Rel) {db1 : IPDB σ₁} {db2 : IPDB σ₂} {t : Int} (h : DbRel Rel db1 db2 t)
    (d : Duid) :
    (db1.lookupByDuid S₁ t d).2 = (db2.lookupByDuid S₂ t d).2 ∧
      DbRel Rel (db1.lookupByDuid S₁ t d).1 (db2.lookupByDuid S₂ t d).1 t := by
  have := step_sim sim h (.lookupByDuid d) trivial
  exact ⟨DbRes.addr.inj this.1, this.2⟩

theorem addPermanent_sim (sim : StoreSim S₁ S₂ Rel) {db1 : IPDB σ₁} {db2 : IPDB σ₂} {t : Int} (h : DbRel Rel db1 db2 t)
    (ip : Option Ip4) (d : Duid) :
    (db1.addPermanent S₁ t ip d).2 = (db2.addPermanent S₂ t ip d).2 ∧
      DbRel Rel (db1.addPermanent S₁ t ip d).1 (db2.addPermanent S₂ t ip d).1 t := by
  have := step_sim sim h (.addPermanent ip d) trivial
  exact ⟨DbRes.unit.inj this.1, this.2⟩

theorem updateClient_sim (sim : StoreSim S₁ S₂ Rel) {db1 : IPDB σ₁} {db2 : IPDB σ₂} {t : Int} (h : DbRel Rel db1 db2 t)
    (ip : Option Ip4) (d : Duid) (ttl : Int) :
    (db1.updateClient S₁ t ip d ttl).2 = (db2.updateClient S₂ t ip d ttl).2 ∧
      DbRel Rel (db1.updateClient S₁ t ip d ttl).1 (db2.updateClient S₂ t ip d ttl).1 t := by
  have := step_sim sim h (.updateClient ip d ttl) trivial
  exact ⟨DbRes.unit.inj this.1, this.2⟩

theorem setDynamicRange_sim (sim : StoreSim S₁ S₂ Rel) {db1 : IPDB σ₁} {db2 : IPDB σ₂} {t : Int} (h : DbRel Rel db1 db2 t)
    (x y : Option Ip4) :
    (db1.setDynamicRange x y).2 = (db2.setDynamicRange x y).2 ∧
      DbRel Rel (db1.setDynamicRange x y).1 (db2.setDynamicRange x y).1 t := by
  have := step_sim sim h (.setDynamicRange x y) trivial
  exact ⟨DbRes.unit.inj this.1, this.2⟩

/-- Both absent, or both present and related. -/
def OptRel {α β : Type} (P : α → β → Prop) : Option α → Option β → Prop
  | none, none => True
  | some a, some b => P a b
  | _, _ => False

theorem OptRel.isSome_eq {α β : Type} {P : α → β → Prop} {a : Option α} {b : Option β} (h : OptRel P a b) :
    a.isSome = b.isSome := by
  cases a <;> cases b <;> first | rfl | exact absurd h id

theorem m1_rel {P : IPDB σ₁ → IPDB σ₂ → Prop} {r1 : IPDB σ₁ × Except DbErr Unit} {r2 : IPDB σ₂ × Except DbErr Unit}
    (h : r1.2 = r2.2 ∧ P r1.1 r2.1) :
    OptRel P (serverInit.match_1 (fun _ => Option (IPDB σ₁)) r1 (fun db' _ => some db') (fun _ _ => none))
      (serverInit.match_1 (fun _ => Option (IPDB σ₂)) r2 (fun db' _ => some db') (fun _ _ => none)) := by
  obtain ⟨d1, x1⟩ := r1
  obtain ⟨d2, x2⟩ := r2
  obtain ⟨hx, hp⟩ := h
  simp only at hx hp
  subst hx
  cases x1 with
  | error e => trivial
  | ok v => exact hp

theorem m7_rel {P Q : IPDB σ₁ → IPDB σ₂ → Prop} {o1 : Option (IPDB σ₁)} {o2 : Option (IPDB σ₂)}
    {F1 : IPDB σ₁ → Option (IPDB σ₁)} {F2 : IPDB σ₂ → Option (IPDB σ₂)} (ho : OptRel P o1 o2)
    (hF : ∀ d1 d2, P d1 d2 → OptRel Q (F1 d1) (F2 d2)) :
    OptRel Q (serverInit.match_7 (fun _ => Option (IPDB σ₁)) o1 (fun _ => none) F1)
      (serverInit.match_7 (fun _ => Option (IPDB σ₂)) o2 (fun _ => none) F2) := by
  cases o1 <;> cases o2
  · trivial
  · exact absurd ho id
  · exact absurd ho id
  · exact hF _ _ ho

theorem m3_rel {Q : IPDB σ₁ → IPDB σ₂ → Prop} (dyn : Option (Ip4 × Ip4)) {A1 : Option (IPDB σ₁)} {A2 : Option (IPDB σ₂)}
    {B1 : Ip4 → Ip4 → Option (IPDB σ₁)} {B2 : Ip4 → Ip4 → Option (IPDB σ₂)} (hA : OptRel Q A1 A2)
    (hB : ∀ a b, OptRel Q (B1 a b) (B2 a b)) :
    OptRel Q (serverInit.match_3 (fun _ => Option (IPDB σ₁)) dyn (fun _ => A1) B1)
      (serverInit.match_3 (fun _ => Option (IPDB σ₂)) dyn (fun _ => A2) B2) := by
  cases dyn with
  | none => exact hA
  | some ab => obtain ⟨a, b⟩ := ab; exact hB a b

theorem m5_rel {P : IPDB σ₁ → IPDB σ₂ → Prop} {acc1 : Option (IPDB σ₁)} {acc2 : Option (IPDB σ₂)} (oip : Option Ip4)
    {F1 : IPDB σ₁ → Ip4 → Option (IPDB σ₁)} {F2 : IPDB σ₂ → Ip4 → Option (IPDB σ₂)} (ho : OptRel P acc1 acc2)
    (hF : ∀ d1 d2 ip, P d1 d2 → OptRel P (F1 d1 ip) (F2 d2 ip)) :
    OptRel P (serverInit.match_5 (fun _ _ => Option (IPDB σ₁)) acc1 oip (fun _ => none) (fun d => some d) F1)
      (serverInit.match_5 (fun _ _ => Option (IPDB σ₂)) acc2 oip (fun _ => none) (fun d => some d) F2) := by
  cases acc1 <;> cases acc2
  · trivial
  · exact absurd ho id
  · exact absurd ho id
  · cases oip with
    | none => exact ho
    | some ip => exact hF _ _ ip ho

theorem fold_rel {α β γ : Type} {P : α → β → Prop} (f1 : Option α → γ → Option α) (f2 : Option β → γ → Option β)
    (hf : ∀ a1 a2 o, OptRel P a1 a2 → OptRel P (f1 a1 o) (f2 a2 o)) (l : List γ) :
    ∀ a1 a2, OptRel P a1 a2 → OptRel P (List.foldl f1 a1 l) (List.foldl f2 a2 l) := by
  induction l with
  | nil => intro a1 a2 h; exact h
  | cons o rest ih => intro a1 a2 h; exact ih _ _ (hf _ _ o h)

/-- Start-up succeeds on both stores or on neither, and yields related databases. -/
theorem serverInit_sim (sim : StoreSim S₁ S₂ Rel) {e1 : σ₁} {e2 : σ₂} {t : Int} (he : Rel e1 e2 t) (c : SrvCfg)
    (base p : Nat) (dyn : Option (Ip4 × Ip4)) (staticOnly : Bool) :
    OptRel (fun d1 d2 => DbRel Rel d1 d2 t) (serverInit S₁ e1 c base p dyn staticOnly t)
      (serverInit S₂ e2 c base p dyn staticOnly t) := by
  have hnew : DbRel Rel (IPDB.new e1 base p) (IPDB.new e2 base p) t := ⟨rfl, rfl, rfl, rfl, he⟩
  delta serverInit
  refine m7_rel (P := fun d1 d2 => DbRel Rel d1 d2 t) ?_ ?_
  · refine m3_rel dyn hnew ?_
    intro a b
    exact m1_rel (setDynamicRange_sim sim hnew (some a) (some b))
  · intro d1 d2 hd
    have hd' : DbRel Rel (if staticOnly = true then d1.disableDynamic else d1)
        (if staticOnly = true then d2.disableDynamic else d2) t := by
      cases staticOnly with
      | false => exact hd
      | true => exact ⟨hd.1, hd.2.1, rfl, rfl, hd.2.2.2.2⟩
    generalize (if staticOnly = true then d1.disableDynamic else d1) = d1' at hd' ⊢
    generalize (if staticOnly = true then d2.disableDynamic else d2) = d2' at hd' ⊢
    refine m7_rel (P := fun d1 d2 => DbRel Rel d1 d2 t) ?_ ?_
    · refine fold_rel _ _ ?_ c.overrides _ _ hd'
      intro a1 a2 o ha
      refine m5_rel o.ip ha ?_
      intro x1 x2 ip hx
      exact m1_rel (addPermanent_sim sim hx (some ip) (sduid o.mac))
    · intro x1 x2 hx
      exact m1_rel (addPermanent_sim sim hx (some c.selfIp) (sduid c.selfMac))

end Refine

section RefineSys
variable {σ₁ σ₂ : Type} {S₁ : Store σ₁} {S₂ : Store σ₂} {Rel : σ₁ → σ₂ → Int → Prop}

/-- Two systems over related stores: same handlers in flight, same replies, same call log. -/
structure SysRel (Rel : σ₁ → σ₂ → Int → Prop) (s1 : Sys σ₁) (s2 : Sys σ₂) (t : Int) : Prop where
  db : DbRel Rel s1.db s2.db t
  pend : s1.pend = s2.pend
  sent : s1.sent = s2.sent
  calls : s1.calls = s2.calls

theorem SysRel.mono (sim : StoreSim S₁ S₂ Rel) {s1 : Sys σ₁} {s2 : Sys σ₂} {t t' : Int} (h : SysRel Rel s1 s2 t)
    (htt : t ≤ t') : SysRel Rel s1 s2 t' :=
  ⟨dbRel_mono sim h.db htt, h.pend, h.sent, h.calls⟩

/-! Equations for the remaining matchers of `Sys.step` (abstract alternatives, variable discriminant). -/

theorem recv_match {σ : Type} {x : R (Option Rx)} {rx : Rx} (hx : x = .ok (some rx)) (F : Rx → Sys σ)
    (g : R (Option Rx) → Sys σ) : Sys.step.match_3 (fun _ => Sys σ) x F g = F rx := by
  subst hx; rfl

theorem recv_match_other {σ : Type} {x : R (Option Rx)} (hx : ∀ rx, x ≠ .ok (some rx)) (F : Rx → Sys σ)
    (g : R (Option Rx) → Sys σ) : Sys.step.match_3 (fun _ => Sys σ) x F g = g x := by
  cases x with
  | error e => rfl
  | ok o =>
    cases o with
    | none => rfl
    | some rx => exact absurd rfl (hx rx)

theorem find_match {σ : Type} {o : Option Pending} {rx : Rx} {duid : Duid} (ho : o = some (.a1 rx duid))
    (F : Rx → Duid → Sys σ) (g : Option Pending → Sys σ) : Sys.step.match_9 (fun _ => Sys σ) o F g = F rx duid := by
  subst ho; rfl

theorem find_match_other {σ : Type} {o : Option Pending} (ho : ∀ rx duid, o ≠ some (.a1 rx duid))
    (F : Rx → Duid → Sys σ) (g : Option Pending → Sys σ) : Sys.step.match_9 (fun _ => Sys σ) o F g = g o := by
  cases o with
  | none => rfl
  | some p =>
    cases p with
    | a1 rx duid => exact absurd rfl (ho rx duid)
    | _ => rfl

theorem look_match {σ : Type} {o : Option Pending} {rx : Rx} {duid : Duid} {want : Ip4} (ho : o = some (.b1 rx duid want))
    (F : Rx → Duid → Ip4 → Sys σ) (g : Option Pending → Sys σ) :
    Sys.step.match_17 (fun _ => Sys σ) o F g = F rx duid want := by
  subst ho; rfl

theorem look_match_other {σ : Type} {o : Option Pending} (ho : ∀ rx duid want, o ≠ some (.b1 rx duid want))
    (F : Rx → Duid → Ip4 → Sys σ) (g : Option Pending → Sys σ) : Sys.step.match_17 (fun _ => Sys σ) o F g = g o := by
  cases o with
  | none => rfl
  | some p =>
    cases p with
    | b1 rx duid want => exact absurd rfl (ho rx duid want)
    | _ => rfl

theorem todo_congr {c : SrvCfg} {db1 : IPDB σ₁} {db2 : IPDB σ₂} (h1 : db1.netFrom = db2.netFrom)
    (h2 : db1.netTo = db2.netTo) (rx : Rx) : todo c db1 rx = todo c db2 rx := by
  have hm : ∀ x, db1.inManagedRange x = db2.inManagedRange x := by
    intro x
    unfold IPDB.inManagedRange IPDB.toUip
    rw [h1, h2]
  unfold todo
  simp only [hm]

theorem getDuid_sim (sim : StoreSim S₁ S₂ Rel) {db1 : IPDB σ₁} {db2 : IPDB σ₂} {t : Int} (h : DbRel Rel db1 db2 t)
    (hw cid : Bytes) :
    (getDuid S₁ db1 t hw cid).2 = (getDuid S₂ db2 t hw cid).2 ∧
      DbRel Rel (getDuid S₁ db1 t hw cid).1 (getDuid S₂ db2 t hw cid).1 t := by
  have hl := lookupByDuid_sim sim h (sduid hw)
  unfold getDuid
  generalize db1.lookupByDuid S₁ t (sduid hw) = l1 at hl ⊢
  generalize db2.lookupByDuid S₂ t (sduid hw) = l2 at hl ⊢
  obtain ⟨d1, r1⟩ := l1
  obtain ⟨d2, r2⟩ := l2
  obtain ⟨hr, hd⟩ := hl
  simp only at hr hd
  subst hr
  cases r1 with
  | ok a => exact ⟨rfl, hd⟩
  | error e =>
    simp only
    split
    · exact ⟨rfl, hd⟩
    · exact ⟨rfl, hd⟩

theorem sim_recv (sim : StoreSim S₁ S₂ Rel) (c : SrvCfg) {s1 : Sys σ₁} {s2 : Sys σ₂} {now : Int}
    (h : SysRel Rel s1 s2 now) (t : Int) (bytes : Bytes) (ht : now ≤ t) :
    SysRel Rel (Sys.step S₁ c s1 (.recv t bytes)) (Sys.step S₂ c s2 (.recv t bytes)) t := by
  have h := h.mono sim ht
  rw [Sys.step, Sys.step]
  by_cases hex : ∃ rx, rxChain bytes = .ok (some rx)
  · obtain ⟨rx, hrx⟩ := hex
    rw [recv_match hrx, recv_match hrx]
    dsimp only
    have hg := getDuid_sim sim h.db rx.msg.chaddr (decodeOptions rx.msg.options).clientIdentifier
    generalize getDuid S₁ s1.db t rx.msg.chaddr (decodeOptions rx.msg.options).clientIdentifier = g1 at hg ⊢
    generalize getDuid S₂ s2.db t rx.msg.chaddr (decodeOptions rx.msg.options).clientIdentifier = g2 at hg ⊢
    obtain ⟨d1, u1⟩ := g1
    obtain ⟨d2, u2⟩ := g2
    obtain ⟨hu, hd⟩ := hg
    simp only at hu hd
    subst hu
    have htd : todo c d1 rx = todo c d2 rx := todo_congr hd.1 hd.2.1 rx
    simp only [htd]
    generalize todo c d2 rx = td
    cases td with
    | drop => exact ⟨hd, h.pend, h.sent, by show _ :: s1.calls = _ :: s2.calls; rw [h.calls]⟩
    | discover =>
      exact ⟨hd, by show s1.pend ++ _ = s2.pend ++ _; rw [h.pend], h.sent,
        by show _ :: s1.calls = _ :: s2.calls; rw [h.calls]⟩
    | request want =>
      exact ⟨hd, by show s1.pend ++ _ = s2.pend ++ _; rw [h.pend], h.sent,
        by show _ :: s1.calls = _ :: s2.calls; rw [h.calls]⟩
  · rw [recv_match_other (fun rx hh => hex ⟨rx, hh⟩), recv_match_other (fun rx hh => hex ⟨rx, hh⟩)]
    exact h

theorem sim_find (sim : StoreSim S₁ S₂ Rel) (c : SrvCfg) {s1 : Sys σ₁} {s2 : Sys σ₂} {now : Int}
    (h : SysRel Rel s1 s2 now) (i : Nat) (t : Int) (perm : List Nat) (orc : Nat → IPDB.Iter) (tEnd : Int) (ht : now ≤ t)
    (hc : Ev.ClockOk (.find i t perm orc tEnd)) :
    SysRel Rel (Sys.step S₁ c s1 (.find i t perm orc tEnd)) (Sys.step S₂ c s2 (.find i t perm orc tEnd)) tEnd := by
  have h := h.mono sim ht
  have hte : t ≤ tEnd := Int.le_trans hc.1 (hc.2.2 0)
  rw [Sys.step, Sys.step]
  by_cases hex : ∃ rx duid, s1.pend[i]? = some (.a1 rx duid)
  · obtain ⟨rx, duid, hp1⟩ := hex
    have hp2 : s2.pend[i]? = some (.a1 rx duid) := by rw [← h.pend]; exact hp1
    rw [find_match hp1, find_match hp2]
    dsimp only
    have hf := findIP_sim sim h.db (decodeOptions rx.msg.options).requestedIP duid perm orc tEnd hc.1 hc.2.1 hc.2.2
    generalize s1.db.findIP S₁ t (decodeOptions rx.msg.options).requestedIP duid perm orc = f1 at hf ⊢
    generalize s2.db.findIP S₂ t (decodeOptions rx.msg.options).requestedIP duid perm orc = f2 at hf ⊢
    obtain ⟨d1, r1⟩ := f1
    obtain ⟨d2, r2⟩ := f2
    obtain ⟨hr, hd⟩ := hf
    simp only at hr hd
    subst hr
    cases r1 with
    | error e =>
      exact ⟨hd, by show s1.pend.set i _ = s2.pend.set i _; rw [h.pend], h.sent,
        by show _ :: s1.calls = _ :: s2.calls; rw [h.calls]⟩
    | ok a =>
      exact ⟨hd, by show s1.pend.set i _ = s2.pend.set i _; rw [h.pend], h.sent,
        by show _ :: s1.calls = _ :: s2.calls; rw [h.calls]⟩
  · have hex2 : ∀ rx duid, s2.pend[i]? ≠ some (.a1 rx duid) := by
      intro rx duid hh; rw [← h.pend] at hh; exact hex ⟨rx, duid, hh⟩
    rw [find_match_other (fun rx duid hh => hex ⟨rx, duid, hh⟩), find_match_other hex2]
    exact h.mono sim hte

theorem sim_hold (sim : StoreSim S₁ S₂ Rel) (c : SrvCfg) {s1 : Sys σ₁} {s2 : Sys σ₂} {now : Int}
    (h : SysRel Rel s1 s2 now) (i : Nat) (t : Int) (ht : now ≤ t) :
    SysRel Rel (Sys.step S₁ c s1 (.hold i t)) (Sys.step S₂ c s2 (.hold i t)) t := by
  have h := h.mono sim ht
  rw [Sys.step, Sys.step]
  by_cases hex : ∃ rx duid a, s1.pend[i]? = some (.a2 rx duid a)
  · obtain ⟨rx, duid, a, hp1⟩ := hex
    have hp2 : s2.pend[i]? = some (.a2 rx duid a) := by rw [← h.pend]; exact hp1
    rw [hold_match hp1, hold_match hp2]
    have hu := updateClient_sim sim h.db (some (Ip4.ofNat a)) duid offerHoldNs
    generalize s1.db.updateClient S₁ t (some (Ip4.ofNat a)) duid offerHoldNs = u1 at hu ⊢
    generalize s2.db.updateClient S₂ t (some (Ip4.ofNat a)) duid offerHoldNs = u2 at hu ⊢
    obtain ⟨d1, r1⟩ := u1
    obtain ⟨d2, r2⟩ := u2
    obtain ⟨hr, hd⟩ := hu
    simp only at hr hd
    subst hr
    cases r1 with
    | error e =>
      exact ⟨hd, by show s1.pend.set i _ = s2.pend.set i _; rw [h.pend], h.sent,
        by show _ :: s1.calls = _ :: s2.calls; rw [h.calls]⟩
    | ok v =>
      exact ⟨hd, by show s1.pend.set i _ = s2.pend.set i _; rw [h.pend],
        by show _ :: s1.sent = _ :: s2.sent; rw [h.sent],
        by show _ :: s1.calls = _ :: s2.calls; rw [h.calls]⟩
  · have hex2 : ∀ rx duid a, s2.pend[i]? ≠ some (.a2 rx duid a) := by
      intro rx duid a hh; rw [← h.pend] at hh; exact hex ⟨rx, duid, a, hh⟩
    rw [hold_match_other (fun rx duid a hh => hex ⟨rx, duid, a, hh⟩), hold_match_other hex2]
    exact h

theorem sim_lease (sim : StoreSim S₁ S₂ Rel) (c : SrvCfg) {s1 : Sys σ₁} {s2 : Sys σ₂} {now : Int}
    (h : SysRel Rel s1 s2 now) (i : Nat) (t : Int) (ht : now ≤ t) :
    SysRel Rel (Sys.step S₁ c s1 (.lease i t)) (Sys.step S₂ c s2 (.lease i t)) t := by
  have h := h.mono sim ht
  rw [Sys.step, Sys.step]
  by_cases hex : ∃ rx duid a, s1.pend[i]? = some (.b2 rx duid a)
  · obtain ⟨rx, duid, a, hp1⟩ := hex
    have hp2 : s2.pend[i]? = some (.b2 rx duid a) := by rw [← h.pend]; exact hp1
    rw [lease_match hp1, lease_match hp2]
    have hu := updateClient_sim sim h.db (some (Ip4.ofNat a)) duid c.leaseNs
    generalize s1.db.updateClient S₁ t (some (Ip4.ofNat a)) duid c.leaseNs = u1 at hu ⊢
    generalize s2.db.updateClient S₂ t (some (Ip4.ofNat a)) duid c.leaseNs = u2 at hu ⊢
    obtain ⟨d1, r1⟩ := u1
    obtain ⟨d2, r2⟩ := u2
    obtain ⟨hr, hd⟩ := hu
    simp only at hr hd
    subst hr
    cases r1 with
    | error e =>
      exact ⟨hd, by show s1.pend.set i _ = s2.pend.set i _; rw [h.pend], h.sent,
        by show _ :: s1.calls = _ :: s2.calls; rw [h.calls]⟩
    | ok v =>
      exact ⟨hd, by show s1.pend.set i _ = s2.pend.set i _; rw [h.pend],
        by show _ :: s1.sent = _ :: s2.sent; rw [h.sent],
        by show _ :: s1.calls = _ :: s2.calls; rw [h.calls]⟩
  · have hex2 : ∀ rx duid a, s2.pend[i]? ≠ some (.b2 rx duid a) := by
      intro rx duid a hh; rw [← h.pend] at hh; exact hex ⟨rx, duid, a, hh⟩
    rw [lease_match_other (fun rx duid a hh => hex ⟨rx, duid, a, hh⟩), lease_match_other hex2]
    exact h

theorem sim_look (sim : StoreSim S₁ S₂ Rel) (c : SrvCfg) {s1 : Sys σ₁} {s2 : Sys σ₂} {now : Int}
    (h : SysRel Rel s1 s2 now) (i : Nat) (t : Int) (probeFree : Bool) (ht : now ≤ t) :
    SysRel Rel (Sys.step S₁ c s1 (.look i t probeFree)) (Sys.step S₂ c s2 (.look i t probeFree)) t := by
  have h := h.mono sim ht
  rw [Sys.step, Sys.step]
  by_cases hex : ∃ rx duid want, s1.pend[i]? = some (.b1 rx duid want)
  · obtain ⟨rx, duid, want, hp1⟩ := hex
    have hp2 : s2.pend[i]? = some (.b1 rx duid want) := by rw [← h.pend]; exact hp1
    rw [look_match hp1, look_match hp2]
    have hl := lookupByDuid_sim sim h.db duid
    generalize s1.db.lookupByDuid S₁ t duid = l1 at hl ⊢
    generalize s2.db.lookupByDuid S₂ t duid = l2 at hl ⊢
    obtain ⟨d1, r1⟩ := l1
    obtain ⟨d2, r2⟩ := l2
    obtain ⟨hr, hd⟩ := hl
    simp only at hr hd
    subst hr
    have hnak : SysRel Rel
        { db := d1, pend := s1.pend.set i .done, sent := ⟨t, .nak, 0, duid, rx, nakFrame c rx.msg⟩ :: s1.sent,
          calls := (t, DbOp.lookupByDuid duid) :: s1.calls }
        { db := d2, pend := s2.pend.set i .done, sent := ⟨t, .nak, 0, duid, rx, nakFrame c rx.msg⟩ :: s2.sent,
          calls := (t, DbOp.lookupByDuid duid) :: s2.calls } t :=
      ⟨hd, by show s1.pend.set i _ = s2.pend.set i _; rw [h.pend],
        by show _ :: s1.sent = _ :: s2.sent; rw [h.sent],
        by show _ :: s1.calls = _ :: s2.calls; rw [h.calls]⟩
    cases r1 with
    | error e => exact hnak
    | ok lease =>
      simp only
      by_cases hw : want.toNat ≠ lease
      · rw [if_pos hw, if_pos hw]; exact hnak
      · rw [if_neg hw, if_neg hw]
        by_cases hpf : ¬ probeFree = true
        · rw [if_pos hpf, if_pos hpf]; exact hnak
        · rw [if_neg hpf, if_neg hpf]
          exact ⟨hd, by show s1.pend.set i _ = s2.pend.set i _; rw [h.pend], h.sent,
            by show _ :: s1.calls = _ :: s2.calls; rw [h.calls]⟩
  · have hex2 : ∀ rx duid want, s2.pend[i]? ≠ some (.b1 rx duid want) := by
      intro rx duid want hh; rw [← h.pend] at hh; exact hex ⟨rx, duid, want, hh⟩
    rw [look_match_other (fun rx duid want hh => hex ⟨rx, duid, want, hh⟩), look_match_other hex2]
    exact h

theorem sim_step (sim : StoreSim S₁ S₂ Rel) (c : SrvCfg) {s1 : Sys σ₁} {s2 : Sys σ₂} {now : Int}
    (h : SysRel Rel s1 s2 now) (e : Ev) (ht : now ≤ e.t) (hc : e.ClockOk) :
    SysRel Rel (Sys.step S₁ c s1 e) (Sys.step S₂ c s2 e) e.tEnd := by
  cases e with
  | recv t bytes => exact sim_recv sim c h t bytes ht
  | find i t perm orc tEnd => exact sim_find sim c h i t perm orc tEnd ht hc
  | hold i t => exact sim_hold sim c h i t ht
  | look i t probeFree => exact sim_look sim c h i t probeFree ht
  | lease i t => exact sim_lease sim c h i t ht

theorem sim_run (sim : StoreSim S₁ S₂ Rel) (c : SrvCfg) (evs : List Ev) :
    ∀ (s1 : Sys σ₁) (s2 : Sys σ₂) (now : Int), SysRel Rel s1 s2 now → EvMonotone evs → (∀ e ∈ evs.head?, now ≤ e.t) →
      SysRel Rel (Sys.run S₁ c s1 evs) (Sys.run S₂ c s2 evs) (endClock now evs) := by
  induction evs with
  | nil => intro s1 s2 now h _ _; exact h
  | cons e rest ih =>
    intro s1 s2 now h hm h0
    obtain ⟨hc, hh, hm'⟩ := evmono_tail hm
    rw [endClock_cons]
    exact ih _ _ _ (sim_step sim c h e (h0 e (by simp)) hc) hm' hh

end RefineSys

theorem system_refines_table (c : SrvCfg) (b : Boot) (evs : List Ev) (hm : EvMonotone evs)
    (h0 : ∀ e ∈ evs.head?, b.t0 ≤ e.t) :
    (serverInit clientsStore Clients.empty c b.base b.p b.dyn b.staticOnly b.t0).isSome =
      (serverInit tableStore ([] : Table) c b.base b.p b.dyn b.staticOnly b.t0).isSome ∧
    ∀ dbc dbt, serverInit clientsStore Clients.empty c b.base b.p b.dyn b.staticOnly b.t0 = some dbc →
      serverInit tableStore ([] : Table) c b.base b.p b.dyn b.staticOnly b.t0 = some dbt →
      ((Sys.run clientsStore c { db := dbc } evs).sent.map fun s => (s.t, s.kind, s.addr, s.duid, s.frame)) =
      ((Sys.run tableStore c { db := dbt } evs).sent.map fun s => (s.t, s.kind, s.addr, s.duid, s.frame)) := by
  have hinit := serverInit_sim clients_table_sim (Ipdb.R.empty b.t0) c b.base b.p b.dyn b.staticOnly
  refine ⟨hinit.isSome_eq, ?_⟩
  intro dbc dbt h1 h2
  rw [h1, h2] at hinit
  have hdb : DbRel Ipdb.R dbc dbt b.t0 := hinit
  have hrun := sim_run clients_table_sim c evs { db := dbc } { db := dbt } b.t0 ⟨hdb, rfl, rfl, rfl⟩ hm h0
  rw [hrun.sent]

end PsaDhcp.Proofs.Safety
