import PsaDhcp.Model.System
import PsaDhcp.Spec.ServerSpec
import PsaDhcp.Proofs.Ipdb
namespace PsaDhcp.Proofs.Safety
end PsaDhcp.Proofs.Safety
