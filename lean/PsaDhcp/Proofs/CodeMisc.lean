import PsaDhcp.Code.Bridge
import PsaDhcp.Model.Ipdb
import PsaDhcp.Proofs.CodeMiscAux
/-
Option constructors of lib/dhcpmsg and lib/server/ipdb/uip: translated code = model.
-/
namespace PsaDhcp.Proofs.CodeMisc
open PsaDhcp PsaDhcp.Go PsaDhcp.Code
open PsaDhcp.Proofs.CodeMiscAux

theorem OptionType_eq (t : UInt8) : Gen.dhcpmsg.OptionType t = optToGen (optType t) := by
  rfl

theorem OptionHostname_eq (n : Bytes) : Gen.dhcpmsg.OptionHostname n = optToGen (optHostname n) := by
  rfl

theorem OptionDomainName_eq (n : Bytes) : Gen.dhcpmsg.OptionDomainName n = optToGen (optDomainName n) := by
  rfl

theorem OptionSubnetMask_eq (m : Bytes) : Gen.dhcpmsg.OptionSubnetMask m = optToGen (optSubnetMask m) := by
  rfl

/-- `optIP(code, ips...)`: four bytes per address, zero when the address has no 4-byte form. -/
theorem optIP_eq (code : UInt8) (ips : List Bytes) :
    Gen.dhcpmsg.optIP code ips = .ok (optToGen (optIPs code (ips.map ipOf))) := by
  exact optIP_aux code ips

theorem OptionServerIdentifier_eq (ip : Bytes) :
    Gen.dhcpmsg.OptionServerIdentifier ip = .ok (optToGen (optServerIdentifier (ipOf ip))) := by
  simp only [Gen.dhcpmsg.OptionServerIdentifier, optIP_eq, optServerIdentifier]
  rfl

theorem OptionRequestedIP_eq (ip : Bytes) :
    Gen.dhcpmsg.OptionRequestedIP ip = .ok (optToGen (optRequestedIP (ipOf ip))) := by
  simp only [Gen.dhcpmsg.OptionRequestedIP, optIP_eq, optRequestedIP]
  rfl

theorem OptionRouter_eq (ip : Bytes) :
    Gen.dhcpmsg.OptionRouter ip = .ok (optToGen (optRouter (ipOf ip))) := by
  simp only [Gen.dhcpmsg.OptionRouter, optIP_eq, optRouter]
  rfl

theorem OptionDNS_eq (ips : List Ip4) :
    Gen.dhcpmsg.OptionDNS (ips.map ipToGen) = .ok (optToGen (optDNS ips)) := by
  simp only [Gen.dhcpmsg.OptionDNS, optIP_eq, optDNS, List.map_map, ipOf_comp_ipToGen]

theorem OptionNTP_eq (ips : List Ip4) :
    Gen.dhcpmsg.OptionNTP (ips.map ipToGen) = .ok (optToGen (optNTP ips)) := by
  simp only [Gen.dhcpmsg.OptionNTP, optIP_eq, optNTP, List.map_map, ipOf_comp_ipToGen]

theorem OptionMaxMessageSize_eq (n : UInt16) :
    Gen.dhcpmsg.OptionMaxMessageSize n = .ok (optToGen (optMaxMessageSize n.toNat)) := by
  simp only [Gen.dhcpmsg.OptionMaxMessageSize, optMaxMessageSize, optToGen, u16_data_eq]

theorem OptionInterfaceMTU_eq (n : UInt16) :
    Gen.dhcpmsg.OptionInterfaceMTU n = .ok (optToGen (optInterfaceMTU n.toNat)) := by
  simp only [Gen.dhcpmsg.OptionInterfaceMTU, optInterfaceMTU, optToGen, u16_data_eq]

theorem OptionParametersList_eq (p : Bytes) :
    Gen.dhcpmsg.OptionParametersList p = .ok (optToGen (optParametersList p)) := by
  exact paramsList_aux p

/-- `OptionClientIdentifier(hwaddr)`: `ff ‖ crc32 ‖ 00 03 00 01 ‖ hwaddr[:6]`. -/
theorem OptionClientIdentifier_eq (hw : Bytes) :
    Gen.dhcpmsg.OptionClientIdentifier hw = .ok (optToGen (optClientIdentifier hw)) := by
  exact clientId_aux hw

/-- `(Uip).Valid()` -/
theorem Uip_Valid_eq (ux : UInt32) : Gen.uip.Uip_Valid ux = IPDB.validUip ux.toNat := by
  exact uipValid_aux ux

/-- `(Uip).ToV4()` -/
theorem Uip_ToV4_eq (ux : UInt32) : Gen.uip.Uip_ToV4 ux = ipToGen (Ip4.ofNat ux.toNat) := by
  exact uipToV4_aux ux

end PsaDhcp.Proofs.CodeMisc
