import PsaDhcp.Code.Bridge12
import PsaDhcp.Proofs.OsEdge
/-
Translated resolvconf.update = the model writer of Model/Fs.lean (statements fixed in Props/C20Code.lean).
-/
namespace PsaDhcp.Proofs.CodeFs
open PsaDhcp PsaDhcp.Go PsaDhcp.Code

/-! ### String literals of the bridge = the byte literals of the translated code -/

theorem etc_eq : "/etc".toUTF8.toList = ([47, 101, 116, 99] : Bytes) := by decide +kernel
theorem pat_eq : "resolvconf-*.tmp".toUTF8.toList =
    ([114, 101, 115, 111, 108, 118, 99, 111, 110, 102, 45, 42, 46, 116, 109, 112] : Bytes) := by decide +kernel
theorem tgt_eq : targetName =
    ([47, 101, 116, 99, 47, 114, 101, 115, 111, 108, 118, 46, 99, 111, 110, 102] : Bytes) := by decide +kernel

/-! ### The invariant: the world is a run of the model writer, no violation so far -/

structure Inv (old : Option File) (buf : Bytes) (w : FsWorld) : Prop where
  viol : w.violation = false
  run : w.fs = runFs (fsInit old [buf]) w.acts
  acts : ∀ a ∈ w.acts, ∃ c, a = Act.step 0 c

/-- The world after the model step of writer 0 with the next choice. -/
def stepped (w : FsWorld) : FsWorld :=
  { w with fs := act w.fs (.step 0 w.next.1), choices := w.next.2, acts := w.acts ++ [.step 0 w.next.1] }

theorem call_pos (w : FsWorld) (pc : Pc) (ok : Bool) (hpc : w.pc = pc) (hok : ok = true) :
    w.call pc ok = (w.next.1, stepped w) := by
  simp [FsWorld.call, hpc, hok, stepped]

theorem Inv.stepped {old : Option File} {buf : Bytes} {w : FsWorld} (h : Inv old buf w) :
    Inv old buf (stepped w) := by
  refine ⟨h.viol, ?_, ?_⟩
  · simp only [CodeFs.stepped]
    rw [h.run]; simp [runFs, List.foldl_append]
  · intro a ha
    rcases List.mem_append.1 ha with ha | ha
    · exact h.acts a ha
    · exact ⟨w.next.1, by simpa using ha⟩

theorem Inv.internal {old : Option File} {buf : Bytes} {w : FsWorld} (h : Inv old buf w) :
    Inv old buf w.internal := by
  unfold FsWorld.internal
  split
  · refine ⟨h.viol, ?_, ?_⟩
    · simp only []
      rw [h.run]; simp [runFs, List.foldl_append]
    · intro a ha
      rcases List.mem_append.1 ha with ha | ha
      · exact h.acts a ha
      · exact ⟨{}, by simpa using ha⟩
  · exact h

theorem pc_of {w : FsWorld} {x : Writer} (h : w.fs.ws = [x]) : w.pc = x.pc := by
  simp [FsWorld.pc, h]

theorem act_of {fs : FS} {x : Writer} (h : fs.ws = [x]) (c : Choice) :
    act fs (.step 0 c) = stepWriter fs 0 x c := by
  simp [act, h]

/-! ### The calls, one by one -/

theorem run_TempFile {old : Option File} {buf : Bytes} {w : FsWorld} (hI : Inv old buf w)
    (hws : w.fs.ws = [⟨buf, .create, none, 0, false, false⟩]) (hts : w.fs.tmps = []) :
    ∃ c w', fsEnv.TempFile [47, 101, 116, 99]
        [114, 101, 115, 111, 108, 118, 99, 111, 110, 102, 45, 42, 46, 116, 109, 112] w =
        .ok (((), errOf c "open: permission denied"), w') ∧ Inv old buf w' ∧
      (c.fail = true → w'.fs.ws = [⟨buf, .doneErr, none, 0, false, false⟩] ∧ w'.fs.tmps = []) ∧
      (c.fail = false → w'.fs.ws = [⟨buf, .write, some 0, 0, false, false⟩] ∧
        w'.fs.tmps = [some ⟨[], 0o600⟩]) := by
  refine ⟨w.next.1, stepped w, ?_, hI.stepped, ?_, ?_⟩
  · simp only [fsEnv, etc_eq, pat_eq]
    rw [call_pos w .create _ (pc_of hws) (by simp)]
  · intro hc
    simp [stepped, act_of hws, stepWriter, hc, setW, hws, hts]
  · intro hc
    simp [stepped, act_of hws, stepWriter, hc, setW, hws, hts]

theorem run_FileName (w : FsWorld) : fsEnv.FileName w = .ok (tmpName, w) := rfl

/-- Bytes transferred by the model's `write` step. -/
def written (c : Choice) (buf : Bytes) : Nat :=
  if c.fail then min c.short buf.length else if c.short > 0 then min c.short buf.length else buf.length

theorem run_FileWrite {old : Option File} {buf : Bytes} {w : FsWorld} (hI : Inv old buf w) (f : File)
    (hws : w.fs.ws = [⟨buf, .write, some 0, 0, false, false⟩]) (hts : w.fs.tmps = [some f]) :
    ∃ c w', fsEnv.FileWrite buf w =
        .ok ((Int.ofNat (written c buf), errOf c "write: no space left on device"), w') ∧ Inv old buf w' ∧
      w'.fs.ws = [⟨buf, .close, some 0, written c buf, c.fail, false⟩] ∧
      w'.fs.tmps = [some ⟨buf.take (written c buf), f.mode⟩] := by
  have hws' : (stepped w).fs.ws = [⟨buf, .close, some 0, written w.next.1 buf, w.next.1.fail, false⟩] := by
    simp only [stepped, act_of hws, stepWriter, setW, setTmp, hws, written]
    cases hf : w.next.1.fail <;> by_cases hs : w.next.1.short > 0 <;> simp [hs]
  refine ⟨w.next.1, stepped w, ?_, hI.stepped, hws', ?_⟩
  · simp only [fsEnv]
    rw [call_pos w .write _ (pc_of hws) (by simp [hws])]
    simp [hws']
  · simp only [stepped, act_of hws, stepWriter, setW, setTmp, hws, hts, written]
    cases hf : w.next.1.fail <;> by_cases hs : w.next.1.short > 0 <;> simp [hs]

/-- The model's `check` decision. -/
def bad (buf : Bytes) (nr : Nat) (we ce : Bool) : Bool := we || ce || decide (nr ≠ buf.length)

theorem run_FileClose {old : Option File} {buf : Bytes} {w : FsWorld} (hI : Inv old buf w)
    (nr : Nat) (we : Bool) (ts : List (Option File))
    (hws : w.fs.ws = [⟨buf, .close, some 0, nr, we, false⟩]) (hts : w.fs.tmps = ts) :
    ∃ c w', fsEnv.FileClose w = .ok (errOf c "close: input/output error", w') ∧ Inv old buf w' ∧
      w'.fs.ws = [⟨buf, if bad buf nr we c.fail then .cleanup else .chmod, some 0, nr, we, c.fail⟩] ∧
      w'.fs.tmps = ts := by
  have hws1 : (stepped w).fs.ws = [⟨buf, .check, some 0, nr, we, w.next.1.fail⟩] := by
    simp [stepped, act_of hws, stepWriter, setW, hws]
  have hts1 : (stepped w).fs.tmps = ts := by
    simp [stepped, act_of hws, stepWriter, setW, hts]
  have hint : (stepped w).internal.fs = act (stepped w).fs (.step 0 {}) := by
    simp [FsWorld.internal, pc_of hws1]
  refine ⟨w.next.1, (stepped w).internal, ?_, hI.stepped.internal, ?_, ?_⟩
  · simp only [fsEnv]
    rw [call_pos w .close _ (pc_of hws) rfl]
  · rw [hint]
    simp only [act_of hws1, stepWriter, setW, hws1, bad]
    cases we <;> cases w.next.1.fail <;> by_cases hn : nr = buf.length <;> simp [hn]
  · rw [hint]
    simp only [act_of hws1, stepWriter, setW, hts1]
    split <;> simp

theorem run_Chmod {old : Option File} {buf : Bytes} {w : FsWorld} (hI : Inv old buf w)
    (nr : Nat) (we ce : Bool) (f : File)
    (hws : w.fs.ws = [⟨buf, .chmod, some 0, nr, we, ce⟩]) (hts : w.fs.tmps = [some f]) :
    ∃ c w', fsEnv.Chmod tmpName 420 w = .ok (errOf c "chmod: operation not permitted", w') ∧ Inv old buf w' ∧
      (c.fail = true → w'.fs.ws = [⟨buf, .cleanup, some 0, nr, we, ce⟩] ∧ w'.fs.tmps = [some f]) ∧
      (c.fail = false → w'.fs.ws = [⟨buf, .rename, some 0, nr, we, ce⟩] ∧
        w'.fs.tmps = [some ⟨f.content, 0o644⟩]) := by
  refine ⟨w.next.1, stepped w, ?_, hI.stepped, ?_, ?_⟩
  · simp only [fsEnv]
    rw [call_pos w .chmod _ (pc_of hws) (by simp)]
  · intro hc
    simp [stepped, act_of hws, stepWriter, hc, setW, hws, hts]
  · intro hc
    simp [stepped, act_of hws, stepWriter, hc, setW, setTmp, hws, hts]

theorem run_Rename {old : Option File} {buf : Bytes} {w : FsWorld} (hI : Inv old buf w)
    (nr : Nat) (we ce : Bool) (f : File)
    (hws : w.fs.ws = [⟨buf, .rename, some 0, nr, we, ce⟩]) (hts : w.fs.tmps = [some f]) :
    ∃ c w', fsEnv.Rename tmpName
        [47, 101, 116, 99, 47, 114, 101, 115, 111, 108, 118, 46, 99, 111, 110, 102] w =
        .ok (errOf c "rename: device or resource busy", w') ∧ Inv old buf w' ∧
      (c.fail = true → w'.fs.ws = [⟨buf, .cleanup, some 0, nr, we, ce⟩] ∧ w'.fs.tmps = [some f]) ∧
      (c.fail = false → w'.fs.ws = [⟨buf, .doneOk, some 0, nr, we, ce⟩] ∧ w'.fs.tmps = [none] ∧
        w'.fs.target = some f) := by
  refine ⟨w.next.1, stepped w, ?_, hI.stepped, ?_, ?_⟩
  · simp only [fsEnv, tgt_eq]
    rw [call_pos w .rename _ (pc_of hws) (by simp)]
  · intro hc
    simp [stepped, act_of hws, stepWriter, hc, setW, hws, hts]
  · intro hc
    simp [stepped, act_of hws, stepWriter, hc, setW, setTmp, hws, hts]

theorem run_Remove {old : Option File} {buf : Bytes} {w : FsWorld} (hI : Inv old buf w)
    (nr : Nat) (we ce : Bool) (y : Option File)
    (hws : w.fs.ws = [⟨buf, .cleanup, some 0, nr, we, ce⟩]) (hts : w.fs.tmps = [y]) :
    ∃ w', fsEnv.Remove tmpName w = .ok (none, w') ∧ Inv old buf w' ∧
      w'.fs.ws = [⟨buf, .doneErr, some 0, nr, we, ce⟩] ∧ w'.fs.tmps = [none] := by
  refine ⟨stepped w, ?_, hI.stepped, ?_, ?_⟩
  · simp only [fsEnv]
    rw [call_pos w .cleanup _ (pc_of hws) (by simp)]
  · simp [stepped, act_of hws, stepWriter, setW, setTmp, hws]
  · simp [stepped, act_of hws, stepWriter, setW, setTmp, hts]

/-! ### The translated function, branch by branch -/

theorem discard_run {σ α : Type} (m : StateT σ R α) (s s' : σ) (a : α) (h : m s = .ok (a, s')) :
    (discard m) s = .ok (PUnit.unit, s') := by
  simp [discard, Functor.mapConst, StateT.map, bind, Except.bind, h, pure, Except.pure]

theorem update_run (old : Option File) (buf : Bytes) (cs : List Choice) :
    ∃ e w, (Gen.resolvconf.update fsEnv buf).run (fsWorld0 old buf cs) = .ok (e, w) ∧ Inv old buf w ∧
      (e.isNone → w.pc = .doneOk) ∧
      (e.isSome → w.pc = .doneErr ∧ (w.fs.tmps = [] ∨ w.fs.tmps = [none])) := by
  have hI0 : Inv old buf (fsWorld0 old buf cs) := ⟨rfl, rfl, by simp [fsWorld0]⟩
  obtain ⟨c1, w1, h1, hI1, hf1, hs1⟩ := run_TempFile hI0 rfl rfl
  cases hc1 : c1.fail with
  | true =>
    obtain ⟨hws, hts⟩ := hf1 hc1
    refine ⟨some "open: permission denied", w1, ?_, hI1, by simp, fun _ => ⟨by simp [pc_of hws], Or.inl hts⟩⟩
    simp [Gen.resolvconf.update, StateT.run, bind, StateT.bind, Except.bind, pure, StateT.pure, Except.pure, h1,
      errOf, hc1]
  | false =>
    obtain ⟨hws1, hts1⟩ := hs1 hc1
    obtain ⟨c2, w2, h2, hI2, hws2, hts2⟩ := run_FileWrite hI1 _ hws1 hts1
    obtain ⟨c3, w3, h3, hI3, hws3, hts3⟩ := run_FileClose hI2 _ _ _ hws2 hts2
    by_cases hbad : bad buf (written c2 buf) c2.fail c3.fail = true
    · -- write error, close error or short count: the deferred Remove
      rw [if_pos hbad] at hws3
      obtain ⟨w4, h4, hI4, hws4, hts4⟩ := run_Remove hI3 _ _ _ _ hws3 hts3
      have hrun : ∃ e, (Gen.resolvconf.update fsEnv buf).run (fsWorld0 old buf cs) = .ok (some e, w4) := by
        cases hc2 : c2.fail with
        | true =>
          refine ⟨"write: no space left on device", ?_⟩
          simp [Gen.resolvconf.update, StateT.run, bind, StateT.bind, Except.bind, pure, StateT.pure, Except.pure,
            h1, errOf, hc1, run_FileName, h2, h3, hc2, discard_run _ _ _ _ h4]
        | false =>
          cases hc3 : c3.fail with
          | true =>
            refine ⟨"close: input/output error", ?_⟩
            simp [Gen.resolvconf.update, StateT.run, bind, StateT.bind, Except.bind, pure, StateT.pure,
              Except.pure, h1, errOf, hc1, run_FileName, h2, h3, hc2, hc3, discard_run _ _ _ _ h4]
          | false =>
            have hn : written c2 buf ≠ buf.length := by simpa [bad, hc2, hc3] using hbad
            have hn' : ¬ ((written c2 buf : Int) = (buf.length : Int)) := by omega
            refine ⟨"short write", ?_⟩
            simp [Gen.resolvconf.update, StateT.run, bind, StateT.bind, Except.bind, pure, StateT.pure,
              Except.pure, h1, errOf, hc1, run_FileName, h2, h3, hc2, hc3, discard_run _ _ _ _ h4,
              hn']
      obtain ⟨e, hrun⟩ := hrun
      exact ⟨some e, w4, hrun, hI4, by simp, fun _ => ⟨by simp [pc_of hws4], Or.inr hts4⟩⟩
    · rw [if_neg hbad] at hws3
      have hc2 : c2.fail = false := by
        cases h : c2.fail with
        | false => rfl
        | true => exact absurd (by simp [bad, h]) hbad
      have hc3 : c3.fail = false := by
        cases h : c3.fail with
        | false => rfl
        | true => exact absurd (by simp [bad, h]) hbad
      have hn : written c2 buf = buf.length := by
        apply Decidable.byContradiction
        intro h
        exact hbad (by simp [bad, h])
      have hn' : ((written c2 buf : Int) = (buf.length : Int)) := by omega
      obtain ⟨c4, w4, h4, hI4, hf4, hs4⟩ := run_Chmod hI3 _ _ _ _ hws3 hts3
      cases hc4 : c4.fail with
      | true =>
        obtain ⟨hws4, hts4⟩ := hf4 hc4
        obtain ⟨w5, h5, hI5, hws5, hts5⟩ := run_Remove hI4 _ _ _ _ hws4 hts4
        refine ⟨some "chmod: operation not permitted", w5, ?_, hI5, by simp,
          fun _ => ⟨by simp [pc_of hws5], Or.inr hts5⟩⟩
        simp [Gen.resolvconf.update, StateT.run, bind, StateT.bind, Except.bind, pure, StateT.pure,
          Except.pure, h1, errOf, hc1, run_FileName, h2, h3, hc2, hc3, hn', h4, hc4, discard_run _ _ _ _ h5]
      | false =>
        obtain ⟨hws4, hts4⟩ := hs4 hc4
        obtain ⟨c5, w5, h5, hI5, hf5, hs5⟩ := run_Rename hI4 _ _ _ _ hws4 hts4
        cases hc5 : c5.fail with
        | true =>
          obtain ⟨hws5, hts5⟩ := hf5 hc5
          obtain ⟨w6, h6, hI6, hws6, hts6⟩ := run_Remove hI5 _ _ _ _ hws5 hts5
          refine ⟨some "rename: device or resource busy", w6, ?_, hI6, by simp,
            fun _ => ⟨by simp [pc_of hws6], Or.inr hts6⟩⟩
          simp [Gen.resolvconf.update, StateT.run, bind, StateT.bind, Except.bind, pure, StateT.pure,
            Except.pure, h1, errOf, hc1, run_FileName, h2, h3, hc2, hc3, hn', h4, hc4, h5, hc5,
            discard_run _ _ _ _ h6]
        | false =>
          obtain ⟨hws5, hts5, _⟩ := hs5 hc5
          refine ⟨none, w5, ?_, hI5, fun _ => by simp [pc_of hws5], by simp⟩
          simp [Gen.resolvconf.update, StateT.run, bind, StateT.bind, Except.bind, pure, StateT.pure,
            Except.pure, h1, errOf, hc1, run_FileName, h2, h3, hc2, hc3, hn', h4, hc4, h5, hc5]

/-! ### The statements of Props/C20Code.lean -/

theorem update_eq (old : Option File) (buf : Bytes) (cs : List Choice) :
    ∃ e w, (Gen.resolvconf.update fsEnv buf).run (fsWorld0 old buf cs) = .ok (e, w) ∧
      w.violation = false ∧ w.fs = runFs (fsInit old [buf]) w.acts ∧ (∀ a ∈ w.acts, ∃ c, a = .step 0 c) ∧
      (e.isNone → w.pc = .doneOk) ∧ (e.isSome → w.pc = .doneErr) := by
  obtain ⟨e, w, hrun, hI, hok, herr⟩ := update_run old buf cs
  exact ⟨e, w, hrun, hI.viol, hI.run, hI.acts, hok, fun h => (herr h).1⟩

/-- The lone writer of a world, from its program counter. -/
theorem writer_of {w : FsWorld} {pc : Pc} (h : w.pc = pc) (hk : pc ≠ .killed) :
    ∃ x, w.fs.ws[0]? = some x ∧ x.pc = pc := by
  unfold FsWorld.pc at h
  cases hx : w.fs.ws[0]? with
  | none => rw [hx] at h; exact absurd h.symm hk
  | some x => rw [hx] at h; exact ⟨x, rfl, h⟩

theorem update_outcome (old : Option File) (buf : Bytes) (cs : List Choice) :
    ∃ e w, (Gen.resolvconf.update fsEnv buf).run (fsWorld0 old buf cs) = .ok (e, w) ∧
      (e.isSome → w.fs.target = old ∧ ∀ (t : Nat) f, w.fs.tmps[t]? = some f → f = none) ∧
      (e.isNone → w.fs.target = some ⟨buf, 0o644⟩) := by
  obtain ⟨e, w, hrun, hI, hok, herr⟩ := update_run old buf cs
  refine ⟨e, w, hrun, ?_, ?_⟩
  · intro he
    obtain ⟨hpc, hts⟩ := herr he
    obtain ⟨x, hx, hxpc⟩ := writer_of hpc (by decide)
    refine ⟨?_, ?_⟩
    · rw [hI.run] at hx ⊢
      exact OsEdge.failed_update_keeps_previous old buf w.acts x hx (by rw [hxpc]; decide)
    · -- the writer's temp file (if one was ever created) is removed, and it is the only temp file
      have hrem := OsEdge.failed_update_removes_temp old [buf] w.acts 0 x (by rw [← hI.run]; exact hx) hxpc
      intro t f htf
      rcases hts with hts | hts
      · rw [hts] at htf; simp at htf
      · rw [hts] at htf
        cases t with
        | zero => simpa using htf.symm
        | succ t => simp at htf
  · intro he
    obtain ⟨x, hx, hxpc⟩ := writer_of (hok he) (by decide)
    rw [hI.run] at hx ⊢
    exact OsEdge.successful_update_installs old buf w.acts x hx hxpc

end PsaDhcp.Proofs.CodeFs
