import PsaDhcp.Model.Fs
import PsaDhcp.Model.Resources
/-
Proofs for C19 (socket / goroutine disciplines) and C20 (atomic resolv.conf replacement).
-/
namespace PsaDhcp.Proofs.OsEdge
open PsaDhcp

/-! ## C19 — resources -/

/-- One-step invariant of the discipline machine. -/
structure Good (d : Discipline) (s : RState) : Prop where
  le : s.closed ≤ s.opened
  one : s.opened ≤ 1
  bal : s.sockOpen = true ↔ s.opened = s.closed + 1
  fresh : s.started = false → s.opened = 0
  closer : d = .closerOnCancel → s.closerAlive = s.sockOpen
  noCloser : d ≠ .closerOnCancel → s.closerAlive = false
  retC : s.running = false → d = .closerOnCancel → s.ctxDone = true ∨ s.sockOpen = false
  retD : s.running = false → d ≠ .closerOnCancel → d ≠ .unknown → s.sockOpen = false

theorem good_init (d : Discipline) : Good d {} := by
  constructor <;> simp

theorem good_step (d : Discipline) (s : RState) (o : Outcome) (h : Good d s) : Good d (rstep d s o) := by
  obtain ⟨opened, closed, sockOpen, started, running, closerAlive, ctxDone⟩ := s
  obtain ⟨h1, h2, h3, h4, h5, h6, h7, h8⟩ := h
  simp only at h1 h2 h3 h4 h5 h6 h7 h8
  cases d <;> cases o <;> cases sockOpen <;> cases started <;> cases running <;> cases closerAlive <;> cases ctxDone <;>
    (unfold rstep; simp_all [ret, closeSock]) <;> (constructor <;> simp <;> omega)

theorem good_run (d : Discipline) (os : List Outcome) : ∀ s, Good d s → Good d (rrun d s os) := by
  induction os with
  | nil => intro s h; exact h
  | cons o os ih => intro s h; exact ih _ (good_step d s o h)

theorem rrun_append (d : Discipline) (s : RState) (os os' : List Outcome) :
    rrun d s (os ++ os') = rrun d (rrun d s os) os' := by
  simp [rrun, List.foldl_append]

theorem no_leak (d : Discipline) (hd : d ≠ .unknown) (os : List Outcome) :
    let s := settle d (rrun d {} os)
    s.running = false → (s.opened = s.closed ∧ s.sockOpen = false ∧ s.closerAlive = false) := by
  have h := good_run d os {} (good_init d)
  generalize rrun d {} os = s at h
  obtain ⟨opened, closed, sockOpen, started, running, closerAlive, ctxDone⟩ := s
  obtain ⟨h1, h2, h3, h4, h5, h6, h7, h8⟩ := h
  simp only at h1 h2 h3 h4 h5 h6 h7 h8
  cases d <;> cases sockOpen <;> cases running <;> cases closerAlive <;> cases ctxDone <;>
    simp_all [settle, closeSock] <;> omega

theorem balance_invariant (d : Discipline) (os : List Outcome) :
    let s := rrun d {} os
    s.closed ≤ s.opened ∧ s.opened ≤ 1 ∧ (s.sockOpen = true ↔ s.opened = s.closed + 1) := by
  have h := good_run d os {} (good_init d)
  exact ⟨h.le, h.one, h.bal⟩

theorem closer_shutdown_prompt (os : List Outcome) (o : Outcome) (ho : o = .ioOk ∨ o = .ioFails ∨ o = .bodyReturns)
    (hs : (rrun .closerOnCancel {} os).started = true) :
    (rrun .closerOnCancel {} (os ++ [.parentCancelled, o])).running = false := by
  have h := good_run .closerOnCancel os {} (good_init _)
  rw [rrun_append]
  generalize rrun .closerOnCancel {} os = s at h hs
  obtain ⟨opened, closed, sockOpen, started, running, closerAlive, ctxDone⟩ := s
  obtain ⟨h1, h2, h3, h4, h5, h6, h7, h8⟩ := h
  simp only at h1 h2 h3 h4 h5 h6 h7 h8 hs
  subst hs
  rcases ho with rfl | rfl | rfl <;>
    cases sockOpen <;> cases running <;> cases closerAlive <;> cases ctxDone <;>
    simp_all [rrun, List.foldl] <;> (unfold rstep; simp [ret, closeSock]) <;> (unfold rstep; simp [ret, closeSock])

theorem returned_is_final (d : Discipline) (s : RState) (o : Outcome) (h : s.running = false) :
    (rstep d s o).running = false ∧ (rstep d s o).opened = s.opened := by
  obtain ⟨opened, closed, sockOpen, started, running, closerAlive, ctxDone⟩ := s
  simp only at h
  subst h
  unfold rstep
  cases sockOpen <;> cases closerAlive <;> cases ctxDone <;> simp [closeSock]

/-! ## C20 — atomic replacement -/

/-- What a writer's program counter says about its temp file. -/
def PcInv (tmps : List (Option File)) (w : Writer) : Prop :=
  match w.pc with
  | .close | .check => ∃ t m, w.tmp = some t ∧ tmps[t]? = some (some ⟨w.buf.take w.nr, m⟩)
  | .chmod => ∃ t m, w.tmp = some t ∧ tmps[t]? = some (some ⟨w.buf, m⟩)
  | .rename => ∃ t, w.tmp = some t ∧ tmps[t]? = some (some ⟨w.buf, 0o644⟩)
  | .create => w.tmp = none
  | .doneErr => w.tmp = none ∨ ∃ t, w.tmp = some t ∧ tmps[t]? = some none
  | _ => True

theorem PcInv.frame {tmps tmps' : List (Option File)} {w : Writer}
    (hf : ∀ t, w.tmp = some t → tmps'[t]? = tmps[t]?) (h : PcInv tmps w) : PcInv tmps' w := by
  unfold PcInv at h ⊢
  split at h
  · obtain ⟨t, m, ht, hc⟩ := h; exact ⟨t, m, ht, by rw [hf t ht]; exact hc⟩
  · obtain ⟨t, m, ht, hc⟩ := h; exact ⟨t, m, ht, by rw [hf t ht]; exact hc⟩
  · obtain ⟨t, m, ht, hc⟩ := h; exact ⟨t, m, ht, by rw [hf t ht]; exact hc⟩
  · obtain ⟨t, ht, hc⟩ := h; exact ⟨t, ht, by rw [hf t ht]; exact hc⟩
  · exact h
  · rcases h with h | ⟨t, ht, hc⟩
    · exact Or.inl h
    · exact Or.inr ⟨t, ht, by rw [hf t ht]; exact hc⟩
  · trivial

structure Inv (old : Option File) (bufs : List Bytes) (fs : FS) : Prop where
  bufs : ∀ (i : Nat) (w : Writer), fs.ws[i]? = some w → bufs[i]? = some w.buf
  tgt : (fs.target = old ∧ ∀ (i : Nat) (w : Writer), fs.ws[i]? = some w → w.pc ≠ .doneOk) ∨
        ∃ (i : Nat) (w : Writer), fs.ws[i]? = some w ∧ w.pc = .doneOk ∧ fs.target = some ⟨w.buf, 0o644⟩
  lt : ∀ (i : Nat) (w : Writer) (t : Nat), fs.ws[i]? = some w → w.tmp = some t → t < fs.tmps.length
  distinct : ∀ (i j : Nat) (wi wj : Writer) (t : Nat), fs.ws[i]? = some wi → fs.ws[j]? = some wj → i ≠ j → wi.tmp = some t → wj.tmp ≠ some t
  pcinv : ∀ (i : Nat) (w : Writer), fs.ws[i]? = some w → PcInv fs.tmps w

theorem set_lookup {α} {l : List α} {i j : Nat} {a x : α} (h : (l.set i a)[j]? = some x) :
    (j = i ∧ x = a) ∨ (j ≠ i ∧ l[j]? = some x) := by
  by_cases hij : i = j
  · subst hij
    rw [List.getElem?_set] at h
    simp at h
    exact Or.inl ⟨rfl, h.2.symm⟩
  · rw [List.getElem?_set_ne hij] at h
    exact Or.inr ⟨fun e => hij e.symm, h⟩

theorem set_self {α} {l : List α} {i : Nat} {a w : α} (h : l[i]? = some w) : (l.set i a)[i]? = some a := by
  have : i < l.length := by
    rcases List.getElem?_eq_some_iff.mp h with ⟨hi, _⟩; exact hi
  simp [this]

/-- Generic preservation: writer `i` moves from `w` to `w'`, touching only its own temp file. -/
theorem Inv.update {old : Option File} {bufs : List Bytes} {fs : FS} (h : Inv old bufs fs)
    {i : Nat} {w : Writer} (hw : fs.ws[i]? = some w) (hnd : w.pc ≠ .doneOk)
    (w' : Writer) (tmps' : List (Option File)) (target' : Option File)
    (hbuf : w'.buf = w.buf)
    (hlen : fs.tmps.length ≤ tmps'.length)
    (hframe : ∀ t, w'.tmp ≠ some t → t < fs.tmps.length → tmps'[t]? = fs.tmps[t]?)
    (htmp : w'.tmp = w.tmp ∨ (w'.tmp = some fs.tmps.length ∧ fs.tmps.length < tmps'.length))
    (hpc : PcInv tmps' w')
    (htgt : (target' = fs.target ∧ w'.pc ≠ .doneOk) ∨ (w'.pc = .doneOk ∧ target' = some ⟨w'.buf, 0o644⟩)) :
    Inv old bufs { target := target', tmps := tmps', ws := fs.ws.set i w' } := by
  -- another writer's temp name differs from the new temp name of writer `i`
  have other : ∀ j x t, j ≠ i → fs.ws[j]? = some x → x.tmp = some t → w'.tmp ≠ some t := by
    intro j x t hji hx hxt hc
    rcases htmp with e | ⟨e, _⟩
    · exact h.distinct i j w x t hw hx (fun e => hji e.symm) (e ▸ hc) hxt
    · have := h.lt j x t hx hxt
      rw [e] at hc; cases hc; omega
  constructor
  · intro j x hx
    rcases set_lookup hx with ⟨rfl, rfl⟩ | ⟨_, hx⟩
    · rw [hbuf]; exact h.bufs _ _ hw
    · exact h.bufs _ _ hx
  · show (target' = old ∧ _) ∨ _
    rcases htgt with ⟨ht, hp⟩ | ⟨hp, ht⟩
    · rcases h.tgt with ⟨ho, hall⟩ | ⟨j, x, hx, hxp, hxt⟩
      · refine Or.inl ⟨ht.trans ho, ?_⟩
        intro j x hx
        rcases set_lookup hx with ⟨rfl, rfl⟩ | ⟨_, hx⟩
        · exact hp
        · exact hall _ _ hx
      · refine Or.inr ⟨j, x, ?_, hxp, ht.trans hxt⟩
        have hji : i ≠ j := by
          rintro rfl
          rw [hw] at hx; cases hx; exact hnd hxp
        show (fs.ws.set i w')[j]? = some x
        rw [List.getElem?_set_ne hji]; exact hx
    · exact Or.inr ⟨i, w', set_self hw, hp, ht⟩
  · intro j x t hx hxt
    show t < tmps'.length
    rcases set_lookup hx with ⟨rfl, rfl⟩ | ⟨_, hx⟩
    · rcases htmp with e | ⟨e, hl⟩
      · have := h.lt _ _ t hw (e ▸ hxt); omega
      · rw [e] at hxt; cases hxt; exact hl
    · have := h.lt _ _ t hx hxt; omega
  · intro j k wj wk t hj hk hjk hjt
    rcases set_lookup hj with ⟨rfl, rfl⟩ | ⟨hji, hj'⟩
    · rcases set_lookup hk with ⟨rfl, rfl⟩ | ⟨hki, hk'⟩
      · exact absurd rfl hjk
      · intro hc; exact other k wk t hki hk' hc hjt
    · rcases set_lookup hk with ⟨rfl, rfl⟩ | ⟨hki, hk'⟩
      · exact other j wj t hji hj' hjt
      · exact h.distinct j k wj wk t hj' hk' hjk hjt
  · intro j x hx
    show PcInv tmps' x
    rcases set_lookup hx with ⟨rfl, rfl⟩ | ⟨hji, hx⟩
    · exact hpc
    · refine PcInv.frame ?_ (h.pcinv j x hx)
      intro t hxt
      exact hframe t (other j x t hji hx hxt) (h.lt j x t hx hxt)

/-- Only the writer record changes (program counter, flags); no file is touched. -/
theorem Inv.setPc {old : Option File} {bufs : List Bytes} {fs : FS} (h : Inv old bufs fs)
    {i : Nat} {w : Writer} (hw : fs.ws[i]? = some w) (hnd : w.pc ≠ .doneOk)
    (w' : Writer) (hbuf : w'.buf = w.buf) (htmp : w'.tmp = w.tmp) (hpc : PcInv fs.tmps w')
    (hp : w'.pc ≠ .doneOk) : Inv old bufs (setW fs i w') :=
  Inv.update h hw hnd w' fs.tmps fs.target hbuf (Nat.le_refl _) (fun _ _ _ => rfl) (Or.inl htmp) hpc
    (Or.inl ⟨rfl, hp⟩)

theorem Inv.stepWriter {old : Option File} {bufs : List Bytes} {fs : FS} (h : Inv old bufs fs)
    {i : Nat} {w : Writer} (hw : fs.ws[i]? = some w) (c : Choice) : Inv old bufs (stepWriter fs i w c) := by
  have hP := h.pcinv i w hw
  have setFrame : ∀ (t : Nat) (x : Option File) (w' : Writer), w'.tmp = some t →
      ∀ t', w'.tmp ≠ some t' → t' < fs.tmps.length → (fs.tmps.set t x)[t']? = fs.tmps[t']? := by
    intro t x w' e t' hne _
    have : t ≠ t' := fun e' => hne (by rw [e, e'])
    exact List.getElem?_set_ne this
  unfold PsaDhcp.stepWriter
  split
  next hpc =>
    -- create
    have hnd : w.pc ≠ .doneOk := by simp [hpc]
    simp only [PcInv, hpc] at hP
    split
    · exact h.setPc hw hnd _ rfl rfl (by simp [PcInv, hP]) (by simp)
    · refine Inv.update h hw hnd _ (fs.tmps ++ [some ⟨[], 0o600⟩]) fs.target ?_ ?_ ?_ ?_ ?_ ?_
      · rfl
      · simp
      · intro t _ ht
        exact List.getElem?_append_left ht
      · exact Or.inr ⟨rfl, by simp⟩
      · simp [PcInv]
      · exact Or.inl ⟨rfl, by simp⟩
  next hpc =>
    -- write
    have hnd : w.pc ≠ .doneOk := by simp [hpc]
    split
    · exact h
    next t htmp =>
      have hlt := h.lt i w t hw htmp
      refine Inv.update h hw hnd _ (fs.tmps.set t _) fs.target ?_ ?_ ?_ ?_ ?_ ?_
      · rfl
      · simp
      · exact setFrame t _ _ htmp
      · exact Or.inl rfl
      · simp only [PcInv]
        exact ⟨t, _, htmp, by rw [List.getElem?_set_self hlt]⟩
      · exact Or.inl ⟨rfl, by simp⟩
  next hpc =>
    -- close
    have hnd : w.pc ≠ .doneOk := by simp [hpc]
    simp only [PcInv, hpc] at hP
    exact h.setPc hw hnd _ rfl rfl (by simpa [PcInv] using hP) (by simp)
  next hpc =>
    -- check
    have hnd : w.pc ≠ .doneOk := by simp [hpc]
    simp only [PcInv, hpc] at hP
    split
    · exact h.setPc hw hnd _ rfl rfl (by simp [PcInv]) (by simp)
    next hc =>
      have hnr : w.nr = w.buf.length := by
        simp only [not_or, Decidable.not_not] at hc; exact hc.2.2
      rw [hnr, List.take_length] at hP
      exact h.setPc hw hnd _ rfl rfl (by simpa [PcInv] using hP) (by simp)
  next hpc =>
    -- chmod
    have hnd : w.pc ≠ .doneOk := by simp [hpc]
    simp only [PcInv, hpc] at hP
    split
    · exact h
    next t htmp =>
      split
      · exact h.setPc hw hnd _ rfl rfl (by simp [PcInv]) (by simp)
      · obtain ⟨t', m, ht', hc⟩ := hP
        rw [htmp] at ht'; cases ht'
        have hlt := h.lt i w t hw htmp
        refine Inv.update h hw hnd _ (fs.tmps.set t _) fs.target ?_ ?_ ?_ ?_ ?_ ?_
        · rfl
        · simp
        · exact setFrame t _ _ htmp
        · exact Or.inl rfl
        · simp only [PcInv]
          exact ⟨t, htmp, by rw [List.getElem?_set_self hlt, hc]⟩
        · exact Or.inl ⟨rfl, by simp⟩
  next hpc =>
    -- rename
    have hnd : w.pc ≠ .doneOk := by simp [hpc]
    simp only [PcInv, hpc] at hP
    split
    · exact h
    next t htmp =>
      split
      · exact h.setPc hw hnd _ rfl rfl (by simp [PcInv]) (by simp)
      · obtain ⟨t', ht', hc⟩ := hP
        rw [htmp] at ht'; cases ht'
        split
        next f hf =>
          rw [hc] at hf; cases hf
          refine Inv.update h hw hnd _ (fs.tmps.set t none) _ ?_ ?_ ?_ ?_ ?_ ?_
          · rfl
          · simp
          · exact setFrame t _ _ htmp
          · exact Or.inl rfl
          · simp [PcInv]
          · exact Or.inr ⟨rfl, rfl⟩
        · exact h.setPc hw hnd _ rfl rfl (by simp [PcInv]) (by simp)
  next hpc =>
    -- cleanup
    have hnd : w.pc ≠ .doneOk := by simp [hpc]
    split
    next htmp => exact h.setPc hw hnd _ rfl rfl (by simp [PcInv, htmp]) (by simp)
    next t htmp =>
      have hlt := h.lt i w t hw htmp
      refine Inv.update h hw hnd _ (fs.tmps.set t none) fs.target ?_ ?_ ?_ ?_ ?_ ?_
      · rfl
      · simp
      · exact setFrame t _ _ htmp
      · exact Or.inl rfl
      · simp only [PcInv]
        exact Or.inr ⟨t, htmp, by simp [hlt]⟩
      · exact Or.inl ⟨rfl, by simp⟩
  all_goals exact h

theorem Inv.act {old : Option File} {bufs : List Bytes} {fs : FS} (h : Inv old bufs fs) (a : Act) :
    Inv old bufs (act fs a) := by
  cases a with
  | step i c =>
    simp only [PsaDhcp.act]
    split
    next w hw => exact h.stepWriter hw c
    · exact h
  | kill i =>
    simp only [PsaDhcp.act]
    split
    next w hw =>
      split
      · exact h
      next hn =>
        simp only [not_or] at hn
        exact h.setPc hw hn.1 _ rfl rfl (by simp [PcInv]) (by simp)
    · exact h

theorem Inv.run {old : Option File} {bufs : List Bytes} (as : List Act) :
    ∀ {fs : FS}, Inv old bufs fs → Inv old bufs (runFs fs as) := by
  induction as with
  | nil => intro fs h; exact h
  | cons a as ih => intro fs h; exact ih (h.act a)

theorem Inv.init (old : Option File) (bufs : List Bytes) : Inv old bufs (fsInit old bufs) := by
  have key : ∀ (i : Nat) (w : Writer), (fsInit old bufs).ws[i]? = some w →
      ∃ b, bufs[i]? = some b ∧ w = { buf := b } := by
    intro i w hw
    simp only [fsInit, List.getElem?_map, Option.map_eq_some_iff] at hw
    obtain ⟨b, hb, rfl⟩ := hw
    exact ⟨b, hb, rfl⟩
  constructor
  · intro i w hw
    obtain ⟨b, hb, rfl⟩ := key i w hw
    exact hb
  · refine Or.inl ⟨rfl, ?_⟩
    intro i w hw
    obtain ⟨b, hb, rfl⟩ := key i w hw
    simp
  · intro i w t hw ht
    obtain ⟨b, hb, rfl⟩ := key i w hw
    simp at ht
  · intro i j wi wj t hi hj _ ht
    obtain ⟨b, hb, rfl⟩ := key i wi hi
    simp at ht
  · intro i w hw
    obtain ⟨b, hb, rfl⟩ := key i w hw
    simp [PcInv]

theorem inv_run (old : Option File) (bufs : List Bytes) (as : List Act) :
    Inv old bufs (runFs (fsInit old bufs) as) := Inv.run as (Inv.init old bufs)

theorem reader_sees_whole_file (old : Option File) (bufs : List Bytes) (as : List Act) :
    (runFs (fsInit old bufs) as).target = old ∨
      ∃ w ∈ (runFs (fsInit old bufs) as).ws, w.pc = .doneOk ∧ (runFs (fsInit old bufs) as).target = some ⟨w.buf, 0o644⟩ := by
  rcases (inv_run old bufs as).tgt with ⟨ho, _⟩ | ⟨i, w, hw, hp, ht⟩
  · exact Or.inl ho
  · exact Or.inr ⟨w, List.mem_of_getElem? hw, hp, ht⟩

theorem failed_update_removes_temp (old : Option File) (bufs : List Bytes) (as : List Act) (i : Nat) (w : Writer)
    (hw : (runFs (fsInit old bufs) as).ws[i]? = some w) (he : w.pc = .doneErr) :
    w.tmp = none ∨ ∃ t, w.tmp = some t ∧ (runFs (fsInit old bufs) as).tmps[t]? = some none := by
  have := (inv_run old bufs as).pcinv i w hw
  simpa only [PcInv, he] using this

/-- With a single buffer, the only writer is writer 0 and its buffer is `buf`. -/
theorem lone {old : Option File} {buf : Bytes} {fs : FS} (h : Inv old [buf] fs) {i : Nat} {w : Writer}
    (hw : fs.ws[i]? = some w) : i = 0 ∧ w.buf = buf := by
  have := h.bufs i w hw
  cases i with
  | zero => simp at this; exact ⟨rfl, this.symm⟩
  | succ n => simp at this

theorem failed_update_keeps_previous (old : Option File) (buf : Bytes) (as : List Act) (w : Writer)
    (hw : (runFs (fsInit old [buf]) as).ws[0]? = some w) (he : w.pc ≠ .doneOk) :
    (runFs (fsInit old [buf]) as).target = old := by
  have h := inv_run old [buf] as
  rcases h.tgt with ⟨ho, _⟩ | ⟨i, x, hx, hp, _⟩
  · exact ho
  · obtain ⟨rfl, _⟩ := lone h hx
    rw [hw] at hx; cases hx
    exact absurd hp he

theorem successful_update_installs (old : Option File) (buf : Bytes) (as : List Act) (w : Writer)
    (hw : (runFs (fsInit old [buf]) as).ws[0]? = some w) (he : w.pc = .doneOk) :
    (runFs (fsInit old [buf]) as).target = some ⟨buf, 0o644⟩ := by
  have h := inv_run old [buf] as
  rcases h.tgt with ⟨_, hall⟩ | ⟨i, x, hx, _, ht⟩
  · exact absurd he (hall 0 w hw)
  · obtain ⟨_, hb⟩ := lone h hx
    rw [ht, hb]

theorem temp_names_distinct (old : Option File) (bufs : List Bytes) (as : List Act) (i j : Nat) (wi wj : Writer) (t : Nat)
    (hi : (runFs (fsInit old bufs) as).ws[i]? = some wi) (hj : (runFs (fsInit old bufs) as).ws[j]? = some wj)
    (hne : i ≠ j) (ht : wi.tmp = some t) : wj.tmp ≠ some t :=
  (inv_run old bufs as).distinct i j wi wj t hi hj hne ht

theorem undisturbed_writer_succeeds (old : Option File) (buf : Bytes) :
    ((runFs (fsInit old [buf]) (List.replicate 6 (.step 0 {}))).ws[0]?).map (·.pc) = some .doneOk ∧
    (runFs (fsInit old [buf]) (List.replicate 6 (.step 0 {}))).target = some ⟨buf, 0o644⟩ := by
  simp [runFs, fsInit, act, stepWriter, setW, setTmp, List.replicate]

end PsaDhcp.Proofs.OsEdge
