import PsaDhcp.Model.Fs
import PsaDhcp.Model.Resources
namespace PsaDhcp.Proofs.OsEdge
end PsaDhcp.Proofs.OsEdge
