import PsaDhcp.Code.Bridge6
import PsaDhcp.Proofs.CodeKeys
/-
Translated clients table (lib/server/ipdb/clients/clients.go) = Model/Clients.lean (statements fixed in Props/C11CodeClients.lean).
-/
namespace PsaDhcp.Proofs.CodeClients
open PsaDhcp PsaDhcp.Go PsaDhcp.Code

/-! ### Go maps as association lists -/
theorem mapGet_del {α : Type} (m : Go.Map α) (k k' : Bytes) :
    Go.mapGet? (Go.mapDel m k) k' = if k' = k then none else Go.mapGet? m k' := by
  induction m with
  | nil => simp [Go.mapGet?, Go.mapDel]
  | cons e m ih =>
    rcases e with ⟨ek, ev⟩
    simp only [Go.mapGet?, Go.mapDel] at ih ⊢
    by_cases h : ek = k
    · subst h
      by_cases h2 : k' = ek
      · subst h2; simp
      · have h3 : ¬ ek = k' := fun h => h2 h.symm
        simpa [List.filter_cons, List.find?_cons, h2, h3] using ih
    · by_cases h2 : ek = k'
      · subst h2; simp [h]
      · simpa [List.filter_cons, List.find?_cons, h, h2] using ih

theorem mapGet_set {α : Type} (m : Go.Map α) (k k' : Bytes) (v : α) :
    Go.mapGet? (Go.mapSet m k v) k' = if k' = k then some v else Go.mapGet? m k' := by
  have h := mapGet_del m k k'
  simp only [Go.mapGet?, Go.mapSet] at h ⊢
  by_cases h2 : k' = k
  · subst h2; simp
  · have h3 : ¬ k = k' := fun h' => h2 h'.symm
    simpa [List.find?_cons, h2, h3] using h

/-! ### Key strings -/

theorem keyOf_inj (k k' : Key) (s : Bytes) (hk : KeyOk k) (hk' : KeyOk k') (h : keyOf k = .ok s)
    (h' : keyOf k' = .ok s) : k = k' := by
  cases k with
  | ip a =>
    cases k' with
    | ip b =>
      simp only [keyOf, Except.ok.injEq] at h h'
      have := CodeKeys.Uip_String_injective _ _ (h.trans h'.symm)
      simp only [KeyOk] at hk hk'
      have h3 := congrArg UInt32.toNat this
      simp only [UInt32.toNat_ofNat'] at h3
      congr 1; omega
    | duid d =>
      simp only [keyOf, Except.ok.injEq] at h h'
      exact absurd (h ▸ h') (CodeKeys.keys_disjoint _ _)
  | duid d =>
    cases k' with
    | ip b =>
      simp only [keyOf, Except.ok.injEq] at h h'
      exact absurd (h' ▸ h) (CodeKeys.keys_disjoint _ _)
    | duid d' =>
      simp only [keyOf] at h h'
      rw [CodeKeys.Duid_String_injective _ _ (h.trans h'.symm)]


/-! ### The monad -/

theorem lift_ok {σ α : Type} (a : α) :
    (liftM (Except.ok a : R α) : StateT σ R α) = fun st => .ok (a, st) := rfl

/-! ### Lookup -/

def resUpd (res : List Go.Ptr) (i : Int) : Option Nat → List Go.Ptr
  | none => res
  | some p => res.set i.toNat (some p)

theorem heapGet_some {α : Type} (h : List α) (p : Nat) (site : String) (hp : p < h.length) :
    Go.heapGet (some p) site h = .ok (h[p], h) := by
  simp [Go.heapGet, List.getElem?_eq_getElem hp]

theorem CRep_del (cx : Gen.clients.Clients) (h : Gen.Heap) (c : Clients) (k : Key) (s : Bytes)
    (hr : CRep cx h c) (hk : KeyOk k) (hs : keyOf k = .ok s) :
    CRep { m := Go.mapDel cx.m s } h { c with m := Clients.del c.m k } := by
  obtain ⟨h1, h2, h3⟩ := hr
  refine ⟨h1, ?_, ?_⟩
  · intro k' s' hk' hs'
    simp only [mapGet_del, Clients.del]
    by_cases he : k' = k
    · subst he
      have : s' = s := by rw [hs] at hs'; exact (Except.ok.inj hs').symm
      simp [this]
    · have : s' ≠ s := fun hss => he (keyOf_inj k' k s hk' hk (hss ▸ hs') hs)
      simp only [this, he, if_false]
      exact h2 k' s' hk' hs'
  · intro k' i hi
    simp only [Clients.del] at hi
    split at hi
    · cases hi
    · exact h3 k' i hi

theorem loop_step (now : Int) (k : Key) (s : Bytes) (rest : List Bytes) (i : Int) (cx : Gen.clients.Clients)
    (res : List Go.Ptr) (h : Gen.Heap) (c : Clients) (hr : CRep cx h c) (hk : KeyOk k) (hs : keyOf k = .ok s)
    (hi : 0 ≤ i ∧ i < (res.length : Int)) :
    ∃ cx', CRep cx' h (c.look1 now k).1 ∧
      Gen.clients.Clients_Lookup.loop1 now (s :: rest) i (cx, res) h =
        Gen.clients.Clients_Lookup.loop1 now rest (i + 1) (cx', resUpd res i (c.look1 now k).2) h := by
  have hr' := hr
  obtain ⟨h1, h2, h3⟩ := hr
  have hp := h2 k s hk hs
  rw [Gen.clients.Clients_Lookup.loop1]
  simp only [bind, pure]
  rw [hp]
  unfold Clients.look1
  cases hm : c.m k with
  | none => exact ⟨cx, hr', by simp [resUpd]⟩
  | some p =>
    have hlt := h3 k p hm
    have hlt' : p < h.length := by rw [← h1] at hlt; simpa using hlt
    have he : c.ents[p]? = some (entOf h[p]) := by
      simp [← h1, List.getElem?_eq_getElem hlt']
    simp only [he]
    have hg : ∀ site, Go.heapGet (some p) site h = .ok (h[p], h) := fun site => heapGet_some h p site hlt'
    have hset : Go.setIdx res i (some p) "clients.go:42" = .ok (res.set i.toNat (some p)) := by
      simp [Go.setIdx, hi, pure, Except.pure]
    generalize h[p] = r at he hg
    rcases r with ⟨rip, rd, lu, pm⟩
    by_cases hl : Clients.Entry.live (entOf ⟨rip, rd, lu, pm⟩) now = true
    · refine ⟨cx, ?_, ?_⟩
      · simpa [hl] using hr'
      · simp only [hl, if_true, resUpd]
        cases pm
        · have hn : ¬ lu < now := by
            simp only [Clients.Entry.live, entOf, Bool.false_or] at hl
            have := of_decide_eq_true hl
            omega
          simp [StateT.bind, hg, hn, StateT.pure, hset, lift_ok, bind, Except.bind, pure, Except.pure]
        · simp [StateT.bind, hg, StateT.pure, hset, lift_ok, bind, Except.bind, pure, Except.pure]
    · refine ⟨{ m := Go.mapDel cx.m s }, ?_, ?_⟩
      · simpa [hl] using CRep_del cx h c k s hr' hk hs
      · simp only [hl, resUpd]
        cases pm
        · have hn : lu < now := by
            simp only [Clients.Entry.live, entOf, Bool.false_or, Bool.not_eq_true] at hl
            have := of_decide_eq_false hl
            omega
          simp [StateT.bind, hg, hn, StateT.pure, bind, Except.bind, pure, Except.pure]
        · simp [Clients.Entry.live, entOf] at hl

theorem ofNat_toNat (ip : UInt32) : UInt32.ofNat ip.toNat = ip := by simp

/-- `Lookup` leaves the heap alone. -/
theorem Lookup_eq' (cx : Gen.clients.Clients) (h : Gen.Heap) (c : Clients) (now : Int) (ip : UInt32) (duid : Bytes)
    (hr : CRep cx h c) :
    ∃ cx', (Gen.clients.Clients_Lookup cx now ip duid).run h =
        .ok (((c.lookup now ip.toNat duid).2.1, (c.lookup now ip.toNat duid).2.2, cx'), h)
      ∧ CRep cx' h (c.lookup now ip.toNat duid).1 := by
  obtain ⟨sd, hsd⟩ := CodeKeys.Duid_String_total duid
  have hk1 : keyOf (.ip ip.toNat) = .ok (Gen.uip.Uip_String ip) := by simp only [keyOf, ofNat_toNat]
  have hk2 : keyOf (.duid duid) = .ok sd := hsd
  have hok1 : KeyOk (.ip ip.toNat) := by simpa [KeyOk] using ip.toNat_lt
  obtain ⟨cx1, hr1, e1⟩ := loop_step now (.ip ip.toNat) _ [sd] 0 cx [none, none] h c hr hok1 hk1 (by simp)
  obtain ⟨cx2, hr2, e2⟩ := loop_step now (.duid duid) _ [] (0 + 1) cx1 (resUpd [none, none] 0 (c.look1 now (.ip ip.toNat)).2)
    h _ hr1 trivial hk2 (by cases (c.look1 now (.ip ip.toNat)).2 <;> simp [resUpd])
  refine ⟨cx2, ?_, hr2⟩
  unfold Gen.clients.Clients_Lookup
  simp only [StateT.run, bind, StateT.bind, hsd, lift_ok, Except.bind, List.replicate]
  rw [e1, e2]
  simp only [Gen.clients.Clients_Lookup.loop1, pure, StateT.pure, Except.pure, Clients.lookup]
  cases (c.look1 now (.ip ip.toNat)).2 <;> cases ((c.look1 now (Key.ip ip.toNat)).1.look1 now (Key.duid duid)).2 <;>
    simp [resUpd, Go.idx, lift_ok, pure, Except.pure]

theorem Lookup_eq (cx : Gen.clients.Clients) (h : Gen.Heap) (c : Clients) (now : Int) (ip : UInt32) (duid : Bytes)
    (hr : CRep cx h c) :
    ∃ cx' h', (Gen.clients.Clients_Lookup cx now ip duid).run h =
        .ok (((c.lookup now ip.toNat duid).2.1, (c.lookup now ip.toNat duid).2.2, cx'), h')
      ∧ CRep cx' h' (c.lookup now ip.toNat duid).1 := by
  obtain ⟨cx', he, hr'⟩ := Lookup_eq' cx h c now ip duid hr
  exact ⟨cx', h, he, hr'⟩

/-! ### Facts about the model's `lookup` -/

theorem look1_some (c : Clients) (now : Int) (k : Key) (a : Nat) (h : (c.look1 now k).2 = some a) :
    a < (c.look1 now k).1.ents.length := by
  unfold Clients.look1 at h ⊢
  cases hm : c.m k with
  | none => simp [hm] at h
  | some p =>
    simp only [hm] at h ⊢
    cases he : c.ents[p]? with
    | none => simp [he] at h
    | some e =>
      simp only [he] at h ⊢
      have hlt : p < c.ents.length := (List.getElem?_eq_some_iff.mp he).1
      by_cases hl : Clients.Entry.live e now = true
      · simp only [hl, if_true, Option.some.injEq] at h ⊢; subst h; exact hlt
      · simp [hl] at h

theorem look1_ents (c : Clients) (now : Int) (k : Key) : (c.look1 now k).1.ents = c.ents := by
  unfold Clients.look1
  split
  · rfl
  · split
    · rfl
    · split <;> rfl

theorem lookup_some1 (c : Clients) (now : Int) (ip : Nat) (d : Bytes) (a : Nat)
    (h : (c.lookup now ip d).2.1 = some a) : a < (c.lookup now ip d).1.ents.length := by
  simp only [Clients.lookup] at h ⊢
  rw [look1_ents]
  exact look1_some c now _ a h

/-! ### Representation after an allocation, a map store, an update in place -/

theorem CRep_alloc (cx : Gen.clients.Clients) (h : Gen.Heap) (c : Clients) (v : Gen.clients.client)
    (hr : CRep cx h c) : CRep cx (h ++ [v]) { c with ents := c.ents ++ [entOf v] } := by
  obtain ⟨h1, h2, h3⟩ := hr
  refine ⟨by simp [h1], h2, ?_⟩
  intro k i hi
  have := h3 k i hi
  simp only [List.length_append, List.length_cons, List.length_nil]
  omega

theorem CRep_put (cx : Gen.clients.Clients) (h : Gen.Heap) (c : Clients) (k : Key) (s : Bytes) (p : Nat)
    (hr : CRep cx h c) (hk : KeyOk k) (hs : keyOf k = .ok s) (hp : p < c.ents.length) :
    CRep { m := Go.mapSet cx.m s (some p) } h { c with m := Clients.put c.m k p } := by
  obtain ⟨h1, h2, h3⟩ := hr
  refine ⟨h1, ?_, ?_⟩
  · intro k' s' hk' hs'
    simp only [mapGet_set, Clients.put]
    by_cases he : k' = k
    · subst he
      have : s' = s := by rw [hs] at hs'; exact (Except.ok.inj hs').symm
      simp [this]
    · have : s' ≠ s := fun hss => he (keyOf_inj k' k s hk' hk (hss ▸ hs') hs)
      simp only [this, he, if_false]
      exact h2 k' s' hk' hs'
  · intro k' i hi
    simp only [Clients.put] at hi
    split at hi
    · simp only [Option.some.injEq] at hi; subst hi; exact hp
    · exact h3 k' i hi

theorem CRep_modify (cx : Gen.clients.Clients) (h : Gen.Heap) (c : Clients) (a : Nat) (exp : Int)
    (hr : CRep cx h c) :
    CRep cx (h.modify a (fun r => { r with leasedUntil := exp }))
      { c with ents := c.ents.modify a (fun e => { e with exp := exp }) } := by
  obtain ⟨h1, h2, h3⟩ := hr
  refine ⟨?_, h2, ?_⟩
  · rw [← h1]
    apply List.ext_getElem?
    intro j
    simp only [List.getElem?_map, List.getElem?_modify]
    cases h[j]? with
    | none => rfl
    | some r => by_cases hj : a = j <;> simp [hj, entOf]
  · intro k i hi
    simpa using h3 k i hi

/-! ### `injectInternal`, `Inject`, `InjectPermanent` -/

theorem injectInternal_eq (cx : Gen.clients.Clients) (h : Gen.Heap) (c : Clients) (now : Int) (ip : UInt32)
    (duid : Bytes) (exp : Int) (perm : Bool) (hr : CRep cx h c) :
    ∃ cx' h', (Gen.clients.Clients_injectInternal cx now ip duid exp perm).run h =
        .ok ((resToGen (c.inject now ip.toNat duid exp perm).2, cx'), h')
      ∧ CRep cx' h' (c.inject now ip.toNat duid exp perm).1 := by
  obtain ⟨cx1, he, hr1⟩ := Lookup_eq' cx h c now ip duid hr
  obtain ⟨sd, hsd⟩ := CodeKeys.Duid_String_total duid
  unfold Gen.clients.Clients_injectInternal Clients.inject
  simp only [StateT.run] at he
  simp only [StateT.run, bind, StateT.bind, Except.bind, he]
  generalize c.lookup now ip.toNat duid = r at he hr1
  rcases r with ⟨c', a, b⟩
  cases a with
  | some a => exact ⟨cx1, h, by simp [pure, StateT.pure, Except.pure, resToGen], hr1⟩
  | none =>
    cases b with
    | some b => exact ⟨cx1, h, by simp [pure, StateT.pure, Except.pure, resToGen], hr1⟩
    | none =>
      simp only at hr1
      have hlen : c'.ents.length = h.length := by rw [← hr1.1]; simp
      have hk1 : keyOf (.ip ip.toNat) = .ok (Gen.uip.Uip_String ip) := by simp only [keyOf, ofNat_toNat]
      have hok1 : KeyOk (.ip ip.toNat) := by simpa [KeyOk] using ip.toNat_lt
      let v : Gen.clients.client := { ip := ip, duid := duid, leasedUntil := exp, permanent := perm }
      have hrA := CRep_alloc cx1 h c' v hr1
      have hrB := CRep_put _ _ _ (.ip ip.toNat) _ h.length hrA hok1 hk1 (by simp [hlen])
      have hrC := CRep_put _ _ _ (.duid duid) sd h.length hrB trivial hsd (by simp [hlen])
      refine ⟨{ m := Go.mapSet (Go.mapSet cx1.m (Gen.uip.Uip_String ip) (some h.length)) sd (some h.length) },
        h ++ [v], ?_, ?_⟩
      rotate_left
      · simpa [hlen, entOf, v] using hrC
      · simp [Go.heapAlloc, Go.heapGet, StateT.pure, StateT.bind, hsd, lift_ok, resToGen, v,
          bind, Except.bind, pure, Except.pure]

theorem Inject_eq (cx : Gen.clients.Clients) (h : Gen.Heap) (c : Clients) (now : Int) (ip : UInt32) (duid : Bytes)
    (exp : Int) (hr : CRep cx h c) :
    ∃ cx' h', (Gen.clients.Clients_Inject cx now ip duid exp).run h =
        .ok ((resToGen (c.inject now ip.toNat duid exp false).2, cx'), h')
      ∧ CRep cx' h' (c.inject now ip.toNat duid exp false).1 := by
  obtain ⟨cx', h', he, hr'⟩ := injectInternal_eq cx h c now ip duid exp false hr
  refine ⟨cx', h', ?_, hr'⟩
  unfold Gen.clients.Clients_Inject
  simp only [StateT.run] at he
  simp [StateT.run, bind, StateT.bind, Except.bind, he, pure, StateT.pure, Except.pure]

theorem InjectPermanent_eq (cx : Gen.clients.Clients) (h : Gen.Heap) (c : Clients) (now : Int) (ip : UInt32)
    (duid : Bytes) (hr : CRep cx h c) :
    ∃ cx' h', (Gen.clients.Clients_InjectPermanent cx now ip duid).run h =
        .ok ((resToGen (c.inject now ip.toNat duid 0 true).2, cx'), h')
      ∧ CRep cx' h' (c.inject now ip.toNat duid 0 true).1 := by
  obtain ⟨cx', h', he, hr'⟩ := injectInternal_eq cx h c now ip duid 0 true hr
  refine ⟨cx', h', ?_, hr'⟩
  unfold Gen.clients.Clients_InjectPermanent
  simp only [StateT.run] at he
  simp [StateT.run, bind, StateT.bind, Except.bind, he, pure, StateT.pure, Except.pure]

/-! ### `SetLease`, `Expire` -/

theorem SetLease_eq (cx : Gen.clients.Clients) (h : Gen.Heap) (c : Clients) (now : Int) (ip : UInt32) (duid : Bytes)
    (exp : Int) (hr : CRep cx h c) :
    ∃ cx' h', (Gen.clients.Clients_SetLease cx now ip duid exp).run h =
        .ok ((resToGen (c.setLease now ip.toNat duid exp).2, cx'), h')
      ∧ CRep cx' h' (c.setLease now ip.toNat duid exp).1 := by
  obtain ⟨cx1, he, hr1⟩ := Lookup_eq' cx h c now ip duid hr
  have hs1 := lookup_some1 c now ip.toNat duid
  unfold Gen.clients.Clients_SetLease Clients.setLease
  simp only [StateT.run] at he
  simp only [StateT.run, bind, StateT.bind, Except.bind, he]
  generalize c.lookup now ip.toNat duid = r at he hr1 hs1
  rcases r with ⟨c', a, b⟩
  cases a with
  | none => exact ⟨cx1, h, by simp [pure, StateT.pure, Except.pure, resToGen], hr1⟩
  | some a =>
    cases b with
    | none => exact ⟨cx1, h, by simp [pure, StateT.pure, Except.pure, resToGen], hr1⟩
    | some b =>
      by_cases hab : a = b
      · subst hab
        have hlt : a < h.length := by
          have := hs1 a rfl
          simp only at hr1 this
          rw [← hr1.1] at this; simpa using this
        refine ⟨cx1, h.modify a (fun r => { r with leasedUntil := exp }), ?_, ?_⟩
        · simp [pure, StateT.pure, Except.pure, resToGen, Go.heapModify, hlt, StateT.bind, bind, Except.bind]
        · simpa using CRep_modify cx1 h c' a exp hr1
      · refine ⟨cx1, h, ?_, ?_⟩
        · simp [pure, StateT.pure, Except.pure, resToGen, hab]
        · simpa [hab] using hr1

theorem Expire_eq (cx : Gen.clients.Clients) (h : Gen.Heap) (c : Clients) (now : Int) (ip : UInt32) (duid : Bytes)
    (hr : CRep cx h c) :
    ∃ cx' h', (Gen.clients.Clients_Expire cx now ip duid).run h =
        .ok ((resToGen (c.setLease now ip.toNat duid 0).2, cx'), h')
      ∧ CRep cx' h' (c.setLease now ip.toNat duid 0).1 := by
  obtain ⟨cx', h', he, hr'⟩ := SetLease_eq cx h c now ip duid 0 hr
  refine ⟨cx', h', ?_, hr'⟩
  unfold Gen.clients.Clients_Expire
  simp only [StateT.run] at he
  simp [StateT.run, bind, StateT.bind, Except.bind, he, pure, StateT.pure, Except.pure]

/-! ### `NewClients`, accessors -/

theorem NewClients_eq : ∃ cx, Gen.clients.NewClients = .ok (some cx) ∧ CRep cx [] Clients.empty := by
  refine ⟨{ m := [] }, rfl, rfl, ?_, ?_⟩
  · intro k s _ _; rfl
  · intro k i hi; simp [Clients.empty] at hi

theorem accessors_eq (cx : Gen.clients.Clients) (h : Gen.Heap) (c : Clients) (i : Nat) (e : Entry)
    (hr : CRep cx h c) (he : c.ents[i]? = some e) (_hb : e.ip < 4294967296) :
    (Gen.clients.client_Uip (some i)).run h = .ok (UInt32.ofNat e.ip, h) ∧
    (Gen.clients.client_LeasedUntil (some i)).run h = .ok (e.exp, h) := by
  rw [← hr.1, List.getElem?_map] at he
  cases hg : h[i]? with
  | none => simp [hg] at he
  | some r =>
    simp only [hg, Option.map_some, Option.some.injEq] at he
    subst he
    unfold Gen.clients.client_Uip Gen.clients.client_LeasedUntil
    simp [StateT.run, bind, StateT.bind, Go.heapGet, hg, pure, StateT.pure, Except.pure, entOf, Except.bind]

end PsaDhcp.Proofs.CodeClients
