import PsaDhcp.Code.Bridge8
import PsaDhcp.Proofs.CodeVerify
import PsaDhcp.Proofs.CodeLayer
import PsaDhcp.Proofs.CodeLayerIp
import PsaDhcp.Proofs.CodeDhcp
import PsaDhcp.Proofs.CodeDhcpOpts
import PsaDhcp.Proofs.ClientP
/-
Client automaton / receive path: translated code = model (statements fixed in Props/C15Code.lean, Props/C14CodeCatch.lean).
-/
namespace PsaDhcp.Proofs.CodeCatch
open PsaDhcp PsaDhcp.Go PsaDhcp.Code

/-! ### The read buffer (4096 bytes) -/

theorem readInto_length (buf f : Bytes) (h : buf.length = 4096) : (Go.readInto buf f).1.length = 4096 := by
  simp only [Go.readInto, Go.overwrite, List.take_zero, List.nil_append, List.length_append, List.length_take,
    List.length_drop, h]
  omega

theorem readInto_snd (buf f : Bytes) (h : buf.length = 4096) :
    (Go.readInto buf f).2 = ((min f.length 4096 : Nat) : Int) := by
  simp [Go.readInto, h]

/-- `nr, err := s.Read(buff); buff[0:nr]` is the frame cut to the 4096 bytes of the buffer, whatever the buffer held. -/
theorem readInto_slice (buf f : Bytes) (site : String) (h : buf.length = 4096) :
    Go.slice (Go.readInto buf f).1 (0 : Int) (Go.readInto (Go.readInto buf f).1 f).2 site = .ok (f.take 4096) := by
  rw [readInto_snd _ f (readInto_length buf f h)]
  rw [CodeLayerAux.slice_ok _ (0 : Int) _ 0 (min f.length 4096) site rfl rfl (by omega)
    (by rw [readInto_length buf f h]; omega)]
  simp only [Go.readInto, Go.overwrite, List.take_zero, List.nil_append, List.drop_zero, h]
  congr 1
  rw [List.take_append_of_le_length (by rw [List.length_take]; omega)]
  rw [List.take_take, Nat.min_assoc, Nat.min_self]
  by_cases hl : f.length ≤ 4096
  · rw [Nat.min_eq_left hl, List.take_of_length_le (Nat.le_refl _), List.take_of_length_le hl]
  · rw [Nat.min_eq_right (by omega)]

/-! ### Ranges of decoded fields -/

theorem be32_lt (b : Bytes) : be32 b < 4294967296 := by
  unfold be32
  split
  · rename_i b0 b1 b2 b3 _
    have := b0.toNat_lt; have := b1.toNat_lt; have := b2.toNat_lt; have := b3.toNat_lt
    omega
  · omega

theorem be16_lt (b : Bytes) : be16 b < 65536 := by
  unfold be16
  split
  · rename_i h l _
    have := h.toNat_lt; have := l.toNat_lt
    omega
  · omega

theorem decode_xid_lt (b : Bytes) (m : Msg) (h : decode b = .ok m) : m.xid < 4294967296 := by
  have := ((Dhcp.decode_iff_grammar b m).1 h).2.1.xid
  rw [this]; exact be32_lt _

theorem decodeUDP_dstPort_lt (b : Bytes) (u : UDP) (h : decodeUDP b = .ok u) : u.dstPort < 65536 := by
  by_cases hs : b.length < 8
  · rw [Wire.decodeUDP_short b hs] at h; cases h
  · rw [Wire.decodeUDP_eq b (by omega)] at h
    split at h
    · cases h
    · cases h; exact be16_lt _

theorem dstPort_beq (n : Nat) (h : n < 65536) : ((UInt16.ofNat n) == (68 : UInt16)) = decide (n = 68) := by
  by_cases e : n = 68
  · subst e; simp
  · have : UInt16.ofNat n ≠ 68 := by
      intro h'
      apply e
      have := congrArg UInt16.toNat h'
      simp [UInt16.toNat_ofNat'] at this
      omega
    simp [e, this]

theorem options_roundtrip (m : Msg) : (msgToGen m).Options.map optOf = m.options := by
  simp only [msgToGen, List.map_map]
  have : (optOf ∘ optToGen) = id := by funext o; rfl
  rw [this, List.map_id]

/-! ### The verifier closure -/

theorem ofNat_toNat (n : Nat) (h : n < 4294967296) : (UInt32.ofNat n).toNat = n := by
  simp [UInt32.toNat_ofNat']; omega

def lmOf (off : Option Ip4) : Msg :=
  { op := 0, htype := 0, hops := 0, xid := 0, secs := 0, flags := 0, ciaddr := none, yiaddr := off, siaddr := none,
    giaddr := none, chaddr := [], sname := List.replicate 64 0, file := List.replicate 128 0, cookie := 0, options := [] }

def loOf (ch : Option Ip4) : DecodedOptions := { serverIdentifier := ch }

theorem lmOf_eq (off : Option Ip4) :
    ({ Gen.dhcpmsg.Message.zero with YourIP := optIpToGen off } : Gen.dhcpmsg.Message) = msgToGen (lmOf off) := rfl

theorem loOf_eq (ch : Option Ip4) :
    ({ Gen.dhcpmsg.DecodedOptions.zero with ServerIdentifier := optIpToGen ch } : Gen.dhcpmsg.DecodedOptions) =
      doptsToGen (loOf ch) := rfl

/-- The closure handed to `catchReply` computes the model's verdict. -/
theorem vrfyOf_eq (w : Waiting) (m : Msg) (o : DecodedOptions) (hx : w.xid < 4294967296) (hm : m.xid < 4294967296) :
    vrfyOf w (msgToGen m) (doptsToGen o) = .ok (vstateToGen (w.verify m o)) := by
  cases w with
  | offer xid =>
    simp only [Waiting.xid] at hx
    simp only [vrfyOf, CodeVerify.VerifyOffer_eq _ m o hm, ofNat_toNat xid hx, Waiting.verify]; rfl
  | selectingAck off ch xid =>
    simp only [Waiting.xid] at hx
    simp only [vrfyOf, lmOf_eq, loOf_eq, CodeVerify.VerifySelectingAck_eq _ _ _ m o hm, ofNat_toNat xid hx]; rfl
  | renewingAck off ch xid =>
    simp only [Waiting.xid] at hx
    simp only [vrfyOf, lmOf_eq, loOf_eq, CodeVerify.VerifyRenewingAck_eq _ _ _ m o hm, ofNat_toNat xid hx]; rfl
  | rebindingAck off ch xid =>
    simp only [Waiting.xid] at hx
    simp only [vrfyOf, lmOf_eq, loOf_eq, CodeVerify.VerifyRebindingAck_eq _ _ _ m o hm, ofNat_toNat xid hx]; rfl

/-! ### `catchReply` -/

theorem env_SockRead_nil (o : GoErr) (n : Int) :
    (cliSockEnv o).SockRead n [] = .ok (([], some "file already closed"), []) := rfl

theorem env_SockRead_cons (o : GoErr) (n : Int) (f : Bytes) (r : List Bytes) :
    (cliSockEnv o).SockRead n (f :: r) = .ok ((f, none), r) := rfl

theorem lift_ok {σ α : Type} (a : α) :
    (liftM (Except.ok a : R α) : StateT σ R α) = fun st => .ok (a, st) := rfl

set_option linter.unusedSimpArgs false in
/-- The read loop over the frames `fs`, from any buffer contents. -/
theorem loop_eq (o : GoErr) (iface : Go.NetInterface) (w : Waiting) (hx : w.xid < 4294967296) :
    ∀ (fs : List Bytes) (fuel : Nat) (buf : Bytes), buf.length = 4096 → fs.length < fuel →
    ∃ rest, Gen.dclient.catchReply.loop1 (cliSockEnv o) iface (vrfyOf w) () fuel buf fs =
        .ok (LoopOut.ret (caughtToGen
          (match catchReply iface.HardwareAddr w (fs.map (·.take 4096)) with | .ok c => c | .error _ => none)), rest) := by
  intro fs
  induction fs with
  | nil =>
    intro fuel buf hb hf
    obtain ⟨fuel, rfl⟩ : ∃ n, fuel = n + 1 := ⟨fuel - 1, by simp at hf; omega⟩
    refine ⟨[], ?_⟩
    simp [Gen.dclient.catchReply.loop1, bind, StateT.bind, Except.bind, env_SockRead_nil,
      pure, Except.pure, StateT.pure, catchReply, caughtToGen]
  | cons f rest ih =>
    intro fuel buf hb hf
    obtain ⟨fuel, rfl⟩ : ∃ n, fuel = n + 1 := ⟨fuel - 1, by simp at hf; omega⟩
    have hf' : rest.length < fuel := by simp at hf; omega
    have ih' := ih fuel _ (readInto_length buf f hb) hf'
    simp only [Gen.dclient.catchReply.loop1, List.map_cons, catchReply, catchOne]
    simp only [bind, StateT.bind, Except.bind, env_SockRead_cons, Option.isNone_none, Bool.not_true,
      Bool.false_eq_true, if_false]
    rw [readInto_slice buf f _ hb, lift_ok]
    simp only [CodeLayerIp.DecodeIPv4_eq]
    cases h1 : decodeIPv4 (f.take 4096) with
    | error e =>
      cases e with
      | panic s => exact absurd h1 (Wire.decoders_never_panic (f.take 4096) s).1
      | reject why =>
        simp only [liftDec, lift_ok, Option.isNone_some, Bool.not_false, if_true, pure, Except.pure]
        exact ih'
    | ok v4 =>
      simp only [liftDec, lift_ok, Option.isNone_none, Bool.not_true, Bool.false_eq_true, if_false, Go.derefOpt,
        pure, Except.pure, StateT.bind, StateT.pure, bind, Except.bind, ipv4ToGen]
      by_cases hp : v4.proto = 17
      · simp only [hp, beq_self_eq_true, if_true, ne_eq, not_true_eq_false, if_false, CodeLayer.DecodeUDP_eq]
        simp only [StateT.bind, bind, Except.bind]
        cases h2 : decodeUDP v4.data with
        | error e =>
          cases e with
          | panic s => exact absurd h2 (Wire.decoders_never_panic v4.data s).2.1
          | reject why =>
            simp only [liftDec, lift_ok, Option.isNone_some, Bool.false_eq_true, if_false, StateT.pure, pure, Except.pure]
            exact ih'
        | ok udp =>
          have hdp := decodeUDP_dstPort_lt _ _ h2
          simp only [liftDec, lift_ok, Option.isNone_none, if_true, StateT.pure, pure, Except.pure, udpToGen,
            StateT.bind, bind, Except.bind, dstPort_beq _ hdp]
          by_cases hd : udp.dstPort = 68
          · simp only [hd, decide_true, if_true, not_true_eq_false, if_false, CodeDhcp.Decode_eq]
            simp only [StateT.bind, bind, Except.bind]
            cases h3 : decode udp.data with
            | error e =>
              cases e with
              | panic s => exact absurd h3 (Dhcp.decode_never_panics udp.data s)
              | reject why =>
                simp only [liftDec, lift_ok, Option.isNone_some, Bool.false_eq_true, if_false, StateT.pure, pure,
                  Except.pure, StateT.bind, bind, Except.bind]
                exact ih'
            | ok m =>
              have hm := decode_xid_lt _ _ h3
              simp only [liftDec, lift_ok, Option.isNone_none, if_true, StateT.pure, pure, Except.pure,
                StateT.bind, bind, Except.bind]
              by_cases hc : m.chaddr = iface.HardwareAddr
              · have hc' : ((msgToGen m).ClientMAC == iface.HardwareAddr) = true := by simp [msgToGen, hc]
                simp only [hc', if_true, hc, not_true_eq_false, if_false, CodeDhcpOpts.DecodeOptions_eq,
                  options_roundtrip, lift_ok, vrfyOf_eq w m _ hx hm, StateT.bind, bind, Except.bind]
                cases hv : w.verify m (decodeOptions m.options) with
                | failed =>
                  simp only [vstateToGen]
                  exact ih'
                | passed =>
                  exact ⟨rest, by simp [vstateToGen, StateT.bind, StateT.pure, bind, Except.bind, caughtToGen]; rfl⟩
                | isNack =>
                  exact ⟨rest, by simp [vstateToGen, StateT.bind, StateT.pure, bind, Except.bind, caughtToGen]; rfl⟩
              · have hc' : ((msgToGen m).ClientMAC == iface.HardwareAddr) = false := by simp [msgToGen, hc]
                simp only [hc', Bool.false_eq_true, if_false, hc, not_false_eq_true, if_true]
                exact ih'
          · simp only [hd, decide_false, Bool.false_eq_true, if_false, not_false_eq_true, if_true]
            exact ih'
      · have hp' : (v4.proto == 17) = false := by simp [hp]
        simp only [hp', Bool.false_eq_true, if_false, ne_eq, hp, not_false_eq_true, if_true]
        exact ih'

/-- `catchReply(ctx, iface, vrfy)` over the frames `fs` the socket delivers before it is closed. -/
theorem catchReply_eq (iface : Go.NetInterface) (w : Waiting) (fs : List Bytes) (fuel : Nat)
    (hx : w.xid < 4294967296) (hf : fs.length < fuel) :
    ∃ rest, (Gen.dclient.catchReply (cliSockEnv none) iface (vrfyOf w) fuel).run fs =
      .ok (caughtToGen (match catchReply iface.HardwareAddr w (fs.map (·.take 4096)) with | .ok c => c | .error _ => none), rest) := by
  obtain ⟨rest, h⟩ := loop_eq none iface w hx fs fuel (List.replicate 4096 0) List.length_replicate hf
  refine ⟨rest, ?_⟩
  have hm : Go.makeList (0 : UInt8) (4096 : Int) "netio.go:85" = .ok (List.replicate 4096 0) := rfl
  have ho : (cliSockEnv none).OpenIPRecvSock iface fs = .ok (((), none), fs) := rfl
  simp only [Gen.dclient.catchReply, StateT.run, bind, StateT.bind, Except.bind, ho, hm, lift_ok,
    Option.isNone_none, Bool.not_true, Bool.false_eq_true, if_false, h]
  rfl

/-- Every frame is classified: the model's loop never fails. -/
theorem model_catchReply_total (mac : Bytes) (w : Waiting) (fs : List Bytes) : ∃ c, catchReply mac w fs = .ok c := by
  induction fs with
  | nil => exact ⟨none, rfl⟩
  | cons b rest ih =>
    obtain ⟨c, hc⟩ := ih
    cases h : catchOne mac w b with
    | error e =>
      cases e with
      | panic s => exact absurd h (ClientP.catch_never_panics mac w b s)
      | reject why =>
        rcases ClientP.catchOne_spec mac w b with ⟨h', _⟩ | ⟨_, _, _, _, _, _, _, _, _, ⟨_, h'⟩ | ⟨_, h'⟩⟩ <;>
          (rw [h] at h'; cases h')
    | ok r =>
      cases r with
      | ignored => exact ⟨c, by simp only [catchReply, h, bind, Except.bind, hc]⟩
      | passed m o => exact ⟨some (.passed m o), by simp only [catchReply, h, bind, Except.bind]; rfl⟩
      | nack m o => exact ⟨some (.nack m o), by simp only [catchReply, h, bind, Except.bind]; rfl⟩

/-- If the receive socket cannot be opened `catchReply` returns that error. -/
theorem catchReply_open_fails (iface : Go.NetInterface) (w : Waiting) (fs : List Bytes) (fuel : Nat) (e : String) :
    (Gen.dclient.catchReply (cliSockEnv (some e)) iface (vrfyOf w) fuel).run fs =
      .ok ((Gen.dhcpmsg.Message.zero, Gen.dhcpmsg.DecodedOptions.zero, some e), fs) := by
  have ho : (cliSockEnv (some e)).OpenIPRecvSock iface fs = .ok (((), some e), fs) := rfl
  simp only [Gen.dclient.catchReply, StateT.run, bind, StateT.bind, Except.bind, ho,
    Option.isNone_some, Bool.not_false, if_true]
  rfl

end PsaDhcp.Proofs.CodeCatch
