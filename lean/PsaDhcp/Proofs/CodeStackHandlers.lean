import PsaDhcp.Proofs.CodeServer
/-
The handler argument of `Proofs/CodeServer.lean` (`handleMsg_run`), restated for an environment whose database calls
report failures with arbitrary error strings `fe e` instead of the fixed `"error"` of `srvEnv`: the handlers only ever
test `err != nil` on a database error.  `gEnv P c o fe` is `aEnv P c o` with that one generalisation; the lemmas below
are those of CodeServer.lean's sections `env` and `handlers`, for `gEnv`.
-/
set_option linter.unusedSimpArgs false
set_option linter.unusedVariables false
namespace PsaDhcp.Proofs.CodeStack
open PsaDhcp PsaDhcp.Go PsaDhcp.Code PsaDhcp.Proofs PsaDhcp.Proofs.CodeServer

/-- Go results of the database calls for the model's results, the error text given by `fe`. -/
def gIpRes (fe : DbErr → String) : Except DbErr Nat → Bytes × GoErr
  | .ok a => (ipToGen (Ip4.ofNat a), none)
  | .error e => ([], some (fe e))

def gUnitRes (fe : DbErr → String) : Except DbErr Unit → GoErr
  | .ok _ => none
  | .error e => some (fe e)

theorem gipRes_ok (fe : DbErr → String) (a : Nat) : gIpRes fe (.ok a) = (ipToGen (Ip4.ofNat a), none) := rfl
theorem gipRes_err (fe : DbErr → String) (e : DbErr) : gIpRes fe (.error e) = ([], some (fe e)) := rfl
theorem gunitRes_ok (fe : DbErr → String) (a : Unit) : gUnitRes fe (.ok a) = none := rfl
theorem gunitRes_err (fe : DbErr → String) (e : DbErr) : gUnitRes fe (.error e) = some (fe e) := rfl

/-- `aEnv` with the error strings a parameter. -/
def gEnv {σ : Type} (P : Ops σ) (c : SrvCfg) (o : HOracle) (fe : DbErr → String) : Gen.Env (HState σ) where
  LookupClientByDuid := fun duid st =>
    let r := P.lookup st.db (if st.lookups = 0 then o.t0 else o.t1) duid
    .ok (gIpRes fe r.2, { st with db := r.1, lookups := st.lookups + 1 })
  FindIP := fun _mac sugg duid st =>
    let f := P.find st.db o.t1 (ipOf sugg) duid o.perm o.iters
    .ok (gIpRes fe f.2, { st with db := f.1 })
  UpdateClient := fun ip duid ttl st =>
    let u := P.update st.db o.t2 (ipOf ip) duid ttl
    .ok (gUnitRes fe u.2, { st with db := u.1 })
  InManagedRange := fun ip st => .ok (P.inRange st.db (ipOf ip), st)
  ArpVerifyRun := fun _mac _ip st => .ok (o.probeFree, st)
  SendUnicast := fun mac pkt st => .ok (none, { st with sent := st.sent ++ [{ l2dst := mac, pkt := pkt }] })
  DhcpOptions := fun mac st => .ok ((c.dhcpOptions mac).map optToGen, st)
  Sleep := fun _ st => .ok ((), st)

/-! ### the environment operations, one equation each -/
section env
variable {σ : Type} (P : Ops σ) (c : SrvCfg) (o : HOracle) (fe : DbErr → String)

theorem genv_lookup (duid : Bytes) (st : HState σ) :
    (gEnv P c o fe).LookupClientByDuid duid st =
      .ok (gIpRes fe (P.lookup st.db (if st.lookups = 0 then o.t0 else o.t1) duid).2,
        { st with db := (P.lookup st.db (if st.lookups = 0 then o.t0 else o.t1) duid).1, lookups := st.lookups + 1 }) := rfl

theorem genv_findIP (mac sugg duid : Bytes) (st : HState σ) :
    (gEnv P c o fe).FindIP mac sugg duid st =
      .ok (gIpRes fe (P.find st.db o.t1 (ipOf sugg) duid o.perm o.iters).2,
        { st with db := (P.find st.db o.t1 (ipOf sugg) duid o.perm o.iters).1 }) := rfl

theorem genv_update (ip duid : Bytes) (ttl : Int) (st : HState σ) :
    (gEnv P c o fe).UpdateClient ip duid ttl st =
      .ok (gUnitRes fe (P.update st.db o.t2 (ipOf ip) duid ttl).2,
        { st with db := (P.update st.db o.t2 (ipOf ip) duid ttl).1 }) := rfl

theorem genv_inRange (ip : Bytes) (st : HState σ) :
    (gEnv P c o fe).InManagedRange ip st = .ok (P.inRange st.db (ipOf ip), st) := rfl

theorem genv_arp (mac ip : Bytes) (st : HState σ) :
    (gEnv P c o fe).ArpVerifyRun mac ip st = .ok (o.probeFree, st) := rfl

theorem genv_send (mac pkt : Bytes) (st : HState σ) :
    (gEnv P c o fe).SendUnicast mac pkt st =
      .ok (none, { st with sent := st.sent ++ [{ l2dst := mac, pkt := pkt }] }) := rfl

theorem genv_opts (mac : Bytes) (st : HState σ) :
    (gEnv P c o fe).DhcpOptions mac st = .ok ((c.dhcpOptions mac).map optToGen, st) := rfl

theorem genv_sleep (d : Int) (st : HState σ) : (gEnv P c o fe).Sleep d st = .ok ((), st) := rfl
end env

/-! ### the handlers over `Ops` -/
section handlers
variable {σ : Type} (P : Ops σ) (c : SrvCfg) (o : HOracle) (fe : DbErr → String) (sx : Gen.server.server)

theorem gaGetDuid_run (hw cid : Bytes) (st : HState σ) (h0 : st.lookups = 0) :
    (Gen.server.server_getDuid (gEnv P c o fe) sx hw cid).run st =
      .ok ((aGetDuid P st.db o.t0 hw cid).2, { st with db := (aGetDuid P st.db o.t0 hw cid).1, lookups := 1 }) := by
  obtain ⟨db, lk, sent⟩ := st
  simp only at h0
  subst h0
  unfold Gen.server.server_getDuid aGetDuid
  simp only [StateT.run, st_bind, st_ite, st_pure, genv_lookup, CodeIpdb.duidFromHwAddr_eq, if_true, Nat.zero_add]
  have hp : Gen.server.var_internalDuidPrefix = internalPrefix := rfl
  generalize P.lookup db o.t0 (sduid hw) = L
  obtain ⟨db1, r⟩ := L
  cases r with
  | ok a => simp [gipRes_ok]
  | error e =>
    simp only [gipRes_err, hp, Go.hasPrefix]
    by_cases hc : cid.length < 4 ∨ internalPrefix.isPrefixOf cid
    · rw [if_pos hc]
      rcases hc with hc | hc
      · have : (cid.length : Int) < 4 := by omega
        simp [this]
      · simp [hc]
    · rw [if_neg hc]
      have h1 : ¬ (cid.length : Int) < 4 := by omega
      have h2 : internalPrefix.isPrefixOf cid = false := by
        cases h : internalPrefix.isPrefixOf cid with
        | false => rfl
        | true => exact absurd (Or.inr h) hc
      simp [h1, h2]

theorem gsendNACK_run (hs : ipOf sx.selfIP = some c.selfIp) (m : Msg) (hm : MsgRanges m) (st : HState σ) :
    (Gen.server.server_sendNACK (gEnv P c o fe) sx (msgToGen m).Xid (msgToGen m).ClientMAC).run st =
      .ok ((), { st with sent := st.sent ++ [nakFrame c m] }) := by
  unfold Gen.server.server_sendNACK nakFrame
  simp only [StateT.run, st_bind, st_lift, st_discard, st_pure, genv_send, CodeReplies.AssembleNACK_eq _ _ _ _ hs,
    msg_Xid, msg_ClientMAC, u32_roundtrip _ hm.1]

theorem gsendMsg_run (kind : ReplyKind)
    (f : UInt32 → UInt16 → Bytes → Bytes → Bytes → List Gen.dhcpmsg.DHCPOpt → R Bytes)
    (hf : ∀ xid flags dstIP dstMAC opts y, ipOf dstIP = some y →
      f xid flags sx.selfIP dstIP dstMAC opts =
        .ok (assembleLease kind xid.toNat flags.toNat c.selfIp y dstMAC (opts.map optOf)))
    (m : Msg) (hm : MsgRanges m) (y : Ip4) (st : HState σ) :
    (Gen.server.server_sendMsg (gEnv P c o fe) sx (msgToGen m) (ipToGen y) f).run st =
      .ok ((), { st with sent := st.sent ++ [leaseFrame c kind m y] }) := by
  obtain ⟨hx, hfl, -, -⟩ := hm
  unfold Gen.server.server_sendMsg
  simp only [StateT.run, st_bind, st_lift, st_discard, st_pure, st_ite, genv_send, genv_opts, msg_Xid, msg_ClientMAC,
    msg_Flags, hf _ _ _ _ _ _ (ipOf_ipToGen y), CodeReplies.u16_and_msb,
    u32_roundtrip _ hx, u16_roundtrip _ hfl, map_optOf_optToGen, leaseFrame, bcastMac]
  by_cases hb : m.flags / 32768 % 2 = 1 <;> simp [hb]

theorem ghandleDiscover_run (hs : ipOf sx.selfIP = some c.selfIp) (src : Bytes) (dst : Ip4) (duid : Duid) (m : Msg)
    (hm : MsgRanges m) (d : DecodedOptions) (st : HState σ) :
    (Gen.server.server_handleDiscover (gEnv P c o fe) sx src (ipToGen dst) duid (msgToGen m) (doptsToGen d)).run st =
      .ok ((), { st with db := (mDiscover P c o st.db dst duid m d).1,
                         sent := st.sent ++ (mDiscover P c o st.db dst duid m d).2.toList }) := by
  unfold Gen.server.server_handleDiscover mDiscover
  have e15 : (15000000000 : Int) = offerHoldNs := by unfold offerHoldNs; omega
  have hsend := fun y st => gsendMsg_run P c o fe sx .offer Gen.replies.AssembleOffer
        (fun xid flags dstIP dstMAC opts y hy =>
          CodeReplies.AssembleOffer_eq xid flags sx.selfIP dstIP dstMAC opts c.selfIp y hs hy) m hm y st
  simp only [StateT.run] at hsend
  simp only [ipEqual_ip_bcast, dopts_sid, dopts_req, CodeVerify.optIpToGen_isEmpty, StateT.run, st_bind, st_ite,
    st_pure, genv_findIP, genv_update, ipOf_optIpToGen, e15]
  obtain ⟨db, lk, sent⟩ := st
  by_cases h1 : dst = Ip4.bcast
  · cases h2 : d.serverIdentifier with
    | some x => simp [h1]
    | none =>
      simp only [h1, ne_eq, not_true_eq_false, if_false, decide_true, Bool.not_true, Bool.false_eq_true,
        Option.isNone_none]
      generalize P.find db o.t1 d.requestedIP duid o.perm o.iters = F
      obtain ⟨db1, r⟩ := F
      cases r with
      | error e => simp [gipRes_err]
      | ok a =>
        simp only [gipRes_ok, Option.isNone_none, Bool.not_true, Bool.false_eq_true, if_false, ipOf_ipToGen]
        generalize P.update db1 o.t2 (some (Ip4.ofNat a)) duid offerHoldNs = U
        obtain ⟨db2, u⟩ := U
        cases u with
        | error e => simp [gunitRes_err]
        | ok u =>
          simp only [gunitRes_ok, Option.isNone_none, Bool.not_true, Bool.false_eq_true, if_false, hsend,
            Option.toList]
  · simp [h1]

theorem ghandleRequest_run (hs : ipOf sx.selfIP = some c.selfIp) (hl : sx.lopts.LeaseDuration = c.leaseNs)
    (src dst : Ip4) (duid : Duid) (m : Msg) (hm : MsgRanges m) (d : DecodedOptions) (st : HState σ)
    (hne : st.lookups ≠ 0) (hb : ∀ a, (P.lookup st.db o.t1 duid).2 = .ok a → a < 4294967296) :
    ∃ st', (Gen.server.server_handleRequest (gEnv P c o fe) sx (ipToGen src) (ipToGen dst) duid (msgToGen m)
              (doptsToGen d)).run st = .ok ((), st')
      ∧ st'.db = (mRequest P c o st.db src dst duid m d).1
      ∧ st'.sent = st.sent ++ (mRequest P c o st.db src dst duid m d).2.toList := by
  unfold Gen.server.server_handleRequest
  extract_lets d0 jp dreq dsrc
  -- the part after the classification
  have key : ∀ want : Ip4, ∃ st', jp () (ipToGen want) st = .ok ((), st')
      ∧ st'.db = (mReqCont P c o st.db want duid m).1
      ∧ st'.sent = st.sent ++ (mReqCont P c o st.db want duid m).2.toList := by
    intro want
    have hnack := fun st => gsendNACK_run P c o fe sx hs m hm st
    have hsend := fun y st => gsendMsg_run P c o fe sx .ack Gen.replies.AssembleACK
        (fun xid flags dstIP dstMAC opts y hy =>
          CodeReplies.AssembleACK_eq xid flags sx.selfIP dstIP dstMAC opts c.selfIp y hs hy) m hm y st
    simp only [StateT.run] at hnack hsend
    obtain ⟨db, lk, sent⟩ := st
    simp only at hne hb
    unfold mReqCont
    simp only [jp, ipToGen_isEmpty, Bool.false_eq_true, if_false, st_bind, st_ite, st_pure, genv_inRange, genv_lookup,
      genv_arp, genv_update, ipOf_ipToGen, hne, hl]
    cases hin : P.inRange db (some want) with
    | false => simp
    | true =>
      simp only [Bool.not_true, Bool.false_eq_true, if_false, if_true]
      revert hb
      generalize P.lookup db o.t1 duid = L
      obtain ⟨db1, r⟩ := L
      intro hb
      cases r with
      | error e => simp [gipRes_err, hnack]
      | ok lease =>
        have hlt : lease < 4294967296 := hb lease rfl
        simp only [gipRes_ok, Option.isNone_none, Bool.not_true, Bool.false_eq_true, if_false,
          CodeVerify.ipEqual_ipToGen, ipOf_ipToGen]
        by_cases hw : want.toNat = lease
        · have hw' : want = Ip4.ofNat lease := (want_eq_iff want lease hlt).2 hw
          simp only [hw', decide_true, Bool.not_true, Bool.false_eq_true, if_false]
          have hw2 : (Ip4.ofNat lease).toNat = lease := CodeIpdb.toNat_ofNat_ip lease hlt
          simp only [hw2, ne_eq, not_true_eq_false, if_false]
          cases hp : o.probeFree with
          | false => simp [hnack]
          | true =>
            simp only [Bool.not_true, Bool.false_eq_true, if_false, not_true_eq_false]
            generalize P.update db1 o.t2 (some (Ip4.ofNat lease)) duid c.leaseNs = U
            obtain ⟨db2, u⟩ := U
            cases u with
            | error e => simp [gunitRes_err]
            | ok u => simp [gunitRes_ok, hsend]
        · have hw' : ¬ want = Ip4.ofNat lease := fun e => hw ((want_eq_iff want lease hlt).1 e)
          simp [hw, hw', hnack]
  clear_value jp
  -- the classification
  have hcode : (if (Go.ipEqual (ipToGen dst) (Go.netIPv4 255 255 255 255) && (doptsToGen d).ServerIdentifier.isEmpty &&
          !(doptsToGen d).RequestedIP.isEmpty) = true then jp () dreq
        else if (Go.ipEqual (ipToGen dst) (Go.netIPv4 255 255 255 255) &&
          Go.ipEqual (doptsToGen d).ServerIdentifier sx.selfIP && !(doptsToGen d).RequestedIP.isEmpty) = true then jp () dreq
        else if (Go.ipEqual (ipToGen dst) sx.selfIP && (doptsToGen d).ServerIdentifier.isEmpty &&
          (doptsToGen d).RequestedIP.isEmpty) = true then jp () dsrc
        else if (Go.ipEqual (ipToGen dst) (Go.netIPv4 255 255 255 255) && (doptsToGen d).ServerIdentifier.isEmpty &&
          (doptsToGen d).RequestedIP.isEmpty) = true then jp () dsrc
        else pure ()) =
      (match desired (classify c.selfIp dst d.serverIdentifier d.requestedIP) src d.requestedIP with
        | none => pure ()
        | some want => jp () (ipToGen want)) := by
    simp only [dreq, dsrc, ipEqual_ip_bcast, ipEqual_ip_self _ _ hs, ipEqual_opt_self _ _ hs, dopts_sid, dopts_req,
      CodeVerify.optIpToGen_isEmpty]
    unfold classify desired
    by_cases hd1 : dst = Ip4.bcast <;> by_cases hd2 : dst = c.selfIp <;> by_cases hbs : Ip4.bcast = c.selfIp <;>
      rcases hsid : d.serverIdentifier with _ | v <;> rcases hreq : d.requestedIP with _ | r
    all_goals have hbs2 : (c.selfIp = Ip4.bcast) ↔ (Ip4.bcast = c.selfIp) := eq_comm
    all_goals first
      | (simp [hd1, hd2, hbs, hbs2, optIpToGen]; done)
      | (by_cases hv : v = c.selfIp <;> simp [hd1, hd2, hbs, hbs2, hv, optIpToGen]; done)
  rw [hcode]
  unfold mRequest
  cases desired (classify c.selfIp dst d.serverIdentifier d.requestedIP) src d.requestedIP with
  | none => exact ⟨st, rfl, rfl, by simp⟩
  | some want => exact key want

theorem ghandleMsg_run (hsx : SrvOf sx c) (db : IPDB σ) (rx : Rx) (rnd : Int) (hm : MsgRanges rx.msg)
    (hb : ∀ a, (P.lookup (aGetDuid P db o.t0 rx.msg.chaddr (decodeOptions rx.msg.options).clientIdentifier).1 o.t1
        (aGetDuid P db o.t0 rx.msg.chaddr (decodeOptions rx.msg.options).clientIdentifier).2).2 = .ok a →
      a < 4294967296) :
    ∃ st, (Gen.server.server_handleMsg (gEnv P c o fe) sx (ipToGen rx.src) (ipToGen rx.dst) (msgToGen rx.msg) rnd).run
              { db := db, lookups := 0, sent := [] } = .ok ((), st)
      ∧ st.db = (aHandle P c db rx o).1 ∧ st.sent = (aHandle P c db rx o).2.toList := by
  obtain ⟨hmac, hs, hl⟩ := hsx
  unfold Gen.server.server_handleMsg aHandle
  have hg := gaGetDuid_run P c o fe sx rx.msg.chaddr (decodeOptions rx.msg.options).clientIdentifier
    { db := db, lookups := 0, sent := [] } rfl
  simp only [StateT.run] at hg
  simp only [StateT.run, st_bind, st_lift, st_ite, st_pure, st_discard, genv_sleep, msg_Options, msg_ClientMAC,
    CodeDhcpOpts.DecodeOptions_eq, map_optOf_optToGen, dopts_cid, dopts_req, dopts_type, hg, hmac,
    ipEqual_self_opt _ _ hs]
  revert hb
  generalize aGetDuid P db o.t0 rx.msg.chaddr (decodeOptions rx.msg.options).clientIdentifier = g
  obtain ⟨db1, duid⟩ := g
  intro hb
  simp only at hb
  simp only []
  by_cases h1 : c.selfMac = rx.msg.chaddr
  · exact ⟨{ db := db1, lookups := 1, sent := [] }, by simp [h1], by simp [h1], by simp [h1]⟩
  by_cases h2 : (decodeOptions rx.msg.options).requestedIP = some c.selfIp
  · exact ⟨{ db := db1, lookups := 1, sent := [] }, by simp [h1, h2], by simp [h1, h2], by simp [h1, h2]⟩
  by_cases h3 : (decodeOptions rx.msg.options).messageType = 1
  · have hd := ghandleDiscover_run P c o fe sx hs (ipToGen rx.src) rx.dst duid rx.msg hm (decodeOptions rx.msg.options)
      { db := db1, lookups := 1, sent := [] }
    simp only [StateT.run] at hd
    refine ⟨{ db := (mDiscover P c o db1 rx.dst duid rx.msg (decodeOptions rx.msg.options)).fst, lookups := 1,
              sent := [] ++ (mDiscover P c o db1 rx.dst duid rx.msg (decodeOptions rx.msg.options)).snd.toList },
      ?_, ?_, ?_⟩
    · simp only [h1, h2, h3, beq_iff_eq, if_true, if_false, decide_false, Bool.false_eq_true, st_ite, st_bind,
        st_discard, genv_sleep, st_pure, hd, ite_self]
    · simp [h1, h2, h3]
    · simp [h1, h2, h3]
  by_cases h4 : (decodeOptions rx.msg.options).messageType = 3
  · obtain ⟨st', hr, hdb, hsent⟩ := ghandleRequest_run P c o fe sx hs hl rx.src rx.dst duid rx.msg hm
      (decodeOptions rx.msg.options) { db := db1, lookups := 1, sent := [] } (by simp) hb
    simp only [StateT.run] at hr
    refine ⟨st', ?_, ?_, ?_⟩
    · have h31 : ¬ ((3 : UInt8) = 1) := by decide
      simp only [h1, h2, h31, h4, beq_iff_eq, if_true, if_false, decide_false, Bool.false_eq_true, st_ite, st_bind,
        st_pure, hr]
    · simp [h1, h2, h3, h4, hdb]
    · simp [h1, h2, h3, h4, hsent]
  · exact ⟨{ db := db1, lookups := 1, sent := [] }, by simp [h1, h2, h3, h4, st_pure], by simp [h1, h2, h3, h4], by simp [h1, h2, h3, h4]⟩


end handlers

end PsaDhcp.Proofs.CodeStack
