import PsaDhcp.Code.Bridge2
import PsaDhcp.Proofs.CodeLayerIp
import PsaDhcp.Proofs.CodeLayer
import PsaDhcp.Proofs.CodeDhcp
import PsaDhcp.Proofs.CodeMisc
/-
lib/server/replies: the translated AssembleOffer / AssembleACK / AssembleNACK equal the model's reply
assembly (Model/Server.lean) for every input whose addresses have a 4-byte form.
-/
namespace PsaDhcp.Proofs.CodeReplies
open PsaDhcp PsaDhcp.Go PsaDhcp.Code

theorem optOf_optToGen (o : Opt) : optOf (optToGen o) = o := rfl

theorem ipOf_bcast : ipOf (Go.netIPv4 255 255 255 255) = some Ip4.bcast := by decide

theorem ipOf_nil : ipOf [] = none := by decide

theorem nat_and_msb (x : Nat) : x &&& 32768 = 32768 * (x / 32768 % 2) := by
  have h1 : (x &&& 32768) / 2 ^ 15 = x / 2 ^ 15 &&& 32768 / 2 ^ 15 := Nat.and_div_two_pow
  have h2 : (x &&& 32768) % 2 ^ 15 = x % 2 ^ 15 &&& 32768 % 2 ^ 15 := Nat.and_mod_two_pow
  have e1 : 32768 / 2 ^ 15 = 1 := by decide
  have e2 : 32768 % 2 ^ 15 = 0 := by decide
  have e3 : (2 : Nat) ^ 15 = 32768 := by decide
  rw [e1, Nat.and_one_is_mod, e3] at h1
  rw [e2, Nat.and_zero, e3] at h2
  omega

theorem u16_and_msb (flags : UInt16) :
    ((flags &&& (32768 : UInt16)) != (0 : UInt16)) = decide (flags.toNat / 32768 % 2 = 1) := by
  have h : (flags &&& (32768 : UInt16)).toNat = 32768 * (flags.toNat / 32768 % 2) := by
    rw [UInt16.toNat_and]
    exact nat_and_msb flags.toNat
  by_cases hb : flags.toNat / 32768 % 2 = 1
  · have hne : (flags &&& (32768 : UInt16)) ≠ 0 := by
      intro he
      rw [he, hb] at h
      exact absurd h (by decide)
    simp [hb, hne]
  · have he : (flags &&& (32768 : UInt16)) = 0 := by
      apply UInt16.toNat_inj.mp
      rw [h]
      have : flags.toNat / 32768 % 2 = 0 := by omega
      rw [this]; rfl
    simp [hb, he]

theorem dstFromFlag_eq (flags : UInt16) (dst : Bytes) :
    Gen.replies.dstFromFlag flags dst = if flags.toNat / 32768 % 2 = 1 then Go.netIPv4 255 255 255 255 else dst := by
  unfold Gen.replies.dstFromFlag
  rw [u16_and_msb]
  by_cases hb : flags.toNat / 32768 % 2 = 1
  · simp only [hb, decide_true, if_true]; rfl
  · simp only [hb, decide_false, if_false]; rfl

theorem assembleUdp_eq (src dst payload : Bytes) (s d : Ip4) (hs : ipOf src = some s) (hd : ipOf dst = some d) :
    Gen.replies.assembleUdp src dst payload = .ok (assembleUdp s d payload) := by
  unfold Gen.replies.assembleUdp
  simp only [bind, Except.bind, CodeLayer.UDP_Assemble_eq, CodeLayerIp.IPv4_Assemble_eq]
  simp only [ipv4Of, udpOf, Gen.layer.IPv4.zero, hs, hd, assembleUdp]
  rfl

theorem ipOf_dstFromFlag (flags : UInt16) (dst : Bytes) (y : Ip4) (hy : ipOf dst = some y) :
    ipOf (Gen.replies.dstFromFlag flags dst) = some (if flags.toNat / 32768 % 2 = 1 then Ip4.bcast else y) := by
  rw [dstFromFlag_eq]
  by_cases hb : flags.toNat / 32768 % 2 = 1
  · simp only [hb, if_true, ipOf_bcast]
  · simp only [hb, if_false, hy]

theorem copyInto_zeros (n : Nat) : copyInto n (List.replicate n 0) = copyInto n [] := by
  simp [copyInto]

theorem lease_aux (code : UInt8) (xid : UInt32) (flags : UInt16) (srcIP dstIP dstMAC : Bytes)
    (opts : List Gen.dhcpmsg.DHCPOpt) (s y : Ip4) (hs : ipOf srcIP = some s) (hy : ipOf dstIP = some y) :
    Msg.assemble (msgOf { Gen.dhcpmsg.Message.zero with
        Op := 2, Xid := xid, Htype := 1, YourIP := dstIP, Flags := flags, ClientMAC := dstMAC, Cookie := 1669485411,
        Options := [optToGen (optType code), optToGen (optServerIdentifier (ipOf srcIP))] ++ opts })
      = Msg.assemble
        { op := 2, htype := 1, hops := 0, xid := xid.toNat, secs := 0, flags := flags.toNat, ciaddr := none, yiaddr := some y,
          siaddr := none, giaddr := none, chaddr := dstMAC, sname := [], file := [], cookie := 0x63825363,
          options := [optType code, optServerIdentifier (some s)] ++ opts.map optOf } := by
  simp only [Msg.assemble, Msg.header, msgOf, Gen.dhcpmsg.Message.zero, hs, hy, ipOf_nil, copyInto_zeros,
    List.map_append, List.map_cons, List.map_nil, optOf_optToGen]
  rfl

theorem AssembleOffer_eq (xid : UInt32) (flags : UInt16) (srcIP dstIP dstMAC : Bytes) (opts : List Gen.dhcpmsg.DHCPOpt)
    (s y : Ip4) (hs : ipOf srcIP = some s) (hy : ipOf dstIP = some y) :
    Gen.replies.AssembleOffer xid flags srcIP dstIP dstMAC opts =
      .ok (assembleLease .offer xid.toNat flags.toNat s y dstMAC (opts.map optOf)) := by
  unfold Gen.replies.AssembleOffer
  simp only [bind, Except.bind, CodeMisc.OptionServerIdentifier_eq, CodeMisc.OptionType_eq]
  rw [CodeDhcp.Message_Assemble_eq _ (List.length_replicate ..) (List.length_replicate ..)]
  simp only []
  rw [assembleUdp_eq _ _ _ _ _ hs (ipOf_dstFromFlag flags dstIP y hy), lease_aux 2 xid flags srcIP dstIP dstMAC opts s y hs hy]
  rfl

theorem AssembleACK_eq (xid : UInt32) (flags : UInt16) (srcIP dstIP dstMAC : Bytes) (opts : List Gen.dhcpmsg.DHCPOpt)
    (s y : Ip4) (hs : ipOf srcIP = some s) (hy : ipOf dstIP = some y) :
    Gen.replies.AssembleACK xid flags srcIP dstIP dstMAC opts =
      .ok (assembleLease .ack xid.toNat flags.toNat s y dstMAC (opts.map optOf)) := by
  unfold Gen.replies.AssembleACK
  simp only [bind, Except.bind, CodeMisc.OptionServerIdentifier_eq, CodeMisc.OptionType_eq]
  rw [CodeDhcp.Message_Assemble_eq _ (List.length_replicate ..) (List.length_replicate ..)]
  simp only []
  rw [assembleUdp_eq _ _ _ _ _ hs (ipOf_dstFromFlag flags dstIP y hy), lease_aux 5 xid flags srcIP dstIP dstMAC opts s y hs hy]
  rfl

theorem nak_aux (xid : UInt32) (srcIP dstMAC : Bytes) (s : Ip4) (hs : ipOf srcIP = some s) :
    Msg.assemble (msgOf { Gen.dhcpmsg.Message.zero with
        Op := 2, Xid := xid, Htype := 1, ClientMAC := dstMAC, Cookie := 1669485411,
        Options := [optToGen (optType 6), optToGen (optServerIdentifier (ipOf srcIP))] })
      = Msg.assemble
        { op := 2, htype := 1, hops := 0, xid := xid.toNat, secs := 0, flags := 0, ciaddr := none, yiaddr := none,
          siaddr := none, giaddr := none, chaddr := dstMAC, sname := [], file := [], cookie := 0x63825363,
          options := [optType 6, optServerIdentifier (some s)] } := by
  simp only [Msg.assemble, Msg.header, msgOf, Gen.dhcpmsg.Message.zero, hs, ipOf_nil, copyInto_zeros,
    List.map_cons, List.map_nil, optOf_optToGen]
  rfl

theorem AssembleNACK_eq (xid : UInt32) (srcIP dstMAC : Bytes) (s : Ip4) (hs : ipOf srcIP = some s) :
    Gen.replies.AssembleNACK xid srcIP dstMAC = .ok (assembleNak xid.toNat s dstMAC) := by
  unfold Gen.replies.AssembleNACK
  simp only [bind, Except.bind, CodeMisc.OptionServerIdentifier_eq, CodeMisc.OptionType_eq]
  rw [CodeDhcp.Message_Assemble_eq _ (List.length_replicate ..) (List.length_replicate ..)]
  simp only []
  rw [assembleUdp_eq _ _ _ _ _ hs ipOf_bcast, nak_aux xid srcIP dstMAC s hs]
  rfl

end PsaDhcp.Proofs.CodeReplies
