import PsaDhcp.Code.Bridge2
/-
lib/client/verify: the translated acceptance predicates equal the model's (Model/Client.lean) on every
decoded message / option set.
-/
namespace PsaDhcp.Proofs.CodeVerify
open PsaDhcp PsaDhcp.Go PsaDhcp.Code

/-! ### helper lemmas -/

theorem ipToGen_length (i : Ip4) : (ipToGen i).length = 16 := by
  simp [ipToGen, Go.netIPv4, Go.v4InV6Prefix]

theorem ipToGen_inj (i j : Ip4) : ipToGen i = ipToGen j ↔ i = j := by
  constructor
  · intro h
    cases i; cases j
    simp [ipToGen, Go.netIPv4, Go.v4InV6Prefix] at h
    simp [h]
  · intro h; rw [h]

theorem ipEqual_ipToGen (i j : Ip4) : Go.ipEqual (ipToGen i) (ipToGen j) = decide (i = j) := by
  unfold Go.ipEqual
  rw [if_pos (by rw [ipToGen_length, ipToGen_length])]
  by_cases h : i = j
  · subst h; simp
  · have : ipToGen i ≠ ipToGen j := fun e => h ((ipToGen_inj i j).1 e)
    simp [h, this]

theorem ipEqual_optIpToGen (a b : Option Ip4) :
    Go.ipEqual (optIpToGen a) (optIpToGen b) = decide (a = b) := by
  cases a with
  | none =>
    cases b with
    | none => simp [optIpToGen, Go.ipEqual]
    | some j => simp [optIpToGen, Go.ipEqual, ipToGen_length]
  | some i =>
    cases b with
    | none => simp [optIpToGen, Go.ipEqual, ipToGen_length]
    | some j => simp [optIpToGen, ipEqual_ipToGen]

theorem optIpToGen_isEmpty (a : Option Ip4) : (optIpToGen a).isEmpty = a.isNone := by
  cases a with
  | none => rfl
  | some i => simp [optIpToGen, ipToGen, Go.netIPv4, Go.v4InV6Prefix]

theorem ipEqual_zero (a : Option Ip4) :
    Go.ipEqual (optIpToGen a) (Go.netIPv4 0 0 0 0) = decide (a = some Ip4.zero) :=
  ipEqual_optIpToGen a (some Ip4.zero)

theorem ipEqual_bcast (a : Option Ip4) :
    Go.ipEqual (optIpToGen a) (Go.netIPv4 255 255 255 255) = decide (a = some Ip4.bcast) :=
  ipEqual_optIpToGen a (some Ip4.bcast)

theorem secsToGen_lt (n : Nat) : secsToGen n < (60000000000 : Int) ↔ n < 60 := by
  unfold secsToGen; omega

theorem xid_ne (n : Nat) (xid : UInt32) (h : n < 4294967296) :
    ((UInt32.ofNat n) != xid) = decide (n ≠ xid.toNat) := by
  by_cases e : n = xid.toNat
  · subst e; simp
  · have : UInt32.ofNat n ≠ xid := by
      intro h'
      apply e
      rw [← h']
      simp [UInt32.toNat_ofNat']
      omega
    simp [e, this]

theorem id_pure {α : Type} (x : α) : (pure x : Id α) = x := rfl

/-! ### the theorems -/

theorem verifyCommon_eq (xid : UInt32) (m : Msg) (o : DecodedOptions) (hx : m.xid < 4294967296) :
    Gen.verify.verifyCommon xid (msgToGen m) (doptsToGen o) = vstateToGen (verifyCommon xid.toNat m o) := by
  have hlen : ((Int.ofNat (o.routers.map ipToGen).length) == (0 : Int)) = o.routers.isEmpty := by
    cases h : o.routers <;> simp
    omega
  simp only [Gen.verify.verifyCommon, msgToGen, doptsToGen, xid_ne _ _ hx, hlen,
    optIpToGen_isEmpty, ipEqual_zero, ipEqual_bcast]
  unfold verifyCommon
  have e2 : ((o.routers.isEmpty || m.yiaddr.isNone || decide (m.yiaddr = some Ip4.zero) ||
      decide (m.yiaddr = some Ip4.bcast)) = true) ↔
      (o.routers.isEmpty = true ∨ m.yiaddr = none ∨ m.yiaddr = some Ip4.zero ∨ m.yiaddr = some Ip4.bcast) := by
    simp [Option.isNone_iff_eq_none, or_assoc]
  have e3 : ((o.serverIdentifier.isNone || decide (o.serverIdentifier = some Ip4.zero) ||
      decide (o.serverIdentifier = some Ip4.bcast)) = true) ↔
      (o.serverIdentifier = none ∨ o.serverIdentifier = some Ip4.zero ∨ o.serverIdentifier = some Ip4.bcast) := by
    simp [Option.isNone_iff_eq_none, or_assoc]
  simp only [e2, e3, decide_eq_true_eq, secsToGen_lt]
  by_cases h1 : m.xid ≠ xid.toNat
  · simp only [if_pos h1]; rfl
  · simp only [if_neg h1]
    split
    · rfl
    · split
      · rfl
      · split <;> rfl

theorem VerifyOffer_eq (xid : UInt32) (m : Msg) (o : DecodedOptions) (hx : m.xid < 4294967296) :
    Gen.verify.VerifyOffer xid (msgToGen m) (doptsToGen o) = vstateToGen (verifyOffer xid.toNat m o) := by
  have := verifyCommon_eq xid m o hx
  unfold Gen.verify.VerifyOffer verifyOffer
  rw [this]
  by_cases h : o.messageType = 2 <;> simp [h, doptsToGen, vstateToGen, Id.run, id_pure]

theorem verifyGenAck_eq (lm : Msg) (lo : DecodedOptions) (xid : UInt32) (v : Bool) (m : Msg) (o : DecodedOptions)
    (hx : m.xid < 4294967296) :
    Gen.verify.verifyGenAck (msgToGen lm) (doptsToGen lo) xid v (msgToGen m) (doptsToGen o) =
      vstateToGen (verifyGenAck lm.yiaddr lo.serverIdentifier xid.toNat v m o) := by
  have := verifyCommon_eq xid m o hx
  unfold Gen.verify.verifyGenAck verifyGenAck
  rw [this]
  simp only [msgToGen, doptsToGen, ipEqual_optIpToGen]
  by_cases h6 : o.messageType = 6
  · simp [h6, vstateToGen, Id.run, id_pure]
  · by_cases h5 : o.messageType = 5
    · by_cases hy : m.yiaddr = lm.yiaddr
      · by_cases hs : o.serverIdentifier = lo.serverIdentifier
        · simp [h5, hy, hs, vstateToGen, Id.run, id_pure]
        · cases v <;> simp [h5, hy, hs, vstateToGen, Id.run, id_pure]
      · simp [h5, hy, vstateToGen, Id.run, id_pure]
    · simp [h6, h5, vstateToGen, Id.run, id_pure]

theorem VerifySelectingAck_eq (lm : Msg) (lo : DecodedOptions) (xid : UInt32) (m : Msg) (o : DecodedOptions)
    (hx : m.xid < 4294967296) :
    Gen.verify.VerifySelectingAck (msgToGen lm) (doptsToGen lo) xid (msgToGen m) (doptsToGen o) =
      vstateToGen ((Waiting.selectingAck lm.yiaddr lo.serverIdentifier xid.toNat).verify m o) := by
  simpa [Gen.verify.VerifySelectingAck, Waiting.verify, Id.run, id_pure] using verifyGenAck_eq lm lo xid true m o hx

theorem VerifyRenewingAck_eq (lm : Msg) (lo : DecodedOptions) (xid : UInt32) (m : Msg) (o : DecodedOptions)
    (hx : m.xid < 4294967296) :
    Gen.verify.VerifyRenewingAck (msgToGen lm) (doptsToGen lo) xid (msgToGen m) (doptsToGen o) =
      vstateToGen ((Waiting.renewingAck lm.yiaddr lo.serverIdentifier xid.toNat).verify m o) := by
  simpa [Gen.verify.VerifyRenewingAck, Waiting.verify, Id.run, id_pure] using verifyGenAck_eq lm lo xid true m o hx

theorem VerifyRebindingAck_eq (lm : Msg) (lo : DecodedOptions) (xid : UInt32) (m : Msg) (o : DecodedOptions)
    (hx : m.xid < 4294967296) :
    Gen.verify.VerifyRebindingAck (msgToGen lm) (doptsToGen lo) xid (msgToGen m) (doptsToGen o) =
      vstateToGen ((Waiting.rebindingAck lm.yiaddr lo.serverIdentifier xid.toNat).verify m o) := by
  simpa [Gen.verify.VerifyRebindingAck, Waiting.verify, Id.run, id_pure] using verifyGenAck_eq lm lo xid false m o hx

end PsaDhcp.Proofs.CodeVerify
