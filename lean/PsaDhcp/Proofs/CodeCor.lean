import PsaDhcp.Proofs.CodeCsum
import PsaDhcp.Proofs.CodeLayer
import PsaDhcp.Proofs.CodeLayerIp
import PsaDhcp.Proofs.CodeDhcp
import PsaDhcp.Spec.Rfc2131
import PsaDhcp.Proofs.Wire
/-
Corollaries: property statements of C13 transferred from the model to the translated Go code.
-/
namespace PsaDhcp.Proofs.CodeCor
open PsaDhcp PsaDhcp.Go PsaDhcp.Code

theorem liftDec_ne_panic {G M : Type} (toGen : M → G) (r : R M) (site : String)
    (h : r ≠ .error (.panic site)) : liftDec toGen r ≠ .error (.panic site) := by
  cases r with
  | ok m => simp [liftDec]
  | error e =>
    cases e with
    | reject w => simp [liftDec]
    | panic s =>
      simp only [liftDec, ne_eq, Except.error.injEq, Err.panic.injEq] at h ⊢
      exact h

theorem liftDec_ok {G M : Type} (toGen : M → G) (r : R M) (g : G)
    (h : liftDec toGen r = .ok (some g, none)) : ∃ m, r = .ok m ∧ toGen m = g := by
  cases r with
  | ok m =>
    simp only [liftDec, Except.ok.injEq, Prod.mk.injEq, Option.some.injEq, and_true] at h
    exact ⟨m, rfl, h⟩
  | error e =>
    cases e with
    | reject w => simp [liftDec] at h
    | panic s => simp [liftDec] at h

theorem code_decode_udp_never_panics (b : Bytes) (site : String) :
    Gen.layer.DecodeUDP b ≠ .error (.panic site) := by
  rw [CodeLayer.DecodeUDP_eq]
  exact liftDec_ne_panic _ _ _ (Wire.decoders_never_panic b site).2.1

theorem code_decode_arp_never_panics (b : Bytes) (site : String) :
    Gen.layer.DecodeARP b ≠ .error (.panic site) := by
  rw [CodeLayer.DecodeARP_eq]
  exact liftDec_ne_panic _ _ _ (Wire.decoders_never_panic b site).2.2

theorem code_decoder_strict_udp (b : Bytes) (u : Gen.layer.UDP)
    (h : Gen.layer.DecodeUDP b = .ok (some u, none)) :
    be16 (b.drop 4) = b.length ∧ 8 ≤ b.length ∧ u.Data = b.drop 8 := by
  rw [CodeLayer.DecodeUDP_eq] at h
  obtain ⟨m, hm, hg⟩ := liftDec_ok _ _ _ h
  have := Wire.decoder_strict_udp b m hm
  subst hg
  simpa [udpToGen] using this

theorem code_arp_sender_ip_offset (b : Bytes) (p : Gen.layer.ARP)
    (h : Gen.layer.DecodeARP b = .ok (some p, none)) :
    b.length = 28 ∧ ipOf p.SenderIP = Ip4.ofBytes? ((b.drop 14).take 4) ∧ p.SenderMAC = (b.drop 8).take 6 := by
  rw [CodeLayer.DecodeARP_eq] at h
  obtain ⟨m, hm, hg⟩ := liftDec_ok _ _ _ h
  obtain ⟨h1, h2, h3⟩ := Wire.arp_sender_ip_offset b m hm
  subst hg
  refine ⟨h1, ?_, by simpa [arpToGen] using h3⟩
  simp only [arpToGen]
  rw [← h2]
  cases m.senderIP with
  | none => simp [optIpToGen, ipOf, Go.to4, Ip4.ofBytes?]
  | some i => simp [optIpToGen, ipToGen, ipOf, Go.to4, Go.netIPv4, Go.v4InV6Prefix, Ip4.ofBytes?]

theorem code_decode_ip_never_panics (b : Bytes) (site : String) :
    Gen.layer.DecodeIPv4 b ≠ .error (.panic site) := by
  rw [CodeLayerIp.DecodeIPv4_eq]
  exact liftDec_ne_panic _ _ _ (Wire.decoders_never_panic b site).1

theorem code_decoder_strict_ip (b : Bytes) (p : Gen.layer.IPv4)
    (h : Gen.layer.DecodeIPv4 b = .ok (some p, none)) :
    be16 (b.drop 2) = b.length ∧ 20 ≤ b.length ∧
    ∃ b0 ihl, b[0]? = some b0 ∧ b0.toNat / 16 = 4 ∧ ihl = b0.toNat % 16 * 4 ∧ 20 ≤ ihl ∧ ihl ≤ b.length ∧
      p.Data = b.drop ihl := by
  rw [CodeLayerIp.DecodeIPv4_eq] at h
  obtain ⟨m, hm, hg⟩ := liftDec_ok _ _ _ h
  have := Wire.decoder_strict_ip b m hm
  subst hg
  simpa [ipv4ToGen] using this

theorem code_ip_checksum_verifies (h : Gen.layer.IPv4) :
    ∃ p, Gen.layer.IPv4_Assemble h = .ok p ∧ Spec.IpHeaderVerifies p ∧ p.length = 20 + h.Data.length :=
  ⟨_, CodeLayerIp.IPv4_Assemble_eq h, Wire.ip_checksum_verifies _, (Wire.ip_version_ihl_length _).1⟩

theorem code_udp_checksum_verifies (h : Gen.layer.IPv4) (u : Gen.layer.UDP) (d : Bytes)
    (hu : Gen.layer.UDP_Assemble u = .ok d) (hd : h.Data = d) (hp : h.Protocol = 0x11)
    (hl : 20 + 8 + u.Data.length ≤ 65535) :
    ∃ p, Gen.layer.IPv4_Assemble h = .ok p ∧
      Spec.UdpVerifies (optIp (ipOf h.Source)) (optIp (ipOf h.Destination)) h.Protocol (p.drop 20) := by
  refine ⟨_, CodeLayerIp.IPv4_Assemble_eq h, ?_⟩
  rw [CodeLayer.UDP_Assemble_eq] at hu
  have hd' : (ipv4Of h).data = (udpOf u).assemble := by
    simp only [ipv4Of]
    rw [hd]
    exact (Except.ok.inj hu).symm
  exact Wire.udp_checksum_verifies (ipv4Of h) (udpOf u) hd' hp hl

theorem code_dhcp_decode_never_panics (b : Bytes) (site : String) :
    Gen.dhcpmsg.Decode b ≠ .error (.panic site) := by
  rw [CodeDhcp.Decode_eq]
  exact liftDec_ne_panic _ _ _ (Dhcp.decode_never_panics b site)

/-- Acceptance by the translated `Decode` ⇔ the RFC 2131/2132 reading (layout + option grammar). -/
theorem code_dhcp_decode_iff_grammar (b : Bytes) (g : Gen.dhcpmsg.Message) :
    Gen.dhcpmsg.Decode b = .ok (some g, none) ↔
      ∃ m, msgToGen m = g ∧ 240 ≤ b.length ∧ Spec.FixedAt b m ∧ Spec.Area (b.drop 240) m.options := by
  rw [CodeDhcp.Decode_eq]
  constructor
  · intro h
    obtain ⟨m, hm, hg⟩ := liftDec_ok _ _ _ h
    exact ⟨m, hg, (Dhcp.decode_iff_grammar b m).1 hm⟩
  · rintro ⟨m, hg, h⟩
    rw [(Dhcp.decode_iff_grammar b m).2 h]
    simp [liftDec, hg]

end PsaDhcp.Proofs.CodeCor
