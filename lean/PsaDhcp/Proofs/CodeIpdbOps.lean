import PsaDhcp.Code.Bridge4
import PsaDhcp.Proofs.CodeIpdb
import PsaDhcp.Proofs.CodeMisc
import PsaDhcp.Spec.Table
/-
Translated lease-database methods (lib/server/ipdb/ipdb.go) = the model's `IPDB.*` (statements fixed in Props/C11Code.lean).
-/
set_option linter.unusedSimpArgs false
namespace PsaDhcp.Proofs.CodeIpdbOps
open PsaDhcp PsaDhcp.Go PsaDhcp.Code PsaDhcp.Spec

/-! ### Arithmetic: 32-bit values of the code vs. the model's naturals -/

/-- `Ip4.ofNat` only looks at the low 32 bits, so a `uint32` round trip is invisible in the result address. -/
theorem ofNat_mod (a : Nat) : Ip4.ofNat (a % 4294967296) = Ip4.ofNat a := by
  simp only [Ip4.ofNat]
  congr 2 <;> omega

theorem ip_lt (i : Ip4) : i.toNat < 4294967296 := by
  have ha := i.a.toNat_lt; have hb := i.b.toNat_lt; have hc := i.c.toNat_lt; have hd := i.d.toNat_lt
  simp only [Ip4.toNat]; omega

/-- `dynFrom + Uip(v)` in `uint32` arithmetic, for any `int` `v ≥ 0` (no bound on `v`). -/
theorem picked_mod (d v : Nat) :
    (d + (Go.u32OfInt (v : Int)).toNat) % 4294967296 = (d + v) % 4294967296 := by
  have h : ((v : Int) % 4294967296).toNat = v % 4294967296 := by omega
  simp only [Go.u32OfInt, UInt32.toNat_ofNat', h]
  omega

/-- The model's `toUip` fails with one of two errors (to which `toUipToGen` gives the Go error value and the zero
address), or returns a 32-bit value. -/
theorem toUip_cases {σ : Type} (db : IPDB σ) (o : Option Ip4) :
    (∃ e msg, db.toUip o = .error e ∧ toUipToGen (.error e) = (0, some msg) ∧ dbErrToGen e = some msg) ∨
      ∃ n, db.toUip o = .ok n ∧ n < 4294967296 := by
  cases o with
  | none => left; exact ⟨_, _, rfl, rfl, rfl⟩
  | some i =>
    simp only [IPDB.toUip]
    split
    · left; exact ⟨_, _, rfl, rfl, rfl⟩
    · right; exact ⟨_, rfl, ip_lt i⟩

/-! ### The monad: `StateT (DState σ) (Except Err)` -/

theorem lift_ok {σ α : Type} (a : α) :
    (liftM (Except.ok a : R α) : StateT σ R α) = fun st => .ok (a, st) := rfl

theorem sbind_ok {σ α β : Type} (x : StateT σ R α) (f : α → StateT σ R β) (st : σ) (a : α) (st' : σ)
    (h : x st = .ok (a, st')) : StateT.bind x f st = f a st' := by
  simp [StateT.bind, bind, Except.bind, h]

section env
variable {σ : Type} (S : Store σ) (nowAt : Nat → Int) (cancelAt : Nat → Bool)
theorem env_Now : (dbEnv S nowAt cancelAt).Now = fun st => .ok (nowAt st.nows, { st with nows := st.nows + 1 }) := rfl
theorem env_CtxErr : (dbEnv S nowAt cancelAt).CtxErr =
    fun st => .ok (if cancelAt st.ctxs then some "context canceled" else none, { st with ctxs := st.ctxs + 1 }) := rfl
theorem env_Lookup : (dbEnv S nowAt cancelAt).ClientsLookup = fun now ip duid st =>
    .ok (refsOf (S.lookup st.s now ip.toNat duid).2, { st with s := (S.lookup st.s now ip.toNat duid).1 }) := rfl
theorem env_SetLease : (dbEnv S nowAt cancelAt).ClientsSetLease = fun now ip duid exp st =>
    .ok (resToGen (S.setLease st.s now ip.toNat duid exp).2,
      { st with s := (S.setLease st.s now ip.toNat duid exp).1 }) := rfl
theorem env_Inject : (dbEnv S nowAt cancelAt).ClientsInject = fun now ip duid exp st =>
    .ok (resToGen (S.inject st.s now ip.toNat duid exp false).2,
      { st with s := (S.inject st.s now ip.toNat duid exp false).1 }) := rfl
theorem env_InjectPermanent : (dbEnv S nowAt cancelAt).ClientsInjectPermanent = fun now ip duid st =>
    .ok (resToGen (S.inject st.s now ip.toNat duid 0 true).2,
      { st with s := (S.inject st.s now ip.toNat duid 0 true).1 }) := rfl
end env

/-! ### Error values -/

theorem resToGen_ok : resToGen .ok = none := rfl

theorem resToGen_eq_none (r : Clients.Res) : resToGen r = none ↔ r = .ok := by
  cases r <;> simp [resToGen]

theorem resToGen_isSome (r : Clients.Res) : (resToGen r).isSome = true ↔ r ≠ .ok := by
  cases r <;> simp [resToGen]

theorem unit_store (r : Clients.Res) :
    unitResToGen' (if r = .ok then .ok () else .error (.store r)) = resToGen r := by
  cases r <;> rfl

/-! ### `LookupClientByDuid` -/

theorem LookupClientByDuid_eq {σ : Type} (S : Store σ) (nowAt : Nat → Int) (cancelAt : Nat → Bool)
    (ix : Gen.ipdb.IPDB) (db : IPDB σ) (duid : Bytes) (k c : Nat) (_hix : IxOf ix db) :
    (Gen.ipdb.IPDB_LookupClientByDuid (dbEnv S nowAt cancelAt) ix duid).run { s := db.s, nows := k, ctxs := c } =
      .ok (addrResToGen (db.lookupByDuid S (nowAt k) duid).2,
           { s := (db.lookupByDuid S (nowAt k) duid).1.s, nows := k + 1, ctxs := c }) := by
  unfold Gen.ipdb.IPDB_LookupClientByDuid IPDB.lookupByDuid
  have h0 : UInt32.toNat 0 = 0 := rfl
  simp only [StateT.run, bind, StateT.bind, Except.bind, env_Now, env_Lookup, h0, refsOf]
  generalize S.lookup db.s (nowAt k) 0 duid = r
  rcases r with ⟨s', bi, bd, sm, ie⟩
  cases bd with
  | none => rfl
  | some a =>
    simp [refUip, lift_ok, StateT.bind, StateT.pure, bind, Except.bind, addrResToGen, CodeMisc.Uip_ToV4_eq, ofNat_mod,
      pure, Except.pure]

/-! ### `AddPermanentClient` -/

theorem AddPermanentClient_eq {σ : Type} (S : Store σ) (nowAt : Nat → Int) (cancelAt : Nat → Bool)
    (ix : Gen.ipdb.IPDB) (db : IPDB σ) (ip duid : Bytes) (k c : Nat) (hix : IxOf ix db) :
    ∃ k', (Gen.ipdb.IPDB_AddPermanentClient (dbEnv S nowAt cancelAt) ix ip duid).run { s := db.s, nows := k, ctxs := c } =
      .ok (unitResToGen' (db.addPermanent S (nowAt k) (ipOf ip) duid).2,
           { s := (db.addPermanent S (nowAt k) (ipOf ip) duid).1.s, nows := k', ctxs := c }) := by
  unfold Gen.ipdb.IPDB_AddPermanentClient
  rw [CodeIpdb.toUip_eq ix db ip hix.1 hix.2.1, IPDB.addPermanent]
  rcases toUip_cases db (ipOf ip) with ⟨e, msg, h, hm, he⟩ | ⟨n, h, hn⟩
  · refine ⟨k, ?_⟩
    rw [h, hm]
    simp [StateT.run, bind, StateT.bind, Except.bind, lift_ok, pure, Except.pure, StateT.pure, unitResToGen', he]
  · refine ⟨k + 1, ?_⟩
    rw [h]
    simp [StateT.run, bind, StateT.bind, Except.bind, lift_ok, pure, Except.pure, StateT.pure, toUipToGen, env_Now,
      env_InjectPermanent, Nat.mod_eq_of_lt hn, unit_store]

/-! ### `UpdateClient` -/

/-- The three table calls that end `UpdateClient`, once the lease time is fixed. -/
macro "utail" S:term:max s':term:max nowAt:term:max k:term:max n:term:max duid:term:max : tactic => `(tactic| (
      generalize ($S).setLease $s' ($nowAt $k) $n $duid _ = r1
      rcases r1 with ⟨s1, res1⟩
      by_cases h1 : res1 = .ok
      · subst h1; simp [bind, Except.bind, resToGen_ok, unitResToGen', StateT.pure, pure, Except.pure]
      · simp [bind, Except.bind, StateT.bind, h1, resToGen_eq_none]
        generalize ($S).inject s1 ($nowAt $k) $n $duid _ false = r2
        rcases r2 with ⟨s2, res2⟩
        by_cases h2 : res2 = .ok
        · subst h2
          simp [resToGen_ok, StateT.bind, StateT.pure, unit_store, pure, Except.pure]
        · simp [h2, resToGen_isSome, StateT.bind, StateT.pure, unitResToGen', dbErrToGen, pure, Except.pure]))

theorem UpdateClient_eq {σ : Type} (S : Store σ) (hS : StoreWf S) (nowAt : Nat → Int) (cancelAt : Nat → Bool)
    (ix : Gen.ipdb.IPDB) (db : IPDB σ) (ip duid : Bytes) (ttl : Int) (k c : Nat) (hix : IxOf ix db) :
    ∃ k', (Gen.ipdb.IPDB_UpdateClient (dbEnv S nowAt cancelAt) ix ip duid ttl).run { s := db.s, nows := k, ctxs := c } =
      .ok (unitResToGen' (db.updateClient S (nowAt k) (ipOf ip) duid ttl).2,
           { s := (db.updateClient S (nowAt k) (ipOf ip) duid ttl).1.s, nows := k', ctxs := c }) := by
  unfold Gen.ipdb.IPDB_UpdateClient
  rw [CodeIpdb.toUip_eq ix db ip hix.1 hix.2.1, IPDB.updateClient]
  rcases toUip_cases db (ipOf ip) with ⟨e, msg, h, hm, he⟩ | ⟨n, h, hn⟩
  · refine ⟨k, ?_⟩
    rw [h, hm]
    simp [StateT.run, bind, StateT.bind, Except.bind, lift_ok, pure, Except.pure, StateT.pure, unitResToGen', he]
  · refine ⟨k + 1, ?_⟩
    rw [h]
    have hl := hS db.s (nowAt k) n duid
    simp [StateT.run, bind, StateT.bind, Except.bind, env_Now, env_Lookup, env_SetLease, env_Inject, refsOf, lift_ok,
      toUipToGen, pure, Except.pure, StateT.pure, UInt32.toNat_ofNat', Nat.mod_eq_of_lt hn, -Option.isNone_map,
      -Option.isSome_map]
    generalize S.lookup db.s (nowAt k) n duid = r at hl ⊢
    rcases r with ⟨s', bi, bd, sm, ie⟩
    simp only [LookupWf] at hl
    rcases bi with _ | bi <;> rcases bd with _ | bd <;> rcases sm with _ | _ <;> rcases ie with _ | ie <;>
      simp at hl <;>
      simp [refEq, refLeasedUntil, lift_ok, StateT.bind, StateT.pure, Except.bind, pure, Except.pure]
    all_goals first
      | (by_cases hlt : nowAt k + ttl < ie
         all_goals simp [hlt, StateT.bind, bind, Except.bind]
         all_goals utail S s' nowAt k n duid)
      | utail S s' nowAt k n duid

/-! ### `FindIP` -/

/-- Result of the translated candidate loop for the model's. -/
def loopOutToGen : Option Nat → LoopOut Unit (Bytes × GoErr)
  | some a => .ret (ipToGen (Ip4.ofNat a), none)
  | none => .done ()

/-- The candidate loop.  At the start of the iteration with index `i` the state has seen `i` context checks and
`i + 1` clock readings (one by the `Lookup` before the loop); the Go loop index `j` is not used. -/
theorem loop_eq {σ : Type} (S : Store σ) (ix : Gen.ipdb.IPDB) (dynFrom : Nat) (hd : dynFrom = ix.dynFrom.toNat)
    (orc : Nat → IPDB.Iter) (nowAt : Nat → Int) (hnow : ∀ i, nowAt (i + 1) = (orc i).now) (vs : List Nat) :
    ∀ (i : Nat) (j : Int) (s : σ),
    ∃ st, Gen.ipdb.IPDB_FindIP.loop1 (dbEnv S nowAt (fun i => (orc i).cancelled)) ix (isFreeOf orc)
          (vs.map Int.ofNat) j () { s := s, nows := i + 1, ctxs := i } =
        .ok (loopOutToGen (IPDB.findLoop S dynFrom vs orc i s).2, st)
      ∧ st.s = (IPDB.findLoop S dynFrom vs orc i s).1 := by
  induction vs with
  | nil => intro i j s; exact ⟨_, rfl, rfl⟩
  | cons v rest ih =>
    intro i j s
    simp only [List.map_cons, Gen.ipdb.IPDB_FindIP.loop1, IPDB.findLoop]
    by_cases hc : (orc i).cancelled = true
    · simp [bind, StateT.bind, Except.bind, env_CtxErr, pure, Except.pure, StateT.pure, hc, loopOutToGen]
    · simp [bind, StateT.bind, Except.bind, env_CtxErr, env_Now, env_Lookup, pure, Except.pure, StateT.pure, hc, hnow,
        picked_mod, ← hd, CodeMisc.Uip_Valid_eq, CodeMisc.Uip_ToV4_eq, refsOf, -Option.isNone_map, -Option.isSome_map]
      generalize (dynFrom + v) % 4294967296 = picked
      generalize S.lookup s (orc i).now picked [] = r
      rcases r with ⟨s', bi, bd, sm, ie⟩
      by_cases h1 : bi = none ∧ IPDB.validUip picked = true
      · by_cases h2 : (orc i).free = true
        · simp [h1, h2, isFreeOf, StateT.pure, loopOutToGen, pure, Except.pure]
        · simp [h1, h2, isFreeOf]
          exact ih (i + 1) (j + 1) s'
      · simp [h1, StateT.pure]
        exact ih (i + 1) (j + 1) s'

/-- After the loop: `LoopOut.ret` returns, `LoopOut.done` is "no free ip found". -/
macro "ffin" hloop:term:max vs:term:max s':term:max : tactic => `(tactic| (
      obtain ⟨st, e1, e2⟩ := $hloop $vs 0 0 $s'
      refine ⟨st, ?_, e2⟩
      rw [sbind_ok _ _ _ _ _ e1]
      cases (IPDB.findLoop _ _ $vs _ 0 $s').2 <;> rfl))

theorem FindIP_eq {σ : Type} (S : Store σ) (_hS : StoreWf S) (ix : Gen.ipdb.IPDB) (db : IPDB σ) (ip duid : Bytes)
    (perm : List Nat) (orc : Nat → IPDB.Iter) (now : Int) (hix : IxOf ix db) :
    ∃ st, (Gen.ipdb.IPDB_FindIP (dbEnv S (fun j => if j = 0 then now else (orc (j - 1)).now) (fun i => (orc i).cancelled))
              ix (isFreeOf orc) ip duid (perm.map Int.ofNat)).run { s := db.s, nows := 0, ctxs := 0 } =
        .ok (addrResToGen (db.findIP S now (ipOf ip) duid perm orc).2, st)
      ∧ st.s = (db.findIP S now (ipOf ip) duid perm orc).1.s := by
  unfold Gen.ipdb.IPDB_FindIP IPDB.findIP
  rw [CodeIpdb.toUip_eq ix db ip hix.1 hix.2.1]
  have hloop := loop_eq S ix db.dynFrom hix.2.2.1 orc (fun j => if j = 0 then now else (orc (j - 1)).now)
    (by intro i; simp)
  obtain ⟨-, -, hdf, hdt⟩ := hix
  have hdis : (db.dynTo = 0 ∧ db.dynFrom = 0) ↔ (ix.dynTo = 0 ∧ ix.dynFrom = 0) := by
    rw [hdf, hdt, ← UInt32.toNat_inj, ← UInt32.toNat_inj]; rfl
  rcases toUip_cases db (ipOf ip) with ⟨e, msg, h, hm, -⟩ | ⟨n, h, hn⟩
  · -- no usable suggestion: the first `Lookup` is for address 0
    rw [h, hm]
    simp [StateT.run, bind, StateT.bind, Except.bind, env_Now, env_Lookup, pure, Except.pure, StateT.pure, lift_ok,
      refsOf, -Option.isNone_map, -Option.isSome_map]
    generalize S.lookup db.s now 0 duid = r
    rcases r with ⟨s', bi, bd, sm, ie⟩
    rcases bd with _ | bd
    · have hsug : (bi = none ∧ db.dynFrom = 0) ↔ (bi = none ∧ ix.dynFrom = 0) := by
        rw [hdf, ← UInt32.toNat_inj]; rfl
      simp only [Option.map_none, Option.isSome_none, Bool.false_eq_true, if_false, hdis, hsug]
      by_cases h1 : ix.dynTo = 0 ∧ ix.dynFrom = 0
      · simp only [h1, and_self, if_true]
        exact ⟨_, rfl, rfl⟩
      · simp only [h1, if_false]
        by_cases h2 : bi = none ∧ ix.dynFrom = 0
        · simp only [h2, and_self, if_true]
          have e : (((UInt32.size - (0 : UInt32).toNat : Nat) : Int) % 4294967296) :: List.map Int.ofNat perm
              = List.map Int.ofNat (0 :: perm) := rfl
          rw [e]
          ffin hloop (0 :: perm) s'
        · simp only [h2, if_false]
          ffin hloop perm s'
    · simp [refUip, lift_ok, StateT.bind, StateT.pure, bind, Except.bind, addrResToGen, CodeMisc.Uip_ToV4_eq, ofNat_mod,
        pure, Except.pure]
  · rw [h]
    simp [StateT.run, bind, StateT.bind, Except.bind, env_Now, env_Lookup, pure, Except.pure, StateT.pure, lift_ok,
      toUipToGen, Nat.mod_eq_of_lt hn, refsOf, -Option.isNone_map, -Option.isSome_map]
    generalize S.lookup db.s now n duid = r
    rcases r with ⟨s', bi, bd, sm, ie⟩
    rcases bd with _ | bd
    · have hsug : (bi = none ∧ db.dynFrom ≤ n ∧ n ≤ db.dynTo) ↔
          ((bi = none ∧ ix.dynFrom ≤ UInt32.ofNat n) ∧ UInt32.ofNat n ≤ ix.dynTo) := by
        rw [hdf, hdt, UInt32.le_iff_toNat_le, UInt32.le_iff_toNat_le, UInt32.toNat_ofNat', Nat.mod_eq_of_lt hn,
          and_assoc]
      simp only [Option.map_none, Option.isSome_none, Bool.false_eq_true, if_false, hdis, hsug]
      by_cases h1 : ix.dynTo = 0 ∧ ix.dynFrom = 0
      · simp only [h1, and_self, if_true]
        exact ⟨_, rfl, rfl⟩
      · simp only [h1, if_false]
        by_cases h2 : (bi = none ∧ ix.dynFrom ≤ UInt32.ofNat n) ∧ UInt32.ofNat n ≤ ix.dynTo
        · simp only [h2, and_self, if_true]
          have e : ((UInt32.ofNat n - ix.dynFrom).toNat : Int) :: List.map Int.ofNat perm
              = List.map Int.ofNat ((n - db.dynFrom) :: perm) := by
            rw [List.map_cons, UInt32.toNat_sub_of_le _ _ h2.1.2, UInt32.toNat_ofNat', Nat.mod_eq_of_lt hn, hdf]; rfl
          rw [e]
          ffin hloop ((n - db.dynFrom) :: perm) s'
        · simp only [h2, if_false]
          ffin hloop perm s'
    · simp [refUip, lift_ok, StateT.bind, StateT.pure, bind, Except.bind, addrResToGen, CodeMisc.Uip_ToV4_eq, ofNat_mod,
        pure, Except.pure]

/-! ### `SetDynamicRange`, `DisableDynamic` -/

theorem SetDynamicRange_eq {σ : Type} (ix : Gen.ipdb.IPDB) (db : IPDB σ) (b e : Bytes) (hix : IxOf ix db) :
    ∃ ix', Gen.ipdb.IPDB_SetDynamicRange ix b e = .ok (unitResToGen' (db.setDynamicRange (ipOf b) (ipOf e)).2, ix')
      ∧ IxOf ix' (db.setDynamicRange (ipOf b) (ipOf e)).1 := by
  unfold Gen.ipdb.IPDB_SetDynamicRange IPDB.setDynamicRange
  simp only [CodeIpdb.toUip_eq ix db _ hix.1 hix.2.1]
  rcases toUip_cases db (ipOf b) with ⟨eb, msg, h, hm, he⟩ | ⟨bb, h, hbb⟩
  · rw [h, hm]
    exact ⟨ix, by simp [bind, Except.bind, pure, Except.pure, unitResToGen', he], hix⟩
  · rw [h]
    rcases toUip_cases db (ipOf e) with ⟨ee, msg, h', hm, he⟩ | ⟨ee, h', hee⟩
    · rw [h', hm]
      exact ⟨ix, by simp [bind, Except.bind, pure, Except.pure, unitResToGen', he, toUipToGen], hix⟩
    · rw [h']
      have hgt : UInt32.ofNat bb > UInt32.ofNat ee ↔ bb > ee := by
        rw [GT.gt, UInt32.lt_iff_toNat_lt, UInt32.toNat_ofNat', UInt32.toNat_ofNat', Nat.mod_eq_of_lt hbb,
          Nat.mod_eq_of_lt hee]
      by_cases hc : bb > ee
      · exact ⟨ix, by simp [bind, Except.bind, pure, Except.pure, unitResToGen', dbErrToGen, toUipToGen, hgt, hc],
          by simp only [if_pos hc]; exact hix⟩
      · refine ⟨{ ix with dynFrom := UInt32.ofNat bb, dynTo := UInt32.ofNat ee }, ?_, ?_⟩
        · simp [bind, Except.bind, pure, Except.pure, unitResToGen', toUipToGen, hgt, hc]
        · simp only [if_neg hc]
          refine ⟨hix.1, hix.2.1, ?_, ?_⟩
          · simp only [UInt32.toNat_ofNat']; exact (Nat.mod_eq_of_lt hbb).symm
          · simp only [UInt32.toNat_ofNat']; exact (Nat.mod_eq_of_lt hee).symm

theorem DisableDynamic_eq {σ : Type} (ix : Gen.ipdb.IPDB) (db : IPDB σ) (hix : IxOf ix db) :
    IxOf (Gen.ipdb.IPDB_DisableDynamic ix) db.disableDynamic :=
  ⟨hix.1, hix.2.1, rfl, rfl⟩

/-! ### The two stores meet `StoreWf` -/

theorem look1_ents (c : Clients) (now : Int) (k : Key) : (c.look1 now k).1.ents = c.ents := by
  unfold Clients.look1
  split
  · rfl
  · split
    · rfl
    · split <;> rfl

theorem look1_some (c : Clients) (now : Int) (k : Key) (p : Nat) (h : (c.look1 now k).2 = some p) :
    (c.ents[p]?).isSome = true := by
  unfold Clients.look1 at h
  split at h
  · cases h
  · split at h
    · cases h
    · rename_i e he
      split at h
      · cases h; rw [he]; rfl
      · cases h

theorem clientsStore_wf : StoreWf clientsStore := by
  intro c t n d
  simp only [clientsStore, Clients.lookupRes, Clients.lookup, LookupWf, Clients.ipOf]
  generalize h1 : c.look1 t (.ip n) = r1
  generalize h2 : r1.1.look1 t (.duid d) = r2
  have e1 : r2.1.ents = c.ents := by rw [← h2, look1_ents, ← h1, look1_ents]
  have k1 : ∀ p, r1.2 = some p → (r2.1.ents[p]?).isSome = true := by
    intro p hp; rw [e1]; rw [← h1] at hp; exact look1_some c t _ p hp
  have k2 : ∀ p, r2.2 = some p → (r2.1.ents[p]?).isSome = true := by
    intro p hp; rw [e1, ← look1_ents c t (.ip n), h1]; rw [← h2] at hp; exact look1_some r1.1 t _ p hp
  rcases r1 with ⟨c1, _ | p1⟩ <;> rcases r2 with ⟨c2, _ | p2⟩ <;> simp at k1 k2 ⊢
  exact fun _ => ⟨k1, k2⟩

theorem tableStore_wf : StoreWf tableStore := by
  intro T t n d
  simp only [tableStore, Table.lookupRes, LookupWf]
  rcases T.liveIp t n with _ | x <;> rcases T.liveDuid t d with _ | y <;> simp

end PsaDhcp.Proofs.CodeIpdbOps
