import PsaDhcp.Code.Bridge
import PsaDhcp.Proofs.Dhcp
/-
Lemmas about the Go prelude primitives (`Go.idx`, `Go.slice`, `Go.copyAt`, `Go.putU32`, ...) used by
`Proofs/CodeDhcp.lean`.  Every lemma is stated for an arbitrary `site`.
-/
namespace PsaDhcp.Proofs.CodeDhcpAux
open PsaDhcp PsaDhcp.Go PsaDhcp.Code PsaDhcp.Proofs.Dhcp

/-- Deliberately not proved by `rfl`: as a `dsimp` lemma it leaves the kernel to re-check the whole
unfolded function body by definitional unfolding, which times out on `Message_Assemble`. -/
theorem ok_bind {α β : Type} (a : α) (f : α → R β) : (Except.ok a >>= f) = f a := by
  cases h : f a <;> simp only [bind, Except.bind, h]

theorem pure_ok {α : Type} (a : α) : (pure a : R α) = Except.ok a := by
  simp only [pure, Except.pure]

/-! ### fixed-width integers -/

theorem u32_of_bytes (a b c d : UInt8) :
    ((a.toUInt32 <<< 24) ||| (b.toUInt32 <<< 16) ||| (c.toUInt32 <<< 8) ||| d.toUInt32)
      = UInt32.ofNat (a.toNat * 16777216 + b.toNat * 65536 + c.toNat * 256 + d.toNat) := by
  apply UInt32.toNat_inj.1
  have ha := a.toNat_lt
  have hb := b.toNat_lt
  have hc := c.toNat_lt
  have hd := d.toNat_lt
  simp only [UInt32.toNat_or, UInt32.toNat_shiftLeft, UInt8.toNat_toUInt32, UInt32.toNat_ofNat']
  have e : a.toNat * 16777216 + b.toNat * 65536 + c.toNat * 256 + d.toNat
      = ((a.toNat <<< 8 + b.toNat) <<< 8 + c.toNat) <<< 8 + d.toNat := by
    simp only [Nat.shiftLeft_eq]; omega
  rw [e, Nat.shiftLeft_add_eq_or_of_lt (by omega), Nat.shiftLeft_add_eq_or_of_lt (by omega),
    Nat.shiftLeft_add_eq_or_of_lt (by omega)]
  simp only [Nat.shiftLeft_or_distrib, ← Nat.shiftLeft_add]
  have h24 : UInt32.toNat 24 % 32 = 24 := by decide
  have h16 : UInt32.toNat 16 % 32 = 16 := by decide
  have h8 : UInt32.toNat 8 % 32 = 8 := by decide
  have la : a.toNat <<< 24 < 2 ^ 32 := by simp only [Nat.shiftLeft_eq]; omega
  have lb : b.toNat <<< 16 < 2 ^ 32 := by simp only [Nat.shiftLeft_eq]; omega
  have lc : c.toNat <<< 8 < 2 ^ 32 := by simp only [Nat.shiftLeft_eq]; omega
  have ld : d.toNat < 2 ^ 32 := by omega
  rw [h24, h16, h8, Nat.mod_eq_of_lt la, Nat.mod_eq_of_lt lb, Nat.mod_eq_of_lt lc,
    Nat.mod_eq_of_lt (Nat.or_lt_two_pow (Nat.or_lt_two_pow (Nat.or_lt_two_pow la lb) lc) ld)]

theorem u16_of_bytes (a b : UInt8) :
    ((a.toUInt16 <<< 8) ||| b.toUInt16) = UInt16.ofNat (a.toNat * 256 + b.toNat) := by
  apply UInt16.toNat_inj.1
  have ha := a.toNat_lt
  have hb := b.toNat_lt
  simp only [UInt16.toNat_or, UInt16.toNat_shiftLeft, UInt8.toNat_toUInt16, UInt16.toNat_ofNat']
  have e : a.toNat * 256 + b.toNat = a.toNat <<< 8 + b.toNat := by
    simp only [Nat.shiftLeft_eq] <;> omega
  have h8 : UInt16.toNat 8 % 16 = 8 := by decide
  have la : a.toNat <<< 8 < 2 ^ 16 := by simp only [Nat.shiftLeft_eq]; omega
  have lb : b.toNat < 2 ^ 16 := by omega
  rw [e, Nat.shiftLeft_add_eq_or_of_lt (by omega), h8, Nat.mod_eq_of_lt la]
  exact (Nat.mod_eq_of_lt (Nat.or_lt_two_pow la lb)).symm

theorem u32Bytes_eq (v : UInt32) : u32Bytes v = put32 v.toNat := by
  have h24 : UInt32.toNat 24 % 32 = 24 := by decide
  have h16 : UInt32.toNat 16 % 32 = 16 := by decide
  have h8 : UInt32.toNat 8 % 32 = 8 := by decide
  have e : ∀ (x : UInt32) (n : Nat), x.toNat % 256 = n % 256 → x.toUInt8 = UInt8.ofNat n := by
    intro x n h
    apply UInt8.toNat_inj.1
    simp only [UInt32.toNat_toUInt8, UInt8.toNat_ofNat']
    exact h
  simp only [u32Bytes, put32]
  rw [e _ (v.toNat / 16777216 % 256), e _ (v.toNat / 65536 % 256), e _ (v.toNat / 256 % 256), e v (v.toNat % 256)]
  all_goals first | omega | (simp only [UInt32.toNat_shiftRight, h24, h16, h8, Nat.shiftRight_eq_div_pow]; omega)

theorem u16Bytes_eq (v : UInt16) : u16Bytes v = put16 v.toNat := by
  have h8 : UInt16.toNat 8 % 16 = 8 := by decide
  have e : ∀ (x : UInt16) (n : Nat), x.toNat % 256 = n % 256 → x.toUInt8 = UInt8.ofNat n := by
    intro x n h
    apply UInt8.toNat_inj.1
    simp only [UInt16.toNat_toUInt8, UInt8.toNat_ofNat']
    exact h
  simp only [u16Bytes, put16]
  rw [e _ (v.toNat / 256 % 256), e v (v.toNat % 256)]
  all_goals first | omega | (simp only [UInt16.toNat_shiftRight, h8, Nat.shiftRight_eq_div_pow]; omega)

theorem u8OfInt_nat (n : Nat) : u8OfInt (Int.ofNat n) = UInt8.ofNat (n % 256) := by
  simp only [u8OfInt, Int.ofNat_eq_natCast]
  have : ((n : Int) % 256).toNat = n % 256 := by omega
  rw [this]

theorem u8OfInt_cast (n : Nat) : u8OfInt (n : Int) = UInt8.ofNat (n % 256) := u8OfInt_nat n

/-! ### reads -/

theorem idx_int (b : Bytes) (k : Int) (site : String) (h0 : 0 ≤ k) (h : k.toNat < b.length) :
    Go.idx b k site = .ok (g b k.toNat) := by
  have : ¬ (k < 0) := by omega
  simp only [Go.idx, if_neg this, getElem?_g h]
  rfl

theorem slice_int {α : Type} (b : List α) (lo hi : Int) (site : String)
    (h0 : 0 ≤ lo) (h1 : lo ≤ hi) (h2 : hi.toNat ≤ b.length) :
    Go.slice b lo hi site = .ok ((b.drop lo.toNat).take (hi.toNat - lo.toNat)) := by
  have : 0 ≤ lo ∧ lo ≤ hi ∧ hi ≤ (b.length : Int) := by omega
  simp only [Go.slice, if_pos this, List.drop_take]
  rfl

theorem slice_end {α : Type} (b : List α) (lo : Int) (site : String)
    (h0 : 0 ≤ lo) (h1 : lo.toNat ≤ b.length) :
    Go.slice b lo (Int.ofNat b.length) site = .ok (b.drop lo.toNat) := by
  have : 0 ≤ lo ∧ lo ≤ (b.length : Int) ∧ (b.length : Int) ≤ (b.length : Int) := by omega
  simp only [Go.slice, Int.ofNat_eq_natCast, if_pos this, Int.toNat_natCast, List.take_length]
  rfl

theorem sliceFrom_int {α : Type} (b : List α) (lo : Int) (site : String)
    (h0 : 0 ≤ lo) (h1 : lo.toNat ≤ b.length) :
    Go.sliceFrom b lo site = .ok (b.drop lo.toNat) := by
  simp only [Go.sliceFrom]
  exact slice_end b lo site h0 h1

theorem beU32_eq (x : Bytes) (site : String) (h : 4 ≤ x.length) :
    Go.beU32 x site = .ok (UInt32.ofNat (be32 x)) := by
  match x, h with
  | a :: b :: c :: d :: _, _ => simp only [Go.beU32, be32, u32_of_bytes]; rfl

theorem beU16_eq (x : Bytes) (site : String) (h : 2 ≤ x.length) :
    Go.beU16 x site = .ok (UInt16.ofNat (be16 x)) := by
  match x, h with
  | a :: b :: _, _ => simp only [Go.beU16, be16, u16_of_bytes]; rfl

/-! ### writes -/

theorem makeList_int {α : Type} (z : α) (n : Int) (site : String) (h : 0 ≤ n) :
    Go.makeList z n site = .ok (List.replicate n.toNat z) := by
  have : ¬ (n < 0) := by omega
  simp only [Go.makeList, if_neg this]
  rfl

theorem setIdx_int {α : Type} (b : List α) (k : Int) (v : α) (site : String)
    (h0 : 0 ≤ k) (h : k.toNat < b.length) :
    Go.setIdx b k v site = .ok (b.set k.toNat v) := by
  have : 0 ≤ k ∧ k < (b.length : Int) := by omega
  simp only [Go.setIdx, if_pos this]
  rfl

theorem copyAt_int {α : Type} (b : List α) (lo hi : Int) (src : List α) (site : String)
    (h0 : 0 ≤ lo) (h1 : lo ≤ hi) (h2 : hi.toNat ≤ b.length) :
    Go.copyAt b lo hi src site = .ok (overwrite b lo.toNat (src.take (hi.toNat - lo.toNat))) := by
  have : 0 ≤ lo ∧ lo ≤ hi ∧ hi ≤ (b.length : Int) := by omega
  have e : (hi - lo).toNat = hi.toNat - lo.toNat := by omega
  simp only [Go.copyAt, if_pos this, e]
  rfl

/-- `copy(dst[0:len(dst)], src)` into a zeroed destination. -/
theorem copyAt_replicate (n : Nat) (src : Bytes) (site : String) :
    Go.copyAt (List.replicate n (0 : UInt8)) 0 (((List.replicate n (0 : UInt8)).length : Nat) : Int) src site
      = .ok (copyInto n src) := by
  rw [copyAt_int _ _ _ _ _ (by omega) (by omega) (by simp only [Int.toNat_natCast]; omega)]
  simp only [Int.toNat_natCast, List.length_replicate, Int.toNat_zero, Nat.sub_zero,
    overwrite, copyInto, List.take_zero, List.nil_append, List.drop_replicate, List.length_take, Nat.zero_add]
  have : n - min n src.length = n - src.length := by omega
  rw [this]

/-! ### a buffer filled from the left: `pre ++ zeros` -/

theorem overwrite_fill (pre data : Bytes) (n : Nat) (_h : data.length ≤ n) :
    overwrite (pre ++ List.replicate n (0 : UInt8)) pre.length data
      = (pre ++ data) ++ List.replicate (n - data.length) 0 := by
  have e : List.drop (pre.length + data.length) pre = [] := List.drop_of_length_le (by omega)
  simp only [overwrite, List.take_left', List.drop_append, List.drop_replicate, e, List.nil_append,
    Nat.add_sub_cancel_left]

theorem setIdx_fill (pre : Bytes) (n : Nat) (k : Int) (v : UInt8) (site : String)
    (hk : k = (pre.length : Int)) (hn : 0 < n) :
    Go.setIdx (pre ++ List.replicate n (0 : UInt8)) k v site
      = .ok ((pre ++ [v]) ++ List.replicate (n - 1) 0) := by
  subst hk
  rw [setIdx_int _ _ _ _ (by omega) (by simp only [Int.toNat_natCast, List.length_append, List.length_replicate]; omega)]
  simp only [Int.toNat_natCast]
  rw [List.set_append_right _ _ (Nat.le_refl _), Nat.sub_self]
  cases n with
  | zero => omega
  | succ n => simp only [List.replicate_succ, List.set_cons_zero, Nat.add_sub_cancel, List.append_assoc,
      List.singleton_append]

theorem slice_fill (pre rest : Bytes) (k : Int) (site : String) (hk : k = (pre.length : Int)) :
    Go.slice (pre ++ rest) k (((pre ++ rest).length : Nat) : Int) site = .ok rest := by
  subst hk
  have := slice_end (pre ++ rest) (pre.length : Int) site (by omega)
    (by simp only [Int.toNat_natCast, List.length_append]; omega)
  rw [Int.ofNat_eq_natCast] at this
  rw [this]
  simp only [Int.toNat_natCast, List.drop_left]

theorem writeBack_fill (pre rest data tail : Bytes) (k : Int) (hk : k = (pre.length : Int))
    (hs : (data ++ tail).length = rest.length) :
    Go.writeBack (pre ++ rest) k (data ++ tail) = (pre ++ data) ++ tail := by
  subst hk
  have e : List.drop (pre.length + (data ++ tail).length) pre = [] := List.drop_of_length_le (by omega)
  have e' : List.drop (pre.length + (data ++ tail).length - pre.length) rest = [] :=
    List.drop_of_length_le (by omega)
  simp only [Go.writeBack, overwrite, Int.toNat_natCast, List.take_left', List.drop_append, e, e',
    List.append_nil, List.append_assoc]

theorem copyAt_fill (pre : Bytes) (n w : Nat) (lo hi : Int) (src : Bytes) (site : String)
    (hk : lo = (pre.length : Int)) (hhi : hi = lo + (w : Int)) (hn : w ≤ n) :
    Go.copyAt (pre ++ List.replicate n (0 : UInt8)) lo hi src site
      = .ok ((pre ++ copyInto w src) ++ List.replicate (n - w) 0) := by
  subst hk hhi
  rw [copyAt_int _ _ _ _ _ (by omega) (by omega)
    (by simp only [List.length_append, List.length_replicate]; omega)]
  have e1 : ((pre.length : Int) + (w : Int)).toNat - ((pre.length : Nat) : Int).toNat = w := by omega
  rw [e1, Int.toNat_natCast, overwrite_fill _ _ _ (by simp only [List.length_take]; omega)]
  simp only [copyInto, List.length_take, List.append_assoc, List.replicate_append_replicate]
  have : w - src.length + (n - w) = n - min w src.length := by omega
  rw [this]

theorem copyAt_fill_end (pre : Bytes) (n : Nat) (lo : Int) (src : Bytes) (site : String)
    (hk : lo = (pre.length : Int)) (hn : src.length ≤ n) :
    Go.copyAt (pre ++ List.replicate n (0 : UInt8)) lo (((pre ++ List.replicate n (0 : UInt8)).length : Nat) : Int) src site
      = .ok ((pre ++ src) ++ List.replicate (n - src.length) 0) := by
  subst hk
  rw [copyAt_int _ _ _ _ _ (by omega) (by simp only [List.length_append, List.length_replicate]; omega)
    (by simp only [Int.toNat_natCast]; omega)]
  have e1 : List.take ((((pre ++ List.replicate n (0 : UInt8)).length : Nat) : Int).toNat - ((pre.length : Nat) : Int).toNat) src = src := by
    apply List.take_of_length_le
    simp only [Int.toNat_natCast, List.length_append, List.length_replicate]; omega
  rw [e1, Int.toNat_natCast, overwrite_fill _ _ _ hn]

/-! ### the setters of assemble.go -/

theorem setU32Int_fill (n : Nat) (v : UInt32) (hn : 4 ≤ n) :
    Gen.dhcpmsg.setU32Int (List.replicate n (0 : UInt8)) v
      = .ok (put32 v.toNat ++ List.replicate (n - 4) 0) := by
  have h : 0 ≤ (0 : Int) ∧ (0 : Int) ≤ Int.ofNat (List.replicate n (0 : UInt8)).length ∧
      Int.ofNat (List.replicate n (0 : UInt8)).length ≤ ((List.replicate n (0 : UInt8)).length : Int) ∧
      4 ≤ Int.ofNat (List.replicate n (0 : UInt8)).length - 0 := by
    simp only [Int.ofNat_eq_natCast, List.length_replicate]; omega
  have := overwrite_fill [] (u32Bytes v) n (by simp only [u32Bytes, List.length_cons, List.length_nil]; omega)
  have e4 : (put32 v.toNat).length = 4 := rfl
  simp only [List.nil_append, List.length_nil, u32Bytes_eq, e4] at this
  simp only [Gen.dhcpmsg.setU32Int, Go.putU32, if_pos h, Int.toNat_zero, this, ok_bind, pure_ok, u32Bytes_eq]

theorem setU16Int_fill (n : Nat) (v : UInt16) (hn : 2 ≤ n) :
    Gen.dhcpmsg.setU16Int (List.replicate n (0 : UInt8)) v
      = .ok (put16 v.toNat ++ List.replicate (n - 2) 0) := by
  have h : 0 ≤ (0 : Int) ∧ (0 : Int) ≤ Int.ofNat (List.replicate n (0 : UInt8)).length ∧
      Int.ofNat (List.replicate n (0 : UInt8)).length ≤ ((List.replicate n (0 : UInt8)).length : Int) ∧
      2 ≤ Int.ofNat (List.replicate n (0 : UInt8)).length - 0 := by
    simp only [Int.ofNat_eq_natCast, List.length_replicate]; omega
  have := overwrite_fill [] (u16Bytes v) n (by simp only [u16Bytes, List.length_cons, List.length_nil]; omega)
  have e2 : (put16 v.toNat).length = 2 := rfl
  simp only [List.nil_append, List.length_nil, u16Bytes_eq, e2] at this
  simp only [Gen.dhcpmsg.setU16Int, Go.putU16, if_pos h, Int.toNat_zero, this, ok_bind, pure_ok, u16Bytes_eq]

theorem to4_cases (ip : Bytes) : (Go.to4 ip).length = 4 ∨ Go.to4 ip = [] := by
  unfold Go.to4
  split
  · left; assumption
  · split
    · left; simp only [List.length_drop]; omega
    · right; rfl

theorem optIpBytes_of4 (v : Bytes) (h : v.length = 4) : optIpBytes (Ip4.ofBytes? v) = v := by
  match v, h with
  | [a, b, c, d], _ => rfl

theorem setIPv4_fill (n : Nat) (ip : Bytes) (hn : 4 ≤ n) :
    Gen.dhcpmsg.setIPv4 (List.replicate n (0 : UInt8)) ip
      = .ok (optIpBytes (ipOf ip) ++ List.replicate (n - 4) 0) := by
  unfold Gen.dhcpmsg.setIPv4 ipOf
  rcases to4_cases ip with h | h
  · have hne : (Go.to4 ip).isEmpty = false := by
      cases hv : Go.to4 ip with
      | nil => rw [hv] at h; cases h
      | cons _ _ => rfl
    have := fun site => copyAt_fill_end [] n 0 (Go.to4 ip) site rfl (by omega)
    simp only [List.nil_append] at this
    simp only [hne, Bool.not_false, if_true, Int.ofNat_eq_natCast, this, ok_bind, pure_ok,
      optIpBytes_of4 _ h, h]
  · have e : List.replicate n (0 : UInt8) = [0, 0, 0, 0] ++ List.replicate (n - 4) 0 := by
      have : n = 4 + (n - 4) := by omega
      conv => lhs; rw [this, ← List.replicate_append_replicate]
      rfl
    simp only [h, List.isEmpty_nil, Bool.not_true, Bool.false_eq_true, if_false, pure_ok]
    rw [e]
    rfl

/-! ### the option loop of `Decode` -/

/-- `msg` with further options appended. -/
def addOpts (msg : Gen.dhcpmsg.Message) (os : List Opt) : Gen.dhcpmsg.Message :=
  { msg with Options := msg.Options ++ os.map optToGen }

theorem addOpts_nil (msg : Gen.dhcpmsg.Message) : addOpts msg [] = msg := by
  simp [addOpts]

theorem addOpts_cons (msg : Gen.dhcpmsg.Message) (o : Opt) (os : List Opt) :
    addOpts { msg with Options := msg.Options ++ [{ Option := o.code, Data := o.data }] } os
      = addOpts msg (o :: os) := by
  simp [addOpts, optToGen]

theorem Decode_loop1_eq (b : Bytes) : ∀ (f c : Nat) (opt : UInt8) (msg : Gen.dhcpmsg.Message),
    c ≤ b.length → b.length - c ≤ f →
    ∃ c' : Int, Gen.dhcpmsg.Decode.loop1 b (Int.ofNat b.length) (f + 1) (msg, (c : Int), opt)
      = .ok (addOpts msg (walkS f (b.drop c) opt).2, c', (walkS f (b.drop c) opt).1) := by
  intro f
  induction f with
  | zero =>
    intro c opt msg hc hf
    have hlt : ¬ ((c : Int) < (b.length : Int)) := by omega
    refine ⟨c, ?_⟩
    simp only [Gen.dhcpmsg.Decode.loop1, Int.ofNat_eq_natCast, hlt, decide_false, Bool.not_false, if_true,
      walkS, addOpts_nil]
    rfl
  | succ f ih =>
    intro c opt msg hc hf
    by_cases hlt : c < b.length
    · have hlt' : ((c : Int) < (b.length : Int)) := by omega
      rw [drop_g hlt, Gen.dhcpmsg.Decode.loop1]
      simp only [Int.ofNat_eq_natCast, hlt', decide_true, Bool.not_true, Bool.false_eq_true, if_false,
        idx_int b c _ (by omega) (by omega), Int.toNat_natCast, ok_bind, walkS]
      have e1 : ((c : Int) + 1) = ((c + 1 : Nat) : Int) := by omega
      by_cases h0 : g b c = 0
      · obtain ⟨c', h⟩ := ih (c + 1) 0 msg (by omega) (by omega)
        refine ⟨c', ?_⟩
        simp only [h0, beq_self_eq_true, if_true, e1]
        exact h
      · have h0' : (g b c == 0) = false := by simp [h0]
        simp only [h0', Bool.false_eq_true, if_false, h0]
        by_cases hff : g b c = 255
        · refine ⟨c + 1, ?_⟩
          simp only [hff, beq_self_eq_true, Bool.or_true, if_true, addOpts_nil]
          rfl
        · have hff' : (g b c == 255) = false := by simp [hff]
          simp only [hff', Bool.or_false, if_false, hff]
          by_cases hlt1 : c + 1 < b.length
          · have hlt1' : (((c + 1 : Nat) : Int) < (b.length : Int)) := by omega
            have e2 : (((c + 1 : Nat) : Int) + 1) = ((c + 1 + 1 : Nat) : Int) := by omega
            rw [drop_g hlt1]
            simp only [e1, hlt1', decide_true, Bool.not_true, Bool.false_eq_true, if_false,
              idx_int b ((c + 1 : Nat) : Int) _ (by omega) (by omega), e2, Int.toNat_natCast, ok_bind,
              List.length_drop]
            have e3 : ((c + 1 + 1 : Nat) : Int) + ((g b (c + 1)).toNat : Int)
                = ((c + 1 + 1 + (g b (c + 1)).toNat : Nat) : Int) := by omega
            simp only [e3]
            by_cases hl : c + 1 + 1 + (g b (c+1)).toNat ≤ b.length
            · have hl' : (g b (c+1)).toNat ≤ b.length - (c + 1 + 1) := by omega
              have hl2 : ((c + 1 + 1 + (g b (c + 1)).toNat : Nat) : Int) ≤ (b.length : Int) := by omega
              obtain ⟨c', h⟩ := ih (c + 1 + 1 + (g b (c+1)).toNat) (g b c)
                { msg with Options := msg.Options ++ [{ Option := g b c, Data := List.take (g b (c + 1)).toNat (List.drop (c + 1 + 1) b) }] }
                (by omega) (by omega)
              refine ⟨c', ?_⟩
              simp only [hl2, hl', decide_true, Bool.not_true, Bool.false_eq_true, if_false, if_true,
                slice_int b _ _ _ (by omega : (0:Int) ≤ ((c + 1 + 1 : Nat) : Int))
                  (by omega : ((c + 1 + 1 : Nat) : Int) ≤ ((c + 1 + 1 + (g b (c + 1)).toNat : Nat) : Int))
                  (by omega : ((c + 1 + 1 + (g b (c + 1)).toNat : Nat) : Int).toNat ≤ b.length),
                Int.toNat_natCast, ok_bind, Nat.add_sub_cancel_left, List.drop_drop]
              rw [← addOpts_cons msg ⟨g b c, List.take (g b (c + 1)).toNat (List.drop (c + 1 + 1) b)⟩]
              exact h
            · have hl' : ¬ (g b (c+1)).toNat ≤ b.length - (c + 1 + 1) := by omega
              have hl2 : ¬ ((c + 1 + 1 + (g b (c + 1)).toNat : Nat) : Int) ≤ (b.length : Int) := by omega
              refine ⟨(c + 1 + 1 : Nat), ?_⟩
              simp only [hl2, hl', decide_false, Bool.not_false, if_true, if_false, addOpts_nil]
              rfl
          · have hlt1' : ¬ (((c + 1 : Nat) : Int) < (b.length : Int)) := by omega
            have : b.drop (c + 1) = [] := List.drop_of_length_le (by omega)
            refine ⟨(c + 1 : Nat), ?_⟩
            simp only [e1, hlt1', decide_false, Bool.not_false, if_true, this, addOpts_nil]
            rfl
    · have hlt' : ¬ ((c : Int) < (b.length : Int)) := by omega
      have : b.drop c = [] := List.drop_of_length_le (by omega)
      refine ⟨c, ?_⟩
      simp only [Gen.dhcpmsg.Decode.loop1, Int.ofNat_eq_natCast, hlt', decide_false, Bool.not_false, if_true,
        walkS, this, addOpts_nil]
      rfl

/-! ### `Message.Assemble` -/

theorem optIpBytes_length (x : Option Ip4) : (optIpBytes x).length = 4 := by
  cases x <;> rfl
theorem put32_length (n : Nat) : (put32 n).length = 4 := rfl
theorem put16_length (n : Nat) : (put16 n).length = 2 := rfl

/-- Side conditions of the `*_fill` lemmas: lengths of explicit prefixes and numeral bounds. -/
macro "fill_disch" : tactic =>
  `(tactic| first
    | omega
    | (simp only [List.length_append, List.length_cons, List.length_nil, List.length_replicate,
        optIpBytes_length, put32_length, put16_length, copyInto_length, Int.toNat_natCast,
        Int.ofNat_eq_natCast]; first | done | omega))

theorem Assemble_loop1_eq : ∀ (opts : List Gen.dhcpmsg.DHCPOpt) (i : Int) (buf : Bytes),
    Gen.dhcpmsg.Message_Assemble.loop1 opts i buf = .ok (buf ++ optsWire (opts.map optOf)) := by
  intro opts
  induction opts with
  | nil => intro i buf; simp only [Gen.dhcpmsg.Message_Assemble.loop1, List.map_nil, optsWire, List.append_nil]; rfl
  | cons o rest ih =>
    intro i buf
    have e : ((2 : Int) + (o.Data.length : Int)).toNat = o.Data.length + 2 := by omega
    have hnil : List.replicate (o.Data.length + 2) (0 : UInt8) = [] ++ List.replicate (o.Data.length + 2) 0 := rfl
    rw [Gen.dhcpmsg.Message_Assemble.loop1]
    simp (disch := fill_disch) only [Int.ofNat_eq_natCast, makeList_int, e, ok_bind]
    rw [hnil]
    simp (disch := fill_disch) only [setIdx_fill, copyAt_fill_end, ok_bind]
    have e0 : o.Data.length + 2 - 1 - 1 - o.Data.length = 0 := by omega
    rw [ih, e0, ← Int.ofNat_eq_natCast, u8OfInt_nat]
    simp only [List.replicate_zero, List.append_nil, List.nil_append, List.map_cons, optsWire, Opt.wire, optOf,
      List.append_assoc, List.cons_append]

theorem bind_congr_ok {α β : Type} {x : R α} {a : α} (h : x = .ok a) (f : α → R β) : (x >>= f) = f a := by
  rw [h]; rfl

theorem setIdx_fill_bind {β : Type} (pre : Bytes) (n : Nat) (k : Int) (v : UInt8) (site : String) (f : Bytes → R β)
    (hk : k = (pre.length : Int)) (hn : 0 < n) :
    (Go.setIdx (pre ++ List.replicate n (0 : UInt8)) k v site >>= f)
      = f ((pre ++ [v]) ++ List.replicate (n - 1) 0) :=
  bind_congr_ok (setIdx_fill pre n k v site hk hn) f

theorem slice_fill_bind {β : Type} (pre rest : Bytes) (k : Int) (site : String) (f : Bytes → R β)
    (hk : k = (pre.length : Int)) :
    (Go.slice (pre ++ rest) k (((pre ++ rest).length : Nat) : Int) site >>= f) = f rest :=
  bind_congr_ok (slice_fill pre rest k site hk) f

theorem setU32Int_fill_bind {β : Type} (n : Nat) (v : UInt32) (f : Bytes → R β) (hn : 4 ≤ n) :
    (Gen.dhcpmsg.setU32Int (List.replicate n (0 : UInt8)) v >>= f)
      = f (put32 v.toNat ++ List.replicate (n - 4) 0) :=
  bind_congr_ok (setU32Int_fill n v hn) f

theorem setU16Int_fill_bind {β : Type} (n : Nat) (v : UInt16) (f : Bytes → R β) (hn : 2 ≤ n) :
    (Gen.dhcpmsg.setU16Int (List.replicate n (0 : UInt8)) v >>= f)
      = f (put16 v.toNat ++ List.replicate (n - 2) 0) :=
  bind_congr_ok (setU16Int_fill n v hn) f

theorem setIPv4_fill_bind {β : Type} (n : Nat) (ip : Bytes) (f : Bytes → R β) (hn : 4 ≤ n) :
    (Gen.dhcpmsg.setIPv4 (List.replicate n (0 : UInt8)) ip >>= f)
      = f (optIpBytes (ipOf ip) ++ List.replicate (n - 4) 0) :=
  bind_congr_ok (setIPv4_fill n ip hn) f

theorem copyAt_fill_bind {β : Type} (pre : Bytes) (n w : Nat) (lo hi : Int) (src : Bytes) (site : String)
    (f : Bytes → R β) (hk : lo = (pre.length : Int)) (hhi : hi = lo + (w : Int)) (hn : w ≤ n) :
    (Go.copyAt (pre ++ List.replicate n (0 : UInt8)) lo hi src site >>= f)
      = f ((pre ++ copyInto w src) ++ List.replicate (n - w) 0) :=
  bind_congr_ok (copyAt_fill pre n w lo hi src site hk hhi hn) f

theorem copyAt_fill_end_bind {β : Type} (pre : Bytes) (n : Nat) (lo : Int) (src : Bytes) (site : String)
    (f : Bytes → R β) (hk : lo = (pre.length : Int)) (hn : src.length ≤ n) :
    (Go.copyAt (pre ++ List.replicate n (0 : UInt8)) lo
        (((pre ++ List.replicate n (0 : UInt8)).length : Nat) : Int) src site >>= f)
      = f ((pre ++ src) ++ List.replicate (n - src.length) 0) :=
  bind_congr_ok (copyAt_fill_end pre n lo src site hk hn) f

end PsaDhcp.Proofs.CodeDhcpAux
