import PsaDhcp.Code.Bridge
import PsaDhcp.Proofs.Wire
import PsaDhcp.Proofs.CodeCsum
import PsaDhcp.Proofs.CodeLayerIpAux
/-
lib/layer/ip.go (+ setV4Checksum, udp4csum, pseudohdrcsum of checksum.go): translated code = model.
-/
namespace PsaDhcp.Proofs.CodeLayerIp
open PsaDhcp PsaDhcp.Go PsaDhcp.Code PsaDhcp.Proofs.Wire PsaDhcp.Proofs.CodeLayerIpAux

/-- `pseudohdrcsum(b)` on a buffer with a full header: no `uint32` wrap-around. -/
theorem pseudohdrcsum_ok (b : Bytes) (h : 20 ≤ b.length) :
    Gen.layer.pseudohdrcsum b = .ok (UInt32.ofNat
      (pseudohdrcsum b[9] ⟨b[12], b[13], b[14], b[15]⟩ ⟨b[16], b[17], b[18], b[19]⟩)) := by
  unfold Gen.layer.pseudohdrcsum
  rw [idx_nat b 9 9 _ rfl (by omega),
    idx_nat b 12 12 _ rfl (by omega), idx_nat b 13 13 _ rfl (by omega), idx_nat b 14 14 _ rfl (by omega),
    idx_nat b 15 15 _ rfl (by omega), idx_nat b 16 16 _ rfl (by omega), idx_nat b 17 17 _ rfl (by omega),
    idx_nat b 18 18 _ rfl (by omega), idx_nat b 19 19 _ rfl (by omega)]
  simp only [bind, Except.bind, pure, Except.pure]
  congr 1
  apply UInt32.toNat_inj.mp
  have := u8_lt b[9]
  have := u8_lt b[12]; have := u8_lt b[13]; have := u8_lt b[14]; have := u8_lt b[15]
  have := u8_lt b[16]; have := u8_lt b[17]; have := u8_lt b[18]; have := u8_lt b[19]
  simp only [UInt32.toNat_add, UInt32.toNat_shiftLeft, UInt8.toNat_toUInt32, UInt32.toNat_ofNat', pseudohdrcsum, Nat.shiftLeft_eq]
  have e8 : UInt32.toNat 8 % 32 = 8 := by decide
  have e0 : UInt32.toNat 0 % 32 = 0 := by decide
  have e00 : UInt32.toNat 0 = 0 := by decide
  rw [e8, e0, e00]
  omega


/-- `udp4csum(20, b)` (uses `CodeCsum.ipv4csum_eq`). -/
theorem udp4csum_ok (b : Bytes) (h : 20 ≤ b.length) :
    Gen.layer.udp4csum 20 b = .ok (UInt16.ofNat
      (udp4csum b[9] ⟨b[12], b[13], b[14], b[15]⟩ ⟨b[16], b[17], b[18], b[19]⟩ (b.drop 20))) := by
  unfold Gen.layer.udp4csum
  rw [pseudohdrcsum_ok b h, sliceFrom_nat b 20 20 _ rfl h]
  simp only [bind, Except.bind, PsaDhcp.Proofs.CodeCsum.ipv4csum_eq]
  congr 3
  have hp := pseudohdrcsum_le b[9] ⟨b[12], b[13], b[14], b[15]⟩ ⟨b[16], b[17], b[18], b[19]⟩
  generalize pseudohdrcsum b[9] ⟨b[12], b[13], b[14], b[15]⟩ ⟨b[16], b[17], b[18], b[19]⟩ = P at hp ⊢
  have hl : (u32OfInt (Int.ofNat b.length - 20)).toNat = (b.length - 20) % 4294967296 := by
    unfold u32OfInt
    rw [UInt32.toNat_ofNat']
    show ((((b.length : Int) - 20) % 4294967296).toNat) % 2 ^ 32 = _
    omega
  simp only [UInt32.toNat_add, UInt32.toNat_and, UInt32.toNat_shiftRight, UInt32.toNat_ofNat', hl, List.length_drop]
  generalize (List.length b - 20) % 4294967296 = L
  have e16 : UInt32.toNat 16 % 32 = 16 := by decide
  have eff : UInt32.toNat 65535 = 2 ^ 16 - 1 := by decide
  rw [e16, eff, Nat.and_two_pow_sub_one_eq_mod, Nat.shiftRight_eq_div_pow]
  omega


/-- `setV4Checksum(b)` on a buffer whose first byte is `0x45`: `b1` is the buffer after the header
checksum has been written; the error value is irrelevant to the caller. -/
theorem setV4Checksum_gen (b b1 : Bytes) (h : 20 ≤ b.length) (h0 : b[0] = 0x45)
    (hb1 : b1 = overwrite b 10 (put16 (ipv4csum (b.take 20) 0))) (h1 : 20 ≤ b1.length) :
    ∃ e, Gen.layer.setV4Checksum b = .ok (e,
      if b1[9] = 0x11 ∧ 28 ≤ b.length then
        overwrite b1 26 (put16 (udp4csum b1[9] ⟨b1[12], b1[13], b1[14], b1[15]⟩
          ⟨b1[16], b1[17], b1[18], b1[19]⟩ (b1.drop 20)))
      else b1) := by
  unfold Gen.layer.setV4Checksum
  have hlen : ¬ (Int.ofNat b.length < 1) := by
    show ¬ ((b.length : Int) < 1); omega
  simp only [hlen, decide_false, Bool.false_eq_true, if_false]
  rw [idx_nat _ 0 0 _ rfl (by omega), idx_nat _ 0 0 _ rfl (by omega), h0]
  have e1 : ((69 : UInt8) >>> 4 != 4) = false := by decide
  have e2 : Int.ofNat (((69 : UInt8) &&& 15) <<< 2).toNat = 20 := by decide
  simp only [bind, Except.bind, pure, Except.pure, e1, e2]
  have hlen2 : ¬ (Int.ofNat b.length < 20) := by
    show ¬ ((b.length : Int) < 20); omega
  simp only [hlen2, decide_false, Bool.false_eq_true, if_false, Bool.or_false]
  have e3 : ¬ ((20 : Int) < 20) := by decide
  simp only [e3, decide_false, Bool.false_eq_true, if_false]
  rw [slice_ok b 0 20 _ ⟨by omega, by omega, by omega⟩]
  have e4 : (20 : Int).toNat = 20 := rfl
  have e5 : (0 : Int).toNat = 0 := rfl
  simp only [e4, e5, List.drop_zero, PsaDhcp.Proofs.CodeCsum.ipv4csum_eq]
  rw [putU16_len b 10 10 _ _ rfl (by omega)]
  have e7 : (0 : UInt32).toNat = 0 := rfl
  simp only [e7, u16Bytes_ofNat, ← hb1]
  rw [idx_nat b1 9 9 _ rfl (by omega)]
  simp only []
  have hl1 : b1.length = b.length := by
    rw [hb1]; apply overwrite_length; simp [put16]; omega
  by_cases hp : b1[9] = 17 ∧ 28 ≤ b.length
  · have hc : (b1[9] == 17 && decide (Int.ofNat (List.length b1) ≥ 20 + 8)) = true := by
      simp only [Bool.and_eq_true, beq_iff_eq, decide_eq_true_eq]
      refine ⟨hp.1, ?_⟩
      show (b1.length : Int) ≥ 20 + 8
      omega
    rw [if_pos hc, if_pos hp, udp4csum_ok b1 h1]
    simp only []
    rw [putU16_len b1 26 (20 + 6) _ _ rfl (by omega)]
    simp only [u16Bytes_ofNat]
    exact ⟨_, rfl⟩
  · have hc : ¬ ((b1[9] == 17 && decide (Int.ofNat (List.length b1) ≥ 20 + 8)) = true) := by
      simp only [Bool.and_eq_true, beq_iff_eq, decide_eq_true_eq]
      intro hh; apply hp
      refine ⟨hh.1, ?_⟩
      have : (b1.length : Int) ≥ 20 + 8 := hh.2
      omega
    rw [if_neg hc, if_neg hp]
    exact ⟨_, rfl⟩

/-- The last four statements of `Assemble` on a header given byte by byte. -/
theorem assemble_tail (L1 L0 I1 I0 F1 F0 ttl p : UInt8) (s d : Ip4) (data junk : Bytes)
    (hj : junk.length = data.length) (s1 s2 : String) (B : Bytes) (c : Nat)
    (hB : B = 0x45 :: 0 :: L1 :: L0 :: I1 :: I0 :: F1 :: F0 :: ttl :: p :: 0 :: 0 :: s.a :: s.b :: s.c :: s.d :: d.a :: d.b :: d.c :: d.d :: junk)
    (hc : c = ipv4csum [0x45, 0, L1, L0, I1, I0, F1, F0, ttl, p, 0, 0, s.a, s.b, s.c, s.d, d.a, d.b, d.c, d.d] 0) :
    (do let b ← copyAt B 20 (Int.ofNat B.length) data s1
        let sl ← Go.slice b 0 (Int.ofNat b.length) s2
        let r ← Gen.layer.setV4Checksum sl
        pure (writeBack b 0 r.snd) : R Bytes)
    = .ok (0x45 :: 0 :: L1 :: L0 :: I1 :: I0 :: F1 :: F0 :: ttl :: p :: UInt8.ofNat (c / 256 % 256) :: UInt8.ofNat (c % 256) :: s.a :: s.b :: s.c :: s.d :: d.a :: d.b :: d.c :: d.d
        :: (if p = 0x11 ∧ 8 ≤ data.length then
              data.take 6 ++ put16 (udp4csum p s d data) ++ data.drop 8
            else data)) := by
  have hBl : B.length = 20 + data.length := by
    rw [hB]; simp only [List.length_cons]; omega
  rw [copyAt_len B 20 20 _ _ rfl (by omega)]
  simp only [bind, Except.bind]
  rw [slice_full]
  simp only []
  have hB2 : overwrite B 20 (List.take (B.length - 20) data) =
      0x45 :: 0 :: L1 :: L0 :: I1 :: I0 :: F1 :: F0 :: ttl :: p :: 0 :: 0 :: s.a :: s.b :: s.c :: s.d :: d.a :: d.b :: d.c :: d.d :: data := by
    rw [hB]
    simp only [overwrite_succ]
    rw [overwrite_tail junk data _ (by simp only [List.length_cons]; omega) hj]
  rw [hB2]
  have hb1 : (0x45 :: 0 :: L1 :: L0 :: I1 :: I0 :: F1 :: F0 :: ttl :: p :: UInt8.ofNat (c / 256 % 256) :: UInt8.ofNat (c % 256) :: s.a :: s.b :: s.c :: s.d :: d.a :: d.b :: d.c :: d.d :: data) =
      overwrite (0x45 :: 0 :: L1 :: L0 :: I1 :: I0 :: F1 :: F0 :: ttl :: p :: 0 :: 0 :: s.a :: s.b :: s.c :: s.d :: d.a :: d.b :: d.c :: d.d :: data) 10 (put16 (ipv4csum (List.take 20
        (0x45 :: 0 :: L1 :: L0 :: I1 :: I0 :: F1 :: F0 :: ttl :: p :: 0 :: 0 :: s.a :: s.b :: s.c :: s.d :: d.a :: d.b :: d.c :: d.d :: data)) 0)) := by
    simp only [List.take_succ_cons, List.take_zero, overwrite_succ, overwrite_zero, put16, ← hc,
      List.length_cons, List.length_nil, List.drop_succ_cons, List.drop_zero, List.cons_append, List.nil_append]
  obtain ⟨e, he⟩ := setV4Checksum_gen (0x45 :: 0 :: L1 :: L0 :: I1 :: I0 :: F1 :: F0 :: ttl :: p :: 0 :: 0 :: s.a :: s.b :: s.c :: s.d :: d.a :: d.b :: d.c :: d.d :: data) _
    (by simp only [List.length_cons]; omega) rfl hb1 (by simp only [List.length_cons]; omega)
  rw [he]
  simp only [List.getElem_cons_succ, List.getElem_cons_zero, List.drop_succ_cons, List.drop_zero]
  show Except.ok _ = _
  congr 1
  by_cases hp : p = 17 ∧ 8 ≤ data.length
  · rw [if_pos hp, if_pos ⟨hp.1, by simp only [List.length_cons]; omega⟩]
    rw [writeBack_zero_full _ _ (by
      rw [overwrite_length _ _ _ (by simp only [List.length_cons, List.length_nil, put16]; omega)]
      simp only [List.length_cons])]
    simp only [overwrite_succ]
    simp only [overwrite, put16_length, List.append_assoc]
  · rw [if_neg hp, if_neg (by intro hh; apply hp; refine ⟨hh.1, ?_⟩; have := hh.2; simp only [List.length_cons] at this; omega)]
    rw [writeBack_zero_full _ _ (by simp only [List.length_cons])]


/-- `DecodeIPv4` on inputs of at least twenty bytes. -/
theorem DecodeIPv4_long (b : Bytes) (hs : 20 ≤ b.length) :
    Gen.layer.DecodeIPv4 b = liftDec ipv4ToGen (decodeIPv4 b) := by
  rw [decodeIPv4_eq b hs]
  have h1 : ¬ (Int.ofNat b.length < 20) := by show ¬ ((b.length : Int) < 20); omega
  unfold Gen.layer.DecodeIPv4
  simp only [h1, decide_false, Bool.false_eq_true, if_false]
  rw [idx_nat b 0 0 _ rfl (by omega), idx_nat b 0 0 _ rfl (by omega), idx_nat b 8 8 _ rfl (by omega), idx_nat b 9 9 _ rfl (by omega),
    idx_nat b 12 12 _ rfl (by omega), idx_nat b 13 13 _ rfl (by omega), idx_nat b 14 14 _ rfl (by omega),
    idx_nat b 15 15 _ rfl (by omega), idx_nat b 16 16 _ rfl (by omega), idx_nat b 17 17 _ rfl (by omega),
    idx_nat b 18 18 _ rfl (by omega), idx_nat b 19 19 _ rfl (by omega),
    sliceFrom_nat b 2 2 _ rfl (by omega), sliceFrom_nat b 4 4 _ rfl (by omega),
    sliceFrom_nat b 6 6 _ rfl (by omega), sliceFrom_nat b 10 10 _ rfl (by omega)]
  simp only [bind, Except.bind, beU16_drop b 2 _ (by omega), beU16_drop b 4 _ (by omega),
    beU16_drop b 6 _ (by omega), beU16_drop b 10 _ (by omega), u8_shr4, u8_ihl]
  generalize hihl : b[0].toNat % 16 * 4 % 256 = ihl
  have hb := be16_lt (b.drop 2)
  have ht : (UInt16.ofNat (be16 (List.drop 2 b))).toNat = be16 (List.drop 2 b) := by
    rw [UInt16.toNat_ofNat']; omega
  rw [ht]
  by_cases hv : b[0].toNat / 16 ≠ 4 ∨ b.length < ihl ∨ ihl < 20
  · rw [if_pos hv, if_pos]
    · rfl
    · simp only [Bool.or_eq_true, decide_eq_true_eq]
      rcases hv with h | h | h
      · exact Or.inl (Or.inl h)
      · exact Or.inl (Or.inr (by show ((b.length : Int) < (ihl : Int)); omega))
      · exact Or.inr (by show ((ihl : Int) < 20); omega)
  · have hv' : ¬ ((decide (b[0].toNat / 16 ≠ 4) || decide (Int.ofNat (List.length b) < Int.ofNat ihl) ||
              decide (Int.ofNat ihl < 20)) = true) := by
      simp only [Bool.or_eq_true, decide_eq_true_eq]
      intro h
      apply hv
      rcases h with (h | h) | h
      · exact Or.inl h
      · exact Or.inr (Or.inl (by have : ((b.length : Int) < (ihl : Int)) := h; omega))
      · exact Or.inr (Or.inr (by have : ((ihl : Int) < 20) := h; omega))
    rw [if_neg hv, if_neg hv']
    by_cases hc : be16 (b.drop 2) = b.length
    · rw [hc]
      rw [slice_ok b (Int.ofNat ihl) (Int.ofNat b.length) _
        ⟨Int.natCast_nonneg _, by show ((ihl : Int) ≤ (b.length : Int)); omega, Int.le_refl _⟩]
      simp [liftDec, ipv4ToGen, optIpToGen, ipToGen, pure, Except.pure]
    · rw [if_pos, if_pos]
      · rfl
      · exact hc
      · simp only [bne_iff_ne, ne_eq]
        intro h; apply hc
        have : ((be16 (List.drop 2 b) : Nat) : Int) = (b.length : Int) := h
        omega

set_option linter.unusedSimpArgs false in
/-- The four cases (`Source` / `Destination` with or without a `To4()` form) run the same script. -/
theorem IPv4_Assemble_aux (h : Gen.layer.IPv4) :
    Gen.layer.IPv4_Assemble h = .ok (IPv4.assemble (ipv4Of h)) := by
  unfold Gen.layer.IPv4_Assemble
  have hm : ((20 : Int) + Int.ofNat h.Data.length).toNat = 20 + h.Data.length := by
    show ((20 : Int) + (h.Data.length : Int)).toNat = _; omega
  have hm0 : (0 : Int) ≤ 20 + Int.ofNat h.Data.length := by
    show (0 : Int) ≤ 20 + (h.Data.length : Int); omega
  have hlen : u16Bytes (u16OfInt ((20 : Int) + Int.ofNat h.Data.length)) = put16 (20 + h.Data.length) :=
    u16Bytes_u16OfInt (20 + h.Data.length)
  rw [assemble_cons (ipv4Of h) _ rfl]
  rcases to4_cases h.Source with ⟨hs, hs'⟩ | ⟨si, hs, hs', hse⟩ <;>
  rcases to4_cases h.Destination with ⟨hd, hd'⟩ | ⟨di, hd, hd', hde⟩
  · simp only [hs, hd, List.isEmpty_nil, List.isEmpty_cons, Bool.not_true, Bool.not_false,
      Bool.false_eq_true, ↓reduceIte, ite_self, makeList_ok _ _ _ hm0, hm, replicate20, bind, Except.bind, slice4]
    simp (disch := (simp only [List.length_cons, List.length_replicate, Int.ofNat_eq_natCast]; omega)) only
      [setIdx_ok, putU16_ok, copyAt4, Int.reduceToNat, List.set_cons_zero, List.set_cons_succ, overwrite_succ,
       overwrite_zero2, overwrite_zero4, hlen, u16Bytes_eq, put16]
    refine (assemble_tail _ _ _ _ _ _ _ _ ⟨0, 0, 0, 0⟩ ⟨0, 0, 0, 0⟩ h.Data (List.replicate h.Data.length 0)
      (List.length_replicate ..) _ _ _ _ rfl rfl).trans ?_
    simp only [ipv4Of, hs', hd', optIp, Option.getD, Ip4.zero, IPv4.dataWithCsum, IPv4.pre, IPv4.post, optIpBytes,
      Ip4.bytes, put16, List.cons_append, List.nil_append]
  · simp only [hs, hd, hde, List.isEmpty_nil, List.isEmpty_cons, Bool.not_true, Bool.not_false,
      Bool.false_eq_true, ↓reduceIte, ite_self, makeList_ok _ _ _ hm0, hm, replicate20, bind, Except.bind, slice4]
    simp (disch := (simp only [List.length_cons, List.length_replicate, Int.ofNat_eq_natCast]; omega)) only
      [setIdx_ok, putU16_ok, copyAt4, Int.reduceToNat, List.set_cons_zero, List.set_cons_succ, overwrite_succ,
       overwrite_zero2, overwrite_zero4, hlen, u16Bytes_eq, put16]
    refine (assemble_tail _ _ _ _ _ _ _ _ ⟨0, 0, 0, 0⟩ di h.Data (List.replicate h.Data.length 0)
      (List.length_replicate ..) _ _ _ _ rfl rfl).trans ?_
    simp only [ipv4Of, hs', hd', optIp, Option.getD, Ip4.zero, IPv4.dataWithCsum, IPv4.pre, IPv4.post, optIpBytes,
      Ip4.bytes, put16, List.cons_append, List.nil_append]
  · simp only [hs, hd, hse, List.isEmpty_nil, List.isEmpty_cons, Bool.not_true, Bool.not_false,
      Bool.false_eq_true, ↓reduceIte, ite_self, makeList_ok _ _ _ hm0, hm, replicate20, bind, Except.bind, slice4]
    simp (disch := (simp only [List.length_cons, List.length_replicate, Int.ofNat_eq_natCast]; omega)) only
      [setIdx_ok, putU16_ok, copyAt4, Int.reduceToNat, List.set_cons_zero, List.set_cons_succ, overwrite_succ,
       overwrite_zero2, overwrite_zero4, hlen, u16Bytes_eq, put16]
    refine (assemble_tail _ _ _ _ _ _ _ _ si ⟨0, 0, 0, 0⟩ h.Data (List.replicate h.Data.length 0)
      (List.length_replicate ..) _ _ _ _ rfl rfl).trans ?_
    simp only [ipv4Of, hs', hd', optIp, Option.getD, Ip4.zero, IPv4.dataWithCsum, IPv4.pre, IPv4.post, optIpBytes,
      Ip4.bytes, put16, List.cons_append, List.nil_append]
  · simp only [hs, hd, hse, hde, List.isEmpty_nil, List.isEmpty_cons, Bool.not_true, Bool.not_false,
      Bool.false_eq_true, ↓reduceIte, ite_self, makeList_ok _ _ _ hm0, hm, replicate20, bind, Except.bind, slice4]
    simp (disch := (simp only [List.length_cons, List.length_replicate, Int.ofNat_eq_natCast]; omega)) only
      [setIdx_ok, putU16_ok, copyAt4, Int.reduceToNat, List.set_cons_zero, List.set_cons_succ, overwrite_succ,
       overwrite_zero2, overwrite_zero4, hlen, u16Bytes_eq, put16]
    refine (assemble_tail _ _ _ _ _ _ _ _ si di h.Data (List.replicate h.Data.length 0)
      (List.length_replicate ..) _ _ _ _ rfl rfl).trans ?_
    simp only [ipv4Of, hs', hd', optIp, Option.getD, Ip4.zero, IPv4.dataWithCsum, IPv4.pre, IPv4.post, optIpBytes,
      Ip4.bytes, put16, List.cons_append, List.nil_append]

/-- `(IPv4).Assemble()`, including `setV4Checksum`, `udp4csum`, `pseudohdrcsum`. -/
theorem IPv4_Assemble_eq (h : Gen.layer.IPv4) :
    Gen.layer.IPv4_Assemble h = .ok (IPv4.assemble (ipv4Of h)) :=
  IPv4_Assemble_aux h

/-- `DecodeIPv4(b)` -/
theorem DecodeIPv4_eq (b : Bytes) :
    Gen.layer.DecodeIPv4 b = liftDec ipv4ToGen (decodeIPv4 b) := by
  by_cases hs : b.length < 20
  · rw [decodeIPv4_short b hs]
    have h1 : (Int.ofNat b.length < 20) := by show ((b.length : Int) < 20); omega
    simp only [Gen.layer.DecodeIPv4, h1, decide_true, if_true, liftDec, pure, Except.pure]
  · exact DecodeIPv4_long b (by omega)

end PsaDhcp.Proofs.CodeLayerIp
