import PsaDhcp.Proofs.CodeResAux
namespace PsaDhcp.Proofs.CodeRes
open PsaDhcp PsaDhcp.Go PsaDhcp.Code

theorem catchARPReply_balanced (o : ResOracle) (iface : Go.NetInterface) (target : Bytes) (fuel : Nat)
    (st st' : ResState) (r : Bytes × GoErr)
    (h : (Gen.arpping.catchARPReply (resArpEnv o) iface target fuel).run st = .ok (r, st')) :
    st'.opened - st.opened = st'.closed - st.closed ∧ st'.opened ≤ st.opened + 1 ∧ st.opened ≤ st'.opened ∧ st.closed ≤ st'.closed := by
  refine bracket_spec (open_spec o) ?_ ?_ st st' r h
  · intro e; exact ⟨keeps_pure _ _, keeps_pure _ _⟩
  · intro e
    constructor
    · keeps_tac inert_opened (arp_loop o target _ inert_opened fuel)
    · keeps_tac inert_closed (arp_loop o target _ inert_closed fuel)

theorem catchARPReply_spawned (o : ResOracle) (iface : Go.NetInterface) (target : Bytes) (fuel : Nat) :
    Keeps ResState.spawned (Gen.arpping.catchARPReply (resArpEnv o) iface target fuel) := by
  rw [Gen.arpping.catchARPReply]
  simp only [arpEnv_open, arpEnv_close]
  keeps_tac inert_spawned (arp_loop o target _ inert_spawned fuel)

theorem ping_balanced (o : ResOracle) (iface : Go.NetInterface) (src dst : Bytes) (fuel : Nat)
    (st st' : ResState) (r : Bytes × GoErr) (h0 : Balanced st)
    (h : (Gen.arpping.Ping (resArpEnv o) iface src dst fuel).run st = .ok (r, st')) :
    Balanced st' ∧ st'.spawned = st.spawned + 1 := by
  rw [Gen.arpping.Ping] at h
  obtain ⟨u, st1, h1, h2⟩ := bind_ok _ _ _ _ _ h
  obtain ⟨r1, st2, h3, h4⟩ := bind_ok _ _ _ _ _ h2
  cases h4
  cases h1
  have hb := catchARPReply_balanced o iface dst fuel _ _ _ h3
  have hs := catchARPReply_spawned o iface dst fuel _ _ _ h3
  refine ⟨(balanced_of (st := { st with spawned := st.spawned + 1 }) h0 hb).1, ?_⟩
  rw [hs]

theorem sendARPPing_balanced (o : ResOracle) (iface : Go.NetInterface) (src dst : Bytes) (fuel : Nat)
    (st st' : ResState) (h0 : Balanced st)
    (h : (Gen.arpping.sendARPPing (resSockEnv o) iface src dst fuel).run st = .ok ((), st')) :
    Balanced st' ∧ st'.opened ≤ st.opened + 1 := by
  refine balanced_of h0 (bracket_spec (open_spec o) ?_ ?_ st st' () h)
  · intro e; exact ⟨keeps_pure _ _, keeps_pure _ _⟩
  · intro e
    constructor
    · keeps_tac inert_opened (arpSend_loop o _ _ inert_opened fuel)
    · keeps_tac inert_closed (arpSend_loop o _ _ inert_closed fuel)

theorem sendUnicast_balanced (o : ResOracle) (sx : Gen.server.server) (hw payload : Bytes)
    (st st' : ResState) (r : GoErr) (h0 : Balanced st)
    (h : (Gen.server.server_sendUnicast (resSockEnv o) sx hw payload).run st = .ok (r, st')) :
    Balanced st' ∧ st'.opened ≤ st.opened + 1 := by
  rw [Gen.server.server_sendUnicast] at h
  simp only [sockEnv_openU, sockEnv_close, sockEnv_write] at h
  obtain ⟨e, st1, h1, h2⟩ := bind_ok _ _ _ _ _ h
  obtain ⟨hc, hn, hs⟩ := open_spec o st e st1 h1
  unfold Balanced at *
  split at h2
  · rename_i he
    cases h2
    have he' : e.2 ≠ none := by
      intro h0; rw [h0] at he; cases he
    have := hs he'
    omega
  · rename_i he
    have he' : e.2 = none := by
      cases hh : e.2 with
      | none => rfl
      | some s => rw [hh] at he; exact absurd rfl he
    have ho := hn he'
    obtain ⟨u1, st2, h3, h4⟩ := bind_ok _ _ _ _ _ h2
    obtain ⟨u2, st3, h5, h6⟩ := bind_ok _ _ _ _ _ h4
    cases h6
    have w1 := keeps_discard (keeps_write inert_opened o payload) _ _ _ h3
    have w2 := keeps_discard (keeps_write inert_closed o payload) _ _ _ h3
    have c1 : st'.opened = st2.opened := by
      simp only [discard, Functor.mapConst, Function.comp, StateT.map, bind, Except.bind, Res.close] at h5
      cases h5; rfl
    have c2 : st'.closed = st2.closed + 1 := by
      simp only [discard, Functor.mapConst, Function.comp, StateT.map, bind, Except.bind, Res.close] at h5
      cases h5; rfl
    omega

theorem sendUnicast_total (o : ResOracle) (sx : Gen.server.server) (hw payload : Bytes) (st : ResState) :
    ∃ r st', (Gen.server.server_sendUnicast (resSockEnv o) sx hw payload).run st = .ok (r, st') := by
  rw [Gen.server.server_sendUnicast]
  simp only [sockEnv_openU, sockEnv_close, sockEnv_write]
  cases hf : o.openFails st.opens with
  | true =>
    have ho : Res.open_ o st = .ok (((), openErr), { st with opens := st.opens + 1 }) := by
      simp only [Res.open_, hf, if_true]
    exact ⟨_, _, by simp only [StateT.run, bind, StateT.bind, Except.bind, ho]; rfl⟩
  | false =>
    have ho : Res.open_ o st = .ok (((), none), { st with opens := st.opens + 1, opened := st.opened + 1 }) := by
      simp [Res.open_, hf]
    exact ⟨_, _, by simp only [StateT.run, bind, StateT.bind, Except.bind, ho]; rfl⟩

theorem run_balanced (o : ResOracle) (sx : Gen.server.server) (fuel : Nat) (st st' : ResState) (r : GoErr)
    (h0 : Balanced st) (h : (Gen.server.server_Run (resRunEnv o) sx fuel).run st = .ok (r, st')) :
    Balanced st' ∧ st'.opened ≤ st.opened + 1 := by
  refine balanced_of h0 (bracket_spec (open_spec o) ?_ ?_ st st' r h)
  · intro e; exact ⟨keeps_pure _ _, keeps_pure _ _⟩
  · intro e
    constructor
    · keeps_tac inert_opened (run_loop o sx _ inert_opened keeps_spawn_opened fuel)
    · keeps_tac inert_closed (run_loop o sx _ inert_closed keeps_spawn_closed fuel)

/-- The look-up loop of `sendSocket`: closes nothing; opens one socket exactly when it returns one without error. -/
theorem socket_loop_closed (o : ResOracle) (iface : Go.NetInterface) (src dst : Bytes) :
    ∀ fuel i, Keeps ResState.closed (Gen.dclient.sendSocket.loop1 (resSendEnv o) iface src dst fuel i) := by
  intro fuel
  induction fuel with
  | zero => intro i; exact keeps_throw _ _
  | succ n ih =>
    intro i
    rw [Gen.dclient.sendSocket.loop1]; simp only [sendEnv_ctx, sendEnv_ping, sendEnv_openU]
    keeps_tac inert_closed ih

def LoopPost (st st' : ResState) : LoopOut Int (Go.Sock × GoErr) → Prop
  | .done _ => st'.opened = st.opened
  | .ret r => (r.2 = none → st'.opened = st.opened + 1) ∧ (r.2 ≠ none → st'.opened = st.opened)

theorem socket_loop_opened (o : ResOracle) (iface : Go.NetInterface) (src dst : Bytes) :
    ∀ fuel i st x st', Gen.dclient.sendSocket.loop1 (resSendEnv o) iface src dst fuel i st = .ok (x, st') →
      LoopPost st st' x := by
  intro fuel
  induction fuel with
  | zero => intro i st x st' h; cases h
  | succ n ih =>
    intro i st x st' h
    rw [Gen.dclient.sendSocket.loop1] at h
    simp only [sendEnv_ctx, sendEnv_ping, sendEnv_openU] at h
    obtain ⟨c, st1, h1, h2⟩ := bind_ok _ _ _ _ _ h
    have k1 : st1.opened = st.opened := by
      revert h1
      generalize hm : (if decide (i < 5) = true then do
          let __do_lift ← Res.ctxErr o
          pure (Option.isNone __do_lift) else pure false : StateT ResState R Bool) = m
      intro h1
      have : Keeps ResState.opened m := by
        subst hm
        keeps_tac0 inert_opened
      exact this _ _ _ h1
    split at h2
    · cases h2; exact k1
    · obtain ⟨e2, st2, h3, h4⟩ := bind_ok _ _ _ _ _ h2
      have k2 := keeps_ping inert_opened o _ _ _ _ _ _ h3
      split at h4
      · obtain ⟨e3, st3, h5, h6⟩ := bind_ok _ _ _ _ _ h4
        cases h6
        obtain ⟨_, hn, hs⟩ := open_spec o _ _ _ h5
        exact ⟨fun hh => by rw [hn hh, k2, k1], fun hh => by rw [hs hh, k2, k1]⟩
      · have := ih _ _ _ _ h4
        cases x with
        | done j => show st'.opened = st.opened; rw [← k1, ← k2]; exact this
        | ret r => exact ⟨fun hh => by rw [this.1 hh, k2, k1], fun hh => by rw [this.2 hh, k2, k1]⟩

theorem sendSocket_one (o : ResOracle) (iface : Go.NetInterface) (sender : R (Bytes × Bytes × Bytes))
    (st st' : ResState) (r : Go.Sock × GoErr)
    (h : (Gen.dclient.sendSocket (resSendEnv o) iface sender).run st = .ok (r, st')) :
    st'.closed = st.closed ∧ (r.2 = none → st'.opened = st.opened + 1) ∧ (r.2 ≠ none → st'.opened = st.opened) := by
  constructor
  · have : Keeps ResState.closed (Gen.dclient.sendSocket (resSendEnv o) iface sender) := by
      rw [Gen.dclient.sendSocket]; simp only [sendEnv_openIP]
      keeps_tac inert_closed (socket_loop_closed o iface _ _ 6)
    exact this _ _ _ h
  · rw [Gen.dclient.sendSocket] at h
    simp only [sendEnv_openIP] at h
    obtain ⟨f1, st1, h1, h2⟩ := bind_ok _ _ _ _ _ h
    have k1 := keeps_lift ResState.opened sender _ _ _ h1
    have hjp : ∀ (s1 s2 : ResState) (x : Go.Sock × GoErr),
        (Res.open_ o >>= fun e => (pure (e.1, e.2) : StateT ResState R (Go.Sock × GoErr))) s1 = .ok (x, s2) →
        (x.2 = none → s2.opened = s1.opened + 1) ∧ (x.2 ≠ none → s2.opened = s1.opened) := by
      intro s1 s2 x hx
      obtain ⟨e, s3, hx1, hx2⟩ := bind_ok _ _ _ _ _ hx
      cases hx2
      exact (open_spec o _ _ _ hx1).2
    split at h2
    · obtain ⟨l, st2, h3, h4⟩ := bind_ok _ _ _ _ _ h2
      have hl := socket_loop_opened o iface _ _ _ _ _ _ _ h3
      cases l with
      | ret x =>
        cases h4
        exact ⟨fun hh => by rw [hl.1 hh, k1], fun hh => by rw [hl.2 hh, k1]⟩
      | done j =>
        have := hjp _ _ _ h4
        have hl' : st2.opened = st1.opened := hl
        exact ⟨fun hh => by rw [this.1 hh, hl', k1], fun hh => by rw [this.2 hh, hl', k1]⟩
    · have := hjp _ _ _ h2
      exact ⟨fun hh => by rw [this.1 hh, k1], fun hh => by rw [this.2 hh, k1]⟩

theorem sendMessage_balanced (o : ResOracle) (iface : Go.NetInterface) (sender : R (Bytes × Bytes × Bytes))
    (fuel : Nat) (st st' : ResState) (r : GoErr) (h0 : Balanced st)
    (h : (Gen.dclient.sendMessage (resSendEnv o) iface sender fuel).run st = .ok (r, st')) :
    Balanced st' ∧ st'.opened ≤ st.opened + 1 := by
  refine balanced_of h0 (bracket_spec (opn := Gen.dclient.sendSocket (resSendEnv o) iface sender)
    (fun s e s' hh => sendSocket_one o iface sender s s' e hh) ?_ ?_ st st' r h)
  · intro e; exact ⟨keeps_pure _ _, keeps_pure _ _⟩
  · intro e
    constructor
    · keeps_tac inert_opened (send_loop o sender _ _ inert_opened fuel)
    · keeps_tac inert_closed (send_loop o sender _ _ inert_closed fuel)

theorem catchReply_balanced (o : ResOracle) (iface : Go.NetInterface)
    (vrfy : Gen.dhcpmsg.Message → Gen.dhcpmsg.DecodedOptions → R Int) (fuel : Nat) (st st' : ResState)
    (r : Gen.dhcpmsg.Message × Gen.dhcpmsg.DecodedOptions × GoErr) (h0 : Balanced st)
    (h : (Gen.dclient.catchReply (resCliEnv o) iface vrfy fuel).run st = .ok (r, st')) :
    Balanced st' ∧ st'.opened ≤ st.opened + 1 := by
  refine balanced_of h0 (bracket_spec (open_spec o) ?_ ?_ st st' r h)
  · intro e; exact ⟨keeps_pure _ _, keeps_pure _ _⟩
  · intro e
    constructor
    · keeps_tac inert_opened (catch_loop o iface vrfy _ inert_opened fuel)
    · keeps_tac inert_closed (catch_loop o iface vrfy _ inert_closed fuel)

theorem open_fails (o : ResOracle) (iface : Go.NetInterface) (target : Bytes) (fuel : Nat) (st : ResState)
    (hf : o.openFails st.opens = true) :
    (Gen.arpping.catchARPReply (resArpEnv o) iface target fuel).run st =
      .ok (([], openErr), { st with opens := st.opens + 1 }) := by
  have ho : (resArpEnv o).OpenARPRecvSock iface st = .ok (((), openErr), { st with opens := st.opens + 1 }) := by
    show Res.open_ o st = _
    simp only [Res.open_, hf, if_true]
  simp only [Gen.arpping.catchARPReply, StateT.run, bind, StateT.bind, Except.bind, ho]
  rfl


end PsaDhcp.Proofs.CodeRes
